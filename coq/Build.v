(* Build.v — build.go: the AST-to-query translation with its flags, props,
   firstInput bookkeeping and merge rewrite, and build()'s panic recovery.
   Definitions only. *)
From XP Require Import Base F64 Doc Ast Scan Parse.
Open Scope nat_scope.
Open Scope list_scope.

Record flags := mkF { f_smart : bool; f_pos : bool; f_filter : bool }.
Definition fl_none := mkF false false false.
Definition fl_smart := mkF true false false.

Record props := mkPr { pr_posfilter : bool; pr_haspos : bool; pr_haslast : bool; pr_nonflat : bool }.
Definition pr_none := mkPr false false false false.
Definition pr_or (a b : props) : props :=
  mkPr (orb (pr_posfilter a) (pr_posfilter b)) (orb (pr_haspos a) (pr_haspos b))
       (orb (pr_haslast a) (pr_haslast b)) (orb (pr_nonflat a) (pr_nonflat b)).
Definition set_nonflat (p : props) := mkPr (pr_posfilter p) (pr_haspos p) (pr_haslast p) true.
Definition set_posfilter (p : props) (b : bool) := mkPr b (pr_haspos p) (pr_haslast p) (pr_nonflat p).
Definition set_haspos (p : props) := mkPr (pr_posfilter p) true (pr_haslast p) (pr_nonflat p).
Definition set_haslast (p : props) := mkPr (pr_posfilter p) (pr_haspos p) true (pr_nonflat p).

(* b.firstInput: the query value it points to, and whether it is the very
   query most recently returned by processNode (so that re-rooting it changes
   that query). *)
Record first := mkFi { fi_q : option query; fi_self : bool }.
Definition fi_nil := mkFi None false.

(* queryProps bits used by the builder: Merge and Reverse *)
Fixpoint q_merge (q : query) : bool :=
  match q with
  | QGroup _ => false
  | QFilter _ i _ => q_merge i
  | QNil => false
  | _ => true
  end.

(* resultType: 0 Boolean 1 Number 2 String 3 NodeSet 4 Any *)
Inductive rtype := RBoolean | RNumber | RString | RNodeSet | RAny.
Fixpoint value_type (q : query) : rtype :=
  match q with
  | QFn0 _ | QFn1 _ _ | QFn2 _ _ _ | QFn3 _ _ _ _ | QConcat _ | QPosition _ | QLast _ | QReverse _ => RAny
  | QNum _ => RNumber
  | QStr _ => RString
  | QGroup i => value_type i
  | QLogical _ _ _ | QBoolean _ _ _ => RBoolean
  | QNumeric _ _ _ | QLastFunc _ => RNumber
  | _ => RNodeSet
  end.

Definition can_be_number (q : query) : bool :=
  match value_type q with RAny => true | RNumber => true | _ => false end.

Definition axis_test (tt : ntype) (pre loc : string) (hasns : bool) (ns : string) : ntest :=
  mkTest tt pre loc hasns ns.

Definition is_context (q : query) : bool := match q with QContext => true | _ => false end.

(* the type switch of processFilter: (parent, firstInput re-rooted at a new contextQuery) *)
Definition reroot (fi : query) : option (query * query) :=
  match fi with
  | QAncestor s t i => if is_context i then None else Some (i, QAncestor s t QContext)
  | QAttribute t i => if is_context i then None else Some (i, QAttribute t QContext)
  | QChild t i => if is_context i then None else Some (i, QChild t QContext)
  | QCachedChild t i => if is_context i then None else Some (i, QCachedChild t QContext)
  | QDescendant s t i => if is_context i then None else Some (i, QDescendant s t QContext)
  | QFollowing s t i => if is_context i then None else Some (i, QFollowing s t QContext)
  | QPreceding s t i => if is_context i then None else Some (i, QPreceding s t QContext)
  | QParent t i => if is_context i then None else Some (i, QParent t QContext)
  | QSelf t i => if is_context i then None else Some (i, QSelf t QContext)
  | QGroup i => if is_context i then None else Some (i, QGroup QContext)
  | QDoD m t i => if is_context i then None else Some (i, QDoD m t QContext)
  | _ => None
  end.

Definition is_filter_node (a : anode) : bool := match a with AFilter _ _ => true | _ => false end.

Section Builder.
(* getRegexp(pattern) succeeds? (Go's regexp.Compile is a parameter of the model) *)
Variable re_ok : string -> bool.

Definition max_build_depth : nat := 1024.

Definition BR := cres (query * props * first).

Definition self_node_query : query := QSelf (axis_test NTAll "" "" false "") QContext.

Fixpoint list_of_args (l : list query) : query :=
  match l with [] => QNil | a :: r => QArg a (list_of_args r) end.

(* the axis switch of processAxis *)
Definition mk_axis (axis : string) (t : ntest) (fl : flags) (qi : query) (pr : props) : cres (query * props) :=
  if String.eqb axis "ancestor" then Ok (QAncestor false t qi, set_nonflat pr)
  else if String.eqb axis "ancestor-or-self" then Ok (QAncestor true t qi, set_nonflat pr)
  else if String.eqb axis "attribute" then Ok (QAttribute t qi, pr)
  else if String.eqb axis "child" then
    Ok (if pr_nonflat pr then QCachedChild t qi else QChild t qi, pr)
  else if String.eqb axis "descendant" then
    Ok (if f_smart fl then QDoD false t qi else QDescendant false t qi, set_nonflat pr)
  else if String.eqb axis "descendant-or-self" then
    Ok (if f_smart fl then QDoD true t qi else QDescendant true t qi, set_nonflat pr)
  else if String.eqb axis "following" then Ok (QFollowing false t qi, set_nonflat pr)
  else if String.eqb axis "following-sibling" then Ok (QFollowing true t qi, pr)
  else if String.eqb axis "parent" then Ok (QParent t qi, pr)
  else if String.eqb axis "preceding" then Ok (QPreceding false t qi, set_nonflat pr)
  else if String.eqb axis "preceding-sibling" then Ok (QPreceding true t qi, pr)
  else if String.eqb axis "self" then Ok (QSelf t qi, pr)
  else if String.eqb axis "namespace" then Err "xpath: the namespace axis is not supported"
  else Err "unknown axe type".

Definition cmp_of (op : string) : option cmpop :=
  if String.eqb op "=" then Some CEq else if String.eqb op "!=" then Some CNe
  else if String.eqb op "<" then Some CLt else if String.eqb op "<=" then Some CLe
  else if String.eqb op ">" then Some CGt else if String.eqb op ">=" then Some CGe else None.
Definition arith_of (op : string) : option arith :=
  if String.eqb op "+" then Some OAdd else if String.eqb op "-" then Some OSub
  else if String.eqb op "*" then Some OMul else if String.eqb op "div" then Some ODiv
  else if String.eqb op "mod" then Some OMod else None.

Definition index_panic : string := "runtime error: index out of range".

Fixpoint process (depth : nat) (root : anode) (fl : flags) (fi : first) {struct root} : BR :=
  if Nat.ltb max_build_depth (S depth) then Err "the xpath expressions is too complex"
  else
  let d := S depth in
  match root with
  | ANum v => Ok (QNum v, pr_none, mkFi (fi_q fi) false)
  | AStr s => Ok (QStr s, pr_none, mkFi (fi_q fi) false)
  | ARoot _ => Ok (QAbsolute, pr_none, mkFi (fi_q fi) false)
  | AVar _ _ => Err "xpath: variable is not supported"
  | AAxis axis nty pre loc prop hasns ns input =>
    (* processAxis; b.firstInput = nil at its start *)
    let t := axis_test nty pre loc hasns ns in
    let finish (r : cres (query * props)) : BR :=
        let* (q, pr) := r in Ok (q, pr, mkFi (Some q) true) in
    match input with
    | None => finish (mk_axis axis t fl QContext pr_none)
    | Some inp =>
      (* a function, so that the extracted (strict) code does not build the regular
         translation when the //name shortcut applies *)
      let normal (_ : unit) : BR :=
        let smart := andb (negb (f_filter fl))
                          (orb (String.eqb axis "descendant") (String.eqb axis "descendant-or-self")) in
        let* (qi, pr, _) := process d inp (mkF smart false false) fi_nil in
        finish (mk_axis axis t fl qi pr) in
      match inp with
      | AAxis iax itt ipre iloc _ _ _ ginput =>
        if andb (andb (negb (f_filter fl)) (String.eqb axis "child"))
                (andb (andb (String.eqb iax "descendant-or-self") (ntype_eqb itt NTAll))
                      (andb (String.eqb iloc "") (String.eqb ipre "")))
        then
          match ginput with
          | Some g =>
            let* (qg, pr, _) := process d g fl_smart fi_nil in
            finish (Ok (QDescendant false t qg, set_nonflat pr))
          | None => finish (Ok (QDescendant false t QContext, set_nonflat pr_none))
          end
        else normal tt
      | _ => normal tt
      end
    end
  | AFilter input cond =>
    let isfirst := negb (f_filter fl) in
    let fl := mkF false (f_pos fl) (f_filter fl) in       (* flags &= ^SmartDesc *)
    let* (qi, pr, fi1) := process d input (mkF (f_smart fl) (f_pos fl) true) fi in
    let* (c, prc, _) := process d cond fl fi1 in
    let prc := if orb (can_be_number c) (orb (pr_haspos prc) (pr_haslast prc)) then set_haspos prc else prc in
    let pr := if is_filter_node input then pr else set_posfilter pr false in
    let pr := if pr_haspos prc then set_posfilter pr true else pr in
    let c := if andb (pr_haspos prc) (pr_haslast prc) then
               match c with
               | QLast (QFilter np i p) => QLastFunc (QFilter np i p)
               | QPosition (QFilter np i p) => QLastFunc (QFilter np i p)
               | _ => c
               end
             else c in
    let plain := QFilter (negb (pr_haspos prc)) qi c in
    match isfirst, fi_q fi1 with
    | true, Some fq =>
      if andb (q_merge qi) (pr_posfilter pr) then
        match reroot fq with
        | Some (parent, fq') =>
          let qi' := if fi_self fi1 then fq' else qi in
          let q := QMerge parent (QFilter false qi' c) in
          Ok (q, pr, mkFi (Some q) true)
        | None =>
          let q := QFilter false qi c in Ok (q, pr, mkFi (Some q) true)
        end
      else Ok (plain, pr, mkFi (Some plain) true)
    | _, _ => Ok (plain, pr, mkFi (Some plain) true)
    end
  | AFunc _ name args =>
    (* each argument is processed with flagsEnum.None, threading firstInput *)
    let nargs := List.length args in
    let arg (a : anode) (fi : first) : BR := process d a fl_none fi in
    let fn_first (k : query -> query) : BR :=
        match args with
        | a0 :: _ => let* (q0, pr, fi') := arg a0 fi in Ok (k q0, pr, mkFi (fi_q fi') false)
        | [] => Err index_panic
        end in
    let fn_two (k : query -> query -> cres query) : BR :=
        match args with
        | a0 :: a1 :: _ =>
          let* (q0, _, fi0) := arg a0 fi in
          let* (q1, pr, fi1) := arg a1 fi0 in
          let* q := k q0 q1 in Ok (q, pr, mkFi (fi_q fi1) false)
        | [a0] => let* _ := arg a0 fi in Err index_panic
        | [] => Err index_panic
        end in
    let fn_three (k : query -> query -> query -> query) : BR :=
        match args with
        | a0 :: a1 :: a2 :: _ =>
          let* (q0, _, fi0) := arg a0 fi in
          let* (q1, _, fi1) := arg a1 fi0 in
          let* (q2, pr, fi2) := arg a2 fi1 in
          Ok (k q0 q1 q2, pr, mkFi (fi_q fi2) false)
        | _ => Err index_panic
        end in
    let default_self (k : query -> query) : BR :=
        match args with
        | a0 :: _ => let* (q0, pr, fi') := arg a0 fi in Ok (k q0, pr, mkFi (fi_q fi') false)
        | [] => let q := self_node_query in Ok (k q, pr_none, mkFi (Some q) false)
        end in
    let eqs := String.eqb name in
    if eqs "lower-case" then fn_first (QFn1 FLowerCase)
    else if eqs "starts-with" then fn_two (fun a b => Ok (QFn2 FStartsWith a b))
    else if eqs "ends-with" then fn_two (fun a b => Ok (QFn2 FEndsWith a b))
    else if eqs "contains" then fn_two (fun a b => Ok (QFn2 FContains a b))
    else if eqs "matches" then
      if negb (Nat.eqb nargs 2) then Err "xpath: matches function must have two parameters"
      else fn_two (fun a b =>
             match b with
             | QStr p => if re_ok p then Ok (QFn2 FMatches a b) else Err "matches() got error."
             | QNum _ => Err "interface conversion: interface {} is float64, not string"
             | _ => Ok (QFn2 FMatches a b)
             end)
    else if eqs "substring" then
      if Nat.ltb nargs 2 then Err "xpath: substring function must have at least two parameter"
      else if Nat.eqb nargs 3 then fn_three (QFn3 FSubstring)
      else fn_two (fun a b => Ok (QFn3 FSubstring a b QNil))
    else if orb (eqs "substring-before") (eqs "substring-after") then
      if negb (Nat.eqb nargs 2) then Err "xpath: substring-before function must have two parameters"
      else fn_two (fun a b => Ok (QFn2 (if eqs "substring-after" then FSubstringAfter else FSubstringBefore) a b))
    else if eqs "string-length" then
      if Nat.ltb nargs 1 then Err "xpath: string-length function must have at least one parameter"
      else fn_first (QFn1 FStringLength)
    else if eqs "normalize-space" then default_self (QFn1 FNormalizeSpace)
    else if eqs "replace" then
      if negb (Nat.eqb nargs 3) then Err "xpath: replace function must have three parameters"
      else fn_three (QFn3 FReplace)
    else if eqs "translate" then
      if negb (Nat.eqb nargs 3) then Err "xpath: translate function must have three parameters"
      else fn_three (QFn3 FTranslate)
    else if eqs "not" then
      if Nat.eqb nargs 0 then Err "xpath: not function must have at least one parameter"
      else fn_first (QFn1 FNot)
    else if orb (eqs "name") (orb (eqs "local-name") (eqs "namespace-uri")) then
      if Nat.ltb 1 nargs then Err "xpath: function must have at most one parameter"
      else
        let f := if eqs "name" then FName else if eqs "local-name" then FLocalName else FNamespaceURI in
        match args with
        | a0 :: _ => let* (q0, pr, fi') := arg a0 fi in Ok (QFn1 f q0, pr, mkFi (fi_q fi') false)
        | [] => Ok (QFn1 f QNil, pr_none, mkFi (fi_q fi) false)
        end
    else if eqs "true" then Ok (QFn0 FTrue, pr_none, mkFi (fi_q fi) false)
    else if eqs "false" then Ok (QFn0 FFalse, pr_none, mkFi (fi_q fi) false)
    else if eqs "last" then
      Ok (QLast (opt_default QNil (fi_q fi)), set_haslast pr_none, mkFi (fi_q fi) false)
    else if eqs "position" then
      Ok (QPosition (opt_default QNil (fi_q fi)), set_haspos pr_none, mkFi (fi_q fi) false)
    else if orb (eqs "boolean") (orb (eqs "number") (eqs "string")) then
      if Nat.ltb 1 nargs then Err "xpath: function must have at most one parameter"
      else default_self (QFn1 (if eqs "boolean" then FBoolean else if eqs "number" then FNumber else FString))
    else if eqs "count" then
      if Nat.eqb nargs 0 then Err "xpath: count(node-sets) function must with have parameters node-sets"
      else fn_first (QFn1 FCount)
    else if eqs "sum" then
      if Nat.eqb nargs 0 then Err "xpath: sum(node-sets) function must with have parameters node-sets"
      else fn_first (QFn1 FSum)
    else if orb (eqs "ceiling") (orb (eqs "floor") (eqs "round")) then
      if Nat.eqb nargs 0 then Err "xpath: ceiling(node-sets) function must with have parameters node-sets"
      else fn_first (QFn1 (if eqs "ceiling" then FCeiling else if eqs "floor" then FFloor else FRound))
    else if eqs "concat" then
      if Nat.ltb nargs 2 then Err "xpath: concat() must have at least two arguments"
      else
        let* (qs, pr, fi') :=
           (fix go (l : list anode) (fi : first) (pr : props) : cres (list query * props * first) :=
              match l with
              | [] => Ok ([], pr, fi)
              | a :: r =>
                let* (q, pr', fi') := process d a fl_none fi in
                let* (qs, pr'', fi'') := go r fi' pr' in
                Ok (q :: qs, pr'', fi'')
              end) args fi pr_none in
        Ok (QConcat (list_of_args qs), pr, mkFi (fi_q fi') false)
    else if eqs "reverse" then
      if Nat.eqb nargs 0 then Err "xpath: reverse(node-sets) function must with have parameters node-sets"
      else fn_first QReverse
    else if eqs "string-join" then
      if negb (Nat.eqb nargs 2) then Err "xpath: string-join(node-sets, separator) function requires node-set and argument"
      else fn_two (fun a b => Ok (QFn2 FStringJoin a b))
    else Err "not yet support this function"
  | AOp op l r =>
    let* (ql, prl, fi1) := process d l fl_none fi in
    let* (qr, prr, fi2) := process d r fl_none fi1 in
    let pr := pr_or prl prr in
    let fo := mkFi (fi_q fi2) false in
    match arith_of op, cmp_of op with
    | Some o, _ => Ok (QNumeric o ql qr, pr, fo)
    | _, Some o => Ok (QLogical o ql qr, pr, fo)
    | None, None =>
      if String.eqb op "or" then Ok (QBoolean true ql qr, pr, fo)
      else if String.eqb op "and" then Ok (QBoolean false ql qr, pr, fo)
      else if String.eqb op "|" then Ok (QUnion ql qr, set_nonflat pr, fo)
      else Ok (QNil, pr, fo)
    end
  | AGroup input =>
    let* (qi, pr, fi1) := process d input fl_none fi in
    let q := QGroup qi in
    match fi_q fi1 with
    | None => Ok (q, pr, mkFi (Some q) true)
    | Some _ => Ok (q, pr, mkFi (fi_q fi1) false)
    end
  end.

(* build(): parse, then processNode; every panic has become an error *)
Definition build_fuel (fuel : nat) (text : string) (ns : nsmap) : cres query :=
  let* root := parse_fuel fuel text ns in
  let* (q, _, _) := process 0 root fl_none fi_nil in
  Ok q.

End Builder.
