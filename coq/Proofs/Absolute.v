(* Proofs/Absolute.v — absolute paths and wrappers.

   Property: "an absolute expression returns the same result from every start
   node; P[true()], (P), P | P preserve the node set; not(not(P)) = boolean(P)".

   Main results
     absolute_ignores_context      ctx_free q -> sel q c1 = sel q c2 /\ eval q c1 = eval q c2
     absolute_value_ignores_context  ctx_free_val q -> eval q c1 = eval q c2
     select_ignores_context / evaluate_ignores_context   the same for Api.select / Api.evaluate
     group_same_nodes              (P) has the node list of P
     filter_true_same_nodes        P[true()] has the node list of P
     union_self                    P | P = the node set of P, without duplicates
     not_not_boolean               not(not(P)) = boolean(P) for node-set / boolean P
*)
From XP Require Import Base F64 Doc Ast Hash Eval Api.
From XP.Proofs Require Import DocOrder HashInj Filter.
Open Scope string_scope.
Open Scope nat_scope.
Open Scope list_scope.

(* ------------------------------------------------------------------ *)
(** * Context-free queries *)

(* Queries whose Select AND Evaluate do not look at the context node.
   The predicate of a filter is arbitrary: it is evaluated at the candidate
   nodes, never at the context node; likewise the child query of a merge. *)
Inductive ctx_free : query -> Prop :=
| CF_absolute : ctx_free QAbsolute
| CF_nil : ctx_free QNil
| CF_nop : ctx_free QNop
| CF_num v : ctx_free (QNum v)
| CF_str s : ctx_free (QStr s)
| CF_fn0 f : ctx_free (QFn0 f)
| CF_ancestor self t i : ctx_free i -> ctx_free (QAncestor self t i)
| CF_attribute t i : ctx_free i -> ctx_free (QAttribute t i)
| CF_child t i : ctx_free i -> ctx_free (QChild t i)
| CF_cached_child t i : ctx_free i -> ctx_free (QCachedChild t i)
| CF_descendant self t i : ctx_free i -> ctx_free (QDescendant self t i)
| CF_following sib t i : ctx_free i -> ctx_free (QFollowing sib t i)
| CF_preceding sib t i : ctx_free i -> ctx_free (QPreceding sib t i)
| CF_parent t i : ctx_free i -> ctx_free (QParent t i)
| CF_self t i : ctx_free i -> ctx_free (QSelf t i)
| CF_dod m t i : ctx_free i -> ctx_free (QDoD m t i)
| CF_group i : ctx_free i -> ctx_free (QGroup i)
| CF_reverse i : ctx_free i -> ctx_free (QReverse i)
| CF_filter np i p : ctx_free i -> ctx_free (QFilter np i p)
| CF_union l r : ctx_free l -> ctx_free r -> ctx_free (QUnion l r)
| CF_merge i ch : ctx_free i -> ctx_free (QMerge i ch)
| CF_boolean isor l r : ctx_free l -> ctx_free r -> ctx_free (QBoolean isor l r)
| CF_lastfunc i : ctx_free i -> ctx_free (QLastFunc i)
| CF_numeric op l r : ctx_free l -> ctx_free r -> ctx_free (QNumeric op l r)
| CF_concat args : ctx_free args -> ctx_free (QConcat args)
| CF_arg a rest : ctx_free a -> ctx_free rest -> ctx_free (QArg a rest)
| CF_fn1 f a : ctx_free a -> a <> QNil -> ctx_free (QFn1 f a)
| CF_fn2 f a b : ctx_free a -> ctx_free b -> ctx_free (QFn2 f a b)
| CF_fn3 f a b x : ctx_free a -> ctx_free b -> ctx_free x -> ctx_free (QFn3 f a b x).

(* Queries whose Evaluate does not look at the context node (their Select
   may: a comparison used as a node-set query returns the context node). *)
Inductive ctx_free_val : query -> Prop :=
| CV_base q : ctx_free q -> ctx_free_val q
| CV_group i : ctx_free_val i -> ctx_free_val (QGroup i)
| CV_logical op l r : ctx_free_val l -> ctx_free_val r -> ctx_free_val (QLogical op l r)
| CV_numeric op l r : ctx_free_val l -> ctx_free_val r -> ctx_free_val (QNumeric op l r)
| CV_boolean isor l r : ctx_free_val l -> ctx_free_val r -> ctx_free_val (QBoolean isor l r)
| CV_concat args : ctx_free_val args -> ctx_free_val (QConcat args)
| CV_arg a rest : ctx_free_val a -> ctx_free_val rest -> ctx_free_val (QArg a rest)
| CV_fn1 f a : ctx_free_val a ->
               match f with FName | FLocalName | FNamespaceURI => False | _ => True end ->
               ctx_free_val (QFn1 f a)
| CV_fn2 f a b : ctx_free_val a -> ctx_free_val b -> ctx_free_val (QFn2 f a b)
| CV_fn3 f a b x : ctx_free_val a -> ctx_free_val b -> ctx_free_val x -> ctx_free_val (QFn3 f a b x).

Section Absolute.
Variable D : tree.
Variable has_ns : bool.
Variable hcode : node -> N.
Variable re_match : string -> string -> option bool.
Variable re_numsubexp : string -> nat.
Variable re_replace_all : string -> string -> string -> string.

Notation SEL := (sel D has_ns hcode re_match re_numsubexp re_replace_all).
Notation EVAL := (eval D has_ns hcode re_match re_numsubexp re_replace_all).

(* ------------------------------------------------------------------ *)
(** * Unfolding equations (all by conversion) *)

Lemma sel_unf : forall q c, SEL q c = sel_body D has_ns hcode SEL EVAL q c.
Proof. exact (sel_unfold D has_ns hcode re_match re_numsubexp re_replace_all). Qed.

(* the queries that evaluate to the node-set they select *)
Definition nodeset_query (q : query) : bool :=
  match q with
  | QContext | QAbsolute | QAncestor _ _ _ | QAttribute _ _ | QChild _ _ | QCachedChild _ _
  | QDescendant _ _ _ | QFollowing _ _ _ | QPreceding _ _ _ | QParent _ _ | QSelf _ _
  | QFilter _ _ _ | QReverse _ | QUnion _ _ | QDoD _ _ _ | QMerge _ _ => true
  | _ => false
  end.

Lemma eval_nodeset : forall q c,
  nodeset_query q = true -> EVAL q c = do l <- SEL q c; Val (VNodes l).
Proof. intros q c H. destruct q; try discriminate H; reflexivity. Qed.

Lemma eval_nil : forall c, EVAL QNil c = Val (VStr ""). Proof. reflexivity. Qed.
Lemma eval_nop : forall c, EVAL QNop c = Val VNil. Proof. reflexivity. Qed.
Lemma eval_num : forall v c, EVAL (QNum v) c = Val (VNum v). Proof. reflexivity. Qed.
Lemma eval_str : forall s c, EVAL (QStr s) c = Val (VStr s). Proof. reflexivity. Qed.
Lemma eval_fn0 : forall f c, EVAL (QFn0 f) c = Val (VBool (match f with FTrue => true | FFalse => false end)).
Proof. intros f c. destruct f; reflexivity. Qed.
Lemma eval_group : forall i c, EVAL (QGroup i) c = EVAL i c. Proof. reflexivity. Qed.
Lemma eval_lastfunc : forall i c,
  EVAL (QLastFunc i) c = do l <- SEL i c; Val (VNum (of_Z (Z.of_nat (List.length l)))).
Proof. reflexivity. Qed.
Lemma eval_numeric : forall op l r c,
  EVAL (QNumeric op l r) c =
  do m <- EVAL l c; do n <- EVAL r c; Val (VNum (arith_op op (as_number D m) (as_number D n))).
Proof. reflexivity. Qed.
Lemma eval_concat : forall args c, EVAL (QConcat args) c = EVAL args c. Proof. reflexivity. Qed.
Lemma eval_arg : forall a rest c,
  EVAL (QArg a rest) c =
  do v <- EVAL a c;
  do r <- EVAL rest c;
  Val (VStr ((match v with VStr s => s | VNodes l => opt_default "" (first_value D l) | _ => "" end)
             ++ (match r with VStr s => s | _ => "" end))).
Proof. reflexivity. Qed.
Lemma eval_boolean_sel : forall isor l r c,
  EVAL (QBoolean isor l r) c =
  do m <- EVAL l c; do a <- as_bool m;
  if isor then (if a then Val (VBool true) else do n <- EVAL r c; do b <- as_bool n; Val (VBool b))
  else (if a then do n <- EVAL r c; do b <- as_bool n; Val (VBool b) else Val (VBool false)).
Proof. reflexivity. Qed.
Lemma eval_logical' : forall op a b n,
  EVAL (QLogical op a b) n = do x <- EVAL a n; do y <- EVAL b n; compare_values D op x y.
Proof. reflexivity. Qed.

(* the bodies of the function queries, as functions of the values of their
   arguments (copied from Eval.v; the equations below are by conversion) *)
Local Notation as_string := (Eval.as_string D).
Local Notation as_number := (Eval.as_number D).
Local Notation str_or_first := (Eval.str_or_first D).
Local Notation values_of := (Eval.values_of D).
Local Notation query_test := (Eval.query_test D has_ns).

Definition fn1_body (f : fn1) (a : query) (ea : outcome value) (tgt : outcome (option node)) : outcome value :=
    match f with
    | FName | FLocalName | FNamespaceURI =>
      do target <- tgt;
      match target with
      | None => Val (VStr "")
      | Some n =>
        match f with
        | FName => let p := node_prefix D n in
                   Val (VStr (if String.eqb p "" then local_name D n else (p ++ ":" ++ local_name D n)%string))
        | FLocalName => Val (VStr (local_name D n))
        | _ => Val (VStr (if has_ns then node_ns D n else node_prefix D n))
        end
      end
    | _ =>
      do v <- ea;
      match f with
      | FCount => Val (VNum (match v with
                             | VNodes l => of_Z (Z.of_nat (List.length (filter (query_test a) (nodes_of l))))
                             | _ => fzero end))
      | FSum =>
        match v with
        | VNodes l =>
          Val (VNum (fold_left (fun acc s => let x := string_to_number s in if is_nan x then acc else fadd acc x)
                               (values_of l) fzero))
        | VNum f => Val (VNum f)
        | VStr s => let x := string_to_number s in
                    if is_nan x then Complaint "sum() function argument type must be a node-set or number"
                    else Val (VNum x)
        | _ => Val (VNum fzero)
        end
      | FCeiling => Val (VNum (fceil (as_number v)))
      | FFloor => Val (VNum (ffloor (as_number v)))
      | FRound => Val (VInt (go_int (fround_away (as_number v))))
      | FBoolean => do b <- as_bool v; Val (VBool b)
      | FNumber => Val (VNum (as_number v))
      | FString => do s <- as_string v; Val (VStr s)
      | FNot => Val (VBool (match v with
                            | VBool b => negb b
                            | VNodes l => match l with [] => true | _ => false end
                            | _ => false end))
      | FNormalizeSpace => Val (VStr (normalize_space (str_or_first v)))
      | FStringLength => Val (VNum (of_Z (Z.of_nat (String.length (str_or_first v)))))
      | FLowerCase => do s <- as_string v; Val (VStr (to_lower s))
      | _ => Val VNil
      end
    end.

Definition fn2_body (f : fn2) (a : query) (ea eb : outcome value) : outcome value :=
    do va <- ea;
    match f with
    | FStartsWith | FEndsWith | FContains =>
      let nm := match f with FStartsWith => "starts-with" | FEndsWith => "ends-with" | _ => "contains" end in
      match va with
      | VStr _ | VNodes _ =>
        let m := str_or_first va in
        do vb <- eb;
        match vb with
        | VStr n => Val (VBool (match f with
                                | FStartsWith => prefix n m
                                | FEndsWith => has_suffix m n
                                | _ => contains m n end))
        | _ => Complaint (nm ++ "() function argument type must be string")%string
        end
      | _ => Complaint (nm ++ "() function argument type must be string")%string
      end
    | FMatches =>
      let s := str_or_first va in
      do vb <- eb;
      match vb with
      | VStr p => match re_match p s with
                  | Some r => Val (VBool r)
                  | None => Complaint "matches() function second argument is not a valid regexp pattern"
                  end
      | _ => Complaint "matches() function second argument type must be string"
      end
    | FSubstringBefore | FSubstringAfter =>
      match va with
      | VNodes [] => Val (VStr "")     (* if node == nil { return "" } before the second argument is looked at *)
      | _ =>
      let s := str_or_first va in
      do vb <- eb;
      let w := str_or_first vb in
      match index_of w s with
      | None => Val (VStr "")
      | Some i => Val (VStr (match f with
                             | FSubstringAfter => skipn_s (i + String.length w) s
                             | _ => firstn_s i s end))
      end
      end
    | FStringJoin =>
      (* the separator (second argument) is evaluated first *)
      do vb <- eb;
      let sep := str_or_first vb in
      match va with
      | VStr s => Val (VStr s)
      | VNodes l => Val (VStr (join sep (map (node_value D) (filter (query_test a) (nodes_of l)))))
      | _ => Val (VStr "")
      end
    end.

Definition fn3_body (f : fn3) (x : query) (ea eb ex : outcome value) : outcome value :=
    match f with
    | FSubstring =>
      do va <- ea;
      match va with
      | VNodes [] => Val (VStr "")     (* if node == nil { return "" } before the other arguments are looked at *)
      | _ =>
      let m := str_or_first va in
      do vb <- eb;
      match vb with
      | VNum start =>
        match x with
        | QNil => Val (VStr (substring_go m start None))
        | _ =>
          (* the two-argument checks come first in the Go code only when arg3 is nil *)
          do vx <- ex;
          match vx with
          | VNum len => Val (VStr (substring_go m start (Some len)))
          | _ => Complaint "substring() function second argument type must be number"
          end
        end
      | _ => Complaint "substring() function first argument type must be number"
      end
      end
    | FTranslate =>
      do va <- ea; do s <- as_string va;
      do vb <- eb; do src <- as_string vb;
      do vx <- ex; do dst <- as_string vx;
      Val (VStr (translate s src dst))
    | FReplace =>
      do va <- ea; do s <- as_string va;
      do vb <- eb; do src <- as_string vb;
      do vx <- ex; do dst <- as_string vx;
      match re_match src "" with
      | None => Complaint "replace() function second argument is not a valid regexp pattern"
      | Some _ => Val (VStr (re_replace_all src s (rewrite_refs (re_numsubexp src) dst)))
      end
    end.

Definition fn1_target (a : query) (c : node) : outcome (option node) :=
  match a with
  | QNil => Val (Some c)
  | _ => do l <- SEL a c; Val (match l with [] => None | i :: _ => Some (it_node i) end)
  end.

Lemma eval_fn1 : forall f a c, EVAL (QFn1 f a) c = fn1_body f a (EVAL a c) (fn1_target a c).
Proof. intros f a c. destruct f; reflexivity. Qed.

Lemma eval_fn2 : forall f a b c, EVAL (QFn2 f a b) c = fn2_body f a (EVAL a c) (EVAL b c).
Proof. intros f a b c. destruct f; reflexivity. Qed.

Lemma eval_fn3 : forall f a b x c,
  EVAL (QFn3 f a b x) c = fn3_body f x (EVAL a c) (EVAL b c) (EVAL x c).
Proof. intros f a b x c. destruct f; reflexivity. Qed.

Lemma fn1_target_ctx : forall a c1 c2,
  a <> QNil -> SEL a c1 = SEL a c2 -> fn1_target a c1 = fn1_target a c2.
Proof.
  intros a c1 c2 N E. unfold fn1_target. destruct a; try congruence; now rewrite E.
Qed.

(* for the functions that do not use the target node, the target is irrelevant *)
Lemma fn1_body_target_irrelevant : forall f a ea t1 t2,
  match f with FName | FLocalName | FNamespaceURI => False | _ => True end ->
  fn1_body f a ea t1 = fn1_body f a ea t2.
Proof. intros f a ea t1 t2 H. destruct f; try contradiction; reflexivity. Qed.

(* ------------------------------------------------------------------ *)
(** * Main theorem *)

Lemma ns_case : forall q c1 c2,
  nodeset_query q = true -> SEL q c1 = SEL q c2 ->
  SEL q c1 = SEL q c2 /\ EVAL q c1 = EVAL q c2.
Proof.
  intros q c1 c2 N E. split; [exact E|]. rewrite !eval_nodeset by exact N. now rewrite E.
Qed.

Ltac sel_step E := rewrite !sel_unf; cbn [sel_body]; rewrite ?E; reflexivity.

Theorem absolute_ignores_context : forall q,
  ctx_free q -> forall c1 c2, SEL q c1 = SEL q c2 /\ EVAL q c1 = EVAL q c2.
Proof.
  induction 1 as
    [ | | | v | s | f
    | self t i Hi IH | t i Hi IH | t i Hi IH | t i Hi IH | self t i Hi IH
    | sib t i Hi IH | sib t i Hi IH | t i Hi IH | t i Hi IH | m t i Hi IH
    | i Hi IH | i Hi IH | np i p Hi IH | l r Hl IHl Hr IHr | i ch Hi IH
    | isor l r Hl IHl Hr IHr | i Hi IH | op l r Hl IHl Hr IHr
    | args Ha IHa | a rest Ha IHa Hr IHr
    | f a Ha IHa Na | f a b Ha IHa Hb IHb | f a b x Ha IHa Hb IHb Hx IHx ];
    intros c1 c2.
  - (* QAbsolute *) apply ns_case; reflexivity.
  - (* QNil *) split; reflexivity.
  - (* QNop *) split; reflexivity.
  - (* QNum *) split; reflexivity.
  - (* QStr *) split; reflexivity.
  - (* QFn0 *) split; [reflexivity|]. now rewrite !eval_fn0.
  - (* QAncestor *) destruct (IH c1 c2) as [E _]. apply ns_case; [reflexivity|]. sel_step E.
  - (* QAttribute *) destruct (IH c1 c2) as [E _]. apply ns_case; [reflexivity|]. sel_step E.
  - (* QChild *) destruct (IH c1 c2) as [E _]. apply ns_case; [reflexivity|]. sel_step E.
  - (* QCachedChild *) destruct (IH c1 c2) as [E _]. apply ns_case; [reflexivity|]. sel_step E.
  - (* QDescendant *) destruct (IH c1 c2) as [E _]. apply ns_case; [reflexivity|]. sel_step E.
  - (* QFollowing *) destruct (IH c1 c2) as [E _]. apply ns_case; [reflexivity|].
    destruct sib; sel_step E.
  - (* QPreceding *) destruct (IH c1 c2) as [E _]. apply ns_case; [reflexivity|].
    destruct sib; sel_step E.
  - (* QParent *) destruct (IH c1 c2) as [E _]. apply ns_case; [reflexivity|]. sel_step E.
  - (* QSelf *) destruct (IH c1 c2) as [E _]. apply ns_case; [reflexivity|]. sel_step E.
  - (* QDoD *) destruct (IH c1 c2) as [E _]. apply ns_case; [reflexivity|]. sel_step E.
  - (* QGroup *) destruct (IH c1 c2) as [E E']. split; [sel_step E|].
    rewrite !eval_group. exact E'.
  - (* QReverse *) destruct (IH c1 c2) as [E _]. apply ns_case; [reflexivity|]. sel_step E.
  - (* QFilter: the predicate is evaluated at the candidates only *)
    destruct (IH c1 c2) as [E _]. apply ns_case; [reflexivity|].
    rewrite !sel_filter. now rewrite E.
  - (* QUnion *) destruct (IHl c1 c2) as [El _]. destruct (IHr c1 c2) as [Er _].
    apply ns_case; [reflexivity|]. rewrite !sel_unf; cbn [sel_body]. now rewrite El, Er.
  - (* QMerge: the child query is started at the nodes of the input only *)
    destruct (IH c1 c2) as [E _]. apply ns_case; [reflexivity|]. sel_step E.
  - (* QBoolean *) destruct (IHl c1 c2) as [El El']. destruct (IHr c1 c2) as [Er Er'].
    split.
    + rewrite !sel_unf; cbn [sel_body]. now rewrite El, Er.
    + rewrite !eval_boolean_sel. now rewrite El', Er'.
  - (* QLastFunc *) destruct (IH c1 c2) as [E _]. split; [reflexivity|].
    rewrite !eval_lastfunc. now rewrite E.
  - (* QNumeric *) destruct (IHl c1 c2) as [_ El]. destruct (IHr c1 c2) as [_ Er].
    split; [reflexivity|]. rewrite !eval_numeric. now rewrite El, Er.
  - (* QConcat *) destruct (IHa c1 c2) as [_ E]. split; [reflexivity|].
    rewrite !eval_concat. exact E.
  - (* QArg *) destruct (IHa c1 c2) as [_ Ea]. destruct (IHr c1 c2) as [_ Er].
    split; [reflexivity|]. rewrite !eval_arg. now rewrite Ea, Er.
  - (* QFn1 *) destruct (IHa c1 c2) as [Es Ee]. split; [reflexivity|].
    rewrite !eval_fn1. rewrite Ee. now rewrite (fn1_target_ctx a c1 c2 Na Es).
  - (* QFn2 *) destruct (IHa c1 c2) as [_ Ea]. destruct (IHb c1 c2) as [_ Eb].
    split; [reflexivity|]. rewrite !eval_fn2. now rewrite Ea, Eb.
  - (* QFn3 *) destruct (IHa c1 c2) as [_ Ea]. destruct (IHb c1 c2) as [_ Eb].
    destruct (IHx c1 c2) as [_ Ex].
    split; [reflexivity|]. rewrite !eval_fn3. now rewrite Ea, Eb, Ex.
Qed.

Corollary absolute_sel_ignores_context : forall q c1 c2, ctx_free q -> SEL q c1 = SEL q c2.
Proof. intros q c1 c2 H. now apply absolute_ignores_context. Qed.

Corollary absolute_eval_ignores_context : forall q c1 c2, ctx_free q -> EVAL q c1 = EVAL q c2.
Proof. intros q c1 c2 H. now apply absolute_ignores_context. Qed.

(* in particular: the same result as from the root *)
Corollary absolute_from_root : forall q c, ctx_free q -> SEL q c = SEL q root_node.
Proof. intros q c H. now apply absolute_sel_ignores_context. Qed.

Theorem absolute_value_ignores_context : forall q,
  ctx_free_val q -> forall c1 c2, EVAL q c1 = EVAL q c2.
Proof.
  induction 1 as
    [ q Hq | i Hi IH | op l r Hl IHl Hr IHr | op l r Hl IHl Hr IHr | isor l r Hl IHl Hr IHr
    | args Ha IHa | a rest Ha IHa Hr IHr | f a Ha IHa Hf
    | f a b Ha IHa Hb IHb | f a b x Ha IHa Hb IHb Hx IHx ]; intros c1 c2.
  - now apply absolute_ignores_context.
  - rewrite !eval_group. apply IH.
  - rewrite !eval_logical'. now rewrite (IHl c1 c2), (IHr c1 c2).
  - rewrite !eval_numeric. now rewrite (IHl c1 c2), (IHr c1 c2).
  - rewrite !eval_boolean_sel. now rewrite (IHl c1 c2), (IHr c1 c2).
  - rewrite !eval_concat. apply IHa.
  - rewrite !eval_arg. now rewrite (IHa c1 c2), (IHr c1 c2).
  - rewrite !eval_fn1. rewrite (IHa c1 c2). now apply fn1_body_target_irrelevant.
  - rewrite !eval_fn2. now rewrite (IHa c1 c2), (IHb c1 c2).
  - rewrite !eval_fn3. now rewrite (IHa c1 c2), (IHb c1 c2), (IHx c1 c2).
Qed.

(* a filter whose input is absolute, whatever the predicate: /a/b[.. = ../c] *)
Corollary absolute_filter_any_predicate : forall np i p c1 c2,
  ctx_free i -> SEL (QFilter np i p) c1 = SEL (QFilter np i p) c2.
Proof. intros np i p c1 c2 H. apply absolute_sel_ignores_context. now constructor. Qed.

(* ------------------------------------------------------------------ *)
(** * Wrappers *)

Lemma nodes_of_regroup : forall l k, nodes_of (regroup k l) = nodes_of l.
Proof.
  induction l as [|it l IH]; intros k; [reflexivity|].
  cbn [regroup nodes_of map it_node]. f_equal. apply IH.
Qed.

Lemma regroup_number_from : forall l k, regroup k l = number_from k 0 (nodes_of l).
Proof.
  induction l as [|it l IH]; intros k; [reflexivity|].
  cbn [regroup nodes_of map number_from]. f_equal. apply IH.
Qed.

Lemma sel_group : forall i c, SEL (QGroup i) c = do l <- SEL i c; Val (regroup 1 l).
Proof. intros i c. rewrite sel_unf. reflexivity. Qed.

(* (P): same nodes in the same order; only the position counters are renumbered *)
Theorem group_same_nodes : forall i c,
  omap nodes_of (SEL (QGroup i) c) = omap nodes_of (SEL i c).
Proof.
  intros i c. rewrite sel_group. destruct (SEL i c) as [l|m|k]; cbn [obind omap]; try reflexivity.
  now rewrite nodes_of_regroup.
Qed.

Corollary group_same_nodes_val : forall i c l,
  SEL i c = Val l ->
  SEL (QGroup i) c = Val (numbered (nodes_of l)).
Proof. intros i c l H. rewrite sel_group, H. cbn [obind]. now rewrite regroup_number_from. Qed.

(* P[true()] *)
Lemma filter_go_true : forall l pm,
  exists r, filter_go D has_ns hcode re_match re_numsubexp re_replace_all (QFn0 FTrue) l pm = Val r /\
            nodes_of r = nodes_of l.
Proof.
  induction l as [|it l IH]; intros pm.
  - exists []. split; reflexivity.
  - rewrite filter_go_cons, eval_fn0_true. cbn [obind truth_of_filter].
    destruct (IH (pm_set pm (it_lvl it) (S (pm_get pm (it_lvl it))))) as (r & Hr & Hn).
    rewrite Hr. cbn [obind]. eexists. split; [reflexivity|].
    cbn [nodes_of map it_node]. f_equal. exact Hn.
Qed.

Theorem filter_true_same_nodes : forall np i c,
  omap nodes_of (SEL (QFilter np i (QFn0 FTrue)) c) = omap nodes_of (SEL i c).
Proof.
  intros np i c. rewrite sel_filter. destruct (SEL i c) as [l|m|k]; cbn [obind omap]; try reflexivity.
  destruct (filter_go_true l []) as (r & Hr & Hn). rewrite Hr. unfold omap. cbn [obind]. now rewrite Hn.
Qed.

(* P[false()] is empty *)
Lemma filter_go_false : forall l pm,
  filter_go D has_ns hcode re_match re_numsubexp re_replace_all (QFn0 FFalse) l pm = Val [].
Proof.
  induction l as [|it l IH]; intros pm; [reflexivity|].
  rewrite filter_go_cons, eval_fn0_false. cbn [obind truth_of_filter]. apply IH.
Qed.

Theorem filter_false_empty : forall np i c l,
  SEL i c = Val l -> SEL (QFilter np i (QFn0 FFalse)) c = Val [].
Proof. intros np i c l H. rewrite sel_filter, H. cbn [obind]. apply filter_go_false. Qed.

(* ---- P | P ---- *)

Lemma dedup_first_filter : forall n l,
  filter (fun m => negb (node_eqb n m)) (dedup_first l)
  = dedup_first (filter (fun m => negb (node_eqb n m)) l).
Proof.
  intros n. induction l as [|m l IH]; [reflexivity|].
  cbn [dedup_first filter]. destruct (node_eqb n m) eqn:E; cbn [negb].
  - apply node_eqb_eq in E. subst m. rewrite <- IH.
    rewrite HashInj.filter_filter. apply filter_ext. intros a. now rewrite andb_diag.
  - cbn [dedup_first]. f_equal. rewrite <- IH.
    rewrite !HashInj.filter_filter. apply filter_ext. intros a. apply andb_comm.
Qed.

Lemma filter_length_le : forall (f : node -> bool) l, List.length (filter f l) <= List.length l.
Proof.
  intros f. induction l as [|x l IH]; cbn [filter List.length]; [lia|].
  destruct (f x); cbn [List.length]; lia.
Qed.

Lemma dedup_first_absorb : forall k l1 l2,
  List.length l1 <= k -> (forall x, In x l2 -> In x l1) ->
  dedup_first (l1 ++ l2) = dedup_first l1.
Proof.
  induction k as [|k IH]; intros l1 l2 Hk Hin.
  - destruct l1; [|cbn in Hk; lia]. destruct l2 as [|x l2]; [reflexivity|].
    exfalso. apply (Hin x). now left.
  - destruct l1 as [|n l1].
    + destruct l2 as [|x l2]; [reflexivity|]. exfalso. apply (Hin x). now left.
    + cbn [app dedup_first]. f_equal. rewrite !dedup_first_filter, filter_app.
      apply IH.
      * pose proof (filter_length_le (fun m => negb (node_eqb n m)) l1). cbn in Hk. lia.
      * intros x Hx. apply filter_In in Hx. destruct Hx as [Hx Hne].
        apply filter_In. split; [|exact Hne].
        destruct (Hin x Hx) as [->|H]; [|exact H].
        now rewrite node_eqb_refl in Hne.
Qed.

Lemma dedup_first_twice : forall l, dedup_first (l ++ l) = dedup_first l.
Proof. intros l. apply (dedup_first_absorb (List.length l)); auto. Qed.

Theorem union_self : forall i c l,
  SEL i c = Val l ->
  exists u,
    SEL (QUnion i i) c = Val u /\
    NoDup (nodes_of u) /\
    (forall x, In x (nodes_of u) -> In x (nodes_of l)) /\
    (hash_ok hcode (nodes_of l) ->
       (forall x, In x (nodes_of u) <-> In x (nodes_of l)) /\
       nodes_of u = dedup_first (nodes_of l) /\
       (NoDup (nodes_of l) -> nodes_of u = nodes_of l)).
Proof.
  intros i c l H.
  destruct (sel_union D has_ns hcode re_match re_numsubexp re_replace_all i i c l l H H)
    as (u & Hu & ND & Hs & Hok).
  exists u. split; [exact Hu|]. split; [exact ND|]. split.
  - intros x Hx. destruct (Hs x Hx); assumption.
  - intros OK.
    assert (OK2 : hash_ok hcode (nodes_of l ++ nodes_of l)).
    { eapply hash_ok_incl; [|exact OK]. intros x Hx. apply in_app_or in Hx. tauto. }
    destruct (Hok OK2) as [Hm He]. split; [|split].
    + intros x. rewrite Hm. tauto.
    + rewrite He. apply dedup_first_twice.
    + intros NDl. rewrite He, dedup_first_twice. now apply dedup_first_id.
Qed.

(* ---- not(not(P)) = boolean(P) ---- *)

(* general form: also when evaluating P fails; false only for strings,
   numbers, ints and nil (see the examples below) *)
Theorem not_not_boolean_gen : forall i c,
  match EVAL i c with
  | Val (VNum _) | Val (VStr _) | Val (VInt _) | Val VNil => False
  | _ => True
  end ->
  EVAL (QFn1 FNot (QFn1 FNot i)) c = EVAL (QFn1 FBoolean i) c.
Proof.
  intros i c H. rewrite (eval_not _ _ _ _ _ _ (QFn1 FNot i)), (eval_not _ _ _ _ _ _ i), eval_boolean_fn.
  destruct (EVAL i c) as [v|m|k]; cbn [obind]; try reflexivity.
  destruct v as [b|f|s|l|z|]; try contradiction; cbn [obind as_bool].
  - now rewrite negb_involutive.
  - destruct l; reflexivity.
Qed.

Theorem not_not_boolean : forall i c,
  (exists l, EVAL i c = Val (VNodes l)) \/ (exists b, EVAL i c = Val (VBool b)) ->
  EVAL (QFn1 FNot (QFn1 FNot i)) c = EVAL (QFn1 FBoolean i) c.
Proof.
  intros i c [[l H]|[b H]]; apply not_not_boolean_gen; now rewrite H.
Qed.

End Absolute.

Print Assumptions absolute_ignores_context.
Print Assumptions absolute_value_ignores_context.
Print Assumptions group_same_nodes.
Print Assumptions filter_true_same_nodes.
Print Assumptions union_self.
Print Assumptions not_not_boolean.

(* ------------------------------------------------------------------ *)
(** * The same at the level of Expr.Select / Expr.Evaluate *)

Theorem select_ignores_context : forall rm rn rr hcode D has_ns q c1 c2,
  ctx_free q ->
  select rm rn rr hcode D has_ns q c1 = select rm rn rr hcode D has_ns q c2.
Proof.
  intros rm rn rr hcode D has_ns q c1 c2 H. unfold select.
  now rewrite (absolute_sel_ignores_context D has_ns (hcode D) rm rn rr q c1 c2 H).
Qed.

Theorem evaluate_ignores_context : forall rm rn rr hcode D has_ns q c1 c2,
  ctx_free q ->
  evaluate rm rn rr hcode D has_ns q c1 = evaluate rm rn rr hcode D has_ns q c2.
Proof.
  intros rm rn rr hcode D has_ns q c1 c2 H. unfold evaluate.
  rewrite (absolute_eval_ignores_context D has_ns (hcode D) rm rn rr q c1 c2 H).
  now rewrite (select_ignores_context rm rn rr hcode D has_ns q c1 c2 H).
Qed.

Print Assumptions select_ignores_context.
Print Assumptions evaluate_ignores_context.

(* ================================================================== *)
(** * Examples *)

Module AbsoluteExamples.
Import DocOrder.Examples.

(* doc = <a x="1" y="2"><b z="3"><d/></b>text<c><e/></c></a> *)
Notation SELx := (sel doc false (fun _ => 0%N) (fun _ _ => None) (fun _ => 0) (fun _ s _ => s)).
Notation EVALx := (eval doc false (fun _ => 0%N) (fun _ _ => None) (fun _ => 0) (fun _ s _ => s)).

Definition elem : ntest := mkTest NTElem "" "" false "".
(* /a/* *)
Definition kids : query := QChild elem (QChild (named "a") QAbsolute).
(* /a/*[child::d]  -- the predicate is relative, the filter is still absolute *)
Definition q_abs : query := QFilter true kids (QChild (named "d") QContext).

Example q_abs_ctx_free : ctx_free q_abs.
Proof. repeat constructor. Qed.

Example q_abs_from_everywhere :
  run q_abs root_node = Val [e [0;0]] /\
  run q_abs (e [0;2;0]) = Val [e [0;0]] /\
  run q_abs (a [0] 1) = Val [e [0;0]].
Proof. repeat split; vm_compute; reflexivity. Qed.

(* count(kids) = 2 : evaluation is context free, selection is not *)
Definition q_cmp : query := QLogical CEq (QFn1 FCount kids) (QNum (of_Z 2)).
Example q_cmp_ctx_free_val : ctx_free_val q_cmp.
Proof.
  apply CV_logical; apply CV_base; repeat constructor. discriminate.
Qed.
Example q_cmp_eval : EVALx q_cmp root_node = Val (VBool true) /\ EVALx q_cmp (e [0;2]) = Val (VBool true).
Proof. split; vm_compute; reflexivity. Qed.
Example q_cmp_sel_depends_on_context :
  run q_cmp root_node = Val [root_node] /\ run q_cmp (e [0;2]) = Val [e [0;2]].
Proof. split; vm_compute; reflexivity. Qed.

(* a relative path is not context free *)
Example relative_depends :
  run (QChild elem QContext) root_node = Val [e [0]] /\
  run (QChild elem QContext) (e [0]) = Val [e [0;0]; e [0;2]].
Proof. split; vm_compute; reflexivity. Qed.

(* wrappers *)
Example ex_group : run (QGroup kids) root_node = run kids root_node.
Proof. vm_compute. reflexivity. Qed.
Example ex_true : run (QFilter true kids (QFn0 FTrue)) root_node = run kids root_node.
Proof. vm_compute. reflexivity. Qed.

(* P | P with a collision-free identity code *)
Definition code (n : node) : N :=
  N.of_nat (List.fold_left (fun acc i => acc * 10 + S i) (npath n) 0) * 10
  + match nattr n with None => 0 | Some i => N.of_nat (S i) end.
Example ex_union_self :
  omap nodes_of (sel doc false code (fun _ _ => None) (fun _ => 0) (fun _ s _ => s) (QUnion kids kids) root_node)
  = Val [e [0;0]; e [0;2]].
Proof. vm_compute. reflexivity. Qed.
Example ex_union_self_hash_ok : hash_ok code [e [0;0]; e [0;2]].
Proof.
  intros x y [<-|[<-|[]]] [<-|[<-|[]]]; vm_compute; intros H; try reflexivity; discriminate.
Qed.

(* not(not(P)) = boolean(P) for a node-set P ... *)
Example ex_not_not :
  EVALx (QFn1 FNot (QFn1 FNot kids)) root_node = Val (VBool true) /\
  EVALx (QFn1 FBoolean kids) root_node = Val (VBool true).
Proof. split; vm_compute; reflexivity. Qed.
(* ... but NOT for the empty string or the number 0: the engine's not() maps
   every non-boolean, non-node-set argument to false *)
Example ex_not_not_string :
  EVALx (QFn1 FNot (QFn1 FNot (QStr ""))) root_node = Val (VBool true) /\
  EVALx (QFn1 FBoolean (QStr "")) root_node = Val (VBool false).
Proof. split; vm_compute; reflexivity. Qed.
Example ex_not_not_zero :
  EVALx (QFn1 FNot (QFn1 FNot (QNum fzero))) root_node = Val (VBool true) /\
  EVALx (QFn1 FBoolean (QNum fzero)) root_node = Val (VBool false).
Proof. split; vm_compute; reflexivity. Qed.

End AbsoluteExamples.
