(* Eval.v — list-level model of query.go / func.go / operator.go: what a
   freshly cloned query tree selects and evaluates to from a context node.
   Every query denotes  ctx -> list of (node, position(), depth())  in the
   order, with the duplicates and with the per-input counters of the Go
   iterators; scalars carry Go's dynamic types.  Definitions only. *)
From XP Require Import Base F64 Doc Ast Hash.
Open Scope nat_scope.
Open Scope list_scope.

Section Eval.
Variable D : tree.
Variable has_ns : bool.     (* the navigator implements NamespaceURL() *)
(* getHashCode: instantiated with [hash_code D] (Api.v); the extracted driver
   passes a per-document table of the same values (Driver.hash_table_correct) *)
Variable hcode : node -> N.
(* Go's regexp package is a parameter: None = the pattern does not compile *)
Variable re_match : string -> string -> option bool.                 (* pattern, s *)
Variable re_numsubexp : string -> nat.
Variable re_replace_all : string -> string -> string -> string.      (* pattern, s, template *)

(* ---- axisPredicate ---- *)
Definition match_test (t : ntest) (n : node) : bool :=
  if orb (ntype_eqb (nt_type t) (node_type D n)) (ntype_eqb (nt_type t) NTAll) then
    if orb (negb (String.eqb (nt_loc t) "")) (negb (String.eqb (nt_pre t) "")) then
      if andb has_ns (nt_hasns t)
      then andb (String.eqb (nt_loc t) (local_name D n)) (String.eqb (nt_ns t) (node_ns D n))
      else andb (String.eqb (nt_loc t) (local_name D n)) (String.eqb (nt_pre t) (node_prefix D n))
    else true
  else false.

(* number the items 1.. (posit++ per returned node) *)
Fixpoint number_from (k : nat) (lvl : nat) (l : list node) : list item :=
  match l with
  | [] => []
  | n :: r => mkItem n k lvl :: number_from (S k) lvl r
  end.
Definition numbered (l : list node) : list item := number_from 1 0 l.
Definition unnumbered (l : list node) : list item := map (fun n => mkItem n 1 0) l.

(* ---- one axis step from one input node ---- *)
Definition step_child (t : ntest) (n : node) : list item :=
  numbered (filter (match_test t) (children D n)).

Definition step_attribute (t : ntest) (n : node) : list item :=
  match node_type D n with
  | NTElem => unnumbered (filter (match_test t) (attributes_after D n))
  | _ => []
  end.

(* descendantQuery: pre-order; posit counts the returned nodes, level is the
   depth below the input node *)
Fixpoint number_desc (k : nat) (base : nat) (l : list node) : list item :=
  match l with
  | [] => []
  | n :: r => mkItem n k (List.length (npath n) - base) :: number_desc (S k) base r
  end.

Definition step_descendant (self : bool) (t : ntest) (n : node) : list item :=
  let cands := (if self then [n] else []) ++ descendants D n in
  number_desc 1 (List.length (npath n)) (filter (match_test t) cands).

Definition step_ancestor_raw (self : bool) (t : ntest) (n : node) : list node :=
  filter (match_test t) ((if self then [n] else []) ++ ancestors n).

Definition step_parent (t : ntest) (n : node) : list item :=
  match move_parent n with
  | Some p => if match_test t p then [mkItem p 1 0] else []
  | None => []
  end.

Definition step_self (t : ntest) (n : node) : list item :=
  if match_test t n then [mkItem n 1 0] else [].

Definition step_following_sibling (t : ntest) (n : node) : list item :=
  numbered (filter (match_test t) (following_siblings D n)).

Definition step_preceding_sibling (t : ntest) (n : node) : list item :=
  numbered (filter (match_test t) (preceding_siblings n)).

(* the nodes ancestor-or-self of an element position, innermost first *)
Definition self_and_ancestors (n : node) : list node :=
  match nattr n with
  | Some _ => ancestors n
  | None => n :: ancestors n
  end.

(* getNodeDepth of a query without a depth() method is 0 *)
Definition zero_item (it : item) : item := mkItem (it_node it) (it_pos it) 0.
Definition zero_lvl (l : list item) : list item := map zero_item l.

(* followingQuery, Sibling = false: for the node and then each ancestor, the
   subtrees of its later siblings; an attribute starts with the content of
   its element.  posit is the inner descendant query's counter; the level of
   the inner descendant query is NOT visible (only descendantQuery has a
   depth() method, followingQuery has none), hence zero_lvl. *)
Definition step_following_raw (t : ntest) (n : node) : list item :=
  (match nattr n with
   | Some _ => step_descendant false t (mkNode (npath n) None)
   | None => []
   end)
  ++ flat_map (fun a => flat_map (fun s => step_descendant true t s) (following_siblings D a))
              (self_and_ancestors n).
Definition step_following (t : ntest) (n : node) : list item :=
  zero_lvl (step_following_raw t n).

(* precedingQuery, Sibling = false: for the node and then each ancestor, the
   subtrees of its earlier siblings, nearest sibling first, each subtree in
   document order; posit runs on until the walk moves up to a parent. *)
Definition step_preceding (t : ntest) (n : node) : list item :=
  flat_map (fun a =>
              numbered (flat_map (fun s => filter (match_test t) (desc_or_self D s))
                                 (preceding_siblings a)))
           (self_and_ancestors n).

(* descendantOverDescendantQuery: matching nodes below the input that have no
   matching ancestor below the input (the walk does not descend into a match) *)
Fixpoint top_below (t : ntest) (s : tree) (p : list nat) : list node :=
  match s with
  | T _ _ _ _ _ _ ks =>
    (fix go (l : list tree) (i : nat) : list node :=
       match l with
       | [] => []
       | c :: r =>
         (if match_test t (mkNode (p ++ [i]) None) then [mkNode (p ++ [i]) None]
          else top_below t c (p ++ [i])) ++ go r (S i)
       end) ks 0
  end.

Definition step_dod (matchself : bool) (t : ntest) (n : node) : list item :=
  if andb matchself (match_test t n) then [mkItem n 1 0]
  else match nattr n, node_tree D n with
       | None, Some s => numbered (top_below t s (npath n))
       | _, _ => []
       end.

(* ---- de-duplication by identity code ---- *)
Fixpoint dedup_hash (seen : list N) (l : list node) : list node * list N :=
  match l with
  | [] => ([], seen)
  | n :: r =>
    let h := hcode n in
    if existsb (N.eqb h) seen then dedup_hash seen r
    else let '(r', s') := dedup_hash (h :: seen) r in (n :: r', s')
  end.

(* ancestorQuery: one table for the whole iteration *)
Fixpoint ancestors_all (self : bool) (t : ntest) (seen : list N) (inputs : list node) : list node :=
  match inputs with
  | [] => []
  | n :: r =>
    let '(l, seen') := dedup_hash seen (step_ancestor_raw self t n) in
    l ++ ancestors_all self t seen' r
  end.

(* ---- conversions (func.go: asBool, asString, asNumber) ---- *)
Definition xpath_number_string (f : f64) : string :=
  match f with
  | S754_zero _ => "0"
  | S754_infinity false => "Infinity"
  | S754_infinity true => "-Infinity"
  | _ => format_f f
  end.

(* stringToNumber *)
Definition is_xml_space (c : ascii) : bool :=
  let n := byte_of c in orb (orb (Nat.eqb n 32) (Nat.eqb n 9)) (orb (Nat.eqb n 13) (Nat.eqb n 10)).
Fixpoint trim_left_xml (l : list ascii) : list ascii :=
  match l with
  | c :: r => if is_xml_space c then trim_left_xml r else l
  | [] => []
  end.
Definition trim_xml (l : list ascii) : list ascii := rev (trim_left_xml (rev (trim_left_xml l))).

(* split digits [. digits]; None if any other character occurs *)
Fixpoint split_number (l : list ascii) (seen_dot : bool) (ip fp : list ascii) : option (list ascii * list ascii) :=
  match l with
  | [] => Some (ip, fp)
  | c :: r =>
    if is_digit_ascii c then
      if seen_dot then split_number r seen_dot ip (fp ++ [c]) else split_number r seen_dot (ip ++ [c]) fp
    else if andb (Nat.eqb (byte_of c) 46) (negb seen_dot) then split_number r true ip fp
    else None
  end.

Definition string_to_number (s : string) : f64 :=
  let l := trim_xml (list_of_string s) in
  let '(neg, body) := match l with
                      | c :: r => if Nat.eqb (byte_of c) 45 then (true, r) else (false, l)
                      | [] => (false, l)
                      end in
  match split_number body false [] [] with
  | Some (ip, fp) =>
    match ip, fp with
    | [], [] => fnan
    | _, _ => of_decimal neg ip fp
    end
  | None => fnan
  end.

Definition first_value (l : list item) : option string :=
  match l with [] => None | i :: _ => Some (node_value D (it_node i)) end.

Definition as_bool (v : value) : outcome bool :=
  match v with
  | VNil => Val false
  | VBool b => Val b
  | VNum f => Val (negb (orb (is_zero f) (is_nan f)))
  | VStr s => Val (negb (String.eqb s ""))
  | VNodes l => Val (match l with [] => false | _ => true end)
  | VInt _ => Complaint "unexpected type: int"
  end.

Definition as_string (v : value) : outcome string :=
  match v with
  | VNil => Val ""
  | VBool b => Val (if b then "true" else "false")
  | VNum f => Val (xpath_number_string f)
  | VStr s => Val s
  | VNodes l => Val (opt_default "" (first_value l))
  | VInt _ => Complaint "unexpected type: int"
  end.

Definition as_number (v : value) : f64 :=
  match v with
  | VNodes l => match first_value l with Some s => string_to_number s | None => fnan end
  | VNum f => f
  | VStr s => string_to_number s
  | _ => fnan
  end.

(* ---- operator.go ---- *)
Definition cmp_num (op : cmpop) (a b : f64) : bool :=
  match op with
  | CEq => feq a b | CNe => fne a b | CLt => flt a b | CLe => fle a b | CGt => fgt a b | CGe => fge a b
  end.

Definition cmp_str (op : cmpop) (a b : string) : bool :=
  let c := str_compare a b in
  match op with
  | CEq => match c with Eq => true | _ => false end
  | CNe => match c with Eq => false | _ => true end
  | CLt => match c with Lt => true | _ => false end
  | CLe => match c with Gt => false | _ => true end
  | CGt => match c with Gt => true | _ => false end
  | CGe => match c with Lt => false | _ => true end
  end.

Definition values_of (l : list item) : list string := map (fun i => node_value D (it_node i)) l.

Definition bool_num (v : value) : outcome f64 :=
  match v with
  | VStr _ | VNum _ => Val (as_number v)
  | _ => do b <- as_bool v; Val (if b then fone else fzero)
  end.

Definition cmp_boolean_any (op : cmpop) (m n : value) : outcome bool :=
  match op with
  | CEq => do a <- as_bool m; do b <- as_bool n; Val (Bool.eqb a b)
  | CNe => do a <- as_bool m; do b <- as_bool n; Val (negb (Bool.eqb a b))
  | _ => do a <- bool_num m; do b <- bool_num n; Val (cmp_num op a b)
  end.

(* getXPathType + logicalFuncs[t1][t2] *)
Definition compare_values (op : cmpop) (m n : value) : outcome value :=
  match m, n with
  | VInt _, _ | VNil, _ => Complaint "xpath unknown value type"
  | _, VInt _ | _, VNil => Complaint "xpath unknown value type"
  | VBool _, _ | _, VBool _ => do b <- cmp_boolean_any op m n; Val (VBool b)
  | VNum a, VNum b => Val (VBool (cmp_num op a b))
  | VNum a, VStr b => Val (VBool (cmp_num op a (string_to_number b)))
  | VNum a, VNodes l => Val (VBool (existsb (fun s => cmp_num op a (string_to_number s)) (values_of l)))
  | VStr a, VNum b => Val (VBool (cmp_num op (string_to_number a) b))
  | VStr a, VStr b => Val (VBool (cmp_str op a b))
  | VStr a, VNodes l => Val (VBool (existsb (fun s => cmp_str op a s) (values_of l)))
  | VNodes l, VNum b => Val (VBool (existsb (fun s => cmp_num op (string_to_number s) b) (values_of l)))
  | VNodes l, VStr b => Val (VBool (existsb (fun s => cmp_str op b s) (values_of l)))
  | VNodes l1, VNodes l2 =>
    Val (VBool (existsb (fun x => existsb (fun y => cmp_str op x y) (values_of l2)) (values_of l1)))
  end.

Definition arith_op (op : arith) (a b : f64) : f64 :=
  match op with
  | OAdd => fadd a b | OSub => fsub a b | OMul => fmul a b | ODiv => fdiv a b | OMod => fmod a b
  end.

(* ---- func.go helpers ---- *)
(* argument that may be a string or a node-set (first node), anything else "" *)
Definition str_or_first (v : value) : string :=
  match v with
  | VStr s => s
  | VNodes l => opt_default "" (first_value l)
  | _ => ""
  end.

Definition xround (f : f64) : f64 := ffloor (fadd f fhalf).   (* math.Floor(x + 0.5) *)

Definition substring_go (m : string) (start : f64) (len : option f64) : string :=
  let n := Z.of_nat (String.length m) in
  let start := xround start in
  match len with
  | None =>
    if orb (is_nan start) (fgt start (of_Z n)) then ""
    else if flt start fone then m
    else skipn_s (Z.to_nat (go_int start - 1)) m
  | Some length =>
    let length := xround length in
    let e := fadd start length in
    let start := if fgt start fone then start else fone in
    let e := if fgt e (of_Z (n + 1)) then of_Z (n + 1) else e in
    if fgt e start then
      let a := Z.to_nat (go_int start - 1) in
      let b := Z.to_nat (go_int e - 1) in
      firstn_s (b - a) (skipn_s a m)
    else ""
  end.

(* strings.ReplaceAll for a non-empty old *)
Fixpoint replace_all_fuel (fuel : nat) (s old new : string) : string :=
  match fuel with
  | 0 => s
  | S f =>
    match s with
    | EmptyString => EmptyString
    | String c r =>
      if prefix old s then (new ++ replace_all_fuel f (skipn_s (String.length old) s) old new)%string
      else String c (replace_all_fuel f r old new)
    end
  end.
Definition replace_all (s old new : string) : string :=
  replace_all_fuel (S (String.length s)) s old new.

(* the rewriting loop of replaceFunc BEFORE the repair "fix: replace() reads $N as group N"
   (for idx := NumSubexp; idx > 0; idx-- { ReplaceAll("$idx", "${idx}") }); kept because
   Proofs/Rewrite.v proves where it agrees with XPath and refutes the rest *)
Fixpoint rewrite_refs_loop (idx : nat) (dst : string) : string :=
  match idx with
  | 0 => dst
  | S k => rewrite_refs_loop k (replace_all dst ("$" ++ itoa idx)%string ("${" ++ itoa idx ++ "}")%string)
  end.

(* rewriteGroupRefs (func.go, after the repair): a single left-to-right pass; "$" followed
   by digits: the longest prefix of the digits that numbers an existing group (0 = the whole
   match) becomes "${N}", the remaining digits stay literal; if even the first digit is no
   group it alone is braced (an empty reference) *)
Fixpoint best_ref (nsub : nat) (l : string) (val taken : nat) (best : option (nat * nat)) : option (nat * nat) :=
  match l with
  | String c r =>
    if is_digit_ascii c then
      let val' := val * 10 + (byte_of c - 48) in
      if Nat.leb val' nsub then best_ref nsub r val' (S taken) (Some (S taken, val')) else best
    else best
  | EmptyString => best
  end.

Fixpoint rewrite_go (fuel nsub : nat) (s : string) : string :=
  match fuel with
  | 0 => s
  | S f =>
    match s with
    | EmptyString => EmptyString
    | String c r =>
      match r with
      | String d _ =>
        if andb (Nat.eqb (byte_of c) 36) (is_digit_ascii d) then
          let '(n, ref) := match best_ref nsub r 0 0 None with
                           | Some p => p
                           | None => (1, byte_of d - 48)
                           end in
          ("${" ++ itoa ref ++ "}" ++ rewrite_go f nsub (skipn_s n r))%string
        else String c (rewrite_go f nsub r)
      | EmptyString => String c EmptyString
      end
    end
  end.

Definition rewrite_refs_at (m : nat) (dst : string) : string :=
  rewrite_go (S (String.length dst)) m dst.
(* rewriteGroupRefs raises the bound to 9: a single digit is always a reference *)
Definition rewrite_refs (nsub : nat) (dst : string) : string :=
  rewrite_refs_at (Nat.max nsub 9) dst.

Definition query_test (q : query) : node -> bool :=
  match q with
  | QAncestor _ t _ | QAttribute t _ | QChild t _ | QCachedChild t _ | QDescendant _ t _
  | QFollowing _ t _ | QPreceding _ t _ | QParent t _ | QSelf t _ => match_test t
  | _ => fun _ => true
  end.
(* descendantOverDescendantQuery, filterQuery, groupQuery ... have no Test method *)

Definition position_of (test : node -> bool) (c : node) : f64 :=
  of_Z (Z.of_nat (S (List.length (filter test (preceding_siblings c))))).

Definition last_of (test : node -> bool) (c : node) : f64 :=
  (* MoveToFirst, then count self and the following siblings that pass *)
  let first := match move_first c with Some f => f | None => c end in
  of_Z (Z.of_nat (List.length (filter test (first :: following_siblings D first)))).

(* filterQuery bookkeeping: positmap[level]++ *)
Fixpoint pm_get (m : list (nat * nat)) (k : nat) : nat :=
  match m with [] => 0 | (a, b) :: r => if Nat.eqb a k then b else pm_get r k end.
Fixpoint pm_set (m : list (nat * nat)) (k v : nat) : list (nat * nat) :=
  match m with
  | [] => [(k, v)]
  | (a, b) :: r => if Nat.eqb a k then (a, v) :: r else (a, b) :: pm_set r k v
  end.

Fixpoint oflat_map {A B} (f : A -> outcome (list B)) (l : list A) : outcome (list B) :=
  match l with
  | [] => Val []
  | a :: r => do x <- f a; do y <- oflat_map f r; Val (x ++ y)
  end.

Definition nodes_of (l : list item) : list node := map it_node l.

Definition truth_of_filter (v : value) (pos : nat) : bool :=
  match v with
  | VBool b => b
  | VStr s => negb (String.eqb s "")
  | VNum f => Z.eqb (go_int f) (Z.of_nat pos)
  | VNodes l => match l with [] => false | _ => true end
  | VInt _ | VNil => false
  end.

Fixpoint regroup (k : nat) (l : list item) : list item :=
  match l with [] => [] | i :: r => mkItem (it_node i) k 0 :: regroup (S k) r end.

(* ---- Select / Evaluate ---- *)
Definition sel_body (sel : query -> node -> outcome (list item)) (eval : query -> node -> outcome value)
           (q : query) (c : node) : outcome (list item) :=
  let step (i : query) (f : node -> list item) : outcome (list item) :=
      do l <- sel i c; Val (flat_map (fun it => f (it_node it)) l) in
  match q with
  | QContext => Val [mkItem c 1 0]
  | QAbsolute => Val [mkItem root_node 1 0]
  | QAncestor self t i => do l <- sel i c; Val (unnumbered (ancestors_all self t [] (nodes_of l)))
  | QAttribute t i => step i (step_attribute t)
  | QChild t i | QCachedChild t i => step i (step_child t)
  | QDescendant self t i => step i (step_descendant self t)
  | QFollowing true t i => step i (step_following_sibling t)
  | QFollowing false t i => step i (step_following t)
  | QPreceding true t i => step i (step_preceding_sibling t)
  | QPreceding false t i => step i (step_preceding t)
  | QParent t i => step i (step_parent t)
  | QSelf t i => step i (step_self t)
  | QDoD m t i => step i (step_dod m t)
  | QFilter _ i p =>
    do l <- sel i c;
    (fix go (l : list item) (pm : list (nat * nat)) : outcome (list item) :=
       match l with
       | [] => Val []
       | it :: r =>
         do v <- eval p (it_node it);
         if truth_of_filter v (it_pos it) then
           let k := S (pm_get pm (it_lvl it)) in
           do rest <- go r (pm_set pm (it_lvl it) k);
           Val (mkItem (it_node it) k 0 :: rest)
         else go r pm
       end) l []
  | QGroup i => do l <- sel i c; Val (regroup 1 l)
  | QUnion l r =>
    do a <- sel l c; do b <- sel r c;
    Val (unnumbered (fst (dedup_hash [] (nodes_of a ++ nodes_of b))))
  | QMerge i ch =>
    do roots <- sel i c;
    do l <- oflat_map (fun it => sel ch (it_node it)) roots;
    Val (unnumbered (nodes_of l))
  | QLogical op l r =>
    do m <- eval l c; do n <- eval r c;
    do v <- compare_values op m n;
    Val (match v with VBool true => [mkItem c 1 0] | _ => [] end)
  | QBoolean isor l r =>
    do a <- sel l c; do b <- sel r c;
    if isor then Val (unnumbered (nodes_of a ++ nodes_of b))
    else Val (unnumbered (match rev (nodes_of b) with
                          | x :: _ => [x]
                          | [] => match rev (nodes_of a) with x :: _ => [x] | [] => [] end
                          end))
  | QReverse i => do l <- sel i c; Val (unnumbered (rev (nodes_of l)))
  | _ => Val []
  end.

Fixpoint sel (q : query) (c : node) {struct q} : outcome (list item) := sel_body sel eval q c
with eval (q : query) (c : node) {struct q} : outcome value :=
  match q with
  | QNil => Val (VStr "")
  | QNop => Val VNil
  | QNum v => Val (VNum v)
  | QStr s => Val (VStr s)
  | QGroup i => eval i c
  | QFn0 FTrue => Val (VBool true)
  | QFn0 FFalse => Val (VBool false)
  | QPosition i => Val (VNum (position_of (query_test i) c))
  | QLast i => Val (VNum (last_of (query_test i) c))
  | QLastFunc i => do l <- sel i c; Val (VNum (of_Z (Z.of_nat (List.length l))))
  | QLogical op l r => do m <- eval l c; do n <- eval r c; compare_values op m n
  | QNumeric op l r => do m <- eval l c; do n <- eval r c; Val (VNum (arith_op op (as_number m) (as_number n)))
  | QBoolean isor l r =>
    do m <- eval l c; do a <- as_bool m;
    if isor then (if a then Val (VBool true) else do n <- eval r c; do b <- as_bool n; Val (VBool b))
    else (if a then do n <- eval r c; do b <- as_bool n; Val (VBool b) else Val (VBool false))
  | QConcat args => eval args c
  | QArg a rest =>
    do v <- eval a c;
    do r <- eval rest c;
    Val (VStr ((match v with VStr s => s | VNodes l => opt_default "" (first_value l) | _ => "" end)
               ++ (match r with VStr s => s | _ => "" end)))
  | QFn1 f a =>
    match f with
    | FName | FLocalName | FNamespaceURI =>
      do target <- (match a with
                    | QNil => Val (Some c)
                    | _ => do l <- sel a c; Val (match l with [] => None | i :: _ => Some (it_node i) end)
                    end);
      match target with
      | None => Val (VStr "")
      | Some n =>
        match f with
        | FName => let p := node_prefix D n in
                   Val (VStr (if String.eqb p "" then local_name D n else (p ++ ":" ++ local_name D n)%string))
        | FLocalName => Val (VStr (local_name D n))
        | _ => Val (VStr (if has_ns then node_ns D n else node_prefix D n))
        end
      end
    | _ =>
      do v <- eval a c;
      match f with
      | FCount => Val (VNum (match v with
                             | VNodes l => of_Z (Z.of_nat (List.length (filter (query_test a) (nodes_of l))))
                             | _ => fzero end))
      | FSum =>
        match v with
        | VNodes l =>
          Val (VNum (fold_left (fun acc s => let x := string_to_number s in if is_nan x then acc else fadd acc x)
                               (values_of l) fzero))
        | VNum f => Val (VNum f)
        | VStr s => let x := string_to_number s in
                    if is_nan x then Complaint "sum() function argument type must be a node-set or number"
                    else Val (VNum x)
        | _ => Val (VNum fzero)
        end
      | FCeiling => Val (VNum (fceil (as_number v)))
      | FFloor => Val (VNum (ffloor (as_number v)))
      | FRound => Val (VInt (go_int (fround_away (as_number v))))
      | FBoolean => do b <- as_bool v; Val (VBool b)
      | FNumber => Val (VNum (as_number v))
      | FString => do s <- as_string v; Val (VStr s)
      | FNot => Val (VBool (match v with
                            | VBool b => negb b
                            | VNodes l => match l with [] => true | _ => false end
                            | _ => false end))
      | FNormalizeSpace => Val (VStr (normalize_space (str_or_first v)))
      | FStringLength => Val (VNum (of_Z (Z.of_nat (String.length (str_or_first v)))))
      | FLowerCase => do s <- as_string v; Val (VStr (to_lower s))
      | _ => Val VNil
      end
    end
  | QFn2 f a b =>
    do va <- eval a c;
    match f with
    | FStartsWith | FEndsWith | FContains =>
      let nm := match f with FStartsWith => "starts-with" | FEndsWith => "ends-with" | _ => "contains" end in
      match va with
      | VStr _ | VNodes _ =>
        let m := str_or_first va in
        do vb <- eval b c;
        match vb with
        | VStr n => Val (VBool (match f with
                                | FStartsWith => prefix n m
                                | FEndsWith => has_suffix m n
                                | _ => contains m n end))
        | _ => Complaint (nm ++ "() function argument type must be string")%string
        end
      | _ => Complaint (nm ++ "() function argument type must be string")%string
      end
    | FMatches =>
      let s := str_or_first va in
      do vb <- eval b c;
      match vb with
      | VStr p => match re_match p s with
                  | Some r => Val (VBool r)
                  | None => Complaint "matches() function second argument is not a valid regexp pattern"
                  end
      | _ => Complaint "matches() function second argument type must be string"
      end
    | FSubstringBefore | FSubstringAfter =>
      match va with
      | VNodes [] => Val (VStr "")     (* if node == nil { return "" } before the second argument is looked at *)
      | _ =>
      let s := str_or_first va in
      do vb <- eval b c;
      let w := str_or_first vb in
      match index_of w s with
      | None => Val (VStr "")
      | Some i => Val (VStr (match f with
                             | FSubstringAfter => skipn_s (i + String.length w) s
                             | _ => firstn_s i s end))
      end
      end
    | FStringJoin =>
      (* the separator (second argument) is evaluated first *)
      do vb <- eval b c;
      let sep := str_or_first vb in
      match va with
      | VStr s => Val (VStr s)
      | VNodes l => Val (VStr (join sep (map (node_value D) (filter (query_test a) (nodes_of l)))))
      | _ => Val (VStr "")
      end
    end
  | QFn3 f a b x =>
    match f with
    | FSubstring =>
      do va <- eval a c;
      match va with
      | VNodes [] => Val (VStr "")     (* if node == nil { return "" } before the other arguments are looked at *)
      | _ =>
      let m := str_or_first va in
      do vb <- eval b c;
      match vb with
      | VNum start =>
        match x with
        | QNil => Val (VStr (substring_go m start None))
        | _ =>
          (* the two-argument checks come first in the Go code only when arg3 is nil *)
          do vx <- eval x c;
          match vx with
          | VNum len => Val (VStr (substring_go m start (Some len)))
          | _ => Complaint "substring() function second argument type must be number"
          end
        end
      | _ => Complaint "substring() function first argument type must be number"
      end
      end
    | FTranslate =>
      do va <- eval a c; do s <- as_string va;
      do vb <- eval b c; do src <- as_string vb;
      do vx <- eval x c; do dst <- as_string vx;
      Val (VStr (translate s src dst))
    | FReplace =>
      do va <- eval a c; do s <- as_string va;
      do vb <- eval b c; do src <- as_string vb;
      do vx <- eval x c; do dst <- as_string vx;
      match re_match src "" with
      | None => Complaint "replace() function second argument is not a valid regexp pattern"
      | Some _ => Val (VStr (re_replace_all src s (rewrite_refs (re_numsubexp src) dst)))
      end
    end
  (* node-set valued queries return themselves *)
  | _ => do l <- sel_body sel eval q c; Val (VNodes l)
  end.

End Eval.
