// gendispatch regenerates coq/Generated/Dispatch.v from /repo/build.go: the three
// dispatch switches of the query builder, read with go/parser:
//
//   - processFunction: for every function name its argument-count guards
//     (`if len(root.Args) OP N { return nil, ... }`), the number of arguments it
//     indexes unconditionally (root.Args[k] outside an `if len(root.Args) ...`),
//     and the query it builds (composite literal type + the Func: it installs);
//   - processAxis: for every axis name the query types it can build (with the
//     boolean fields set to true), whether it raises NonFlat, whether it is an error;
//   - processOperator: for every operator the query type and the Do: function.
//
// The Coq side (coq/Dispatch.v, Generated/Dispatch_ok.v, Proofs/DispatchProofs.v)
// proves that the model's builder agrees with these tables for every name and
// every argument count.  The translator fails (exit 2) when the source no longer
// has the shape it understands; bin/check reports that as a broken tie.
package main

import (
	"fmt"
	"go/ast"
	"go/parser"
	"go/token"
	"os"
	"path/filepath"
	"sort"
	"strconv"
	"strings"
)

func die(format string, a ...interface{}) {
	fmt.Fprintf(os.Stderr, "gendispatch: "+format+"\n", a...)
	os.Exit(2)
}

func findMethod(f *ast.File, name string) *ast.FuncDecl {
	for _, d := range f.Decls {
		fd, ok := d.(*ast.FuncDecl)
		if ok && fd.Name.Name == name && fd.Recv != nil && fd.Body != nil {
			return fd
		}
	}
	die("method %s not found", name)
	return nil
}

// names of the method being read: its first parameter (the syntax node) and the variable
// its last statement returns (the query being built)
var rootName, outName, recvName string

// the case label the tags are being computed for (fields set by `root.F == "label"`)
var curName string

func enter(fd *ast.FuncDecl) {
	rootName, outName, recvName = "", "", ""
	if rs := fd.Recv.List; len(rs) > 0 && len(rs[0].Names) > 0 {
		recvName = rs[0].Names[0].Name
	}
	if ps := fd.Type.Params.List; len(ps) > 0 && len(ps[0].Names) > 0 {
		rootName = ps[0].Names[0].Name
	}
	if n := len(fd.Body.List); n > 0 {
		if rs, ok := fd.Body.List[n-1].(*ast.ReturnStmt); ok && len(rs.Results) == 2 {
			if id, ok := rs.Results[0].(*ast.Ident); ok {
				outName = id.Name
			}
		}
	}
	if rootName == "" || outName == "" {
		die("%s: cannot tell the node parameter / the returned variable", fd.Name.Name)
	}
}

// isRootField: <node parameter>.<field>
func isRootField(e ast.Expr, field string) bool {
	s, ok := e.(*ast.SelectorExpr)
	if !ok || s.Sel.Name != field {
		return false
	}
	id, ok := s.X.(*ast.Ident)
	return ok && id.Name == rootName
}

func findSwitch(body *ast.BlockStmt, field string) *ast.SwitchStmt {
	var found []*ast.SwitchStmt
	for _, st := range body.List {
		if sw, ok := st.(*ast.SwitchStmt); ok && sw.Tag != nil && isRootField(sw.Tag, field) {
			found = append(found, sw)
		}
	}
	if len(found) != 1 {
		die("expected exactly one top-level `switch root.%s`, found %d", field, len(found))
	}
	return found[0]
}

func caseNames(cc *ast.CaseClause) []string {
	var out []string
	for _, e := range cc.List {
		bl, ok := e.(*ast.BasicLit)
		if !ok || bl.Kind != token.STRING {
			die("case label is not a string literal at %v", e.Pos())
		}
		s, err := strconv.Unquote(bl.Value)
		if err != nil {
			die("bad string literal %s", bl.Value)
		}
		out = append(out, s)
	}
	return out
}

// isLenArgs: len(root.Args)
func isLenArgs(e ast.Expr) bool {
	c, ok := e.(*ast.CallExpr)
	if !ok || len(c.Args) != 1 {
		return false
	}
	id, ok := c.Fun.(*ast.Ident)
	return ok && id.Name == "len" && isRootField(c.Args[0], "Args")
}

func mentionsLenArgs(e ast.Expr) bool {
	r := false
	ast.Inspect(e, func(n ast.Node) bool {
		if x, ok := n.(ast.Expr); ok && isLenArgs(x) {
			r = true
		}
		return !r
	})
	return r
}

func returnsNilErr(b *ast.BlockStmt) bool {
	if len(b.List) == 0 {
		return false
	}
	rs, ok := b.List[len(b.List)-1].(*ast.ReturnStmt)
	if !ok || len(rs.Results) != 2 {
		return false
	}
	id, ok := rs.Results[0].(*ast.Ident)
	return ok && id.Name == "nil"
}

type guard struct {
	op string
	n  int
}

// guards of a clause: top-level `if len(root.Args) OP N { ...; return nil, err }`
func guardsOf(stmts []ast.Stmt) []guard {
	var gs []guard
	for _, st := range stmts {
		is, ok := st.(*ast.IfStmt)
		if !ok || is.Init != nil || !returnsNilErr(is.Body) {
			continue
		}
		be, ok := is.Cond.(*ast.BinaryExpr)
		if !ok {
			if mentionsLenArgs(is.Cond) {
				die("argument-count guard of unknown shape at %v", is.Pos())
			}
			continue
		}
		if !isLenArgs(be.X) {
			if mentionsLenArgs(is.Cond) {
				die("argument-count guard of unknown shape at %v", is.Pos())
			}
			continue
		}
		bl, ok := be.Y.(*ast.BasicLit)
		if !ok || bl.Kind != token.INT {
			die("argument-count guard compares with a non-literal at %v", is.Pos())
		}
		n, _ := strconv.Atoi(bl.Value)
		var op string
		switch be.Op {
		case token.LSS:
			op = "<"
		case token.LEQ:
			op = "<="
		case token.GTR:
			op = ">"
		case token.GEQ:
			op = ">="
		case token.EQL:
			op = "=="
		case token.NEQ:
			op = "!="
		default:
			die("argument-count guard with operator %v", be.Op)
		}
		gs = append(gs, guard{op, n})
	}
	return gs
}

// needOf: 1 + the largest constant k with root.Args[k] evaluated unconditionally
// (not under an `if` whose condition mentions len(root.Args)).
func needOf(stmts []ast.Stmt) int {
	need := 0
	var walk func(n ast.Node) bool
	walk = func(n ast.Node) bool {
		switch x := n.(type) {
		case *ast.IfStmt:
			if mentionsLenArgs(x.Cond) {
				return false
			}
		case *ast.CallExpr:
			// a helper method of the builder that receives the syntax node: what it indexes
			// unconditionally counts for the caller (one level of helpers, no recursion)
			if sel, ok := x.Fun.(*ast.SelectorExpr); ok && exprName(sel.X) == recvName {
				if fd := methods[sel.Sel.Name]; fd != nil && !inHelper {
					for i, a := range x.Args {
						if id, ok := a.(*ast.Ident); ok && id.Name == rootName {
							if k := helperNeed(fd, i); k > need {
								need = k
							}
						}
					}
				}
			}
		case *ast.IndexExpr:
			if isRootField(x.X, "Args") {
				bl, ok := x.Index.(*ast.BasicLit)
				if !ok || bl.Kind != token.INT {
					die("root.Args indexed by a non-literal at %v", x.Pos())
				}
				k, _ := strconv.Atoi(bl.Value)
				if k+1 > need {
					need = k + 1
				}
			}
		}
		return true
	}
	for _, st := range stmts {
		ast.Inspect(st, walk)
	}
	return need
}

// boolean locals of the clause being read, as functions of the case label:
//   v := root.F == "lit"     v := true     if root.F == "lit" { v = true }
var boolEnv = map[string]func(string) bool{}

// nameTest: root.F == "lit" / root.F != "lit" -> predicate on the case label
func nameTest(e ast.Expr) (func(string) bool, bool) {
	if p, ok := e.(*ast.ParenExpr); ok {
		return nameTest(p.X)
	}
	be, ok := e.(*ast.BinaryExpr)
	if !ok || (be.Op != token.EQL && be.Op != token.NEQ) {
		return nil, false
	}
	lit, okl := be.Y.(*ast.BasicLit)
	sel := be.X
	if !okl {
		lit, okl = be.X.(*ast.BasicLit)
		sel = be.Y
	}
	se, ok := sel.(*ast.SelectorExpr)
	if !ok || !okl || lit.Kind != token.STRING || exprName(se.X) != rootName {
		return nil, false
	}
	v, err := strconv.Unquote(lit.Value)
	if err != nil {
		return nil, false
	}
	if be.Op == token.EQL {
		return func(n string) bool { return n == v }, true
	}
	return func(n string) bool { return n != v }, true
}

// boolValue of an expression for the current case label, when it can be told
func boolValue(e ast.Expr) (bool, bool) {
	if id, ok := e.(*ast.Ident); ok {
		switch id.Name {
		case "true":
			return true, true
		case "false":
			return false, true
		}
		if f := boolEnv[id.Name]; f != nil && curName != "" {
			return f(curName), true
		}
		return false, false
	}
	if f, ok := nameTest(e); ok && curName != "" {
		return f(curName), true
	}
	return false, false
}

func constBool(b bool) func(string) bool { return func(string) bool { return b } }

// readBoolEnv collects the boolean locals of a clause (top-level statements, in order)
func readBoolEnv(stmts []ast.Stmt) {
	boolEnv = map[string]func(string) bool{}
	assign := func(as *ast.AssignStmt, guard func(string) bool) {
		if len(as.Lhs) != 1 || len(as.Rhs) != 1 {
			return
		}
		id, ok := as.Lhs[0].(*ast.Ident)
		if !ok {
			return
		}
		var val func(string) bool
		if r, ok := as.Rhs[0].(*ast.Ident); ok && (r.Name == "true" || r.Name == "false") {
			val = constBool(r.Name == "true")
		} else if f, ok := nameTest(as.Rhs[0]); ok {
			val = f
		} else {
			return
		}
		if guard == nil {
			boolEnv[id.Name] = val
			return
		}
		prev := boolEnv[id.Name]
		if prev == nil {
			return
		}
		boolEnv[id.Name] = func(n string) bool {
			if guard(n) {
				return val(n)
			}
			return prev(n)
		}
	}
	for _, st := range stmts {
		switch x := st.(type) {
		case *ast.AssignStmt:
			assign(x, nil)
		case *ast.IfStmt:
			if g, ok := nameTest(x.Cond); ok && x.Init == nil && x.Else == nil && len(x.Body.List) == 1 {
				if as, ok := x.Body.List[0].(*ast.AssignStmt); ok {
					assign(as, g)
				}
			}
		}
	}
}

var methods = map[string]*ast.FuncDecl{}
var inHelper bool

// helperNeed: needOf the body of helper fd, whose argIdx-th parameter is the syntax node
func helperNeed(fd *ast.FuncDecl, argIdx int) int {
	var names []string
	for _, f := range fd.Type.Params.List {
		for _, n := range f.Names {
			names = append(names, n.Name)
		}
	}
	if argIdx >= len(names) {
		return 0
	}
	saveRoot := rootName
	rootName = names[argIdx]
	inHelper = true
	k := needOf(fd.Body.List)
	inHelper = false
	rootName = saveRoot
	return k
}

func exprName(e ast.Expr) string {
	switch x := e.(type) {
	case *ast.Ident:
		return x.Name
	case *ast.CallExpr:
		return exprName(x.Fun)
	case *ast.FuncLit:
		return "<lit>"
	case *ast.SelectorExpr:
		return exprName(x.X) + "." + x.Sel.Name
	}
	return "?"
}

// tagOf a composite literal &T{...}: T[:func][+Field...]
// fnKey is the key naming the installed function ("Func" or "Do"); resolve maps a
// variable used there to the identifiers assigned to it for this name.
func tagOf(cl *ast.CompositeLit, fnKey string, resolve func(string) string) string {
	tn := exprName(cl.Type)
	fn := ""
	var flags []string
	for _, el := range cl.Elts {
		kv, ok := el.(*ast.KeyValueExpr)
		if !ok {
			continue
		}
		k := exprName(kv.Key)
		if k == fnKey {
			fn = exprName(kv.Value)
			if resolve != nil {
				if r := resolve(fn); r != "" {
					fn = r
				}
			}
			continue
		}
		if v, known := boolValue(kv.Value); known && v {
			flags = append(flags, k)
		}
		if k == "Input" && exprName(kv.Value) == recvName+".firstInput" {
			flags = append(flags, "firstInput")
		}
	}
	sort.Strings(flags)
	t := tn
	if fn != "" {
		t += ":" + fn
	}
	for _, f := range flags {
		t += "+" + f
	}
	return t
}

// outputsOf: composite literals assigned to qyOutput in stmts, not descending into
// nested `switch root.<field>` statements.
func outputsOf(stmts []ast.Stmt, field string) []*ast.CompositeLit {
	var out []*ast.CompositeLit
	var walk func(n ast.Node) bool
	walk = func(n ast.Node) bool {
		switch x := n.(type) {
		case *ast.SwitchStmt:
			if x.Tag != nil && isRootField(x.Tag, field) {
				return false
			}
		case *ast.AssignStmt:
			if len(x.Lhs) == 1 && len(x.Rhs) == 1 && exprName(x.Lhs[0]) == outName {
				if ue, ok := x.Rhs[0].(*ast.UnaryExpr); ok && ue.Op == token.AND {
					if cl, ok := ue.X.(*ast.CompositeLit); ok {
						out = append(out, cl)
					}
				}
			}
		}
		return true
	}
	for _, st := range stmts {
		ast.Inspect(st, walk)
	}
	return out
}

func nestedSwitch(stmts []ast.Stmt, field string) *ast.SwitchStmt {
	var found *ast.SwitchStmt
	for _, st := range stmts {
		if sw, ok := st.(*ast.SwitchStmt); ok && sw.Tag != nil && isRootField(sw.Tag, field) {
			if found != nil {
				die("two nested switches on root.%s in one clause", field)
			}
			found = sw
		}
	}
	return found
}

// setsNonFlat: `*props |= builderProps.NonFlat` at the top level of stmts
func setsNonFlat(stmts []ast.Stmt) bool {
	for _, st := range stmts {
		as, ok := st.(*ast.AssignStmt)
		if !ok || as.Tok != token.OR_ASSIGN || len(as.Rhs) != 1 {
			continue
		}
		if exprName(as.Rhs[0]) == "builderProps.NonFlat" {
			return true
		}
	}
	return false
}

func hasErrorReturn(stmts []ast.Stmt) bool {
	r := false
	for _, st := range stmts {
		ast.Inspect(st, func(n ast.Node) bool {
			if rs, ok := n.(*ast.ReturnStmt); ok && len(rs.Results) == 2 {
				if id, ok := rs.Results[0].(*ast.Ident); ok && id.Name == "nil" {
					r = true
				}
			}
			return true
		})
	}
	return r
}

func coqStr(s string) string { return `"` + strings.ReplaceAll(s, `"`, `""`) + `"` }
func coqList(xs []string) string {
	q := make([]string, len(xs))
	for i, x := range xs {
		q[i] = coqStr(x)
	}
	return "[" + strings.Join(q, "; ") + "]"
}
func coqBool(b bool) string {
	if b {
		return "true"
	}
	return "false"
}

func main() {
	if len(os.Args) != 3 {
		die("usage: gendispatch <repo dir> <out.v>")
	}
	fset := token.NewFileSet()
	f, err := parser.ParseFile(fset, filepath.Join(os.Args[1], "build.go"), nil, 0)
	if err != nil {
		die("%v", err)
	}
	for _, d := range f.Decls {
		if fd, ok := d.(*ast.FuncDecl); ok && fd.Recv != nil && fd.Body != nil {
			methods[fd.Name.Name] = fd
		}
	}
	var b strings.Builder
	b.WriteString("(* GENERATED by go/cmd/gendispatch from /repo/build.go on every run - do not edit. *)\n")
	b.WriteString("From Coq Require Import String List.\nFrom XP Require Import Dispatch.\nImport ListNotations.\nOpen Scope string_scope.\n\n")

	// ---- processFunction
	{
		fd := findMethod(f, "processFunction")
		enter(fd)
		sw := findSwitch(fd.Body, "FuncName")
		def := false
		b.WriteString("Definition go_functions : list frow := [\n")
		first := true
		for _, s := range sw.Body.List {
			cc := s.(*ast.CaseClause)
			if cc.List == nil {
				def = hasErrorReturn(cc.Body)
				continue
			}
			names := caseNames(cc)
			readBoolEnv(cc.Body)
			gs := guardsOf(cc.Body)
			need := needOf(cc.Body)
			common := outputsOf(cc.Body, "FuncName")
			inner := nestedSwitch(cc.Body, "FuncName")
			for _, nm := range names {
				curName = nm
				var tags []string
				for _, cl := range common {
					tags = append(tags, tagOf(cl, "Func", nil))
				}
				if inner != nil {
					hit := false
					for _, is := range inner.Body.List {
						icc := is.(*ast.CaseClause)
						if icc.List == nil {
							continue
						}
						for _, inm := range caseNames(icc) {
							if inm == nm {
								hit = true
								for _, cl := range outputsOf(icc.Body, "FuncName") {
									tags = append(tags, tagOf(cl, "Func", nil))
								}
							}
						}
					}
					if !hit {
						tags = append(tags, "<nil>")
					}
				}
				if len(tags) == 0 {
					tags = append(tags, "<nil>")
				}
				var gq []string
				for _, g := range gs {
					gq = append(gq, fmt.Sprintf("(%s, %d)", coqStr(g.op), g.n))
				}
				if !first {
					b.WriteString(";\n")
				}
				first = false
				fmt.Fprintf(&b, "  mkFrow %s [%s] %d %s", coqStr(nm), strings.Join(gq, "; "), need, coqList(tags))
			}
		}
		b.WriteString("\n].\n")
		fmt.Fprintf(&b, "Definition go_function_default_is_error : bool := %s.\n\n", coqBool(def))
	}

	// ---- processAxis
	{
		fd := findMethod(f, "processAxis")
		enter(fd)
		sw := findSwitch(fd.Body, "AxisType")
		def := false
		b.WriteString("Definition go_axes : list arow := [\n")
		first := true
		for _, s := range sw.Body.List {
			cc := s.(*ast.CaseClause)
			if cc.List == nil {
				def = hasErrorReturn(cc.Body)
				continue
			}
			readBoolEnv(cc.Body)
			for _, nm := range caseNames(cc) {
				curName = nm
				var tags []string
				for _, cl := range outputsOf(cc.Body, "AxisType") {
					tags = append(tags, tagOf(cl, "Func", nil))
				}
				if !first {
					b.WriteString(";\n")
				}
				first = false
				fmt.Fprintf(&b, "  mkArow %s %s %s %s", coqStr(nm), coqList(tags), coqBool(setsNonFlat(cc.Body)), coqBool(hasErrorReturn(cc.Body)))
			}
		}
		b.WriteString("\n].\n")
		fmt.Fprintf(&b, "Definition go_axis_default_is_error : bool := %s.\n\n", coqBool(def))
	}

	// ---- processOperator
	{
		fd := findMethod(f, "processOperator")
		enter(fd)
		sw := findSwitch(fd.Body, "Op")
		hasDefault := false
		b.WriteString("Definition go_operators : list orow := [\n")
		first := true
		for _, s := range sw.Body.List {
			cc := s.(*ast.CaseClause)
			if cc.List == nil {
				hasDefault = true
				continue
			}
			inner := nestedSwitch(cc.Body, "Op")
			readBoolEnv(cc.Body)
			for _, nm := range caseNames(cc) {
				curName = nm
				resolve := func(v string) string {
					if inner == nil {
						return ""
					}
					var rs []string
					for _, is := range inner.Body.List {
						icc := is.(*ast.CaseClause)
						if icc.List == nil {
							continue
						}
						for _, inm := range caseNames(icc) {
							if inm != nm {
								continue
							}
							for _, st := range icc.Body {
								if as, ok := st.(*ast.AssignStmt); ok && len(as.Lhs) == 1 && len(as.Rhs) == 1 && exprName(as.Lhs[0]) == v {
									rs = append(rs, exprName(as.Rhs[0]))
								}
							}
						}
					}
					if len(rs) == 0 {
						return "<unset>"
					}
					return strings.Join(rs, ",")
				}
				var tags []string
				for _, cl := range outputsOf(cc.Body, "Op") {
					tags = append(tags, tagOf(cl, "Do", resolve))
				}
				if !first {
					b.WriteString(";\n")
				}
				first = false
				fmt.Fprintf(&b, "  mkOrow %s %s %s", coqStr(nm), coqList(tags), coqBool(setsNonFlat(cc.Body)))
			}
		}
		b.WriteString("\n].\n")
		fmt.Fprintf(&b, "Definition go_operator_has_default : bool := %s.\n", coqBool(hasDefault))
	}

	if err := os.WriteFile(os.Args[2], []byte(b.String()), 0o644); err != nil {
		die("%v", err)
	}
}
