(* Proofs/Rewrite.v — the rewriting of the replacement string of fn:replace
   (func.go, replaceFunc:  for idx := NumSubexp; idx > 0; idx-- { dst =
   strings.ReplaceAll(dst, "$idx", "${idx}") }; model: Eval.rewrite_refs_loop /
   replace_all), against Go's template expansion and the XPath reading of
   "$N" (definitions: Spec/Template.v).

   Result: correct on a precisely delimited class of replacement strings
   ([rewrite_correct]); FALSE for all "simple" templates — e.g. "$0x", "$5x"
   with 2 groups, "$1b" without groups, "$01" ([.._refuted]).
   See the summary at the end of the file.

   Compile:  coqc -Q . XP Spec/Template.v && coqc -Q . XP Proofs/Rewrite.v
   (needs Spec/StrSpec, Proofs/HashInj, Proofs/StrFuncs). *)
From XP Require Import Base Eval.
From XP.Spec Require Import Template StrSpec.
From XP.Proofs Require Import HashInj StrFuncs.
Open Scope string_scope.
Open Scope nat_scope.

(* ================================================================== *)
(** * 0. The generic scanner *)

Lemma scan_skip : forall step k s, scan step k s = scan step 0 (skipn_s k s).
Proof.
  intros step. induction k as [|k IH]; intros s.
  - reflexivity.
  - destruct s as [|c r]; [reflexivity|]. cbn [scan skipn_s]. apply IH.
Qed.

Lemma scan_nil : forall step k, scan step k "" = "".
Proof. intros step [|k]; reflexivity. Qed.

Lemma scan_cons : forall step c r,
  scan step 0 (String c r) =
  fst (step c r) ++ scan step 0 (skipn_s (snd (step c r)) r).
Proof.
  intros step c r. cbn [scan]. destruct (step c r) as [out k]. cbn [fst snd].
  now rewrite scan_skip.
Qed.

(* a scanner whose steps all copy the current byte is the identity *)
Lemma scan_copy : forall step s,
  (forall c r, step c r = (String c "", 0)) -> scan step 0 s = s.
Proof.
  intros step s H. induction s as [|c r IH]; [reflexivity|].
  rewrite scan_cons, H. cbn [fst snd skipn_s String.append]. now rewrite IH.
Qed.

(* ================================================================== *)
(** * 1. strings.ReplaceAll *)

Definition ra_step (old new : string) (c : ascii) (rest : string) : string * nat :=
  if prefix old (String c rest) then (new, String.length old - 1) else (String c "", 0).

Lemma ra_step_hit : forall old new c r, prefix old (String c r) = true ->
  ra_step old new c r = (new, String.length old - 1).
Proof. intros old new c r E. unfold ra_step. now rewrite E. Qed.

Lemma ra_step_miss : forall old new c r, prefix old (String c r) = false ->
  ra_step old new c r = (String c "", 0).
Proof. intros old new c r E. unfold ra_step. now rewrite E. Qed.

Lemma replace_all_fuel_scan : forall old new, old <> "" ->
  forall f s, String.length s < f ->
  replace_all_fuel f s old new = scan (ra_step old new) 0 s.
Proof.
  intros old new Hold. induction f as [|f IH]; intros s Hf; [lia|].
  destruct s as [|c r]; [reflexivity|].
  cbn [replace_all_fuel]. rewrite scan_cons.
  cbn [String.length] in Hf.
  destruct (prefix old (String c r)) eqn:E.
  - rewrite ra_step_hit by assumption. cbn [fst snd].
    f_equal. rewrite IH.
    + f_equal. destruct old as [|o old']; [congruence|].
      cbn [String.length skipn_s]. f_equal. lia.
    + rewrite length_skipn_s. destruct old; [congruence|]. cbn [String.length]. lia.
  - rewrite ra_step_miss by assumption. cbn [fst snd String.append skipn_s].
    f_equal. apply IH. lia.
Qed.

(* replace_all is the left-to-right scanner that, at each position, replaces
   an occurrence of [old] starting there and resumes after it, and otherwise
   copies one byte *)
Theorem replace_all_scan : forall s old new, old <> "" ->
  replace_all s old new = scan (ra_step old new) 0 s.
Proof.
  intros s old new H. unfold replace_all. apply replace_all_fuel_scan; [assumption | lia].
Qed.

(* the three defining equations *)
Theorem replace_all_nil : forall old new, replace_all "" old new = "".
Proof. reflexivity. Qed.

Theorem replace_all_hit : forall old new b, old <> "" ->
  replace_all (old ++ b) old new = new ++ replace_all b old new.
Proof.
  intros old new b H. rewrite !replace_all_scan by assumption.
  destruct old as [|o old']; [congruence|]. cbn [String.append].
  rewrite scan_cons.
  assert (E : prefix (String o old') (String o (old' ++ b)) = true).
  { apply prefix_spec. exists b. reflexivity. }
  rewrite ra_step_hit by assumption. cbn [fst snd String.length].
  replace (S (String.length old') - 1) with (String.length old') by lia.
  rewrite skipn_app_length. reflexivity.
Qed.

Theorem replace_all_miss : forall old new c r, old <> "" ->
  prefix old (String c r) = false ->
  replace_all (String c r) old new = String c (replace_all r old new).
Proof.
  intros old new c r H E. rewrite !replace_all_scan by assumption.
  rewrite scan_cons, ra_step_miss by assumption. reflexivity.
Qed.

(* no occurrence: identity *)
Theorem replace_all_absent : forall s old new, old <> "" ->
  index_of old s = None -> replace_all s old new = s.
Proof.
  intros s old new H. induction s as [|c r IH]; intros E.
  - reflexivity.
  - cbn [index_of] in E. destruct (prefix old (String c r)) eqn:P; [discriminate|].
    rewrite replace_all_miss by assumption. f_equal. apply IH.
    destruct (index_of old r); [discriminate | reflexivity].
Qed.

(* the first occurrence is replaced, the scan resumes after it *)
Theorem replace_all_first : forall a b old new, old <> "" ->
  index_of old (a ++ old ++ b) = Some (String.length a) ->
  replace_all (a ++ old ++ b) old new = a ++ new ++ replace_all b old new.
Proof.
  intros a b old new H. induction a as [|c a IH]; intros E.
  - cbn [String.append]. now apply replace_all_hit.
  - cbn [String.append String.length] in *. cbn [index_of] in E.
    destruct (prefix old (String c (a ++ old ++ b))) eqn:P; [discriminate|].
    rewrite replace_all_miss by assumption. f_equal. apply IH.
    destruct (index_of old (a ++ old ++ b)) as [i|]; [|discriminate].
    cbn [option_map] in E. injection E as E. now subst.
Qed.

(* which, by the specification of index_of (StrFuncs.index_of_spec), reads:
   if [old] does not occur in a ++ old ++ b at any offset < |a| ... *)
Corollary replace_all_first_occ : forall a b old new, old <> "" ->
  first_occurrence old (a ++ old ++ b) (String.length a) ->
  replace_all (a ++ old ++ b) old new = a ++ new ++ replace_all b old new.
Proof.
  intros a b old new H F. apply replace_all_first; [assumption|].
  now apply index_of_spec.
Qed.

(* length: every replaced occurrence trades |old| bytes for |new| bytes *)
Fixpoint ra_hits (old : string) (skip : nat) (s : string) : nat :=
  match s with
  | EmptyString => 0
  | String c r =>
    match skip with
    | S k => ra_hits old k r
    | 0 => if prefix old s then S (ra_hits old (String.length old - 1) r)
           else ra_hits old 0 r
    end
  end.
(* number of (left-to-right, non-overlapping) occurrences that are replaced *)
Definition occurrences (old s : string) : nat := ra_hits old 0 s.

Lemma ra_hits_skip : forall old k s, ra_hits old k s = ra_hits old 0 (skipn_s k s).
Proof.
  intros old. induction k as [|k IH]; intros s; [reflexivity|].
  destruct s as [|c r]; [reflexivity|]. cbn [ra_hits skipn_s]. apply IH.
Qed.

Lemma occurrences_hit : forall old b, old <> "" ->
  occurrences old (old ++ b) = S (occurrences old b).
Proof.
  intros old b H. unfold occurrences. destruct old as [|o old']; [congruence|].
  cbn [String.append]. cbn [ra_hits].
  assert (E : prefix (String o old') (String o (old' ++ b)) = true).
  { apply prefix_spec. exists b. reflexivity. }
  rewrite E. f_equal. rewrite ra_hits_skip. cbn [String.length].
  replace (S (String.length old') - 1) with (String.length old') by lia.
  now rewrite skipn_app_length.
Qed.

Lemma occurrences_miss : forall old c r, prefix old (String c r) = false ->
  occurrences old (String c r) = occurrences old r.
Proof. intros old c r E. unfold occurrences. cbn [ra_hits]. now rewrite E. Qed.

Theorem replace_all_length : forall old new s, old <> "" ->
  String.length (replace_all s old new) + occurrences old s * String.length old =
  String.length s + occurrences old s * String.length new.
Proof.
  intros old new s H.
  assert (G : forall n s, String.length s <= n ->
    String.length (replace_all s old new) + occurrences old s * String.length old =
    String.length s + occurrences old s * String.length new).
  { clear s. induction n as [|n IH]; intros s Hn.
    - destruct s; [reflexivity | cbn [String.length] in Hn; lia].
    - destruct s as [|c r]; [reflexivity|].
      destruct (prefix old (String c r)) eqn:E.
      + apply prefix_spec in E as [b Hb]. rewrite Hb.
        rewrite replace_all_hit, occurrences_hit by assumption.
        rewrite !length_app_s.
        assert (Hl : String.length b <= n).
        { apply (f_equal String.length) in Hb. rewrite length_app_s in Hb.
          cbn [String.length] in Hb, Hn.
          destruct old; [congruence|]. cbn [String.length] in Hb. lia. }
        specialize (IH b Hl). lia.
      + rewrite replace_all_miss, occurrences_miss by assumption.
        cbn [String.length] in *. specialize (IH r ltac:(lia)). lia. }
  apply (G (String.length s)). lia.
Qed.

Corollary replace_all_length_same : forall old new s, old <> "" ->
  String.length new = String.length old ->
  String.length (replace_all s old new) = String.length s.
Proof.
  intros old new s H E. pose proof (replace_all_length old new s H) as L.
  rewrite E in L. lia.
Qed.

Corollary replace_all_length_le : forall old new s, old <> "" ->
  String.length new <= String.length old ->
  String.length (replace_all s old new) <= String.length s.
Proof.
  intros old new s H E. pose proof (replace_all_length old new s H) as L.
  pose proof (Nat.mul_le_mono_l _ _ (occurrences old s) E). lia.
Qed.

Corollary replace_all_length_ge : forall old new s, old <> "" ->
  String.length old <= String.length new ->
  String.length s <= String.length (replace_all s old new).
Proof.
  intros old new s H E. pose proof (replace_all_length old new s H) as L.
  pose proof (Nat.mul_le_mono_l _ _ (occurrences old s) E). lia.
Qed.

Print Assumptions replace_all_scan.
Print Assumptions replace_all_first.
Print Assumptions replace_all_length.

Example replace_all_ex :
  replace_all "abracadabra" "bra" "*" = "a*cada*" /\
  occurrences "bra" "abracadabra" = 2 /\
  replace_all "aaaa" "aa" "b" = "bb" /\
  replace_all "aaa" "aa" "b" = "ba" /\
  index_of "$1" "x$2-$1$1" = Some 4 /\
  replace_all "x$2-$1$1" "$1" "${1}" = "x$2-${1}${1}".
Proof. vm_compute. repeat split. Qed.

(* ================================================================== *)
(** * 2. Bytes and digit strings *)

Notation is0 := (fun c : ascii => Ascii.eqb c "0").

Lemma is_dollar_true : forall c, is_dollar c = true -> c = "$"%char.
Proof. intros c H. now apply Ascii.eqb_eq. Qed.

Lemma digit_not_dollar : forall c, is_digit_ascii c = true -> is_dollar c = false.
Proof.
  intros c H. destruct (is_dollar c) eqn:E; [|reflexivity].
  apply is_dollar_true in E. subst c. discriminate H.
Qed.

Lemma digit_is_name : forall c, is_digit_ascii c = true -> is_name_char c = true.
Proof.
  intros c H. unfold is_name_char. rewrite H. cbn [orb]. now rewrite orb_true_r.
Qed.

Lemma name_may_extend : forall c, may_extend_name c = false -> is_name_char c = false.
Proof. intros c H. unfold may_extend_name in H. now apply orb_false_iff in H as [H _]. Qed.

Lemma str_all_forall : forall p s, str_all p s = str_forall p s.
Proof. intros p. induction s as [|c r IH]; cbn [str_all str_forall]; [reflexivity | now rewrite IH]. Qed.

Lemma str_all_app : forall p a b, str_all p (a ++ b) = andb (str_all p a) (str_all p b).
Proof. intros p a b. rewrite !str_all_forall. apply str_forall_app. Qed.

Lemma itoa_all_digits : forall n, str_all is_digit_ascii (itoa n) = true.
Proof. intros n. rewrite str_all_forall. apply itoa_digits. Qed.

Lemma head_is_app : forall p a b, a <> "" -> head_is p (a ++ b) = head_is p a.
Proof. intros p [|c a] b H; [congruence | reflexivity]. Qed.

Lemma head_is_weaken : forall (p q : ascii -> bool) s,
  (forall c, q c = false -> p c = false) -> head_is q s = false -> head_is p s = false.
Proof. intros p q [|c r] H E; [reflexivity | cbn [head_is] in *; auto]. Qed.

(* take_while *)
Lemma take_while_all : forall p s, str_all p (take_while p s) = true.
Proof.
  intros p. induction s as [|c r IH]; cbn [take_while]; [reflexivity|].
  destruct (p c) eqn:E; cbn [str_all]; [now rewrite E, IH | reflexivity].
Qed.

Lemma take_while_app : forall p a b, str_all p a = true -> head_is p b = false ->
  take_while p (a ++ b) = a.
Proof.
  intros p. induction a as [|c a IH]; intros b Ha Hb.
  - cbn [String.append]. destruct b as [|d b]; [reflexivity|].
    cbn [head_is] in Hb. cbn [take_while]. now rewrite Hb.
  - cbn [str_all] in Ha. apply andb_true_iff in Ha as [Hc Ha].
    cbn [String.append take_while]. rewrite Hc. now rewrite IH.
Qed.

Lemma take_while_split : forall p s,
  s = take_while p s ++ skipn_s (String.length (take_while p s)) s /\
  head_is p (skipn_s (String.length (take_while p s)) s) = false.
Proof.
  intros p. induction s as [|c r [IH1 IH2]]; [split; reflexivity|].
  cbn [take_while]. destruct (p c) eqn:E.
  - cbn [String.length skipn_s String.append]. split; [now rewrite <- IH1 | exact IH2].
  - cbn [String.length skipn_s String.append head_is]. split; [reflexivity | exact E].
Qed.

(* a digit string that is a prefix of ds ++ R (R not starting with a digit) is a prefix of ds *)
Lemma digits_prefix_app : forall p ds R b,
  str_all is_digit_ascii p = true -> head_is is_digit_ascii R = false ->
  p ++ b = ds ++ R -> exists b', ds = p ++ b'.
Proof.
  induction p as [|x p IH]; intros ds R b Hp HR E.
  - exists ds. reflexivity.
  - cbn [str_all] in Hp. apply andb_true_iff in Hp as [Hx Hp].
    destruct ds as [|y ds].
    + cbn [String.append] in E. subst R. cbn [head_is] in HR. congruence.
    + cbn [String.append] in E. injection E as -> E.
      destruct (IH ds R b Hp HR E) as [b' ->]. exists b'. reflexivity.
Qed.

(* digit values *)
Lemma digit_val_char : forall d, d < 10 -> digit_val (digit_char d) = d.
Proof.
  intros d H. unfold digit_val, digit_char, byte_of.
  rewrite nat_ascii_embedding by lia. lia.
Qed.

Lemma digit_range : forall c, is_digit_ascii c = true -> 48 <= nat_of_ascii c <= 57.
Proof.
  intros c H. unfold is_digit_ascii, byte_of in H.
  apply andb_true_iff in H as [H1 H2]. apply Nat.leb_le in H1, H2. lia.
Qed.

Lemma digit_char_val : forall c, is_digit_ascii c = true -> digit_char (digit_val c) = c.
Proof.
  intros c H. apply digit_range in H. unfold digit_char, digit_val, byte_of.
  replace (48 + (nat_of_ascii c - 48)) with (nat_of_ascii c) by lia.
  apply ascii_nat_embedding.
Qed.

Lemma digit_val_lt : forall c, is_digit_ascii c = true -> digit_val c < 10.
Proof. intros c H. apply digit_range in H. unfold digit_val, byte_of. lia. Qed.

Lemma dec_acc_app : forall a b acc, dec_acc acc (a ++ b) = dec_acc (dec_acc acc a) b.
Proof.
  induction a as [|c a IH]; intros b acc; cbn [String.append dec_acc]; [reflexivity | apply IH].
Qed.

Lemma dec_val_snoc : forall a c, dec_val (a ++ String c "") = 10 * dec_val a + digit_val c.
Proof. intros a c. unfold dec_val. rewrite dec_acc_app. reflexivity. Qed.

Lemma dec_val_one : forall c, dec_val (String c "") = digit_val c.
Proof. intros c. unfold dec_val. cbn [dec_acc]. lia. Qed.

Theorem dec_val_itoa : forall n, dec_val (itoa n) = n.
Proof.
  intros n. induction n as [n IH] using lt_wf_ind.
  destruct (Nat.ltb n 10) eqn:E.
  - apply Nat.ltb_lt in E. rewrite itoa_small by assumption.
    rewrite dec_val_one. now apply digit_val_char.
  - apply Nat.ltb_ge in E. rewrite itoa_big by assumption.
    rewrite dec_val_snoc, IH by now apply div10_lt.
    rewrite digit_val_char by (apply Nat.mod_upper_bound; lia).
    symmetry. apply Nat.div_mod. lia.
Qed.

Lemma digit_char_nz : forall d, 1 <= d < 10 -> Ascii.eqb (digit_char d) "0" = false.
Proof.
  intros d H. destruct (Ascii.eqb (digit_char d) "0") eqn:E; [|reflexivity].
  apply Ascii.eqb_eq in E. change "0"%char with (digit_char 0) in E.
  apply digit_char_inj in E; lia.
Qed.

Lemma itoa_head_nz : forall n, 1 <= n -> head_is is0 (itoa n) = false.
Proof.
  intros n. induction n as [n IH] using lt_wf_ind. intros H.
  destruct (Nat.ltb n 10) eqn:E.
  - apply Nat.ltb_lt in E. rewrite itoa_small by assumption. cbn [head_is].
    apply digit_char_nz. lia.
  - apply Nat.ltb_ge in E. rewrite itoa_big by assumption.
    rewrite head_is_app by apply itoa_nonempty.
    apply IH; [now apply div10_lt|].
    apply Nat.div_le_lower_bound; lia.
Qed.

Lemma itoa_leading_zero : forall n, leading_zero (itoa n) = false.
Proof.
  intros n. destruct (Nat.eq_dec n 0) as [->|N]; [reflexivity|].
  pose proof (itoa_head_nz n ltac:(lia)) as H.
  destruct (itoa n) as [|c [|d r]]; try reflexivity. exact H.
Qed.

(* reverse induction on strings *)
Lemma string_snoc_ex : forall r c, exists a d, String c r = a ++ String d "".
Proof.
  induction r as [|x r IH]; intros c.
  - exists "", c. reflexivity.
  - destruct (IH x) as [a [d E]]. exists (String c a), d. cbn [String.append]. now rewrite <- E.
Qed.

Lemma string_rev_ind : forall P : string -> Prop,
  P "" -> (forall a c, P a -> P (a ++ String c "")) -> forall s, P s.
Proof.
  intros P H0 HS s.
  assert (G : forall n s, String.length s = n -> P s).
  { clear s. induction n as [|n IH]; intros s Hn.
    - apply length_zero_s in Hn. now subst.
    - destruct s as [|c r]; [discriminate|].
      destruct (string_snoc_ex r c) as [a [d E]]. rewrite E. apply HS. apply IH.
      rewrite E in Hn. rewrite length_app_s in Hn. cbn [String.length] in Hn. lia. }
  now apply (G (String.length s)).
Qed.

(* itoa inverts dec_val on canonical numerals *)
Theorem itoa_dec_val : forall p,
  str_all is_digit_ascii p = true -> p <> "" -> head_is is0 p = false ->
  itoa (dec_val p) = p.
Proof.
  induction p as [|a c IH] using string_rev_ind; intros Hd Hne Hz; [congruence|].
  rewrite str_all_app in Hd. apply andb_true_iff in Hd as [Ha Hc].
  cbn [str_all] in Hc. rewrite andb_true_r in Hc.
  rewrite dec_val_snoc.
  destruct a as [|x a'].
  - cbn [String.append]. change (dec_val "") with 0. cbn [Nat.mul Nat.add].
    rewrite itoa_small by now apply digit_val_lt. now rewrite digit_char_val.
  - assert (Hne' : String x a' <> "") by discriminate.
    rewrite head_is_app in Hz by assumption.
    specialize (IH Ha Hne' Hz).
    pose proof (digit_val_lt c Hc) as Hlt.
    assert (Hpos : 1 <= dec_val (String x a')).
    { destruct (dec_val (String x a')) eqn:E; [|lia].
      change (itoa 0) with "0" in IH. rewrite <- IH in Hz. discriminate Hz. }
    rewrite itoa_big by lia.
    replace ((10 * dec_val (String x a') + digit_val c) / 10) with (dec_val (String x a'))
      by (apply (Nat.div_unique _ 10 _ (digit_val c)); lia).
    replace ((10 * dec_val (String x a') + digit_val c) mod 10) with (digit_val c)
      by (apply (Nat.mod_unique _ 10 (dec_val (String x a')) _); lia).
    now rewrite IH, digit_char_val.
Qed.

Lemma itoa_length_mono : forall n j, j <= n ->
  String.length (itoa j) <= String.length (itoa n).
Proof.
  intros n. induction n as [n IH] using lt_wf_ind. intros j H.
  destruct (Nat.ltb n 10) eqn:En.
  - apply Nat.ltb_lt in En. rewrite !itoa_small by lia. reflexivity.
  - apply Nat.ltb_ge in En. rewrite (itoa_big n) by assumption.
    rewrite length_app_s. cbn [String.length].
    destruct (Nat.ltb j 10) eqn:Ej.
    + apply Nat.ltb_lt in Ej. rewrite itoa_small by assumption. cbn [String.length]. lia.
    + apply Nat.ltb_ge in Ej. rewrite (itoa_big j) by assumption.
      rewrite length_app_s. cbn [String.length].
      pose proof (IH (n / 10) (div10_lt n En) (j / 10)
                     (Nat.div_le_mono _ _ 10 ltac:(lia) H)). lia.
Qed.

Print Assumptions itoa_dec_val.

(* ================================================================== *)
(** * 3. Which reference does the loop of replaceFunc brace?

   [best hi s]: the first idx, counting down from hi, such that the decimal
   numeral of idx is a prefix of s (s = what follows a '$'). *)
Fixpoint best (hi : nat) (s : string) : option nat :=
  match hi with
  | 0 => None
  | S h => if prefix (itoa (S h)) s then Some (S h) else best h s
  end.

Lemma best_Some : forall hi s j, best hi s = Some j ->
  1 <= j <= hi /\ prefix (itoa j) s = true /\
  (forall j', j < j' <= hi -> prefix (itoa j') s = false).
Proof.
  induction hi as [|h IH]; intros s j E; cbn [best] in E; [discriminate|].
  destruct (prefix (itoa (S h)) s) eqn:P.
  - injection E as <-. split; [lia|]. split; [exact P|]. intros j' Hj. lia.
  - destruct (IH s j E) as (A & B & C). split; [lia|]. split; [exact B|].
    intros j' Hj. destruct (Nat.eq_dec j' (S h)) as [->|N]; [exact P | apply C; lia].
Qed.

Lemma best_None : forall hi s, best hi s = None ->
  forall j', 1 <= j' <= hi -> prefix (itoa j') s = false.
Proof.
  induction hi as [|h IH]; intros s E j' Hj; [lia|]. cbn [best] in E.
  destruct (prefix (itoa (S h)) s) eqn:P; [discriminate|].
  destruct (Nat.eq_dec j' (S h)) as [->|N]; [exact P | apply IH; [exact E | lia]].
Qed.

(* the XPath side: [valid nsub ds l] = the first l digits of ds name a group *)
Definition valid (nsub : nat) (ds : string) (l : nat) : bool :=
  andb (Nat.leb 1 (dec_val (firstn_s l ds))) (Nat.leb (dec_val (firstn_s l ds)) nsub).

Lemma xp_pick_S : forall nsub ds l,
  xp_pick nsub ds (S l) = if valid nsub ds (S l) then Some (S l) else xp_pick nsub ds l.
Proof. reflexivity. Qed.

Lemma xp_pick_Some : forall nsub ds len l, xp_pick nsub ds len = Some l ->
  1 <= l <= len /\ valid nsub ds l = true /\
  (forall l', l < l' <= len -> valid nsub ds l' = false).
Proof.
  intros nsub ds. induction len as [|len IH]; intros l E; [discriminate|].
  rewrite xp_pick_S in E. destruct (valid nsub ds (S len)) eqn:V.
  - injection E as <-. split; [lia|]. split; [exact V|]. intros l' Hl. lia.
  - destruct (IH l E) as (A & B & C). split; [lia|]. split; [exact B|].
    intros l' Hl. destruct (Nat.eq_dec l' (S len)) as [->|N]; [exact V | apply C; lia].
Qed.

Lemma xp_pick_None : forall nsub ds len, xp_pick nsub ds len = None ->
  forall l', 1 <= l' <= len -> valid nsub ds l' = false.
Proof.
  intros nsub ds. induction len as [|len IH]; intros E l' Hl; [lia|].
  rewrite xp_pick_S in E. destruct (valid nsub ds (S len)) eqn:V; [discriminate|].
  destruct (Nat.eq_dec l' (S len)) as [->|N]; [exact V | apply IH; [exact E | lia]].
Qed.

Lemma xp_pick_intro_Some : forall nsub ds len l,
  1 <= l <= len -> valid nsub ds l = true ->
  (forall l', l < l' <= len -> valid nsub ds l' = false) ->
  xp_pick nsub ds len = Some l.
Proof.
  intros nsub ds len l Hl V M.
  destruct (xp_pick nsub ds len) as [l0|] eqn:E.
  - destruct (xp_pick_Some _ _ _ _ E) as (A & B & C). f_equal.
    destruct (Nat.lt_trichotomy l0 l) as [H|[H|H]]; [|exact H|].
    + rewrite C in V by lia. discriminate.
    + rewrite M in B by lia. discriminate.
  - rewrite (xp_pick_None _ _ _ E l Hl) in V. discriminate.
Qed.

Lemma xp_pick_intro_None : forall nsub ds len,
  (forall l', 1 <= l' <= len -> valid nsub ds l' = false) ->
  xp_pick nsub ds len = None.
Proof.
  intros nsub ds len M. destruct (xp_pick nsub ds len) as [l0|] eqn:E; [|reflexivity].
  destruct (xp_pick_Some _ _ _ _ E) as (A & B & C). rewrite M in B by lia. discriminate.
Qed.

(* prefixes of a canonical numeral are canonical numerals *)
Lemma firstn_canonical : forall ds l,
  str_all is_digit_ascii ds = true -> head_is is0 ds = false ->
  1 <= l <= String.length ds ->
  itoa (dec_val (firstn_s l ds)) = firstn_s l ds /\ String.length (firstn_s l ds) = l.
Proof.
  intros ds l Hd Hz Hl. split.
  - apply itoa_dec_val.
    + rewrite <- (firstn_skipn_s l ds), str_all_app in Hd.
      now apply andb_true_iff in Hd as [Hd _].
    + destruct l as [|l]; [lia|]. destruct ds; [cbn [String.length] in Hl; lia | discriminate].
    + destruct l as [|l]; [lia|]. destruct ds; [reflexivity | exact Hz].
  - rewrite length_firstn_s. lia.
Qed.

Lemma prefix_of_digits : forall p ds R,
  str_all is_digit_ascii p = true -> head_is is_digit_ascii R = false ->
  prefix p (ds ++ R) = true ->
  firstn_s (String.length p) ds = p /\ String.length p <= String.length ds.
Proof.
  intros p ds R Hp HR P. apply prefix_spec in P as [b Hb].
  destruct (digits_prefix_app p ds R b Hp HR (eq_sym Hb)) as [b' ->].
  split; [apply firstn_app_length | rewrite length_app_s; lia].
Qed.

(* The engine's choice is the XPath choice (longest prefix naming a group),
   for digit runs without leading zero. *)
Lemma best_pick : forall nsub ds R,
  str_all is_digit_ascii ds = true -> head_is is0 ds = false ->
  head_is is_digit_ascii R = false ->
  match best nsub (ds ++ R) with
  | Some j => 1 <= j <= nsub /\
              xp_pick nsub ds (String.length ds) = Some (String.length (itoa j)) /\
              firstn_s (String.length (itoa j)) ds = itoa j
  | None => xp_pick nsub ds (String.length ds) = None
  end.
Proof.
  intros nsub ds R Hd Hz HR.
  (* a valid prefix of length l' gives a numeral that is a prefix of ds ++ R *)
  assert (K : forall l', 1 <= l' <= String.length ds -> valid nsub ds l' = true ->
            let j' := dec_val (firstn_s l' ds) in
            1 <= j' <= nsub /\ prefix (itoa j') (ds ++ R) = true /\
            String.length (itoa j') = l').
  { intros l' Hl V j'. unfold valid in V. apply andb_true_iff in V as [V1 V2].
    apply Nat.leb_le in V1, V2. split; [subst j'; lia|].
    destruct (firstn_canonical ds l' Hd Hz Hl) as [C1 C2]. subst j'. rewrite C1.
    split; [|exact C2]. apply prefix_spec. exists (skipn_s l' ds ++ R).
    now rewrite <- app_assoc_s, firstn_skipn_s. }
  destruct (best nsub (ds ++ R)) as [j|] eqn:B.
  - destruct (best_Some _ _ _ B) as (Hj & P & M).
    destruct (prefix_of_digits _ _ _ (itoa_all_digits j) HR P) as [F L].
    split; [exact Hj|]. split; [|exact F].
    pose proof (itoa_length_pos j) as Lp.
    apply xp_pick_intro_Some.
    + lia.
    + unfold valid. rewrite F, dec_val_itoa. apply andb_true_iff.
      split; apply Nat.leb_le; lia.
    + intros l' Hl. destruct (valid nsub ds l') eqn:V; [|reflexivity]. exfalso.
      destruct (K l' ltac:(lia) V) as (Hj' & P' & L').
      set (j' := dec_val (firstn_s l' ds)) in *.
      destruct (Nat.le_gt_cases j' j) as [Hle|Hgt].
      * pose proof (itoa_length_mono j j' Hle). lia.
      * rewrite M in P' by lia. discriminate.
  - apply xp_pick_intro_None. intros l' Hl.
    destruct (valid nsub ds l') eqn:V; [|reflexivity]. exfalso.
    destruct (K l' Hl V) as (Hj' & P' & _).
    rewrite (best_None _ _ B _ Hj') in P'. discriminate.
Qed.

(* numerals of positive numbers do not start with '0': no reference with a
   leading zero is ever braced *)
Lemma best_leading_zero : forall hi s, head_is is0 s = true -> best hi s = None.
Proof.
  intros hi s Hz. destruct (best hi s) as [j|] eqn:B; [|reflexivity]. exfalso.
  destruct (best_Some _ _ _ B) as (Hj & P & _).
  apply prefix_spec in P as [b ->].
  rewrite head_is_app in Hz by apply itoa_nonempty.
  rewrite itoa_head_nz in Hz by lia. discriminate.
Qed.

(* ================================================================== *)
(** * 4. The loop of replaceFunc as ONE left-to-right pass

   [rw lo hi r]: at every '$', if [best hi] finds a numeral j and lo < j,
   emit "${j}" and skip the numeral; otherwise copy.  [rw lo hi r] is the
   value of dst after the iterations idx = hi, hi-1, .., lo+1. *)
Definition rw_step (lo hi : nat) (c : ascii) (rest : string) : string * nat :=
  if is_dollar c then
    match best hi rest with
    | Some j => if Nat.ltb lo j then ("${" ++ itoa j ++ "}", String.length (itoa j))
                else (String c "", 0)
    | None => (String c "", 0)
    end
  else (String c "", 0).

Definition rw (lo hi : nat) (r : string) : string := scan (rw_step lo hi) 0 r.

Lemma rw_nil : forall lo hi, rw lo hi "" = "".
Proof. reflexivity. Qed.

Lemma rw_step_other : forall lo hi c t, is_dollar c = false ->
  rw_step lo hi c t = (String c "", 0).
Proof. intros lo hi c t D. unfold rw_step. now rewrite D. Qed.

Lemma rw_step_brace : forall lo hi t j, best hi t = Some j -> lo < j ->
  rw_step lo hi "$" t = ("${" ++ itoa j ++ "}", String.length (itoa j)).
Proof.
  intros lo hi t j B L. unfold rw_step. change (is_dollar "$") with true. cbv iota.
  rewrite B. apply Nat.ltb_lt in L. now rewrite L.
Qed.

Lemma rw_step_keep : forall lo hi t,
  match best hi t with Some j => j <= lo | None => True end ->
  rw_step lo hi "$" t = ("$", 0).
Proof.
  intros lo hi t B. unfold rw_step. change (is_dollar "$") with true. cbv iota.
  destruct (best hi t) as [j|]; [|reflexivity].
  apply Nat.ltb_ge in B. now rewrite B.
Qed.

Lemma rw_other : forall lo hi c t, is_dollar c = false ->
  rw lo hi (String c t) = String c (rw lo hi t).
Proof.
  intros lo hi c t D. unfold rw. rewrite scan_cons, rw_step_other by assumption.
  reflexivity.
Qed.

Lemma rw_brace : forall lo hi t j, best hi t = Some j -> lo < j ->
  rw lo hi (String "$" t) =
  "${" ++ itoa j ++ "}" ++ rw lo hi (skipn_s (String.length (itoa j)) t).
Proof.
  intros lo hi t j B L. unfold rw. rewrite scan_cons, (rw_step_brace lo hi t j B L).
  cbn [fst snd]. now rewrite !app_assoc_s.
Qed.

Lemma rw_keep : forall lo hi t,
  match best hi t with Some j => j <= lo | None => True end ->
  rw lo hi (String "$" t) = String "$" (rw lo hi t).
Proof.
  intros lo hi t B. unfold rw. rewrite scan_cons, rw_step_keep by assumption.
  reflexivity.
Qed.

Lemma rw_dollar_head : forall lo hi t, exists X, rw lo hi (String "$" t) = String "$" X.
Proof.
  intros lo hi t. destruct (best hi t) as [j|] eqn:B.
  - destruct (Nat.ltb lo j) eqn:L.
    + apply Nat.ltb_lt in L. rewrite (rw_brace lo hi t j B L). eexists. reflexivity.
    + apply Nat.ltb_ge in L. rewrite rw_keep by now rewrite B. eexists. reflexivity.
  - rewrite rw_keep by now rewrite B. eexists. reflexivity.
Qed.

(* the first byte is unchanged *)
Lemma rw_head : forall lo hi p s, head_is p (rw lo hi s) = head_is p s.
Proof.
  intros lo hi p [|c t]; [reflexivity|].
  destruct (is_dollar c) eqn:D.
  - apply is_dollar_true in D. subst c.
    destruct (rw_dollar_head lo hi t) as [X ->]. reflexivity.
  - now rewrite rw_other.
Qed.

Lemma rw_digits : forall lo hi w t, str_all is_digit_ascii w = true ->
  rw lo hi (w ++ t) = w ++ rw lo hi t.
Proof.
  intros lo hi. induction w as [|c w IH]; intros t H; [reflexivity|].
  cbn [str_all] in H. apply andb_true_iff in H as [Hc Hw].
  cbn [String.append]. rewrite rw_other by now apply digit_not_dollar.
  now rewrite IH.
Qed.

Lemma prefix_nil : forall s, prefix "" s = true.
Proof. intros [|c r]; reflexivity. Qed.

Lemma prefix_cons : forall a p b s,
  prefix (String a p) (String b s) = if Ascii.eqb a b then prefix p s else false.
Proof.
  intros a p b s. cbn [prefix]. destruct (ascii_dec a b) as [->|N].
  - now rewrite Ascii.eqb_refl.
  - apply Ascii.eqb_neq in N. now rewrite N.
Qed.

(* rewriting does not change which digit strings are prefixes *)
Lemma rw_prefix_digits : forall lo hi p s, str_all is_digit_ascii p = true ->
  prefix p (rw lo hi s) = prefix p s.
Proof.
  intros lo hi. induction p as [|d p IH]; intros s H.
  - now rewrite !prefix_nil.
  - cbn [str_all] in H. apply andb_true_iff in H as [Hd Hp].
    destruct s as [|c t]; [reflexivity|].
    destruct (is_dollar c) eqn:D.
    + apply is_dollar_true in D. subst c.
      destruct (rw_dollar_head lo hi t) as [X ->]. rewrite !prefix_cons.
      destruct (Ascii.eqb d "$") eqn:E; [|reflexivity].
      apply Ascii.eqb_eq in E. subst d. discriminate Hd.
    + rewrite rw_other by assumption. rewrite !prefix_cons.
      destruct (Ascii.eqb d c); [now apply IH | reflexivity].
Qed.

(* one iteration of the loop *)
Definition pass (k : nat) (s : string) : string :=
  replace_all s ("$" ++ itoa k) ("${" ++ itoa k ++ "}").

Lemma old_nonempty : forall k, "$" ++ itoa k <> "".
Proof. discriminate. Qed.

Lemma pass_other : forall k c t, is_dollar c = false ->
  pass k (String c t) = String c (pass k t).
Proof.
  intros k c t D. unfold pass. apply replace_all_miss; [apply old_nonempty|].
  cbn [String.append]. rewrite prefix_cons.
  destruct (Ascii.eqb "$" c) eqn:E; [|reflexivity].
  apply Ascii.eqb_eq in E. subst c. discriminate D.
Qed.

Lemma pass_dollar_miss : forall k t, prefix (itoa k) t = false ->
  pass k (String "$" t) = String "$" (pass k t).
Proof.
  intros k t P. unfold pass. apply replace_all_miss; [apply old_nonempty|].
  cbn [String.append]. rewrite prefix_cons. exact P.
Qed.

Lemma pass_dollar_hit : forall k t,
  pass k (String "$" (itoa k ++ t)) = "${" ++ itoa k ++ "}" ++ pass k t.
Proof.
  intros k t. unfold pass.
  change (String "$" (itoa k ++ t)) with (("$" ++ itoa k) ++ t).
  rewrite replace_all_hit by apply old_nonempty.
  cbn [String.append]. now rewrite !app_assoc_s.
Qed.

Lemma pass_nodollar : forall k w t, str_all (fun c => negb (is_dollar c)) w = true ->
  pass k (w ++ t) = w ++ pass k t.
Proof.
  intros k. induction w as [|c w IH]; intros t H; [reflexivity|].
  cbn [str_all] in H. apply andb_true_iff in H as [Hc Hw].
  apply negb_true_iff in Hc. cbn [String.append]. rewrite pass_other by assumption.
  now rewrite IH.
Qed.

Lemma digits_nodollar : forall w, str_all is_digit_ascii w = true ->
  str_all (fun c => negb (is_dollar c)) w = true.
Proof.
  induction w as [|c w IH]; intros H; [reflexivity|].
  cbn [str_all] in *. apply andb_true_iff in H as [Hc Hw].
  rewrite (digit_not_dollar c Hc), IH by assumption. reflexivity.
Qed.

Lemma prefix_digits_nondigit : forall p c t,
  p <> "" -> str_all is_digit_ascii p = true -> is_digit_ascii c = false ->
  prefix p (String c t) = false.
Proof.
  intros [|d p] c t Hne Hp Hc; [congruence|].
  cbn [str_all] in Hp. apply andb_true_iff in Hp as [Hd _].
  rewrite prefix_cons. destruct (Ascii.eqb d c) eqn:E; [|reflexivity].
  apply Ascii.eqb_eq in E. subst. congruence.
Qed.

(* iteration idx = S k turns the state "after idx = hi .. S k + 1" into the
   state "after idx = hi .. S k" *)
Lemma pass_rw : forall hi k, k < hi -> forall r,
  pass (S k) (rw (S k) hi r) = rw k hi r.
Proof.
  intros hi k Hk.
  assert (G : forall n r, String.length r <= n -> pass (S k) (rw (S k) hi r) = rw k hi r).
  { induction n as [|n IH]; intros r Hn.
    - destruct r; [reflexivity | cbn [String.length] in Hn; lia].
    - destruct r as [|c r']; [reflexivity|]. cbn [String.length] in Hn.
      destruct (is_dollar c) eqn:D.
      + apply is_dollar_true in D. subst c.
        destruct (best hi r') as [j|] eqn:B.
        * destruct (best_Some _ _ _ B) as (Hj & P & M).
          destruct (lt_eq_lt_dec j (S k)) as [[Hlt|Heq]|Hgt].
          -- (* j <= k: untouched by this and by the earlier iterations *)
             rewrite !rw_keep by (rewrite B; lia).
             rewrite pass_dollar_miss.
             ++ f_equal. apply IH. lia.
             ++ rewrite rw_prefix_digits by apply itoa_all_digits. apply M. lia.
          -- (* j = S k: braced now *)
             subst j. rewrite rw_keep by (rewrite B; lia).
             rewrite (rw_brace k hi r' (S k) B) by lia.
             apply prefix_spec in P as [b ->].
             rewrite rw_digits by apply itoa_all_digits.
             rewrite pass_dollar_hit. rewrite skipn_app_length.
             rewrite IH; [reflexivity|].
             rewrite length_app_s in Hn. lia.
          -- (* j > S k: braced earlier *)
             rewrite (rw_brace (S k) hi r' j B), (rw_brace k hi r' j B) by lia.
             change ("${" ++ itoa j ++ "}" ++ rw (S k) hi (skipn_s (String.length (itoa j)) r'))
               with (String "$" (String "{" (itoa j ++ "}" ++ rw (S k) hi (skipn_s (String.length (itoa j)) r')))).
             rewrite pass_dollar_miss
               by (apply prefix_digits_nondigit;
                   [apply itoa_nonempty | apply itoa_all_digits | reflexivity]).
             rewrite pass_other by reflexivity.
             rewrite pass_nodollar by (apply digits_nodollar, itoa_all_digits).
             cbn [String.append]. rewrite pass_other by reflexivity.
             rewrite IH; [reflexivity|]. rewrite length_skipn_s. lia.
        * rewrite !rw_keep by now rewrite B.
          rewrite pass_dollar_miss.
          -- f_equal. apply IH. lia.
          -- rewrite rw_prefix_digits by apply itoa_all_digits.
             apply (best_None _ _ B). lia.
      + rewrite !rw_other by assumption. rewrite pass_other by assumption.
        f_equal. apply IH. lia. }
  intros r. apply (G (String.length r)). lia.
Qed.

Lemma rw_top : forall hi r, rw hi hi r = r.
Proof.
  intros hi r. unfold rw. apply scan_copy. intros c t. unfold rw_step.
  destruct (is_dollar c); [|reflexivity].
  destruct (best hi t) as [j|] eqn:B; [|reflexivity].
  destruct (best_Some _ _ _ B) as (Hj & _ & _).
  assert (E : Nat.ltb hi j = false) by (apply Nat.ltb_ge; lia). now rewrite E.
Qed.

Lemma rewrite_refs_rw_gen : forall hi r k, k <= hi ->
  rewrite_refs_loop k (rw k hi r) = rw 0 hi r.
Proof.
  intros hi r. induction k as [|k IH]; intros Hk; [reflexivity|].
  cbn [rewrite_refs_loop]. fold (pass (S k) (rw (S k) hi r)).
  rewrite pass_rw by lia. apply IH. lia.
Qed.

(* The whole loop, for ALL strings r: one left-to-right pass that braces, at
   each '$', the largest idx <= nsub whose numeral follows. *)
Theorem rewrite_refs_one_pass : forall nsub r, rewrite_refs_loop nsub r = rw 0 nsub r.
Proof.
  intros nsub r. rewrite <- (rw_top nsub r) at 1. now apply rewrite_refs_rw_gen.
Qed.

Print Assumptions rewrite_refs_one_pass.

(* ================================================================== *)
(** * 5. Go's Expand on the rewritten template *)

Lemma digit_not_lbrace : forall c, is_digit_ascii c = true -> Ascii.eqb c "{" = false.
Proof.
  intros c H. destruct (Ascii.eqb c "{") eqn:E; [|reflexivity].
  apply Ascii.eqb_eq in E. subst c. discriminate H.
Qed.

Lemma digits_are_names : forall w, str_all is_digit_ascii w = true ->
  str_all is_name_char w = true.
Proof.
  induction w as [|c w IH]; intros H; [reflexivity|].
  cbn [str_all] in *. apply andb_true_iff in H as [Hc Hw].
  now rewrite (digit_is_name c Hc), IH.
Qed.

Lemma go_step_other : forall nsub g c rest, is_dollar c = false ->
  go_step nsub g c rest = (String c "", 0).
Proof. intros nsub g c rest D. unfold go_step. now rewrite D. Qed.

(* "${name}" *)
Lemma go_step_braced : forall nsub g name X,
  str_all is_name_char name = true -> name <> "" ->
  go_step nsub g "$" (String "{" (name ++ String "}" X)) =
  (go_ref_value nsub g name, 2 + String.length name).
Proof.
  intros nsub g name X Hn Hne. unfold go_step.
  change (negb (is_dollar "$")) with false. cbv iota.
  change (head_is is_dollar (String "{" (name ++ String "}" X))) with false. cbv iota.
  change (head_is (fun d => Ascii.eqb d "{") (String "{" (name ++ String "}" X))) with true.
  cbv iota. cbn [skipn_s]. cbv zeta.
  rewrite take_while_app by (assumption || reflexivity).
  rewrite skipn_app_length. cbn [head_is]. change (Ascii.eqb "}" "}") with true. cbv iota.
  destruct name; [congruence | reflexivity].
Qed.

(* "$name": the name extends as far as name characters go *)
Lemma go_step_named : forall nsub g name R,
  str_all is_name_char name = true -> name <> "" ->
  head_is is_dollar name = false -> head_is (fun d => Ascii.eqb d "{") name = false ->
  head_is is_name_char R = false ->
  go_step nsub g "$" (name ++ R) = (go_ref_value nsub g name, String.length name).
Proof.
  intros nsub g name R Hn Hne H1 H2 HR. unfold go_step.
  change (negb (is_dollar "$")) with false. cbv iota.
  rewrite !head_is_app by assumption. rewrite H1, H2. cbv zeta.
  rewrite take_while_app by assumption.
  destruct name; [congruence | reflexivity].
Qed.

Lemma go_expand_other : forall nsub g c t, is_dollar c = false ->
  go_expand nsub g (String c t) = String c (go_expand nsub g t).
Proof.
  intros nsub g c t D. unfold go_expand. rewrite scan_cons, go_step_other by assumption.
  reflexivity.
Qed.

Lemma skipn_succ_app : forall a c X, skipn_s (S (String.length a)) (a ++ String c X) = X.
Proof.
  induction a as [|x a IH]; intros c X; [reflexivity|].
  cbn [String.length String.append]. cbn [skipn_s]. apply IH.
Qed.

Lemma go_expand_braced : forall nsub g name X,
  str_all is_name_char name = true -> name <> "" ->
  go_expand nsub g ("${" ++ name ++ "}" ++ X) =
  go_ref_value nsub g name ++ go_expand nsub g X.
Proof.
  intros nsub g name X Hn Hne. unfold go_expand.
  change ("${" ++ name ++ "}" ++ X) with (String "$" (String "{" (name ++ String "}" X))).
  rewrite scan_cons, go_step_braced by assumption. cbn [fst snd].
  change (skipn_s (2 + String.length name) (String "{" (name ++ String "}" X)))
    with (skipn_s (S (String.length name)) (name ++ String "}" X)).
  now rewrite skipn_succ_app.
Qed.

Lemma go_expand_named : forall nsub g name R,
  str_all is_name_char name = true -> name <> "" ->
  head_is is_dollar name = false -> head_is (fun d => Ascii.eqb d "{") name = false ->
  head_is is_name_char R = false ->
  go_expand nsub g (String "$" (name ++ R)) =
  go_ref_value nsub g name ++ go_expand nsub g R.
Proof.
  intros nsub g name R Hn Hne H1 H2 HR. unfold go_expand.
  rewrite scan_cons, go_step_named by assumption. cbn [fst snd].
  now rewrite skipn_app_length.
Qed.

(* the values of the references *)
Lemma go_ref_value_itoa : forall nsub g j,
  String.length (itoa nsub) <= 9 -> j <= nsub ->
  go_ref_value nsub g (itoa j) = g j.
Proof.
  intros nsub g j H9 Hj. unfold go_ref_value, go_name_num.
  rewrite itoa_all_digits, itoa_leading_zero. cbn [negb andb].
  pose proof (itoa_length_mono nsub j Hj) as L.
  assert (E : Nat.leb (String.length (itoa j)) 9 = true) by (apply Nat.leb_le; lia).
  rewrite E, dec_val_itoa.
  apply Nat.leb_le in Hj. now rewrite Hj.
Qed.

Lemma go_ref_value_big : forall nsub g name, nsub < dec_val name ->
  go_ref_value nsub g name = "".
Proof.
  intros nsub g name H. unfold go_ref_value, go_name_num.
  destruct (andb _ _); [|reflexivity].
  apply Nat.leb_gt in H. now rewrite H.
Qed.

(* ================================================================== *)
(** * 6. The XPath reading *)

Lemma xpath_step_other : forall nsub g c rest, is_dollar c = false ->
  xpath_step nsub g c rest = (String c "", 0).
Proof. intros nsub g c rest D. unfold xpath_step. now rewrite D. Qed.

Lemma xpath_expand_other : forall nsub g c t, is_dollar c = false ->
  xpath_expand nsub g (String c t) = String c (xpath_expand nsub g t).
Proof.
  intros nsub g c t D. unfold xpath_expand. rewrite scan_cons, xpath_step_other by assumption.
  reflexivity.
Qed.

Lemma xpath_expand_ref : forall nsub g ds R,
  str_all is_digit_ascii ds = true -> ds <> "" -> head_is is_digit_ascii R = false ->
  xpath_expand nsub g (String "$" (ds ++ R)) =
  match xp_pick nsub ds (String.length ds) with
  | Some l => g (dec_val (firstn_s l ds)) ++ xpath_expand nsub g (skipn_s l (ds ++ R))
  | None => (if Nat.eqb (dec_val ds) 0 then g 0 else "") ++ xpath_expand nsub g R
  end.
Proof.
  intros nsub g ds R Hd Hne HR. unfold xpath_expand. rewrite scan_cons.
  unfold xpath_step. change (negb (is_dollar "$")) with false. cbv iota zeta.
  rewrite take_while_app by assumption.
  destruct ds as [|d ds']; [congruence|].
  destruct (xp_pick nsub (String d ds') (String.length (String d ds'))) as [l|];
    cbn [fst snd]; [reflexivity|].
  now rewrite skipn_app_length.
Qed.

(* ================================================================== *)
(** * 7. The classes of templates are closed under taking suffixes *)

Lemma dollar_digit_tail : forall c r, dollar_digit (String c r) = true -> dollar_digit r = true.
Proof. intros c r H. cbn [dollar_digit] in H. now apply andb_true_iff in H as [_ H]. Qed.

Lemma dollar_digit_skipn : forall k r, dollar_digit r = true -> dollar_digit (skipn_s k r) = true.
Proof.
  induction k as [|k IH]; intros r H; [exact H|].
  destruct r as [|c r]; [reflexivity|]. cbn [skipn_s]. apply IH. now apply dollar_digit_tail in H.
Qed.

Lemma refs_ok_tail : forall nsub c r, refs_ok nsub (String c r) = true -> refs_ok nsub r = true.
Proof. intros nsub c r H. cbn [refs_ok] in H. now apply andb_true_iff in H as [_ H]. Qed.

Lemma refs_ok_skipn : forall nsub k r, refs_ok nsub r = true -> refs_ok nsub (skipn_s k r) = true.
Proof.
  intros nsub. induction k as [|k IH]; intros r H; [exact H|].
  destruct r as [|c r]; [reflexivity|]. cbn [skipn_s]. apply IH. now apply refs_ok_tail in H.
Qed.

Lemma firstn_all_s : forall s, firstn_s (String.length s) s = s.
Proof. intros s. rewrite <- (app_nil_r_s s) at 2. apply firstn_app_length. Qed.

(* a canonical numeral is positive *)
Lemma canonical_pos : forall ds, str_all is_digit_ascii ds = true -> ds <> "" ->
  head_is is0 ds = false -> 1 <= dec_val ds.
Proof.
  intros ds Hd Hne Hz. pose proof (itoa_dec_val ds Hd Hne Hz) as E.
  destruct (dec_val ds); [|lia]. change (itoa 0) with "0" in E. subst ds. discriminate Hz.
Qed.

Lemma digits_head_not_dollar : forall ds, str_all is_digit_ascii ds = true ->
  head_is is_dollar ds = false.
Proof.
  intros [|d ds] H; [reflexivity|]. cbn [str_all] in H. apply andb_true_iff in H as [H _].
  cbn [head_is]. now apply digit_not_dollar.
Qed.

Lemma digits_head_not_lbrace : forall ds, str_all is_digit_ascii ds = true ->
  head_is (fun d => Ascii.eqb d "{") ds = false.
Proof.
  intros [|d ds] H; [reflexivity|]. cbn [str_all] in H. apply andb_true_iff in H as [H _].
  cbn [head_is]. now apply digit_not_lbrace.
Qed.

Lemma go_ref_value_zero : forall nsub g, go_ref_value nsub g "0" = g 0.
Proof. reflexivity. Qed.

Lemma xp_pick_zero : forall nsub, xp_pick nsub "0" 1 = None.
Proof. reflexivity. Qed.

(* ================================================================== *)
(** * 8. Main theorem *)

Lemma expand_rw : forall nsub g, String.length (itoa nsub) <= 9 ->
  forall n r, String.length r <= n ->
  dollar_digit r = true -> refs_ok nsub r = true ->
  go_expand nsub g (rw 0 nsub r) = xpath_expand nsub g r.
Proof.
  intros nsub g H9. induction n as [|n IH]; intros r Hn Hdd Hok.
  - destruct r; [reflexivity | cbn [String.length] in Hn; lia].
  - destruct r as [|c r']; [reflexivity|]. cbn [String.length] in Hn.
    destruct (is_dollar c) eqn:D.
    + apply is_dollar_true in D. subst c.
      cbn [dollar_digit] in Hdd. change (is_dollar "$") with true in Hdd. cbv iota in Hdd.
      apply andb_true_iff in Hdd as [Hhd Hdd].
      cbn [refs_ok] in Hok. change (is_dollar "$") with true in Hok. cbv iota in Hok.
      apply andb_true_iff in Hok as [Hro Hok].
      unfold ref_ok in Hro. cbv zeta in Hro.
      destruct (take_while_split is_digit_ascii r') as [S1 S2].
      pose proof (take_while_all is_digit_ascii r') as Hd.
      assert (Hne : take_while is_digit_ascii r' <> "").
      { destruct r' as [|d r'']; [discriminate Hhd|]. cbn [head_is] in Hhd.
        cbn [take_while]. rewrite Hhd. discriminate. }
      remember (take_while is_digit_ascii r') as ds eqn:Eds.
      remember (skipn_s (String.length ds) r') as R eqn:ER.
      assert (HddR : dollar_digit R = true) by (subst R; now apply dollar_digit_skipn).
      assert (HokR : refs_ok nsub R = true) by (subst R; now apply refs_ok_skipn).
      assert (HlenR : String.length R <= n) by (subst R; rewrite length_skipn_s; lia).
      clear Eds ER. subst r'.
      destruct (head_is is0 ds) eqn:Hz.
      * (* "$0" *)
        apply andb_true_iff in Hro as [Hl1 Hext].
        apply Nat.eqb_eq in Hl1. apply negb_true_iff in Hext.
        destruct ds as [|d [|d2 ds2]]; cbn [String.length] in Hl1; try lia.
        cbn [head_is] in Hz. apply Ascii.eqb_eq in Hz. subst d.
        rewrite rw_keep by (rewrite best_leading_zero; [exact I | reflexivity]).
        cbn [String.append]. rewrite rw_other by reflexivity.
        change (String "$" (String "0" (rw 0 nsub R))) with (String "$" ("0" ++ rw 0 nsub R)).
        rewrite go_expand_named; try reflexivity; try discriminate.
        2:{ rewrite rw_head. apply (head_is_weaken _ _ _ name_may_extend Hext). }
        rewrite go_ref_value_zero.
        change (String "$" (String "0" R)) with (String "$" ("0" ++ R)).
        rewrite xpath_expand_ref by (reflexivity || discriminate || assumption).
        change (String.length "0") with 1. rewrite xp_pick_zero.
        change (Nat.eqb (dec_val "0") 0) with true. cbv iota.
        f_equal. now apply IH.
      * pose proof (best_pick nsub ds R Hd Hz S2) as BP.
        destruct (best nsub (ds ++ R)) as [j|] eqn:B.
        -- (* the engine braces the reference *)
           destruct BP as (Hj & Hpick & Hfirst).
           rewrite (rw_brace 0 nsub (ds ++ R) j B) by lia.
           rewrite go_expand_braced
             by (apply digits_are_names, itoa_all_digits || apply itoa_nonempty).
           rewrite go_ref_value_itoa by (assumption || lia).
           rewrite xpath_expand_ref by assumption.
           rewrite Hpick, Hfirst, dec_val_itoa.
           f_equal. apply IH.
           ++ rewrite length_skipn_s. lia.
           ++ now apply dollar_digit_skipn.
           ++ now apply refs_ok_skipn.
        -- (* no prefix names a group: the reference is left as it is *)
           rewrite BP in Hro. apply negb_true_iff in Hro.
           rewrite rw_keep by now rewrite B.
           rewrite rw_digits by assumption.
           rewrite go_expand_named.
           2:{ now apply digits_are_names. }
           2:{ assumption. }
           2:{ now apply digits_head_not_dollar. }
           2:{ now apply digits_head_not_lbrace. }
           2:{ rewrite rw_head. apply (head_is_weaken _ _ _ name_may_extend Hro). }
           pose proof (canonical_pos ds Hd Hne Hz) as Hpos.
           assert (Hbig : nsub < dec_val ds).
           { pose proof (xp_pick_None _ _ _ BP (String.length ds)) as V.
             assert (L : 1 <= String.length ds).
             { destruct ds; [congruence | cbn [String.length]; lia]. }
             specialize (V ltac:(lia)). unfold valid in V. rewrite firstn_all_s in V.
             apply andb_false_iff in V as [V|V].
             - apply Nat.leb_gt in V. lia.
             - now apply Nat.leb_gt in V. }
           rewrite go_ref_value_big by assumption.
           rewrite xpath_expand_ref by assumption. rewrite BP.
           assert (E0 : Nat.eqb (dec_val ds) 0 = false) by (apply Nat.eqb_neq; lia).
           rewrite E0. cbn [String.append]. now apply IH.
    + rewrite rw_other, go_expand_other, xpath_expand_other by assumption.
      f_equal. apply IH; [lia | now apply dollar_digit_tail in Hdd | now apply refs_ok_tail in Hok].
Qed.

(* For every replacement string in which each '$' is followed by a digit and
   each reference satisfies [ref_ok], handing Go the rewritten string yields
   what XPath asks for.  (nsub has at most 9 digits: beyond that Go does not
   read a name as a number; Go cannot compile such patterns anyway.) *)
Theorem rewrite_correct : forall nsub group r,
  String.length (itoa nsub) <= 9 ->
  dollar_digit r = true -> refs_ok nsub r = true ->
  go_expand nsub group (rewrite_refs_loop nsub r) = xpath_expand nsub group r.
Proof.
  intros nsub g r H9 Hdd Hok. rewrite rewrite_refs_one_pass.
  apply (expand_rw nsub g H9 (String.length r)); [lia | assumption | assumption].
Qed.

Print Assumptions rewrite_correct.

(* ------------------------------------------------------------------ *)
(** ** Corollaries: the fragment of the property; an nsub-free condition *)

Lemma simple_dollar_digit : forall r, simple_template r = true -> dollar_digit r = true.
Proof. intros r H. unfold simple_template in H. now apply andb_true_iff in H as [H _]. Qed.

Corollary rewrite_correct_simple : forall nsub group r,
  String.length (itoa nsub) <= 9 ->
  simple_template r = true -> refs_ok nsub r = true ->
  go_expand nsub group (rewrite_refs_loop nsub r) = xpath_expand nsub group r.
Proof.
  intros nsub g r H9 Hs Hok. apply rewrite_correct; [assumption | | assumption].
  now apply simple_dollar_digit.
Qed.

Lemma ref_plain_ok : forall nsub rest, ref_plain rest = true -> ref_ok nsub rest = true.
Proof.
  intros nsub rest H. unfold ref_plain in H. unfold ref_ok. cbv zeta in *.
  apply andb_true_iff in H as [H1 H2]. rewrite H2.
  destruct (head_is is0 (take_while is_digit_ascii rest)).
  - cbn [negb orb] in H1. now rewrite H1.
  - now destruct (xp_pick _ _ _).
Qed.

Lemma refs_plain_ok : forall nsub r, refs_plain r = true -> refs_ok nsub r = true.
Proof.
  intros nsub. induction r as [|c r IH]; intros H; [reflexivity|].
  cbn [refs_plain refs_ok] in *. apply andb_true_iff in H as [H1 H2].
  rewrite IH by assumption. rewrite andb_true_r.
  destruct (is_dollar c); [now apply ref_plain_ok | reflexivity].
Qed.

(* references "$0" or "$n" (n without leading zero), never directly followed
   by a letter, a digit-like byte, '_' or a byte >= 0x80: correct whatever
   the number of groups is *)
Corollary rewrite_correct_plain : forall nsub group r,
  String.length (itoa nsub) <= 9 ->
  dollar_digit r = true -> refs_plain r = true ->
  go_expand nsub group (rewrite_refs_loop nsub r) = xpath_expand nsub group r.
Proof.
  intros nsub g r H9 Hdd Hp. apply rewrite_correct; try assumption. now apply refs_plain_ok.
Qed.

Print Assumptions rewrite_correct_simple.
Print Assumptions rewrite_correct_plain.

(* ================================================================== *)
(** * 9. F&O 7.6.3 to the letter *)

Lemma scan_agree : forall (P : string -> Prop) step1 step2,
  (forall c t, P (String c t) -> P t) ->
  (forall c t, P (String c t) -> step1 c t = step2 c t) ->
  forall s, P s -> scan step1 0 s = scan step2 0 s.
Proof.
  intros P step1 step2 Htl Hst.
  assert (Hsk : forall k s, P s -> P (skipn_s k s)).
  { induction k as [|k IH]; intros s H; [exact H|].
    destruct s as [|c t]; [exact H|]. cbn [skipn_s]. apply IH. now apply (Htl c). }
  assert (G : forall n s, String.length s <= n -> P s -> scan step1 0 s = scan step2 0 s).
  { induction n as [|n IH]; intros s Hn Hs.
    - destruct s; [reflexivity | cbn [String.length] in Hn; lia].
    - destruct s as [|c t]; [reflexivity|]. cbn [String.length] in Hn.
      rewrite !scan_cons. rewrite (Hst c t Hs). f_equal. apply IH.
      + rewrite length_skipn_s. lia.
      + apply Hsk. now apply (Htl c). }
  intros s. apply (G (String.length s)). lia.
Qed.

(* a canonical numeral of two or more digits is at least 10 *)
Lemma canonical_ge10 : forall p, str_all is_digit_ascii p = true ->
  head_is is0 p = false -> 2 <= String.length p -> 10 <= dec_val p.
Proof.
  intros p Hd Hz Hl.
  assert (Hne : p <> "") by (destruct p; [cbn [String.length] in Hl; lia | discriminate]).
  pose proof (itoa_dec_val p Hd Hne Hz) as E.
  destruct (Nat.lt_ge_cases (dec_val p) 10) as [H|H]; [|exact H].
  rewrite itoa_small in E by assumption. rewrite <- E in Hl. cbn [String.length] in Hl. lia.
Qed.

Lemma fo_pick_S : forall nsub ds l,
  fo_pick nsub ds (S l) =
  if Nat.leb (dec_val (firstn_s (S l) ds)) nsub then (S l, Some (dec_val (firstn_s (S l) ds)))
  else if Nat.leb (dec_val (firstn_s (S l) ds)) 9 then (S l, None)
  else fo_pick nsub ds l.
Proof. reflexivity. Qed.

(* when some prefix names a group, rule 4 strips digits down to the longest such prefix *)
Lemma fo_pick_valid : forall nsub ds l,
  str_all is_digit_ascii ds = true -> head_is is0 ds = false ->
  1 <= l -> valid nsub ds l = true ->
  forall len, l <= len <= String.length ds ->
  (forall l', l < l' <= len -> valid nsub ds l' = false) ->
  fo_pick nsub ds len = (l, Some (dec_val (firstn_s l ds))).
Proof.
  intros nsub ds l Hd Hz Hl V. induction len as [|len IH]; intros Hlen M; [lia|].
  rewrite fo_pick_S.
  destruct (Nat.eq_dec (S len) l) as [E|N].
  - subst l. unfold valid in V. apply andb_true_iff in V as [_ V]. now rewrite V.
  - assert (V' : valid nsub ds (S len) = false) by (apply M; lia).
    destruct (firstn_canonical ds (S len) Hd Hz ltac:(lia)) as [C1 C2].
    assert (Hd' : str_all is_digit_ascii (firstn_s (S len) ds) = true).
    { rewrite <- (firstn_skipn_s (S len) ds), str_all_app in Hd.
      now apply andb_true_iff in Hd as [Hd _]. }
    assert (Hz' : head_is is0 (firstn_s (S len) ds) = false).
    { destruct ds; [reflexivity | exact Hz]. }
    pose proof (canonical_ge10 _ Hd' Hz' ltac:(lia)) as H10.
    unfold valid in V'. apply andb_false_iff in V' as [V'|V'];
      apply Nat.leb_gt in V'; [lia|].
    assert (E1 : Nat.leb (dec_val (firstn_s (S len) ds)) nsub = false) by (apply Nat.leb_gt; lia).
    assert (E2 : Nat.leb (dec_val (firstn_s (S len) ds)) 9 = false) by (apply Nat.leb_gt; lia).
    rewrite E1, E2. apply IH; [lia|]. intros l' Hl'. apply M. lia.
Qed.

Definition fo_class (nsub : nat) (r : string) : Prop :=
  dollar_digit r = true /\ refs_ok nsub r = true /\ refs_fo_ok nsub r = true.

Lemma fo_step_xpath_step : forall nsub g c t, fo_class nsub (String c t) ->
  fo_step nsub g c t = xpath_step nsub g c t.
Proof.
  intros nsub g c t (Hdd & Hok & Hfo). unfold fo_step, xpath_step.
  destruct (is_dollar c) eqn:D; [|reflexivity]. cbn [negb]. cbv iota zeta.
  cbn [dollar_digit refs_ok refs_fo_ok] in Hdd, Hok, Hfo. rewrite D in Hdd, Hok, Hfo.
  apply andb_true_iff in Hdd as [Hhd _]. apply andb_true_iff in Hok as [Hro _].
  apply andb_true_iff in Hfo as [Hrf _].
  unfold ref_ok in Hro. unfold ref_fo_ok in Hrf. cbv zeta in Hro, Hrf.
  pose proof (take_while_all is_digit_ascii t) as Hd.
  remember (take_while is_digit_ascii t) as ds eqn:Eds.
  destruct ds as [|d ds']; [reflexivity|]. clear Eds.
  remember (String d ds') as ds eqn:Eds'.
  assert (Hne : ds <> "") by (subst ds; discriminate).
  destruct (head_is is0 ds) eqn:Hz.
  - (* "$0" *)
    apply andb_true_iff in Hro as [Hl1 _]. apply Nat.eqb_eq in Hl1.
    subst ds. destruct ds'; cbn [String.length] in Hl1; [|lia].
    cbn [head_is] in Hz. apply Ascii.eqb_eq in Hz. subst d. reflexivity.
  - destruct (xp_pick nsub ds (String.length ds)) as [l|] eqn:Pk.
    + destruct (xp_pick_Some _ _ _ _ Pk) as (Hl & V & M).
      rewrite (fo_pick_valid nsub ds l Hd Hz ltac:(lia) V (String.length ds) ltac:(lia) M).
      reflexivity.
    + apply Nat.eqb_eq in Hrf.
      pose proof (xp_pick_None _ _ _ Pk 1 ltac:(lia)) as V.
      pose proof (canonical_pos ds Hd Hne Hz) as Hpos.
      subst ds. destruct ds' as [|d2 ds2]; cbn [String.length] in Hrf; [|lia]. clear Hrf.
      cbn [String.length]. rewrite fo_pick_S. unfold valid in V. cbn [firstn_s] in *.
      cbn [str_all] in Hd. rewrite andb_true_r in Hd. pose proof (digit_val_lt d Hd) as Hlt.
      rewrite dec_val_one in *.
      apply andb_false_iff in V as [V|V]; apply Nat.leb_gt in V; [lia|].
      assert (E1 : Nat.leb (digit_val d) nsub = false) by (apply Nat.leb_gt; lia).
      assert (E9 : Nat.leb (digit_val d) 9 = true) by (apply Nat.leb_le; lia).
      assert (E0 : Nat.eqb (digit_val d) 0 = false) by (apply Nat.eqb_neq; lia).
      rewrite E1, E9, E0. reflexivity.
Qed.

Theorem fo_expand_xpath_expand : forall nsub group r,
  dollar_digit r = true -> refs_ok nsub r = true -> refs_fo_ok nsub r = true ->
  fo_expand nsub group r = xpath_expand nsub group r.
Proof.
  intros nsub g r Hdd Hok Hfo. unfold fo_expand, xpath_expand.
  apply (scan_agree (fo_class nsub)).
  - intros c t (A & B & C). cbn [dollar_digit refs_ok refs_fo_ok] in A, B, C.
    apply andb_true_iff in A as [_ A]. apply andb_true_iff in B as [_ B].
    apply andb_true_iff in C as [_ C]. now repeat split.
  - intros c t H. now apply fo_step_xpath_step.
  - now repeat split.
Qed.

(* the engine against the letter of F&O 7.6.3 *)
Theorem rewrite_correct_fo : forall nsub group r,
  String.length (itoa nsub) <= 9 ->
  dollar_digit r = true -> refs_ok nsub r = true -> refs_fo_ok nsub r = true ->
  go_expand nsub group (rewrite_refs_loop nsub r) = fo_expand nsub group r.
Proof.
  intros nsub g r H9 Hdd Hok Hfo.
  rewrite fo_expand_xpath_expand by assumption. now apply rewrite_correct.
Qed.

Print Assumptions rewrite_correct_fo.

(* ================================================================== *)
(** * 10. Computed examples and refutations *)

Definition gshow : nat -> string := fun n => "<" ++ itoa n ++ ">".

(* [go_expand] against the real regexp package (go1.23.5):
   regexp.MustCompile("(b)(c)").ReplaceAllString("abcd", t) = "a" + X + "d"
   with X as below — every line was observed by running Go. *)
Definition gbc : nat -> string :=
  fun n => match n with 0 => "bc" | 1 => "b" | 2 => "c" | _ => "?" end.

Example go_expand_observed :
  map (go_expand 2 gbc)
    ["$0x"; "[$0]"; "$5x"; "${1}x"; "$01"; "$00"; "$35"; "$1000000000"; "${1000000000}";
     "$$"; "$"; "$x"; "${1"; "${}"; "$0"; "$2$1"; "$1_"; "${2}1"; "$$1"]
  = [""; "[bc]"; ""; "bx"; ""; ""; ""; ""; "";
     "$"; "$"; ""; "${1"; "${}"; "bc"; "cb"; ""; "c1"; "$1"].
Proof. vm_compute. reflexivity. Qed.

(* the theorem at work, two groups *)
Example rewrite_ex_2 :
  let r := "x$12y$1z$3-$0;$2$1" in
  String.length (itoa 2) <= 9 /\ simple_template r = true /\ refs_ok 2 r = true /\
  refs_fo_ok 2 r = true /\
  rewrite_refs_loop 2 r = "x${1}2y${1}z$3-$0;${2}${1}" /\
  go_expand 2 gshow (rewrite_refs_loop 2 r) = "x<1>2y<1>z-<0>;<2><1>" /\
  xpath_expand 2 gshow r = "x<1>2y<1>z-<0>;<2><1>" /\
  fo_expand 2 gshow r = "x<1>2y<1>z-<0>;<2><1>".
Proof. vm_compute. repeat split; lia. Qed.

(* twelve groups: "$12" is group 12, "$123" is group 12 then "3", "$13" is
   group 1 then "3"; iteration idx = 1 does not touch "${12}" *)
Example rewrite_ex_12 :
  let r := "$12|$123|$13|$1|$10x|$9_|$0" in
  String.length (itoa 12) <= 9 /\ simple_template r = true /\ refs_ok 12 r = true /\
  refs_fo_ok 12 r = true /\
  rewrite_refs_loop 12 r = "${12}|${12}3|${1}3|${1}|${10}x|${9}_|$0" /\
  go_expand 12 gshow (rewrite_refs_loop 12 r) = "<12>|<12>3|<1>3|<1>|<10>x|<9>_|<0>" /\
  xpath_expand 12 gshow r = "<12>|<12>3|<1>3|<1>|<10>x|<9>_|<0>" /\
  fo_expand 12 gshow r = "<12>|<12>3|<1>3|<1>|<10>x|<9>_|<0>".
Proof. vm_compute. repeat split; lia. Qed.

(* no group at all: "$1" is empty in both readings *)
Example rewrite_ex_0 :
  let r := "[$1]$0" in
  simple_template r = true /\ refs_ok 0 r = true /\ rewrite_refs_loop 0 r = r /\
  go_expand 0 gshow (rewrite_refs_loop 0 r) = "[]<0>" /\ xpath_expand 0 gshow r = "[]<0>".
Proof. vm_compute. repeat split. Qed.

(* ---- REFUTATIONS: the statement for ALL simple templates is false ---- *)

(* (R1) "$0" is never braced by the loop (idx stops at 1); Go reads "$0x" as
   the unknown named group "0x" and drops it together with the "x".
   Confirmed on the Go engine:  replace("abcd","(b)(c)","[$0x]") = "a[]d",
   XPath: "a[bcx]d". *)
Example rewrite_refuted_dollar0_letter :
  simple_template "$0x" = true /\
  rewrite_refs_loop 2 "$0x" = "$0x" /\
  go_expand 2 gshow (rewrite_refs_loop 2 "$0x") = "" /\
  xpath_expand 2 gshow "$0x" = "<0>x" /\ fo_expand 2 gshow "$0x" = "<0>x".
Proof. vm_compute. repeat split. Qed.

(* (R2) a reference beyond the last group is not braced either; a following
   letter / '_' is swallowed into the name.  With a pattern without groups
   every "$1abc" loses "abc".  Engine: replace("abcd","bc","[$1y]") = "a[]d",
   XPath: "a[y]d". *)
Example rewrite_refuted_out_of_range_letter :
  simple_template "$5x" = true /\
  go_expand 2 gshow (rewrite_refs_loop 2 "$5x") = "" /\ xpath_expand 2 gshow "$5x" = "x" /\
  simple_template "a$1b_$2" = true /\
  go_expand 0 gshow (rewrite_refs_loop 0 "a$1b_$2") = "a" /\ xpath_expand 0 gshow "a$1b_$2" = "ab_".
Proof. vm_compute. repeat split. Qed.

(* (R3) leading zeros: XPath reads "$01" as group 1 (N = 1); "$01" does not
   contain "$1", so it is not braced, and Go rejects numbers with a leading
   zero ("01" is a name). *)
Example rewrite_refuted_leading_zero :
  simple_template "$01" = true /\
  go_expand 2 gshow (rewrite_refs_loop 2 "$01") = "" /\
  xpath_expand 2 gshow "$01" = "<1>" /\ fo_expand 2 gshow "$01" = "<1>" /\
  go_expand 2 gshow (rewrite_refs_loop 2 "$00") = "" /\
  xpath_expand 2 gshow "$00" = "<0>" /\ fo_expand 2 gshow "$00" = "<0>".
Proof. vm_compute. repeat split. Qed.

(* (R4) only against the letter of F&O (rule 4): with 2 groups "$35" is "$3"
   (empty, rule 3) followed by the literal "5"; the engine yields "". *)
Example rewrite_refuted_fo_rule4 :
  simple_template "$35" = true /\ refs_ok 2 "$35" = true /\ refs_fo_ok 2 "$35" = false /\
  go_expand 2 gshow (rewrite_refs_loop 2 "$35") = "" /\ xpath_expand 2 gshow "$35" = "" /\
  fo_expand 2 gshow "$35" = "5".
Proof. vm_compute. repeat split. Qed.

Theorem rewrite_correct_unrestricted_refuted :
  ~ (forall nsub group r, simple_template r = true ->
       go_expand nsub group (rewrite_refs_loop nsub r) = xpath_expand nsub group r).
Proof. intros H. specialize (H 2 gshow "$0x" eq_refl). vm_compute in H. discriminate H. Qed.

Theorem rewrite_correct_fo_needs_refs_fo_ok :
  ~ (forall nsub group r, simple_template r = true -> refs_ok nsub r = true ->
       go_expand nsub group (rewrite_refs_loop nsub r) = fo_expand nsub group r).
Proof.
  intros H. specialize (H 2 gshow "$35" eq_refl eq_refl). vm_compute in H. discriminate H.
Qed.

(* the hypotheses of the nsub-free corollary on a concrete template *)
Example rewrite_plain_ex :
  let r := "($2,$1) $10 [$0]" in
  dollar_digit r = true /\ refs_plain r = true /\
  go_expand 2 gshow (rewrite_refs_loop 2 r) = "(<2>,<1>) <1>0 [<0>]" /\
  go_expand 12 gshow (rewrite_refs_loop 12 r) = "(<2>,<1>) <10> [<0>]" /\
  go_expand 0 gshow (rewrite_refs_loop 0 r) = "(,)  [<0>]".
Proof. vm_compute. repeat split. Qed.

(* ==================================================================
   SUMMARY

   1. replace_all (strings.ReplaceAll, non-empty old):
      replace_all_scan    = the left-to-right scanner [scan (ra_step old new)]
      replace_all_nil / _hit / _miss        defining equations
      replace_all_absent  index_of old s = None -> identity
      replace_all_first(_occ)  first occurrence at |a|:
                          replace_all (a ++ old ++ b) = a ++ new ++ replace_all b
      replace_all_length  |result| + k*|old| = |s| + k*|new|, k = occurrences old s
                          (+ _same, _le, _ge)

   2. digits: dec_val (itoa n) = n; itoa (dec_val p) = p for canonical p;
      itoa_length_mono.

   3. rewrite_refs_one_pass (ALL strings): the loop idx = nsub .. 1 of
      replaceFunc equals ONE left-to-right pass [rw 0 nsub] that, at each '$',
      braces the largest idx <= nsub whose decimal numeral follows (pass_rw:
      iteration idx never matches inside text produced by earlier iterations,
      because that text is "${..}").

   4. rewrite_correct: go_expand nsub g (rewrite_refs_loop nsub r) = xpath_expand nsub g r
      when every '$' is followed by a digit (dollar_digit; the '{'-freeness of
      simple_template is not needed), every reference satisfies ref_ok, and
      nsub has at most 9 digits.  Corollaries: rewrite_correct_simple,
      rewrite_correct_plain (nsub-independent condition), rewrite_correct_fo
      (against the literal F&O 7.6.3 rule, needs refs_fo_ok in addition).

   5. The statement for all simple templates is FALSE
      (rewrite_correct_unrestricted_refuted): "$0x", "$5x" (2 groups), "$1b"
      (no group), "$01", "$00"; and against the letter of F&O also "$35".
   ================================================================== *)
