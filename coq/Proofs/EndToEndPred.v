(* Proofs/EndToEndPred.v — property C02, end to end, for ONE boolean predicate
   on the last step of a predicate-free location path:

       P[E]          E a predicate-free location path   (existence test)
       P[E = 'lit']  E a predicate-free location path   (string comparison)

   Compile of the TEXT succeeds and Select returns, from every valid context
   node, exactly the nodes n of the denotation of P for which
     - the denotation of E from n is not empty,            resp.
     - some node of the denotation of E from n has the string-value 'lit'.

   Chain: round trip (RoundTripPaths) -> shape of the parse tree
   (EndToEndPaths.xast_path_shape) -> builder on the filter node
   (BuildFilter.process_boolean_filter_step, BuildOps.process_cmp) ->
   semantics of the filter query (Filter.v) and of the two paths (BuildPath). *)
From XP Require Import Base F64 Doc Ast Scan Parse Build Hash Eval Api.
From XP.Spec Require Import Axes Paths Values.
From XP.Proofs Require Import ParseTerm ScanTokens RoundTripOps RoundTripPaths
                              HashInj AxesSound PathSem BuildPath BuildFacts Filter BuildFilter
                              Compare BuildOps EndToEndPaths.
Require Import Lia.
Open Scope string_scope.
Open Scope nat_scope.
Open Scope list_scope.

(* ------------------------------------------------------------------ *)
(** * 1. Syntax: a predicate on the last step                           *)
(* ------------------------------------------------------------------ *)

Definition s_add_pred (s : xstep) (e : px) : xstep :=
  match s with
  | SAbbr dd _ => SAbbr dd (PCons e PNil)
  | SAxis a t _ => SAxis a t (PCons e PNil)
  end.

Fixpoint r_add_pred (r : rpath) (e : px) : rpath :=
  match r with
  | ROne s => ROne (s_add_pred s e)
  | RCons s dbl r' => RCons s dbl (r_add_pred r' e)
  end.

(* P[E] : the predicate [E] on the last step of the path P *)
Definition with_pred (p e : px) : px :=
  match p with XPath s r => XPath s (r_add_pred r e) | _ => p end.

(* E = 'lit' *)
Definition eq_lit (e : px) (lit : string) : px := XBin BEq e (XStr lit).

Lemma step_of_pnil : forall s x, step_of s = Some x ->
  (exists dd, s = SAbbr dd PNil) \/ (exists a t, s = SAxis a t PNil).
Proof.
  intros [dd ps|a t ps] x H; cbn [step_of] in H; destruct ps; try discriminate; eauto.
Qed.

Lemma rast_add_pred : forall r l e, rsteps_of r = Some l ->
  forall n, rast (r_add_pred r e) n = AFilter (rast r n) (xast e).
Proof.
  induction r as [s|s dbl r IH]; intros l e H n; cbn [rsteps_of] in H.
  - destruct (step_of s) as [x|] eqn:Es; [|discriminate].
    destruct (step_of_pnil s x Es) as [[dd ->]|[a [t ->]]]; reflexivity.
  - destruct (step_of s); [|discriminate]. destruct (rsteps_of r) as [l'|] eqn:Er; [|discriminate].
    cbn [r_add_pred rast]. apply (IH l' e eq_refl).
Qed.

Lemma rwf_add_pred : forall r l e, rsteps_of r = Some l -> xwf e ->
  rwf (r_add_pred r e) /\ rdepth (r_add_pred r e) = S (xdepth e).
Proof.
  induction r as [s|s dbl r IH]; intros l e H He; cbn [rsteps_of] in H.
  - destruct (step_of s) as [x|] eqn:Es; [|discriminate].
    destruct (step_of_wf s x Es) as [Hw _].
    destruct (step_of_pnil s x Es) as [[dd ->]|[a [t ->]]];
      cbn [r_add_pred s_add_pred rwf swf pwf rdepth sdepth pdepth_ps] in *;
      rewrite Nat.max_0_r; tauto.
  - destruct (step_of s) as [x|] eqn:Es; [|discriminate].
    destruct (rsteps_of r) as [l'|] eqn:Er; [|discriminate].
    destruct (step_of_wf s x Es) as [Hw Hd]. destruct (IH l' e eq_refl He) as [H1 H2].
    cbn [r_add_pred rwf rdepth]. rewrite Hd, H2. cbn [Nat.max]. tauto.
Qed.

Theorem with_pred_ast : forall p e, path_syntax p -> xwf e ->
  xast (with_pred p e) = AFilter (xast p) (xast e) /\
  xwf (with_pred p e) /\ xdepth (with_pred p e) = S (xdepth e).
Proof.
  intros p e [res H] He. destruct p as [| | | | |s r| | | | |]; try discriminate.
  cbn [steps_of_opt] in H. destruct (rsteps_of r) as [l|] eqn:Er; [|discriminate].
  cbn [with_pred xast xwf xdepth]. split; [apply (rast_add_pred r l e Er)|].
  apply (rwf_add_pred r l e Er He).
Qed.

Lemma rsteps_of_ne : forall r l, rsteps_of r = Some l -> l <> [].
Proof.
  intros [s|s dbl r] l H; cbn [rsteps_of] in H.
  - destruct (step_of s); inversion H. discriminate.
  - destruct (step_of s); [|discriminate]. destruct (rsteps_of r); inversion H. discriminate.
Qed.

Lemma steps_of_ne : forall p abs steps,
  path_syntax p -> steps_of p = (abs, steps) -> steps <> [].
Proof.
  intros p abs steps Hp Hs. pose proof (steps_of_spec p abs steps Hp Hs) as H.
  destruct p as [| | | | |s r| | | | |]; try discriminate. cbn [steps_of_opt] in H.
  destruct (rsteps_of r) as [l|] eqn:Er; [|discriminate]. inversion H; subst.
  pose proof (rsteps_of_ne r l Er). destruct (start_steps s); [assumption|discriminate].
Qed.

(* ------------------------------------------------------------------ *)
(** * 2. Builder facts about path trees                                 *)
(* ------------------------------------------------------------------ *)

(* queries that evaluate to the node-set they select *)
Definition nodeset_q (q : query) : bool :=
  match q with
  | QContext | QAbsolute | QAncestor _ _ _ | QAttribute _ _ | QChild _ _ | QCachedChild _ _
  | QDescendant _ _ _ | QFollowing _ _ _ | QPreceding _ _ _ | QParent _ _ | QSelf _ _
  | QDoD _ _ _ => true
  | _ => false
  end.

Lemma nodeset_q_not_number : forall q, nodeset_q q = true -> can_be_number q = false.
Proof. destruct q; try discriminate; reflexivity. Qed.

Definition props_plain (pr : props) : Prop := pr_haspos pr = false /\ pr_haslast pr = false.
Definition path_out (q : query) (pr : props) : Prop := nodeset_q q = true /\ props_plain pr.

Lemma props_plain_nonflat : forall pr, props_plain pr -> props_plain (set_nonflat pr).
Proof. intros pr H. exact H. Qed.

Lemma props_plain_or : forall a b, props_plain a -> props_plain b -> props_plain (pr_or a b).
Proof. intros a b [H1 H2] [H3 H4]. unfold props_plain, pr_or. cbn. rewrite H1, H2, H3, H4. auto. Qed.

Lemma mk_axis_name_out : forall a t fl qi pr q pr',
  mk_axis (axis_name a) t fl qi pr = Ok (q, pr') -> props_plain pr -> path_out q pr'.
Proof.
  intros a t fl qi pr q pr' H Hp.
  destruct a; cbn in H; inversion H; subst; split; try exact Hp; try reflexivity;
    match goal with |- context [if ?c then _ else _] => destruct c end; reflexivity.
Qed.

Section Build.
Variable re_ok : string -> bool.

Lemma path_out_both : forall abs rs oa, rpath_ast abs rs oa ->
  (forall depth fl q pr, proc_opt re_ok depth oa fl = Ok (q, pr) -> path_out q pr) /\
  (forall depth fl q pr, proc_opt re_ok depth (ginput_of oa) fl = Ok (q, pr) -> path_out q pr).
Proof.
  intros abs rs oa H. induction H as [Ha|sl Ha|s r inp prop HA [IH1 IH2]].
  - split; intros depth fl q pr E; cbn [ginput_of proc_opt] in E; inversion E; subst; repeat split.
  - split; intros depth fl q pr E; cbn [ginput_of proc_opt] in E.
    + cbn [process] in E. destruct (Nat.ltb max_build_depth (S depth)); [discriminate|].
      cbn [cbind] in E. inversion E; subst. repeat split.
    + inversion E; subst. repeat split.
  - split; [|unfold step_ast; cbn [ginput_of]; exact IH1].
    intros depth fl q pr E. cbn [proc_opt] in E. unfold step_ast in E.
    rewrite process_axis_eq in E.
    destruct (Nat.ltb max_build_depth (S depth)); [discriminate|]. cbv zeta in E.
    destruct (fused_cond fl (axis_name (s_axis s)) inp).
    + destruct (proc_opt re_ok (S depth) (ginput_of inp) fl_smart) as [[qg prg]| |] eqn:Eg;
        cbn [cbind finish] in E; try discriminate.
      unfold finish in E. cbn [cbind] in E. inversion E; subst.
      split; [reflexivity|]. apply props_plain_nonflat. apply (IH2 _ _ _ _ Eg).
    + match type of E with context [proc_opt re_ok (S depth) inp ?f] =>
        destruct (proc_opt re_ok (S depth) inp f) as [[qi pri]| |] eqn:Ei end;
        cbn [cbind] in E; try discriminate.
      unfold finish in E.
      match type of E with context [mk_axis ?a ?t ?f ?i ?p] =>
        destruct (mk_axis a t f i p) as [[q' pr']| |] eqn:Em end;
        cbn [cbind] in E; try discriminate.
      inversion E; subst. apply (mk_axis_name_out _ _ _ _ _ _ _ Em). apply (IH1 _ _ _ _ Ei).
Qed.

Lemma proc_opt_some_inv : forall d a fl q pr,
  proc_opt re_ok d (Some a) fl = Ok (q, pr) ->
  exists fo, process re_ok d a fl fi_nil = Ok (q, pr, fo).
Proof.
  intros d a fl q pr H. cbn [proc_opt] in H.
  destruct (process re_ok d a fl fi_nil) as [[[q0 pr0] fo]| |]; cbn [cbind] in H; try discriminate.
  inversion H; subst. eauto.
Qed.

(* processAxis resets firstInput: the incoming one is irrelevant *)
Lemma process_step_fi : forall d s prop inp fl fi,
  process re_ok d (step_ast s prop inp) fl fi = process re_ok d (step_ast s prop inp) fl fi_nil.
Proof. intros. reflexivity. Qed.

Lemma rpath_ast_some_inv : forall abs rs a, rpath_ast abs rs (Some a) -> rs <> [] ->
  exists s r prop inp, rs = s :: r /\ a = step_ast s prop inp /\ rpath_ast abs r inp.
Proof.
  intros abs rs a H Hne. inversion H; subst; try congruence. eauto 8.
Qed.

End Build.

(* ------------------------------------------------------------------ *)
(** * 3. Builder + evaluator on the filter node                         *)
(* ------------------------------------------------------------------ *)

Section Sem.
Variable D : tree.
Variable has_ns : bool.
Variable hcode : node -> N.
Variable rm : string -> string -> option bool.
Variable rn : string -> nat.
Variable rr : string -> string -> string -> string.
Hypothesis Hhash : hash_ok hcode (all_nodes D).
Variable re_ok : string -> bool.

Notation QDEN := (qden D has_ns hcode rm rn rr).
Notation SEL := (sel D has_ns hcode rm rn rr).
Notation EVAL := (eval D has_ns hcode rm rn rr).

Lemma eval_nodeset_q : forall q c,
  nodeset_q q = true -> EVAL q c = do l <- SEL q c; Val (VNodes l).
Proof. intros q c H. destruct q; try discriminate H; reflexivity. Qed.

(* a path tree, any depth, the plain flags: the query, its props, its denotation *)
Lemma path_tree_builds : forall abs rs a d fi,
  rpath_ast abs rs (Some a) -> rs <> [] ->
  d + List.length rs + (if abs then 1 else 0) <= max_build_depth ->
  exists q pr fo, process re_ok d a fl_none fi = Ok (q, pr, fo) /\
                  path_out q pr /\ QDEN q (P_of D has_ns abs rs).
Proof.
  intros abs rs a d fi HA Hne Hd.
  destruct (good_all D has_ns hcode rm rn rr Hhash re_ok abs (List.length rs) rs (Some a) (le_n _) HA d false Hd)
    as (q & pr & E & _ & T & HqT & HI).
  destruct (proj1 (path_out_both re_ok abs rs (Some a) HA) _ _ _ _ E) as [Hn Hp].
  destruct (proc_opt_some_inv re_ok _ _ _ _ _ E) as (fo & E').
  destruct (rpath_ast_some_inv abs rs a HA Hne) as (s & r & prop & inp & -> & -> & _).
  exists q, pr, fo. split; [rewrite process_step_fi; exact E'|]. split; [split; assumption|].
  cbn [inv] in HI. eapply qden_ext_v; eassumption.
Qed.

(* the same tree as the INPUT of a filter node (flag Filter set on the last step) *)
Lemma filter_input_builds : forall abs rs a d fi,
  rpath_ast abs rs (Some a) -> rs <> [] ->
  d + List.length rs + (if abs then 1 else 0) <= max_build_depth ->
  exists q pr fo, process re_ok d a (mkF false false true) fi = Ok (q, pr, fo) /\
                  is_filter_node a = false /\ QDEN q (P_of D has_ns abs rs).
Proof.
  intros abs rs a d fi HA Hne Hd.
  destruct (rpath_ast_some_inv abs rs a HA Hne) as (s & r & prop & inp & -> & -> & HA').
  cbn [List.length] in Hd. unfold step_ast. rewrite process_axis_eq.
  replace (Nat.ltb max_build_depth (S d)) with false
    by (symmetry; apply Nat.ltb_ge; destruct abs; lia).
  cbv zeta. destruct s as [ax t]. cbn [s_axis s_test].
  assert (Ef : fused_cond (mkF false false true) (axis_name ax) inp = false)
    by (destruct inp as [[]|]; reflexivity).
  rewrite Ef. cbn [f_filter negb andb].
  destruct (good_all D has_ns hcode rm rn rr Hhash re_ok abs (List.length r) r inp (le_n _) HA' (S d) false)
    as (qi & pr & Ei & _ & T & HqT & HI); [lia|].
  rewrite Ei. cbn [cbind].
  replace (axis_test (nt_type t) (nt_pre t) (nt_loc t) (nt_hasns t) (nt_ns t)) with t
    by (destruct t; reflexivity).
  destruct (mk_axis_name ax t (mkF false false true) qi pr) as (pr' & Em).
  rewrite Em. unfold finish. cbn [cbind f_smart].
  eexists. eexists. eexists. split; [reflexivity|]. split; [reflexivity|].
  cbn [inv] in HI.
  destruct (mk_axis_q_den D has_ns hcode rm rn rr Hhash ax t false (pr_nonflat pr) qi T (P_of D has_ns abs r)
              HqT (inv_exact D _ _ _ HI)) as (T' & HqT' & HI').
  cbn [inv] in HI'. eapply qden_ext_v; [|exact HqT'].
  eapply req_v_trans; [exact HI'|]. apply req_v_sym. apply (P_of_cons D has_ns abs (mkStep ax t) r).
Qed.

(* the generic step: a boolean predicate whose truth at a valid node is Phi *)
Lemma filter_node_selects : forall a cond qi pr fi1 c prc fi2 (P : rel) (Phi : node -> Prop),
  process re_ok 1 a (mkF false false true) fi_nil = Ok (qi, pr, fi1) ->
  is_filter_node a = false -> QDEN qi P ->
  process re_ok 1 cond fl_none fi1 = Ok (c, prc, fi2) ->
  boolean_cond c prc ->
  (forall n, valid D n = true ->
     exists v, EVAL c n = Val v /\ (xboolean_value v = true <-> Phi n)) ->
  exists q pr' fo,
    process re_ok 0 (AFilter a cond) fl_none fi_nil = Ok (q, pr', fo) /\ q <> QNil /\
    forall ctx, valid D ctx = true ->
    exists l, SEL q ctx = Val l /\
              (forall n, In n (nodes_of l) -> valid D n = true) /\
              (forall n, In n (nodes_of l) <-> P ctx n /\ Phi n).
Proof.
  intros a cond qi pr fi1 c prc fi2 P Phi Hi Hnf Hq Hc HB Hev.
  assert (Hd0 : 0 < max_build_depth) by (unfold max_build_depth; lia).
  pose proof (process_boolean_filter_step re_ok 0 a cond fl_none fi_nil qi pr fi1 c prc fi2 Hd0 Hi Hc HB Hnf) as E.
  eexists. eexists. eexists. split; [exact E|]. split; [discriminate|].
  intros ctx Hctx. destruct (Hq ctx Hctx) as (l0 & El0 & Hv0 & Hin0).
  destruct (filter_succeeds D has_ns hcode rm rn rr true qi c ctx l0 El0) as (r & Er).
  { intros n Hn. destruct (Hev n (Hv0 n Hn)) as (v & Ev & _). exists v. exact Ev. }
  exists r. split; [exact Er|].
  pose proof (filter_members_boolean D has_ns hcode rm rn rr true qi c ctx r l0 Er El0
                (boolean_cond_boolean_valued D has_ns hcode rm rn rr c prc (nodes_of l0) HB)) as Hm.
  split.
  - intros n Hn. apply Hv0. apply (Hm n). exact Hn.
  - intros n. rewrite (Hm n). rewrite (Hin0 n). split.
    + intros [HP Hv]. split; [exact HP|]. pose proof (proj2 (Hin0 n) HP) as Hn.
      destruct (Hev n (Hv0 n Hn)) as (v & Ev & Hiff). apply Hiff.
      unfold node_verdict in Hv. rewrite Ev in Hv. exact Hv.
    + intros [HP HPhi]. split; [exact HP|]. pose proof (proj2 (Hin0 n) HP) as Hn.
      destruct (Hev n (Hv0 n Hn)) as (v & Ev & Hiff).
      unfold node_verdict. rewrite Ev. apply Hiff. exact HPhi.
Qed.

Definition selects_where (q : query) (abs : bool) (steps : list sstep) (Phi : node -> Prop) : Prop :=
  forall c, valid D c = true ->
  exists l, SEL q c = Val l /\
            (forall n, In n (nodes_of l) -> valid D n = true) /\
            (forall n, In n (nodes_of l) <->
                       path_den D has_ns steps (if abs then root_node else c) n /\ Phi n).

Lemma P_of_rev : forall abs steps c n,
  P_of D has_ns abs (rev steps) c n <-> path_den D has_ns steps (if abs then root_node else c) n.
Proof. intros. unfold P_of. rewrite rev_involutive. reflexivity. Qed.

(** P[E] at the builder level *)
Theorem build_pred_exists : forall abs steps a iabs isteps ce,
  rpath_ast abs (rev steps) (Some a) -> steps <> [] ->
  rpath_ast iabs (rev isteps) (Some ce) -> isteps <> [] ->
  List.length steps + 1 < max_build_depth -> List.length isteps + 2 < max_build_depth ->
  exists q pr fo,
    process re_ok 0 (AFilter a ce) fl_none fi_nil = Ok (q, pr, fo) /\ q <> QNil /\
    selects_where q abs steps
      (fun n => exists m, path_den D has_ns isteps (if iabs then root_node else n) m).
Proof.
  intros abs steps a iabs isteps ce HA Hne HC Hnei Hl Hli.
  assert (Hr : rev steps <> []) by (intros E; apply Hne; rewrite <- (rev_involutive steps), E; reflexivity).
  assert (Hri : rev isteps <> []) by (intros E; apply Hnei; rewrite <- (rev_involutive isteps), E; reflexivity).
  destruct (filter_input_builds abs (rev steps) a 1 fi_nil HA Hr) as (qi & pr & fi1 & Ei & Hnf & Hqi).
  { rewrite rev_length. destruct abs; lia. }
  destruct (path_tree_builds iabs (rev isteps) ce 1 fi1 HC Hri) as (c & prc & fi2 & Ec & [Hns Hpp] & Hqc).
  { rewrite rev_length. destruct iabs; lia. }
  destruct (filter_node_selects a ce qi pr fi1 c prc fi2 (P_of D has_ns abs (rev steps))
              (fun n => exists m, path_den D has_ns isteps (if iabs then root_node else n) m)
              Ei Hnf Hqi Ec) as (q & pr' & fo & E & Hnil & Hs).
  - split; [apply nodeset_q_not_number; exact Hns|exact Hpp].
  - intros n Hn. destruct (Hqc n Hn) as (l & El & _ & Hin).
    exists (VNodes l). split; [rewrite (eval_nodeset_q c n Hns), El; reflexivity|].
    cbn [xboolean_value]. split.
    + intros H. destruct l as [|it l']; [discriminate|].
      exists (it_node it). apply P_of_rev. apply Hin. left. reflexivity.
    + intros [m Hm]. apply P_of_rev in Hm. apply Hin in Hm. destruct l; [contradiction|reflexivity].
  - exists q, pr', fo. split; [exact E|]. split; [exact Hnil|].
    intros ctx Hctx. destruct (Hs ctx Hctx) as (l & El & Hv & Hin). exists l. split; [exact El|].
    split; [exact Hv|]. intros n. rewrite (Hin n), P_of_rev. reflexivity.
Qed.

(** P[E = 'lit'] at the builder level *)
Theorem build_pred_eq_lit : forall abs steps a iabs isteps ce lit,
  rpath_ast abs (rev steps) (Some a) -> steps <> [] ->
  rpath_ast iabs (rev isteps) (Some ce) -> isteps <> [] ->
  List.length steps + 1 < max_build_depth -> List.length isteps + 2 < max_build_depth ->
  exists q pr fo,
    process re_ok 0 (AFilter a (AOp "=" ce (AStr lit))) fl_none fi_nil = Ok (q, pr, fo) /\ q <> QNil /\
    selects_where q abs steps
      (fun n => exists m, path_den D has_ns isteps (if iabs then root_node else n) m /\
                          node_value D m = lit).
Proof.
  intros abs steps a iabs isteps ce lit HA Hne HC Hnei Hl Hli.
  assert (Hr : rev steps <> []) by (intros E; apply Hne; rewrite <- (rev_involutive steps), E; reflexivity).
  assert (Hri : rev isteps <> []) by (intros E; apply Hnei; rewrite <- (rev_involutive isteps), E; reflexivity).
  destruct (filter_input_builds abs (rev steps) a 1 fi_nil HA Hr) as (qi & pr & fi1 & Ei & Hnf & Hqi).
  { rewrite rev_length. destruct abs; lia. }
  destruct (path_tree_builds iabs (rev isteps) ce 2 fi1 HC Hri) as (c & prc & fi2 & Ec & [Hns Hpp] & Hqc).
  { rewrite rev_length. destruct iabs; unfold max_build_depth in *; lia. }
  assert (Es : process re_ok 2 (AStr lit) fl_none fi2 = Ok (QStr lit, pr_none, mkFi (fi_q fi2) false)).
  { cbn [process]. replace (Nat.ltb max_build_depth 3) with false
      by (symmetry; apply Nat.ltb_ge; unfold max_build_depth; lia). reflexivity. }
  pose proof (process_cmp re_ok 1 "=" CEq ce (AStr lit) fl_none fi1 c prc fi2 (QStr lit) pr_none _
                eq_refl Ec Es) as Ecmp.
  destruct (filter_node_selects a (AOp "=" ce (AStr lit)) qi pr fi1 (QLogical CEq c (QStr lit)) _ _
              (P_of D has_ns abs (rev steps))
              (fun n => exists m, path_den D has_ns isteps (if iabs then root_node else n) m /\
                                  node_value D m = lit)
              Ei Hnf Hqi Ecmp) as (q & pr' & fo & E & Hnil & Hs).
  - split; [reflexivity|]. apply props_plain_or; [exact Hpp|split; reflexivity].
  - intros n Hn. destruct (Hqc n Hn) as (l & El & _ & Hin).
    exists (VBool (xcompare string_to_number CEq (XSet (values_of D l)) (Values.XStr lit))). split.
    + rewrite (eval_QLogical_eq D has_ns hcode rm rn rr CEq c (QStr lit) n).
      rewrite (eval_nodeset_q c n Hns), El. cbn [obind].
      change (EVAL (QStr lit) n) with (Val (VStr lit)). cbn [obind].
      apply compare_nodes_str. reflexivity.
    + cbn [xboolean_value]. rewrite xcompare_set_str_eq. unfold values_of. rewrite in_map_iff. split.
      * intros (it & Hv & Hit). exists (it_node it). split; [|exact Hv].
        apply P_of_rev. apply Hin. unfold nodes_of. apply in_map. exact Hit.
      * intros (m & Hm & Hv). apply P_of_rev in Hm. apply Hin in Hm.
        unfold nodes_of in Hm. apply in_map_iff in Hm. destruct Hm as (it & <- & Hit).
        exists it. split; assumption.
  - exists q, pr', fo. split; [exact E|]. split; [exact Hnil|].
    intros ctx Hctx. destruct (Hs ctx Hctx) as (l & El & Hv & Hin). exists l. split; [exact El|].
    split; [exact Hv|]. intros n. rewrite (Hin n), P_of_rev. reflexivity.
Qed.

End Sem.

(* ------------------------------------------------------------------ *)
(** * 4. End to end                                                     *)
(* ------------------------------------------------------------------ *)

Lemma compile_of_parse : forall re_ok text ns a q pr fo,
  parse text ns = Ok a -> process re_ok 0 a fl_none fi_nil = Ok (q, pr, fo) -> q <> QNil ->
  compile re_ok text ns = Ok q.
Proof.
  intros re_ok text ns a q pr fo Hp E Hn.
  assert (Hne : text <> "") by (intros ->; exact (EndToEndPaths.parse_empty _ _ Hp)).
  unfold compile, compile_fuel, build_fuel. apply String.eqb_neq in Hne. rewrite Hne.
  unfold parse in Hp. rewrite Hp. cbn [cbind]. rewrite E. cbn [cbind].
  destruct q; try reflexivity. congruence.
Qed.

(** P[E] : the nodes of P from which E selects something *)
Theorem C02_exists_end_to_end : forall D has_ns hcode rm rn rr re_ok ns p e abs steps iabs isteps,
  path_syntax p -> steps_of p = (abs, steps) ->
  path_syntax e -> steps_of e = (iabs, isteps) ->
  xok (with_pred p e) ->
  List.length steps + 1 < max_build_depth -> List.length isteps + 2 < max_build_depth ->
  hash_ok hcode (all_nodes D) ->
  exists q, compile re_ok (print_min (with_pred p e)) ns = Ok q /\
    selects_where D has_ns hcode rm rn rr q abs steps
      (fun n => exists m, path_den D has_ns isteps (if iabs then root_node else n) m).
Proof.
  intros D has_ns hcode rm rn rr re_ok ns p e abs steps iabs isteps Hp Hs He Hse Hok Hl Hli Hh.
  destruct (path_syntax_wf e He) as [Hwe Hde].
  destruct (with_pred_ast p e Hp Hwe) as (Hast & Hwf & Hd).
  assert (Hparse : parse (print_min (with_pred p e)) ns = Ok (AFilter (xast p) (xast e))).
  { rewrite <- Hast. apply roundtrip_print_min; [exact Hwf|exact Hok|].
    rewrite Hd, Hde. unfold max_depth. lia. }
  destruct (build_pred_exists D has_ns hcode rm rn rr Hh re_ok abs steps (xast p) iabs isteps (xast e)
              (xast_path_shape p abs steps Hp Hs) (steps_of_ne p abs steps Hp Hs)
              (xast_path_shape e iabs isteps He Hse) (steps_of_ne e iabs isteps He Hse) Hl Hli)
    as (q & pr & fo & E & Hn & Hsel).
  exists q. split; [|exact Hsel].
  apply (compile_of_parse re_ok _ ns _ q pr fo Hparse E Hn).
Qed.
Print Assumptions C02_exists_end_to_end.

(** P[E = 'lit'] : the nodes of P from which E selects a node whose string-value is lit *)
Theorem C02_eq_literal_end_to_end :
  forall D has_ns hcode rm rn rr re_ok ns p e lit abs steps iabs isteps,
  path_syntax p -> steps_of p = (abs, steps) ->
  path_syntax e -> steps_of e = (iabs, isteps) ->
  xok (with_pred p (eq_lit e lit)) ->
  List.length steps + 1 < max_build_depth -> List.length isteps + 2 < max_build_depth ->
  hash_ok hcode (all_nodes D) ->
  exists q, compile re_ok (print_min (with_pred p (eq_lit e lit))) ns = Ok q /\
    selects_where D has_ns hcode rm rn rr q abs steps
      (fun n => exists m, path_den D has_ns isteps (if iabs then root_node else n) m /\
                          node_value D m = lit).
Proof.
  intros D has_ns hcode rm rn rr re_ok ns p e lit abs steps iabs isteps Hp Hs He Hse Hok Hl Hli Hh.
  destruct (path_syntax_wf e He) as [Hwe Hde].
  assert (Hwl : xwf (eq_lit e lit)).
  { unfold eq_lit. cbn [xwf level xlvl]. destruct He as [res He]. destruct e; try discriminate.
    cbn [xlvl]. repeat split; try lia. exact Hwe. }
  destruct (with_pred_ast p (eq_lit e lit) Hp Hwl) as (Hast & Hwf & Hd).
  assert (Hparse : parse (print_min (with_pred p (eq_lit e lit))) ns
                   = Ok (AFilter (xast p) (AOp "=" (xast e) (AStr lit)))).
  { change (AOp "=" (xast e) (AStr lit)) with (xast (eq_lit e lit)).
    rewrite <- Hast. apply roundtrip_print_min; [exact Hwf|exact Hok|].
    rewrite Hd. unfold eq_lit. cbn [xdepth]. rewrite Hde. cbn [Nat.max]. unfold max_depth. lia. }
  destruct (build_pred_eq_lit D has_ns hcode rm rn rr Hh re_ok abs steps (xast p) iabs isteps (xast e) lit
              (xast_path_shape p abs steps Hp Hs) (steps_of_ne p abs steps Hp Hs)
              (xast_path_shape e iabs isteps He Hse) (steps_of_ne e iabs isteps He Hse) Hl Hli)
    as (q & pr & fo & E & Hn & Hsel).
  exists q. split; [|exact Hsel].
  apply (compile_of_parse re_ok _ ns _ q pr fo Hparse E Hn).
Qed.
Print Assumptions C02_eq_literal_end_to_end.

(* ------------------------------------------------------------------ *)
(** * 5. Examples                                                       *)
(* ------------------------------------------------------------------ *)
Module Examples.
Import AxesSound.Examples EndToEndPaths.Examples.

(*   <a x="1" y="2"> <b>t</b> <c z="3"><d/><!--k--></c> <e/> </a>   *)
Example hash_ok_exD : hash_ok (hash_code exD) (all_nodes exD).
Proof.
  apply NoDup_codes_hash_ok; vm_compute;
    repeat (constructor; [cbn [In]; intuition discriminate|]); constructor.
Qed.

(*  a/*[d]  : the children of a that have a child d  *)
Definition p1 : px := XPath PRel (RCons (st_child "a") false (ROne (SAxis AxChild NStar PNil))).
Definition c1 : px := XPath PRel (ROne (st_child "d")).
Example t1 : print_min (with_pred p1 c1) = "a/*[d]".
Proof. vm_compute. reflexivity. Qed.

Example ex1 : exists q, compile Api.lit_ok "a/*[d]" None = Ok q /\
  forall n, In n [n_c] <->
    path_den exD true (snd (steps_of p1)) root_node n /\
    exists m, path_den exD true (snd (steps_of c1)) n m.
Proof.
  destruct (C02_exists_end_to_end exD true (hash_code exD) lit_match lit_numsubexp lit_replace_all Api.lit_ok
              None p1 c1 false (snd (steps_of p1)) false (snd (steps_of c1))) as (q & Eq & Hs).
  - apply path_syntax_b_ok. vm_compute. reflexivity.
  - vm_compute. reflexivity.
  - apply path_syntax_b_ok. vm_compute. reflexivity.
  - vm_compute. reflexivity.
  - vm_compute. reflexivity.
  - vm_compute. lia.
  - vm_compute. lia.
  - exact hash_ok_exD.
  - exists q. rewrite <- t1. split; [exact Eq|].
    destruct (Hs root_node eq_refl) as (l & El & _ & Hin).
    rewrite t1 in Eq. vm_compute in Eq. inversion Eq; subst q. vm_compute in El. inversion El; subst l.
    exact Hin.
Qed.

(*  //*[@z='3']  : the elements with an attribute z whose value is 3  *)
Definition p2 : px := XPath PAbs2 (ROne (SAxis AxChild NStar PNil)).
Definition c2 : px := XPath PRel (ROne (st_attr "z")).
Example t2 : print_min (with_pred p2 (eq_lit c2 "3")) = "//*[@z='3']".
Proof. vm_compute. reflexivity. Qed.

Example ex2 : exists q, compile Api.lit_ok "//*[@z='3']" None = Ok q /\
  forall n, In n [n_c] <->
    path_den exD true (snd (steps_of p2)) root_node n /\
    exists m, path_den exD true (snd (steps_of c2)) n m /\ node_value exD m = "3".
Proof.
  destruct (C02_eq_literal_end_to_end exD true (hash_code exD) lit_match lit_numsubexp lit_replace_all
              Api.lit_ok None p2 c2 "3" true (snd (steps_of p2)) false (snd (steps_of c2))) as (q & Eq & Hs).
  - apply path_syntax_b_ok. vm_compute. reflexivity.
  - vm_compute. reflexivity.
  - apply path_syntax_b_ok. vm_compute. reflexivity.
  - vm_compute. reflexivity.
  - vm_compute. reflexivity.
  - vm_compute. lia.
  - vm_compute. lia.
  - exact hash_ok_exD.
  - exists q. rewrite <- t2. split; [exact Eq|].
    destruct (Hs root_node eq_refl) as (l & El & _ & Hin).
    rewrite t2 in Eq. vm_compute in Eq. inversion Eq; subst q. vm_compute in El. inversion El; subst l.
    exact Hin.
Qed.

End Examples.
