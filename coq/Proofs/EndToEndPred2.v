(* Proofs/EndToEndPred2.v — property C02, end to end, more predicate forms on
   the last step of a predicate-free location path P.  An ATOM is an existence
   test  E  or a literal comparison  E = 'lit'  (E a predicate-free path):

       P[not(A)]        P[A1 and A2]        P[A1 or A2]        P[A1][A2]

   Compile of the text succeeds and Select returns exactly the nodes n of the
   denotation of P for which  not A(n) / A1(n) and A2(n) / A1(n) or A2(n) /
   A1(n) and A2(n), where A(n) is "the denotation of E from n is not empty",
   resp. "some node of it has the string-value lit".

   P[not(A)] is compiled along the POSITIONAL route (every function call may
   be a number for the builder): the statement goes through
   BuildFilter.process_step_filter_sound and needs the last step of P not to
   be on an ancestor axis -- there the merge rewrite repeats nodes (example
   [ancestor_not_repeats]; membership is still right). *)
From XP Require Import Base F64 Doc Ast Scan Parse Build Hash Eval Api.
From XP.Spec Require Import Axes Paths Values.
From XP.Proofs Require Import ParseTerm ScanTokens RoundTripOps RoundTripPaths
                              HashInj AxesSound PathSem BuildPath BuildFacts Filter BuildFilter
                              Compare BuildOps EndToEndPaths EndToEndPred EndToEndPos.
Require Import Lia.
Open Scope string_scope.
Open Scope nat_scope.
Open Scope list_scope.

(* ------------------------------------------------------------------ *)
(** * 1. Atoms and predicate syntax                                     *)
(* ------------------------------------------------------------------ *)

Inductive atom := AEx (e : px) | AEq (e : px) (lit : string).

Definition apath (a : atom) : px := match a with AEx e => e | AEq e _ => e end.
Definition apx (a : atom) : px := match a with AEx e => e | AEq e lit => eq_lit e lit end.
Definition atom_ok (a : atom) : Prop := path_syntax (apath a).
Definition asize (a : atom) : nat := List.length (snd (steps_of (apath a))) + 3.

Definition pred_not (a : atom) : px := XCall "not" (AOne (apx a)).
Definition pred_andor (isor : bool) (a1 a2 : atom) : px :=
  XBin (if isor then BOr else BAnd) (apx a1) (apx a2).

(* P[E1][E2] *)
Definition s_add_pred2 (s : xstep) (e1 e2 : px) : xstep :=
  match s with
  | SAbbr dd _ => SAbbr dd (PCons e1 (PCons e2 PNil))
  | SAxis a t _ => SAxis a t (PCons e1 (PCons e2 PNil))
  end.
Fixpoint r_add_pred2 (r : rpath) (e1 e2 : px) : rpath :=
  match r with
  | ROne s => ROne (s_add_pred2 s e1 e2)
  | RCons s dbl r' => RCons s dbl (r_add_pred2 r' e1 e2)
  end.
Definition with_pred2 (p e1 e2 : px) : px :=
  match p with XPath s r => XPath s (r_add_pred2 r e1 e2) | _ => p end.

Lemma apx_wf : forall a, atom_ok a -> xwf (apx a) /\ xdepth (apx a) = 0 /\ 2 <= xlvl (apx a).
Proof.
  intros a Ha. destruct (path_syntax_wf _ Ha) as [Hw Hd].
  assert (H8 : xlvl (apath a) = 8) by (destruct Ha as [r H]; destruct (apath a); try discriminate; reflexivity).
  destruct a as [e|e lit]; cbn [apx apath] in *.
  - rewrite H8. repeat split; try assumption. lia.
  - unfold eq_lit. cbn [xwf xdepth xlvl level]. rewrite H8, Hd. repeat split; try assumption; try lia.
Qed.

Lemma rast_add_pred2 : forall r l e1 e2, rsteps_of r = Some l ->
  forall n, rast (r_add_pred2 r e1 e2) n = AFilter (AFilter (rast r n) (xast e1)) (xast e2).
Proof.
  induction r as [s|s dbl r IH]; intros l e1 e2 H n; cbn [rsteps_of] in H.
  - destruct (step_of s) as [x|] eqn:Es; [|discriminate].
    destruct (step_of_pnil s x Es) as [[dd ->]|[a [t ->]]]; reflexivity.
  - destruct (step_of s); [|discriminate]. destruct (rsteps_of r) as [l'|] eqn:Er; [|discriminate].
    cbn [r_add_pred2 rast]. apply (IH l' e1 e2 eq_refl).
Qed.

Lemma rwf_add_pred2 : forall r l e1 e2, rsteps_of r = Some l -> xwf e1 -> xwf e2 ->
  rwf (r_add_pred2 r e1 e2) /\ rdepth (r_add_pred2 r e1 e2) = Nat.max (S (xdepth e1)) (S (xdepth e2)).
Proof.
  induction r as [s|s dbl r IH]; intros l e1 e2 H H1 H2; cbn [rsteps_of] in H.
  - destruct (step_of s) as [x|] eqn:Es; [|discriminate].
    destruct (step_of_wf s x Es) as [Hw _].
    destruct (step_of_pnil s x Es) as [[dd ->]|[a [t ->]]];
      cbn [r_add_pred2 s_add_pred2 rwf swf pwf rdepth sdepth pdepth_ps] in *;
      rewrite Nat.max_0_r; tauto.
  - destruct (step_of s) as [x|] eqn:Es; [|discriminate].
    destruct (rsteps_of r) as [l'|] eqn:Er; [|discriminate].
    destruct (step_of_wf s x Es) as [Hw Hd]. destruct (IH l' e1 e2 eq_refl H1 H2) as [G1 G2].
    cbn [r_add_pred2 rwf rdepth]. rewrite Hd, G2. cbn [Nat.max]. tauto.
Qed.

Theorem with_pred2_ast : forall p e1 e2, path_syntax p -> xwf e1 -> xwf e2 ->
  xast (with_pred2 p e1 e2) = AFilter (AFilter (xast p) (xast e1)) (xast e2) /\
  xwf (with_pred2 p e1 e2) /\ xdepth (with_pred2 p e1 e2) = Nat.max (S (xdepth e1)) (S (xdepth e2)).
Proof.
  intros p e1 e2 [res H] H1 H2. destruct p as [| | | | |s r| | | | |]; try discriminate.
  cbn [steps_of_opt] in H. destruct (rsteps_of r) as [l|] eqn:Er; [|discriminate].
  cbn [with_pred2 xast xwf xdepth]. split; [apply (rast_add_pred2 r l e1 e2 Er)|].
  apply (rwf_add_pred2 r l e1 e2 Er H1 H2).
Qed.

(* ------------------------------------------------------------------ *)
(** * 2. Builder and evaluator                                          *)
(* ------------------------------------------------------------------ *)

(* values of atoms: a node list or a boolean *)
Definition bool_like (v : value) : Prop := (exists l, v = VNodes l) \/ (exists b, v = VBool b).

Lemma bool_like_as_bool : forall v, bool_like v -> as_bool v = Val (xboolean_value v).
Proof. intros v [[l ->]|[b ->]]; [destruct l|]; reflexivity. Qed.

Definition last_not_ancestor (steps : list sstep) : Prop :=
  match rev steps with
  | s :: _ => match s_axis s with Ancestor | AncestorOrSelf => False | _ => True end
  | [] => True
  end.

Section Sem.
Variable D : tree.
Variable has_ns : bool.
Variable hcode : node -> N.
Variable rm : string -> string -> option bool.
Variable rn : string -> nat.
Variable rr : string -> string -> string -> string.
Hypothesis Hhash : hash_ok hcode (all_nodes D).
Variable re_ok : string -> bool.

Notation QDEN := (qden D has_ns hcode rm rn rr).
Notation SEL := (sel D has_ns hcode rm rn rr).
Notation EVAL := (eval D has_ns hcode rm rn rr).

(* what an atom says about a node *)
Definition asem (a : atom) (n : node) : Prop :=
  let '(abs, steps) := steps_of (apath a) in
  match a with
  | AEx _ => exists m, path_den D has_ns steps (if abs then root_node else n) m
  | AEq _ lit => exists m, path_den D has_ns steps (if abs then root_node else n) m /\ node_value D m = lit
  end.

(* a path tree under the plain flags or under the Filter flag *)
Lemma path_tree_builds_ff : forall (ff : bool) abs rs a d fi,
  rpath_ast abs rs (Some a) -> rs <> [] ->
  d + List.length rs + (if abs then 1 else 0) <= max_build_depth ->
  exists q pr fo, process re_ok d a (mkF false false ff) fi = Ok (q, pr, fo) /\
                  path_out q pr /\ QDEN q (P_of D has_ns abs rs).
Proof.
  intros ff abs rs a d fi HA Hne Hd. destruct ff.
  - destruct (filter_input_builds D has_ns hcode rm rn rr Hhash re_ok abs rs a d fi HA Hne Hd)
      as (q & pr & fo & E & _ & Hq).
    exists q, pr, fo. split; [exact E|]. split; [|exact Hq].
    destruct (rpath_ast_some_inv abs rs a HA Hne) as (s & r & prop & inp & -> & -> & _).
    apply (proj1 (path_out_both re_ok abs _ _ HA) d (mkF false false true) q pr).
    cbn [proc_opt]. rewrite <- (process_step_fi re_ok d s prop inp _ fi), E. reflexivity.
  - apply (path_tree_builds D has_ns hcode rm rn rr Hhash re_ok abs rs a d fi HA Hne Hd).
Qed.

(* an atom builds (any depth, any firstInput, plain or Filter flags) to a
   boolean-like query that says what the atom says *)
Lemma atom_builds : forall (ff : bool) a d fi,
  atom_ok a -> d + asize a <= max_build_depth ->
  exists c prc fi',
    process re_ok d (xast (apx a)) (mkF false false ff) fi = Ok (c, prc, fi') /\
    props_plain prc /\ can_be_number c = false /\
    forall n, valid D n = true ->
      exists v, EVAL c n = Val v /\ bool_like v /\ (xboolean_value v = true <-> asem a n).
Proof.
  intros ff a d fi Ha Hd. unfold atom_ok in Ha. unfold asize in Hd.
  destruct (steps_of (apath a)) as [abs steps] eqn:Es. cbn [snd] in Hd.
  pose proof (xast_path_shape _ abs steps Ha Es) as HA.
  pose proof (steps_of_ne _ abs steps Ha Es) as Hne.
  assert (Hr : rev steps <> []) by (intros E; apply Hne; rewrite <- (rev_involutive steps), E; reflexivity).
  destruct a as [e|e lit]; cbn [apx apath] in *.
  - destruct (path_tree_builds_ff ff abs (rev steps) (xast e) d fi HA Hr) as (c & prc & fo & E & [Hns Hpp] & Hq).
    { rewrite rev_length. destruct abs; lia. }
    exists c, prc, fo. split; [exact E|]. split; [exact Hpp|]. split; [apply nodeset_q_not_number; exact Hns|].
    intros n Hn. destruct (Hq n Hn) as (l & El & _ & Hin).
    exists (VNodes l). split; [rewrite (eval_nodeset_q D has_ns hcode rm rn rr c n Hns), El; reflexivity|].
    split; [left; eexists; reflexivity|].
    unfold asem. cbn [apath]. rewrite Es. cbn [xboolean_value]. split.
    + intros H. destruct l as [|it l']; [discriminate|].
      exists (it_node it). apply (P_of_rev D has_ns). apply Hin. left. reflexivity.
    + intros [m Hm]. apply (P_of_rev D has_ns) in Hm. apply Hin in Hm. destruct l; [contradiction|reflexivity].
  - destruct (path_tree_builds D has_ns hcode rm rn rr Hhash re_ok abs (rev steps) (xast e) (S d) fi HA Hr)
      as (c & prc & fi2 & E & [Hns Hpp] & Hq).
    { rewrite rev_length. destruct abs; lia. }
    assert (Es2 : process re_ok (S d) (AStr lit) fl_none fi2 = Ok (QStr lit, pr_none, mkFi (fi_q fi2) false)).
    { cbn [process]. replace (Nat.ltb max_build_depth (S (S d))) with false
        by (symmetry; apply Nat.ltb_ge; lia). reflexivity. }
    pose proof (process_cmp re_ok d "=" CEq (xast e) (AStr lit) (mkF false false ff) fi c prc fi2 (QStr lit)
                  pr_none _ eq_refl E Es2) as Ecmp.
    eexists. eexists. eexists. split; [exact Ecmp|].
    split; [apply props_plain_or; [exact Hpp|split; reflexivity]|]. split; [reflexivity|].
    intros n Hn. destruct (Hq n Hn) as (l & El & _ & Hin).
    exists (VBool (xcompare string_to_number CEq (XSet (values_of D l)) (Values.XStr lit))). split.
    + rewrite (eval_QLogical_eq D has_ns hcode rm rn rr CEq c (QStr lit) n).
      rewrite (eval_nodeset_q D has_ns hcode rm rn rr c n Hns), El. cbn [obind].
      change (EVAL (QStr lit) n) with (Val (VStr lit)). cbn [obind].
      apply compare_nodes_str. reflexivity.
    + split; [right; eexists; reflexivity|].
      unfold asem. cbn [apath]. rewrite Es.
      cbn [xboolean_value]. rewrite xcompare_set_str_eq. unfold values_of. rewrite in_map_iff. split.
      * intros (it & Hv & Hit). exists (it_node it). split; [|exact Hv].
        apply (P_of_rev D has_ns). apply Hin. unfold nodes_of. apply in_map. exact Hit.
      * intros (m & Hm & Hv). apply (P_of_rev D has_ns) in Hm. apply Hin in Hm.
        unfold nodes_of in Hm. apply in_map_iff in Hm. destruct Hm as (it & <- & Hit).
        exists it. split; assumption.
Qed.

(* a boolean-valued predicate over a query with a denotation *)
Lemma qden_filter : forall np qi c (P : rel) (Phi : node -> Prop),
  QDEN qi P ->
  (forall n, valid D n = true ->
     exists v, EVAL c n = Val v /\ (forall f, v <> VNum f) /\ (xboolean_value v = true <-> Phi n)) ->
  QDEN (QFilter np qi c) (fun ctx n => P ctx n /\ Phi n).
Proof.
  intros np qi c P Phi Hq Hev ctx Hctx.
  destruct (Hq ctx Hctx) as (l0 & El0 & Hv0 & Hin0).
  destruct (filter_succeeds D has_ns hcode rm rn rr np qi c ctx l0 El0) as (r & Er).
  { intros n Hn. destruct (Hev n (Hv0 n Hn)) as (v & Ev & _). exists v. exact Ev. }
  exists r. split; [exact Er|].
  assert (BV : boolean_valued_on D has_ns hcode rm rn rr c (nodes_of l0)).
  { intros n Hn f. destruct (Hev n (Hv0 n Hn)) as (v & Ev & Hnn & _). rewrite Ev. intros E.
    inversion E. apply (Hnn f). assumption. }
  pose proof (filter_members_boolean D has_ns hcode rm rn rr np qi c ctx r l0 Er El0 BV) as Hm.
  split.
  - intros n Hn. apply Hv0. apply (Hm n). exact Hn.
  - intros n. rewrite (Hm n). rewrite (Hin0 n). split.
    + intros [HP Hv]. split; [exact HP|]. pose proof (proj2 (Hin0 n) HP) as Hn.
      destruct (Hev n (Hv0 n Hn)) as (v & Ev & _ & Hiff). apply Hiff.
      unfold node_verdict in Hv. rewrite Ev in Hv. exact Hv.
    + intros [HP HPhi]. split; [exact HP|]. pose proof (proj2 (Hin0 n) HP) as Hn.
      destruct (Hev n (Hv0 n Hn)) as (v & Ev & _ & Hiff).
      unfold node_verdict. rewrite Ev. apply Hiff. exact HPhi.
Qed.

Lemma bool_like_not_num : forall v, bool_like v -> forall f, v <> VNum f.
Proof. intros v [[l ->]|[b ->]] f; discriminate. Qed.

Definition selects_where2 (q : query) (abs : bool) (steps : list sstep) (Phi : node -> Prop) : Prop :=
  forall c, valid D c = true ->
  exists l, SEL q c = Val l /\
            (forall n, In n (nodes_of l) -> valid D n = true) /\
            (forall n, In n (nodes_of l) <->
                       path_den D has_ns steps (if abs then root_node else c) n /\ Phi n).

Lemma qden_selects : forall q abs steps Phi,
  QDEN q (fun ctx n => P_of D has_ns abs (rev steps) ctx n /\ Phi n) -> selects_where2 q abs steps Phi.
Proof.
  intros q abs steps Phi H c Hc. destruct (H c Hc) as (l & El & Hv & Hin).
  exists l. split; [exact El|]. split; [exact Hv|]. intros n. rewrite (Hin n), (P_of_rev D has_ns). reflexivity.
Qed.

(* the value of  A1 and A2  /  A1 or A2 *)
Lemma andor_value : forall isor c1 c2 n v1 v2,
  EVAL c1 n = Val v1 -> bool_like v1 -> EVAL c2 n = Val v2 -> bool_like v2 ->
  EVAL (QBoolean isor c1 c2) n =
  Val (VBool (if isor then orb (xboolean_value v1) (xboolean_value v2)
              else andb (xboolean_value v1) (xboolean_value v2))).
Proof.
  intros isor c1 c2 n v1 v2 E1 B1 E2 B2.
  rewrite (eval_QBoolean_eq D has_ns hcode rm rn rr), E1. cbn [obind].
  rewrite (bool_like_as_bool v1 B1). cbn [obind].
  destruct isor; destruct (xboolean_value v1); cbn [orb andb]; try reflexivity;
    rewrite E2; cbn [obind]; rewrite (bool_like_as_bool v2 B2); reflexivity.
Qed.

(** P[A1 and A2] , P[A1 or A2] at the builder level *)
Theorem build_pred_andor : forall (isor : bool) abs steps a a1 a2,
  rpath_ast abs (rev steps) (Some a) -> steps <> [] -> atom_ok a1 -> atom_ok a2 ->
  List.length steps + 1 < max_build_depth ->
  2 + asize a1 <= max_build_depth -> 2 + asize a2 <= max_build_depth ->
  exists q pr fo,
    process re_ok 0 (AFilter a (AOp (if isor then "or" else "and") (xast (apx a1)) (xast (apx a2))))
            fl_none fi_nil = Ok (q, pr, fo) /\ q <> QNil /\
    selects_where2 q abs steps
      (fun n => if isor then asem a1 n \/ asem a2 n else asem a1 n /\ asem a2 n).
Proof.
  intros isor abs steps a a1 a2 HA Hne Ha1 Ha2 Hl Hs1 Hs2.
  assert (Hr : rev steps <> []) by (intros E; apply Hne; rewrite <- (rev_involutive steps), E; reflexivity).
  destruct (filter_input_builds D has_ns hcode rm rn rr Hhash re_ok abs (rev steps) a 1 fi_nil HA Hr)
    as (qi & pr & fi1 & Ei & Hnf & Hqi).
  { rewrite rev_length. destruct abs; lia. }
  destruct (atom_builds false a1 2 fi1 Ha1 Hs1) as (c1 & p1 & f1 & E1 & Hp1 & _ & V1).
  destruct (atom_builds false a2 2 f1 Ha2 Hs2) as (c2 & p2 & f2 & E2 & Hp2 & _ & V2).
  change (mkF false false false) with fl_none in E1, E2.
  assert (Ec : process re_ok 1 (AOp (if isor then "or" else "and") (xast (apx a1)) (xast (apx a2))) fl_none fi1
               = Ok (QBoolean isor c1 c2, pr_or p1 p2, mkFi (fi_q f2) false)).
  { destruct isor; [apply (process_or re_ok 1 _ _ fl_none fi1 c1 p1 f1 c2 p2 f2 E1 E2)
                   |apply (process_and re_ok 1 _ _ fl_none fi1 c1 p1 f1 c2 p2 f2 E1 E2)]. }
  assert (Hd0 : 0 < max_build_depth) by (unfold max_build_depth; lia).
  pose proof (process_boolean_filter_step re_ok 0 a _ fl_none fi_nil qi pr fi1 _ _ _ Hd0 Ei Ec
                ltac:(split; [reflexivity|apply props_plain_or; assumption]) Hnf) as E.
  eexists. eexists. eexists. split; [exact E|]. split; [discriminate|].
  apply qden_selects. apply qden_filter; [exact Hqi|].
  intros n Hn. destruct (V1 n Hn) as (v1 & Ev1 & B1 & S1). destruct (V2 n Hn) as (v2 & Ev2 & B2 & S2).
  eexists. split; [apply (andor_value isor c1 c2 n v1 v2 Ev1 B1 Ev2 B2)|]. split; [discriminate|].
  cbn [xboolean_value]. destruct isor.
  - rewrite Bool.orb_true_iff, S1, S2. reflexivity.
  - rewrite Bool.andb_true_iff, S1, S2. reflexivity.
Qed.

(** P[A1][A2] at the builder level *)
Theorem build_pred_twice : forall abs steps a a1 a2,
  rpath_ast abs (rev steps) (Some a) -> steps <> [] -> atom_ok a1 -> atom_ok a2 ->
  List.length steps + 2 < max_build_depth ->
  2 + asize a1 <= max_build_depth -> 1 + asize a2 <= max_build_depth ->
  exists q pr fo,
    process re_ok 0 (AFilter (AFilter a (xast (apx a1))) (xast (apx a2))) fl_none fi_nil = Ok (q, pr, fo) /\
    q <> QNil /\ selects_where2 q abs steps (fun n => asem a1 n /\ asem a2 n).
Proof.
  intros abs steps a a1 a2 HA Hne Ha1 Ha2 Hl Hs1 Hs2.
  assert (Hr : rev steps <> []) by (intros E; apply Hne; rewrite <- (rev_involutive steps), E; reflexivity).
  (* the inner filter node, as the input of the outer one *)
  destruct (filter_input_builds D has_ns hcode rm rn rr Hhash re_ok abs (rev steps) a 2 fi_nil HA Hr)
    as (qi & pr & fi1 & Ei & Hnf & Hqi).
  { rewrite rev_length. destruct abs; lia. }
  destruct (atom_builds true a1 2 fi1 Ha1 Hs1) as (c1 & p1 & f1 & E1 & Hp1 & Hn1 & V1).
  assert (Hd1 : 1 < max_build_depth) by (unfold max_build_depth; lia).
  pose proof (process_boolean_filter_step re_ok 1 a (xast (apx a1)) (mkF false false true) fi_nil
                qi pr fi1 c1 p1 f1 Hd1 Ei E1 ltac:(split; [exact Hn1|exact Hp1]) Hnf) as Einner.
  (* the outer predicate *)
  destruct (atom_builds false a2 1 (mkFi (Some (QFilter true qi c1)) true) Ha2 Hs2)
    as (c2 & p2 & f2 & E2 & Hp2 & Hn2 & V2).
  change (mkF false false false) with fl_none in E2.
  assert (Hd0 : 0 < max_build_depth) by (unfold max_build_depth; lia).
  pose proof (process_boolean_filter re_ok 0 (AFilter a (xast (apx a1))) (xast (apx a2)) fl_none fi_nil
                _ _ _ c2 p2 f2 Hd0 Einner E2 ltac:(split; [exact Hn2|exact Hp2]) eq_refl) as E.
  eexists. eexists. eexists. split; [exact E|]. split; [discriminate|].
  apply qden_selects.
  assert (Hin : QDEN (QFilter true qi c1) (fun ctx n => P_of D has_ns abs (rev steps) ctx n /\ asem a1 n)).
  { apply qden_filter; [exact Hqi|]. intros n Hn. destruct (V1 n Hn) as (v & Ev & B & S).
    exists v. split; [exact Ev|]. split; [apply bool_like_not_num; exact B|exact S]. }
  eapply qden_ext_v; [|apply (qden_filter true _ c2 _ (asem a2) Hin)].
  - intros c Hc n. tauto.
  - intros n Hn. destruct (V2 n Hn) as (v & Ev & B & S).
    exists v. split; [exact Ev|]. split; [apply bool_like_not_num; exact B|exact S].
Qed.

End Sem.

(* ------------------------------------------------------------------ *)
(** * 3. P[not(A)] : the positional route of the builder                *)
(* ------------------------------------------------------------------ *)

Lemma process_not_shape : forall re_ok d pre a0 fl fi q0 pr0 fi0,
  d < max_build_depth ->
  process re_ok (S d) a0 fl_none fi = Ok (q0, pr0, fi0) ->
  process re_ok d (AFunc pre "not" [a0]) fl fi = Ok (QFn1 FNot q0, pr0, mkFi (fi_q fi0) false).
Proof.
  intros re_ok d pre a0 fl fi q0 pr0 fi0 Hd H0.
  cbn [process]. rewrite (depth_ok d Hd).
  cbn [String.eqb Ascii.eqb Bool.eqb andb orb negb List.length Nat.eqb Nat.ltb Nat.leb].
  rewrite H0. reflexivity.
Qed.

Lemma adj_cond_not : forall c prc, adj_cond (QFn1 FNot c) prc = QFn1 FNot c.
Proof. intros. unfold adj_cond. destruct (andb _ _); reflexivity. Qed.

Section SemNot.
Variable D : tree.
Variable has_ns : bool.
Variable hcode : node -> N.
Variable rm : string -> string -> option bool.
Variable rn : string -> nat.
Variable rr : string -> string -> string -> string.
Hypothesis Hhash : hash_ok hcode (all_nodes D).
Variable re_ok : string -> bool.

Notation QDEN := (qden D has_ns hcode rm rn rr).
Notation SEL := (sel D has_ns hcode rm rn rr).
Notation EVAL := (eval D has_ns hcode rm rn rr).

(* the input of the filter node when its last step is not on an ancestor axis *)
Lemma filter_input_builds_na : forall abs s r prop inp d fi,
  rpath_ast abs r inp ->
  match s_axis s with Ancestor | AncestorOrSelf => False | _ => True end ->
  d + S (List.length r) + (if abs then 1 else 0) <= max_build_depth ->
  exists q pr,
    process re_ok d (step_ast s prop inp) (mkF false false true) fi = Ok (q, pr, mkFi (Some q) true) /\
    is_ancestor_q q = false /\ QDEN q (P_of D has_ns abs (s :: r)).
Proof.
  intros abs s r prop inp d fi HA Hna Hd.
  unfold step_ast. rewrite process_axis_eq.
  replace (Nat.ltb max_build_depth (S d)) with false
    by (symmetry; apply Nat.ltb_ge; destruct abs; lia).
  cbv zeta. destruct s as [ax t]. cbn [s_axis s_test] in *.
  assert (Ef : fused_cond (mkF false false true) (axis_name ax) inp = false)
    by (destruct inp as [[]|]; reflexivity).
  rewrite Ef. cbn [f_filter negb andb].
  destruct (good_all D has_ns hcode rm rn rr Hhash re_ok abs (List.length r) r inp (le_n _) HA (S d) false)
    as (qi & pr & Ei & _ & T & HqT & HI); [lia|].
  rewrite Ei. cbn [cbind].
  replace (axis_test (nt_type t) (nt_pre t) (nt_loc t) (nt_hasns t) (nt_ns t)) with t
    by (destruct t; reflexivity).
  destruct (mk_axis_name ax t (mkF false false true) qi pr) as (pr' & Em).
  rewrite Em. unfold finish. cbn [cbind f_smart].
  eexists. eexists. split; [reflexivity|]. split.
  - destruct ax; try contradiction; cbn [mk_axis_q axis_query]; try reflexivity;
      destruct (pr_nonflat pr); reflexivity.
  - cbn [inv] in HI.
    destruct (mk_axis_q_den D has_ns hcode rm rn rr Hhash ax t false (pr_nonflat pr) qi T (P_of D has_ns abs r)
                HqT (inv_exact D _ _ _ HI)) as (T' & HqT' & HI').
    cbn [inv] in HI'. eapply qden_ext_v; [|exact HqT'].
    eapply req_v_trans; [exact HI'|]. apply req_v_sym. apply (P_of_cons D has_ns abs (mkStep ax t) r).
Qed.

Theorem build_pred_not : forall abs steps a a1,
  rpath_ast abs (rev steps) (Some a) -> steps <> [] -> last_not_ancestor steps -> atom_ok a1 ->
  List.length steps + 1 < max_build_depth -> 2 + asize a1 <= max_build_depth ->
  exists q pr fo,
    process re_ok 0 (AFilter a (AFunc "" "not" [xast (apx a1)])) fl_none fi_nil = Ok (q, pr, fo) /\
    q <> QNil /\
    selects_where2 D has_ns hcode rm rn rr q abs steps (fun n => ~ asem D has_ns a1 n).
Proof.
  intros abs steps a a1 HA Hne Hna Ha1 Hl Hs1.
  assert (Hr : rev steps <> []) by (intros E; apply Hne; rewrite <- (rev_involutive steps), E; reflexivity).
  destruct (rpath_ast_some_inv abs (rev steps) a HA Hr) as (s & r & prop & inp & Er & -> & HA').
  unfold last_not_ancestor in Hna. rewrite Er in Hna.
  assert (Hlen : List.length steps = S (List.length r)).
  { rewrite <- (rev_length steps), Er. reflexivity. }
  destruct (filter_input_builds_na abs s r prop inp 1 fi_nil HA' Hna) as (qi & pr & Ei & Hanc & Hqi).
  { destruct abs; lia. }
  destruct (atom_builds D has_ns hcode rm rn rr Hhash re_ok false a1 2 (mkFi (Some qi) true) Ha1 Hs1)
    as (c1 & p1 & f1 & E1 & Hp1 & _ & V1).
  change (mkF false false false) with fl_none in E1.
  assert (Hd1 : 1 < max_build_depth) by (unfold max_build_depth; lia).
  pose proof (process_not_shape re_ok 1 "" (xast (apx a1)) fl_none _ c1 p1 f1 Hd1 E1) as Ec.
  assert (Hd0 : 0 < max_build_depth) by (unfold max_build_depth; lia).
  pose proof (process_filter_intro re_ok 0 _ _ fl_none fi_nil qi pr _ (QFn1 FNot c1) p1 _ Hd0 Ei Ec) as E.
  rewrite adj_cond_not in E.
  destruct (filter_result_ok (negb (f_filter fl_none)) qi (QFn1 FNot c1)
              (adj_pr (step_ast s prop inp) pr (adj_prc (QFn1 FNot c1) p1)) (adj_prc (QFn1 FNot c1) p1)
              (mkFi (Some qi) true)) as (q & Eq & Hn).
  rewrite Eq in E.
  exists q. eexists. eexists. split; [exact E|]. split; [exact Hn|].
  (* the plain filter of the built input by the built predicate *)
  assert (Hplain : QDEN (QFilter true qi (QFn1 FNot c1))
                        (fun ctx n => P_of D has_ns abs (rev steps) ctx n /\ ~ asem D has_ns a1 n)).
  { rewrite Er. apply qden_filter; [exact Hqi|].
    intros n Hvn. destruct (V1 n Hvn) as (v & Ev & B & S).
    exists (VBool (negb (xboolean_value v))). split.
    - rewrite (eval_FNot_eq D has_ns hcode rm rn rr), Ev. cbn [obind].
      destruct B as [[l ->]|[b ->]]; [destruct l|]; reflexivity.
    - split; [discriminate|]. cbn [xboolean_value]. rewrite Bool.negb_true_iff, <- S.
      destruct (xboolean_value v); split; intros H; try discriminate; try reflexivity; try congruence;
        try (exfalso; apply H; reflexivity). }
  unfold step_ast in E, Ei.
  destruct (process_step_filter_sound D has_ns hcode rm rn rr re_ok 0 _ _ _ _ _ _ _ _ _ fl_none fi_nil q _ _ E)
    as (qi' & pr' & fi1' & c' & prc' & fi2' & Hi' & Hc' & HS).
  change (input_flags fl_none) with (mkF false false true) in Hi'.
  rewrite Ei in Hi'. inversion Hi'; subst qi' pr' fi1'.
  change (cond_flags fl_none) with fl_none in Hc'. rewrite Ec in Hc'. inversion Hc'; subst c' prc' fi2'.
  rewrite adj_cond_not in HS.
  intros ctx Hctx. destruct (Hplain ctx Hctx) as (l & El & Hv & Hin).
  pose proof (HS Hanc true ctx) as Esame. rewrite El in Esame. unfold omap in Esame. cbn [obind] in Esame.
  destruct (SEL q ctx) as [l'| |]; cbn [obind] in Esame; try discriminate.
  inversion Esame as [Enodes]. exists l'. split; [reflexivity|]. rewrite Enodes.
  split; [exact Hv|]. intros n. rewrite (Hin n), (P_of_rev D has_ns). reflexivity.
Qed.

End SemNot.

(* ------------------------------------------------------------------ *)
(** * 4. End to end                                                     *)
(* ------------------------------------------------------------------ *)

Section E2E.
Variable D : tree.
Variable has_ns : bool.
Variable hcode : node -> N.
Variable rm : string -> string -> option bool.
Variable rn : string -> nat.
Variable rr : string -> string -> string -> string.
Variable re_ok : string -> bool.
Variable ns : nsmap.
Hypothesis Hhash : hash_ok hcode (all_nodes D).

Notation SW := (selects_where2 D has_ns hcode rm rn rr).
Notation ASEM := (asem D has_ns).

(** P[A1 and A2]  and  P[A1 or A2] *)
Theorem C02_andor_end_to_end : forall (isor : bool) p abs steps a1 a2,
  path_syntax p -> steps_of p = (abs, steps) -> atom_ok a1 -> atom_ok a2 ->
  xok (with_pred p (pred_andor isor a1 a2)) ->
  List.length steps + 1 < max_build_depth ->
  2 + asize a1 <= max_build_depth -> 2 + asize a2 <= max_build_depth ->
  exists q, compile re_ok (print_min (with_pred p (pred_andor isor a1 a2))) ns = Ok q /\
    SW q abs steps (fun n => if isor then ASEM a1 n \/ ASEM a2 n else ASEM a1 n /\ ASEM a2 n).
Proof.
  intros isor p abs steps a1 a2 Hp Hs Ha1 Ha2 Hok Hl Hs1 Hs2.
  destruct (apx_wf a1 Ha1) as (W1 & D1 & L1). destruct (apx_wf a2 Ha2) as (W2 & D2 & L2).
  assert (Hwe : xwf (pred_andor isor a1 a2)).
  { unfold pred_andor. cbn [xwf]. destruct isor; cbn [level]; repeat split; try assumption; lia. }
  destruct (with_pred_ast p _ Hp Hwe) as (Hast & Hwf & Hd).
  assert (Hparse : parse (print_min (with_pred p (pred_andor isor a1 a2))) ns
                   = Ok (AFilter (xast p) (AOp (if isor then "or" else "and") (xast (apx a1)) (xast (apx a2))))).
  { replace (AOp (if isor then "or" else "and") (xast (apx a1)) (xast (apx a2)))
      with (xast (pred_andor isor a1 a2)) by (destruct isor; reflexivity).
    rewrite <- Hast. apply roundtrip_print_min; [exact Hwf|exact Hok|].
    rewrite Hd. unfold pred_andor. cbn [xdepth]. rewrite D1, D2. unfold max_depth. cbn. lia. }
  destruct (build_pred_andor D has_ns hcode rm rn rr Hhash re_ok isor abs steps (xast p) a1 a2
              (xast_path_shape p abs steps Hp Hs) (steps_of_ne p abs steps Hp Hs) Ha1 Ha2 Hl Hs1 Hs2)
    as (q & pr & fo & E & Hn & Hsel).
  exists q. split; [|exact Hsel]. apply (compile_of_parse re_ok _ ns _ q pr fo Hparse E Hn).
Qed.

(** P[A1][A2] *)
Theorem C02_twice_end_to_end : forall p abs steps a1 a2,
  path_syntax p -> steps_of p = (abs, steps) -> atom_ok a1 -> atom_ok a2 ->
  xok (with_pred2 p (apx a1) (apx a2)) ->
  List.length steps + 2 < max_build_depth ->
  2 + asize a1 <= max_build_depth -> 1 + asize a2 <= max_build_depth ->
  exists q, compile re_ok (print_min (with_pred2 p (apx a1) (apx a2))) ns = Ok q /\
    SW q abs steps (fun n => ASEM a1 n /\ ASEM a2 n).
Proof.
  intros p abs steps a1 a2 Hp Hs Ha1 Ha2 Hok Hl Hs1 Hs2.
  destruct (apx_wf a1 Ha1) as (W1 & D1 & L1). destruct (apx_wf a2 Ha2) as (W2 & D2 & L2).
  destruct (with_pred2_ast p _ _ Hp W1 W2) as (Hast & Hwf & Hd).
  assert (Hparse : parse (print_min (with_pred2 p (apx a1) (apx a2))) ns
                   = Ok (AFilter (AFilter (xast p) (xast (apx a1))) (xast (apx a2)))).
  { rewrite <- Hast. apply roundtrip_print_min; [exact Hwf|exact Hok|].
    rewrite Hd, D1, D2. unfold max_depth. cbn. lia. }
  destruct (build_pred_twice D has_ns hcode rm rn rr Hhash re_ok abs steps (xast p) a1 a2
              (xast_path_shape p abs steps Hp Hs) (steps_of_ne p abs steps Hp Hs) Ha1 Ha2 Hl Hs1 Hs2)
    as (q & pr & fo & E & Hn & Hsel).
  exists q. split; [|exact Hsel]. apply (compile_of_parse re_ok _ ns _ q pr fo Hparse E Hn).
Qed.

(** P[not(A)] , the last step of P not on an ancestor axis *)
Theorem C02_not_end_to_end : forall p abs steps a1,
  path_syntax p -> steps_of p = (abs, steps) -> last_not_ancestor steps -> atom_ok a1 ->
  xok (with_pred p (pred_not a1)) ->
  List.length steps + 1 < max_build_depth -> 2 + asize a1 <= max_build_depth ->
  exists q, compile re_ok (print_min (with_pred p (pred_not a1))) ns = Ok q /\
    SW q abs steps (fun n => ~ ASEM a1 n).
Proof.
  intros p abs steps a1 Hp Hs Hna Ha1 Hok Hl Hs1.
  destruct (apx_wf a1 Ha1) as (W1 & D1 & L1).
  assert (Hwe : xwf (pred_not a1)) by (unfold pred_not; cbn [xwf awf]; auto).
  destruct (with_pred_ast p _ Hp Hwe) as (Hast & Hwf & Hd).
  assert (Hparse : parse (print_min (with_pred p (pred_not a1))) ns
                   = Ok (AFilter (xast p) (AFunc "" "not" [xast (apx a1)]))).
  { change (AFunc "" "not" [xast (apx a1)]) with (xast (pred_not a1)).
    rewrite <- Hast. apply roundtrip_print_min; [exact Hwf|exact Hok|].
    rewrite Hd. unfold pred_not. cbn [xdepth RoundTripPaths.adepth]. rewrite D1. unfold max_depth. lia. }
  destruct (build_pred_not D has_ns hcode rm rn rr Hhash re_ok abs steps (xast p) a1
              (xast_path_shape p abs steps Hp Hs) (steps_of_ne p abs steps Hp Hs) Hna Ha1 Hl Hs1)
    as (q & pr & fo & E & Hn & Hsel).
  exists q. split; [|exact Hsel]. apply (compile_of_parse re_ok _ ns _ q pr fo Hparse E Hn).
Qed.

End E2E.

Print Assumptions C02_andor_end_to_end.
Print Assumptions C02_twice_end_to_end.
Print Assumptions C02_not_end_to_end.

(* ------------------------------------------------------------------ *)
(** * 5. Examples                                                       *)
(* ------------------------------------------------------------------ *)
Module Examples.
Import AxesSound.Examples EndToEndPaths.Examples.

(*   <a x="1" y="2"> <b>t</b> <c z="3"><d/><!--k--></c> <e/> </a>   *)
Notation SELx := (sel exD true (hash_code exD) lit_match lit_numsubexp lit_replace_all).
Definition hx := EndToEndPred.Examples.hash_ok_exD.

(*  a/*  *)
Definition pp : px := XPath PRel (RCons (st_child "a") false (ROne (SAxis AxChild NStar PNil))).
Definition a_d : atom := AEx (XPath PRel (ROne (st_child "d"))).                (*  d        *)
Definition a_z : atom := AEq (XPath PRel (ROne (st_attr "z"))) "3".             (*  @z='3'   *)
Definition a_t : atom := AEx (XPath PRel (ROne (SAxis AxChild (NType "text") PNil))).  (*  text()  *)

Example texts :
  print_min (with_pred pp (pred_not a_d)) = "a/*[not(d)]" /\
  print_min (with_pred pp (pred_andor false a_d a_z)) = "a/*[d and@z='3']" /\
  print_min (with_pred pp (pred_andor true a_d a_t)) = "a/*[d or text()]" /\
  print_min (with_pred2 pp (apx a_d) (apx a_z)) = "a/*[d][@z='3']".
Proof. repeat split; vm_compute; reflexivity. Qed.

Lemma pp_ok : path_syntax pp /\ atom_ok a_d /\ atom_ok a_z /\ atom_ok a_t /\
              last_not_ancestor (snd (steps_of pp)).
Proof.
  split; [apply path_syntax_b_ok; vm_compute; reflexivity|].
  split; [apply path_syntax_b_ok; vm_compute; reflexivity|].
  split; [apply path_syntax_b_ok; vm_compute; reflexivity|].
  split; [apply path_syntax_b_ok; vm_compute; reflexivity|]. vm_compute. exact I.
Qed.

(*  a/*[not(d)]  =  b, e  : through the theorem *)
Example not_example :
  exists q, compile Api.lit_ok "a/*[not(d)]" None = Ok q /\
    omap nodes_of (SELx q root_node) = Val [n_b; n_e] /\
    forall n, In n [n_b; n_e] <->
      path_den exD true (snd (steps_of pp)) root_node n /\ ~ asem exD true a_d n.
Proof.
  destruct pp_ok as (Hp & Hd & _ & _ & Hna).
  destruct (C02_not_end_to_end exD true (hash_code exD) lit_match lit_numsubexp lit_replace_all Api.lit_ok None hx
              pp false (snd (steps_of pp)) a_d Hp eq_refl Hna Hd ltac:(vm_compute; reflexivity)
              ltac:(vm_compute; lia) ltac:(vm_compute; lia)) as (q & C & Hs).
  destruct texts as (T & _). rewrite T in C. exists q. split; [exact C|].
  destruct (Hs root_node eq_refl) as (l & El & _ & Hin).
  vm_compute in C. inversion C; subst q.
  assert (Hl : nodes_of l = [n_b; n_e]) by (vm_compute in El; inversion El; reflexivity).
  split; [rewrite El; cbn [omap obind]; rewrite Hl; reflexivity|].
  intros n. rewrite <- Hl. apply Hin.
Qed.

(*  a/*[d and @z='3'] = c ;  a/*[d or text()] = b, c ;  a/*[d][@z='3'] = c  *)
Example andor_twice_examples :
  (exists q, compile Api.lit_ok "a/*[d and@z='3']" None = Ok q /\ omap nodes_of (SELx q root_node) = Val [n_c]) /\
  (exists q, compile Api.lit_ok "a/*[d or text()]" None = Ok q /\ omap nodes_of (SELx q root_node) = Val [n_b; n_c]) /\
  (exists q, compile Api.lit_ok "a/*[d][@z='3']" None = Ok q /\ omap nodes_of (SELx q root_node) = Val [n_c]).
Proof.
  destruct pp_ok as (Hp & Hd & Hz & Ht & _). destruct texts as (_ & T2 & T3 & T4).
  split; [|split].
  - destruct (C02_andor_end_to_end exD true (hash_code exD) lit_match lit_numsubexp lit_replace_all Api.lit_ok None hx
                false pp false (snd (steps_of pp)) a_d a_z Hp eq_refl Hd Hz ltac:(vm_compute; reflexivity)
                ltac:(vm_compute; lia) ltac:(vm_compute; lia) ltac:(vm_compute; lia)) as (q & C & _).
    rewrite T2 in C. exists q. split; [exact C|]. vm_compute in C. inversion C; subst q. vm_compute. reflexivity.
  - destruct (C02_andor_end_to_end exD true (hash_code exD) lit_match lit_numsubexp lit_replace_all Api.lit_ok None hx
                true pp false (snd (steps_of pp)) a_d a_t Hp eq_refl Hd Ht ltac:(vm_compute; reflexivity)
                ltac:(vm_compute; lia) ltac:(vm_compute; lia) ltac:(vm_compute; lia)) as (q & C & _).
    rewrite T3 in C. exists q. split; [exact C|]. vm_compute in C. inversion C; subst q. vm_compute. reflexivity.
  - destruct (C02_twice_end_to_end exD true (hash_code exD) lit_match lit_numsubexp lit_replace_all Api.lit_ok None hx
                pp false (snd (steps_of pp)) a_d a_z Hp eq_refl Hd Hz ltac:(vm_compute; reflexivity)
                ltac:(vm_compute; lia) ltac:(vm_compute; lia) ltac:(vm_compute; lia)) as (q & C & _).
    rewrite T4 in C. exists q. split; [exact C|]. vm_compute in C. inversion C; subst q. vm_compute. reflexivity.
Qed.

(* why [last_not_ancestor]: with an ancestor step the merge rewrite re-runs the
   step per input node, and not() takes that route: the node a comes out three
   times (once per child of a), although  a/*/ancestor::*  returns it once *)
Example ancestor_not_repeats :
  exists q q0, compile Api.lit_ok "a/*/ancestor::*[not(d)]" None = Ok q /\
               compile Api.lit_ok "a/*/ancestor::*" None = Ok q0 /\
               omap nodes_of (SELx q root_node) = Val [n_a; n_a; n_a] /\
               omap nodes_of (SELx q0 root_node) = Val [n_a].
Proof.
  eexists. eexists. split; [vm_compute; reflexivity|]. split; [vm_compute; reflexivity|].
  split; vm_compute; reflexivity.
Qed.

End Examples.
