(* Proofs/IterRefine4.v — descendantOverDescendantQuery (QDoD) at cursor level refines
   Eval.sel, and the refinement theorems of IterRefine3.v restated for the coverage
   predicate [m1_supported4], which admits QDoD.  Summary at the end. *)
From XP Require Import Base F64 Doc Ast Hash Eval.
From XP.Model1 Require Import Iter Iter2 Iter3.
From XP.Proofs Require Import AxesSound IterRefine IterRefine2 Filter IterRefine3.
Open Scope nat_scope.
Open Scope list_scope.

(* ================================================================== *)
(** * 1. The walk of descendantOverDescendantQuery *)

Section DodWalk.
Variable D : tree.
Variable has_ns : bool.
Variable t : ntest.
Notation test := (match_test D has_ns t).
Notation W := (dod_walk D test).
Notation DESC := (dod_descend D test).
Notation WF := (S (dfuel D)).          (* the fuel dod_pump gives dod_walk *)

Definition hit (x : node) (lx : nat) : option (option node * node * nat) := Some (Some x, x, lx).

(* the descend loop from y followed by the walk *)
Definition scanY (f : nat) (y : node) (ly : nat) : option (option node * node * nat) :=
  match DESC (dfuel D) y ly with
  | None => None
  | Some (Some x, n2, l2) => Some (Some x, n2, l2)
  | Some (None, n2, l2) => W f n2 l2
  end.

Lemma W_S : forall k nd l,
  W (S k) nd (S l) = (let '(ok, nd1, l1) := dod_up D l nd in
                      if ok then scanY k nd1 l1 else Some (None, nd1, 0)).
Proof. intros. reflexivity. Qed.

Lemma dod_up_eq : forall l nd,
  dod_up D l nd = match move_next D nd with
                  | Some nd' => (true, nd', S l)
                  | None => match l with
                            | 0 => (false, nd, 0)
                            | S l' => dod_up D l' (match move_parent nd with Some p => p | None => nd end)
                            end
                  end.
Proof. intros l nd. destruct l; reflexivity. Qed.

Lemma DESC_mono : forall f nd lv r k, DESC f nd lv = Some r -> DESC (f + k) nd lv = Some r.
Proof.
  induction f as [|f IH]; intros nd lv r k E; [discriminate|]. cbn [dod_descend Nat.add] in *.
  destruct (test nd); [exact E|]. destruct (move_child D nd) as [nd'|]; [|exact E]. apply IH. exact E.
Qed.

Lemma W_mono : forall f nd lv r k, W f nd lv = Some r -> W (f + k) nd lv = Some r.
Proof.
  induction f as [|f IH]; intros nd lv r k E; [discriminate|]. cbn [dod_walk Nat.add] in *.
  destruct lv as [|l]; [exact E|]. destruct (dod_up D l nd) as [[ok nd1] l1]. destruct ok; [|exact E].
  destruct (DESC (dfuel D) nd1 l1) as [[[[x|] n2] l2]|]; [exact E| |exact E]. apply IH. exact E.
Qed.

Lemma move_child_sub : forall q cm, subtree D q = Some cm ->
  move_child D (mkNode q None) = match t_kids cm with [] => None | _ => Some (mkNode (q ++ [0]) None) end.
Proof.
  intros q cm E. unfold move_child. cbn [nattr npath]. rewrite (n_kids_sub D q cm E).
  destruct (t_kids cm); reflexivity.
Qed.

Lemma DESC_enough : forall f q cm lv, subtree D q = Some cm -> tsize cm <= f -> DESC f (mkNode q None) lv <> None.
Proof.
  induction f as [|f IH]; intros q cm lv E Hf; [pose proof (tsize_pos cm); lia|].
  cbn [dod_descend]. destruct (test (mkNode q None)); [discriminate|].
  rewrite (move_child_sub q cm E). destruct (t_kids cm) as [|c0 r] eqn:Ek; [discriminate|].
  apply (IH (q ++ [0]) c0).
  - rewrite subtree_app, E, subtree_single, Ek. reflexivity.
  - rewrite (tsize_eq cm), Ek in Hf. cbn [ksum] in Hf. lia.
Qed.

Lemma scanY_unfold : forall f q cm lv, subtree D q = Some cm ->
  scanY f (mkNode q None) lv =
  if test (mkNode q None) then hit (mkNode q None) lv
  else match t_kids cm with
       | [] => W f (mkNode q None) lv
       | _ => scanY f (mkNode (q ++ [0]) None) (S lv)
       end.
Proof.
  intros f q cm lv E. unfold scanY at 1. unfold dfuel. cbn [dod_descend].
  destruct (test (mkNode q None)); [reflexivity|].
  rewrite (move_child_sub q cm E). destruct (t_kids cm) as [|c0 r] eqn:Ek; [reflexivity|].
  assert (E0 : subtree D (q ++ [0]) = Some c0) by (rewrite subtree_app, E, subtree_single, Ek; reflexivity).
  assert (Hs : tsize c0 <= tsize D).
  { pose proof (tsize_subtree _ _ _ E0). exact H. }
  destruct (DESC (tsize D) (mkNode (q ++ [0]) None) (S lv)) as [r0|] eqn:Ed;
    [|exfalso; exact (DESC_enough _ _ _ _ E0 Hs Ed)].
  unfold scanY. unfold dfuel. replace (S (tsize D)) with (tsize D + 1) by lia.
  rewrite (DESC_mono _ _ _ _ 1 Ed). reflexivity.
Qed.

(* ---- what remains: successive Select calls (each with fresh fuel WF) from a processed node ---- *)
Fixpoint Rem (g : nat) (nd : node) (lv : nat) (rest : list node) : Prop :=
  match rest with
  | [] => exists nd', forall k, W (g + k) nd lv = Some (None, nd', 0)
  | y :: r => exists ly, (forall k, W (g + k) nd lv = hit y (S ly)) /\ Rem WF y (S ly) r
  end.

Definition RemY (g : nat) (y : node) (ly : nat) (rest : list node) : Prop :=
  match rest with
  | [] => exists nd', forall k, scanY (g + k) y ly = Some (None, nd', 0)
  | x :: r => exists lx, (forall k, scanY (g + k) y ly = hit x (S lx)) /\ Rem WF x (S lx) r
  end.

Lemma Rem_mono : forall g g' nd lv rest, g <= g' -> Rem g nd lv rest -> Rem g' nd lv rest.
Proof.
  intros g g' nd lv rest Hg H. replace g' with (g + (g' - g)) by lia. destruct rest as [|y r]; cbn [Rem] in *.
  - destruct H as (nd' & H). exists nd'. intros k. rewrite <- Nat.add_assoc. apply H.
  - destruct H as (ly & H & HR). exists ly. split; [|exact HR]. intros k. rewrite <- Nat.add_assoc. apply H.
Qed.

Lemma RemY_mono : forall g g' y ly rest, g <= g' -> RemY g y ly rest -> RemY g' y ly rest.
Proof.
  intros g g' y ly rest Hg H. replace g' with (g + (g' - g)) by lia. destruct rest as [|x r]; unfold RemY in *.
  - destruct H as (nd' & H). exists nd'. intros k. rewrite <- Nat.add_assoc. apply H.
  - destruct H as (lx & H & HR). exists lx. split; [|exact HR]. intros k. rewrite <- Nat.add_assoc. apply H.
Qed.

Lemma Rem_pos : forall g nd lv rest, Rem g nd lv rest -> 1 <= g.
Proof.
  intros g nd lv rest H. destruct g; [|lia]. exfalso. destruct rest; cbn [Rem] in H.
  - destruct H as (nd' & H). specialize (H 0). discriminate.
  - destruct H as (ly & H & _). specialize (H 0). discriminate.
Qed.

(* Rem from RemY of the next sibling: one walk step *)
Lemma Rem_of_next : forall g q i lv rest,
  move_next D (mkNode (q ++ [i]) None) = Some (mkNode (q ++ [S i]) None) ->
  RemY g (mkNode (q ++ [S i]) None) (S lv) rest -> Rem (S g) (mkNode (q ++ [i]) None) (S lv) rest.
Proof.
  intros g q i lv rest Hn H.
  assert (HW : forall k, W (S g + k) (mkNode (q ++ [i]) None) (S lv) = scanY (g + k) (mkNode (q ++ [S i]) None) (S lv)).
  { intros k. cbn [Nat.add]. rewrite W_S, dod_up_eq, Hn. reflexivity. }
  destruct rest as [|x r]; unfold RemY in *; cbn [Rem] in *.
  - destruct H as (nd' & H). exists nd'. intros k. rewrite HW. apply H.
  - destruct H as (lx & H & HR). exists lx. split; [|exact HR]. intros k. rewrite HW. apply H.
Qed.

(* leaving the last child: the walk goes on from the parent *)
Lemma W_exit : forall f q i l,
  move_next D (mkNode (q ++ [i]) None) = None ->
  W f (mkNode (q ++ [i]) None) (S (S l)) = W f (mkNode q None) (S l).
Proof.
  intros f q i l Hn. destruct f as [|f]; [reflexivity|]. rewrite !W_S. rewrite (dod_up_eq (S l)), Hn, move_parent_snoc. reflexivity.
Qed.

Lemma Rem_exit : forall g q i l rest,
  move_next D (mkNode (q ++ [i]) None) = None ->
  Rem g (mkNode q None) (S l) rest -> Rem g (mkNode (q ++ [i]) None) (S (S l)) rest.
Proof.
  intros g q i l rest Hn H. destruct rest as [|y r]; cbn [Rem] in *.
  - destruct H as (nd' & H). exists nd'. intros k. rewrite (W_exit _ _ _ _ Hn). apply H.
  - destruct H as (ly & H & HR). exists ly. split; [|exact HR]. intros k. rewrite (W_exit _ _ _ _ Hn). apply H.
Qed.

(* top level: leaving the last child of the input node ends the walk *)
Lemma Rem_exit_top : forall q i,
  move_next D (mkNode (q ++ [i]) None) = None -> Rem 1 (mkNode (q ++ [i]) None) 1 [].
Proof.
  intros q i Hn. cbn [Rem]. exists (mkNode (q ++ [i]) None). intros k. cbn [Nat.add]. rewrite W_S, dod_up_eq, Hn. reflexivity.
Qed.

(* ---- the list level ---- *)
Definition Tq (q : list nat) (cm : tree) : list node :=
  if test (mkNode q None) then [mkNode q None] else top_below D has_ns t cm q.

Lemma top_go_Tq : forall q c r i,
  top_go D has_ns t q (c :: r) i = Tq (q ++ [i]) c ++ top_go D has_ns t q r (S i).
Proof. intros. rewrite top_go_cons. reflexivity. Qed.

Lemma move_next_kid : forall q cm i, subtree D q = Some cm ->
  move_next D (mkNode (q ++ [i]) None) =
  if Nat.ltb (S i) (List.length (t_kids cm)) then Some (mkNode (q ++ [S i]) None) else None.
Proof.
  intros q cm i E. unfold move_next. cbn [nattr npath]. rewrite last_index_snoc, parent_path_snoc.
  rewrite (n_kids_sub D q cm E). reflexivity.
Qed.

(* scanning the later children of q (children are at level S lv) *)
Definition SLstmt (cm : tree) : Prop :=
  forall q lv K g, subtree D q = Some cm -> g + (tsize cm - 1) <= WF ->
  Rem g (mkNode q None) (S lv) K -> RemY (g + (tsize cm - 1)) (mkNode q None) (S lv) (Tq q cm ++ K).

Lemma kids_lemma : forall q cm lv K g, subtree D q = Some cm ->
  forall rest pre ci, t_kids cm = pre ++ ci :: rest ->
  Forall SLstmt rest ->
  (forall j, S j = List.length (t_kids cm) -> Rem g (mkNode (q ++ [j]) None) (S lv) K) ->
  g + ksum rest <= WF ->
  Rem (g + ksum rest) (mkNode (q ++ [List.length pre]) None) (S lv)
      (top_go D has_ns t q rest (S (List.length pre)) ++ K).
Proof.
  intros q cm lv K g E. induction rest as [|c' rest' IH]; intros pre ci Ek HF Hexit Hb.
  - cbn [ksum top_go app]. rewrite Nat.add_0_r. apply Hexit. rewrite Ek, app_length. cbn [List.length]. lia.
  - inversion HF as [|? ? Hc' HF']; subst. cbn [ksum] in *.
    assert (Ek' : t_kids cm = (pre ++ [ci]) ++ c' :: rest') by (rewrite <- app_assoc; exact Ek).
    specialize (IH (pre ++ [ci]) c' Ek' HF' Hexit ltac:(lia)).
    rewrite app_length in IH. cbn [List.length] in IH. rewrite Nat.add_1_r in IH.
    assert (Ec' : subtree D (q ++ [S (List.length pre)]) = Some c').
    { rewrite subtree_app, E, subtree_single, Ek'. rewrite nth_error_app2; rewrite app_length; cbn [List.length]; [|lia].
      replace (S (List.length pre) - (List.length pre + 1)) with 0 by lia. reflexivity. }
    pose proof (tsize_pos c') as Hp.
    pose proof (Hc' (q ++ [S (List.length pre)]) lv (top_go D has_ns t q rest' (S (S (List.length pre))) ++ K)
                    (g + ksum rest') Ec' ltac:(lia) IH) as HY.
    rewrite top_go_Tq, <- app_assoc.
    replace (g + (tsize c' + ksum rest')) with (S (g + ksum rest' + (tsize c' - 1))) by lia.
    apply Rem_of_next; [|exact HY].
    rewrite (move_next_kid q cm _ E), Ek, app_length. cbn [List.length].
    destruct (Nat.ltb_spec (S (List.length pre)) (List.length pre + S (S (List.length rest')))); [reflexivity|lia].
Qed.

Lemma SL_all : forall cm, SLstmt cm.
Proof.
  intros cm. induction cm as [k a b c d e ks IH] using tree_ind'.
  intros q lv K g E Hb HR. set (cm := T k a b c d e ks) in *.
  unfold Tq. destruct (test (mkNode q None)) eqn:Et.
  - (* the node itself matches *)
    cbn [app]; unfold RemY. exists lv. split.
    + intros k0. rewrite (scanY_unfold _ q cm _ E), Et. reflexivity.
    + apply (Rem_mono g); [lia|exact HR].
  - rewrite top_below_eq. change (t_kids cm) with ks.
    destruct ks as [|c0 rest] eqn:Eks.
    + (* a leaf *)
      cbn [top_go app]. apply (RemY_mono g); [lia|].
      destruct K as [|y r]; unfold RemY in *; cbn [Rem] in *.
      * destruct HR as (nd' & H). exists nd'. intros k0. rewrite (scanY_unfold _ q cm _ E), Et. apply H.
      * destruct HR as (ly & H & HR'). exists ly. split; [|exact HR']. intros k0.
        rewrite (scanY_unfold _ q cm _ E), Et. apply H.
    + (* children *)
      inversion IH as [|? ? Hc0 Hrest]; subst.
      assert (E0 : subtree D (q ++ [0]) = Some c0) by (rewrite subtree_app, E, subtree_single; reflexivity).
      assert (Hts : tsize cm = S (List.length e + (tsize c0 + ksum rest))) by (rewrite (tsize_eq cm); reflexivity).
      pose proof (tsize_pos c0) as Hp0.
      assert (Hexit : forall j, S j = List.length (t_kids cm) -> Rem g (mkNode (q ++ [j]) None) (S (S lv)) K).
      { intros j Hj. apply Rem_exit; [|exact HR]. rewrite (move_next_kid q cm j E), <- Hj.
        destruct (Nat.ltb_spec (S j) (S j)); [lia|reflexivity]. }
      pose proof (kids_lemma q cm (S lv) K g E rest [] c0 eq_refl Hrest Hexit ltac:(lia)) as HK.
      cbn [List.length] in HK.
      pose proof (Hc0 (q ++ [0]) (S lv) (top_go D has_ns t q rest 1 ++ K) (g + ksum rest) E0 ltac:(lia) HK) as HY.
      rewrite top_go_Tq, <- app_assoc.
      apply (RemY_mono (g + ksum rest + (tsize c0 - 1))); [lia|].
      set (LL := Tq (q ++ [0]) c0 ++ top_go D has_ns t q rest 1 ++ K) in *.
      destruct LL as [|x r]; unfold RemY in *.
      * destruct HY as (nd' & H). exists nd'. intros k0. rewrite (scanY_unfold _ q cm _ E), Et. apply H.
      * destruct HY as (lx & H & HR'). exists lx. split; [|exact HR']. intros k0.
        rewrite (scanY_unfold _ q cm _ E), Et. apply H.
Qed.

(* the whole input node: after the fetch, from its first child *)
Lemma dod_top : forall p s c0 rest, subtree D p = Some s -> t_kids s = c0 :: rest ->
  RemY WF (mkNode (p ++ [0]) None) 1 (top_below D has_ns t s p).
Proof.
  intros p s c0 rest E Ek. rewrite top_below_eq, Ek, top_go_Tq.
  assert (E0 : subtree D (p ++ [0]) = Some c0) by (rewrite subtree_app, E, subtree_single, Ek; reflexivity).
  assert (Hall : Forall SLstmt rest) by (apply Forall_forall; intros; apply SL_all).
  assert (Hts : tsize s = S (List.length (t_attrs s) + (tsize c0 + ksum rest))) by (rewrite (tsize_eq s), Ek; reflexivity).
  pose proof (tsize_subtree _ _ _ E) as Hsub. pose proof (tsize_pos c0) as Hp0.
  assert (Hexit : forall j, S j = List.length (t_kids s) -> Rem 1 (mkNode (p ++ [j]) None) 1 []).
  { intros j Hj. apply Rem_exit_top. rewrite (move_next_kid p s j E), <- Hj.
    destruct (Nat.ltb_spec (S j) (S j)); [lia|reflexivity]. }
  pose proof (kids_lemma p s 0 [] 1 E rest [] c0 Ek Hall Hexit ltac:(unfold dfuel; lia)) as HK.
  cbn [List.length] in HK. rewrite app_nil_r in HK.
  pose proof (SL_all c0 (p ++ [0]) 0 (top_go D has_ns t p rest 1) (1 + ksum rest) E0 ltac:(unfold dfuel; lia) HK) as HY.
  apply (RemY_mono (1 + ksum rest + (tsize c0 - 1))); [unfold dfuel; lia|exact HY].
Qed.

End DodWalk.

(* ================================================================== *)
(** * 2. descendantOverDescendantQuery.Select delivers step_dod *)

Section DodComb.
Context {St : Type}.
Variable D : tree.
Variable has_ns : bool.
Variable t : ntest.
Variable isel : St -> node -> res St.
Variable ipos ilvl : St -> nat.
Variable c : node.
Variable ms : bool.
Variable F : nat.
Notation test := (match_test D has_ns t).
Notation ldod := (step_dod D has_ns ms t).
Notation RepI := (Rep isel ipos ilvl c).
Notation OKc := (OK c).
Notation WF := (S (dfuel D)).
Notation ddloop := (iter_loop (dod_body D isel ms test)).
Notation REM := (Rem D has_ns t WF).

Lemma ldod_self : forall n, andb ms (test n) = true -> ldod n = [mkItem n 1 0].
Proof. intros n H. unfold step_dod. rewrite H. reflexivity. Qed.

Lemma ldod_cases : forall n, andb ms (test n) = false ->
  match move_child D n with
  | None => ldod n = []
  | Some n1 => exists tops, ldod n = numbered tops /\ RemY D has_ns t WF n1 1 tops
  end.
Proof.
  intros [p [a|]] H; unfold step_dod; rewrite H.
  - reflexivity.
  - unfold node_tree. cbn [nattr npath]. destruct (subtree D p) as [s|] eqn:Es.
    + rewrite (move_child_sub D p s Es). destruct (t_kids s) as [|c0 rest] eqn:Ek.
      * rewrite top_below_eq, Ek. reflexivity.
      * exists (top_below D has_ns t s p). split; [reflexivity|]. eapply dod_top; eassumption.
    + unfold move_child, n_kids, node_tree. cbn [nattr npath]. rewrite Es. reflexivity.
Qed.

Lemma dod_pump_spec : forall (again : dod_st St -> node -> res (dod_st St)) posit nd lv (s : St) cur hd,
  REM nd lv hd ->
  match hd with
  | [] => exists nd', dod_pump D test again posit nd lv s cur = again (mkDod 0 posit nd' s) cur
  | x :: r => exists lx, dod_pump D test again posit nd lv s cur = R (Some x) (mkDod (S lx) (S posit) x s) cur /\
                         REM x (S lx) r
  end.
Proof.
  intros again posit nd lv s cur hd H. unfold dod_pump. destruct hd as [|x r]; cbn [Rem] in H.
  - destruct H as (nd' & H). specialize (H 0). rewrite Nat.add_0_r in H. rewrite H. eauto.
  - destruct H as (lx & H & HR). specialize (H 0). rewrite Nat.add_0_r in H. unfold hit in H. rewrite H. eauto.
Qed.

(* the scan right after fetching an input node with a first child n1 *)
Lemma dod_scan_spec : forall (again : dod_st St -> node -> res (dod_st St)) n1 (s : St) cur tops,
  RemY D has_ns t WF n1 1 tops ->
  match tops with
  | [] => exists nd',
      match dod_descend D test (dfuel D) n1 1 with
      | None => Stuck
      | Some (Some x, nd2, l2) => R (Some x) (mkDod l2 1 nd2 s) cur
      | Some (None, nd2, l2) => dod_pump D test again 0 nd2 l2 s cur
      end = again (mkDod 0 0 nd' s) cur
  | x :: r => exists lx,
      match dod_descend D test (dfuel D) n1 1 with
      | None => Stuck
      | Some (Some x, nd2, l2) => R (Some x) (mkDod l2 1 nd2 s) cur
      | Some (None, nd2, l2) => dod_pump D test again 0 nd2 l2 s cur
      end = R (Some x) (mkDod (S lx) 1 x s) cur /\ REM x (S lx) r
  end.
Proof.
  intros again n1 s cur tops H. unfold RemY in H. destruct tops as [|x r].
  - destruct H as (nd' & H). specialize (H 0). rewrite Nat.add_0_r in H. unfold scanY in H.
    destruct (dod_descend D test (dfuel D) n1 1) as [[[[y|] nd2] l2]|]; try discriminate.
    exists nd'. unfold dod_pump. rewrite H. reflexivity.
  - destruct H as (lx & H & HR). specialize (H 0). rewrite Nat.add_0_r in H. unfold scanY, hit in H.
    destruct (dod_descend D test (dfuel D) n1 1) as [[[[y|] nd2] l2]|]; try discriminate.
    + inversion H; subst. eauto.
    + exists lx. unfold dod_pump. rewrite H. auto.
Qed.

Lemma ddloop_fetch_S : forall f k nd s cur o s1,
  isel s cur = R o s1 cur ->
  ddloop (S f) (mkDod 0 k nd s) cur =
  match o with
  | None => R None (mkDod 0 k nd s1) cur
  | Some n =>
    if andb ms (test n) then R (Some n) (mkDod 0 1 n s1) cur
    else match move_child D n with
         | None => ddloop f (mkDod 0 0 n s1) cur
         | Some n1 =>
           match dod_descend D test (dfuel D) n1 1 with
           | None => Stuck
           | Some (Some x, nd2, l2) => R (Some x) (mkDod l2 1 nd2 s1) cur
           | Some (None, nd2, l2) => dod_pump D test (ddloop f) 0 nd2 l2 s1 cur
           end
         end
  end.
Proof.
  intros f k nd s cur o s1 E. cbn [iter_loop]. unfold dod_body at 1. cbn [dd_level dd_in dd_posit dd_node].
  rewrite E. destruct o; reflexivity.
Qed.

Lemma ddloop_walk_S : forall f lv k nd s cur,
  ddloop (S f) (mkDod (S lv) k nd s) cur = dod_pump D test (ddloop f) k nd (S lv) s cur.
Proof. intros. reflexivity. Qed.

Definition DHead (lv : nat) (nd : node) (hd : list node) : Prop :=
  match lv with 0 => hd = [] | S _ => REM nd lv hd end.

Definition dod_post (l0 : list item) (f : nat) (st : dod_st St) (cur : node) (out : list item) : Prop :=
  match out with
  | [] => exists s' k nd, ddloop f st cur = R None (mkDod 0 k nd s') cur /\ RepI false s' []
  | it :: r => exists s' lv nd hd l',
      ddloop f st cur = R (Some (it_node it)) (mkDod lv (it_pos it) nd s') cur /\
      it_lvl it = 0 /\ DHead lv nd hd /\ RepI false s' l' /\ List.length l' <= List.length l0 /\
      r = number_from (S (it_pos it)) 0 hd ++ over ldod l'
  end.

Lemma dod_none : forall l f s k nd b cur, RepI b s l -> OKc b cur -> List.length l < f ->
  dod_post l f (mkDod 0 k nd s) cur (over ldod l).
Proof.
  induction l as [|a l IH]; intros f s k nd b cur HR Hok Hlen; (destruct f as [|f']; [cbn in Hlen; lia|]).
  - cbn [over flat_map dod_post]. destruct (Rep_nil_step _ _ _ _ _ _ _ HR Hok) as (s' & E & HR').
    exists s', k, nd. rewrite (ddloop_fetch_S _ _ _ _ _ _ _ E). auto.
  - cbn [Rep] in HR. destruct (HR cur Hok) as (s1 & E & _ & _ & HR1).
    unfold over. cbn [flat_map]. fold (over ldod l).
    unfold dod_post. rewrite (ddloop_fetch_S _ _ _ _ _ _ _ E).
    assert (Hskip : forall nd0,
      match [] ++ over ldod l with
      | [] => exists s' k nd, ddloop f' (mkDod 0 0 nd0 s1) cur = R None (mkDod 0 k nd s') cur /\ RepI false s' []
      | it :: r => exists s' lv nd hd l',
          ddloop f' (mkDod 0 0 nd0 s1) cur = R (Some (it_node it)) (mkDod lv (it_pos it) nd s') cur /\
          it_lvl it = 0 /\ DHead lv nd hd /\ RepI false s' l' /\ List.length l' <= List.length (a :: l) /\
          r = number_from (S (it_pos it)) 0 hd ++ over ldod l'
      end).
    { intros nd0. cbn [app]. specialize (IH f' s1 0 nd0 false cur HR1 (OK_false c cur) ltac:(cbn in Hlen; lia)).
      unfold dod_post in IH. destruct (over ldod l) as [|it r]; [exact IH|].
      destruct IH as (s' & lv & nd1 & hd & l' & E' & Hl & HD & HR' & Hlen' & Er).
      exists s', lv, nd1, hd, l'. cbn [List.length]. repeat split; auto. }
    destruct (andb ms (test (it_node a))) eqn:Hms.
    + rewrite (ldod_self _ Hms). cbn [app].
      exists s1, 0, (it_node a), [], l. cbn [it_node it_pos it_lvl List.length DHead number_from app].
      repeat split; auto.
    + pose proof (ldod_cases (it_node a) Hms) as HC.
      destruct (move_child D (it_node a)) as [n1|].
      * destruct HC as (tops & Et & HY). rewrite Et.
        pose proof (dod_scan_spec (ddloop f') n1 s1 cur tops HY) as HS.
        destruct tops as [|x r].
        -- destruct HS as (nd' & HS). rewrite HS. cbn [numbered number_from]. apply Hskip.
        -- destruct HS as (lx & HS & HRm). rewrite HS. cbn [numbered number_from app].
           exists s1, (S lx), x, r, l. cbn [it_node it_pos it_lvl List.length DHead]. repeat split; auto.
      * rewrite HC. apply Hskip.
Qed.

Lemma dod_iter : forall l f s k nd lv hd cur, RepI false s l -> S (List.length l) < f ->
  REM nd (S lv) hd ->
  dod_post l f (mkDod (S lv) k nd s) cur (number_from (S k) 0 hd ++ over ldod l).
Proof.
  intros l f s k nd lv hd cur HR Hlen HD. destruct f as [|f']; [lia|].
  unfold dod_post. rewrite ddloop_walk_S.
  pose proof (dod_pump_spec (ddloop f') k nd (S lv) s cur hd HD) as HP.
  destruct hd as [|x r].
  - destruct HP as (nd' & HP). rewrite HP. cbn [number_from app].
    apply (dod_none l f' s k nd' false cur HR (OK_false c cur)). lia.
  - destruct HP as (lx & HP & HRm). rewrite HP. cbn [number_from app].
    exists s, (S lx), x, r, l. cbn [it_node it_pos it_lvl DHead]. repeat split; auto.
Qed.

Definition DodInv (b : bool) (st : dod_st St) (out : list item) : Prop :=
  exists l, RepI b (dd_in st) l /\ (b = true -> dd_level st = 0) /\ List.length l + 2 <= F /\
  exists hd, DHead (dd_level st) (dd_node st) hd /\
             out = number_from (S (dd_posit st)) 0 hd ++ over ldod l.

Lemma dod_inv_post : forall b st cur out, DodInv b st out -> OKc b cur ->
  exists l, List.length l + 2 <= F /\ dod_post l F st cur out.
Proof.
  intros b [lv k nd s] cur out (l & HR & Hb & Hlen & hd & HD & ->) Hok. exists l.
  cbn [dd_in dd_level dd_posit dd_node] in *. split; [exact Hlen|].
  destruct lv as [|lv].
  - cbn [DHead] in HD. subst hd. cbn [number_from app]. apply (dod_none l F s k nd b cur HR Hok). lia.
  - destruct b; [specialize (Hb eq_refl); discriminate|]. apply dod_iter; auto. lia.
Qed.

Lemma dod_Rep_inv : forall b st out, DodInv b st out ->
  Rep (dod_select D isel ms test F) dd_posit (fun _ => 0) c b st out.
Proof.
  intros b st out HI. revert b st HI. apply (Rep_of_inv _ _ _ _ DodInv).
  - intros b st cur HI Hok. destruct (dod_inv_post _ _ _ _ HI Hok) as (l & Hlen & HP).
    cbn [dod_post] in HP. destruct HP as (s' & k & nd & E & HR').
    eexists. split; [exact E|]. exists []. cbn [dd_in dd_level dd_posit dd_node]. split; [exact HR'|].
    split; [reflexivity|]. split; [cbn; lia|]. exists []. split; reflexivity.
  - intros b st it r cur HI Hok. destruct (dod_inv_post _ _ _ _ HI Hok) as (l & Hlen & HP).
    cbn [dod_post] in HP. destruct HP as (s' & lv & nd & hd & l' & E & Hl & HD & HR' & Hlen' & Er).
    eexists. split; [exact E|]. cbn [dd_posit]. repeat split; auto.
    exists l'. cbn [dd_in dd_level dd_posit dd_node]. split; [exact HR'|]. split; [discriminate|]. split; [lia|].
    exists hd. split; [exact HD|exact Er].
Qed.

Lemma dod_Rep : forall l b s k nd, RepI b s l -> List.length l + 2 <= F ->
  Rep (dod_select D isel ms test F) dd_posit (fun _ => 0) c b (mkDod 0 k nd s) (over ldod l).
Proof.
  intros l b s k nd HR Hlen. apply dod_Rep_inv. exists l. cbn [dd_in dd_level dd_posit dd_node].
  repeat split; auto. exists []. split; reflexivity.
Qed.

End DodComb.

(* ================================================================== *)
(** * 3. Coverage with QDoD, and the refinement theorems again *)

Fixpoint m1_supported4 (q : query) : bool :=
  match q with
  | QNil | QNop | QNum _ | QStr _ | QFn0 _ | QContext | QAbsolute => true
  | QAncestor _ _ i | QAttribute _ i | QChild _ i | QCachedChild _ i | QDescendant _ _ i
  | QFollowing _ _ i | QPreceding _ _ i | QParent _ i | QSelf _ i | QReverse i | QDoD _ _ i =>
    andb (is_ns i) (m1_supported4 i)
  | QFilter _ i p => andb (andb (is_ns i) (m1_supported4 i)) (m1_supported4 p)
  | QFn1 _ a => m1_supported4 a
  | QFn2 _ a b => andb (m1_supported4 a) (m1_supported4 b)
  | QFn3 _ a b c => andb (andb (m1_supported4 a) (m1_supported4 b)) (m1_supported4 c)
  | QConcat args => andb (is_arglist args) (m1_supported4 args)
  | QArg a rest => andb (m1_supported4 a) (m1_supported4 rest)
  | QPosition _ | QLast _ => true
  | QGroup i => m1_supported4 i
  | QLogical _ l r | QNumeric _ l r | QBoolean _ l r => andb (m1_supported4 l) (m1_supported4 r)
  | QUnion l r | QMerge l r => andb (andb (is_ns l) (is_ns r)) (andb (m1_supported4 l) (m1_supported4 r))
  | QLastFunc _ => false
  end.

Lemma m1_supported_4 : forall q, m1_supported q = true -> m1_supported4 q = true.
Proof.
  induction q; cbn [m1_supported m1_supported4]; intros H; try discriminate; auto;
    repeat match goal with H : andb _ _ = true |- _ => apply andb_prop in H; destruct H end;
    repeat (apply andb_true_intro; split); auto.
Qed.

(* Evaluate leaves a node-set query in a state from which Select starts afresh *)
Lemma ResetOK3_reset4 : forall q, is_ns q = true -> m1_supported4 q = true -> forall s, ResetOK3 q (reset3 q s).
Proof.
  induction q; intros Hns Hs st; cbn [is_ns m1_supported4] in Hns, Hs; try discriminate;
    repeat (apply andb_prop in Hs; let H1 := fresh "Hs" in destruct Hs as [Hs H1]);
    cbn [ResetOK3 reset3 n_it n_table n_in a_it a_in c_it c_in d_it d_in fo_it fo_in pr_it pr_in
         f3_pm f3_in rv_it rv_in g_posit g_in u_it u_l u_r dd_level dd_in m_it m_in]; auto 8.
  - apply andb_prop in Hs0. destruct Hs0. auto.
  - apply andb_prop in Hs0. destruct Hs0. auto.
Qed.

Section Main4.
Variable D : tree.
Variable has_ns : bool.
Variable hc : node -> N.
Variable rm : string -> string -> option bool.
Variable rn : string -> nat.
Variable rr : string -> string -> string -> string.
Notation SEL := (sel D has_ns hc rm rn rr).
Notation EVAL := (eval D has_ns hc rm rn rr).
Notation MT := (match_test D has_ns).
Notation S3 := (sel3 D has_ns hc rm rn rr).
Notation E3 := (ev3 D has_ns hc rm rn rr).
Notation Sstmt := (IterRefine3.Sstmt D has_ns hc rm rn rr).
Notation Estmt := (IterRefine3.Estmt D has_ns hc rm rn rr).
Notation SelOK := (IterRefine3.SelOK D has_ns hc rm rn rr).
Notation EvOK := (IterRefine3.EvOK D has_ns hc rm rn rr).

(* ns_Estmt of IterRefine3.v with the reset property as hypothesis *)
Lemma ns_Estmt4 : forall q,
  (forall s, ResetOK3 q (reset3 q s)) ->
  (forall c, EVAL q c = do l <- SEL q c; Val (VNodes l)) ->
  (forall F s cur, E3 F q s cur = OK3 (CVQuery (mkHandle (S3 F q) (reset3 q))) (reset3 q s) cur) ->
  Sstmt q -> Estmt q.
Proof.
  intros q HRR Heval Hev HS c V E. rewrite Heval in E.
  apply obind_val_inv' in E. destruct E as (l & El & E). inversion E; subst.
  destruct (HS c l El) as [F0 H0]. exists (Nat.max F0 (S (List.length l))). intros F HF s.
  rewrite Hev. eexists _, _. split; [reflexivity|].
  assert (HN : forall w, NRep (S3 F q) c true (reset3 q w) (nodes_of l)).
  { intros w. eapply NRep_of_Rep. apply H0; [lia|]. apply HRR. }
  split; [cbn [VRel h_sel h_reset]; split; [apply HN|exact HN]|]. split; [cbn [vlen]; lia|].
  cbn [IterRefine3.OwnSel]. apply HN.
Qed.

(* Select of the node-set query types (the proofs of IterRefine3.case_*, without the
   coverage hypothesis) *)
Lemma S_child : forall t i, Sstmt i -> Sstmt (QChild t i).
Proof.
  intros t i IHS.
  intros c l E. change (SEL (QChild t i) c) with (do x <- SEL i c; Val (over (lchild D (MT t)) x)) in E.
    apply obind_val_inv' in E. destruct E as (x & E0 & E). inversion E; subst.
    destruct (IHS c x E0) as [F0 H0]. exists (Nat.max F0 (List.length x + 2)).
    intros F HF [k it s] [Hit HR]. cbn [c_it c_in] in *. subst it.
    apply (child_Rep D (S3 F i) (position_of3 i) (depth_of3 i)); [apply H0; [lia|exact HR]|lia].
Qed.

Lemma S_cachedchild : forall t i, Sstmt i -> Sstmt (QCachedChild t i).
Proof.
  intros t i IHS.
  intros c l E. change (SEL (QCachedChild t i) c) with (do x <- SEL i c; Val (over (lchild D (MT t)) x)) in E.
    apply obind_val_inv' in E. destruct E as (x & E0 & E). inversion E; subst.
    destruct (IHS c x E0) as [F0 H0]. exists (Nat.max F0 (List.length x + 2)).
    intros F HF [k it s] [Hit HR]. cbn [c_it c_in] in *. subst it.
    apply (child_Rep D (S3 F i) (position_of3 i) (depth_of3 i)); [apply H0; [lia|exact HR]|lia].
Qed.

Lemma S_attribute : forall t i, Sstmt i -> Sstmt (QAttribute t i).
Proof.
  intros t i IHS.
  intros c l E. change (SEL (QAttribute t i) c) with (do x <- SEL i c; Val (over (lattr D (MT t)) x)) in E.
    apply obind_val_inv' in E. destruct E as (x & E0 & E). inversion E; subst.
    destruct (IHS c x E0) as [F0 H0]. exists (Nat.max F0 (List.length x + 2)).
    intros F HF [it s] [Hit HR]. cbn [a_it a_in] in *. subst it.
    apply (attr_Rep D (S3 F i) (position_of3 i) (depth_of3 i)); [apply H0; [lia|exact HR]|lia].
Qed.

Lemma S_self : forall t i, Sstmt i -> Sstmt (QSelf t i).
Proof.
  intros t i IHS.
  intros c l E. change (SEL (QSelf t i) c) with (do x <- SEL i c; Val (over (lself (MT t)) x)) in E.
    apply obind_val_inv' in E. destruct E as (x & E0 & E). inversion E; subst.
    destruct (IHS c x E0) as [F0 H0]. exists (Nat.max F0 (List.length x + 2)).
    intros F HF s HR. cbn [ResetOK3] in HR.
    apply (self_Rep (S3 F i) (position_of3 i) (depth_of3 i)); [apply H0; [lia|exact HR]|lia].
Qed.

Lemma S_parent : forall t i, Sstmt i -> Sstmt (QParent t i).
Proof.
  intros t i IHS.
  intros c l E. change (SEL (QParent t i) c) with (do x <- SEL i c; Val (over (lparent (MT t)) x)) in E.
    apply obind_val_inv' in E. destruct E as (x & E0 & E). inversion E; subst.
    destruct (IHS c x E0) as [F0 H0]. exists (Nat.max F0 (List.length x + 2)).
    intros F HF s HR. cbn [ResetOK3] in HR.
    apply (parent_Rep (S3 F i) (position_of3 i) (depth_of3 i)); [apply H0; [lia|exact HR]|lia].
Qed.

Lemma S_descendant : forall self t i, Sstmt i -> Sstmt (QDescendant self t i).
Proof.
  intros self t i IHS.
  intros c l E.
    change (SEL (QDescendant self t i) c) with (do x <- SEL i c; Val (over (ldesc D (MT t) self) x)) in E.
    apply obind_val_inv' in E. destruct E as (x & E0 & E). inversion E; subst.
    destruct (IHS c x E0) as [F0 H0]. exists (Nat.max F0 (List.length x + 2)).
    intros F HF [it k lv s] [Hit HR]. cbn [d_it d_in] in *. subst it.
    apply (desc_Rep D (S3 F i) (position_of3 i) (depth_of3 i)); [apply H0; [lia|exact HR]|lia].
Qed.

Lemma S_following : forall sb t i, Sstmt i -> Sstmt (QFollowing sb t i).
Proof.
  intros sb t i IHS.
  intros c l E. destruct sb.
    - change (SEL (QFollowing true t i) c) with (do x <- SEL i c; Val (over (lfsib D (MT t)) x)) in E.
      apply obind_val_inv' in E. destruct E as (x & E0 & E). inversion E; subst.
      destruct (IHS c x E0) as [F0 H0]. exists (Nat.max F0 (List.length x + 2)).
      intros F HF [k it s] [Hit HR]. cbn [fo_it fo_in] in *. subst it.
      apply (fsib_Rep D (S3 F i) (position_of3 i) (depth_of3 i)); [apply H0; [lia|exact HR]|lia].
    - change (SEL (QFollowing false t i) c) with (do x <- SEL i c; Val (over (lfol D (MT t)) x)) in E.
      apply obind_val_inv' in E. destruct E as (x & E0 & E). inversion E; subst.
      destruct (IHS c x E0) as [F0 H0]. exists (Nat.max F0 (List.length x + 2)).
      intros F HF [k it s] [Hit HR]. cbn [fo_it fo_in] in *. subst it.
      apply (fdoc_Rep D (S3 F i) (position_of3 i) (depth_of3 i)); [apply H0; [lia|exact HR]|lia].
Qed.

Lemma S_preceding : forall sb t i, Sstmt i -> Sstmt (QPreceding sb t i).
Proof.
  intros sb t i IHS.
  intros c l E. destruct sb.
    - change (SEL (QPreceding true t i) c) with (do x <- SEL i c; Val (over (lpsib (MT t)) x)) in E.
      apply obind_val_inv' in E. destruct E as (x & E0 & E). inversion E; subst.
      destruct (IHS c x E0) as [F0 H0]. exists (Nat.max F0 (List.length x + 2)).
      intros F HF [k it s] [Hit HR]. cbn [pr_it pr_in] in *. subst it.
      apply (psib_Rep D (S3 F i) (position_of3 i) (depth_of3 i)); [apply H0; [lia|exact HR]|lia].
    - change (SEL (QPreceding false t i) c) with (do x <- SEL i c; Val (over (lpre D (MT t)) x)) in E.
      apply obind_val_inv' in E. destruct E as (x & E0 & E). inversion E; subst.
      destruct (IHS c x E0) as [F0 H0]. exists (Nat.max F0 (List.length x + 2)).
      intros F HF [k it s] [Hit HR]. cbn [pr_it pr_in] in *. subst it.
      apply (pdoc_Rep D (S3 F i) (position_of3 i) (depth_of3 i)); [apply H0; [lia|exact HR]|lia].
Qed.

Lemma S_ancestor : forall self t i, Sstmt i -> Sstmt (QAncestor self t i).
Proof.
  intros self t i IHS.
  intros c l E.
    change (SEL (QAncestor self t i) c)
      with (do x <- SEL i c; Val (unnumbered (ancestors_all D has_ns hc self t [] (nodes_of x)))) in E.
    apply obind_val_inv' in E. destruct E as (x & E0 & E). inversion E; subst.
    destruct (IHS c x E0) as [F0 H0]. exists (Nat.max F0 (List.length x + 2)).
    intros F HF [it tb s] (Hit & Htb & HR). cbn [n_it n_table n_in] in *. subst it tb.
    rewrite <- (lanc_all_eq D has_ns hc).
    apply (anc_Rep hc (S3 F i) (position_of3 i) (depth_of3 i)); [apply H0; [lia|exact HR]|lia].
Qed.

Lemma S_reverse : forall i, Sstmt i -> Sstmt (QReverse i).
Proof.
  intros i IHS.
  intros c l E.
    change (SEL (QReverse i) c) with (do x <- SEL i c; Val (unnumbered (rev (nodes_of x)))) in E.
    apply obind_val_inv' in E. destruct E as (x & E0 & E). inversion E; subst.
    destruct (IHS c x E0) as [F0 H0]. exists (Nat.max F0 (List.length x + 2)).
    intros F HF [it s] [Hit HR]. cbn [rv_it rv_in] in *. subst it.
    apply (rev_Rep (S3 F i) (position_of3 i) (depth_of3 i)); [apply H0; [lia|exact HR]|lia].
Qed.

Lemma S_union : forall l r, Sstmt l -> Sstmt r -> Sstmt (QUnion l r).
Proof.
  intros l r IHl IHr.
  intros c l0 E.
    change (SEL (QUnion l r) c)
      with (do a <- SEL l c; do b <- SEL r c;
            Val (unnumbered (fst (dedup_hash hc [] (nodes_of a ++ nodes_of b))))) in E.
    apply obind_val_inv' in E. destruct E as (a & Ea & E).
    apply obind_val_inv' in E. destruct E as (b & Eb & E). inversion E; subst.
    destruct (IHl c a Ea) as [F1 H1]. destruct (IHr c b Eb) as [F2 H2].
    exists (Nat.max (Nat.max F1 F2) (S (Nat.max (List.length a) (List.length b)))).
    intros F HF [it sl sr] (Hit & HRl & HRr). cbn [u_it u_l u_r] in *. subst it.
    apply (union_Rep hc (S3 F l) (position_of3 l) (depth_of3 l) (S3 F r) (position_of3 r) (depth_of3 r));
      [apply H1; [lia|exact HRl]|apply H2; [lia|exact HRr]|lia|lia].
Qed.

Lemma S_filter : forall np i p, Sstmt i -> Estmt p -> Sstmt (QFilter np i p).
Proof.
  intros np i p IHS IHE.
  intros c r E. rewrite sel_filter in E. apply obind_val_inv' in E. destruct E as (l & E0 & E).
    destruct (filter_go_spec D has_ns hc rm rn rr p l [] r E) as [_ Hev].
    destruct (IHS c l E0) as [F0 H0].
    assert (HEv : Eventually (fun F => Forall (fun it =>
                    exists V, EVAL p (it_node it) = Val V /\ EvOK F p (it_node it) V) l)).
    { apply ev_Forall. intros it Hin. rewrite Forall_forall in Hev. destruct (Hev it Hin) as (V & EV).
      destruct (IHE (it_node it) V EV) as [F1 H1]. exists F1. intros F HF. exists V. split; [exact EV|apply H1; exact HF]. }
    destruct HEv as [F1 H1]. exists (Nat.max (Nat.max F0 F1) (S (List.length l))).
    intros F HF [k pm s ps] [Hpm HR]. cbn [f3_pm f3_in] in *. subst pm.
    rewrite <- (lfilter_filter_go D has_ns hc rm rn rr (pred_of D has_ns hc rm rn rr p) p) with (l := l) (pm := []) (r := r);
      [| intros n v pos En; unfold pred_of; rewrite En; reflexivity | exact E].
    apply (filter3_Rep (S3 F i) (position_of3 i) (depth_of3 i) c (E3 F p) (S3 F p) (pred_of D has_ns hc rm rn rr p) F);
      [apply H0; [lia|exact HR]| |lia].
    specialize (H1 F ltac:(lia)). rewrite Forall_forall in *. intros it Hin.
    destruct (H1 it Hin) as (V & EV & HE). unfold DoOK, pred_of. rewrite EV. apply (filter_do_spec D has_ns hc rm rn rr). exact HE.
Qed.

Lemma S_merge : forall i ch, (forall s, ResetOK3 ch (reset3 ch s)) -> Sstmt i -> Sstmt ch -> Sstmt (QMerge i ch).
Proof.
  intros i ch HRR IHi IHc.
  intros c l0 E.
    change (SEL (QMerge i ch) c)
      with (do roots <- SEL i c; do x <- oflat_map (fun it => SEL ch (it_node it)) roots;
            Val (unnumbered (nodes_of x))) in E.
    apply obind_val_inv' in E. destruct E as (roots & Er & E).
    apply obind_val_inv' in E. destruct E as (x & Ex & E). inversion E; subst.
    set (Lc := fun n => match SEL ch n with Val l => l | _ => [] end).
    assert (HLc : forall it, In it roots -> SEL ch (it_node it) = Val (Lc (it_node it))).
    { intros it Hin. destruct (oflat_map_each D has_ns hc rm rn rr ch roots x Ex it Hin) as (y & Ey). unfold Lc. rewrite Ey. reflexivity. }
    destruct (IHi c roots Er) as [F0 H0].
    assert (HEv : Eventually (fun F => Forall (fun it =>
                    SelOK F ch (it_node it) (Lc (it_node it)) /\ List.length (Lc (it_node it)) < F) roots)).
    { apply ev_Forall. intros it Hin. destruct (IHc _ _ (HLc it Hin)) as [F1 H1].
      exists (Nat.max F1 (S (List.length (Lc (it_node it))))). intros F HF. split; [apply H1; lia|lia]. }
    destruct HEv as [F1 H1]. exists (Nat.max (Nat.max F0 F1) (List.length roots + 2)).
    intros F HF [it s sc] [Hit HR]. cbn [m_it m_in] in *. subst it.
    rewrite <- (mlist_oflat D has_ns hc rm rn rr Lc ch roots x HLc Ex).
    apply (merge_Rep (S3 F i) (position_of3 i) (depth_of3 i) (S3 F ch) (position_of3 ch) (depth_of3 ch)
                     (reset3 ch) c F Lc
                     (fun n => SelOK F ch n (Lc n) /\ List.length (Lc n) < F)).
    - intros n [Hn1 Hn2] sc0. split; [|exact Hn2]. apply Hn1. apply HRR.
    - apply H0; [lia|exact HR].
    - unfold PI. specialize (H1 F ltac:(lia)). exact H1.
    - lia.
Qed.

Lemma S_dod : forall ms t i, Sstmt i -> Sstmt (QDoD ms t i).
Proof.
  intros ms t i IHS.
  intros c l E. change (SEL (QDoD ms t i) c) with (do x <- SEL i c; Val (over (step_dod D has_ns ms t) x)) in E.
  apply obind_val_inv' in E. destruct E as (x & E0 & E). inversion E; subst.
  destruct (IHS c x E0) as [F0 H0]. exists (Nat.max F0 (List.length x + 2)).
  intros F HF [lv k nd s] [Hlv HR]. cbn [dd_level dd_in] in *. subst lv.
  apply (dod_Rep D has_ns t (S3 F i) (position_of3 i) (depth_of3 i)); [apply H0; [lia|exact HR]|lia].
Qed.

Ltac ns_case Ssub q0 Hsup0 :=
  split; [exact Ssub|];
  apply ns_Estmt4; [apply ResetOK3_reset4; [reflexivity|exact Hsup0]|reflexivity|reflexivity|exact Ssub].

Theorem m1_main4 : forall q, m1_supported4 q = true -> Sstmt q /\ Estmt q.
Proof.
  induction q; intros Hs; pose proof Hs as Hs0; cbn [m1_supported4] in Hs; try discriminate;
    repeat (apply andb_prop in Hs; let H1 := fresh "Hsup" in destruct Hs as [Hs H1]).
  - apply case_nil.
  - apply case_nop.
  - apply case_context.
  - apply case_absolute.
  - assert (HS := S_ancestor self t q (proj1 (IHq Hsup))). ns_case HS (QAncestor self t q) Hs0.
  - assert (HS := S_attribute t q (proj1 (IHq Hsup))). ns_case HS (QAttribute t q) Hs0.
  - assert (HS := S_child t q (proj1 (IHq Hsup))). ns_case HS (QChild t q) Hs0.
  - assert (HS := S_cachedchild t q (proj1 (IHq Hsup))). ns_case HS (QCachedChild t q) Hs0.
  - assert (HS := S_descendant self t q (proj1 (IHq Hsup))). ns_case HS (QDescendant self t q) Hs0.
  - assert (HS := S_following sibling t q (proj1 (IHq Hsup))). ns_case HS (QFollowing sibling t q) Hs0.
  - assert (HS := S_preceding sibling t q (proj1 (IHq Hsup))). ns_case HS (QPreceding sibling t q) Hs0.
  - assert (HS := S_parent t q (proj1 (IHq Hsup))). ns_case HS (QParent t q) Hs0.
  - assert (HS := S_self t q (proj1 (IHq Hsup))). ns_case HS (QSelf t q) Hs0.
  - assert (HS := S_filter nopos q1 q2 (proj1 (IHq1 Hsup0)) (proj2 (IHq2 Hsup))).
    ns_case HS (QFilter nopos q1 q2) Hs0.
  - apply case_fn0.
  - apply case_fn1; apply IHq; auto.
  - apply case_fn2; [apply IHq1|apply IHq2]; auto.
  - apply case_fn3; [apply IHq1|apply IHq2|apply IHq3]; auto.
  - apply case_concat; auto. apply IHq; auto.
  - apply case_arg; [apply IHq1|apply IHq2]; auto.
  - apply case_position.
  - apply case_last.
  - assert (HS := S_reverse q (proj1 (IHq Hsup))). ns_case HS (QReverse q) Hs0.
  - apply case_num.
  - apply case_str.
  - apply case_group; apply IHq; auto.
  - apply case_logical; [apply IHq1|apply IHq2]; auto.
  - apply case_numeric; [apply IHq1|apply IHq2]; auto.
  - apply case_boolean; try apply IHq1; try apply IHq2; auto.
  - apply andb_prop in Hsup. destruct Hsup as [Hl Hr].
    assert (HS := S_union q1 q2 (proj1 (IHq1 Hl)) (proj1 (IHq2 Hr))). ns_case HS (QUnion q1 q2) Hs0.
  - assert (HS := S_dod matchself t q (proj1 (IHq Hsup))). ns_case HS (QDoD matchself t q) Hs0.
  - apply andb_prop in Hsup. destruct Hsup as [Hl Hr].
    assert (HS := S_merge q1 q2 (ResetOK3_reset4 q2 Hsup0 Hr) (proj1 (IHq1 Hl)) (proj1 (IHq2 Hr))).
    ns_case HS (QMerge q1 q2) Hs0.
Qed.

(** ** The top-level theorems for m1_supported4 *)
Theorem m1_refines_m2_all4 : forall q (wf : m1_supported4 q = true) c l,
  SEL q c = Val l ->
  exists F0, forall F n, F0 <= F -> List.length l < n ->
    drain_items3 D has_ns hc rm rn rr F n (fresh3 q) c = l /\
    drain3 D has_ns hc rm rn rr F n (fresh3 q) c = nodes_of l /\
    exists st', run3 D has_ns hc rm rn rr F n (fresh3 q) c = (l, E_nil, st', c).
Proof.
  intros q wf c l E. destruct (m1_main4 q wf) as [HS _].
  destruct (HS c l E) as [F0 H0]. exists F0. intros F n HF Hn.
  destruct (run3_Rep D has_ns hc rm rn rr q F c l true (init3 q) n (H0 F HF (init3 q) (ResetOK3_init q)) Hn)
    as (s' & Er).
  unfold drain3, drain_items3, fresh3. rewrite Er. cbn [fst]. repeat split; eauto.
Qed.

Theorem m1_refines_after_evaluate4 : forall q (wf : m1_supported4 q = true) (ns : is_ns q = true) c l s,
  SEL q c = Val l ->
  exists F0, forall F n, F0 <= F -> List.length l < n ->
    exists st', run3 D has_ns hc rm rn rr F n (existT _ q (reset3 q s)) c = (l, E_nil, st', c).
Proof.
  intros q wf ns c l s E. destruct (m1_main4 q wf) as [HS _].
  destruct (HS c l E) as [F0 H0]. exists F0. intros F n HF Hn.
  destruct (run3_Rep D has_ns hc rm rn rr q F c l true (reset3 q s) n
                     (H0 F HF _ (ResetOK3_reset4 q ns wf s)) Hn) as (s' & Er). eauto.
Qed.

Theorem m1_evaluate_refines4 : forall q (wf : m1_supported4 q = true) c V,
  EVAL q c = Val V ->
  exists F0, forall F n, F0 <= F -> vlen V < n ->
    evaluate3 D has_ns hc rm rn rr F n q c = val_out V.
Proof.
  intros q wf c V E. destruct (m1_main4 q wf) as [_ HE].
  destruct (HE c V E) as [F0 H0]. exists F0. intros F n HF Hn.
  destruct (H0 F HF (init3 q)) as (v & s' & Ev & HV & _ & _). unfold evaluate3. rewrite Ev.
  destruct v as [[b|f|s|z|]|h]; destruct V; cbn in HV; try destruct HV as [HV _]; try contradiction; subst;
    try reflexivity.
  destruct HV as (pos & lvl & l0 & HR & El).
  assert (Hl : List.length l0 < n).
  { cbn [vlen] in Hn. apply (f_equal (@List.length node)) in El. unfold nodes_of in El. rewrite !map_length in El. lia. }
  destruct (mcollect_spec (h_sel h) pos lvl c l0 n s' true c [] HR (OK_c c true) Hl) as (s'' & Em).
  rewrite Em. cbn [app val_out]. rewrite El. reflexivity.
Qed.

Theorem m1_evaluate_any_state4 : forall q (wf : m1_supported4 q = true) c V,
  EVAL q c = Val V ->
  exists F0, forall F, F0 <= F -> forall s, exists v s', E3 F q s c = OK3 v s' c /\ VRel c v s' V.
Proof.
  intros q wf c V E. destruct (m1_main4 q wf) as [_ HE].
  destruct (HE c V E) as [F0 H0]. exists F0. intros F HF s.
  destruct (H0 F HF s) as (v & s' & Ev & HV & _). eauto.
Qed.

End Main4.

Print Assumptions dod_Rep.
Print Assumptions m1_main4.
Print Assumptions m1_refines_m2_all4.
Print Assumptions m1_refines_after_evaluate4.
Print Assumptions m1_evaluate_refines4.
Print Assumptions m1_evaluate_any_state4.

(* ================================================================== *)
(** * 4. Examples *)
From XP Require Import Api.

Module M4Examples.
Import AxesSound.Examples.
Import IterRefine3.M3Examples.
Open Scope string_scope.

Fixpoint has_dod (q : query) : bool :=
  match q with
  | QDoD _ _ _ => true
  | QChild _ i | QCachedChild _ i | QDescendant _ _ i | QFilter _ i _ | QSelf _ i | QParent _ i
  | QAttribute _ i | QGroup i => has_dod i
  | QMerge i j => orb (has_dod i) (has_dod j)
  | _ => false
  end.

(* the builder makes a descendantOverDescendantQuery of a descendant step that feeds another one *)
Definition agrees4 (s : string) (c : node) : Prop :=
  has_dod (comp s) = true /\ m1_supported4 (comp s) = true /\ m1_supported (comp s) = false /\
  SELx (comp s) c = Val (dr3 (comp s) c).

Example ex_dod_built :
  agrees4 "descendant::a/descendant::d" root_node /\
  agrees4 "descendant::*/descendant::node()" root_node /\
  agrees4 "descendant-or-self::*/descendant::*" root_node /\
  agrees4 "//a/descendant::*/descendant-or-self::node()" root_node /\
  agrees4 "descendant::c/descendant::*/.." root_node.
Proof. unfold agrees4. vm_compute. repeat split; reflexivity. Qed.

Example ex_dod_nodes :
  drn3 (comp "descendant::*/descendant::node()") root_node = [n_b; n_t; n_c; n_d; n_k; n_e] /\
  map it_pos (dr3 Qdod1 root_node) = [1; 2; 3].
Proof. vm_compute. split; reflexivity. Qed.

End M4Examples.

(* ================================================================== *)
(** * Summary
   dod_top / SL_all / kids_lemma   the cursor walk of descendantOverDescendantQuery (moveToFirstChild,
                       moveUpUntilNext with the level counter, the descend loop) visits exactly
                       Eval.top_below: the matching nodes below the input that have no matching
                       ancestor below the input, in document order; the fuel 2 + |document| that
                       dod_pump gives the walk suffices (each Select call needs at most
                       1 + the size of the rest of the input's subtree)
   dod_Rep             from any state of the input that delivers l, dod_select delivers
                       over (step_dod m t) l, posit 1,2,.. per input node, level 0, t.Current() untouched
   S_dod, m1_main4     Sstmt / Estmt for every query with m1_supported4 q = true
                       (m1_supported4 = m1_supported + QDoD over a supported node-set input;
                        m1_supported_4: m1_supported q -> m1_supported4 q)
   m1_refines_m2_all4, m1_refines_after_evaluate4, m1_evaluate_refines4, m1_evaluate_any_state4
                       the top-level theorems of IterRefine3.v for m1_supported4
   The only query type left out is lastFuncQuery (see LastFuncModel.v). *)
