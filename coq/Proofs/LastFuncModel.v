(* Proofs/LastFuncModel.v — lastFuncQuery at cursor level, as a theorem.

   lastFuncQuery.Evaluate:   if !q.counted { buffer = every node of Input; counted = true }
                             return float64(len(buffer))
   `counted` is set once and never cleared (Evaluate does not reset it; only Clone gives a new
   object).  So over the lifetime of one object -- any sequence of Evaluate calls, from any
   context nodes c1, c2, ..., ck -- every call returns the number of nodes the input selects
   from the FIRST context node c1 ([lastfunc_lifetime]).  The list-level model evaluates
   QLastFunc i afresh at every context node: eval (QLastFunc i) cj = |sel i cj|.  The two agree
   exactly when |sel i cj| = |sel i c1| for the contexts met ([lastfunc_agrees_iff]); in
   particular for a context-independent input, Absolute.ctx_free i ([lastfunc_ctx_free]). *)
From XP Require Import Base F64 Doc Ast Hash Eval.
From XP.Model1 Require Import Iter Iter2 Iter3.
From XP.Proofs Require Import AxesSound IterRefine IterRefine2 Filter IterRefine3 IterRefine4 Absolute.
Open Scope nat_scope.
Open Scope list_scope.

Section LastFunc.
Variable D : tree.
Variable has_ns : bool.
Variable hc : node -> N.
Variable rm : string -> string -> option bool.
Variable rn : string -> nat.
Variable rr : string -> string -> string -> string.
Notation SEL := (sel D has_ns hc rm rn rr).
Notation EVAL := (eval D has_ns hc rm rn rr).
Notation S3 := (sel3 D has_ns hc rm rn rr).
Notation E3 := (ev3 D has_ns hc rm rn rr).

Lemma ev3_lastfunc_eq : forall F i (st : state3 (QLastFunc i)) cur,
  E3 F (QLastFunc i) st cur =
  if lf_counted st then OK3 (CVS (SNum (num_of_nat (List.length (lf_buffer st))))) st cur
  else match mcollect (S3 F i) F (lf_in st) cur (lf_buffer st) with
       | None => Stuck3
       | Some (buf, s', cur') =>
         OK3 (CVS (SNum (num_of_nat (List.length buf)))) (mkLastF buf true s') cur'
       end.
Proof. reflexivity. Qed.

(* the results of a history of Evaluate calls on ONE object: (value, t.Current() afterwards);
   None = the call did not return a number *)
Fixpoint history (F : nat) (i : query) (st : state3 (QLastFunc i)) (cs : list node)
  : list (option (sval * node)) :=
  match cs with
  | [] => []
  | c :: r =>
    match E3 F (QLastFunc i) st c with
    | OK3 (CVS x) st' cur' => Some (x, cur') :: history F i st' r
    | _ => [None]
    end
  end.

(* a lastFuncQuery object that has not been evaluated yet: what build.go makes and what Clone makes *)
Definition unused (i : query) (st : state3 (QLastFunc i)) : Prop :=
  lf_counted st = false /\ lf_buffer st = [] /\ ResetOK3 i (lf_in st).

Lemma unused_init : forall i, unused i (init3 (QLastFunc i)).
Proof. intros i. unfold unused. cbn [init3 lf_counted lf_buffer lf_in]. auto using ResetOK3_init. Qed.

(* once counted, always the same number, whatever the context *)
Lemma counted_constant : forall F i (st : state3 (QLastFunc i)) cs,
  lf_counted st = true ->
  history F i st cs = map (fun c => Some (SNum (num_of_nat (List.length (lf_buffer st))), c)) cs.
Proof.
  intros F i st cs Hc. induction cs as [|c r IH]; [reflexivity|].
  cbn [history map]. rewrite ev3_lastfunc_eq, Hc. f_equal. exact IH.
Qed.

(** ** The lifetime theorem *)
Theorem lastfunc_lifetime : forall i (wf : m1_supported4 i = true) c1 l,
  SEL i c1 = Val l ->
  exists F0, forall F, F0 <= F -> forall st, unused i st -> forall cs,
    history F i st (c1 :: cs) =
    map (fun c => Some (SNum (num_of_nat (List.length l)), c)) (c1 :: cs).
Proof.
  intros i wf c1 l E. destruct (m1_main4 D has_ns hc rm rn rr i wf) as [HS _].
  destruct (HS c1 l E) as [F0 H0]. exists (Nat.max F0 (S (List.length l))). intros F HF st (Hc & Hb & HR) cs.
  cbn [history map]. rewrite ev3_lastfunc_eq, Hc, Hb.
  destruct (mcollect_spec (S3 F i) (position_of3 i) (depth_of3 i) c1 l F (lf_in st) true c1 []
                          (H0 F ltac:(lia) _ HR) (OK_c c1 true) ltac:(lia)) as (s' & Em).
  rewrite Em. cbn [app].
  assert (Hlen : List.length (nodes_of l) = List.length l) by (unfold nodes_of; apply map_length).
  rewrite Hlen. f_equal.
  rewrite (counted_constant F i (mkLastF (nodes_of l) true s') cs eq_refl). cbn [lf_buffer]. rewrite Hlen.
  reflexivity.
Qed.

(* the list level, for comparison *)
Lemma eval_lastfunc_eq : forall i c,
  EVAL (QLastFunc i) c = do l <- SEL i c; Val (VNum (num_of_nat (List.length l))).
Proof. reflexivity. Qed.

(** ** When do the code and the list level agree?  Exactly when the counts agree. *)
Theorem lastfunc_agrees_iff : forall i (wf : m1_supported4 i = true) c1 l cs,
  SEL i c1 = Val l ->
  (forall c, In c cs -> exists lc, SEL i c = Val lc) ->
  exists F0, forall F, F0 <= F -> forall st, unused i st ->
    (history F i st (c1 :: cs) =
     map (fun c => match EVAL (QLastFunc i) c with
                   | Val (VNum x) => Some (SNum x, c)
                   | _ => None
                   end) (c1 :: cs))
    <->
    (forall c lc, In c cs -> SEL i c = Val lc -> num_of_nat (List.length lc) = num_of_nat (List.length l)).
Proof.
  intros i wf c1 l cs E Hall. destruct (lastfunc_lifetime i wf c1 l E) as [F0 H0]. exists F0.
  intros F HF st Hun. rewrite (H0 F HF st Hun cs). cbn [map]. rewrite eval_lastfunc_eq, E. cbn [obind].
  split.
  - intros H c lc Hin Ec. inversion H as [H1]. clear H.
    induction cs as [|c' r IH]; [destruct Hin|]. cbn [map] in H1. inversion H1 as [[H2 H3]].
    destruct Hin as [<-|Hin].
    + rewrite eval_lastfunc_eq, Ec in H2. cbn [obind] in H2. inversion H2. reflexivity.
    + apply IH; auto. intros c0 Hc0. apply Hall. right. exact Hc0.
  - intros H. f_equal. apply map_ext_in. intros c Hin. destruct (Hall c Hin) as (lc & Ec).
    rewrite eval_lastfunc_eq, Ec. cbn [obind]. rewrite (H c lc Hin Ec). reflexivity.
Qed.

(** ** A context-independent input: code and list level coincide on every history *)
Theorem lastfunc_ctx_free : forall i (wf : m1_supported4 i = true) (cf : ctx_free i) c1 l,
  SEL i c1 = Val l ->
  exists F0, forall F, F0 <= F -> forall st, unused i st -> forall cs,
    history F i st (c1 :: cs) =
    map (fun c => match EVAL (QLastFunc i) c with
                  | Val (VNum x) => Some (SNum x, c)
                  | _ => None
                  end) (c1 :: cs).
Proof.
  intros i wf cf c1 l E. destruct (lastfunc_lifetime i wf c1 l E) as [F0 H0]. exists F0.
  intros F HF st Hun cs. rewrite (H0 F HF st Hun cs). apply map_ext. intros c.
  rewrite eval_lastfunc_eq.
  destruct (absolute_ignores_context D has_ns hc rm rn rr i cf c c1) as [Es _]. rewrite Es, E. reflexivity.
Qed.

(* and then Evaluate of the cursor model is the list-level value at EVERY call of the history *)
Corollary lastfunc_ctx_free_eval : forall i (wf : m1_supported4 i = true) (cf : ctx_free i) c V,
  EVAL (QLastFunc i) c = Val V ->
  exists F0, forall F, F0 <= F -> forall st, unused i st -> forall cs,
    Forall (fun r => exists c', r = Some (match V with VNum x => SNum x | _ => SNil end, c'))
           (history F i st (c :: cs)).
Proof.
  intros i wf cf c V E. rewrite eval_lastfunc_eq in E. apply obind_val_inv' in E. destruct E as (l & El & E).
  inversion E; subst. destruct (lastfunc_lifetime i wf c l El) as [F0 H0]. exists F0. intros F HF st Hun cs.
  rewrite (H0 F HF st Hun cs). apply Forall_forall. intros r Hin. apply in_map_iff in Hin.
  destruct Hin as (c' & <- & _). eauto.
Qed.

End LastFunc.

Print Assumptions lastfunc_lifetime.
Print Assumptions lastfunc_agrees_iff.
Print Assumptions lastfunc_ctx_free.
Print Assumptions lastfunc_ctx_free_eval.

(* ---- Examples (document of AxesSound.Examples) ---- *)
From XP Require Import Api.
Module LastFuncExamples.
Import AxesSound.Examples.
Open Scope string_scope.
Definition hc := hash_code exD.
Definition hist i cs := history exD false hc lit_match lit_numsubexp lit_replace_all 30 i (init3 (QLastFunc i)) cs.
Definition evals i cs := map (fun c => eval exD false hc lit_match lit_numsubexp lit_replace_all (QLastFunc i) c) cs.

(* a context-dependent input: child::node().  <c> has 2 children, <b> 1, <a> 3 *)
Definition kids := QChild any_t QContext.
Example ex_history_stale :
  hist kids [n_c; n_b; n_a] = [Some (SNum (num_of_nat 2), n_c); Some (SNum (num_of_nat 2), n_b); Some (SNum (num_of_nat 2), n_a)] /\
  evals kids [n_c; n_b; n_a] = [Val (VNum (num_of_nat 2)); Val (VNum (num_of_nat 1)); Val (VNum (num_of_nat 3))].
Proof. vm_compute. split; reflexivity. Qed.

(* a context-independent input: /a/node() *)
Definition abs_kids := QChild any_t (QChild any_t QAbsolute).
Example ex_history_ctx_free :
  ctx_free abs_kids /\ m1_supported4 abs_kids = true /\
  hist abs_kids [n_c; n_b; n_a] = [Some (SNum (num_of_nat 3), n_c); Some (SNum (num_of_nat 3), n_b); Some (SNum (num_of_nat 3), n_a)] /\
  evals abs_kids [n_c; n_b; n_a] = [Val (VNum (num_of_nat 3)); Val (VNum (num_of_nat 3)); Val (VNum (num_of_nat 3))].
Proof. split; [repeat constructor|]. vm_compute. repeat split; reflexivity. Qed.
End LastFuncExamples.
