(* main.ml — driver for the extracted model.  Reads a case file, prints one
   result line per case.  Everything semantic (including rendering) is
   extracted Coq; this file only decodes the input format. *)
open Model

let unesc (s : string) : char list =
  if s = "~" then [] else begin
    let b = Buffer.create (String.length s) in
    let n = String.length s in
    let i = ref 0 in
    while !i < n do
      if s.[!i] = '%' && !i + 2 < n + 0 then begin
        Buffer.add_char b (Char.chr (int_of_string ("0x" ^ String.sub s (!i + 1) 2)));
        i := !i + 3
      end else begin Buffer.add_char b s.[!i]; incr i end
    done;
    List.init (Buffer.length b) (Buffer.nth b)
  end

let implode (l : char list) : string =
  let b = Buffer.create 64 in List.iter (Buffer.add_char b) l; Buffer.contents b

let rec nat_of_int (n : int) : nat = if n <= 0 then O else S (nat_of_int (n - 1))

(* N from a non-negative OCaml int / from a hex string *)
let rec pos_of_int (n : int) : positive =
  if n = 1 then XH else if n land 1 = 0 then XO (pos_of_int (n lsr 1)) else XI (pos_of_int (n lsr 1))
let n_of_hex (s : string) : n =
  (* build the positive from bits, most significant first *)
  let bits = ref [] in
  String.iter (fun c ->
    let v = int_of_string ("0x" ^ String.make 1 c) in
    bits := !bits @ [v land 8 <> 0; v land 4 <> 0; v land 2 <> 0; v land 1 <> 0]) s;
  let rec strip = function false :: r -> strip r | l -> l in
  match strip !bits with
  | [] -> N0
  | _ :: rest -> Npos (List.fold_left (fun acc b -> if b then XI acc else XO acc) XH rest)

(* tree tokens: kind pre loc ns data nattrs {apre aloc ans aval}* nkids node* *)
let parse_tree (toks : string array) : tree =
  let pos = ref 0 in
  let next () = let t = toks.(!pos) in incr pos; t in
  let rec node () =
    let k = match next () with "R" -> KRoot | "E" -> KElem | "T" -> KText | "C" -> KComment | x -> failwith ("kind " ^ x) in
    let pre = unesc (next ()) in
    let loc = unesc (next ()) in
    let ns = unesc (next ()) in
    let data = unesc (next ()) in
    let na = int_of_string (next ()) in
    let attrs = List.init na (fun _ ->
      let ap = unesc (next ()) in let al = unesc (next ()) in
      let an = unesc (next ()) in let av = unesc (next ()) in
      { a_prefix = ap; a_local = al; a_ns = an; a_value = av }) in
    let nk = int_of_string (next ()) in
    let kids = List.init nk (fun _ -> node ()) in
    T (k, pre, loc, ns, data, attrs, kids) in
  node ()

(* address: /i.j.k[@a] *)
let parse_addr (s : string) : node =
  let s = String.sub s 1 (String.length s - 1) in
  let path, attr =
    match String.index_opt s '@' with
    | Some i -> String.sub s 0 i, Some (nat_of_int (int_of_string (String.sub s (i + 1) (String.length s - i - 1))))
    | None -> s, None in
  let idx = if path = "" then [] else List.map (fun x -> nat_of_int (int_of_string x)) (String.split_on_char '.' path) in
  { npath = idx; nattr = attr }

let parse_ns (s : string) : (char list * char list) list option =
  if s = "-" then None
  else begin
    let body = String.sub s 1 (String.length s - 1) in
    if body = "" then Some []
    else Some (List.map (fun kv ->
      match String.index_opt kv ':' with
      | Some i -> (unesc (String.sub kv 0 i), unesc (String.sub kv (i + 1) (String.length kv - i - 1)))
      | None -> failwith "nsmap") (String.split_on_char ',' body))
  end

let () =
  let ic = open_in Sys.argv.(1) in
  let docs : (string, tree Lazy.t * bool) Hashtbl.t = Hashtbl.create 64 in
  let out = Buffer.create 65536 in
  (try
    while true do
      let line = input_line ic in
      let f = Array.of_list (String.split_on_char '\t' line) in
      if Array.length f > 0 then begin
        match f.(0) with
        | "D" ->
          let toks = Array.of_list (List.filter (fun x -> x <> "") (String.split_on_char ' ' f.(3))) in
          (* parsed on first use: documents that only go-only cases use are never parsed here *)
          Hashtbl.replace docs f.(1) (lazy (parse_tree toks), f.(2) = "1")
        | "C" ->
          (* C id kind doc ctx ns expr [extra] *)
          let id = f.(1) and kind = f.(2) in
          let res =
            try
              (match kind with
               | "selgo" | "evalgo" | "histgo" | "distinctgo" -> "U:go-only"
               | "sel" | "eval" | "selnm" ->
                 let (dl, hasns) = Hashtbl.find docs f.(3) in let d = Lazy.force dl in
                 let c = parse_addr f.(4) in
                 let ns = parse_ns f.(5) in
                 let e = unesc f.(6) in
                 implode (if kind = "eval" then run_eval d hasns e ns c else run_sel d hasns e ns c)
               | "selall" | "evalall" ->
                 let (dl, hasns) = Hashtbl.find docs f.(3) in let d = Lazy.force dl in
                 let ns = parse_ns f.(5) in
                 let e = unesc f.(6) in
                 implode (if kind = "selall" then run_sel_all d hasns e ns else run_eval_all d hasns e ns)
               | "sel3all" | "eval3all" ->
                 (* the cursor-level model (Model1/Iter3.v) *)
                 let (dl, hasns) = Hashtbl.find docs f.(3) in let d = Lazy.force dl in
                 let ns = parse_ns f.(5) in
                 let e = unesc f.(6) in
                 implode (if kind = "sel3all" then run_sel3_all d hasns e ns else run_eval3_all d hasns e ns)
               | "hist" ->
                 let (dl, hasns) = Hashtbl.find docs f.(3) in let d = Lazy.force dl in
                 let c = parse_addr f.(4) in
                 let ns = parse_ns f.(5) in
                 let e = unesc f.(6) in
                 implode (if f.(7) = "sel" then run_sel d hasns e ns c else run_eval d hasns e ns c)
               | "compile" -> implode (run_compile (unesc f.(6)) (parse_ns f.(5)))
               | "parse" -> implode (run_parse (unesc f.(6)) (parse_ns f.(5)))
               | "qdump" -> implode (run_qdump (unesc f.(6)) (parse_ns f.(5)))
               | "cache" ->
                 let e = implode (unesc f.(6)) in
                 let i = String.index e ':' in
                 let cap = nat_of_int (int_of_string (String.sub e 0 i)) in
                 let rest = String.sub e (i + 1) (String.length e - i - 1) in
                 let ks = if rest = "" then [] else List.map (fun x -> nat_of_int (int_of_string x)) (String.split_on_char ',' rest) in
                 implode (run_cache_str cap ks)
               | "hash" -> let (dl, _) = Hashtbl.find docs f.(3) in let d = Lazy.force dl in implode (run_hash d (parse_addr f.(4)))
               | "nav" -> let (dl, _) = Hashtbl.find docs f.(3) in let d = Lazy.force dl in implode (run_nav d (unesc f.(6)) (parse_addr f.(4)))
               | "num" -> implode (run_num (unesc f.(5)) (unesc f.(6)))
               | "fmt" -> implode (run_fmt (n_of_hex f.(6)))
               | _ -> "?kind")
            with Stack_overflow -> "E:model-stack" | Not_found -> "E:model-nodoc" in
          Buffer.add_string out id; Buffer.add_char out '\t'; Buffer.add_string out res; Buffer.add_char out '\n';
          if Buffer.length out > 60000 then (print_string (Buffer.contents out); Buffer.clear out)
        | _ -> ()
      end
    done
  with End_of_file -> ());
  print_string (Buffer.contents out)
