(* Proofs/IterRefine2.v — the cursor-level model of the remaining node-set
   query types (Model1/Iter2.v) refines the list-level model (Eval.v), and the
   protocol facts, continuing Proofs/IterRefine.v (whose Rep / Good / Stable
   machinery and combinator lemmas are reused).  Summary at the end. *)
From XP Require Import Base F64 Doc Ast Hash Eval.
From XP.Model1 Require Import Iter Iter2.
From XP.Proofs Require Import AxesSound IterRefine.
Open Scope nat_scope.
Open Scope list_scope.

(* ================================================================== *)
(** * 0. Cursor facts: MoveToPrevious, MoveToParent *)

Section Cursor2.
Variable D : tree.

Lemma preceding_unfold : forall n,
  preceding_siblings n = match move_prev n with
                         | None => []
                         | Some m => m :: preceding_siblings m
                         end.
Proof.
  intros n. unfold preceding_siblings at 1. unfold move_prev.
  destruct (nattr n) eqn:Ea; [reflexivity|].
  destruct (last_index (npath n)) as [[|i]|] eqn:El; [reflexivity| |reflexivity].
  unfold preceding_siblings. cbn [nattr npath].
  rewrite last_index_snoc, parent_path_snoc.
  rewrite seq_S. cbn [Nat.add]. rewrite rev_app_distr. reflexivity.
Qed.

Lemma preceding_length : forall n, List.length (preceding_siblings n) < prev_fuel n.
Proof.
  intros n. unfold preceding_siblings, prev_fuel, index_of_node.
  destruct (nattr n); [cbn; lia|].
  destruct (last_index (npath n)); [|cbn; lia].
  rewrite map_length, rev_length, seq_length. lia.
Qed.

Lemma sib_prev_run_spec : forall test fuel nd,
  List.length (preceding_siblings nd) < fuel ->
  match sib_prev_run test fuel nd with
  | Some (Some x, nd') =>
    nd' = x /\ filter test (preceding_siblings nd) = x :: filter test (preceding_siblings x)
  | Some (None, _) => filter test (preceding_siblings nd) = []
  | None => False
  end.
Proof.
  intros test. induction fuel as [|k IH]; intros nd Hlen; [lia|].
  cbn [sib_prev_run]. rewrite (preceding_unfold nd) in *.
  destruct (move_prev nd) as [m|]; [|reflexivity].
  cbn [List.length] in Hlen. cbn [filter].
  destruct (test m) eqn:Et.
  - auto.
  - apply IH. lia.
Qed.

Lemma sib_next_run_spec : forall test fuel nd,
  List.length (following_siblings D nd) < fuel ->
  match sib_next_run D test fuel nd with
  | Some (Some x, nd') =>
    nd' = x /\ filter test (following_siblings D nd) = x :: filter test (following_siblings D x)
  | Some (None, _) => filter test (following_siblings D nd) = []
  | None => False
  end.
Proof.
  intros test. induction fuel as [|k IH]; intros nd Hlen; [lia|].
  cbn [sib_next_run]. rewrite (following_unfold D nd) in *.
  destruct (move_next D nd) as [m|]; [|reflexivity].
  cbn [List.length] in Hlen. cbn [filter].
  destruct (test m) eqn:Et.
  - auto.
  - apply IH. lia.
Qed.

Lemma following_length : forall nd, List.length (following_siblings D nd) < dfuel D.
Proof. intros nd. exact (crest_length D nd false). Qed.

(* MoveToParent enumerates [ancestors] *)
Lemma prefixes_desc_unfold : forall p, p <> [] ->
  prefixes_desc p (List.length p) =
  parent_path p :: prefixes_desc (parent_path p) (List.length (parent_path p)).
Proof.
  intros p Hp. destruct (snoc_cases p) as [->|(q & i & ->)]; [congruence|].
  rewrite parent_path_snoc, app_length. cbn [List.length]. rewrite Nat.add_1_r.
  cbn [prefixes_desc]. destruct (q ++ [i]) eqn:E; [destruct q; discriminate|].
  rewrite <- E, parent_path_snoc. reflexivity.
Qed.

Lemma ancestors_unfold : forall n,
  ancestors n = match move_parent n with
                | None => []
                | Some p => p :: ancestors p
                end.
Proof.
  intros [p [a|]]; unfold ancestors, move_parent; cbn [nattr npath].
  - cbn [map]. reflexivity.
  - destruct p as [|x p']; [reflexivity|].
    rewrite prefixes_desc_unfold by discriminate. cbn [map]. reflexivity.
Qed.

(* depth of a node: an attribute is one below its element *)
Definition depth_of_node (n : node) : nat :=
  List.length (npath n) + match nattr n with Some _ => 1 | None => 0 end.

Lemma move_parent_depth : forall n p, move_parent n = Some p -> S (depth_of_node p) = depth_of_node n.
Proof.
  intros [q [a|]] p; unfold move_parent, depth_of_node; cbn [nattr npath]; intros E.
  - inversion E; subst. cbn [npath nattr]. lia.
  - destruct (snoc_cases q) as [->|(r & i & ->)]; [discriminate|].
    destruct (r ++ [i]) eqn:Eq; [destruct r; discriminate|]. rewrite <- Eq in *.
    injection E as <-. cbn [npath nattr]. rewrite parent_path_snoc, app_length. cbn [List.length]. lia.
Qed.

Lemma ancestors_length : forall n, List.length (ancestors n) = depth_of_node n.
Proof.
  intros n. remember (depth_of_node n) as d eqn:Ed. revert n Ed.
  induction d as [|d IH]; intros n Ed; rewrite ancestors_unfold.
  - destruct (move_parent n) as [p|] eqn:Em; [|reflexivity].
    apply move_parent_depth in Em. lia.
  - destruct (move_parent n) as [p|] eqn:Em.
    + cbn [List.length]. f_equal. apply IH. apply move_parent_depth in Em. lia.
    + exfalso. destruct n as [q [a|]]; unfold move_parent, depth_of_node in *; cbn [nattr npath] in *;
        [discriminate|]. destruct q; [cbn in Ed; lia|discriminate].
Qed.

Lemma depth_lt_climb : forall n, depth_of_node n < climb_fuel n.
Proof. intros n. unfold depth_of_node, climb_fuel. destruct (nattr n); lia. Qed.

Lemma anc_climb_spec : forall test fuel nd,
  List.length (ancestors nd) < fuel ->
  match anc_climb test fuel nd with
  | Some (Some x, nd') => nd' = x /\ filter test (ancestors nd) = x :: filter test (ancestors x)
  | Some (None, _) => filter test (ancestors nd) = []
  | None => False
  end.
Proof.
  intros test. induction fuel as [|k IH]; intros nd Hlen; [lia|].
  cbn [anc_climb]. rewrite (ancestors_unfold nd) in *.
  destruct (move_parent nd) as [m|]; [|reflexivity].
  cbn [List.length] in Hlen. cbn [filter].
  destruct (test m) eqn:Et.
  - auto.
  - apply IH. lia.
Qed.

End Cursor2.

(* ================================================================== *)
(** * 1. followingQuery / precedingQuery with Sibling = true; groupQuery *)

(* list-level steps with the test abstract *)
Definition lfsib (D : tree) (test : node -> bool) (n : node) : list item :=
  numbered (filter test (following_siblings D n)).
Definition lpsib (test : node -> bool) (n : node) : list item :=
  numbered (filter test (preceding_siblings n)).

Section Comb3.
Context {St : Type}.
Variable D : tree.
Variable isel : St -> node -> res St.
Variable ipos ilvl : St -> nat.
Variable c : node.
Variable test : node -> bool.
Variable F : nat.
Notation RepI := (Rep isel ipos ilvl c).
Notation OKc := (OK c).

(** ** followingQuery, Sibling = true *)
Notation fsloop := (iter_loop (fol_body D isel true test)).

Lemma fol_sib_pump_spec : forall (again : fol_st St -> node -> res (fol_st St)) k nd (s : St) cur,
  match filter test (following_siblings D nd) with
  | [] => fol_sib_pump D test again k nd s cur = again (mkFol k FI_none s) cur
  | x :: L =>
    fol_sib_pump D test again k nd s cur = R (Some x) (mkFol (S k) (FI_sib x) s) cur /\
    L = filter test (following_siblings D x)
  end.
Proof.
  intros again k nd s cur. unfold fol_sib_pump.
  pose proof (sib_next_run_spec D test (dfuel D) nd (following_length D nd)) as H.
  destruct (sib_next_run D test (dfuel D) nd) as [[[x|] nd']|].
  - destruct H as (-> & E). rewrite E. split; reflexivity.
  - rewrite H. reflexivity.
  - destruct H.
Qed.

Lemma fsloop_none_S : forall f k s cur o s1,
  isel s cur = R o s1 cur ->
  fsloop (S f) (mkFol k FI_none s) cur =
  match o with
  | None => R None (mkFol 0 FI_none s1) cur
  | Some n => fol_sib_pump D test (fsloop f) 0 n s1 cur
  end.
Proof.
  intros f k s cur o s1 E. cbn [iter_loop]. unfold fol_body at 1. cbn [fo_it fo_in]. rewrite E.
  destruct o; reflexivity.
Qed.

Lemma fsloop_iter_S : forall f k nd s cur,
  fsloop (S f) (mkFol k (FI_sib nd) s) cur = fol_sib_pump D test (fsloop f) k nd s cur.
Proof. intros. reflexivity. Qed.

Definition fsib_post (l0 : list item) (f : nat) (st : fol_st St) (cur : node) (out : list item) : Prop :=
  match out with
  | [] => exists s', fsloop f st cur = R None (mkFol 0 FI_none s') cur /\ RepI false s' []
  | it :: r => exists s' nd l',
      fsloop f st cur = R (Some (it_node it)) (mkFol (it_pos it) (FI_sib nd) s') cur /\
      it_lvl it = 0 /\ RepI false s' l' /\ List.length l' <= List.length l0 /\
      r = number_from (S (it_pos it)) 0 (filter test (following_siblings D nd)) ++ over (lfsib D test) l'
  end.

Lemma fsib_none : forall l f s k b cur, RepI b s l -> OKc b cur -> List.length l < f ->
  fsib_post l f (mkFol k FI_none s) cur (over (lfsib D test) l).
Proof.
  induction l as [|a l IH]; intros f s k b cur HR Hok Hlen; (destruct f as [|f']; [cbn in Hlen; lia|]).
  - cbn [over flat_map fsib_post]. destruct (Rep_nil_step _ _ _ _ _ _ _ HR Hok) as (s' & E & HR').
    exists s'. rewrite (fsloop_none_S _ _ _ _ _ _ E). auto.
  - cbn [Rep] in HR. destruct (HR cur Hok) as (s1 & E & _ & _ & HR1).
    unfold over. cbn [flat_map]. fold (over (lfsib D test) l).
    unfold fsib_post. rewrite (fsloop_none_S _ _ _ _ _ _ E).
    pose proof (fol_sib_pump_spec (fsloop f') 0 (it_node a) s1 cur) as HP.
    unfold lfsib at 1. unfold numbered.
    destruct (filter test (following_siblings D (it_node a))) as [|x L].
    + rewrite HP. cbn [number_from app].
      specialize (IH f' s1 0 false cur HR1 (OK_false c cur) ltac:(cbn in Hlen; lia)). unfold fsib_post in IH.
      destruct (over (lfsib D test) l) as [|it r]; [exact IH|].
      destruct IH as (s' & nd & l' & E' & Hl & HR' & Hlen' & Er).
      exists s', nd, l'. cbn [List.length]. repeat split; auto.
    + destruct HP as (HP & EL). rewrite HP. cbn [number_from app].
      exists s1, x, l. cbn [it_node it_pos it_lvl List.length]. subst L. repeat split; auto.
Qed.

Lemma fsib_iter : forall l f s k nd cur, RepI false s l -> S (List.length l) < f ->
  fsib_post l f (mkFol k (FI_sib nd) s) cur
            (number_from (S k) 0 (filter test (following_siblings D nd)) ++ over (lfsib D test) l).
Proof.
  intros l f s k nd cur HR Hlen. destruct f as [|f']; [lia|].
  unfold fsib_post. rewrite fsloop_iter_S.
  pose proof (fol_sib_pump_spec (fsloop f') k nd s cur) as HP.
  destruct (filter test (following_siblings D nd)) as [|x L].
  - rewrite HP. cbn [number_from app]. apply (fsib_none l f' s k false cur HR (OK_false c cur)). lia.
  - destruct HP as (HP & EL). rewrite HP. cbn [number_from app].
    exists s, x, l. cbn [it_node it_pos it_lvl]. subst L. repeat split; auto.
Qed.

Definition FsibInv (b : bool) (st : fol_st St) (out : list item) : Prop :=
  exists l, RepI b (fo_in st) l /\ (b = true -> fo_it st = FI_none) /\ List.length l + 2 <= F /\
  exists hd, out = hd ++ over (lfsib D test) l /\
    match fo_it st with
    | FI_none => hd = []
    | FI_sib nd => hd = number_from (S (fo_posit st)) 0 (filter test (following_siblings D nd))
    | FI_doc _ _ => False
    end.

Lemma fsib_inv_post : forall b st cur out, FsibInv b st out -> OKc b cur ->
  exists l, List.length l + 2 <= F /\ fsib_post l F st cur out.
Proof.
  intros b [k it s] cur out (l & HR & Hb & Hlen & hd & -> & Hhd) Hok. exists l.
  cbn [fo_in fo_it fo_posit] in *. split; [exact Hlen|].
  destruct it as [|nd|nd q]; [| |destruct Hhd].
  - subst hd. cbn [app]. apply (fsib_none l F s k b cur HR Hok). lia.
  - destruct b; [specialize (Hb eq_refl); discriminate|]. subst hd. apply fsib_iter; [exact HR|lia].
Qed.

Lemma fsib_Rep_inv : forall b st out, FsibInv b st out ->
  Rep (fol_select D isel true test F) fo_posit (fun _ => 0) c b st out.
Proof.
  intros b st out HI. revert b st HI. apply (Rep_of_inv _ _ _ _ FsibInv).
  - intros b st cur HI Hok. destruct (fsib_inv_post _ _ _ _ HI Hok) as (l & Hlen & HP).
    cbn [fsib_post] in HP. destruct HP as (s' & E & HR').
    eexists. split; [exact E|]. exists []. cbn [fo_in fo_it]. split; [exact HR'|].
    split; [discriminate|]. split; [cbn; lia|]. exists []. split; reflexivity.
  - intros b st it r cur HI Hok. destruct (fsib_inv_post _ _ _ _ HI Hok) as (l & Hlen & HP).
    cbn [fsib_post] in HP. destruct HP as (s' & nd & l' & E & Hl & HR' & Hlen' & Er).
    eexists. split; [exact E|]. cbn [fo_posit]. repeat split; auto.
    exists l'. cbn [fo_in fo_it fo_posit]. split; [exact HR'|]. split; [discriminate|]. split; [lia|].
    eexists. split; [exact Er|reflexivity].
Qed.

Lemma fsib_Rep : forall l b s k, RepI b s l -> List.length l + 2 <= F ->
  Rep (fol_select D isel true test F) fo_posit (fun _ => 0) c b (mkFol k FI_none s)
      (over (lfsib D test) l).
Proof.
  intros l b s k HR Hlen. apply fsib_Rep_inv. exists l. cbn [fo_in fo_it]. repeat split; auto.
  exists []. split; reflexivity.
Qed.

(** ** precedingQuery, Sibling = true *)
Notation psloop := (iter_loop (pre_body D isel true test)).

Lemma pre_sib_pump_spec : forall (again : pre_st St -> node -> res (pre_st St)) k nd (s : St) cur,
  match filter test (preceding_siblings nd) with
  | [] => pre_sib_pump test again k nd s cur = again (mkPre k PI_none s) cur
  | x :: L =>
    pre_sib_pump test again k nd s cur = R (Some x) (mkPre (S k) (PI_sib x) s) cur /\
    L = filter test (preceding_siblings x)
  end.
Proof.
  intros again k nd s cur. unfold pre_sib_pump.
  pose proof (sib_prev_run_spec test (prev_fuel nd) nd (preceding_length nd)) as H.
  destruct (sib_prev_run test (prev_fuel nd) nd) as [[[x|] nd']|].
  - destruct H as (-> & E). rewrite E. split; reflexivity.
  - rewrite H. reflexivity.
  - destruct H.
Qed.

Lemma psloop_none_S : forall f k s cur o s1,
  isel s cur = R o s1 cur ->
  psloop (S f) (mkPre k PI_none s) cur =
  match o with
  | None => R None (mkPre 0 PI_none s1) cur
  | Some n => pre_sib_pump test (psloop f) 0 n s1 cur
  end.
Proof.
  intros f k s cur o s1 E. cbn [iter_loop]. unfold pre_body at 1. cbn [pr_it pr_in]. rewrite E.
  destruct o; reflexivity.
Qed.

Lemma psloop_iter_S : forall f k nd s cur,
  psloop (S f) (mkPre k (PI_sib nd) s) cur = pre_sib_pump test (psloop f) k nd s cur.
Proof. intros. reflexivity. Qed.

Definition psib_post (l0 : list item) (f : nat) (st : pre_st St) (cur : node) (out : list item) : Prop :=
  match out with
  | [] => exists s', psloop f st cur = R None (mkPre 0 PI_none s') cur /\ RepI false s' []
  | it :: r => exists s' nd l',
      psloop f st cur = R (Some (it_node it)) (mkPre (it_pos it) (PI_sib nd) s') cur /\
      it_lvl it = 0 /\ RepI false s' l' /\ List.length l' <= List.length l0 /\
      r = number_from (S (it_pos it)) 0 (filter test (preceding_siblings nd)) ++ over (lpsib test) l'
  end.

Lemma psib_none : forall l f s k b cur, RepI b s l -> OKc b cur -> List.length l < f ->
  psib_post l f (mkPre k PI_none s) cur (over (lpsib test) l).
Proof.
  induction l as [|a l IH]; intros f s k b cur HR Hok Hlen; (destruct f as [|f']; [cbn in Hlen; lia|]).
  - cbn [over flat_map psib_post]. destruct (Rep_nil_step _ _ _ _ _ _ _ HR Hok) as (s' & E & HR').
    exists s'. rewrite (psloop_none_S _ _ _ _ _ _ E). auto.
  - cbn [Rep] in HR. destruct (HR cur Hok) as (s1 & E & _ & _ & HR1).
    unfold over. cbn [flat_map]. fold (over (lpsib test) l).
    unfold psib_post. rewrite (psloop_none_S _ _ _ _ _ _ E).
    pose proof (pre_sib_pump_spec (psloop f') 0 (it_node a) s1 cur) as HP.
    unfold lpsib at 1. unfold numbered.
    destruct (filter test (preceding_siblings (it_node a))) as [|x L].
    + rewrite HP. cbn [number_from app].
      specialize (IH f' s1 0 false cur HR1 (OK_false c cur) ltac:(cbn in Hlen; lia)). unfold psib_post in IH.
      destruct (over (lpsib test) l) as [|it r]; [exact IH|].
      destruct IH as (s' & nd & l' & E' & Hl & HR' & Hlen' & Er).
      exists s', nd, l'. cbn [List.length]. repeat split; auto.
    + destruct HP as (HP & EL). rewrite HP. cbn [number_from app].
      exists s1, x, l. cbn [it_node it_pos it_lvl List.length]. subst L. repeat split; auto.
Qed.

Lemma psib_iter : forall l f s k nd cur, RepI false s l -> S (List.length l) < f ->
  psib_post l f (mkPre k (PI_sib nd) s) cur
            (number_from (S k) 0 (filter test (preceding_siblings nd)) ++ over (lpsib test) l).
Proof.
  intros l f s k nd cur HR Hlen. destruct f as [|f']; [lia|].
  unfold psib_post. rewrite psloop_iter_S.
  pose proof (pre_sib_pump_spec (psloop f') k nd s cur) as HP.
  destruct (filter test (preceding_siblings nd)) as [|x L].
  - rewrite HP. cbn [number_from app]. apply (psib_none l f' s k false cur HR (OK_false c cur)). lia.
  - destruct HP as (HP & EL). rewrite HP. cbn [number_from app].
    exists s, x, l. cbn [it_node it_pos it_lvl]. subst L. repeat split; auto.
Qed.

Definition PsibInv (b : bool) (st : pre_st St) (out : list item) : Prop :=
  exists l, RepI b (pr_in st) l /\ (b = true -> pr_it st = PI_none) /\ List.length l + 2 <= F /\
  exists hd, out = hd ++ over (lpsib test) l /\
    match pr_it st with
    | PI_none => hd = []
    | PI_sib nd => hd = number_from (S (pr_posit st)) 0 (filter test (preceding_siblings nd))
    | PI_doc _ _ => False
    end.

Lemma psib_inv_post : forall b st cur out, PsibInv b st out -> OKc b cur ->
  exists l, List.length l + 2 <= F /\ psib_post l F st cur out.
Proof.
  intros b [k it s] cur out (l & HR & Hb & Hlen & hd & -> & Hhd) Hok. exists l.
  cbn [pr_in pr_it pr_posit] in *. split; [exact Hlen|].
  destruct it as [|nd|nd q]; [| |destruct Hhd].
  - subst hd. cbn [app]. apply (psib_none l F s k b cur HR Hok). lia.
  - destruct b; [specialize (Hb eq_refl); discriminate|]. subst hd. apply psib_iter; [exact HR|lia].
Qed.

Lemma psib_Rep_inv : forall b st out, PsibInv b st out ->
  Rep (pre_select D isel true test F) pr_posit (fun _ => 0) c b st out.
Proof.
  intros b st out HI. revert b st HI. apply (Rep_of_inv _ _ _ _ PsibInv).
  - intros b st cur HI Hok. destruct (psib_inv_post _ _ _ _ HI Hok) as (l & Hlen & HP).
    cbn [psib_post] in HP. destruct HP as (s' & E & HR').
    eexists. split; [exact E|]. exists []. cbn [pr_in pr_it]. split; [exact HR'|].
    split; [discriminate|]. split; [cbn; lia|]. exists []. split; reflexivity.
  - intros b st it r cur HI Hok. destruct (psib_inv_post _ _ _ _ HI Hok) as (l & Hlen & HP).
    cbn [psib_post] in HP. destruct HP as (s' & nd & l' & E & Hl & HR' & Hlen' & Er).
    eexists. split; [exact E|]. cbn [pr_posit]. repeat split; auto.
    exists l'. cbn [pr_in pr_it pr_posit]. split; [exact HR'|]. split; [discriminate|]. split; [lia|].
    eexists. split; [exact Er|reflexivity].
Qed.

Lemma psib_Rep : forall l b s k, RepI b s l -> List.length l + 2 <= F ->
  Rep (pre_select D isel true test F) pr_posit (fun _ => 0) c b (mkPre k PI_none s)
      (over (lpsib test) l).
Proof.
  intros l b s k HR Hlen. apply psib_Rep_inv. exists l. cbn [pr_in pr_it]. repeat split; auto.
  exists []. split; reflexivity.
Qed.

(** ** groupQuery *)
Lemma group_Rep : forall l b s k, RepI b s l ->
  Rep (group_select isel) g_posit (fun _ => 0) c b (mkGroup k s) (regroup (S k) l).
Proof.
  intros l b s k HR.
  apply (Rep_of_inv _ _ _ _
           (fun b st out => exists l, RepI b (g_in st) l /\ out = regroup (S (g_posit st)) l)).
  - intros b0 [k0 s0] cur (l0 & HR0 & E0) Hok. cbn [g_in g_posit] in *.
    destruct l0 as [|a l0]; [|discriminate].
    destruct (Rep_nil_step _ _ _ _ _ _ _ HR0 Hok) as (s' & E & HR').
    eexists. unfold group_select. cbn [g_in g_posit]. rewrite E. split; [reflexivity|].
    exists []. cbn [g_in]. split; [exact HR'|reflexivity].
  - intros b0 [k0 s0] it r cur (l0 & HR0 & E0) Hok. cbn [g_in g_posit] in *.
    destruct l0 as [|a l0]; [discriminate|]. cbn [regroup] in E0. inversion E0; subst.
    cbn [Rep] in HR0. destruct (HR0 cur Hok) as (s1 & E & _ & _ & HR1).
    eexists. unfold group_select. cbn [g_in g_posit it_node it_pos it_lvl]. rewrite E.
    split; [reflexivity|]. cbn [g_posit]. repeat split.
    exists l0. cbn [g_in g_posit]. split; [exact HR1|reflexivity].
  - exists l. cbn [g_in g_posit]. auto.
Qed.

End Comb3.

(* ================================================================== *)
(** * 2. ancestorQuery *)

Section AncList.
Variable hcode : node -> N.
Variable test : node -> bool.
Variable self : bool.

(* what the closure still has to offer, before de-duplication *)
Definition araw (nd : node) (first : bool) : list node :=
  filter test ((if andb first self then [nd] else []) ++ ancestors nd).

(* Eval.ancestors_all with the test abstract *)
Fixpoint lanc_all (seen : list N) (inputs : list node) : list node :=
  match inputs with
  | [] => []
  | n :: r =>
    let '(l, seen') := dedup_hash hcode seen (araw n true) in
    l ++ lanc_all seen' r
  end.

Definition aouts (tbl : list N) (hdraw : list node) (l : list item) : list node :=
  let '(K, tbl') := dedup_hash hcode tbl hdraw in K ++ lanc_all tbl' (nodes_of l).

Definition ameasure (nd : node) (first : bool) : nat :=
  (if andb first self then 1 else 0) + List.length (ancestors nd).

Lemma anc_climb_spec' : forall fuel nd,
  List.length (ancestors nd) < fuel ->
  match anc_climb test fuel nd with
  | Some (Some x, nd') => nd' = x /\ filter test (ancestors nd) = x :: filter test (ancestors x) /\
                          List.length (ancestors x) < List.length (ancestors nd)
  | Some (None, _) => filter test (ancestors nd) = []
  | None => False
  end.
Proof.
  induction fuel as [|k IH]; intros nd Hlen; [lia|].
  cbn [anc_climb]. rewrite (ancestors_unfold nd) in *.
  destruct (move_parent nd) as [m|]; [|reflexivity].
  cbn [List.length] in Hlen. cbn [filter List.length].
  destruct (test m) eqn:Et.
  - repeat split; auto.
  - specialize (IH m ltac:(lia)). destruct (anc_climb test k m) as [[[x|] nd']|]; [|exact IH|exact IH].
    destruct IH as (-> & E & Hl). repeat split; auto.
Qed.

Lemma anc_iter_run_spec : forall nd first,
  match anc_iter_run self test nd first with
  | Some (Some x, nd') => nd' = x /\ araw nd first = x :: araw x false /\
                          ameasure x false < ameasure nd first
  | Some (None, _) => araw nd first = []
  | None => False
  end.
Proof.
  intros nd first. unfold anc_iter_run, araw, ameasure.
  assert (Hc : List.length (ancestors nd) < climb_fuel nd).
  { rewrite ancestors_length. apply depth_lt_climb. }
  pose proof (anc_climb_spec' (climb_fuel nd) nd Hc) as HS.
  assert (Hclimb :
    match anc_climb test (climb_fuel nd) nd with
    | Some (Some x, nd') =>
      nd' = x /\ filter test (ancestors nd) = x :: filter test ([] ++ ancestors x) /\
      0 + List.length (ancestors x) < List.length (ancestors nd)
    | Some (None, _) => filter test (ancestors nd) = []
    | None => False
    end).
  { destruct (anc_climb test (climb_fuel nd) nd) as [[[x|] nd']|]; [|exact HS|exact HS].
    destruct HS as (-> & E & Hl). repeat split; auto. }
  destruct first, self; cbn [andb app filter Nat.add]; try exact Hclimb.
  destruct (test nd) eqn:Et.
  - repeat split; auto.
  - destruct (anc_climb test (climb_fuel nd) nd) as [[[x|] nd']|]; [|exact Hclimb|exact Hclimb].
    destruct Hclimb as (-> & E & Hl). cbn [Nat.add] in Hl. repeat split; auto; lia.
Qed.

Lemma anc_dedup_spec : forall fuel nd first tbl,
  ameasure nd first < fuel ->
  match anc_dedup hcode self test fuel nd first tbl with
  | Some (Some x, nd', tbl1) =>
    nd' = x /\
    dedup_hash hcode tbl (araw nd first) =
    (let '(K, t') := dedup_hash hcode tbl1 (araw x false) in (x :: K, t'))
  | Some (None, _, tbl1) => dedup_hash hcode tbl (araw nd first) = ([], tbl1)
  | None => False
  end.
Proof.
  induction fuel as [|k IH]; intros nd first tbl Hm; [lia|].
  cbn [anc_dedup]. pose proof (anc_iter_run_spec nd first) as HI.
  destruct (anc_iter_run self test nd first) as [[[x|] nd']|]; [| |exact HI].
  - destruct HI as (-> & E & Hlt). rewrite E. cbn [dedup_hash].
    destruct (existsb (N.eqb (hcode x)) tbl) eqn:Ex.
    + apply IH. lia.
    + split; reflexivity.
  - rewrite HI. reflexivity.
Qed.

Lemma ameasure_lt : forall nd first, ameasure nd first < S (climb_fuel nd).
Proof.
  intros nd first. unfold ameasure. rewrite ancestors_length.
  pose proof (depth_lt_climb nd). destruct (andb first self); lia.
Qed.

End AncList.

Section AncComb.
Context {St : Type}.
Variable hcode : node -> N.
Variable isel : St -> node -> res St.
Variable ipos ilvl : St -> nat.
Variable c : node.
Variable test : node -> bool.
Variable self : bool.
Variable F : nat.
Notation RepI := (Rep isel ipos ilvl c).
Notation OKc := (OK c).
Notation nloop := (iter_loop (anc_body hcode isel self test)).
Notation ARAW := (araw test self).
Notation LANC := (lanc_all hcode test self).
Notation AOUTS := (aouts hcode test self).

Definition tbl_of (o : option (list N)) : list N := match o with Some m => m | None => [] end.

Lemma anc_pump_spec : forall (again : anc_st St -> node -> res (anc_st St)) nd first tbl (s : St) cur,
  match dedup_hash hcode tbl (ARAW nd first) with
  | ([], tbl') => anc_pump hcode self test again nd first tbl s cur = again (mkAnc NI_none (Some tbl') s) cur
  | (x :: K, tbl') => exists tbl1,
      anc_pump hcode self test again nd first tbl s cur =
      R (Some x) (mkAnc (NI_iter x false) (Some tbl1) s) cur /\
      dedup_hash hcode tbl1 (ARAW x false) = (K, tbl')
  end.
Proof.
  intros again nd first tbl s cur. unfold anc_pump.
  pose proof (anc_dedup_spec hcode test self (S (climb_fuel nd)) nd first tbl (ameasure_lt self nd first)) as H.
  destruct (anc_dedup hcode self test (S (climb_fuel nd)) nd first tbl) as [[[[x|] nd'] tbl1]|].
  - destruct H as (-> & E). rewrite E.
    destruct (dedup_hash hcode tbl1 (ARAW x false)) as [K t'] eqn:ED. exists tbl1. split; [reflexivity|exact ED].
  - rewrite H. reflexivity.
  - destruct H.
Qed.

Lemma nloop_none_S : forall f o s cur r s1,
  isel s cur = R r s1 cur ->
  nloop (S f) (mkAnc NI_none o s) cur =
  match r with
  | None => R None (mkAnc NI_none (Some (tbl_of o)) s1) cur
  | Some n => anc_pump hcode self test (nloop f) n true (tbl_of o) s1 cur
  end.
Proof.
  intros f o s cur r s1 E. cbn [iter_loop]. unfold anc_body at 1. cbn [n_it n_in n_table]. rewrite E.
  destruct r; reflexivity.
Qed.

Lemma nloop_iter_S : forall f o nd first s cur,
  nloop (S f) (mkAnc (NI_iter nd first) o s) cur =
  anc_pump hcode self test (nloop f) nd first (tbl_of o) s cur.
Proof. intros. reflexivity. Qed.

Definition anc_post (l0 : list item) (f : nat) (st : anc_st St) (cur : node) (out : list node) : Prop :=
  match out with
  | [] => exists s' tbl', nloop f st cur = R None (mkAnc NI_none (Some tbl') s') cur /\ RepI false s' []
  | x :: r => exists s' tbl1 l',
      nloop f st cur = R (Some x) (mkAnc (NI_iter x false) (Some tbl1) s') cur /\
      RepI false s' l' /\ List.length l' <= List.length l0 /\
      r = AOUTS tbl1 (ARAW x false) l'
  end.

Lemma anc_none : forall l f s o b cur, RepI b s l -> OKc b cur -> List.length l < f ->
  anc_post l f (mkAnc NI_none o s) cur (LANC (tbl_of o) (nodes_of l)).
Proof.
  induction l as [|a l IH]; intros f s o b cur HR Hok Hlen; (destruct f as [|f']; [cbn in Hlen; lia|]).
  - cbn [nodes_of map lanc_all anc_post]. destruct (Rep_nil_step _ _ _ _ _ _ _ HR Hok) as (s' & E & HR').
    exists s', (tbl_of o). rewrite (nloop_none_S _ _ _ _ _ _ E). auto.
  - cbn [Rep] in HR. destruct (HR cur Hok) as (s1 & E & _ & _ & HR1).
    cbn [nodes_of map lanc_all]. fold (nodes_of l).
    unfold anc_post. rewrite (nloop_none_S _ _ _ _ _ _ E).
    pose proof (anc_pump_spec (nloop f') (it_node a) true (tbl_of o) s1 cur) as HP.
    destruct (dedup_hash hcode (tbl_of o) (ARAW (it_node a) true)) as [[|x K] tbl'].
    + rewrite HP. cbn [app].
      specialize (IH f' s1 (Some tbl') false cur HR1 (OK_false c cur) ltac:(cbn in Hlen; lia)).
      cbn [tbl_of] in IH. unfold anc_post in IH.
      destruct (LANC tbl' (nodes_of l)) as [|y r]; [exact IH|].
      destruct IH as (s' & tbl1 & l' & E' & HR' & Hlen' & Er).
      exists s', tbl1, l'. cbn [List.length]. repeat split; auto.
    + destruct HP as (tbl1 & HP & ED). rewrite HP. cbn [app].
      exists s1, tbl1, l. cbn [List.length]. repeat split; auto.
      unfold aouts. rewrite ED. reflexivity.
Qed.

Lemma anc_iter : forall l f s o nd first cur, RepI false s l -> S (List.length l) < f ->
  anc_post l f (mkAnc (NI_iter nd first) o s) cur (AOUTS (tbl_of o) (ARAW nd first) l).
Proof.
  intros l f s o nd first cur HR Hlen. destruct f as [|f']; [lia|].
  unfold anc_post. rewrite nloop_iter_S.
  pose proof (anc_pump_spec (nloop f') nd first (tbl_of o) s cur) as HP.
  unfold aouts at 1.
  destruct (dedup_hash hcode (tbl_of o) (ARAW nd first)) as [[|x K] tbl'].
  - rewrite HP. cbn [app].
    apply (anc_none l f' s (Some tbl') false cur HR (OK_false c cur)). lia.
  - destruct HP as (tbl1 & HP & ED). rewrite HP. cbn [app].
    exists s, tbl1, l. repeat split; auto. unfold aouts. rewrite ED. reflexivity.
Qed.

Definition AncInv (b : bool) (st : anc_st St) (out : list item) : Prop :=
  exists l, RepI b (n_in st) l /\ (b = true -> n_it st = NI_none) /\ List.length l + 2 <= F /\
    out = unnumbered (match n_it st with
                      | NI_none => LANC (tbl_of (n_table st)) (nodes_of l)
                      | NI_iter nd first => AOUTS (tbl_of (n_table st)) (ARAW nd first) l
                      end).

Lemma anc_inv_post : forall b st cur out, AncInv b st out -> OKc b cur ->
  exists l outn, out = unnumbered outn /\ List.length l + 2 <= F /\ anc_post l F st cur outn.
Proof.
  intros b [it o s] cur out (l & HR & Hb & Hlen & ->) Hok. exists l.
  cbn [n_in n_it n_table] in *. eexists. split; [reflexivity|]. split; [exact Hlen|].
  destruct it as [|nd first].
  - apply (anc_none l F s o b cur HR Hok). lia.
  - destruct b; [specialize (Hb eq_refl); discriminate|]. apply anc_iter; [exact HR|lia].
Qed.

Lemma anc_Rep_inv : forall b st out, AncInv b st out ->
  Rep (anc_select hcode isel self test F) (fun _ => 1) (fun _ => 0) c b st out.
Proof.
  intros b st out HI. revert b st HI. apply (Rep_of_inv _ _ _ _ AncInv).
  - intros b st cur HI Hok. destruct (anc_inv_post _ _ _ _ HI Hok) as (l & outn & Eo & Hlen & HP).
    destruct outn as [|x r]; [|discriminate].
    cbn [anc_post] in HP. destruct HP as (s' & tbl' & E & HR').
    eexists. split; [exact E|]. exists []. cbn [n_in n_it n_table]. split; [exact HR'|].
    split; [discriminate|]. split; [cbn; lia|reflexivity].
  - intros b st it r cur HI Hok. destruct (anc_inv_post _ _ _ _ HI Hok) as (l & outn & Eo & Hlen & HP).
    destruct outn as [|x rn]; [discriminate|]. cbn [unnumbered map] in Eo. inversion Eo; subst.
    cbn [anc_post] in HP. destruct HP as (s' & tbl1 & l' & E & HR' & Hlen' & Er).
    eexists. cbn [it_node it_pos it_lvl]. split; [exact E|]. repeat split; auto.
    exists l'. cbn [n_in n_it n_table tbl_of]. split; [exact HR'|]. split; [discriminate|]. split; [lia|].
    rewrite Er. reflexivity.
Qed.

Lemma anc_Rep : forall l b s, RepI b s l -> List.length l + 2 <= F ->
  Rep (anc_select hcode isel self test F) (fun _ => 1) (fun _ => 0) c b (mkAnc NI_none None s)
      (unnumbered (LANC [] (nodes_of l))).
Proof.
  intros l b s HR Hlen. apply anc_Rep_inv. exists l. cbn [n_in n_it n_table tbl_of]. repeat split; auto.
Qed.

End AncComb.

(* ================================================================== *)
(** * 3. unionQuery and mergeQuery *)

Lemma skipn_nth_some : forall (l : list node) i x, nth_error l i = Some x -> skipn i l = x :: skipn (S i) l.
Proof.
  induction l as [|y l IH]; intros [|i] x E; cbn in E; try discriminate.
  - inversion E. reflexivity.
  - cbn [skipn]. apply IH in E. rewrite E. reflexivity.
Qed.
Lemma skipn_nth_none : forall (l : list node) i, nth_error l i = None -> skipn i l = [].
Proof.
  induction l as [|y l IH]; intros [|i] E; cbn in E; try discriminate; try reflexivity.
  cbn [skipn]. apply IH. exact E.
Qed.

Section DedupFacts.
Variable hcode : node -> N.

Lemma dedup_hash_app : forall a b m,
  dedup_hash hcode m (a ++ b) =
  (let '(ka, m1) := dedup_hash hcode m a in
   let '(kb, m2) := dedup_hash hcode m1 b in (ka ++ kb, m2)).
Proof.
  induction a as [|x a IH]; intros b m.
  - cbn [app dedup_hash]. destruct (dedup_hash hcode m b) as [kb m2]. reflexivity.
  - cbn [app dedup_hash]. destruct (existsb (N.eqb (hcode x)) m).
    + apply IH.
    + rewrite IH. destruct (dedup_hash hcode (hcode x :: m) a) as [ka m1].
      destruct (dedup_hash hcode m1 b) as [kb m2]. reflexivity.
Qed.

Lemma ucollect_spec : forall {X} (sel : X -> node -> res X) pos lvl c l fuel s b cur m acc,
  Rep sel pos lvl c b s l -> OK c b cur -> List.length l < fuel ->
  exists s', ucollect hcode sel fuel s cur m acc =
             Some (snd (dedup_hash hcode m (nodes_of l)),
                   acc ++ fst (dedup_hash hcode m (nodes_of l)), s', cur) /\
             Rep sel pos lvl c false s' [].
Proof.
  intros X sel pos lvl c. induction l as [|a l IH]; intros fuel s b cur m acc HR Hok Hlen;
    (destruct fuel as [|k]; [cbn in Hlen; lia|]).
  - destruct (Rep_nil_step _ _ _ _ _ _ _ HR Hok) as (s' & E & HR').
    exists s'. cbn [ucollect]. rewrite E. cbn [nodes_of map dedup_hash fst snd]. rewrite app_nil_r. auto.
  - cbn [Rep] in HR. destruct (HR cur Hok) as (s1 & E & _ & _ & HR1).
    cbn [ucollect]. rewrite E. cbn [nodes_of map dedup_hash]. fold (nodes_of l).
    destruct (existsb (N.eqb (hcode (it_node a))) m).
    + apply (IH k s1 false cur m acc HR1 (OK_false c cur)). cbn in Hlen. lia.
    + destruct (IH k s1 false cur (hcode (it_node a) :: m) (acc ++ [it_node a]) HR1 (OK_false c cur)
                   ltac:(cbn in Hlen; lia)) as (s' & Eu & HR').
      exists s'. rewrite Eu.
      destruct (dedup_hash hcode (hcode (it_node a) :: m) (nodes_of l)) as [r' m']. cbn [fst snd].
      rewrite <- app_assoc. auto.
Qed.

End DedupFacts.

Section UnionComb.
Context {L R' : Type}.
Variable hcode : node -> N.
Variable lsel : L -> node -> res L.
Variable lpos llvl : L -> nat.
Variable rsel : R' -> node -> res R'.
Variable rpos rlvl : R' -> nat.
Variable c : node.
Variable F : nat.

Definition UnionInv (b : bool) (st : union_st L R') (out : list item) : Prop :=
  match u_it st with
  | LI_none => exists l1 l2,
      Rep lsel lpos llvl c b (u_l st) l1 /\ Rep rsel rpos rlvl c b (u_r st) l2 /\
      List.length l1 < F /\ List.length l2 < F /\
      out = unnumbered (fst (dedup_hash hcode [] (nodes_of l1 ++ nodes_of l2)))
  | LI_iter lst i => out = unnumbered (skipn i lst)
  end.

Lemma union_step : forall b st cur out, UnionInv b st out -> OK c b cur ->
  match out with
  | [] => exists st', union_select hcode lsel rsel F st cur = R None st' cur /\ UnionInv false st' []
  | it :: r => exists st', union_select hcode lsel rsel F st cur = R (Some (it_node it)) st' cur /\
                           it_pos it = 1 /\ it_lvl it = 0 /\ UnionInv false st' r
  end.
Proof.
  intros b [it sl sr] cur out HI Hok. unfold UnionInv in HI. cbn [u_it u_l u_r] in HI.
  assert (Hiter : forall lst i sl sr, out = unnumbered (skipn i lst) ->
    match out with
    | [] => exists st', (let '(o, i') := list_next lst i in
                         R o (mkUnion (LI_iter lst i') sl sr) cur) = R None st' cur /\ UnionInv false st' []
    | it :: r => exists st', (let '(o, i') := list_next lst i in
                              R o (mkUnion (LI_iter lst i') sl sr) cur) = R (Some (it_node it)) st' cur /\
                             it_pos it = 1 /\ it_lvl it = 0 /\ UnionInv false st' r
    end).
  { intros lst i sl0 sr0 Eo. unfold list_next. destruct (nth_error lst i) as [x|] eqn:En.
    - rewrite (skipn_nth_some _ _ _ En) in Eo. subst out. cbn [unnumbered map it_node it_pos it_lvl].
      eexists. split; [reflexivity|]. repeat split.
    - rewrite (skipn_nth_none _ _ En) in Eo. subst out. cbn [unnumbered map].
      eexists. split; [reflexivity|]. unfold UnionInv. cbn [u_it]. rewrite (skipn_nth_none _ _ En). reflexivity. }
  destruct it as [|lst i].
  - destruct HI as (l1 & l2 & HR1 & HR2 & Hl1 & Hl2 & Eo).
    unfold union_select. cbn [u_it u_l u_r].
    destruct (ucollect_spec hcode lsel lpos llvl c l1 F sl b cur [] [] HR1 Hok Hl1) as (sl' & E1 & _).
    rewrite E1. cbn [app].
    destruct (ucollect_spec hcode rsel rpos rlvl c l2 F sr b cur
                (snd (dedup_hash hcode [] (nodes_of l1))) (fst (dedup_hash hcode [] (nodes_of l1)))
                HR2 Hok Hl2) as (sr' & E2 & _).
    rewrite E2. apply Hiter. rewrite Eo, dedup_hash_app.
    destruct (dedup_hash hcode [] (nodes_of l1)) as [ka m1]. cbn [fst snd].
    destruct (dedup_hash hcode m1 (nodes_of l2)) as [kb m2]. reflexivity.
  - unfold union_select. cbn [u_it u_l u_r]. apply Hiter. exact HI.
Qed.

Lemma union_Rep_inv : forall b st out, UnionInv b st out ->
  Rep (union_select hcode lsel rsel F) (fun _ => 1) (fun _ => 0) c b st out.
Proof.
  intros b st out HI. revert b st HI. apply (Rep_of_inv _ _ _ _ UnionInv).
  - intros b st cur HI Hok. exact (union_step b st cur [] HI Hok).
  - intros b st it r cur HI Hok. destruct (union_step b st cur (it :: r) HI Hok) as (st' & E & Hp & Hl & HI').
    exists st'. repeat split; auto.
Qed.

Lemma union_Rep : forall l1 l2 b sl sr,
  Rep lsel lpos llvl c b sl l1 -> Rep rsel rpos rlvl c b sr l2 ->
  List.length l1 < F -> List.length l2 < F ->
  Rep (union_select hcode lsel rsel F) (fun _ => 1) (fun _ => 0) c b (mkUnion LI_none sl sr)
      (unnumbered (fst (dedup_hash hcode [] (nodes_of l1 ++ nodes_of l2)))).
Proof.
  intros l1 l2 b sl sr H1 H2 Hl1 Hl2. apply union_Rep_inv. unfold UnionInv. cbn [u_it u_l u_r].
  exists l1, l2. auto.
Qed.

End UnionComb.

Section MergeComb.
Context {St C : Type}.
Variable isel : St -> node -> res St.
Variable ipos ilvl : St -> nat.
Variable csel : C -> node -> res C.
Variable cpos clvl : C -> nat.
Variable ceval : C -> C.
Variable c : node.
Variable F : nat.
Notation RepI := (Rep isel ipos ilvl c).
Notation OKc := (OK c).

(* what the child delivers from a context node, and for which context nodes we know it *)
Variable Lc : node -> list item.
Variable P : node -> Prop.
Hypothesis HCh : forall n, P n -> forall sc,
  Rep csel cpos clvl n true (ceval sc) (Lc n) /\ List.length (Lc n) < F.

Lemma mcollect_spec : forall c' l fuel s b cur acc,
  Rep csel cpos clvl c' b s l -> OK c' b cur -> List.length l < fuel ->
  exists s', mcollect csel fuel s cur acc = Some (acc ++ nodes_of l, s', cur).
Proof.
  intros c'. induction l as [|a l IH]; intros fuel s b cur acc HR Hok Hlen;
    (destruct fuel as [|k]; [cbn in Hlen; lia|]).
  - destruct (Rep_nil_step _ _ _ _ _ _ _ HR Hok) as (s' & E & HR').
    exists s'. cbn [mcollect]. rewrite E. cbn [nodes_of map]. rewrite app_nil_r. reflexivity.
  - cbn [Rep] in HR. destruct (HR cur Hok) as (s1 & E & _ & _ & HR1).
    cbn [mcollect]. rewrite E.
    destruct (IH k s1 false cur (acc ++ [it_node a]) HR1 (OK_false c' cur) ltac:(cbn in Hlen; lia))
      as (s' & Em).
    exists s'. rewrite Em. cbn [nodes_of map]. rewrite <- app_assoc. reflexivity.
Qed.

Definition mlist (l : list item) : list node := flat_map (fun it => nodes_of (Lc (it_node it))) l.
Definition PI (l : list item) : Prop := Forall (fun it => P (it_node it)) l.
Notation mloop := (iter_loop (merge_body isel csel ceval F)).

Lemma mloop_none_S : forall f s ch cur o s1,
  isel s cur = R o s1 cur ->
  mloop (S f) (mkMerge LI_none s ch) cur =
  match o with
  | None => R None (mkMerge LI_none s1 ch) cur
  | Some root =>
    match mcollect csel F (ceval ch) root [] with
    | None => Stuck
    | Some (lst, ch2, _) => merge_pump (mloop f) lst 0 s1 ch2 cur
    end
  end.
Proof.
  intros f s ch cur o s1 E. cbn [iter_loop]. unfold merge_body at 1, merge_body_gen.
  cbn [m_it m_in m_ch]. rewrite E. destruct o; [|reflexivity].
  destruct (mcollect csel F (ceval ch) n []) as [[[lst ch2] cur2]|]; reflexivity.
Qed.

Lemma mloop_iter_S : forall f lst i s ch cur,
  mloop (S f) (mkMerge (LI_iter lst i) s ch) cur = merge_pump (mloop f) lst i s ch cur.
Proof. intros. reflexivity. Qed.

Definition merge_post (l0 : list item) (f : nat) (st : merge_st St C) (cur : node) (out : list node) : Prop :=
  match out with
  | [] => exists s' ch', mloop f st cur = R None (mkMerge LI_none s' ch') cur /\ RepI false s' []
  | x :: r => exists s' ch' lst i l',
      mloop f st cur = R (Some x) (mkMerge (LI_iter lst i) s' ch') cur /\
      RepI false s' l' /\ PI l' /\ List.length l' <= List.length l0 /\
      r = skipn i lst ++ mlist l'
  end.

Lemma merge_none : forall l f s ch b cur, RepI b s l -> PI l -> OKc b cur -> List.length l < f ->
  merge_post l f (mkMerge LI_none s ch) cur (mlist l).
Proof.
  induction l as [|a l IH]; intros f s ch b cur HR HP Hok Hlen; (destruct f as [|f']; [cbn in Hlen; lia|]).
  - cbn [mlist flat_map merge_post]. destruct (Rep_nil_step _ _ _ _ _ _ _ HR Hok) as (s' & E & HR').
    exists s', ch. rewrite (mloop_none_S _ _ _ _ _ _ E). auto.
  - cbn [Rep] in HR. destruct (HR cur Hok) as (s1 & E & _ & _ & HR1).
    inversion HP as [|? ? Pa HPl]; subst.
    unfold mlist. cbn [flat_map]. fold (mlist l).
    unfold merge_post. rewrite (mloop_none_S _ _ _ _ _ _ E).
    destruct (HCh _ Pa ch) as [HRc Hlc].
    destruct (mcollect_spec (it_node a) (Lc (it_node a)) F (ceval ch) true (it_node a) []
                            HRc (OK_c _ true) Hlc) as (ch2 & Em).
    rewrite Em. cbn [app]. unfold merge_pump, list_next.
    destruct (nodes_of (Lc (it_node a))) as [|x lst'] eqn:El.
    + cbn [nth_error app].
      specialize (IH f' s1 ch2 false cur HR1 HPl (OK_false c cur) ltac:(cbn in Hlen; lia)).
      unfold merge_post in IH.
      destruct (mlist l) as [|y r]; [exact IH|].
      destruct IH as (s' & ch' & lst & i & l' & E' & HR' & HP' & Hlen' & Er).
      exists s', ch', lst, i, l'. cbn [List.length]. repeat split; auto.
    + cbn [nth_error app]. exists s1, ch2, (x :: lst'), 1, l. cbn [List.length skipn]. repeat split; auto.
Qed.

Lemma merge_iter : forall l f s ch lst i cur, RepI false s l -> PI l -> S (List.length l) < f ->
  merge_post l f (mkMerge (LI_iter lst i) s ch) cur (skipn i lst ++ mlist l).
Proof.
  intros l f s ch lst i cur HR HP Hlen. destruct f as [|f']; [lia|].
  unfold merge_post. rewrite mloop_iter_S. unfold merge_pump, list_next.
  destruct (nth_error lst i) as [x|] eqn:En.
  - rewrite (skipn_nth_some _ _ _ En). cbn [app]. exists s, ch, lst, (S i), l. repeat split; auto.
  - rewrite (skipn_nth_none _ _ En). cbn [app].
    apply (merge_none l f' s ch false cur HR HP (OK_false c cur)). lia.
Qed.

Definition mhead (st : merge_st St C) : list node :=
  match m_it st with LI_none => [] | LI_iter lst i => skipn i lst end.

Definition MergeInv (b : bool) (st : merge_st St C) (out : list item) : Prop :=
  exists l, RepI b (m_in st) l /\ PI l /\ (b = true -> m_it st = LI_none) /\ List.length l + 2 <= F /\
            out = unnumbered (mhead st ++ mlist l).

Lemma merge_inv_post : forall b st cur out, MergeInv b st out -> OKc b cur ->
  exists l outn, out = unnumbered outn /\ List.length l + 2 <= F /\ merge_post l F st cur outn.
Proof.
  intros b [it s ch] cur out (l & HR & HP & Hb & Hlen & ->) Hok. exists l.
  unfold mhead. cbn [m_in m_it m_ch] in *. eexists. split; [reflexivity|]. split; [exact Hlen|].
  destruct it as [|lst i].
  - cbn [app]. apply (merge_none l F s ch b cur HR HP Hok). lia.
  - destruct b; [specialize (Hb eq_refl); discriminate|]. apply merge_iter; auto. lia.
Qed.

Lemma merge_Rep_inv : forall b st out, MergeInv b st out ->
  Rep (merge_select isel csel ceval F) (fun _ => 1) (fun _ => 0) c b st out.
Proof.
  intros b st out HI. revert b st HI. apply (Rep_of_inv _ _ _ _ MergeInv).
  - intros b st cur HI Hok. destruct (merge_inv_post _ _ _ _ HI Hok) as (l & outn & Eo & Hlen & HP).
    destruct outn as [|x r]; [|discriminate].
    cbn [merge_post] in HP. destruct HP as (s' & ch' & E & HR').
    eexists. split; [exact E|]. exists []. unfold mhead. cbn [m_in m_it]. split; [exact HR'|].
    split; [constructor|]. split; [discriminate|]. split; [cbn; lia|reflexivity].
  - intros b st it r cur HI Hok. destruct (merge_inv_post _ _ _ _ HI Hok) as (l & outn & Eo & Hlen & HP).
    destruct outn as [|x rn]; [discriminate|]. cbn [unnumbered map] in Eo. inversion Eo; subst.
    cbn [merge_post] in HP. destruct HP as (s' & ch' & lst & i & l' & E & HR' & HP' & Hlen' & Er).
    eexists. cbn [it_node it_pos it_lvl]. split; [exact E|]. repeat split; auto.
    exists l'. unfold mhead. cbn [m_in m_it]. split; [exact HR'|]. split; [exact HP'|].
    split; [discriminate|]. split; [lia|]. rewrite Er. reflexivity.
Qed.

Lemma merge_Rep : forall l b s ch, RepI b s l -> PI l -> List.length l + 2 <= F ->
  Rep (merge_select isel csel ceval F) (fun _ => 1) (fun _ => 0) c b (mkMerge LI_none s ch)
      (unnumbered (mlist l)).
Proof.
  intros l b s ch HR HP Hlen. apply merge_Rep_inv. exists l. unfold mhead. cbn [m_in m_it app].
  repeat split; auto.
Qed.

End MergeComb.

(* ================================================================== *)
(** * 4. following:: and preceding:: (Sibling = false): list level *)

(* zero_lvl / zero_item: Eval.v *)

Section DocAxesList.
Variable D : tree.
Variable test : node -> bool.

(* Eval.step_following with the test abstract -- and with level 0: followingQuery
   has no depth() method, so getNodeDepth is 0 whatever the inner descendantQuery says *)
Definition lfol_raw (n : node) : list item :=
  (match nattr n with
   | Some _ => ldesc D test false (mkNode (npath n) None)
   | None => []
   end)
  ++ flat_map (fun a => flat_map (fun s => ldesc D test true s) (following_siblings D a))
              (self_and_ancestors n).
Definition lfol (n : node) : list item := zero_lvl (lfol_raw n).

(* Eval.step_preceding with the test abstract *)
Definition lpre (n : node) : list item :=
  flat_map (fun a =>
              numbered (flat_map (fun s => filter test (desc_or_self D s)) (preceding_siblings a)))
           (self_and_ancestors n).
End DocAxesList.

(* ================================================================== *)
(** * 4a. following:: (Sibling = false): the walk *)

Lemma last_index_inv : forall p i, last_index p = Some i -> p = parent_path p ++ [i].
Proof.
  intros p i E. destruct (snoc_cases p) as [->|(q & j & ->)]; [discriminate|].
  rewrite last_index_snoc in E. inversion E; subst. rewrite parent_path_snoc. reflexivity.
Qed.

Lemma node_type_attr : forall D n,
  ntype_eqb (node_type D n) NTAttr = match nattr n with Some _ => true | None => false end.
Proof.
  intros D n. unfold node_type. destruct (nattr n); [reflexivity|].
  destruct (node_tree D n) as [s|]; [destruct (t_kind s)|]; reflexivity.
Qed.

Section DocWalk.
Variable D : tree.
Variable test : node -> bool.

Lemma move_next_parent : forall x s, move_next D x = Some s -> move_parent s = move_parent x.
Proof.
  intros [p [a|]] s; unfold move_next; cbn [nattr npath]; [discriminate|].
  destruct (last_index p) as [i|] eqn:El; [|discriminate].
  destruct (Nat.ltb _ _); [|discriminate]. intros E; inversion E; subst.
  pose proof (last_index_inv _ _ El) as Hp. set (pp := parent_path p) in *. clearbody pp. subst p.
  rewrite !move_parent_snoc. reflexivity.
Qed.

Lemma move_prev_parent : forall x m, move_prev x = Some m -> move_parent m = move_parent x.
Proof.
  intros [p [a|]] m; unfold move_prev; cbn [nattr npath]; [discriminate|].
  destruct (last_index p) as [[|i]|] eqn:El; try discriminate. intros E; inversion E; subst.
  pose proof (last_index_inv _ _ El) as Hp. set (pp := parent_path p) in *. clearbody pp. subst p.
  rewrite !move_parent_snoc. reflexivity.
Qed.

Lemma sib_anc_next : forall x s, move_next D x = Some s -> ancestors s = ancestors x.
Proof. intros x s E. rewrite (ancestors_unfold s), (ancestors_unfold x), (move_next_parent _ _ E). reflexivity. Qed.
Lemma sib_anc_prev : forall x m, move_prev x = Some m -> ancestors m = ancestors x.
Proof. intros x m E. rewrite (ancestors_unfold m), (ancestors_unfold x), (move_prev_parent _ _ E). reflexivity. Qed.

(* for x and then each of its ancestors, g of the following siblings *)
Definition FRg {A} (g : node -> list A) (x : node) : list A :=
  flat_map (fun a => flat_map g (following_siblings D a)) (x :: ancestors x).

Lemma FRg_unfold : forall {A} (g : node -> list A) x,
  FRg g x = match move_next D x with
            | Some s => g s ++ FRg g s
            | None => match move_parent x with Some p => FRg g p | None => [] end
            end.
Proof.
  intros A g x. unfold FRg. cbn [flat_map]. rewrite (following_unfold D x).
  destruct (move_next D x) as [s|] eqn:En.
  - cbn [flat_map]. rewrite (sib_anc_next _ _ En), <- app_assoc. reflexivity.
  - cbn [flat_map app]. rewrite (ancestors_unfold x). destruct (move_parent x); reflexivity.
Qed.

Definition nsub (x : node) : nat := List.length (FRg (fun s => [s]) x).

Lemma fol_advance_spec : forall fuel x, depth_of_node x < fuel ->
  match fol_advance D fuel x with
  | A_ok s => (forall A (g : node -> list A), FRg g x = g s ++ FRg g s)
  | A_nil _ => (forall A (g : node -> list A), FRg g x = [])
  | A_stuck => False
  end.
Proof.
  induction fuel as [|k IH]; intros x Hd; [lia|]. cbn [fol_advance].
  destruct (move_next D x) as [s|] eqn:En.
  - intros A g. rewrite (FRg_unfold g x), En. reflexivity.
  - destruct (move_parent x) as [p|] eqn:Ep.
    + pose proof (move_parent_depth _ _ Ep) as Hdp. specialize (IH p ltac:(lia)).
      destruct (fol_advance D k p) as [|nd|nd]; [exact IH| |];
        intros A g; rewrite (FRg_unfold g x), En, Ep; apply IH.
    + intros A g. rewrite (FRg_unfold g x), En, Ep. reflexivity.
Qed.

Lemma flat_map_length_le : forall {A B} (f : A -> list B) K l,
  (forall a, List.length (f a) <= K) -> List.length (flat_map f l) <= List.length l * K.
Proof.
  intros A B f K l H. induction l as [|a l IH]; cbn [flat_map List.length]; [lia|].
  rewrite app_length. specialize (H a). lia.
Qed.

Lemma nsub_bound : forall x, nsub x + 2 <= fol_fuel D x.
Proof.
  intros x. unfold nsub, FRg, fol_fuel.
  pose proof (flat_map_length_le (fun a => flat_map (fun s => [s]) (following_siblings D a)) (tsize D)
                                 (x :: ancestors x)) as H.
  assert (Hk : forall a, List.length (flat_map (fun s => [s]) (following_siblings D a)) <= tsize D).
  { intros a. pose proof (flat_map_length_le (fun s : node => [s]) 1 (following_siblings D a) (fun _ => le_n _)).
    pose proof (following_length D a). unfold dfuel in *. lia. }
  specialize (H Hk). cbn [List.length] in H. rewrite ancestors_length in H.
  pose proof (depth_lt_climb x) as Hd.
  assert (H2 : S (depth_of_node x) * tsize D <= climb_fuel x * tsize D) by (apply Nat.mul_le_mono_r; lia).
  assert (H3 : 2 <= climb_fuel x) by (unfold climb_fuel; lia).
  unfold dfuel. rewrite Nat.mul_succ_r. lia.
Qed.

(* ---- the inner descendantQuery over a contextQuery ---- *)
Notation RepInner self := (Rep (inner_desc_select D self test) d_posit d_level).

Lemma inner_init_Rep : forall self nd, RepInner self nd true inner_desc_init (ldesc D test self nd).
Proof.
  intros self nd.
  pose proof (desc_Rep D ctx_select (fun _ => 1) (fun _ => 0) nd test 3 self [mkItem nd 1 0] true 0 0 0
                       (ctx_Rep nd) ltac:(cbn; lia)) as H.
  rewrite over_single in H. exact H.
Qed.

(* one call q.Select(...) with t.Current() = nd *)
Lemma inner_step : forall self nd b qs L, RepInner self nd b qs L ->
  match L with
  | [] => exists qs' cur', inner_desc_select D self test qs nd = R None qs' cur'
  | it :: r => exists qs' cur', inner_desc_select D self test qs nd = R (Some (it_node it)) qs' cur' /\
                                d_posit qs' = it_pos it /\ RepInner self nd false qs' r
  end.
Proof.
  intros self nd b qs L HR. destruct L as [|it r].
  - destruct (Rep_nil_step _ _ _ _ _ _ _ HR (OK_c nd b)) as (qs' & E & _). eauto.
  - cbn [Rep] in HR. destruct (HR nd (OK_c nd b)) as (qs' & E & Hp & _ & HR'). eauto 6.
Qed.

(* what the closure of followingQuery still has to offer *)
Definition SD (s : node) : list item := ldesc D test true s.
Definition FR (x : node) : list item := FRg SD x.

Definition DocHead (nd : node) (q : option (bool * desc_st nat)) (hd : list item) : Prop :=
  match q with
  | None => hd = zero_lvl (FR nd)
  | Some (self, qs) => exists b L, RepInner self nd b qs L /\ hd = zero_lvl (L ++ FR nd)
  end.

Definition fol_run_post (r0 : option (option node * node * option (bool * desc_st nat) * nat))
           (posit : nat) (hd : list item) : Prop :=
  match hd with
  | [] => exists nd', r0 = Some (None, nd', None, posit)
  | it :: r => exists nd' q', r0 = Some (Some (it_node it), nd', q', it_pos it) /\
                              it_lvl it = 0 /\ DocHead nd' q' r
  end.

Lemma fol_run_go : forall k nd1 self qs posit b L rest,
  RepInner self nd1 b qs L ->
  (L = [] -> fol_run_post (fol_doc_run D test k nd1 None posit) posit (zero_lvl rest)) ->
  rest = FR nd1 ->
  fol_run_post
    (match inner_desc_select D self test qs nd1 with
     | Stuck => None
     | R (Some n) qs' _ => Some (Some n, nd1, Some (self, qs'), d_posit qs')
     | R None _ _ => fol_doc_run D test k nd1 None posit
     end) posit (zero_lvl (L ++ rest)).
Proof.
  intros k nd1 self qs posit b L rest HR Hnil ->. pose proof (inner_step self nd1 b qs L HR) as HS.
  destruct L as [|it r].
  - destruct HS as (qs' & cur' & E). rewrite E. cbn [app]. apply Hnil. reflexivity.
  - destruct HS as (qs' & cur' & E & Hp & HR'). rewrite E. cbn [app map fol_run_post zero_lvl zero_item it_node it_pos it_lvl].
    exists nd1, (Some (self, qs')). rewrite Hp. repeat split; auto.
    cbn [DocHead]. exists false, r. auto.
Qed.

Lemma fol_run_none : forall fuel nd posit, nsub nd < fuel ->
  fol_run_post (fol_doc_run D test fuel nd None posit) posit (zero_lvl (FR nd)).
Proof.
  induction fuel as [|k IH]; intros nd posit Hn; [lia|]. cbn [fol_doc_run].
  pose proof (fol_advance_spec (climb_fuel nd) nd (depth_lt_climb nd)) as HA.
  destruct (fol_advance D (climb_fuel nd) nd) as [|nd'|s]; [destruct HA| |].
  - unfold FR. rewrite (HA _ SD). cbn [zero_lvl map fol_run_post]. eauto.
  - unfold FR at 1. rewrite (HA _ SD). fold (FR s).
    apply (fol_run_go k s true inner_desc_init posit true (SD s) (FR s) (inner_init_Rep true s)); [|reflexivity].
    intros _. apply IH. unfold nsub in *. rewrite (HA _ (fun s => [s])) in Hn. cbn [app List.length] in Hn. lia.
Qed.

Lemma fol_run_some : forall fuel nd self qs posit b L, RepInner self nd b qs L -> S (nsub nd) < fuel ->
  fol_run_post (fol_doc_run D test fuel nd (Some (self, qs)) posit) posit (zero_lvl (L ++ FR nd)).
Proof.
  intros fuel nd self qs posit b L HR Hn. destruct fuel as [|k]; [lia|]. cbn [fol_doc_run].
  apply (fol_run_go k nd self qs posit b L (FR nd) HR); [|reflexivity].
  intros _. apply fol_run_none. lia.
Qed.

Lemma fol_run_spec : forall nd q posit hd, DocHead nd q hd ->
  fol_run_post (fol_doc_run D test (fol_fuel D nd) nd q posit) posit hd.
Proof.
  intros nd q posit hd HD. pose proof (nsub_bound nd) as Hb. destruct q as [[self qs]|]; cbn [DocHead] in HD.
  - destruct HD as (b & L & HR & ->). apply (fol_run_some _ nd self qs posit b L HR). lia.
  - subst hd. apply fol_run_none. lia.
Qed.

(* the list-level step, from the start states of the closure *)
Lemma lfol_start : forall n,
  DocHead (if ntype_eqb (node_type D n) NTAttr
           then match move_parent n with Some p => p | None => n end else n)
          (if ntype_eqb (node_type D n) NTAttr then Some (false, inner_desc_init) else None)
          (lfol D test n).
Proof.
  intros n. rewrite node_type_attr. unfold lfol, lfol_raw, self_and_ancestors.
  destruct n as [p [a|]]; cbn [nattr npath].
  - unfold move_parent. cbn [nattr npath DocHead].
    exists true, (ldesc D test false (mkNode p None)). split; [apply inner_init_Rep|reflexivity].
  - cbn [DocHead app]. reflexivity.
Qed.

End DocWalk.

Section FdocComb.
Context {St : Type}.
Variable D : tree.
Variable isel : St -> node -> res St.
Variable ipos ilvl : St -> nat.
Variable c : node.
Variable test : node -> bool.
Variable F : nat.
Notation RepI := (Rep isel ipos ilvl c).
Notation OKc := (OK c).
Notation fdloop := (iter_loop (fol_body D isel false test)).

Lemma fol_doc_pump_spec : forall (again : fol_st St -> node -> res (fol_st St)) posit nd q (s : St) cur hd,
  DocHead D test nd q hd ->
  match hd with
  | [] => exists p', fol_doc_pump D test again posit nd q s cur = again (mkFol p' FI_none s) cur
  | it :: r => exists nd' q',
      fol_doc_pump D test again posit nd q s cur =
      R (Some (it_node it)) (mkFol (it_pos it) (FI_doc nd' q') s) cur /\
      it_lvl it = 0 /\ DocHead D test nd' q' r
  end.
Proof.
  intros again posit nd q s cur hd HD. unfold fol_doc_pump.
  pose proof (fol_run_spec D test nd q posit hd HD) as H. unfold fol_run_post in H.
  destruct hd as [|it r].
  - destruct H as (nd' & ->). eauto.
  - destruct H as (nd' & q' & -> & Hl & HD'). eauto.
Qed.

Lemma fdloop_none_S : forall f k s cur o s1,
  isel s cur = R o s1 cur ->
  fdloop (S f) (mkFol k FI_none s) cur =
  match o with
  | None => R None (mkFol 0 FI_none s1) cur
  | Some n =>
    fol_doc_pump D test (fdloop f) 0
      (if ntype_eqb (node_type D n) NTAttr
       then match move_parent n with Some p => p | None => n end else n)
      (if ntype_eqb (node_type D n) NTAttr then Some (false, inner_desc_init) else None) s1 cur
  end.
Proof.
  intros f k s cur o s1 E. cbn [iter_loop]. unfold fol_body at 1. cbn [fo_it fo_in]. rewrite E.
  destruct o as [n|]; [|reflexivity]. destruct (ntype_eqb (node_type D n) NTAttr); reflexivity.
Qed.

Lemma fdloop_iter_S : forall f k nd q s cur,
  fdloop (S f) (mkFol k (FI_doc nd q) s) cur = fol_doc_pump D test (fdloop f) k nd q s cur.
Proof. intros. reflexivity. Qed.

Definition fdoc_post (l0 : list item) (f : nat) (st : fol_st St) (cur : node) (out : list item) : Prop :=
  match out with
  | [] => exists s' p', fdloop f st cur = R None (mkFol p' FI_none s') cur /\ RepI false s' []
  | it :: r => exists s' nd q hd l',
      fdloop f st cur = R (Some (it_node it)) (mkFol (it_pos it) (FI_doc nd q) s') cur /\
      it_lvl it = 0 /\ DocHead D test nd q hd /\ RepI false s' l' /\ List.length l' <= List.length l0 /\
      r = hd ++ over (lfol D test) l'
  end.

Lemma fdoc_none : forall l f s k b cur, RepI b s l -> OKc b cur -> List.length l < f ->
  fdoc_post l f (mkFol k FI_none s) cur (over (lfol D test) l).
Proof.
  induction l as [|a l IH]; intros f s k b cur HR Hok Hlen; (destruct f as [|f']; [cbn in Hlen; lia|]).
  - cbn [over flat_map fdoc_post]. destruct (Rep_nil_step _ _ _ _ _ _ _ HR Hok) as (s' & E & HR').
    exists s', 0. rewrite (fdloop_none_S _ _ _ _ _ _ E). auto.
  - cbn [Rep] in HR. destruct (HR cur Hok) as (s1 & E & _ & _ & HR1).
    unfold over. cbn [flat_map]. fold (over (lfol D test) l).
    unfold fdoc_post. rewrite (fdloop_none_S _ _ _ _ _ _ E).
    pose proof (fol_doc_pump_spec (fdloop f') 0 _ _ s1 cur _ (lfol_start D test (it_node a))) as HP.
    destruct (lfol D test (it_node a)) as [|x hd].
    + destruct HP as (p' & HP). rewrite HP. cbn [app].
      specialize (IH f' s1 p' false cur HR1 (OK_false c cur) ltac:(cbn in Hlen; lia)). unfold fdoc_post in IH.
      destruct (over (lfol D test) l) as [|it r]; [exact IH|].
      destruct IH as (s' & nd & q & hd' & l' & E' & Hl & HD & HR' & Hlen' & Er).
      exists s', nd, q, hd', l'. cbn [List.length]. repeat split; auto.
    + destruct HP as (nd' & q' & HP & Hl & HD). rewrite HP. cbn [app].
      exists s1, nd', q', hd, l. cbn [List.length]. repeat split; auto.
Qed.

Lemma fdoc_iter : forall l f s k nd q hd cur, RepI false s l -> S (List.length l) < f ->
  DocHead D test nd q hd ->
  fdoc_post l f (mkFol k (FI_doc nd q) s) cur (hd ++ over (lfol D test) l).
Proof.
  intros l f s k nd q hd cur HR Hlen HD. destruct f as [|f']; [lia|].
  unfold fdoc_post. rewrite fdloop_iter_S.
  pose proof (fol_doc_pump_spec (fdloop f') k nd q s cur hd HD) as HP.
  destruct hd as [|x hd'].
  - destruct HP as (p' & HP). rewrite HP. cbn [app].
    apply (fdoc_none l f' s p' false cur HR (OK_false c cur)). lia.
  - destruct HP as (nd' & q' & HP & Hl & HD'). rewrite HP. cbn [app].
    exists s, nd', q', hd', l. repeat split; auto.
Qed.

Definition FdocInv (b : bool) (st : fol_st St) (out : list item) : Prop :=
  exists l, RepI b (fo_in st) l /\ (b = true -> fo_it st = FI_none) /\ List.length l + 2 <= F /\
  exists hd, out = hd ++ over (lfol D test) l /\
    match fo_it st with
    | FI_none => hd = []
    | FI_doc nd q => DocHead D test nd q hd
    | FI_sib _ => False
    end.

Lemma fdoc_inv_post : forall b st cur out, FdocInv b st out -> OKc b cur ->
  exists l, List.length l + 2 <= F /\ fdoc_post l F st cur out.
Proof.
  intros b [k it s] cur out (l & HR & Hb & Hlen & hd & -> & Hhd) Hok. exists l.
  cbn [fo_in fo_it fo_posit] in *. split; [exact Hlen|].
  destruct it as [|nd|nd q]; [|destruct Hhd|].
  - subst hd. cbn [app]. apply (fdoc_none l F s k b cur HR Hok). lia.
  - destruct b; [specialize (Hb eq_refl); discriminate|]. apply fdoc_iter; auto. lia.
Qed.

Lemma fdoc_Rep_inv : forall b st out, FdocInv b st out ->
  Rep (fol_select D isel false test F) fo_posit (fun _ => 0) c b st out.
Proof.
  intros b st out HI. revert b st HI. apply (Rep_of_inv _ _ _ _ FdocInv).
  - intros b st cur HI Hok. destruct (fdoc_inv_post _ _ _ _ HI Hok) as (l & Hlen & HP).
    cbn [fdoc_post] in HP. destruct HP as (s' & p' & E & HR').
    eexists. split; [exact E|]. exists []. cbn [fo_in fo_it]. split; [exact HR'|].
    split; [discriminate|]. split; [cbn; lia|]. exists []. split; reflexivity.
  - intros b st it r cur HI Hok. destruct (fdoc_inv_post _ _ _ _ HI Hok) as (l & Hlen & HP).
    cbn [fdoc_post] in HP. destruct HP as (s' & nd & q & hd & l' & E & Hl & HD & HR' & Hlen' & Er).
    eexists. split; [exact E|]. cbn [fo_posit]. repeat split; auto.
    exists l'. cbn [fo_in fo_it fo_posit]. split; [exact HR'|]. split; [discriminate|]. split; [lia|].
    exists hd. split; [exact Er|exact HD].
Qed.

Lemma fdoc_Rep : forall l b s k, RepI b s l -> List.length l + 2 <= F ->
  Rep (fol_select D isel false test F) fo_posit (fun _ => 0) c b (mkFol k FI_none s)
      (over (lfol D test) l).
Proof.
  intros l b s k HR Hlen. apply fdoc_Rep_inv. exists l. cbn [fo_in fo_it]. repeat split; auto.
  exists []. split; reflexivity.
Qed.

End FdocComb.

(* ================================================================== *)
(** * 4b. preceding:: (Sibling = false): the walk *)

Lemma number_from_app : forall a b k lvl,
  number_from k lvl (a ++ b) = number_from k lvl a ++ number_from (k + List.length a) lvl b.
Proof.
  induction a as [|x a IH]; intros b k lvl; cbn [app number_from List.length].
  - rewrite Nat.add_0_r. reflexivity.
  - rewrite IH. replace (k + S (List.length a)) with (S k + List.length a) by lia. reflexivity.
Qed.

Lemma flat_map_single_length : forall {A} (l : list A), List.length (flat_map (fun s => [s]) l) = List.length l.
Proof. induction l as [|x l IH]; cbn [flat_map app List.length]; [reflexivity|]. rewrite IH. reflexivity. Qed.

Section PreWalk.
Variable D : tree.
Variable test : node -> bool.

Definition PRg {A} (g : node -> list A) (x : node) : list A :=
  flat_map (fun a => flat_map g (preceding_siblings a)) (x :: ancestors x).

Lemma PRg_unfold : forall {A} (g : node -> list A) x,
  PRg g x = match move_prev x with
            | Some m => g m ++ PRg g m
            | None => match move_parent x with Some p => PRg g p | None => [] end
            end.
Proof.
  intros A g x. unfold PRg. cbn [flat_map]. rewrite (preceding_unfold x).
  destruct (move_prev x) as [m|] eqn:En.
  - cbn [flat_map]. rewrite (sib_anc_prev _ _ En), <- app_assoc. reflexivity.
  - cbn [flat_map app]. rewrite (ancestors_unfold x). destruct (move_parent x); reflexivity.
Qed.

Definition npre (x : node) : nat := List.length (PRg (fun s => [s]) x).

Lemma npre_le : forall d x, depth_of_node x = d -> npre x <= list_sum (npath x).
Proof.
  induction d as [|d IH]; intros [p [a|]] Hd; unfold depth_of_node in Hd; cbn [npath nattr] in Hd.
  - lia.
  - destruct p; [|cbn in Hd; lia]. unfold npre. rewrite PRg_unfold. cbn. lia.
  - unfold npre. rewrite PRg_unfold. unfold move_prev, move_parent. cbn [nattr npath].
    fold (npre (mkNode p None)). apply (IH (mkNode p None)). unfold depth_of_node. cbn [npath nattr]. lia.
  - destruct (snoc_cases p) as [->|(pp & i & ->)]; [cbn in Hd; lia|].
    unfold npre, PRg. cbn [flat_map]. rewrite app_length, flat_map_single_length.
    rewrite (ancestors_unfold (mkNode (pp ++ [i]) None)), move_parent_snoc.
    fold (PRg (fun s : node => [s]) (mkNode pp None)). fold (npre (mkNode pp None)).
    unfold preceding_siblings. cbn [nattr npath]. rewrite last_index_snoc, map_length, rev_length, seq_length.
    rewrite list_sum_app. cbn [list_sum].
    assert (Hpp : npre (mkNode pp None) <= list_sum pp).
    { apply (IH (mkNode pp None)). unfold depth_of_node. cbn [npath nattr].
      rewrite app_length in Hd. cbn [List.length] in Hd. lia. }
    cbn [npath] in Hpp. unfold list_sum at 2. cbn [fold_right]. lia.
Qed.

Lemma npre_bound : forall x, npre x + 2 <= pre_fuel x.
Proof.
  intros x. pose proof (npre_le _ x eq_refl). unfold pre_fuel, climb_fuel. lia.
Qed.

(* nodes of one sibling subtree passing the test *)
Definition PD (s : node) : list node := filter test (desc_or_self D s).
Definition PH (a : node) : list item := numbered (flat_map PD (preceding_siblings a)).

(* what the closure still has to offer from cursor x (q = nil) with counter posit *)
Definition PR (x : node) (posit : nat) : list item :=
  number_from (S posit) 0 (flat_map PD (preceding_siblings x)) ++ flat_map PH (ancestors x).

Lemma PR_unfold : forall x posit,
  PR x posit = match move_prev x with
               | Some m => number_from (S posit) 0 (PD m) ++ PR m (posit + List.length (PD m))
               | None => match move_parent x with Some p => PR p 0 | None => [] end
               end.
Proof.
  intros x posit. unfold PR. rewrite (preceding_unfold x).
  destruct (move_prev x) as [m|] eqn:En.
  - cbn [flat_map]. rewrite number_from_app, (sib_anc_prev _ _ En), <- app_assoc.
    replace (S posit + List.length (PD m)) with (S (posit + List.length (PD m))) by lia. reflexivity.
  - cbn [flat_map number_from app]. rewrite (ancestors_unfold x).
    destruct (move_parent x) as [p|]; reflexivity.
Qed.

Lemma pre_advance_spec : forall fuel x posit, depth_of_node x < fuel ->
  match pre_advance fuel x posit with
  | PA_ok m posit' =>
    PR x posit = number_from (S posit') 0 (PD m) ++ PR m (posit' + List.length (PD m)) /\
    (forall A (g : node -> list A), PRg g x = g m ++ PRg g m)
  | PA_nil _ _ => PR x posit = [] /\ (forall A (g : node -> list A), PRg g x = [])
  | PA_stuck => False
  end.
Proof.
  induction fuel as [|k IH]; intros x posit Hd; [lia|]. cbn [pre_advance].
  destruct (move_prev x) as [m|] eqn:En.
  - split; [rewrite (PR_unfold x), En; reflexivity|]. intros A g. rewrite (PRg_unfold g x), En. reflexivity.
  - destruct (move_parent x) as [p|] eqn:Ep.
    + pose proof (move_parent_depth _ _ Ep) as Hdp. specialize (IH p 0 ltac:(lia)).
      destruct (pre_advance k p 0) as [|nd pp|nd pp]; [exact IH| |];
        (destruct IH as [IH1 IH2]; split;
         [rewrite (PR_unfold x), En, Ep; exact IH1|intros A g; rewrite (PRg_unfold g x), En, Ep; apply IH2]).
    + split; [rewrite (PR_unfold x), En, Ep; reflexivity|].
      intros A g. rewrite (PRg_unfold g x), En, Ep. reflexivity.
Qed.

Notation RepInner := (Rep (inner_desc_select D true test) d_posit d_level).

Lemma ldesc_nodes : forall m, nodes_of (ldesc D test true m) = PD m.
Proof. intros m. unfold ldesc, PD, desc_or_self. rewrite nodes_of_number_desc. reflexivity. Qed.

Definition PreHead (nd : node) (q : option (desc_st nat)) (posit : nat) (hd : list item) : Prop :=
  match q with
  | None => hd = PR nd posit
  | Some qs => exists b L, RepInner nd b qs L /\
                           hd = number_from (S posit) 0 (nodes_of L) ++ PR nd (posit + List.length L)
  end.

Definition pre_run_post (r0 : option (option node * node * option (desc_st nat) * nat))
           (hd : list item) : Prop :=
  match hd with
  | [] => exists nd' p', r0 = Some (None, nd', None, p')
  | it :: r => exists nd' q', r0 = Some (Some (it_node it), nd', q', it_pos it) /\
                              it_lvl it = 0 /\ PreHead nd' q' (it_pos it) r
  end.

Lemma pre_run_go : forall k nd1 qs posit1 b L,
  RepInner nd1 b qs L ->
  (L = [] -> pre_run_post (pre_doc_run D test k nd1 None posit1) (PR nd1 posit1)) ->
  pre_run_post
    (match inner_desc_select D true test qs nd1 with
     | Stuck => None
     | R (Some n) qs' _ => Some (Some n, nd1, Some qs', S posit1)
     | R None _ _ => pre_doc_run D test k nd1 None posit1
     end) (number_from (S posit1) 0 (nodes_of L) ++ PR nd1 (posit1 + List.length L)).
Proof.
  intros k nd1 qs posit1 b L HR Hnil. pose proof (inner_step D test true nd1 b qs L HR) as HS.
  destruct L as [|it r].
  - destruct HS as (qs' & cur' & E). rewrite E. cbn [nodes_of map number_from app List.length].
    rewrite Nat.add_0_r. apply Hnil. reflexivity.
  - destruct HS as (qs' & cur' & E & Hp & HR'). rewrite E.
    cbn [nodes_of map number_from app pre_run_post it_node it_pos it_lvl List.length].
    exists nd1, (Some qs'). repeat split; auto.
    cbn [PreHead]. exists false, r. split; [exact HR'|].
    replace (posit1 + S (List.length r)) with (S posit1 + List.length r) by lia. reflexivity.
Qed.

Lemma pre_run_none : forall fuel nd posit, npre nd < fuel ->
  pre_run_post (pre_doc_run D test fuel nd None posit) (PR nd posit).
Proof.
  induction fuel as [|k IH]; intros nd posit Hn; [lia|]. cbn [pre_doc_run].
  pose proof (pre_advance_spec (climb_fuel nd) nd posit (depth_lt_climb nd)) as HA.
  destruct (pre_advance (climb_fuel nd) nd posit) as [|nd' p'|m p']; [destruct HA| |].
  - destruct HA as [HA _]. rewrite HA. cbn [pre_run_post]. eauto.
  - destruct HA as [HA1 HA2]. rewrite HA1.
    pose proof (pre_run_go k m inner_desc_init p' true (ldesc D test true m) (inner_init_Rep D test true m)) as HG.
    rewrite ldesc_nodes in HG. unfold ldesc in HG at 2. rewrite number_desc_length in HG.
    change (filter test ([m] ++ descendants D m)) with (PD m) in HG.
    apply HG. intros _. apply IH. unfold npre in *. rewrite (HA2 _ (fun s => [s])) in Hn.
    cbn [app List.length] in Hn. lia.
Qed.

Lemma pre_run_some : forall fuel nd qs posit b L, RepInner nd b qs L -> S (npre nd) < fuel ->
  pre_run_post (pre_doc_run D test fuel nd (Some qs) posit)
               (number_from (S posit) 0 (nodes_of L) ++ PR nd (posit + List.length L)).
Proof.
  intros fuel nd qs posit b L HR Hn. destruct fuel as [|k]; [lia|]. cbn [pre_doc_run].
  apply (pre_run_go k nd qs posit b L HR). intros _. apply pre_run_none. lia.
Qed.

Lemma pre_run_spec : forall nd q posit hd, PreHead nd q posit hd ->
  pre_run_post (pre_doc_run D test (pre_fuel nd) nd q posit) hd.
Proof.
  intros nd q posit hd HD. pose proof (npre_bound nd) as Hb. destruct q as [qs|]; cbn [PreHead] in HD.
  - destruct HD as (b & L & HR & ->). apply (pre_run_some _ nd qs posit b L HR). lia.
  - subst hd. apply pre_run_none. lia.
Qed.

Lemma lpre_start : forall n, lpre D test n = PR n 0.
Proof. intros [p [a|]]; reflexivity. Qed.

End PreWalk.

Section PdocComb.
Context {St : Type}.
Variable D : tree.
Variable isel : St -> node -> res St.
Variable ipos ilvl : St -> nat.
Variable c : node.
Variable test : node -> bool.
Variable F : nat.
Notation RepI := (Rep isel ipos ilvl c).
Notation OKc := (OK c).
Notation pdloop := (iter_loop (pre_body D isel false test)).

Lemma pre_doc_pump_spec : forall (again : pre_st St -> node -> res (pre_st St)) posit nd q (s : St) cur hd,
  PreHead D test nd q posit hd ->
  match hd with
  | [] => exists p', pre_doc_pump D test again posit nd q s cur = again (mkPre p' PI_none s) cur
  | it :: r => exists nd' q',
      pre_doc_pump D test again posit nd q s cur =
      R (Some (it_node it)) (mkPre (it_pos it) (PI_doc nd' q') s) cur /\
      it_lvl it = 0 /\ PreHead D test nd' q' (it_pos it) r
  end.
Proof.
  intros again posit nd q s cur hd HD. unfold pre_doc_pump.
  pose proof (pre_run_spec D test nd q posit hd HD) as H. unfold pre_run_post in H.
  destruct hd as [|it r].
  - destruct H as (nd' & p' & ->). eauto.
  - destruct H as (nd' & q' & -> & Hl & HD'). eauto.
Qed.

Lemma pdloop_none_S : forall f k s cur o s1,
  isel s cur = R o s1 cur ->
  pdloop (S f) (mkPre k PI_none s) cur =
  match o with
  | None => R None (mkPre 0 PI_none s1) cur
  | Some n => pre_doc_pump D test (pdloop f) 0 n None s1 cur
  end.
Proof.
  intros f k s cur o s1 E. cbn [iter_loop]. unfold pre_body at 1. cbn [pr_it pr_in]. rewrite E.
  destruct o; reflexivity.
Qed.

Lemma pdloop_iter_S : forall f k nd q s cur,
  pdloop (S f) (mkPre k (PI_doc nd q) s) cur = pre_doc_pump D test (pdloop f) k nd q s cur.
Proof. intros. reflexivity. Qed.

Definition pdoc_post (l0 : list item) (f : nat) (st : pre_st St) (cur : node) (out : list item) : Prop :=
  match out with
  | [] => exists s' p', pdloop f st cur = R None (mkPre p' PI_none s') cur /\ RepI false s' []
  | it :: r => exists s' nd q hd l',
      pdloop f st cur = R (Some (it_node it)) (mkPre (it_pos it) (PI_doc nd q) s') cur /\
      it_lvl it = 0 /\ PreHead D test nd q (it_pos it) hd /\ RepI false s' l' /\
      List.length l' <= List.length l0 /\ r = hd ++ over (lpre D test) l'
  end.

Lemma pdoc_none : forall l f s k b cur, RepI b s l -> OKc b cur -> List.length l < f ->
  pdoc_post l f (mkPre k PI_none s) cur (over (lpre D test) l).
Proof.
  induction l as [|a l IH]; intros f s k b cur HR Hok Hlen; (destruct f as [|f']; [cbn in Hlen; lia|]).
  - cbn [over flat_map pdoc_post]. destruct (Rep_nil_step _ _ _ _ _ _ _ HR Hok) as (s' & E & HR').
    exists s', 0. rewrite (pdloop_none_S _ _ _ _ _ _ E). auto.
  - cbn [Rep] in HR. destruct (HR cur Hok) as (s1 & E & _ & _ & HR1).
    unfold over. cbn [flat_map]. fold (over (lpre D test) l).
    unfold pdoc_post. rewrite (pdloop_none_S _ _ _ _ _ _ E).
    assert (HD0 : PreHead D test (it_node a) None 0 (lpre D test (it_node a))) by apply lpre_start.
    pose proof (pre_doc_pump_spec (pdloop f') 0 _ _ s1 cur _ HD0) as HP.
    destruct (lpre D test (it_node a)) as [|x hd].
    + destruct HP as (p' & HP). rewrite HP. cbn [app].
      specialize (IH f' s1 p' false cur HR1 (OK_false c cur) ltac:(cbn in Hlen; lia)). unfold pdoc_post in IH.
      destruct (over (lpre D test) l) as [|it r]; [exact IH|].
      destruct IH as (s' & nd & q & hd' & l' & E' & Hl & HD & HR' & Hlen' & Er).
      exists s', nd, q, hd', l'. cbn [List.length]. repeat split; auto.
    + destruct HP as (nd' & q' & HP & Hl & HD). rewrite HP. cbn [app].
      exists s1, nd', q', hd, l. cbn [List.length]. repeat split; auto.
Qed.

Lemma pdoc_iter : forall l f s k nd q hd cur, RepI false s l -> S (List.length l) < f ->
  PreHead D test nd q k hd ->
  pdoc_post l f (mkPre k (PI_doc nd q) s) cur (hd ++ over (lpre D test) l).
Proof.
  intros l f s k nd q hd cur HR Hlen HD. destruct f as [|f']; [lia|].
  unfold pdoc_post. rewrite pdloop_iter_S.
  pose proof (pre_doc_pump_spec (pdloop f') k nd q s cur hd HD) as HP.
  destruct hd as [|x hd'].
  - destruct HP as (p' & HP). rewrite HP. cbn [app].
    apply (pdoc_none l f' s p' false cur HR (OK_false c cur)). lia.
  - destruct HP as (nd' & q' & HP & Hl & HD'). rewrite HP. cbn [app].
    exists s, nd', q', hd', l. repeat split; auto.
Qed.

Definition PdocInv (b : bool) (st : pre_st St) (out : list item) : Prop :=
  exists l, RepI b (pr_in st) l /\ (b = true -> pr_it st = PI_none) /\ List.length l + 2 <= F /\
  exists hd, out = hd ++ over (lpre D test) l /\
    match pr_it st with
    | PI_none => hd = []
    | PI_doc nd q => PreHead D test nd q (pr_posit st) hd
    | PI_sib _ => False
    end.

Lemma pdoc_inv_post : forall b st cur out, PdocInv b st out -> OKc b cur ->
  exists l, List.length l + 2 <= F /\ pdoc_post l F st cur out.
Proof.
  intros b [k it s] cur out (l & HR & Hb & Hlen & hd & -> & Hhd) Hok. exists l.
  cbn [pr_in pr_it pr_posit] in *. split; [exact Hlen|].
  destruct it as [|nd|nd q]; [|destruct Hhd|].
  - subst hd. cbn [app]. apply (pdoc_none l F s k b cur HR Hok). lia.
  - destruct b; [specialize (Hb eq_refl); discriminate|]. apply pdoc_iter; auto. lia.
Qed.

Lemma pdoc_Rep_inv : forall b st out, PdocInv b st out ->
  Rep (pre_select D isel false test F) pr_posit (fun _ => 0) c b st out.
Proof.
  intros b st out HI. revert b st HI. apply (Rep_of_inv _ _ _ _ PdocInv).
  - intros b st cur HI Hok. destruct (pdoc_inv_post _ _ _ _ HI Hok) as (l & Hlen & HP).
    cbn [pdoc_post] in HP. destruct HP as (s' & p' & E & HR').
    eexists. split; [exact E|]. exists []. cbn [pr_in pr_it]. split; [exact HR'|].
    split; [discriminate|]. split; [cbn; lia|]. exists []. split; reflexivity.
  - intros b st it r cur HI Hok. destruct (pdoc_inv_post _ _ _ _ HI Hok) as (l & Hlen & HP).
    cbn [pdoc_post] in HP. destruct HP as (s' & nd & q & hd & l' & E & Hl & HD & HR' & Hlen' & Er).
    eexists. split; [exact E|]. cbn [pr_posit]. repeat split; auto.
    exists l'. cbn [pr_in pr_it pr_posit]. split; [exact HR'|]. split; [discriminate|]. split; [lia|].
    exists hd. split; [exact Er|exact HD].
Qed.

Lemma pdoc_Rep : forall l b s k, RepI b s l -> List.length l + 2 <= F ->
  Rep (pre_select D isel false test F) pr_posit (fun _ => 0) c b (mkPre k PI_none s)
      (over (lpre D test) l).
Proof.
  intros l b s k HR Hlen. apply pdoc_Rep_inv. exists l. cbn [pr_in pr_it]. repeat split; auto.
  exists []. split; reflexivity.
Qed.

End PdocComb.


(* ================================================================== *)
(** * 5. The whole query tree *)

Section Global2.
Variable D : tree.
Variable hcode : node -> N.
Variable tst : ntest -> node -> bool.

Fixpoint lsel2 (q : qconfig2) (c : node) : list item :=
  match q with
  | C2Context => [mkItem c 1 0]
  | C2Absolute => [mkItem root_node 1 0]
  | C2Child t i => over (lchild D (tst t)) (lsel2 i c)
  | C2Attribute t i => over (lattr D (tst t)) (lsel2 i c)
  | C2Self t i => over (lself (tst t)) (lsel2 i c)
  | C2Parent t i => over (lparent (tst t)) (lsel2 i c)
  | C2Descendant self t i => over (ldesc D (tst t) self) (lsel2 i c)
  | C2Filter _ pred i => lfilter pred (lsel2 i c) []
  | C2Following true t i => over (lfsib D (tst t)) (lsel2 i c)
  | C2Following false t i => over (lfol D (tst t)) (lsel2 i c)
  | C2Preceding true t i => over (lpsib (tst t)) (lsel2 i c)
  | C2Preceding false t i => over (lpre D (tst t)) (lsel2 i c)
  | C2Ancestor self t i => unnumbered (lanc_all hcode (tst t) self [] (nodes_of (lsel2 i c)))
  | C2Group i => regroup 1 (lsel2 i c)
  | C2Union l r =>
    unnumbered (fst (dedup_hash hcode [] (nodes_of (lsel2 l c) ++ nodes_of (lsel2 r c))))
  | C2Merge i ch => unnumbered (flat_map (fun it => nodes_of (lsel2 ch (it_node it))) (lsel2 i c))
  end.

(* fuel that suffices for the loops over inputs and operands *)
Fixpoint need2 (q : qconfig2) (c : node) : nat :=
  match q with
  | C2Context | C2Absolute => 0
  | C2Child _ i | C2Attribute _ i | C2Self _ i | C2Parent _ i | C2Descendant _ _ i | C2Filter _ _ i
  | C2Following _ _ i | C2Preceding _ _ i | C2Ancestor _ _ i =>
    Nat.max (need2 i c) (List.length (lsel2 i c) + 2)
  | C2Group i => need2 i c
  | C2Union l r =>
    Nat.max (Nat.max (need2 l c) (need2 r c))
            (Nat.max (S (List.length (lsel2 l c))) (S (List.length (lsel2 r c))))
  | C2Merge i ch =>
    Nat.max (Nat.max (need2 i c) (List.length (lsel2 i c) + 2))
            (list_max (map (fun it => Nat.max (need2 ch (it_node it))
                                              (S (List.length (lsel2 ch (it_node it)))))
                           (lsel2 i c)))
  end.

(* the states Evaluate and Clone produce *)
Fixpoint Reset2 (q : qconfig2) : state_of2 q -> Prop :=
  match q return state_of2 q -> Prop with
  | C2Context | C2Absolute => fun s => s = 0
  | C2Child _ i => fun s => c_it s = CI_none /\ Reset2 i (c_in s)
  | C2Attribute _ i => fun s => a_it s = AI_none /\ Reset2 i (a_in s)
  | C2Self _ i | C2Parent _ i => Reset2 i
  | C2Descendant _ _ i => fun s => d_it s = DI_none /\ Reset2 i (d_in s)
  | C2Filter _ _ i => fun s => f_pm s = None /\ Reset2 i (f_in s)
  | C2Following _ _ i => fun s => fo_it s = FI_none /\ Reset2 i (fo_in s)
  | C2Preceding _ _ i => fun s => pr_it s = PI_none /\ Reset2 i (pr_in s)
  | C2Ancestor _ _ i => fun s => n_it s = NI_none /\ n_table s = None /\ Reset2 i (n_in s)
  | C2Group i => fun s => g_posit s = 0 /\ Reset2 i (g_in s)
  | C2Union l r => fun s => u_it s = LI_none /\ Reset2 l (u_l s) /\ Reset2 r (u_r s)
  | C2Merge i ch => fun s => m_it s = LI_none /\ Reset2 i (m_in s)    (* the Child may be in any state *)
  end.

Lemma Reset2_init : forall q, Reset2 q (init_q2 q).
Proof.
  induction q; cbn [Reset2 init_q2 c_it c_in a_it a_in d_it d_in f_pm f_in fo_it fo_in pr_it pr_in
                    n_it n_table n_in g_posit g_in u_it u_l u_r m_it m_in]; auto.
Qed.

Lemma Reset2_eval : forall q s, Reset2 q (eval_q2 q s).
Proof.
  induction q; intros s;
    cbn [Reset2 eval_q2 c_it c_in a_it a_in d_it d_in f_pm f_in fo_it fo_in pr_it pr_in
         n_it n_table n_in g_posit g_in u_it u_l u_r m_it m_in]; auto.
Qed.

Theorem Rep_reset2 : forall q c F, need2 q c <= F -> forall s, Reset2 q s ->
  Rep (sel_q2 D hcode tst F q) (position_of2 q) (depth_of2 q) c true s (lsel2 q c).
Proof.
  induction q as [| |t i IH|t i IH|t i IH|t i IH|self t i IH|np pred i IH
                  |sb t i IH|sb t i IH|self t i IH|i IH|l IHl r IHr|i IH ch IHch];
    intros c F HF s HR; cbn [need2] in HF; cbn [Reset2] in HR;
    cbn [sel_q2 lsel2 position_of2 depth_of2].
  - subst s. apply ctx_Rep.
  - subst s. apply abs_Rep.
  - destruct s as [k it s]. cbn [c_it c_in] in HR. destruct HR as [-> HR].
    apply (child_Rep D (sel_q2 D hcode tst F i) (position_of2 i) (depth_of2 i)); [apply IH; [lia|exact HR]|lia].
  - destruct s as [it s]. cbn [a_it a_in] in HR. destruct HR as [-> HR].
    apply (attr_Rep D (sel_q2 D hcode tst F i) (position_of2 i) (depth_of2 i)); [apply IH; [lia|exact HR]|lia].
  - apply (self_Rep (sel_q2 D hcode tst F i) (position_of2 i) (depth_of2 i)); [apply IH; [lia|exact HR]|lia].
  - apply (parent_Rep (sel_q2 D hcode tst F i) (position_of2 i) (depth_of2 i)); [apply IH; [lia|exact HR]|lia].
  - destruct s as [it k lv s]. cbn [d_it d_in] in HR. destruct HR as [-> HR].
    apply (desc_Rep D (sel_q2 D hcode tst F i) (position_of2 i) (depth_of2 i)); [apply IH; [lia|exact HR]|lia].
  - destruct s as [k pm s]. cbn [f_pm f_in] in HR. destruct HR as [-> HR].
    apply (filter_Rep (sel_q2 D hcode tst F i) (position_of2 i) (depth_of2 i)); [apply IH; [lia|exact HR]|lia].
  - destruct s as [k it s]. cbn [fo_it fo_in] in HR. destruct HR as [-> HR]. destruct sb.
    + apply (fsib_Rep D (sel_q2 D hcode tst F i) (position_of2 i) (depth_of2 i)); [apply IH; [lia|exact HR]|lia].
    + apply (fdoc_Rep D (sel_q2 D hcode tst F i) (position_of2 i) (depth_of2 i)); [apply IH; [lia|exact HR]|lia].
  - destruct s as [k it s]. cbn [pr_it pr_in] in HR. destruct HR as [-> HR]. destruct sb.
    + apply (psib_Rep D (sel_q2 D hcode tst F i) (position_of2 i) (depth_of2 i)); [apply IH; [lia|exact HR]|lia].
    + apply (pdoc_Rep D (sel_q2 D hcode tst F i) (position_of2 i) (depth_of2 i)); [apply IH; [lia|exact HR]|lia].
  - destruct s as [it tb s]. cbn [n_it n_table n_in] in HR. destruct HR as (-> & -> & HR).
    apply (anc_Rep hcode (sel_q2 D hcode tst F i) (position_of2 i) (depth_of2 i)); [apply IH; [lia|exact HR]|lia].
  - destruct s as [k s]. cbn [g_posit g_in] in HR. destruct HR as [-> HR].
    apply (group_Rep (sel_q2 D hcode tst F i) (position_of2 i) (depth_of2 i)). apply IH; [lia|exact HR].
  - destruct s as [it sl sr]. cbn [u_it u_l u_r] in HR. destruct HR as (-> & HRl & HRr).
    apply (union_Rep hcode (sel_q2 D hcode tst F l) (position_of2 l) (depth_of2 l)
                     (sel_q2 D hcode tst F r) (position_of2 r) (depth_of2 r));
      [apply IHl; [lia|exact HRl]|apply IHr; [lia|exact HRr]|lia|lia].
  - destruct s as [it s sc]. cbn [m_it m_in] in HR. destruct HR as [-> HR].
    apply (merge_Rep (sel_q2 D hcode tst F i) (position_of2 i) (depth_of2 i)
                     (sel_q2 D hcode tst F ch) (position_of2 ch) (depth_of2 ch) (eval_q2 ch) c F
                     (lsel2 ch)
                     (fun n => need2 ch n <= F /\ List.length (lsel2 ch n) < F)).
    + intros n [Hn1 Hn2] sc0. split; [|exact Hn2]. apply IHch; [exact Hn1|apply Reset2_eval].
    + apply IH; [lia|exact HR].
    + unfold PI. apply Forall_forall. intros it Hin.
      assert (Hm : list_max (map (fun it => Nat.max (need2 ch (it_node it))
                                                    (S (List.length (lsel2 ch (it_node it)))))
                                 (lsel2 i c)) <= F) by lia.
      rewrite list_max_le in Hm. rewrite Forall_forall in Hm.
      specialize (Hm _ (in_map _ _ _ Hin)). cbn beta in Hm. lia.
    + lia.
Qed.

(* ---- running ---- *)
Lemma run2_Rep : forall q F c l b s n,
  Rep (sel_q2 D hcode tst F q) (position_of2 q) (depth_of2 q) c b s l -> List.length l < n ->
  exists s', run2 D hcode tst F n (existT _ q s) c = (l, E_nil, existT _ q s', c) /\
             Rep (sel_q2 D hcode tst F q) (position_of2 q) (depth_of2 q) c false s' [].
Proof.
  intros q F c. induction l as [|it r IH]; intros b s n HR Hn; (destruct n as [|n]; [cbn in Hn; lia|]).
  - destruct (Rep_nil_step _ _ _ _ _ _ _ HR (OK_c c b)) as (s' & E & HR').
    exists s'. cbn [run2]. unfold select2. cbn [projT1 projT2]. rewrite E. split; [reflexivity|exact HR'].
  - cbn [Rep] in HR. destruct (HR c (OK_c c b)) as (s1 & E & Hp & Hl & HR1).
    destruct (IH false s1 n HR1 ltac:(cbn in Hn; lia)) as (s' & Erun & HR').
    exists s'. cbn [run2]. unfold select2. cbn [projT1 projT2]. rewrite E, Erun.
    unfold position2, depth2. cbn [projT1 projT2]. rewrite Hp, Hl.
    destruct it; split; [reflexivity|exact HR'].
Qed.

Lemma run_iter2_Rep : forall q F c l b s n cur,
  Rep (sel_q2 D hcode tst F q) (position_of2 q) (depth_of2 q) c b s l -> OK c b cur -> List.length l < n ->
  exists s', run_iter2 D hcode tst F n (existT _ q s) cur =
             (l, E_nil, existT _ q s', last (map it_node l) cur) /\
             Rep (sel_q2 D hcode tst F q) (position_of2 q) (depth_of2 q) c false s' [].
Proof.
  intros q F c. induction l as [|it r IH]; intros b s n cur HR Hok Hn; (destruct n as [|n]; [cbn in Hn; lia|]).
  - destruct (Rep_nil_step _ _ _ _ _ _ _ HR Hok) as (s' & E & HR').
    exists s'. cbn [run_iter2]. unfold move_next_it2, select2. cbn [projT1 projT2]. rewrite E.
    split; [reflexivity|exact HR'].
  - cbn [Rep] in HR. destruct (HR cur Hok) as (s1 & E & Hp & Hl & HR1).
    destruct (IH false s1 n (it_node it) HR1 (OK_false c _) ltac:(cbn in Hn; lia)) as (s' & Erun & HR').
    exists s'. cbn [run_iter2]. unfold move_next_it2, select2. cbn [projT1 projT2]. rewrite E, Erun.
    unfold position2, depth2. cbn [projT1 projT2]. rewrite Hp, Hl.
    split; [|exact HR']. destruct it as [x p lv]. cbn [it_node map]. rewrite last_cons. reflexivity.
Qed.

(** ** REFINEMENT at the level of configurations *)
Theorem drain_items2_lsel2 : forall q c F n,
  need2 q c <= F -> List.length (lsel2 q c) < n ->
  drain_items2 D hcode tst F n (fresh2 q) c = lsel2 q c.
Proof.
  intros q c F n HF Hn. unfold drain_items2, fresh2.
  destruct (run2_Rep q F c (lsel2 q c) true (init_q2 q) n (Rep_reset2 q c F HF _ (Reset2_init q)) Hn)
    as (s' & E & _).
  rewrite E. reflexivity.
Qed.

Theorem iterate_items2_lsel2 : forall q c F n,
  need2 q c <= F -> List.length (lsel2 q c) < n ->
  iterate_items2 D hcode tst F n (fresh2 q) c = lsel2 q c.
Proof.
  intros q c F n HF Hn. unfold iterate_items2, fresh2.
  destruct (run_iter2_Rep q F c (lsel2 q c) true (init_q2 q) n c
                          (Rep_reset2 q c F HF _ (Reset2_init q)) (OK_c c true) Hn) as (s' & E & _).
  rewrite E. reflexivity.
Qed.

Theorem run2_fresh : forall q c F n,
  need2 q c <= F -> List.length (lsel2 q c) < n ->
  exists st', run2 D hcode tst F n (fresh2 q) c = (lsel2 q c, E_nil, st', c) /\
              config_of2 st' = q /\
              forall k, 0 < k ->
                run2 D hcode tst F k st' c = ([], E_nil, snd (fst (run2 D hcode tst F k st' c)), c).
Proof.
  intros q c F n HF Hn. unfold fresh2.
  destruct (run2_Rep q F c (lsel2 q c) true (init_q2 q) n (Rep_reset2 q c F HF _ (Reset2_init q)) Hn)
    as (s' & E & HR').
  exists (existT _ q s'). split; [exact E|]. split; [reflexivity|].
  intros k Hk. destruct (run2_Rep q F c [] false s' k HR' Hk) as (s'' & E'' & _). rewrite E''. reflexivity.
Qed.

Theorem run_iter2_fresh : forall q c F n,
  need2 q c <= F -> List.length (lsel2 q c) < n ->
  exists st', run_iter2 D hcode tst F n (fresh2 q) c =
              (lsel2 q c, E_nil, st', last (map it_node (lsel2 q c)) c) /\ config_of2 st' = q.
Proof.
  intros q c F n HF Hn. unfold fresh2.
  destruct (run_iter2_Rep q F c (lsel2 q c) true (init_q2 q) n c
                          (Rep_reset2 q c F HF _ (Reset2_init q)) (OK_c c true) Hn) as (s' & E & _).
  exists (existT _ q s'). split; [exact E|reflexivity].
Qed.

(** ** (b) Evaluate resets: every state *)
Theorem evaluate_resets2 : forall (st : qstate2) c F n,
  need2 (config_of2 st) c <= F -> List.length (lsel2 (config_of2 st) c) < n ->
  drain_items2 D hcode tst F n (evaluate2 st) c = drain_items2 D hcode tst F n (fresh2 (config_of2 st)) c.
Proof.
  intros [q s] c F n HF Hn. cbn [config_of2 projT1] in *.
  rewrite (drain_items2_lsel2 q c F n HF Hn). unfold drain_items2, evaluate2. cbn [projT1 projT2].
  destruct (run2_Rep q F c (lsel2 q c) true (eval_q2 q s) n (Rep_reset2 q c F HF _ (Reset2_eval q s)) Hn)
    as (s' & E & _).
  rewrite E. reflexivity.
Qed.

(** ** (c) Clone forgets *)
Theorem clone_forgets2 : forall st : qstate2, clone2 st = fresh2 (clone_cfg2 (config_of2 st)).
Proof.
  intros [q s]. unfold clone2, config_of2, fresh2. cbn [projT1 projT2]. revert s.
  induction q as [| |t i IH|t i IH|t i IH|t i IH|self t i IH|np pred i IH
                  |sb t i IH|sb t i IH|self t i IH|i IH|l IHl r IHr|i IH ch IHch]; intros s;
    cbn [clone_q2 clone_cfg2 init_q2]; try reflexivity;
    try (rewrite IH; reflexivity).
  - rewrite IHl, IHr. reflexivity.
  - rewrite IH, IHch. reflexivity.
Qed.

Lemma lsel2_clone_cfg2 : forall q c, lsel2 (clone_cfg2 q) c = lsel2 q c.
Proof.
  induction q as [| |t i IH|t i IH|t i IH|t i IH|self t i IH|np pred i IH
                  |sb t i IH|sb t i IH|self t i IH|i IH|l IHl r IHr|i IH ch IHch]; intros c;
    cbn [clone_cfg2 lsel2]; try reflexivity; try (rewrite IH; reflexivity).
  - rewrite IHl, IHr. reflexivity.
  - rewrite IH. f_equal. apply flat_map_ext'. intros it. rewrite IHch. reflexivity.
Qed.

Lemma need2_clone_cfg2 : forall q c, need2 (clone_cfg2 q) c = need2 q c.
Proof.
  induction q as [| |t i IH|t i IH|t i IH|t i IH|self t i IH|np pred i IH
                  |sb t i IH|sb t i IH|self t i IH|i IH|l IHl r IHr|i IH ch IHch]; intros c;
    cbn [clone_cfg2 need2]; try reflexivity; try (rewrite IH, lsel2_clone_cfg2; reflexivity).
  - apply IH.
  - rewrite IHl, IHr, !lsel2_clone_cfg2. reflexivity.
  - rewrite IH, !lsel2_clone_cfg2. f_equal. f_equal. apply map_ext. intros it.
    rewrite IHch, lsel2_clone_cfg2. reflexivity.
Qed.

Corollary clone_same_results2 : forall (st : qstate2) c F n,
  need2 (config_of2 st) c <= F -> List.length (lsel2 (config_of2 st) c) < n ->
  drain_items2 D hcode tst F n (clone2 st) c = drain_items2 D hcode tst F n (fresh2 (config_of2 st)) c.
Proof.
  intros st c F n HF Hn. rewrite clone_forgets2.
  rewrite !drain_items2_lsel2; try assumption.
  - apply lsel2_clone_cfg2.
  - rewrite need2_clone_cfg2. exact HF.
  - rewrite lsel2_clone_cfg2. exact Hn.
Qed.

End Global2.

(* ================================================================== *)
(** * 6. Protocol facts for ARBITRARY states *)

Section Protocol2.
Context {St : Type}.
Variable D : tree.
Variable hcode : node -> N.
Variable isel : St -> node -> res St.
Variable DeadI : St -> Prop.
Hypothesis HG : Good isel DeadI.
Variable test : node -> bool.
Variable F : nat.

Definition DeadG (st : group_st St) : Prop := DeadI (g_in st).

Lemma group_good : Good (group_select isel) DeadG.
Proof.
  intros st cur o st' cur' E. unfold group_select in E.
  destruct (isel (g_in st) cur) as [o1 s1 cur1|] eqn:Ei; [|discriminate].
  destruct (HG _ _ _ _ _ Ei) as [-> Hd]. destruct o1; inversion E; subst.
  - split; [reflexivity|discriminate].
  - split; [reflexivity|]. intros _. apply Hd. reflexivity.
Qed.

Definition DeadFo (st : fol_st St) : Prop := fo_it st = FI_none /\ DeadI (fo_in st).

Lemma fol_good : forall sibling, Good (fol_select D isel sibling test F) DeadFo.
Proof.
  intros sibling. unfold fol_select.
  induction F as [|f IH]; intros st cur o st' cur' E; cbn [iter_loop] in E; [discriminate|].
  assert (Hsib : forall k nd s cur1,
             fol_sib_pump D test (iter_loop (fol_body D isel sibling test) f) k nd s cur1 = R o st' cur' ->
             cur' = cur1 /\ (o = None -> DeadFo st')).
  { intros k nd s cur1 Ep. unfold fol_sib_pump in Ep.
    destruct (sib_next_run D test (dfuel D) nd) as [[[x|] nd']|]; [| |discriminate].
    - inversion Ep; subst. split; [reflexivity|discriminate].
    - apply IH in Ep. exact Ep. }
  assert (Hdoc : forall k nd q s cur1,
             fol_doc_pump D test (iter_loop (fol_body D isel sibling test) f) k nd q s cur1 = R o st' cur' ->
             cur' = cur1 /\ (o = None -> DeadFo st')).
  { intros k nd q s cur1 Ep. unfold fol_doc_pump in Ep.
    destruct (fol_doc_run D test (fol_fuel D nd) nd q k) as [[[[[x|] nd'] q'] p']|]; [| |discriminate].
    - inversion Ep; subst. split; [reflexivity|discriminate].
    - apply IH in Ep. exact Ep. }
  unfold fol_body at 1 in E. destruct (fo_it st) as [|nd|nd q].
  - destruct (isel (fo_in st) cur) as [o1 s1 cur1|] eqn:Ei; [|discriminate].
    destruct (HG _ _ _ _ _ Ei) as [-> Hd]. destruct o1 as [n|].
    + destruct sibling; [apply Hsib in E; exact E|].
      destruct (ntype_eqb (node_type D n) NTAttr); apply Hdoc in E; exact E.
    + inversion E; subst. split; [reflexivity|]. intros _. split; [reflexivity|]. apply Hd. reflexivity.
  - apply Hsib in E. exact E.
  - apply Hdoc in E. exact E.
Qed.

Definition DeadPr (st : pre_st St) : Prop := pr_it st = PI_none /\ DeadI (pr_in st).

Lemma pre_good : forall sibling, Good (pre_select D isel sibling test F) DeadPr.
Proof.
  intros sibling. unfold pre_select.
  induction F as [|f IH]; intros st cur o st' cur' E; cbn [iter_loop] in E; [discriminate|].
  assert (Hsib : forall k nd s cur1,
             pre_sib_pump test (iter_loop (pre_body D isel sibling test) f) k nd s cur1 = R o st' cur' ->
             cur' = cur1 /\ (o = None -> DeadPr st')).
  { intros k nd s cur1 Ep. unfold pre_sib_pump in Ep.
    destruct (sib_prev_run test (prev_fuel nd) nd) as [[[x|] nd']|]; [| |discriminate].
    - inversion Ep; subst. split; [reflexivity|discriminate].
    - apply IH in Ep. exact Ep. }
  assert (Hdoc : forall k nd q s cur1,
             pre_doc_pump D test (iter_loop (pre_body D isel sibling test) f) k nd q s cur1 = R o st' cur' ->
             cur' = cur1 /\ (o = None -> DeadPr st')).
  { intros k nd q s cur1 Ep. unfold pre_doc_pump in Ep.
    destruct (pre_doc_run D test (pre_fuel nd) nd q k) as [[[[[x|] nd'] q'] p']|]; [| |discriminate].
    - inversion Ep; subst. split; [reflexivity|discriminate].
    - apply IH in Ep. exact Ep. }
  unfold pre_body at 1 in E. destruct (pr_it st) as [|nd|nd q].
  - destruct (isel (pr_in st) cur) as [o1 s1 cur1|] eqn:Ei; [|discriminate].
    destruct (HG _ _ _ _ _ Ei) as [-> Hd]. destruct o1 as [n|].
    + destruct sibling; [apply Hsib in E; exact E|apply Hdoc in E; exact E].
    + inversion E; subst. split; [reflexivity|]. intros _. split; [reflexivity|]. apply Hd. reflexivity.
  - apply Hsib in E. exact E.
  - apply Hdoc in E. exact E.
Qed.

Definition DeadN (st : anc_st St) : Prop := n_it st = NI_none /\ DeadI (n_in st).

Lemma anc_good : forall self, Good (anc_select hcode isel self test F) DeadN.
Proof.
  intros self. unfold anc_select.
  induction F as [|f IH]; intros st cur o st' cur' E; cbn [iter_loop] in E; [discriminate|].
  assert (Hpump : forall nd first tbl s cur1,
             anc_pump hcode self test (iter_loop (anc_body hcode isel self test) f) nd first tbl s cur1
             = R o st' cur' -> cur' = cur1 /\ (o = None -> DeadN st')).
  { intros nd first tbl s cur1 Ep. unfold anc_pump in Ep.
    destruct (anc_dedup hcode self test (S (climb_fuel nd)) nd first tbl) as [[[[x|] nd'] t']|]; [| |discriminate].
    - inversion Ep; subst. split; [reflexivity|discriminate].
    - apply IH in Ep. exact Ep. }
  unfold anc_body at 1 in E. destruct (n_it st) as [|nd first].
  - destruct (isel (n_in st) cur) as [o1 s1 cur1|] eqn:Ei; [|discriminate].
    destruct (HG _ _ _ _ _ Ei) as [-> Hd]. destruct o1 as [n|].
    + apply Hpump in E. exact E.
    + inversion E; subst. split; [reflexivity|]. intros _. split; [reflexivity|]. apply Hd. reflexivity.
  - apply Hpump in E. exact E.
Qed.

(* ---- nil is final ---- *)
Hypothesis HS : Stable isel DeadI.
Hypothesis HF : 1 <= F.

Lemma group_stable : Stable (group_select isel) DeadG.
Proof.
  intros [k s] cur Hd. unfold DeadG in *. cbn [g_in] in *. unfold group_select. cbn [g_in g_posit].
  destruct (HS s cur Hd) as (s' & E & Hd'). rewrite E. eexists. split; [reflexivity|exact Hd'].
Qed.

Lemma fol_stable : forall sibling, Stable (fol_select D isel sibling test F) DeadFo.
Proof.
  intros sibling [k it s] cur [Hit Hd]. cbn [fo_it fo_in] in *. subst it.
  unfold fol_select. destruct F as [|f]; [lia|]. cbn [iter_loop].
  unfold fol_body at 1. cbn [fo_it fo_in]. destruct (HS s cur Hd) as (s' & E & Hd'). rewrite E.
  eexists. split; [reflexivity|]. split; [reflexivity|exact Hd'].
Qed.

Lemma pre_stable : forall sibling, Stable (pre_select D isel sibling test F) DeadPr.
Proof.
  intros sibling [k it s] cur [Hit Hd]. cbn [pr_it pr_in] in *. subst it.
  unfold pre_select. destruct F as [|f]; [lia|]. cbn [iter_loop].
  unfold pre_body at 1. cbn [pr_it pr_in]. destruct (HS s cur Hd) as (s' & E & Hd'). rewrite E.
  eexists. split; [reflexivity|]. split; [reflexivity|exact Hd'].
Qed.

Lemma anc_stable : forall self, Stable (anc_select hcode isel self test F) DeadN.
Proof.
  intros self [it tb s] cur [Hit Hd]. cbn [n_it n_in] in *. subst it.
  unfold anc_select. destruct F as [|f]; [lia|]. cbn [iter_loop].
  unfold anc_body at 1. cbn [n_it n_in n_table]. destruct (HS s cur Hd) as (s' & E & Hd'). rewrite E.
  eexists. split; [reflexivity|]. split; [reflexivity|exact Hd'].
Qed.

End Protocol2.

Section ProtocolBinary.
Context {L R' St C : Type}.
Variable hcode : node -> N.
Variable F : nat.

(* unionQuery: exhausted = the iterator exists and has run off the end of its list *)
Definition DeadU (st : union_st L R') : Prop :=
  exists lst i, u_it st = LI_iter lst i /\ nth_error lst i = None.

Lemma ucollect_cur : forall {X} (sel : X -> node -> res X) (DeadX : X -> Prop), Good sel DeadX ->
  forall fuel s cur m acc m' acc' s' cur',
    ucollect hcode sel fuel s cur m acc = Some (m', acc', s', cur') -> cur' = cur.
Proof.
  intros X sel DeadX HGx. induction fuel as [|k IH]; intros s cur m acc m' acc' s' cur' E; [discriminate|].
  cbn [ucollect] in E. destruct (sel s cur) as [o s1 cur1|] eqn:Es; [|discriminate].
  destruct (HGx _ _ _ _ _ Es) as [-> _]. destruct o as [n|].
  - destruct (existsb (N.eqb (hcode n)) m); apply IH in E; exact E.
  - inversion E; subst. reflexivity.
Qed.

Lemma union_good : forall (lsel : L -> node -> res L) (rsel : R' -> node -> res R') DeadR,
  Good rsel DeadR -> Good (union_select hcode lsel rsel F) DeadU.
Proof.
  intros lsel rsel DeadR HGr st cur o st' cur' E. unfold union_select in E.
  assert (Hnext : forall lst i sl sr cur1,
             (let '(o0, i') := list_next lst i in R o0 (mkUnion (LI_iter lst i') sl sr) cur1) = R o st' cur' ->
             cur' = cur1 /\ (o = None -> DeadU st')).
  { intros lst i sl sr cur1 En. unfold list_next in En. destruct (nth_error lst i) as [x|] eqn:Ex.
    - inversion En; subst. split; [reflexivity|discriminate].
    - inversion En; subst. split; [reflexivity|]. intros _. exists lst, i. cbn [u_it]. auto. }
  destruct (u_it st) as [|lst i].
  - destruct (ucollect hcode lsel F (u_l st) cur [] []) as [[[[m1 l1] sl'] c1]|]; [|discriminate].
    destruct (ucollect hcode rsel F (u_r st) cur m1 l1) as [[[[m2 l2] sr'] c3]|] eqn:E2; [|discriminate].
    apply (ucollect_cur rsel DeadR HGr) in E2. subst c3. apply Hnext in E. exact E.
  - apply Hnext in E. exact E.
Qed.

Lemma union_stable : forall (lsel : L -> node -> res L) (rsel : R' -> node -> res R'),
  Stable (union_select hcode lsel rsel F) DeadU.
Proof.
  intros lsel rsel [it sl sr] cur (lst & i & Hit & Hn). cbn [u_it] in Hit. subst it.
  unfold union_select. cbn [u_it u_l u_r]. unfold list_next. rewrite Hn.
  eexists. split; [reflexivity|]. exists lst, i. cbn [u_it]. auto.
Qed.

(* mergeQuery *)
Variable isel : St -> node -> res St.
Variable DeadI : St -> Prop.
Hypothesis HG : Good isel DeadI.
Variable csel : C -> node -> res C.
Variable ceval : C -> C.

Definition DeadM (st : merge_st St C) : Prop := m_it st = LI_none /\ DeadI (m_in st).

Lemma merge_good : Good (merge_select isel csel ceval F) DeadM.
Proof.
  unfold merge_select. generalize F at 2. intros f.
  induction f as [|f IH]; intros st cur o st' cur' E; cbn [iter_loop] in E; [discriminate|].
  assert (Hpump : forall lst i s ch cur1,
             merge_pump (iter_loop (merge_body isel csel ceval F) f) lst i s ch cur1 = R o st' cur' ->
             cur' = cur1 /\ (o = None -> DeadM st')).
  { intros lst i s ch cur1 Ep. unfold merge_pump, list_next in Ep. destruct (nth_error lst i) as [x|].
    - inversion Ep; subst. split; [reflexivity|discriminate].
    - apply IH in Ep. exact Ep. }
  unfold merge_body at 1, merge_body_gen in E. destruct (m_it st) as [|lst i].
  - destruct (isel (m_in st) cur) as [o1 s1 cur1|] eqn:Ei; [|discriminate].
    destruct (HG _ _ _ _ _ Ei) as [-> Hd]. destruct o1 as [root|].
    + destruct (mcollect csel F (ceval (m_ch st)) root []) as [[[lst ch2] cur2]|]; [|discriminate].
      apply Hpump in E. exact E.
    + inversion E; subst. split; [reflexivity|]. intros _. split; [reflexivity|]. apply Hd. reflexivity.
  - apply Hpump in E. exact E.
Qed.

Hypothesis HS : Stable isel DeadI.
Hypothesis HF : 1 <= F.

Lemma merge_stable : Stable (merge_select isel csel ceval F) DeadM.
Proof.
  intros [it s ch] cur [Hit Hd]. cbn [m_it m_in] in *. subst it.
  unfold merge_select. destruct F as [|f] eqn:EF; [lia|]. cbn [iter_loop].
  unfold merge_body at 1, merge_body_gen. cbn [m_it m_in m_ch].
  destruct (HS s cur Hd) as (s' & E & Hd'). rewrite E.
  eexists. split; [reflexivity|]. split; [reflexivity|exact Hd'].
Qed.

End ProtocolBinary.

Section ProtocolGlobal2.
Variable D : tree.
Variable hcode : node -> N.
Variable tst : ntest -> node -> bool.

Fixpoint Dead2 (q : qconfig2) : state_of2 q -> Prop :=
  match q return state_of2 q -> Prop with
  | C2Context | C2Absolute => fun s => 0 < s
  | C2Child _ i => DeadC (Dead2 i)
  | C2Attribute _ i => DeadA (Dead2 i)
  | C2Self _ i | C2Parent _ i => Dead2 i
  | C2Descendant _ _ i => DeadD (Dead2 i)
  | C2Filter _ _ i => DeadF (Dead2 i)
  | C2Following _ _ i => DeadFo (Dead2 i)
  | C2Preceding _ _ i => DeadPr (Dead2 i)
  | C2Ancestor _ _ i => DeadN (Dead2 i)
  | C2Group i => DeadG (Dead2 i)
  | C2Union _ _ => DeadU
  | C2Merge i _ => DeadM (Dead2 i)
  end.

Lemma sel_q2_good : forall F q, Good (sel_q2 D hcode tst F q) (Dead2 q).
Proof.
  intros F. induction q as [| |t i IH|t i IH|t i IH|t i IH|self t i IH|np pred i IH
                            |sb t i IH|sb t i IH|self t i IH|i IH|l IHl r IHr|i IH ch IHch];
    cbn [sel_q2 Dead2].
  - intros s cur o s' cur' E. unfold ctx_select in E. destruct (Nat.ltb_spec 0 s); inversion E; subst.
    + split; [reflexivity|]. intros _. assumption.
    + split; [reflexivity|discriminate].
  - intros s cur o s' cur' E. unfold abs_select in E. destruct (Nat.ltb_spec 0 s); inversion E; subst.
    + split; [reflexivity|]. intros _. assumption.
    + split; [reflexivity|discriminate].
  - apply child_good. exact IH.
  - apply attr_good. exact IH.
  - apply self_good. exact IH.
  - apply parent_good. exact IH.
  - apply desc_good. exact IH.
  - apply filter_good. exact IH.
  - apply fol_good. exact IH.
  - apply pre_good. exact IH.
  - apply anc_good. exact IH.
  - apply group_good. exact IH.
  - apply (union_good hcode F _ _ (Dead2 r)). exact IHr.
  - apply merge_good. exact IH.
Qed.

Lemma sel_q2_stable : forall F q, 1 <= F -> Stable (sel_q2 D hcode tst F q) (Dead2 q).
Proof.
  intros F q HF. induction q as [| |t i IH|t i IH|t i IH|t i IH|self t i IH|np pred i IH
                                 |sb t i IH|sb t i IH|self t i IH|i IH|l IHl r IHr|i IH ch IHch];
    cbn [sel_q2 Dead2].
  - intros s cur Hd. exists s. unfold ctx_select. destruct (Nat.ltb_spec 0 s); [auto|lia].
  - intros s cur Hd. exists s. unfold abs_select. destruct (Nat.ltb_spec 0 s); [auto|lia].
  - apply child_stable; assumption.
  - apply attr_stable; assumption.
  - apply self_stable; assumption.
  - apply parent_stable; assumption.
  - apply desc_stable; assumption.
  - apply filter_stable; assumption.
  - apply fol_stable; assumption.
  - apply pre_stable; assumption.
  - apply anc_stable; assumption.
  - apply group_stable; assumption.
  - apply union_stable.
  - apply merge_stable; assumption.
Qed.

(** ** (d) t.Current() after a Select call is what it was before the call:
    unionQuery puts it back between its operands (and the right operand leaves
    it alone), mergeQuery puts it back after collecting the child's nodes
    (repair 231c797), filterQuery after testing a candidate (repair 08a4038) *)
Theorem context_preserved2 : forall F (st : qstate2) cur o st' cur',
  select2 D hcode tst F st cur = R o st' cur' -> cur' = cur /\ config_of2 st' = config_of2 st.
Proof.
  intros F [q s] cur o st' cur' E. unfold select2 in E. cbn [projT1 projT2] in E.
  destruct (sel_q2 D hcode tst F q s cur) as [o1 s1 cur1|] eqn:Es; [|discriminate].
  inversion E; subst. split; [|reflexivity].
  apply (sel_q2_good F q) in Es. apply Es.
Qed.

(** ** (a) once Select has returned nil it returns nil for ever *)
Theorem exhausted_stable2 : forall F (st : qstate2) cur st' cur',
  1 <= F -> select2 D hcode tst F st cur = R None st' cur' ->
  forall cur2, exists st'', select2 D hcode tst F st' cur2 = R None st'' cur2.
Proof.
  intros F [q s] cur st' cur' HF E cur2. unfold select2 in E. cbn [projT1 projT2] in E.
  destruct (sel_q2 D hcode tst F q s cur) as [o1 s1 cur1|] eqn:Es; [|discriminate].
  inversion E; subst. apply (sel_q2_good F q) in Es. destruct Es as [_ Hd]. specialize (Hd eq_refl).
  destruct (sel_q2_stable F q HF s1 cur2 Hd) as (s2 & E2 & _).
  exists (existT _ q s2). unfold select2. cbn [projT1 projT2]. rewrite E2. reflexivity.
Qed.

Theorem exhausted_forever2 : forall F (st : qstate2) cur st' cur',
  1 <= F -> select2 D hcode tst F st cur = R None st' cur' ->
  forall n cur2, 0 < n -> fst (fst (run2 D hcode tst F n st' cur2)) = ([], E_nil).
Proof.
  intros F [q s] cur st' cur' HF E n cur2 Hn. unfold select2 in E. cbn [projT1 projT2] in E.
  destruct (sel_q2 D hcode tst F q s cur) as [o1 s1 cur1|] eqn:Es; [|discriminate].
  inversion E; subst. apply (sel_q2_good F q) in Es. destruct Es as [_ Hd]. specialize (Hd eq_refl).
  destruct n as [|n]; [lia|]. cbn [run2]. unfold select2. cbn [projT1 projT2].
  destruct (sel_q2_stable F q HF s1 cur2 Hd) as (s2 & E2 & _). rewrite E2. reflexivity.
Qed.

End ProtocolGlobal2.

(* ================================================================== *)
(** * 7. The extended M1 refines Eval.sel *)

From XP.Proofs Require Import Filter.

Lemma over_nodes : forall f l1 l2, nodes_of l1 = nodes_of l2 -> over f l1 = over f l2.
Proof.
  intros f l1 l2 H. unfold over.
  rewrite <- (flat_map_map' f it_node l1), <- (flat_map_map' f it_node l2).
  unfold nodes_of in H. rewrite H. reflexivity.
Qed.

Lemma regroup_nodes : forall l1 l2 k, nodes_of l1 = nodes_of l2 -> regroup k l1 = regroup k l2.
Proof.
  induction l1 as [|a l1 IH]; intros [|b l2] k H; cbn in H; try discriminate; [reflexivity|].
  inversion H. cbn [regroup]. f_equal; [f_equal; assumption|]. apply IH. assumption.
Qed.

Lemma map_flat_map : forall {A B C} (f : B -> C) (g : A -> list B) l,
  flat_map (fun x => map f (g x)) l = map f (flat_map g l).
Proof. induction l as [|x l IH]; cbn [flat_map map]; [reflexivity|]. rewrite map_app, IH. reflexivity. Qed.

Section Link2.
Variable D : tree.
Variable has_ns : bool.
Variable hc : node -> N.
Variable rm : string -> string -> option bool.
Variable rn : string -> nat.
Variable rr : string -> string -> string -> string.
Notation SEL := (sel D has_ns hc rm rn rr).
Notation EVAL := (eval D has_ns hc rm rn rr).
Notation MT := (match_test D has_ns).
Notation LSEL := (lsel2 D hc MT).

Inductive corr2 : qconfig2 -> query -> Prop :=
| corr2_ctx : corr2 C2Context QContext
| corr2_abs : corr2 C2Absolute QAbsolute
| corr2_child : forall t i I, corr2 i I -> corr2 (C2Child t i) (QChild t I)
| corr2_attr : forall t i I, corr2 i I -> corr2 (C2Attribute t i) (QAttribute t I)
| corr2_self : forall t i I, corr2 i I -> corr2 (C2Self t i) (QSelf t I)
| corr2_parent : forall t i I, corr2 i I -> corr2 (C2Parent t i) (QParent t I)
| corr2_desc : forall self t i I, corr2 i I -> corr2 (C2Descendant self t i) (QDescendant self t I)
| corr2_filter : forall np pred i I P, corr2 i I ->
    (forall n v pos, EVAL P n = Val v -> pred n pos = truth_of_filter v pos) ->
    corr2 (C2Filter np pred i) (QFilter np I P)
| corr2_fol : forall sb t i I, corr2 i I -> corr2 (C2Following sb t i) (QFollowing sb t I)
| corr2_pre : forall sb t i I, corr2 i I -> corr2 (C2Preceding sb t i) (QPreceding sb t I)
| corr2_anc : forall self t i I, corr2 i I -> corr2 (C2Ancestor self t i) (QAncestor self t I)
| corr2_group : forall i I, corr2 i I -> corr2 (C2Group i) (QGroup I)
| corr2_union : forall l r L R0, corr2 l L -> corr2 r R0 -> corr2 (C2Union l r) (QUnion L R0)
| corr2_merge : forall i ch I CH, corr2 i I -> corr2 ch CH -> corr2 (C2Merge i ch) (QMerge I CH).

Lemma corr2_embed : forall q Q, corr D has_ns hc rm rn rr q Q -> corr2 (embed q) Q.
Proof.
  intros q Q H. induction H; cbn [embed]; constructor; assumption.
Qed.

Lemma corr2_pred_of : forall np i I P, corr2 i I ->
  corr2 (C2Filter np (pred_of D has_ns hc rm rn rr P) i) (QFilter np I P).
Proof.
  intros np i I P H. constructor; [exact H|]. intros n v pos E. unfold pred_of. rewrite E. reflexivity.
Qed.

Lemma lanc_all_eq : forall self t inputs seen,
  lanc_all hc (MT t) self seen inputs = ancestors_all D has_ns hc self t seen inputs.
Proof.
  intros self t. induction inputs as [|n r IH]; intros seen; [reflexivity|].
  cbn [lanc_all ancestors_all]. unfold araw, step_ancestor_raw. cbn [andb].
  destruct (dedup_hash hc seen (filter (MT t) ((if self then [n] else []) ++ ancestors n))) as [l seen'].
  rewrite IH. reflexivity.
Qed.

Lemma oflat_map_nodes : forall ch CH,
  (forall n ln, SEL CH n = Val ln -> nodes_of (LSEL ch n) = nodes_of ln) ->
  forall roots l, oflat_map (fun it => SEL CH (it_node it)) roots = Val l ->
  flat_map (fun n => nodes_of (LSEL ch n)) (nodes_of roots) = nodes_of l.
Proof.
  intros ch CH H. induction roots as [|a roots IH]; intros l E.
  - cbn in E. inversion E. reflexivity.
  - cbn [oflat_map] in E. apply obind_val_inv' in E. destruct E as (x & Ex & E).
    apply obind_val_inv' in E. destruct E as (y & Ey & E). inversion E; subst.
    cbn [nodes_of map flat_map]. fold (nodes_of roots). rewrite (H _ _ Ex), (IH _ Ey).
    rewrite nodes_of_app. reflexivity.
Qed.

Theorem lsel2_sel : forall q Q, corr2 q Q -> forall c l, SEL Q c = Val l -> LSEL q c = l.
Proof.
  intros q Q H.
  induction H as [| |t i I H IH|t i I H IH|t i I H IH|t i I H IH|self t i I H IH
                  |np pred i I P H IH HP|sb t i I H IH|sb t i I H IH|self t i I H IH|i I H IH
                  |l r L R0 Hl IHl Hr IHr|i ch I CH Hi IHi Hc IHc];
    intros c l0 E.
  - cbn in E. inversion E. reflexivity.
  - cbn in E. inversion E. reflexivity.
  - change (SEL (QChild t I) c) with (do x <- SEL I c; Val (over (lchild D (MT t)) x)) in E.
    apply obind_val_inv' in E. destruct E as (x & E0 & E). inversion E; subst.
    cbn [lsel2]. rewrite (IH c x E0). reflexivity.
  - change (SEL (QAttribute t I) c) with (do x <- SEL I c; Val (over (lattr D (MT t)) x)) in E.
    apply obind_val_inv' in E. destruct E as (x & E0 & E). inversion E; subst.
    cbn [lsel2]. rewrite (IH c x E0). reflexivity.
  - change (SEL (QSelf t I) c) with (do x <- SEL I c; Val (over (lself (MT t)) x)) in E.
    apply obind_val_inv' in E. destruct E as (x & E0 & E). inversion E; subst.
    cbn [lsel2]. rewrite (IH c x E0). reflexivity.
  - change (SEL (QParent t I) c) with (do x <- SEL I c; Val (over (lparent (MT t)) x)) in E.
    apply obind_val_inv' in E. destruct E as (x & E0 & E). inversion E; subst.
    cbn [lsel2]. rewrite (IH c x E0). reflexivity.
  - change (SEL (QDescendant self t I) c) with (do x <- SEL I c; Val (over (ldesc D (MT t) self) x)) in E.
    apply obind_val_inv' in E. destruct E as (x & E0 & E). inversion E; subst.
    cbn [lsel2]. rewrite (IH c x E0). reflexivity.
  - rewrite sel_filter in E. apply obind_val_inv' in E. destruct E as (x & E0 & E).
    cbn [lsel2]. rewrite (IH c x E0). eapply lfilter_filter_go; eassumption.
  - destruct sb.
    + change (SEL (QFollowing true t I) c) with (do x <- SEL I c; Val (over (lfsib D (MT t)) x)) in E.
      apply obind_val_inv' in E. destruct E as (x & E0 & E). inversion E; subst.
      cbn [lsel2]. rewrite (IH c x E0). reflexivity.
    + change (SEL (QFollowing false t I) c) with (do x <- SEL I c; Val (over (lfol D (MT t)) x)) in E.
      apply obind_val_inv' in E. destruct E as (x & E0 & E). inversion E; subst.
      cbn [lsel2]. rewrite (IH c x E0). reflexivity.
  - destruct sb.
    + change (SEL (QPreceding true t I) c) with (do x <- SEL I c; Val (over (lpsib (MT t)) x)) in E.
      apply obind_val_inv' in E. destruct E as (x & E0 & E). inversion E; subst.
      cbn [lsel2]. rewrite (IH c x E0). reflexivity.
    + change (SEL (QPreceding false t I) c) with (do x <- SEL I c; Val (over (lpre D (MT t)) x)) in E.
      apply obind_val_inv' in E. destruct E as (x & E0 & E). inversion E; subst.
      cbn [lsel2]. rewrite (IH c x E0). reflexivity.
  - change (SEL (QAncestor self t I) c)
      with (do x <- SEL I c; Val (unnumbered (ancestors_all D has_ns hc self t [] (nodes_of x)))) in E.
    apply obind_val_inv' in E. destruct E as (x & E0 & E). inversion E; subst.
    cbn [lsel2]. rewrite (IH c x E0), lanc_all_eq. reflexivity.
  - change (SEL (QGroup I) c) with (do x <- SEL I c; Val (regroup 1 x)) in E.
    apply obind_val_inv' in E. destruct E as (x & E0 & E). inversion E; subst.
    cbn [lsel2]. rewrite (IH c x E0). reflexivity.
  - change (SEL (QUnion L R0) c)
      with (do a <- SEL L c; do b <- SEL R0 c;
            Val (unnumbered (fst (dedup_hash hc [] (nodes_of a ++ nodes_of b))))) in E.
    apply obind_val_inv' in E. destruct E as (a & Ea & E).
    apply obind_val_inv' in E. destruct E as (b & Eb & E). inversion E; subst.
    cbn [lsel2]. rewrite (IHl c a Ea), (IHr c b Eb). reflexivity.
  - change (SEL (QMerge I CH) c)
      with (do roots <- SEL I c; do x <- oflat_map (fun it => SEL CH (it_node it)) roots;
            Val (unnumbered (nodes_of x))) in E.
    apply obind_val_inv' in E. destruct E as (roots & Er & E).
    apply obind_val_inv' in E. destruct E as (x & Ex & E). inversion E; subst.
    cbn [lsel2]. f_equal.
    rewrite <- (flat_map_map' (fun n => nodes_of (LSEL ch n)) it_node (LSEL i c)).
    fold (nodes_of (LSEL i c)). rewrite (IHi c roots Er).
    apply (oflat_map_nodes ch CH); [|exact Ex].
    intros n ln En. rewrite (IHc n ln En). reflexivity.
Qed.

(** ** MAIN: the refinement theorem for all modelled query types:
    a fresh M1 query driven by repeated Select calls returns exactly the items
    (node, position(), depth()) of the list-level model, then nil; the same
    nodes when the driver is NodeIterator.MoveNext. *)
Theorem m1_refines_list2 : forall q Q c l F n,
  corr2 q Q -> SEL Q c = Val l ->
  need2 D hc MT q c <= F -> List.length l < n ->
  drain_items2 D hc MT F n (fresh2 q) c = l /\
  drain2 D hc MT F n (fresh2 q) c = nodes_of l /\
  iterate_items2 D hc MT F n (fresh2 q) c = l.
Proof.
  intros q Q c l F n HC HS HF Hn. pose proof (lsel2_sel q Q HC c l HS) as El. subst l.
  unfold drain2.
  rewrite (drain_items2_lsel2 D hc MT q c F n HF Hn), (iterate_items2_lsel2 D hc MT q c F n HF Hn).
  repeat split; reflexivity.
Qed.

(* full runs: end with nil (not Stuck); Select leaves t.Current() alone *)
Corollary m1_run2 : forall q Q c l F n,
  corr2 q Q -> SEL Q c = Val l -> need2 D hc MT q c <= F -> List.length l < n ->
  exists st', run2 D hc MT F n (fresh2 q) c = (l, E_nil, st', c).
Proof.
  intros q Q c l F n HC HS HF Hn. pose proof (lsel2_sel q Q HC c l HS) as El. subst l.
  destruct (run2_fresh D hc MT q c F n HF Hn) as (st' & E & _). exists st'. exact E.
Qed.

(* compatibility with the statement before Eval.step_following was given level 0:
   norm used to zero the levels of a top-level following:: step *)
Definition norm (q : qconfig2) (l : list item) : list item := l.
Lemma norm_id : forall q l, norm q l = l.
Proof. reflexivity. Qed.

(** ** the single steps from the context node *)
Theorem drain_following_sibling : forall t c F n,
  3 <= F -> List.length (step_following_sibling D has_ns t c) < n ->
  drain_items2 D hc MT F n (fresh2 (C2Following true t C2Context)) c = step_following_sibling D has_ns t c.
Proof.
  intros t c F n HF Hn.
  assert (E : LSEL (C2Following true t C2Context) c = step_following_sibling D has_ns t c) by apply over_single.
  rewrite drain_items2_lsel2; [exact E | cbn [need2 lsel2 List.length]; lia | rewrite E; exact Hn].
Qed.

Theorem drain_preceding_sibling : forall t c F n,
  3 <= F -> List.length (step_preceding_sibling D has_ns t c) < n ->
  drain_items2 D hc MT F n (fresh2 (C2Preceding true t C2Context)) c = step_preceding_sibling D has_ns t c.
Proof.
  intros t c F n HF Hn.
  assert (E : LSEL (C2Preceding true t C2Context) c = step_preceding_sibling D has_ns t c) by apply over_single.
  rewrite drain_items2_lsel2; [exact E | cbn [need2 lsel2 List.length]; lia | rewrite E; exact Hn].
Qed.

Theorem drain_following : forall t c F n,
  3 <= F -> List.length (step_following D has_ns t c) < n ->
  drain_items2 D hc MT F n (fresh2 (C2Following false t C2Context)) c = step_following D has_ns t c.
Proof.
  intros t c F n HF Hn.
  assert (E : LSEL (C2Following false t C2Context) c = step_following D has_ns t c) by apply over_single.
  rewrite drain_items2_lsel2; [exact E | cbn [need2 lsel2 List.length]; lia | rewrite E; exact Hn].
Qed.

Theorem drain_preceding : forall t c F n,
  3 <= F -> List.length (step_preceding D has_ns t c) < n ->
  drain_items2 D hc MT F n (fresh2 (C2Preceding false t C2Context)) c = step_preceding D has_ns t c.
Proof.
  intros t c F n HF Hn.
  assert (E : LSEL (C2Preceding false t C2Context) c = step_preceding D has_ns t c) by apply over_single.
  rewrite drain_items2_lsel2; [exact E | cbn [need2 lsel2 List.length]; lia | rewrite E; exact Hn].
Qed.

End Link2.

(* ================================================================== *)
(** * 8. Closedness *)
Print Assumptions Rep_reset2.
Print Assumptions drain_items2_lsel2.
Print Assumptions iterate_items2_lsel2.
Print Assumptions run2_fresh.
Print Assumptions evaluate_resets2.
Print Assumptions clone_forgets2.
Print Assumptions clone_same_results2.
Print Assumptions context_preserved2.
Print Assumptions exhausted_stable2.
Print Assumptions exhausted_forever2.
Print Assumptions lsel2_sel.
Print Assumptions m1_refines_list2.
Print Assumptions m1_run2.
Print Assumptions drain_following_sibling.
Print Assumptions drain_preceding_sibling.
Print Assumptions drain_following.
Print Assumptions drain_preceding.
Print Assumptions fsib_Rep.
Print Assumptions psib_Rep.
Print Assumptions group_Rep.
Print Assumptions anc_Rep.
Print Assumptions union_Rep.
Print Assumptions merge_Rep.
Print Assumptions fdoc_Rep.
Print Assumptions pdoc_Rep.

(* ================================================================== *)
(** * 9. Examples (document of AxesSound.Examples:
      <a x="1" y="2"><b>t</b><c z="3"><d/><!--k--></c><e/></a>) *)

Module M2Examples.
Import AxesSound.Examples.
Open Scope string_scope.

Definition mt := match_test exD false.
Definition hc := hash_code exD.
Definition norx : string -> string -> option bool := fun _ _ => None.
Definition SELx := sel exD false hc norx (fun _ => 0) (fun _ _ _ => "").
Definition dr (q : qconfig2) (c : node) : list item := drain_items2 exD hc mt 40 40 (fresh2 q) c.
Definition drn (q : qconfig2) (c : node) : list node := drain2 exD hc mt 40 40 (fresh2 q) c.

Definition dos := C2Descendant true any_t C2Context.
Definition Qdos := QDescendant true any_t QContext.

(* 1. following-sibling / preceding-sibling of every node *)
Example ex_fsib : drn (C2Following true any_t dos) root_node = [n_c; n_e; n_e; n_k].
Proof. vm_compute. reflexivity. Qed.
Example ex_fsib_list : SELx (QFollowing true any_t Qdos) root_node = Val (dr (C2Following true any_t dos) root_node).
Proof. vm_compute. reflexivity. Qed.
Example ex_psib : map (fun it => (it_node it, it_pos it)) (dr (C2Preceding true any_t dos) root_node)
                  = [(n_b,1); (n_d,1); (n_c,1); (n_b,2)].
Proof. vm_compute. reflexivity. Qed.
Example ex_psib_list : SELx (QPreceding true any_t Qdos) root_node = Val (dr (C2Preceding true any_t dos) root_node).
Proof. vm_compute. reflexivity. Qed.

(* 3. groupQuery and a filter over a group:  (//node())[position() = 3] ; posit runs over the whole input *)
Example ex_group : map it_pos (dr (C2Group dos) root_node) = [1;2;3;4;5;6;7;8].
Proof. vm_compute. reflexivity. Qed.
Example ex_group_list : SELx (QGroup Qdos) root_node = Val (dr (C2Group dos) root_node).
Proof. vm_compute. reflexivity. Qed.
Example ex_group_filter : drn (C2Filter false (fun _ k => Nat.eqb k 3) (C2Group dos)) root_node = [n_b].
Proof. vm_compute. reflexivity. Qed.
Definition three : query := QNum (F64.of_Z 3).
Example ex_group_filter_list :
  SELx (QFilter false (QGroup Qdos) three) root_node =
  Val (dr (C2Filter false (pred_of exD false hc norx (fun _ => 0) (fun _ _ _ => "") three) (C2Group dos)) root_node).
Proof. vm_compute. reflexivity. Qed.

(* 2. ancestor-or-self of every node: each node once (the table) *)
Example ex_anc : drn (C2Ancestor true any_t dos) root_node = [root_node; n_a; n_b; n_t; n_c; n_d; n_k; n_e].
Proof. vm_compute. reflexivity. Qed.
Example ex_anc_attr : drn (C2Ancestor false elem_t (C2Attribute any_t dos)) root_node = [n_a; n_c].
Proof. vm_compute. reflexivity. Qed.
Example ex_anc_list : SELx (QAncestor true any_t Qdos) root_node = Val (dr (C2Ancestor true any_t dos) root_node).
Proof. vm_compute. reflexivity. Qed.

(* 4. union *)
Definition q_union := C2Union (C2Child any_t (C2Child any_t C2Context)) dos.
Example ex_union : drn q_union n_a = [n_t; n_d; n_k; n_a; n_b; n_c; n_e].
Proof. vm_compute. reflexivity. Qed.
Example ex_union_list :
  SELx (QUnion (QChild any_t (QChild any_t QContext)) Qdos) n_a = Val (dr q_union n_a).
Proof. vm_compute. reflexivity. Qed.

(* 5. merge:  //*  /  node()  *)
Definition q_merge := C2Merge (C2Child elem_t dos) (C2Child any_t C2Context).
Example ex_merge : drn q_merge root_node = [n_b; n_c; n_e; n_t; n_d; n_k].
Proof. vm_compute. reflexivity. Qed.
Example ex_merge_list :
  SELx (QMerge (QChild elem_t Qdos) (QChild any_t QContext)) root_node = Val (dr q_merge root_node).
Proof. vm_compute. reflexivity. Qed.

(* 6. following:: / preceding:: *)
Example ex_following : map (fun it => (it_node it, it_pos it)) (dr (C2Following false any_t C2Context) n_b)
                       = [(n_c,1); (n_d,2); (n_k,3); (n_e,1)].
Proof. vm_compute. reflexivity. Qed.
Example ex_following_attr : drn (C2Following false any_t C2Context) n_ax = [n_b; n_t; n_c; n_d; n_k; n_e].
Proof. vm_compute. reflexivity. Qed.
Example ex_preceding : map (fun it => (it_node it, it_pos it)) (dr (C2Preceding false any_t C2Context) n_k)
                       = [(n_d,1); (n_b,1); (n_t,2)].
Proof. vm_compute. reflexivity. Qed.
Example ex_preceding_list :
  SELx (QPreceding false any_t (QAttribute any_t Qdos)) root_node =
  Val (dr (C2Preceding false any_t (C2Attribute any_t dos)) root_node).
Proof. vm_compute. reflexivity. Qed.
Example ex_following_list :
  SELx (QFollowing false any_t QContext) n_b = Val (dr (C2Following false any_t C2Context) n_b).
Proof. vm_compute. reflexivity. Qed.

(* the hypotheses of m1_refines_list2 are satisfiable *)
Example ex_refines2 :
  exists Q l, corr2 exD false hc norx (fun _ => 0) (fun _ _ _ => "") q_merge Q /\
              SELx Q root_node = Val l /\ need2 exD hc mt q_merge root_node <= 40 /\ List.length l < 40.
Proof.
  exists (QMerge (QChild elem_t Qdos) (QChild any_t QContext)). eexists.
  split; [repeat constructor|]. split; [vm_compute; reflexivity|]. split; vm_compute; lia.
Qed.
Example ex_need2 : need2 exD hc mt q_merge root_node = 10 /\ need2 exD hc mt q_union n_a <= 10.
Proof. vm_compute. split; [reflexivity|lia]. Qed.

(* ---- protocol ---- *)
Definition st3 : qstate2 := snd (fst (run2 exD hc mt 40 3 (fresh2 (C2Group q_merge)) root_node)).
Example ex_st3 : drain2 exD hc mt 40 3 (fresh2 (C2Group q_merge)) root_node = [n_b; n_c; n_e]
                 /\ position2 st3 = 3.
Proof. vm_compute. split; reflexivity. Qed.
Example ex_evaluate2 :
  drain_items2 exD hc mt 40 40 (evaluate2 st3) root_node = dr (C2Group q_merge) root_node /\
  position2 (evaluate2 st3) = 0 /\
  drain2 exD hc mt 40 40 st3 root_node = [n_t; n_d; n_k].
Proof. vm_compute. repeat split; reflexivity. Qed.
Example ex_clone2 : clone2 st3 = fresh2 (C2Group q_merge).
Proof. vm_compute. reflexivity. Qed.
(* ancestorQuery: Evaluate forgets the table (repair 9621d71) *)
Definition st_anc : qstate2 := snd (fst (run2 exD hc mt 40 2 (fresh2 (C2Ancestor true any_t dos)) root_node)).
Example ex_anc_evaluate :
  drain2 exD hc mt 40 40 (evaluate2 st_anc) root_node = drn (C2Ancestor true any_t dos) root_node.
Proof. vm_compute. reflexivity. Qed.
(* with NodeIterator.MoveNext moving t.Current() the results are the same *)
Example ex_iterate_merge : iterate2 exD hc mt 40 40 (fresh2 q_merge) root_node = drn q_merge root_node.
Proof. vm_compute. reflexivity. Qed.

(* ---- mergeQuery without the repair 231c797 leaves t.Current() on the input node ---- *)
Definition kids_of_ctx_sel := child_select exD ctx_select (mt any_t) 5.
Definition merge_demo (restore : bool) :=
  iter_loop (merge_body_gen restore kids_of_ctx_sel kids_of_ctx_sel
                            (eval_q2 (C2Child any_t C2Context)) 5) 5
            (mkMerge LI_none (mkChild 0 CI_none 0) (mkChild 0 CI_none 0)) root_node.
Example ex_merge_unrepaired :
  match merge_demo false with
  | R o _ cur' => o = Some n_b /\ cur' = n_a /\ cur' <> root_node
  | Stuck => False
  end.
Proof. vm_compute. repeat split; discriminate. Qed.
Example ex_merge_repaired :
  match merge_demo true with
  | R o _ cur' => o = Some n_b /\ cur' = root_node
  | Stuck => False
  end.
Proof. vm_compute. split; reflexivity. Qed.

(* ---- regression: a filter directly over following:: reads level 0 (followingQuery has
        no depth() method).  following::node()[true()][2]  from <b>  is [d], in Go, in the
        cursor model and -- since step_following carries level 0 -- in Eval.sel; with the
        inner descendant depth as level Eval.sel used to give [k; e] ---- *)
Definition ptrue := pred_of exD false hc norx (fun _ => 0) (fun _ _ _ => "") (QFn0 FTrue).
Definition ptwo := pred_of exD false hc norx (fun _ => 0) (fun _ _ _ => "") (QNum (F64.of_Z 2)).
Definition Q_fol_2 : query :=
  QFilter false (QFilter false (QFollowing false any_t QContext) (QFn0 FTrue)) (QNum (F64.of_Z 2)).
Definition q_fol_2 : qconfig2 :=
  C2Filter false ptwo (C2Filter false ptrue (C2Following false any_t C2Context)).
Example ex_eval_lvl_regression :
  omap nodes_of (SELx Q_fol_2 n_b) = Val [n_d] /\
  drn q_fol_2 n_b = [n_d] /\
  SELx Q_fol_2 n_b = Val (dr q_fol_2 n_b) /\
  corr2 exD false hc norx (fun _ => 0) (fun _ _ _ => "") q_fol_2 Q_fol_2.
Proof.
  split; [vm_compute; reflexivity|]. split; [vm_compute; reflexivity|]. split; [vm_compute; reflexivity|].
  unfold q_fol_2, Q_fol_2, ptwo, ptrue. repeat (apply corr2_pred_of || constructor).
Qed.

End M2Examples.

(* ================================================================== *)
(** * 10. Coherence with Iter.v, and the closures never run out of fuel *)

Section Coherence.
Variable D : tree.
Variable hcode : node -> N.
Variable tst : ntest -> node -> bool.

Lemma lsel2_embed : forall q c, lsel2 D hcode tst (embed q) c = lsel D tst q c.
Proof. induction q; intros c; cbn [embed lsel2 lsel]; try rewrite IHq; reflexivity. Qed.

Lemma need2_embed : forall q c, need2 D hcode tst (embed q) c = need D tst q c.
Proof. induction q; intros c; cbn [embed need2 need]; try rewrite IHq, lsel2_embed; reflexivity. Qed.

(* the extended model run on an old configuration delivers what the old model delivers *)
Corollary drain2_embed : forall q c F n,
  need D tst q c <= F -> List.length (lsel D tst q c) < n ->
  drain_items2 D hcode tst F n (fresh2 (embed q)) c = drain_items D tst F n (fresh q) c.
Proof.
  intros q c F n HF Hn. rewrite drain_items_lsel by assumption.
  rewrite drain_items2_lsel2; [apply lsel2_embed|rewrite need2_embed; exact HF|rewrite lsel2_embed; exact Hn].
Qed.

Corollary sib_next_never_stuck : forall test nd, sib_next_run D test (dfuel D) nd <> None.
Proof.
  intros test nd E. pose proof (sib_next_run_spec D test (dfuel D) nd (following_length D nd)) as H.
  rewrite E in H. exact H.
Qed.

Corollary sib_prev_never_stuck : forall test nd, sib_prev_run test (prev_fuel nd) nd <> None.
Proof.
  intros test nd E. pose proof (sib_prev_run_spec test (prev_fuel nd) nd (preceding_length nd)) as H.
  rewrite E in H. exact H.
Qed.

Corollary anc_dedup_never_stuck : forall test self nd first tbl,
  anc_dedup hcode self test (S (climb_fuel nd)) nd first tbl <> None.
Proof.
  intros test self nd first tbl E.
  pose proof (anc_dedup_spec hcode test self (S (climb_fuel nd)) nd first tbl (ameasure_lt self nd first)) as H.
  rewrite E in H. exact H.
Qed.

Corollary fol_doc_run_never_stuck : forall test nd q posit hd,
  DocHead D test nd q hd -> fol_doc_run D test (fol_fuel D nd) nd q posit <> None.
Proof.
  intros test nd q posit hd HD E. pose proof (fol_run_spec D test nd q posit hd HD) as H.
  rewrite E in H. unfold fol_run_post in H. destruct hd; [destruct H as (? & H)|destruct H as (? & ? & H & _)];
    discriminate.
Qed.

Corollary pre_doc_run_never_stuck : forall test nd q posit hd,
  PreHead D test nd q posit hd -> pre_doc_run D test (pre_fuel nd) nd q posit <> None.
Proof.
  intros test nd q posit hd HD E. pose proof (pre_run_spec D test nd q posit hd HD) as H.
  rewrite E in H. unfold pre_run_post in H. destruct hd; [destruct H as (? & ? & H)|destruct H as (? & ? & H & _)];
    discriminate.
Qed.

End Coherence.

Print Assumptions drain2_embed.
Print Assumptions fol_doc_run_never_stuck.
Print Assumptions pre_doc_run_never_stuck.
Print Assumptions anc_dedup_never_stuck.

(* ================================================================== *)
(** * Summary

   Model (Model1/Iter2.v): followingQuery and precedingQuery (one state record each, the
   closure being FI_sib / FI_doc resp. PI_sib / PI_doc according to the Sibling flag; the
   inner descendantQuery over a contextQuery of the non-sibling walks is a desc_st nat run by
   Iter.desc_select over Iter.ctx_select), ancestorQuery (closure + table of codes, hcode
   abstract), groupQuery, unionQuery, mergeQuery (merge_body_gen restore: restore = true is the
   repaired code), and the query tree qconfig2 over these and the eight types of Iter.v
   (embed : qconfig -> qconfig2; drain2_embed: same results).

   Refinement (every query type of qconfig2, any nesting):
     per type, from any state of the input that delivers l (Rep):
       fsib_Rep, psib_Rep, group_Rep, anc_Rep, union_Rep, merge_Rep, fdoc_Rep, pdoc_Rep
     Rep_reset2          from every Reset2 state (fresh, cloned, after Evaluate) Select delivers
                         lsel2 q c with position()/depth() after every call; only the first call
                         looks at t.Current()
     lsel2_sel           lsel2 is Eval.sel (items: node, position, level)
     m1_refines_list2    MAIN: corr2 q Q -> sel Q c = Val l -> drain_items2 (fresh2 q) c = l,
                         drain2 = nodes_of l, iterate_items2 (NodeIterator.MoveNext driver) = l
     drain_following_sibling, drain_preceding_sibling, drain_following, drain_preceding
   Protocol (every state, not only reachable ones):
     exhausted_stable2, exhausted_forever2, evaluate_resets2, clone_forgets2,
     clone_same_results2, context_preserved2.
   Fuel: need2 q c <= F suffices for the loops over inputs/operands; the closures use the
   local fuels listed in Iter2.v and never run out (sib_next_never_stuck, sib_prev_never_stuck,
   anc_dedup_never_stuck, fol_doc_run_never_stuck, pre_doc_run_never_stuck).

   Findings (examples in M2Examples):
     - (fixed in Eval.v) Eval.step_following used to give its items the depth of the inner
       descendant walk as it_lvl, but followingQuery has no depth() method, so
       getNodeDepth(followingQuery) = 0; a filterQuery directly over a following:: step read
       the wrong positmap key:  following::node()[true()][2]  from <b> gave [k; e] instead of
       [d].  step_following now carries level 0 (zero_lvl) and ex_eval_lvl_regression checks
       Eval.sel = cursor model = [d].  Only descendantQuery has depth(); every other step of
       Eval.v already had level 0.
     - mergeQuery.Evaluate does not evaluate Child; harmless, Select evaluates it before every use
       (Reset2 says nothing about the child state).
     - without the repair 231c797 mergeQuery.Select leaves t.Current() on the input node
       (ex_merge_unrepaired); with it context_preserved2 holds.
     - no requested protocol fact is false for the repaired code.  The facts rest on three of the
       repairs: groupQuery.Evaluate resetting posit (Reset2 needs g_posit = 0), ancestorQuery.
       Evaluate dropping the table (Reset2 needs n_table = None), mergeQuery restoring the context.
     - the local fuel of ancestor / preceding walks is computed from the cursor's own path, not
       from the document size: for a node address outside the document MoveToParent/
       MoveToPrevious of Doc.v still succeed path-length / index many times. *)
