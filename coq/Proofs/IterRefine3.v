(* Proofs/IterRefine3.v — the complete cursor-level model (Model1/Iter3.v: Select
   and Evaluate of every query type, over Ast.query) refines Eval.sel / Eval.eval,
   and leaves the shared context cursor t.Current() where it found it.
   Continues IterRefine.v / IterRefine2.v (Rep, the combinator lemmas).  Summary
   and coverage table at the end. *)
From XP Require Import Base F64 Doc Ast Hash Eval.
From XP.Model1 Require Import Iter Iter2 Iter3.
From XP.Proofs Require Import AxesSound IterRefine IterRefine2 Filter.
Open Scope nat_scope.
Open Scope list_scope.

(* ================================================================== *)
(** * 0. "for all sufficiently large fuel" *)

Definition Eventually (P : nat -> Prop) : Prop := exists F0, forall F, F0 <= F -> P F.

Lemma ev_and : forall P Q, Eventually P -> Eventually Q -> Eventually (fun F => P F /\ Q F).
Proof.
  intros P Q [F1 H1] [F2 H2]. exists (Nat.max F1 F2). intros F HF. split; [apply H1|apply H2]; lia.
Qed.
Lemma ev_mono : forall (P Q : nat -> Prop), (forall F, P F -> Q F) -> Eventually P -> Eventually Q.
Proof. intros P Q H [F0 H0]. exists F0. intros F HF. apply H, H0, HF. Qed.
Lemma ev_ge : forall n, Eventually (fun F => n <= F).
Proof. intros n. exists n. auto. Qed.
Lemma ev_const : forall P : Prop, P -> Eventually (fun _ => P).
Proof. intros P H. exists 0. auto. Qed.
Lemma ev_Forall : forall {A} (P : A -> nat -> Prop) l,
  (forall a, In a l -> Eventually (P a)) -> Eventually (fun F => Forall (fun a => P a F) l).
Proof.
  intros A P. induction l as [|a l IH]; intros H.
  - exists 0. intros F _. constructor.
  - destruct (H a (or_introl eq_refl)) as [F1 H1].
    destruct (IH (fun x Hx => H x (or_intror Hx))) as [F2 H2].
    exists (Nat.max F1 F2). intros F HF. constructor; [apply H1|apply H2]; lia.
Qed.

(* ================================================================== *)
(** * 1. Delivering a list of nodes (positions and levels forgotten) *)

Definition NRep {W} (sel : W -> node -> res W) (c : node) (b : bool) (w : W) (ln : list node) : Prop :=
  exists pos lvl l, Rep sel pos lvl c b w l /\ nodes_of l = ln.

Lemma NRep_of_Rep : forall {W} (sel : W -> node -> res W) pos lvl c b w l,
  Rep sel pos lvl c b w l -> NRep sel c b w (nodes_of l).
Proof. intros. exists pos, lvl, l. auto. Qed.

Lemma NRep_nil : forall {W} (sel : W -> node -> res W) c b w cur,
  NRep sel c b w [] -> OK c b cur -> exists w', sel w cur = R None w' cur /\ NRep sel c false w' [].
Proof.
  intros W sel c b w cur (pos & lvl & l & HR & El) Hok. destruct l; [|discriminate].
  destruct (Rep_nil_step _ _ _ _ _ _ _ HR Hok) as (w' & E & HR'). exists w'. split; [exact E|].
  exists pos, lvl, []. auto.
Qed.

Lemma NRep_cons : forall {W} (sel : W -> node -> res W) c b w n r cur,
  NRep sel c b w (n :: r) -> OK c b cur ->
  exists w', sel w cur = R (Some n) w' cur /\ NRep sel c false w' r.
Proof.
  intros W sel c b w n r cur (pos & lvl & l & HR & El) Hok. destruct l as [|it l]; [discriminate|].
  cbn in El. inversion El; subst. cbn [Rep] in HR. destruct (HR cur Hok) as (w' & E & _ & _ & HR').
  exists w'. split; [exact E|]. exists pos, lvl, l. auto.
Qed.

(* the fold of a draining loop with early exit *)
Fixpoint lfold {A} (step : A -> node -> A * bool) (acc : A) (ln : list node) : A :=
  match ln with
  | [] => acc
  | n :: r => let '(a', stop) := step acc n in if stop then a' else lfold step a' r
  end.

Section Loops.
Variable D : tree.

Lemma sel_loop_spec : forall {A W} (sel : W -> node -> res W) (step : A -> node -> A * bool) c ln F b w acc cur,
  NRep sel c b w ln -> OK c b cur -> List.length ln < F ->
  exists w', sel_loop sel step F acc w cur = OK3 (lfold step acc ln) w' cur.
Proof.
  intros A W sel step c. induction ln as [|n r IH]; intros F b w acc cur HR Hok HF;
    (destruct F as [|k]; [cbn in HF; lia|]).
  - destruct (NRep_nil _ _ _ _ _ HR Hok) as (w' & E & _). exists w'. cbn [sel_loop]. rewrite E. reflexivity.
  - destruct (NRep_cons _ _ _ _ _ _ _ HR Hok) as (w' & E & HR'). cbn [sel_loop lfold]. rewrite E.
    destruct (step acc n) as [a' stop]. destruct stop; [eauto|].
    apply (IH k false w' a' cur HR' (OK_false c cur)). cbn in HF. lia.
Qed.

Lemma lfold_exists : forall (p : node -> bool) ln,
  lfold (fun (_ : bool) n => (p n, p n)) false ln = existsb p ln.
Proof.
  intros p. induction ln as [|n r IH]; [reflexivity|]. cbn [lfold existsb].
  destruct (p n); [reflexivity|exact IH].
Qed.

Lemma lfold_count : forall (test : node -> bool) ln k,
  lfold (fun acc n => (if test n then S acc else acc, false)) k ln = k + List.length (filter test ln).
Proof.
  intros test. induction ln as [|n r IH]; intros k; cbn [lfold filter]; [cbn; lia|].
  rewrite IH. destruct (test n); cbn [List.length]; lia.
Qed.

Lemma lfold_fold_left : forall {A} (f : A -> node -> A) ln acc,
  lfold (fun a n => (f a n, false)) acc ln = fold_left f ln acc.
Proof. intros A f. induction ln as [|n r IH]; intros acc; cbn [lfold fold_left]; auto. Qed.

Lemma lfold_parts : forall (test : node -> bool) ln acc,
  lfold (fun a n => (if test n then a ++ [node_value D n] else a, false)) acc ln =
  acc ++ map (node_value D) (filter test ln).
Proof.
  intros test. induction ln as [|n r IH]; intros acc; cbn [lfold filter map].
  - rewrite app_nil_r. reflexivity.
  - rewrite IH. destruct (test n); cbn [map]; [rewrite <- app_assoc|]; reflexivity.
Qed.

(* ---- values ---- *)
Definition VRel {W} (c : node) (v : cval W) (w : W) (V : value) : Prop :=
  match v, V with
  | CVS (SBool b), VBool b' => b = b'
  | CVS (SNum f), VNum f' => f = f'
  | CVS (SStr s), VStr s' => s = s'
  | CVS (SInt z), VInt z' => z = z'
  | CVS SNil, VNil => True
  | CVQuery h, VNodes l =>
    NRep (h_sel h) c true w (nodes_of l) /\ forall w', NRep (h_sel h) c true (h_reset h w') (nodes_of l)
  | _, _ => False
  end.

Lemma first_value_spec : forall {W} (h : handle W) c b w ln,
  NRep (h_sel h) c b w ln -> OK c b c ->
  exists w', first_value_c D h w c = OK3 (match ln with [] => None | n :: _ => Some (node_value D n) end) w' c
             /\ NRep (h_sel h) c false w' (tl ln).
Proof.
  intros W h c b w ln HR Hok. unfold first_value_c. destruct ln as [|n r].
  - destruct (NRep_nil _ _ _ _ _ HR Hok) as (w' & E & HR'). rewrite E. eauto.
  - destruct (NRep_cons _ _ _ _ _ _ _ HR Hok) as (w' & E & HR'). rewrite E. eauto.
Qed.

Lemma first_value_nodes : forall l,
  first_value D l = match nodes_of l with [] => None | n :: _ => Some (node_value D n) end.
Proof. intros [|i l]; reflexivity. Qed.

Lemma str_or_first_spec : forall {W} c (v : cval W) w V, VRel c v w V ->
  exists w', str_or_first_c D v w c = OK3 (str_or_first D V) w' c.
Proof.
  intros W c v w V H. destruct v as [[b|f|s|z|]|h]; destruct V; cbn in H; try destruct H;
    unfold str_or_first_c, str_or_first; subst; eauto.
  destruct (first_value_spec h c true w (nodes_of l) H (OK_c c true)) as (w' & E & _).
  rewrite E, first_value_nodes. eauto.
Qed.

Lemma as_string_spec : forall {W} c (v : cval W) w V s, VRel c v w V -> as_string D V = Val s ->
  exists w', as_string_c D v w c = OK3 s w' c.
Proof.
  intros W c v w V s H E. destruct v as [[b|f|x|z|]|h]; destruct V; cbn in H; try destruct H;
    unfold as_string_c; cbn [as_string] in E; try discriminate; inversion E; subst; eauto.
  destruct (first_value_spec h c true w (nodes_of l) H (OK_c c true)) as (w' & E' & _).
  rewrite E', first_value_nodes. eauto.
Qed.

Lemma as_number_spec : forall {W} c (v : cval W) w V, VRel c v w V ->
  exists w', as_number_c D v w c = OK3 (as_number D V) w' c.
Proof.
  intros W c v w V H. destruct v as [[b|f|x|z|]|h]; destruct V; cbn in H; try destruct H;
    unfold as_number_c, as_number; subst; eauto.
  destruct (first_value_spec h c true w (nodes_of l) H (OK_c c true)) as (w' & E' & _).
  rewrite E', first_value_nodes. destruct (nodes_of l); eauto.
Qed.

Lemma as_bool_spec : forall {W} c (v : cval W) w V b, VRel c v w V -> as_bool V = Val b ->
  exists w', as_bool_c v w c = OK3 b w' c.
Proof.
  intros W c v w V b H E. destruct v as [[x|f|x|z|]|h]; destruct V; cbn in H; try destruct H;
    unfold as_bool_c; cbn [as_bool] in E; try discriminate; inversion E; subst; eauto.
  destruct l as [|it l].
  - destruct (NRep_nil _ _ _ _ _ H (OK_c c true)) as (w' & E' & _). rewrite E'. eauto.
  - cbn [nodes_of map] in H. destruct (NRep_cons _ _ _ _ _ _ _ H (OK_c c true)) as (w' & E' & _).
    rewrite E'. eauto.
Qed.

(* functionArgs(arg).Evaluate(t) followed by a consumer *)
Lemma fargs_ok : forall {A W} (isfn : bool) (w0 : W) (aev : W -> node -> eres W)
                        (k : cval W -> W -> node -> cres3 A W) c (P : cval W -> W -> Prop) x,
  (forall s0, exists v w1, aev s0 c = OK3 v w1 c /\ P v w1) ->
  (forall v w1, P v w1 -> exists w2, k v w1 c = OK3 x w2 c) ->
  forall s, exists s', fargs isfn w0 aev k s c = OK3 x s' c.
Proof.
  intros A W isfn w0 aev k c P x Hev Hk s. unfold fargs.
  destruct (Hev (if isfn then s else w0)) as (v & w1 & E & HP). rewrite E.
  destruct (Hk v w1 HP) as (w2 & E2). rewrite E2. eauto.
Qed.

End Loops.

(* ================================================================== *)
(** * 2. The new Select iterators *)

(** ** filterQuery with its predicate query *)
Section Filter3Comb.
Context {St P : Type}.
Variable isel : St -> node -> res St.
Variable ipos ilvl : St -> nat.
Variable c : node.
Variable pev : P -> node -> eres P.
Variable psel : P -> node -> res P.
Variable pred : node -> nat -> bool.       (* what filterQuery.do answers for (candidate, position) *)
Variable F : nat.
Notation RepI := (Rep isel ipos ilvl c).
Notation OKc := (OK c).
Notation f3loop := (iter_loop (filter3_body isel ipos ilvl pev psel)).

(* from ANY state of the predicate, do(t) on this candidate answers pred *)
Definition DoOK (it : item) : Prop :=
  forall ps, exists ps' cur',
    filter_do pev psel (it_pos it) ps (it_node it) = OK3 (pred (it_node it) (it_pos it)) ps' cur'.

Lemma f3loop_S : forall f k pm s ps cur o s1,
  isel s cur = R o s1 cur ->
  f3loop (S f) (mkFilter3 k pm s ps) cur =
  match o with
  | None => R None (mkFilter3 k pm s1 ps) cur
  | Some n =>
    match filter_do pev psel (ipos s1) ps n with
    | OK3 ok ps' _ =>
      if ok then
        R (Some n) (mkFilter3 (S (pm_get (pm_of pm) (ilvl s1)))
                              (Some (pm_set (pm_of pm) (ilvl s1) (S (pm_get (pm_of pm) (ilvl s1))))) s1 ps') cur
      else f3loop f (mkFilter3 k pm s1 ps') cur
    | _ => Stuck
    end
  end.
Proof.
  intros f k pm s ps cur o s1 E. cbn [iter_loop]. unfold filter3_body at 1.
  cbn [f3_in f3_pm f3_posit f3_pred]. rewrite E. destruct o as [n|]; [|reflexivity].
  destruct (filter_do pev psel (ipos s1) ps n) as [ok ps' cur'| |]; reflexivity.
Qed.

Lemma filter3_loop : forall l f s k pm ps b cur, RepI b s l -> Forall DoOK l -> OKc b cur -> List.length l < f ->
  match lfilter pred l pm with
  | [] => exists s' ps', f3loop f (mkFilter3 k (Some pm) s ps) cur = R None (mkFilter3 k (Some pm) s' ps') cur /\
                         RepI false s' []
  | it :: r => exists s' ps' pm' l',
      f3loop f (mkFilter3 k (Some pm) s ps) cur =
      R (Some (it_node it)) (mkFilter3 (it_pos it) (Some pm') s' ps') cur /\
      it_lvl it = 0 /\ RepI false s' l' /\ Forall DoOK l' /\ List.length l' <= List.length l /\
      r = lfilter pred l' pm'
  end.
Proof.
  induction l as [|a l IH]; intros f s k pm ps b cur HR HD Hok Hlen; (destruct f as [|f']; [cbn in Hlen; lia|]).
  - cbn [lfilter]. destruct (Rep_nil_step _ _ _ _ _ _ _ HR Hok) as (s' & E & HR').
    exists s', ps. rewrite (f3loop_S _ _ _ _ _ _ _ _ E). auto.
  - cbn [Rep] in HR. destruct (HR cur Hok) as (s1 & E & Hp & Hl & HR1).
    inversion HD as [|? ? Da Dl]; subst.
    cbn [lfilter]. rewrite (f3loop_S _ _ _ _ _ _ _ _ E). rewrite Hp, Hl. cbn [pm_of].
    destruct (Da ps) as (ps1 & cur1 & Ed). rewrite Ed.
    destruct (pred (it_node a) (it_pos a)).
    + eexists s1, ps1, _, l. cbn [it_node it_pos it_lvl List.length]. repeat split; auto.
    + specialize (IH f' s1 k pm ps1 false cur HR1 Dl (OK_false c cur) ltac:(cbn in Hlen; lia)).
      destruct (lfilter pred l pm) as [|it r]; [exact IH|].
      destruct IH as (s' & ps' & pm' & l' & E' & Hl' & HR' & HD' & Hlen' & Er).
      exists s', ps', pm', l'. cbn [List.length]. repeat split; auto.
Qed.

Definition Filter3Inv (b : bool) (st : filter3_st St P) (out : list item) : Prop :=
  exists l, RepI b (f3_in st) l /\ Forall DoOK l /\ List.length l < F /\
            out = lfilter pred l (pm_of (f3_pm st)).

Lemma filter3_Rep_inv : forall b st out, Filter3Inv b st out ->
  Rep (filter3_select isel ipos ilvl pev psel F) f3_posit (fun _ => 0) c b st out.
Proof.
  intros b st out HI. revert b st HI. apply (Rep_of_inv _ _ _ _ Filter3Inv).
  - intros b [k pm s ps] cur (l & HR & HD & Hlen & E0) Hok. cbn [f3_in f3_pm] in *.
    pose proof (filter3_loop l F s k (pm_of pm) ps b cur HR HD Hok Hlen) as H. rewrite <- E0 in H.
    destruct H as (s' & ps' & E & HR'). eexists. split; [exact E|].
    exists []. cbn [f3_in]. split; [exact HR'|]. split; [constructor|]. split; [cbn; lia|reflexivity].
  - intros b [k pm s ps] it r cur (l & HR & HD & Hlen & E0) Hok. cbn [f3_in f3_pm] in *.
    pose proof (filter3_loop l F s k (pm_of pm) ps b cur HR HD Hok Hlen) as H. rewrite <- E0 in H.
    destruct H as (s' & ps' & pm' & l' & E & Hl & HR' & HD' & Hlen' & Er).
    eexists. split; [exact E|]. cbn [f3_posit]. repeat split; auto.
    exists l'. cbn [f3_in f3_pm pm_of]. split; [exact HR'|]. split; [exact HD'|]. split; [lia|exact Er].
Qed.

Lemma filter3_Rep : forall l b s k ps, RepI b s l -> Forall DoOK l -> List.length l < F ->
  Rep (filter3_select isel ipos ilvl pev psel F) f3_posit (fun _ => 0) c b (mkFilter3 k None s ps)
      (lfilter pred l []).
Proof.
  intros l b s k ps HR HD Hlen. apply filter3_Rep_inv. exists l. cbn [f3_in f3_pm pm_of]. repeat split; auto.
Qed.

End Filter3Comb.

(** ** transformFunctionQuery / reverse *)
Lemma firstn_S_nth : forall {A} (l : list A) j x, nth_error l j = Some x -> firstn (S j) l = firstn j l ++ [x].
Proof.
  induction l as [|y l IH]; intros [|j] x E; cbn in E; try discriminate.
  - inversion E. reflexivity.
  - change (firstn (S (S j)) (y :: l)) with (y :: firstn (S j) l). rewrite (IH j x E). reflexivity.
Qed.

Section RevComb.
Context {St : Type}.
Variable isel : St -> node -> res St.
Variable ipos ilvl : St -> nat.
Variable c : node.
Variable F : nat.
Notation RepI := (Rep isel ipos ilvl c).

Definition RevInv (b : bool) (st : rev_st St) (out : list item) : Prop :=
  match rv_it st with
  | LI_none => exists l, RepI b (rv_in st) l /\ List.length l < F /\ out = unnumbered (rev (nodes_of l))
  | LI_iter lst i => i <= List.length lst /\ out = unnumbered (rev (firstn i lst))
  end.

Lemma rev_step : forall b st cur out, RevInv b st out -> OK c b cur ->
  match out with
  | [] => exists st', rev_select isel F st cur = R None st' cur /\ RevInv false st' []
  | it :: r => exists st', rev_select isel F st cur = R (Some (it_node it)) st' cur /\
                           it_pos it = 1 /\ it_lvl it = 0 /\ RevInv false st' r
  end.
Proof.
  intros b [it s] cur out HI Hok. unfold RevInv in HI. cbn [rv_it rv_in] in HI.
  assert (Hiter : forall lst i s0, i <= List.length lst -> out = unnumbered (rev (firstn i lst)) ->
    match out with
    | [] => exists st', (let '(o, i') := rev_next lst i in R o (mkRev (LI_iter lst i') s0) cur) = R None st' cur /\
                        RevInv false st' []
    | it :: r => exists st', (let '(o, i') := rev_next lst i in R o (mkRev (LI_iter lst i') s0) cur)
                             = R (Some (it_node it)) st' cur /\
                             it_pos it = 1 /\ it_lvl it = 0 /\ RevInv false st' r
    end).
  { intros lst i s0 Hi Eo. destruct i as [|j]; cbn [rev_next].
    - cbn [firstn rev unnumbered map] in Eo. subst out. eexists. split; [reflexivity|].
      unfold RevInv. cbn [rv_it]. split; [lia|reflexivity].
    - destruct (nth_error lst j) as [x|] eqn:En; [|apply nth_error_None in En; lia].
      rewrite (firstn_S_nth _ _ _ En), rev_app_distr in Eo. cbn [rev app unnumbered map] in Eo. subst out.
      cbn [it_node it_pos it_lvl]. eexists. split; [reflexivity|]. repeat split.
      unfold RevInv. cbn [rv_it]. lia. }
  destruct it as [|lst i].
  - destruct HI as (l & HR & Hl & Eo). unfold rev_select. cbn [rv_it rv_in].
    destruct (mcollect_spec isel ipos ilvl c l F s b cur [] HR Hok Hl) as (s' & Em). rewrite Em. cbn [app].
    apply Hiter; [lia|]. rewrite firstn_all. exact Eo.
  - destruct HI as [Hi Eo]. unfold rev_select. cbn [rv_it rv_in]. apply Hiter; assumption.
Qed.

Lemma rev_Rep : forall l b s, RepI b s l -> List.length l < F ->
  Rep (rev_select isel F) (fun _ => 1) (fun _ => 0) c b (mkRev LI_none s) (unnumbered (rev (nodes_of l))).
Proof.
  intros l b s HR Hl. apply (Rep_of_inv _ _ _ _ RevInv).
  - intros b0 st cur HI Hok. exact (rev_step b0 st cur [] HI Hok).
  - intros b0 st it r cur HI Hok. destruct (rev_step b0 st cur (it :: r) HI Hok) as (st' & E & Hp & Hlv & HI').
    exists st'. repeat split; auto.
  - unfold RevInv. cbn [rv_it rv_in]. exists l. auto.
Qed.

End RevComb.

(** ** booleanQuery.Select *)
Definition bool_list (isor : bool) (la lb : list node) : list node :=
  if isor then la ++ lb
  else match rev lb with
       | x :: _ => [x]
       | [] => match rev la with x :: _ => [x] | [] => [] end
       end.

Section BoolComb.
Context {L R' : Type}.
Variable lsel : L -> node -> res L.
Variable lpos llvl : L -> nat.
Variable rsel : R' -> node -> res R'.
Variable rpos rlvl : R' -> nat.
Variable c : node.
Variable isor : bool.
Variable F : nat.

Definition BoolInv (b : bool) (st : bool_st L R') (out : list item) : Prop :=
  match bo_it st with
  | LI_none => exists l1 l2,
      Rep lsel lpos llvl c b (bo_l st) l1 /\ Rep rsel rpos rlvl c b (bo_r st) l2 /\
      List.length l1 < F /\ List.length l2 < F /\
      out = unnumbered (bool_list isor (nodes_of l1) (nodes_of l2))
  | LI_iter lst i => out = unnumbered (skipn i lst)
  end.

Lemma bool_step : forall b st cur out, BoolInv b st out -> OK c b cur ->
  match out with
  | [] => exists st', bool_select lsel rsel isor F st cur = R None st' cur /\ BoolInv false st' []
  | it :: r => exists st', bool_select lsel rsel isor F st cur = R (Some (it_node it)) st' cur /\
                           it_pos it = 1 /\ it_lvl it = 0 /\ BoolInv false st' r
  end.
Proof.
  intros b [it sl sr] cur out HI Hok. unfold BoolInv in HI. cbn [bo_it bo_l bo_r] in HI.
  assert (Hiter : forall lst i sl sr, out = unnumbered (skipn i lst) ->
    match out with
    | [] => exists st', (let '(o, i') := list_next lst i in
                         R o (mkBoolSt (LI_iter lst i') sl sr) cur) = R None st' cur /\ BoolInv false st' []
    | it :: r => exists st', (let '(o, i') := list_next lst i in
                              R o (mkBoolSt (LI_iter lst i') sl sr) cur) = R (Some (it_node it)) st' cur /\
                             it_pos it = 1 /\ it_lvl it = 0 /\ BoolInv false st' r
    end).
  { intros lst i sl0 sr0 Eo. unfold list_next. destruct (nth_error lst i) as [x|] eqn:En.
    - rewrite (skipn_nth_some _ _ _ En) in Eo. subst out. cbn [unnumbered map it_node it_pos it_lvl].
      eexists. split; [reflexivity|]. repeat split.
    - rewrite (skipn_nth_none _ _ En) in Eo. subst out. cbn [unnumbered map].
      eexists. split; [reflexivity|]. unfold BoolInv. cbn [bo_it]. rewrite (skipn_nth_none _ _ En). reflexivity. }
  destruct it as [|lst i].
  - destruct HI as (l1 & l2 & HR1 & HR2 & Hl1 & Hl2 & Eo).
    unfold bool_select. cbn [bo_it bo_l bo_r].
    destruct (mcollect_spec lsel lpos llvl c l1 F sl b cur [] HR1 Hok Hl1) as (sl' & E1). rewrite E1.
    destruct (mcollect_spec rsel rpos rlvl c l2 F sr b cur [] HR2 Hok Hl2) as (sr' & E2). rewrite E2.
    cbn [app]. apply Hiter. exact Eo.
  - unfold bool_select. cbn [bo_it bo_l bo_r]. apply Hiter. exact HI.
Qed.

Lemma bool_Rep : forall l1 l2 b sl sr,
  Rep lsel lpos llvl c b sl l1 -> Rep rsel rpos rlvl c b sr l2 ->
  List.length l1 < F -> List.length l2 < F ->
  Rep (bool_select lsel rsel isor F) (fun _ => 1) (fun _ => 0) c b (mkBoolSt LI_none sl sr)
      (unnumbered (bool_list isor (nodes_of l1) (nodes_of l2))).
Proof.
  intros l1 l2 b sl sr H1 H2 Hl1 Hl2. apply (Rep_of_inv _ _ _ _ BoolInv).
  - intros b0 st cur HI Hok. exact (bool_step b0 st cur [] HI Hok).
  - intros b0 st it r cur HI Hok. destruct (bool_step b0 st cur (it :: r) HI Hok) as (st' & E & Hp & Hlv & HI').
    exists st'. repeat split; auto.
  - unfold BoolInv. cbn [bo_it bo_l bo_r]. exists l1, l2. auto.
Qed.

End BoolComb.

(** ** logicalQuery.Select *)
Section LogicSel.
Context {L R' : Type}.
Variable D : tree.
Variable F : nat.
Variable op : cmpop.
Variable lev : L -> node -> eres L.
Variable rev' : R' -> node -> eres R'.
Variable c : node.
Variable bres : bool.
Hypothesis Hev : forall st, exists st', logical_ev D F op lev rev' st c = OK3 bres st' c.

Lemma logical_select_Rep : forall sl sr,
  Rep (logical_select D F op lev rev') (fun _ => 1) (fun _ => 0) c true (mkLogic false sl sr)
      (if bres then [mkItem c 1 0] else []).
Proof.
  intros sl sr.
  apply (Rep_of_inv _ _ _ _
           (fun b st out => (b = true /\ lg_done st = false /\ out = if bres then [mkItem c 1 0] else [])
                            \/ (lg_done st = true /\ out = []))).
  - intros b st cur HI Hok. destruct HI as [(-> & Hd & Eo)|(Hd & _)].
    + rewrite (Hok eq_refl). unfold logical_select. rewrite Hd. destruct (Hev st) as (st' & E). rewrite E.
      destruct bres; [discriminate|]. eexists. split; [reflexivity|]. right. cbn [lg_done]. auto.
    + exists st. unfold logical_select. rewrite Hd. split; [reflexivity|]. right. auto.
  - intros b st it r cur HI Hok. destruct HI as [(-> & Hd & Eo)|(Hd & Eo)]; [|discriminate].
    rewrite (Hok eq_refl). unfold logical_select. rewrite Hd. destruct (Hev st) as (st' & E). rewrite E.
    destruct bres; [|discriminate]. inversion Eo; subst. cbn [it_node it_pos it_lvl].
    eexists. split; [reflexivity|]. repeat split. right. cbn [lg_done]. auto.
  - left. cbn [lg_done]. auto.
Qed.

End LogicSel.

(* a Select that always answers nil (functionQuery, constantQuery, ...) *)
Lemma nil_Rep : forall {W} c b (w : W),
  Rep (fun (st : W) (cur : node) => R None st cur) (fun _ => 1) (fun _ => 0) c b w [].
Proof.
  intros W c b w. cbn [Rep]. exists (fun _ _ => True). split; [exact I|].
  intros b0 x cur _ _. exists x. auto.
Qed.

(* ================================================================== *)
(** * 3. operator.go and func.go against Eval.v *)

Definition vlen (V : value) : nat := match V with VNodes l => List.length l | _ => 0 end.
Definition sval_val (x : sval) : value :=
  match x with SBool b => VBool b | SNum f => VNum f | SStr s => VStr s | SInt z => VInt z | SNil => VNil end.

Lemma existsb_map : forall {A B} (p : B -> bool) (f : A -> B) l, existsb p (map f l) = existsb (fun x => p (f x)) l.
Proof. induction l as [|x l IH]; cbn [map existsb]; [reflexivity|]. rewrite IH. reflexivity. Qed.
Lemma existsb_false : forall {A} (l : list A), existsb (fun _ => false) l = false.
Proof. induction l; cbn; auto. Qed.
Lemma fold_left_map' : forall {A B C} (f : A -> C -> A) (g : B -> C) l acc,
  fold_left f (map g l) acc = fold_left (fun a x => f a (g x)) l acc.
Proof. induction l as [|x l IH]; intros acc; cbn [map fold_left]; auto. Qed.

Section Ops.
Variable D : tree.

Lemma values_of_nodes : forall l, values_of D l = map (node_value D) (nodes_of l).
Proof. intros l. unfold values_of, nodes_of. rewrite map_map. reflexivity. Qed.

Lemma cmp_loop_spec : forall {W} (h : handle W) (p : string -> bool) c F b w ln,
  NRep (h_sel h) c b w ln -> OK c b c -> List.length ln < F ->
  exists w', cmp_loop D F h p w c = OK3 (existsb p (map (node_value D) ln)) w' c.
Proof.
  intros W h p c F b w ln HR Hok HF. unfold cmp_loop.
  destruct (sel_loop_spec (h_sel h) (fun (_ : bool) n => (p (node_value D n), p (node_value D n)))
                          c ln F b w false c HR Hok HF) as (w' & E).
  exists w'. rewrite E, (lfold_exists (fun n => p (node_value D n))), existsb_map. reflexivity.
Qed.

Lemma cmp_sets_spec : forall {WA WB} (ha : handle WA) (hb : handle WB) op c F lnb,
  (forall w', NRep (h_sel hb) c true (h_reset hb w') lnb) -> List.length lnb < F ->
  forall lna fuel ba wa wb, NRep (h_sel ha) c ba wa lna -> OK c ba c -> NRep (h_sel hb) c true wb lnb ->
  List.length lna < fuel ->
  exists wa' wb', cmp_sets D F op ha hb fuel wa wb c =
                  OK3 (existsb (fun x => existsb (fun y => cmp_str op x y) (map (node_value D) lnb))
                               (map (node_value D) lna)) (wa', wb') c.
Proof.
  intros WA WB ha hb op c F lnb Hreset HFb.
  induction lna as [|x r IH]; intros fuel ba wa wb HRa Hoka HRb Hfuel;
    (destruct fuel as [|k]; [cbn in Hfuel; lia|]); cbn [cmp_sets].
  - destruct (NRep_nil _ _ _ _ _ HRa Hoka) as (wa' & E & _). rewrite E. cbn [map existsb]. eauto.
  - destruct (NRep_cons _ _ _ _ _ _ _ HRa Hoka) as (wa' & E & HRa'). rewrite E. cbn [map existsb].
    destruct lnb as [|y rb].
    + destruct (NRep_nil _ _ _ _ _ HRb (OK_c c true)) as (wb' & Eb & _). rewrite Eb.
      cbn [map existsb]. rewrite existsb_false. eauto.
    + destruct (NRep_cons _ _ _ _ _ _ _ HRb (OK_c c true)) as (wb' & Eb & HRb'). rewrite Eb.
      cbn [map existsb]. destruct (cmp_str op (node_value D x) (node_value D y)); [cbn [orb]; eauto|].
      destruct (cmp_loop_spec hb (fun s => cmp_str op (node_value D x) s) c F false wb' rb HRb' (OK_false c c)
                              ltac:(cbn in HFb; lia)) as (wb'' & El).
      rewrite El. cbn [orb].
      destruct (existsb (fun s => cmp_str op (node_value D x) s) (map (node_value D) rb)); [cbn [orb]; eauto|].
      cbn [orb]. apply (IH k false wa' (h_reset hb wb'') HRa' (OK_false c c) (Hreset wb'')). cbn in Hfuel. lia.
Qed.

Lemma bool_num_spec : forall {W} c (v : cval W) w V x, VRel c v w V -> bool_num D V = Val x ->
  exists w', bool_num_c D v w c = OK3 x w' c.
Proof.
  intros W c v w V x H E. unfold bool_num in E. unfold bool_num_c.
  destruct v as [[b|f|s|z|]|h]; destruct V; cbn in H; try destruct H; subst; try discriminate.
  - cbn in E. inversion E; subst. cbn [as_bool_c]. eauto.
  - inversion E; subst. unfold as_number_c, as_number. eauto.
  - inversion E; subst. unfold as_number_c, as_number. eauto.
  - cbn in E. inversion E; subst. cbn [as_bool_c]. eauto.
  - apply obind_val_inv' in E. destruct E as (b & Eb & E). inversion E; subst.
    destruct (as_bool_spec c (CVQuery h) w (VNodes l) b (conj H H0) Eb) as (w' & E'). rewrite E'. eauto.
Qed.

Lemma cmp_boolean_any_spec : forall {WA WB} op c (va : cval WA) wa Va (vb : cval WB) wb Vb x,
  VRel c va wa Va -> VRel c vb wb Vb -> cmp_boolean_any D op Va Vb = Val x ->
  exists wa' wb', cmp_boolean_any_c D op va wa vb wb c = OK3 x (wa', wb') c.
Proof.
  intros WA WB op c va wa Va vb wb Vb x HA HB E. unfold cmp_boolean_any in E. unfold cmp_boolean_any_c.
  destruct op;
    apply obind_val_inv' in E; destruct E as (x1 & E1 & E);
    apply obind_val_inv' in E; destruct E as (x2 & E2 & E); inversion E; subst.
  1,2: destruct (as_bool_spec c va wa Va x1 HA E1) as (wa' & H1); rewrite H1;
       destruct (as_bool_spec c vb wb Vb x2 HB E2) as (wb' & H2); rewrite H2; eauto.
  all: destruct (bool_num_spec c va wa Va x1 HA E1) as (wa' & H1); rewrite H1;
       destruct (bool_num_spec c vb wb Vb x2 HB E2) as (wb' & H2); rewrite H2; eauto.
Qed.

Lemma logical_do_spec : forall {WA WB} op c F (va : cval WA) wa Va (vb : cval WB) wb Vb r,
  VRel c va wa Va -> VRel c vb wb Vb -> vlen Va < F -> vlen Vb < F ->
  compare_values D op Va Vb = Val (VBool r) ->
  exists wa' wb', logical_do D F op va wa vb wb c = OK3 r (wa', wb') c.
Proof.
  intros WA WB op c F va wa Va vb wb Vb r HA HB HFa HFb E.
  pose proof HA as HA0. pose proof HB as HB0.
  destruct va as [[a|a|a|a|]|ha]; destruct Va as [a'|a'|a'|la|a'|]; cbn in HA; try destruct HA as [HA HA'];
    try contradiction; subst;
  destruct vb as [[b|b|b|b|]|hb]; destruct Vb as [b'|b'|b'|lb|b'|]; cbn in HB; try destruct HB as [HB HB'];
    try contradiction; subst;
  cbn [compare_values] in E; try discriminate; unfold logical_do; cbn [xtype_of].
  (* a boolean on either side *)
  all: try (apply obind_val_inv' in E; destruct E as (x & Ec & E); inversion E; subst;
            exact (cmp_boolean_any_spec op c _ wa _ _ wb _ r HA0 HB0 Ec)).
  (* scalars *)
  all: try (inversion E; subst; eauto; fail).
  (* node-set against number / string *)
  - inversion E; subst. rewrite values_of_nodes.
    destruct (cmp_loop_spec hb (fun s => cmp_num op a (string_to_number s)) c F true wb (nodes_of lb) HB (OK_c c true)
                            ltac:(unfold nodes_of; rewrite map_length; exact HFb)) as (w' & H). rewrite H. eauto.
  - inversion E; subst. rewrite values_of_nodes.
    destruct (cmp_loop_spec hb (fun s => cmp_str op a s) c F true wb (nodes_of lb) HB (OK_c c true)
                            ltac:(unfold nodes_of; rewrite map_length; exact HFb)) as (w' & H). rewrite H. eauto.
  - inversion E; subst. rewrite values_of_nodes.
    destruct (cmp_loop_spec ha (fun s => cmp_num op (string_to_number s) b) c F true wa (nodes_of la) HA (OK_c c true)
                            ltac:(unfold nodes_of; rewrite map_length; exact HFa)) as (w' & H). rewrite H. eauto.
  - inversion E; subst. rewrite values_of_nodes.
    destruct (cmp_loop_spec ha (fun s => cmp_str op b s) c F true wa (nodes_of la) HA (OK_c c true)
                            ltac:(unfold nodes_of; rewrite map_length; exact HFa)) as (w' & H). rewrite H. eauto.
  (* node-set against node-set *)
  - inversion E; subst. rewrite !values_of_nodes. cbn [vlen] in *.
    apply (cmp_sets_spec ha hb op c F (nodes_of lb) HB' ltac:(unfold nodes_of; rewrite map_length; assumption)
                       (nodes_of la) F true wa wb HA (OK_c c true) HB).
  unfold nodes_of. rewrite map_length. assumption.
Qed.

End Ops.

Section Funcs.
Variable D : tree.

(* ---- position() / last() ---- *)
Lemma count_prev_spec : forall test fuel nd k, List.length (preceding_siblings nd) < fuel ->
  count_prev test fuel nd k = Some (k + List.length (filter test (preceding_siblings nd))).
Proof.
  intros test. induction fuel as [|f IH]; intros nd k Hlen; [lia|].
  cbn [count_prev]. rewrite (preceding_unfold nd) in *.
  destruct (move_prev nd) as [m|]; [|cbn; f_equal; lia].
  cbn [List.length] in Hlen. rewrite IH by lia. cbn [filter]. destruct (test m); cbn [List.length]; f_equal; lia.
Qed.

Lemma position_c_spec : forall test c,
  exists n, position_c test c = Some n /\ num_of_nat n = Eval.position_of test c.
Proof.
  intros test c. unfold position_c. rewrite count_prev_spec by apply preceding_length.
  eexists. split; [reflexivity|]. reflexivity.
Qed.

Lemma count_next_spec : forall test fuel nd k, List.length (following_siblings D nd) < fuel ->
  count_next D test fuel nd k = Some (k + List.length (filter test (nd :: following_siblings D nd))).
Proof.
  intros test. induction fuel as [|f IH]; intros nd k Hlen; [lia|].
  cbn [count_next]. rewrite (following_unfold D nd) in *.
  destruct (move_next D nd) as [m|].
  - cbn [List.length] in Hlen. rewrite IH by lia. cbn [filter].
    destruct (test nd), (test m); cbn [List.length]; f_equal; lia.
  - cbn [filter]. destruct (test nd); cbn [List.length]; f_equal; lia.
Qed.

Lemma last_c_spec : forall test c,
  exists n, last_c D test c = Some n /\ num_of_nat n = last_of D test c.
Proof.
  intros test c. unfold last_c. rewrite count_next_spec by apply following_length.
  eexists. split; [reflexivity|]. reflexivity.
Qed.

(* ---- the functions of one argument: what Eval.eval does with the value of the argument ---- *)
Definition fn1_list (test : node -> bool) (f : fn1) (v : value) : outcome value :=
  match f with
  | FCount => Val (VNum (match v with
                         | VNodes l => of_Z (Z.of_nat (List.length (filter test (nodes_of l))))
                         | _ => fzero end))
  | FSum =>
    match v with
    | VNodes l =>
      Val (VNum (fold_left (fun acc s => let x := string_to_number s in if is_nan x then acc else fadd acc x)
                           (values_of D l) fzero))
    | VNum f => Val (VNum f)
    | VStr s => let x := string_to_number s in
                if is_nan x then Complaint "sum() function argument type must be a node-set or number"
                else Val (VNum x)
    | _ => Val (VNum fzero)
    end
  | FCeiling => Val (VNum (fceil (as_number D v)))
  | FFloor => Val (VNum (ffloor (as_number D v)))
  | FRound => Val (VInt (go_int (fround_away (as_number D v))))
  | FBoolean => do b <- as_bool v; Val (VBool b)
  | FNumber => Val (VNum (as_number D v))
  | FString => do s <- as_string D v; Val (VStr s)
  | FNot => Val (VBool (match v with
                        | VBool b => negb b
                        | VNodes l => match l with [] => true | _ => false end
                        | _ => false end))
  | FNormalizeSpace => Val (VStr (normalize_space (str_or_first D v)))
  | FStringLength => Val (VNum (of_Z (Z.of_nat (String.length (str_or_first D v)))))
  | FLowerCase => do s <- as_string D v; Val (VStr (to_lower s))
  | _ => Val VNil
  end.

Lemma fn1_consume_spec : forall {W} (f : fn1) test c F (v : cval W) w V X,
  VRel c v w V -> vlen V < F -> fn1_list test f V = Val X ->
  exists x w', fn1_consume D F f test v w c = OK3 x w' c /\ sval_val x = X.
Proof.
  intros W f test c F v w V X HV HF E.
  destruct f; cbn [fn1_list] in E; unfold fn1_consume.
  - (* count *)
    destruct v as [[b|g|s|z|]|h]; destruct V; cbn in HV; try destruct HV as [HV HV']; try contradiction;
      inversion E; subst; eauto.
    destruct (sel_loop_spec (h_sel h) (fun acc n => (if test n then S acc else acc, false)) c (nodes_of l) F true w 0 c
                            HV (OK_c c true) ltac:(unfold nodes_of; rewrite map_length; exact HF)) as (w' & El).
    rewrite El, lfold_count. eauto.
  - (* sum *)
    destruct v as [[b|g|s|z|]|h]; destruct V; cbn in HV; try destruct HV as [HV HV']; try contradiction; subst.
    + inversion E; subst. eauto.
    + inversion E; subst. eauto.
    + cbv zeta in E. destruct (is_nan (string_to_number s)) eqn:En; [discriminate|]. inversion E; subst. eauto.
    + inversion E; subst. eauto.
    + inversion E; subst. eauto.
    + inversion E; subst.
      destruct (sel_loop_spec (h_sel h)
                  (fun acc n => let x := string_to_number (node_value D n) in
                                (if is_nan x then acc else fadd acc x, false))
                  c (nodes_of l) F true w fzero c HV (OK_c c true)
                  ltac:(unfold nodes_of; rewrite map_length; exact HF)) as (w' & El).
      cbv zeta in El. cbv zeta. rewrite El.
      rewrite (lfold_fold_left (fun acc n => if is_nan (string_to_number (node_value D n)) then acc
                                             else fadd acc (string_to_number (node_value D n)))).
      rewrite values_of_nodes, fold_left_map'. eauto.
  - (* ceiling *)
    inversion E; subst. destruct (as_number_spec D c v w V HV) as (w' & E'). rewrite E'. eauto.
  - inversion E; subst. destruct (as_number_spec D c v w V HV) as (w' & E'). rewrite E'. eauto.
  - inversion E; subst. destruct (as_number_spec D c v w V HV) as (w' & E'). rewrite E'. eauto.
  - (* boolean *)
    apply obind_val_inv' in E. destruct E as (b & Eb & E). inversion E; subst.
    destruct (as_bool_spec c v w V b HV Eb) as (w' & E'). rewrite E'. eauto.
  - inversion E; subst. destruct (as_number_spec D c v w V HV) as (w' & E'). rewrite E'. eauto.
  - (* string *)
    apply obind_val_inv' in E. destruct E as (s & Es & E). inversion E; subst.
    destruct (as_string_spec D c v w V s HV Es) as (w' & E'). rewrite E'. eauto.
  - (* not *)
    destruct v as [[b|g|s|z|]|h]; destruct V; cbn in HV; try destruct HV as [HV HV']; try contradiction;
      inversion E; subst; eauto.
    destruct l as [|it l].
    + destruct (NRep_nil _ _ _ _ _ HV (OK_c c true)) as (w' & E' & _). rewrite E'. eauto.
    + cbn [nodes_of map] in HV. destruct (NRep_cons _ _ _ _ _ _ _ HV (OK_c c true)) as (w' & E' & _).
      rewrite E'. eauto.
  - (* normalize-space *)
    destruct v as [[b|g|s|z|]|h]; destruct V; cbn in HV; try destruct HV as [HV HV']; try contradiction;
      inversion E; subst; eauto.
    destruct (first_value_spec D h c true w (nodes_of l) HV (OK_c c true)) as (w' & E' & _).
    rewrite E'. unfold str_or_first. rewrite first_value_nodes. destruct (nodes_of l); eauto.
  - (* string-length *)
    destruct v as [[b|g|s|z|]|h]; destruct V; cbn in HV; try destruct HV as [HV HV']; try contradiction;
      inversion E; subst; eauto.
    destruct (first_value_spec D h c true w (nodes_of l) HV (OK_c c true)) as (w' & E' & _).
    rewrite E'. unfold str_or_first. rewrite first_value_nodes. destruct (nodes_of l); eauto.
  - (* lower-case *)
    apply obind_val_inv' in E. destruct E as (s & Es & E). inversion E; subst.
    destruct (as_string_spec D c v w V s HV Es) as (w' & E'). rewrite E'. eauto.
  - inversion E; subst. eauto.
  - inversion E; subst. eauto.
  - inversion E; subst. eauto.
Qed.

End Funcs.

(* ================================================================== *)
(** * 4. Coverage, reset states *)

(* node-set valued query types: their Evaluate resets and returns the query *)
Fixpoint is_ns (q : query) : bool :=
  match q with
  | QContext | QAbsolute | QAncestor _ _ _ | QAttribute _ _ | QChild _ _ | QCachedChild _ _
  | QDescendant _ _ _ | QFollowing _ _ _ | QPreceding _ _ _ | QParent _ _ | QSelf _ _
  | QFilter _ _ _ | QReverse _ | QUnion _ _ | QDoD _ _ _ | QMerge _ _ => true
  | QGroup i => is_ns i
  | _ => false
  end.

(* concat(...): the arguments are a QArg chain ending in QNil *)
Fixpoint is_arglist (q : query) : bool :=
  match q with QNil => true | QArg _ rest => is_arglist rest | _ => false end.

(* what the refinement theorem covers: every query type except lastFuncQuery (its
   Evaluate caches its count for the life of the object: see lastfunc_* below) and
   descendantOverDescendantQuery (transliterated in Iter3.v, refinement not proved);
   the inputs of node-set operators must be node-set queries (well-typed trees) *)
Fixpoint m1_supported (q : query) : bool :=
  match q with
  | QNil | QNop | QNum _ | QStr _ | QFn0 _ | QContext | QAbsolute => true
  | QAncestor _ _ i | QAttribute _ i | QChild _ i | QCachedChild _ i | QDescendant _ _ i
  | QFollowing _ _ i | QPreceding _ _ i | QParent _ i | QSelf _ i | QReverse i =>
    andb (is_ns i) (m1_supported i)
  | QFilter _ i p => andb (andb (is_ns i) (m1_supported i)) (m1_supported p)
  | QFn1 _ a => m1_supported a
  | QFn2 _ a b => andb (m1_supported a) (m1_supported b)
  | QFn3 _ a b c => andb (andb (m1_supported a) (m1_supported b)) (m1_supported c)
  | QConcat args => andb (is_arglist args) (m1_supported args)
  | QArg a rest => andb (m1_supported a) (m1_supported rest)
  | QPosition _ | QLast _ => true
  | QGroup i => m1_supported i
  | QLogical _ l r | QNumeric _ l r | QBoolean _ l r => andb (m1_supported l) (m1_supported r)
  | QUnion l r | QMerge l r => andb (andb (is_ns l) (is_ns r)) (andb (m1_supported l) (m1_supported r))
  | QLastFunc _ => false
  | QDoD _ _ _ => false
  end.

(* the states from which Select starts afresh *)
Fixpoint ResetOK3 (q : query) : state3 q -> Prop :=
  match q return state3 q -> Prop with
  | QContext | QAbsolute => fun s => s = 0
  | QAncestor _ _ i => fun s => n_it s = NI_none /\ n_table s = None /\ ResetOK3 i (n_in s)
  | QAttribute _ i => fun s => a_it s = AI_none /\ ResetOK3 i (a_in s)
  | QChild _ i | QCachedChild _ i => fun s => c_it s = CI_none /\ ResetOK3 i (c_in s)
  | QDescendant _ _ i => fun s => d_it s = DI_none /\ ResetOK3 i (d_in s)
  | QFollowing _ _ i => fun s => fo_it s = FI_none /\ ResetOK3 i (fo_in s)
  | QPreceding _ _ i => fun s => pr_it s = PI_none /\ ResetOK3 i (pr_in s)
  | QParent _ i | QSelf _ i => ResetOK3 i
  | QFilter _ i _ => fun s => f3_pm s = None /\ ResetOK3 i (f3_in s)       (* any predicate state *)
  | QReverse i => fun s => rv_it s = LI_none /\ ResetOK3 i (rv_in s)
  | QGroup i => fun s => g_posit s = 0 /\ ResetOK3 i (g_in s)
  | QUnion l r => fun s => u_it s = LI_none /\ ResetOK3 l (u_l s) /\ ResetOK3 r (u_r s)
  | QDoD _ _ i => fun s => dd_level s = 0 /\ ResetOK3 i (dd_in s)
  | QMerge i _ => fun s => m_it s = LI_none /\ ResetOK3 i (m_in s)          (* any child state *)
  | QLogical _ _ _ => fun s => lg_done s = false
  | QBoolean _ l r => fun s => bo_it s = LI_none /\ ResetOK3 l (bo_l s) /\ ResetOK3 r (bo_r s)
  | _ => fun _ => True
  end.

Lemma ResetOK3_init : forall q, ResetOK3 q (init3 q).
Proof.
  induction q; cbn [ResetOK3 init3 n_it n_table n_in a_it a_in c_it c_in d_it d_in fo_it fo_in pr_it pr_in
                    f3_pm f3_in rv_it rv_in g_posit g_in u_it u_l u_r dd_level dd_in m_it m_in lg_done
                    bo_it bo_l bo_r]; auto.
Qed.

Lemma ResetOK3_reset : forall q, is_ns q = true -> m1_supported q = true -> forall s, ResetOK3 q (reset3 q s).
Proof.
  induction q; intros Hns Hs st; cbn [is_ns m1_supported] in Hns, Hs; try discriminate;
    repeat (apply andb_prop in Hs; let H1 := fresh "Hs" in destruct Hs as [Hs H1]);
    cbn [ResetOK3 reset3 n_it n_table n_in a_it a_in c_it c_in d_it d_in fo_it fo_in pr_it pr_in
         f3_pm f3_in rv_it rv_in g_posit g_in u_it u_l u_r dd_level dd_in m_it m_in]; auto 8.
  - apply andb_prop in Hs0. destruct Hs0. auto.
  - apply andb_prop in Hs0. destruct Hs0. auto.
Qed.

(* ================================================================== *)
(** * 5. Refinement, constructor by constructor *)

Lemma nodes_of_regroup : forall l k, nodes_of (regroup k l) = nodes_of l.
Proof. induction l as [|a l IH]; intros k; cbn [regroup nodes_of map]; [reflexivity|]. f_equal. apply IH. Qed.

Lemma match_nil : forall {T} (a : query) (X Y : T),
  match a with QNil => X | _ => Y end = if is_nil a then X else Y.
Proof. intros T a X Y. destruct a; reflexivity. Qed.

(* the handle groupQuery.Evaluate passes on *)
Definition lifth {St} (h : handle St) : handle (group_st St) :=
  mkHandle (fun st cur => match h_sel h (g_in st) cur with
                          | R o s' cur' => R o (mkGroup (g_posit st) s') cur'
                          | Stuck => Stuck
                          end)
           (fun st => mkGroup (g_posit st) (h_reset h (g_in st))).

Lemma lift_group_query : forall {St} (h : handle St), lift_group (CVQuery h) = CVQuery (lifth h).
Proof. reflexivity. Qed.

Lemma lifth_NRep : forall {St} (h : handle St) c b s k ln,
  NRep (h_sel h) c b s ln -> NRep (h_sel (lifth h)) c b (mkGroup k s) ln.
Proof.
  intros St h c b s k ln (pos & lvl & l & HR & El).
  exists (fun st => pos (g_in st)), (fun st => lvl (g_in st)), l. split; [|exact El]. clear El.
  apply (Rep_of_inv _ _ _ _ (fun b st out => Rep (h_sel h) pos lvl c b (g_in st) out)).
  - intros b0 [k0 s0] cur HI Hok. cbn [g_in] in HI.
    destruct (Rep_nil_step _ _ _ _ _ _ _ HI Hok) as (s' & E & HR').
    eexists. cbn [lifth h_sel g_in g_posit]. rewrite E. split; [reflexivity|exact HR'].
  - intros b0 [k0 s0] it r cur HI Hok. cbn [g_in Rep] in HI. destruct (HI cur Hok) as (s' & E & Hp & Hl & HR').
    eexists. cbn [lifth h_sel g_in g_posit]. rewrite E. split; [reflexivity|]. cbn [g_in]. auto.
  - exact HR.
Qed.

Section Main.
Variable D : tree.
Variable has_ns : bool.
Variable hc : node -> N.
Variable rm : string -> string -> option bool.
Variable rn : string -> nat.
Variable rr : string -> string -> string -> string.
Notation SEL := (sel D has_ns hc rm rn rr).
Notation EVAL := (eval D has_ns hc rm rn rr).
Notation MT := (match_test D has_ns).
Notation S3 := (sel3 D has_ns hc rm rn rr).
Notation E3 := (ev3 D has_ns hc rm rn rr).

(* after Evaluate, what the query's own Select does *)
Definition OwnSel (F : nat) (q : query) (c : node) (V : value) (s' : state3 q) : Prop :=
  match V with
  | VNodes l => NRep (S3 F q) c true s' (nodes_of l)
  | VInt _ | VNil => forall w cur, exists w', S3 F q w cur = R None w' cur
  | _ => True
  end.

(* Evaluate, from ANY state, with t.Current() = c: the value of the list level, and
   t.Current() is c again *)
Definition EvOK (F : nat) (q : query) (c : node) (V : value) : Prop :=
  forall s, exists v s', E3 F q s c = OK3 v s' c /\ VRel c v s' V /\ vlen V < F /\ OwnSel F q c V s'.

(* Select, from a reset state *)
Definition SelOK (F : nat) (q : query) (c : node) (l : list item) : Prop :=
  forall s, ResetOK3 q s -> Rep (S3 F q) (position_of3 q) (depth_of3 q) c true s l.

Definition Sstmt (q : query) : Prop :=
  forall c l, SEL q c = Val l -> Eventually (fun F => SelOK F q c l).
Definition Estmt (q : query) : Prop :=
  forall c V, EVAL q c = Val V -> Eventually (fun F => EvOK F q c V).

(* node-set query types other than groupQuery: Evaluate resets and returns the query *)
Lemma ns_Estmt : forall q,
  is_ns q = true -> m1_supported q = true ->
  (forall c, EVAL q c = do l <- SEL q c; Val (VNodes l)) ->
  (forall F s cur, E3 F q s cur = OK3 (CVQuery (mkHandle (S3 F q) (reset3 q))) (reset3 q s) cur) ->
  Sstmt q -> Estmt q.
Proof.
  intros q Hns Hsup Heval Hev HS c V E. rewrite Heval in E.
  apply obind_val_inv' in E. destruct E as (l & El & E). inversion E; subst.
  destruct (HS c l El) as [F0 H0]. exists (Nat.max F0 (S (List.length l))). intros F HF s.
  rewrite Hev. eexists _, _. split; [reflexivity|].
  assert (HN : forall w, NRep (S3 F q) c true (reset3 q w) (nodes_of l)).
  { intros w. eapply NRep_of_Rep. apply H0; [lia|]. apply ResetOK3_reset; assumption. }
  split; [cbn [VRel h_sel h_reset]; split; [apply HN|exact HN]|]. split; [cbn [vlen]; lia|].
  cbn [OwnSel]. apply HN.
Qed.

(* a Select that is nil whatever the state *)
Lemma nilsel_Sstmt : forall q,
  (forall c, SEL q c = Val []) ->
  (forall F, S3 F q = fun st cur => R None st cur) ->
  position_of3 q = (fun _ => 1) -> depth_of3 q = (fun _ => 0) ->
  Sstmt q.
Proof.
  intros q Hsel Hs3 Hp Hd c l E. rewrite Hsel in E. inversion E; subst.
  exists 0. intros F _ s _. rewrite Hs3, Hp, Hd. apply nil_Rep.
Qed.

Ltac split_sup H :=
  cbn [m1_supported] in H;
  repeat (apply andb_prop in H; let H1 := fresh "Hsup" in destruct H as [H H1]).

(* ---- leaves ---- *)
Lemma case_context : Sstmt QContext /\ Estmt QContext.
Proof.
  assert (HS : Sstmt QContext).
  { intros c l E. change (SEL QContext c) with (@Val (list item) [mkItem c 1 0]) in E. inversion E; subst.
    exists 0. intros F _ s HR. cbn [ResetOK3] in HR. subst s. apply ctx_Rep. }
  split; [exact HS|]. apply ns_Estmt; auto; reflexivity.
Qed.

Lemma case_absolute : Sstmt QAbsolute /\ Estmt QAbsolute.
Proof.
  assert (HS : Sstmt QAbsolute).
  { intros c l E. change (SEL QAbsolute c) with (@Val (list item) [mkItem root_node 1 0]) in E. inversion E; subst.
    exists 0. intros F _ s HR. cbn [ResetOK3] in HR. subst s. apply abs_Rep. }
  split; [exact HS|]. apply ns_Estmt; auto; reflexivity.
Qed.

(* ---- the axes ---- *)
Lemma case_child : forall t i, is_ns i = true -> m1_supported i = true -> Sstmt i ->
  Sstmt (QChild t i) /\ Estmt (QChild t i).
Proof.
  intros t i Hns Hsup IHS.
  assert (HS : Sstmt (QChild t i)).
  { intros c l E. change (SEL (QChild t i) c) with (do x <- SEL i c; Val (over (lchild D (MT t)) x)) in E.
    apply obind_val_inv' in E. destruct E as (x & E0 & E). inversion E; subst.
    destruct (IHS c x E0) as [F0 H0]. exists (Nat.max F0 (List.length x + 2)).
    intros F HF [k it s] [Hit HR]. cbn [c_it c_in] in *. subst it.
    apply (child_Rep D (S3 F i) (position_of3 i) (depth_of3 i)); [apply H0; [lia|exact HR]|lia]. }
  split; [exact HS|]. apply ns_Estmt; auto; try reflexivity. cbn [m1_supported]. rewrite Hns, Hsup. reflexivity.
Qed.

Lemma case_cachedchild : forall t i, is_ns i = true -> m1_supported i = true -> Sstmt i ->
  Sstmt (QCachedChild t i) /\ Estmt (QCachedChild t i).
Proof.
  intros t i Hns Hsup IHS.
  assert (HS : Sstmt (QCachedChild t i)).
  { intros c l E. change (SEL (QCachedChild t i) c) with (do x <- SEL i c; Val (over (lchild D (MT t)) x)) in E.
    apply obind_val_inv' in E. destruct E as (x & E0 & E). inversion E; subst.
    destruct (IHS c x E0) as [F0 H0]. exists (Nat.max F0 (List.length x + 2)).
    intros F HF [k it s] [Hit HR]. cbn [c_it c_in] in *. subst it.
    apply (child_Rep D (S3 F i) (position_of3 i) (depth_of3 i)); [apply H0; [lia|exact HR]|lia]. }
  split; [exact HS|]. apply ns_Estmt; auto; try reflexivity. cbn [m1_supported]. rewrite Hns, Hsup. reflexivity.
Qed.

Lemma case_attribute : forall t i, is_ns i = true -> m1_supported i = true -> Sstmt i ->
  Sstmt (QAttribute t i) /\ Estmt (QAttribute t i).
Proof.
  intros t i Hns Hsup IHS.
  assert (HS : Sstmt (QAttribute t i)).
  { intros c l E. change (SEL (QAttribute t i) c) with (do x <- SEL i c; Val (over (lattr D (MT t)) x)) in E.
    apply obind_val_inv' in E. destruct E as (x & E0 & E). inversion E; subst.
    destruct (IHS c x E0) as [F0 H0]. exists (Nat.max F0 (List.length x + 2)).
    intros F HF [it s] [Hit HR]. cbn [a_it a_in] in *. subst it.
    apply (attr_Rep D (S3 F i) (position_of3 i) (depth_of3 i)); [apply H0; [lia|exact HR]|lia]. }
  split; [exact HS|]. apply ns_Estmt; auto; try reflexivity. cbn [m1_supported]. rewrite Hns, Hsup. reflexivity.
Qed.

Lemma case_self : forall t i, is_ns i = true -> m1_supported i = true -> Sstmt i ->
  Sstmt (QSelf t i) /\ Estmt (QSelf t i).
Proof.
  intros t i Hns Hsup IHS.
  assert (HS : Sstmt (QSelf t i)).
  { intros c l E. change (SEL (QSelf t i) c) with (do x <- SEL i c; Val (over (lself (MT t)) x)) in E.
    apply obind_val_inv' in E. destruct E as (x & E0 & E). inversion E; subst.
    destruct (IHS c x E0) as [F0 H0]. exists (Nat.max F0 (List.length x + 2)).
    intros F HF s HR. cbn [ResetOK3] in HR.
    apply (self_Rep (S3 F i) (position_of3 i) (depth_of3 i)); [apply H0; [lia|exact HR]|lia]. }
  split; [exact HS|]. apply ns_Estmt; auto; try reflexivity. cbn [m1_supported]. rewrite Hns, Hsup. reflexivity.
Qed.

Lemma case_parent : forall t i, is_ns i = true -> m1_supported i = true -> Sstmt i ->
  Sstmt (QParent t i) /\ Estmt (QParent t i).
Proof.
  intros t i Hns Hsup IHS.
  assert (HS : Sstmt (QParent t i)).
  { intros c l E. change (SEL (QParent t i) c) with (do x <- SEL i c; Val (over (lparent (MT t)) x)) in E.
    apply obind_val_inv' in E. destruct E as (x & E0 & E). inversion E; subst.
    destruct (IHS c x E0) as [F0 H0]. exists (Nat.max F0 (List.length x + 2)).
    intros F HF s HR. cbn [ResetOK3] in HR.
    apply (parent_Rep (S3 F i) (position_of3 i) (depth_of3 i)); [apply H0; [lia|exact HR]|lia]. }
  split; [exact HS|]. apply ns_Estmt; auto; try reflexivity. cbn [m1_supported]. rewrite Hns, Hsup. reflexivity.
Qed.

Lemma case_descendant : forall self t i, is_ns i = true -> m1_supported i = true -> Sstmt i ->
  Sstmt (QDescendant self t i) /\ Estmt (QDescendant self t i).
Proof.
  intros self t i Hns Hsup IHS.
  assert (HS : Sstmt (QDescendant self t i)).
  { intros c l E.
    change (SEL (QDescendant self t i) c) with (do x <- SEL i c; Val (over (ldesc D (MT t) self) x)) in E.
    apply obind_val_inv' in E. destruct E as (x & E0 & E). inversion E; subst.
    destruct (IHS c x E0) as [F0 H0]. exists (Nat.max F0 (List.length x + 2)).
    intros F HF [it k lv s] [Hit HR]. cbn [d_it d_in] in *. subst it.
    apply (desc_Rep D (S3 F i) (position_of3 i) (depth_of3 i)); [apply H0; [lia|exact HR]|lia]. }
  split; [exact HS|]. apply ns_Estmt; auto; try reflexivity. cbn [m1_supported]. rewrite Hns, Hsup. reflexivity.
Qed.

Lemma case_following : forall sb t i, is_ns i = true -> m1_supported i = true -> Sstmt i ->
  Sstmt (QFollowing sb t i) /\ Estmt (QFollowing sb t i).
Proof.
  intros sb t i Hns Hsup IHS.
  assert (HS : Sstmt (QFollowing sb t i)).
  { intros c l E. destruct sb.
    - change (SEL (QFollowing true t i) c) with (do x <- SEL i c; Val (over (lfsib D (MT t)) x)) in E.
      apply obind_val_inv' in E. destruct E as (x & E0 & E). inversion E; subst.
      destruct (IHS c x E0) as [F0 H0]. exists (Nat.max F0 (List.length x + 2)).
      intros F HF [k it s] [Hit HR]. cbn [fo_it fo_in] in *. subst it.
      apply (fsib_Rep D (S3 F i) (position_of3 i) (depth_of3 i)); [apply H0; [lia|exact HR]|lia].
    - change (SEL (QFollowing false t i) c) with (do x <- SEL i c; Val (over (lfol D (MT t)) x)) in E.
      apply obind_val_inv' in E. destruct E as (x & E0 & E). inversion E; subst.
      destruct (IHS c x E0) as [F0 H0]. exists (Nat.max F0 (List.length x + 2)).
      intros F HF [k it s] [Hit HR]. cbn [fo_it fo_in] in *. subst it.
      apply (fdoc_Rep D (S3 F i) (position_of3 i) (depth_of3 i)); [apply H0; [lia|exact HR]|lia]. }
  split; [exact HS|]. apply ns_Estmt; auto; try reflexivity. cbn [m1_supported]. rewrite Hns, Hsup. reflexivity.
Qed.

Lemma case_preceding : forall sb t i, is_ns i = true -> m1_supported i = true -> Sstmt i ->
  Sstmt (QPreceding sb t i) /\ Estmt (QPreceding sb t i).
Proof.
  intros sb t i Hns Hsup IHS.
  assert (HS : Sstmt (QPreceding sb t i)).
  { intros c l E. destruct sb.
    - change (SEL (QPreceding true t i) c) with (do x <- SEL i c; Val (over (lpsib (MT t)) x)) in E.
      apply obind_val_inv' in E. destruct E as (x & E0 & E). inversion E; subst.
      destruct (IHS c x E0) as [F0 H0]. exists (Nat.max F0 (List.length x + 2)).
      intros F HF [k it s] [Hit HR]. cbn [pr_it pr_in] in *. subst it.
      apply (psib_Rep D (S3 F i) (position_of3 i) (depth_of3 i)); [apply H0; [lia|exact HR]|lia].
    - change (SEL (QPreceding false t i) c) with (do x <- SEL i c; Val (over (lpre D (MT t)) x)) in E.
      apply obind_val_inv' in E. destruct E as (x & E0 & E). inversion E; subst.
      destruct (IHS c x E0) as [F0 H0]. exists (Nat.max F0 (List.length x + 2)).
      intros F HF [k it s] [Hit HR]. cbn [pr_it pr_in] in *. subst it.
      apply (pdoc_Rep D (S3 F i) (position_of3 i) (depth_of3 i)); [apply H0; [lia|exact HR]|lia]. }
  split; [exact HS|]. apply ns_Estmt; auto; try reflexivity. cbn [m1_supported]. rewrite Hns, Hsup. reflexivity.
Qed.

Lemma case_ancestor : forall self t i, is_ns i = true -> m1_supported i = true -> Sstmt i ->
  Sstmt (QAncestor self t i) /\ Estmt (QAncestor self t i).
Proof.
  intros self t i Hns Hsup IHS.
  assert (HS : Sstmt (QAncestor self t i)).
  { intros c l E.
    change (SEL (QAncestor self t i) c)
      with (do x <- SEL i c; Val (unnumbered (ancestors_all D has_ns hc self t [] (nodes_of x)))) in E.
    apply obind_val_inv' in E. destruct E as (x & E0 & E). inversion E; subst.
    destruct (IHS c x E0) as [F0 H0]. exists (Nat.max F0 (List.length x + 2)).
    intros F HF [it tb s] (Hit & Htb & HR). cbn [n_it n_table n_in] in *. subst it tb.
    rewrite <- (lanc_all_eq D has_ns hc).
    apply (anc_Rep hc (S3 F i) (position_of3 i) (depth_of3 i)); [apply H0; [lia|exact HR]|lia]. }
  split; [exact HS|]. apply ns_Estmt; auto; try reflexivity. cbn [m1_supported]. rewrite Hns, Hsup. reflexivity.
Qed.

Lemma case_reverse : forall i, is_ns i = true -> m1_supported i = true -> Sstmt i ->
  Sstmt (QReverse i) /\ Estmt (QReverse i).
Proof.
  intros i Hns Hsup IHS.
  assert (HS : Sstmt (QReverse i)).
  { intros c l E.
    change (SEL (QReverse i) c) with (do x <- SEL i c; Val (unnumbered (rev (nodes_of x)))) in E.
    apply obind_val_inv' in E. destruct E as (x & E0 & E). inversion E; subst.
    destruct (IHS c x E0) as [F0 H0]. exists (Nat.max F0 (List.length x + 2)).
    intros F HF [it s] [Hit HR]. cbn [rv_it rv_in] in *. subst it.
    apply (rev_Rep (S3 F i) (position_of3 i) (depth_of3 i)); [apply H0; [lia|exact HR]|lia]. }
  split; [exact HS|]. apply ns_Estmt; auto; try reflexivity. cbn [m1_supported]. rewrite Hns, Hsup. reflexivity.
Qed.

Lemma case_union : forall l r, is_ns l = true -> is_ns r = true -> m1_supported l = true -> m1_supported r = true ->
  Sstmt l -> Sstmt r -> Sstmt (QUnion l r) /\ Estmt (QUnion l r).
Proof.
  intros l r Hnl Hnr Hsl Hsr IHl IHr.
  assert (HS : Sstmt (QUnion l r)).
  { intros c l0 E.
    change (SEL (QUnion l r) c)
      with (do a <- SEL l c; do b <- SEL r c;
            Val (unnumbered (fst (dedup_hash hc [] (nodes_of a ++ nodes_of b))))) in E.
    apply obind_val_inv' in E. destruct E as (a & Ea & E).
    apply obind_val_inv' in E. destruct E as (b & Eb & E). inversion E; subst.
    destruct (IHl c a Ea) as [F1 H1]. destruct (IHr c b Eb) as [F2 H2].
    exists (Nat.max (Nat.max F1 F2) (S (Nat.max (List.length a) (List.length b)))).
    intros F HF [it sl sr] (Hit & HRl & HRr). cbn [u_it u_l u_r] in *. subst it.
    apply (union_Rep hc (S3 F l) (position_of3 l) (depth_of3 l) (S3 F r) (position_of3 r) (depth_of3 r));
      [apply H1; [lia|exact HRl]|apply H2; [lia|exact HRr]|lia|lia]. }
  split; [exact HS|]. apply ns_Estmt; auto; try reflexivity.
  cbn [m1_supported]. rewrite Hnl, Hnr, Hsl, Hsr. reflexivity.
Qed.

(* ---- groupQuery ---- *)
Lemma case_group : forall i, Sstmt i -> Estmt i -> Sstmt (QGroup i) /\ Estmt (QGroup i).
Proof.
  intros i IHS IHE. split.
  - intros c l E. change (SEL (QGroup i) c) with (do x <- SEL i c; Val (regroup 1 x)) in E.
    apply obind_val_inv' in E. destruct E as (x & E0 & E). inversion E; subst.
    destruct (IHS c x E0) as [F0 H0]. exists F0. intros F HF [k s] [Hk HR]. cbn [g_posit g_in] in *. subst k.
    apply (group_Rep (S3 F i) (position_of3 i) (depth_of3 i)). apply H0; [lia|exact HR].
  - intros c V E. change (EVAL (QGroup i) c) with (EVAL i c) in E.
    destruct (IHE c V E) as [F0 H0]. exists F0. intros F HF [k s].
    destruct (H0 F HF s) as (v & s' & Ev & HV & Hlen & HO).
    change (E3 F (QGroup i) (mkGroup k s) c)
      with (match E3 F i s c with
            | OK3 v s' cur' => OK3 (lift_group v) (mkGroup 0 s') cur'
            | Stuck3 => Stuck3 | Panic3 m => Panic3 m end).
    rewrite Ev. eexists _, _. split; [reflexivity|]. split; [|split; [exact Hlen|]].
    + destruct v as [x|h]; [exact HV|]. destruct V; cbn in HV; try contradiction. destruct HV as [HV1 HV2].
      rewrite lift_group_query. cbn [VRel]. split.
      * apply lifth_NRep. exact HV1.
      * intros w'. destruct w' as [k' s0]. cbn [lifth h_reset g_in g_posit]. apply lifth_NRep. apply HV2.
    + destruct V; cbn [OwnSel] in *; auto.
      * destruct HO as (pos & lvl & l0 & HR & El).
        exists g_posit, (fun _ => 0), (regroup 1 l0). split; [|rewrite nodes_of_regroup; exact El].
        apply (group_Rep (S3 F i) pos lvl). exact HR.
      * intros [k' w] cur. destruct (HO w cur) as (w' & Ew). eexists.
        change (S3 F (QGroup i)) with (group_select (S3 F i)). unfold group_select. cbn [g_in g_posit].
        rewrite Ew. reflexivity.
      * intros [k' w] cur. destruct (HO w cur) as (w' & Ew). eexists.
        change (S3 F (QGroup i)) with (group_select (S3 F i)). unfold group_select. cbn [g_in g_posit].
        rewrite Ew. reflexivity.
Qed.

(* ---- filterQuery ---- *)
Lemma filter_do_spec : forall F p n pos V,
  EvOK F p n V ->
  forall ps, exists ps' cur', filter_do (E3 F p) (S3 F p) pos ps n = OK3 (truth_of_filter V pos) ps' cur'.
Proof.
  intros F p n pos V HE ps. destruct (HE ps) as (v & ps1 & Ev & HV & _ & HO). unfold filter_do. rewrite Ev.
  destruct v as [[b|f|s|z|]|h]; destruct V; cbn in HV; try destruct HV as [HV HV']; try contradiction; subst;
    cbn [truth_of_filter]; eauto.
  - cbn [OwnSel] in HO. destruct (HO ps1 n) as (w' & Ew). rewrite Ew. eauto.
  - cbn [OwnSel] in HO. destruct (HO ps1 n) as (w' & Ew). rewrite Ew. eauto.
  - cbn [OwnSel] in HO. destruct l as [|it l].
    + destruct (NRep_nil _ _ _ _ _ HO (OK_c n true)) as (w' & Ew & _). rewrite Ew. eauto.
    + cbn [nodes_of map] in HO. destruct (NRep_cons _ _ _ _ _ _ _ HO (OK_c n true)) as (w' & Ew & _).
      rewrite Ew. eauto.
Qed.

Lemma case_filter : forall np i p, is_ns i = true -> m1_supported i = true -> m1_supported p = true ->
  Sstmt i -> Estmt p -> Sstmt (QFilter np i p) /\ Estmt (QFilter np i p).
Proof.
  intros np i p Hns Hsi Hsp IHS IHE.
  assert (HS : Sstmt (QFilter np i p)).
  { intros c r E. rewrite sel_filter in E. apply obind_val_inv' in E. destruct E as (l & E0 & E).
    destruct (filter_go_spec D has_ns hc rm rn rr p l [] r E) as [_ Hev].
    destruct (IHS c l E0) as [F0 H0].
    assert (HEv : Eventually (fun F => Forall (fun it =>
                    exists V, EVAL p (it_node it) = Val V /\ EvOK F p (it_node it) V) l)).
    { apply ev_Forall. intros it Hin. rewrite Forall_forall in Hev. destruct (Hev it Hin) as (V & EV).
      destruct (IHE (it_node it) V EV) as [F1 H1]. exists F1. intros F HF. exists V. split; [exact EV|apply H1; exact HF]. }
    destruct HEv as [F1 H1]. exists (Nat.max (Nat.max F0 F1) (S (List.length l))).
    intros F HF [k pm s ps] [Hpm HR]. cbn [f3_pm f3_in] in *. subst pm.
    rewrite <- (lfilter_filter_go D has_ns hc rm rn rr (pred_of D has_ns hc rm rn rr p) p) with (l := l) (pm := []) (r := r);
      [| intros n v pos En; unfold pred_of; rewrite En; reflexivity | exact E].
    apply (filter3_Rep (S3 F i) (position_of3 i) (depth_of3 i) c (E3 F p) (S3 F p) (pred_of D has_ns hc rm rn rr p) F);
      [apply H0; [lia|exact HR]| |lia].
    specialize (H1 F ltac:(lia)). rewrite Forall_forall in *. intros it Hin.
    destruct (H1 it Hin) as (V & EV & HE). unfold DoOK, pred_of. rewrite EV. apply filter_do_spec. exact HE. }
  split; [exact HS|]. apply ns_Estmt; auto; try reflexivity.
  cbn [m1_supported]. rewrite Hns, Hsi, Hsp. reflexivity.
Qed.

(* ---- mergeQuery ---- *)
Lemma mlist_oflat : forall (Lc : node -> list item) ch roots l,
  (forall it, In it roots -> SEL ch (it_node it) = Val (Lc (it_node it))) ->
  oflat_map (fun it => SEL ch (it_node it)) roots = Val l ->
  mlist Lc roots = nodes_of l.
Proof.
  intros Lc ch. induction roots as [|a roots IH]; intros l HL E.
  - cbn in E. inversion E. reflexivity.
  - cbn [oflat_map] in E. apply obind_val_inv' in E. destruct E as (x & Ex & E).
    apply obind_val_inv' in E. destruct E as (y & Ey & E). inversion E; subst.
    unfold mlist. cbn [flat_map]. fold (mlist Lc roots). rewrite nodes_of_app.
    rewrite (IH y (fun it Hin => HL it (or_intror Hin)) Ey).
    rewrite (HL a (or_introl eq_refl)) in Ex. inversion Ex; subst. reflexivity.
Qed.

Lemma oflat_map_each : forall ch roots l,
  oflat_map (fun it => SEL ch (it_node it)) roots = Val l ->
  forall it, In it roots -> exists x, SEL ch (it_node it) = Val x.
Proof.
  intros ch. induction roots as [|a roots IH]; intros l E it Hin; [destruct Hin|].
  cbn [oflat_map] in E. apply obind_val_inv' in E. destruct E as (x & Ex & E).
  apply obind_val_inv' in E. destruct E as (y & Ey & E).
  destruct Hin as [<-|Hin]; [eauto|]. eapply IH; eassumption.
Qed.

Lemma case_merge : forall i ch, is_ns i = true -> is_ns ch = true -> m1_supported i = true -> m1_supported ch = true ->
  Sstmt i -> Sstmt ch -> Sstmt (QMerge i ch) /\ Estmt (QMerge i ch).
Proof.
  intros i ch Hni Hnc Hsi Hsc IHi IHc.
  assert (HS : Sstmt (QMerge i ch)).
  { intros c l0 E.
    change (SEL (QMerge i ch) c)
      with (do roots <- SEL i c; do x <- oflat_map (fun it => SEL ch (it_node it)) roots;
            Val (unnumbered (nodes_of x))) in E.
    apply obind_val_inv' in E. destruct E as (roots & Er & E).
    apply obind_val_inv' in E. destruct E as (x & Ex & E). inversion E; subst.
    set (Lc := fun n => match SEL ch n with Val l => l | _ => [] end).
    assert (HLc : forall it, In it roots -> SEL ch (it_node it) = Val (Lc (it_node it))).
    { intros it Hin. destruct (oflat_map_each ch roots x Ex it Hin) as (y & Ey). unfold Lc. rewrite Ey. reflexivity. }
    destruct (IHi c roots Er) as [F0 H0].
    assert (HEv : Eventually (fun F => Forall (fun it =>
                    SelOK F ch (it_node it) (Lc (it_node it)) /\ List.length (Lc (it_node it)) < F) roots)).
    { apply ev_Forall. intros it Hin. destruct (IHc _ _ (HLc it Hin)) as [F1 H1].
      exists (Nat.max F1 (S (List.length (Lc (it_node it))))). intros F HF. split; [apply H1; lia|lia]. }
    destruct HEv as [F1 H1]. exists (Nat.max (Nat.max F0 F1) (List.length roots + 2)).
    intros F HF [it s sc] [Hit HR]. cbn [m_it m_in] in *. subst it.
    rewrite <- (mlist_oflat Lc ch roots x HLc Ex).
    apply (merge_Rep (S3 F i) (position_of3 i) (depth_of3 i) (S3 F ch) (position_of3 ch) (depth_of3 ch)
                     (reset3 ch) c F Lc
                     (fun n => SelOK F ch n (Lc n) /\ List.length (Lc n) < F)).
    - intros n [Hn1 Hn2] sc0. split; [|exact Hn2]. apply Hn1. apply ResetOK3_reset; assumption.
    - apply H0; [lia|exact HR].
    - unfold PI. specialize (H1 F ltac:(lia)). exact H1.
    - lia. }
  split; [exact HS|]. apply ns_Estmt; auto; try reflexivity.
  cbn [m1_supported]. rewrite Hni, Hnc, Hsi, Hsc. reflexivity.
Qed.

(* ---- scalar leaves ---- *)
Lemma scalar_EvOK : forall F q c x,
  1 <= F ->
  (forall s cur, E3 F q s cur = OK3 (CVS x) s cur) ->
  (forall w cur, S3 F q w cur = R None w cur) ->
  EvOK F q c (sval_val x).
Proof.
  intros F q c x HF Hev Hsel s. rewrite Hev. eexists _, _. split; [reflexivity|].
  split; [destruct x; cbn; auto|]. split; [destruct x; cbn; lia|].
  destruct x; cbn [OwnSel sval_val]; auto; intros w cur; exists w; apply Hsel.
Qed.

Lemma case_nil : Sstmt QNil /\ Estmt QNil.
Proof.
  split; [apply nilsel_Sstmt; reflexivity|].
  intros c V E. change (EVAL QNil c) with (@Val value (VStr "")) in E. inversion E; subst. exists 1. intros F HF.
  apply (scalar_EvOK F QNil c (SStr "") HF); reflexivity.
Qed.
Lemma case_nop : Sstmt QNop /\ Estmt QNop.
Proof.
  split; [apply nilsel_Sstmt; reflexivity|].
  intros c V E. change (EVAL QNop c) with (@Val value VNil) in E. inversion E; subst. exists 1. intros F HF.
  apply (scalar_EvOK F QNop c SNil HF); reflexivity.
Qed.
Lemma case_num : forall v, Sstmt (QNum v) /\ Estmt (QNum v).
Proof.
  intros v. split; [apply nilsel_Sstmt; reflexivity|].
  intros c V E. change (EVAL (QNum v) c) with (@Val value (VNum v)) in E. inversion E; subst. exists 1. intros F HF.
  apply (scalar_EvOK F (QNum v) c (SNum v) HF); reflexivity.
Qed.
Lemma case_str : forall x, Sstmt (QStr x) /\ Estmt (QStr x).
Proof.
  intros x. split; [apply nilsel_Sstmt; reflexivity|].
  intros c V E. change (EVAL (QStr x) c) with (@Val value (VStr x)) in E. inversion E; subst. exists 1. intros F HF.
  apply (scalar_EvOK F (QStr x) c (SStr x) HF); reflexivity.
Qed.
Lemma case_fn0 : forall f, Sstmt (QFn0 f) /\ Estmt (QFn0 f).
Proof.
  intros f. split; [apply nilsel_Sstmt; reflexivity|].
  intros c V E. destruct f;
    [change (EVAL (QFn0 FTrue) c) with (@Val value (VBool true)) in E
    |change (EVAL (QFn0 FFalse) c) with (@Val value (VBool false)) in E];
    inversion E; subst; exists 1; intros F HF.
  - apply (scalar_EvOK F (QFn0 FTrue) c (SBool true) HF); reflexivity.
  - apply (scalar_EvOK F (QFn0 FFalse) c (SBool false) HF); reflexivity.
Qed.

(* a function result: scalar, with the constant-nil Select of functionQuery *)
Lemma fn_EvOK : forall F q c X,
  1 <= F ->
  (forall w cur, S3 F q w cur = R None w cur) ->
  (forall s, exists x s', E3 F q s c = OK3 (CVS x) s' c /\ sval_val x = X) ->
  EvOK F q c X.
Proof.
  intros F q c X HF Hsel H s. destruct (H s) as (x & s' & E & <-). rewrite E. eexists _, _. split; [reflexivity|].
  split; [destruct x; cbn; auto|]. split; [destruct x; cbn; lia|].
  destruct x; cbn [OwnSel sval_val]; auto; intros w cur; exists w; apply Hsel.
Qed.

Lemma case_position : forall i, Sstmt (QPosition i) /\ Estmt (QPosition i).
Proof.
  intros i. split; [apply nilsel_Sstmt; reflexivity|].
  intros c V E. change (EVAL (QPosition i) c) with (@Val value (VNum (Eval.position_of (query_test D has_ns i) c))) in E.
  inversion E; subst. exists 1. intros F HF.
  apply fn_EvOK; [exact HF|reflexivity|]. intros s.
  destruct (position_c_spec (query_test D has_ns i) c) as (n & En & Hn).
  exists (SNum (num_of_nat n)), s. split; [|cbn [sval_val]; rewrite Hn; reflexivity].
  change (E3 F (QPosition i) s c)
    with (match position_c (query_test D has_ns i) c return eres (state3 (QPosition i)) with
          | Some n => OK3 (CVS (SNum (num_of_nat n))) s c | None => Stuck3 end).
  rewrite En. reflexivity.
Qed.

Lemma case_last : forall i, Sstmt (QLast i) /\ Estmt (QLast i).
Proof.
  intros i. split; [apply nilsel_Sstmt; reflexivity|].
  intros c V E. change (EVAL (QLast i) c) with (@Val value (VNum (last_of D (query_test D has_ns i) c))) in E.
  inversion E; subst. exists 1. intros F HF.
  apply fn_EvOK; [exact HF|reflexivity|]. intros s.
  destruct (last_c_spec D (query_test D has_ns i) c) as (n & En & Hn).
  exists (SNum (num_of_nat n)), s. split; [|cbn [sval_val]; rewrite Hn; reflexivity].
  change (E3 F (QLast i) s c)
    with (match last_c D (query_test D has_ns i) c return eres (state3 (QLast i)) with
          | Some n => OK3 (CVS (SNum (num_of_nat n))) s c | None => Stuck3 end).
  rewrite En. reflexivity.
Qed.

(* ---- logicalQuery ---- *)
Lemma compare_values_bool : forall op m n V, compare_values D op m n = Val V -> exists r, V = VBool r.
Proof.
  intros op m n V E. destruct m, n; cbn [compare_values] in E; try discriminate;
    try (inversion E; eauto; fail);
    apply obind_val_inv' in E; destruct E as (x & _ & E); inversion E; eauto.
Qed.

Lemma logical_ev_ok : forall F op l r c Vl Vr b,
  EvOK F l c Vl -> EvOK F r c Vr -> compare_values D op Vl Vr = Val (VBool b) ->
  forall st, exists st', logical_ev D F op (E3 F l) (E3 F r) st c = OK3 b st' c.
Proof.
  intros F op l r c Vl Vr b Hl Hr E [d sl sr]. unfold logical_ev. cbn [lg_l lg_r].
  destruct (Hl sl) as (va & wa & Ea & HVa & Hla & _). rewrite Ea.
  destruct (Hr sr) as (vb & wb & Eb & HVb & Hlb & _). rewrite Eb.
  destruct (logical_do_spec D op c F va wa Vl vb wb Vr b HVa HVb Hla Hlb E) as (wa' & wb' & Ed).
  rewrite Ed. eauto.
Qed.

Lemma case_logical : forall op l r, Estmt l -> Estmt r -> Sstmt (QLogical op l r) /\ Estmt (QLogical op l r).
Proof.
  intros op l r IHl IHr.
  assert (Hcore : forall c V, (do m <- EVAL l c; do n <- EVAL r c; compare_values D op m n) = Val V ->
            exists b, V = VBool b /\
            Eventually (fun F => 1 <= F /\ forall st, exists st', logical_ev D F op (E3 F l) (E3 F r) st c = OK3 b st' c)).
  { intros c V E. apply obind_val_inv' in E. destruct E as (m & Em & E).
    apply obind_val_inv' in E. destruct E as (n & En & E).
    destruct (compare_values_bool _ _ _ _ E) as (b & ->). exists b. split; [reflexivity|].
    destruct (IHl c m Em) as [F1 H1]. destruct (IHr c n En) as [F2 H2].
    exists (Nat.max 1 (Nat.max F1 F2)). intros F HF. split; [lia|].
    apply (logical_ev_ok F op l r c m n b); [apply H1; lia|apply H2; lia|exact E]. }
  split.
  - intros c l0 E.
    change (SEL (QLogical op l r) c)
      with (do m <- EVAL l c; do n <- EVAL r c; do v <- compare_values D op m n;
            Val (match v with VBool true => [mkItem c 1 0] | _ => [] end)) in E.
    assert (E' : exists V, (do m <- EVAL l c; do n <- EVAL r c; compare_values D op m n) = Val V /\
                           l0 = match V with VBool true => [mkItem c 1 0] | _ => [] end).
    { apply obind_val_inv' in E. destruct E as (m & Em & E). apply obind_val_inv' in E. destruct E as (n & En & E).
      apply obind_val_inv' in E. destruct E as (v & Ev & E). inversion E; subst.
      exists v. split; [|reflexivity]. rewrite Em. cbn [obind]. rewrite En. cbn [obind]. exact Ev. }
    destruct E' as (V & EV & ->). destruct (Hcore c V EV) as (b & -> & [F0 H0]).
    exists F0. intros F HF [d sl sr] Hd. cbn [ResetOK3 lg_done] in Hd. subst d.
    destruct (H0 F HF) as [_ Hev].
    replace (match VBool b with VBool true => [mkItem c 1 0] | _ => [] end)
      with (if b then [mkItem c 1 0] else []) by (destruct b; reflexivity).
    exact (logical_select_Rep D F op (E3 F l) (E3 F r) c b Hev sl sr).
  - intros c V E.
    change (EVAL (QLogical op l r) c) with (do m <- EVAL l c; do n <- EVAL r c; compare_values D op m n) in E.
    destruct (Hcore c V E) as (b & -> & [F0 H0]). exists F0. intros F HF. destruct (H0 F HF) as [HF1 Hev].
    intros st. destruct (Hev st) as (st' & Est).
    change (E3 F (QLogical op l r) st c)
      with (match logical_ev D F op (E3 F l) (E3 F r) st c return eres (state3 (QLogical op l r)) with
            | OK3 b st' cur' => OK3 (CVS (SBool b)) st' cur' | Stuck3 => Stuck3 | Panic3 m => Panic3 m end).
    rewrite Est. eexists _, _. split; [reflexivity|]. cbn. repeat split; auto.
Qed.

(* ---- numericQuery ---- *)
Lemma case_numeric : forall op l r, Estmt l -> Estmt r -> Sstmt (QNumeric op l r) /\ Estmt (QNumeric op l r).
Proof.
  intros op l r IHl IHr. split; [apply nilsel_Sstmt; reflexivity|].
  intros c V E.
  change (EVAL (QNumeric op l r) c)
    with (do m <- EVAL l c; do n <- EVAL r c; Val (VNum (arith_op op (as_number D m) (as_number D n)))) in E.
  apply obind_val_inv' in E. destruct E as (m & Em & E). apply obind_val_inv' in E. destruct E as (n & En & E).
  inversion E; subst. destruct (IHl c m Em) as [F1 H1]. destruct (IHr c n En) as [F2 H2].
  exists (Nat.max 1 (Nat.max F1 F2)). intros F HF.
  apply fn_EvOK; [lia|reflexivity|]. intros [sl sr].
  destruct (H1 F ltac:(lia) sl) as (va & wa & Ea & HVa & _ & _).
  destruct (H2 F ltac:(lia) sr) as (vb & wb & Eb & HVb & _ & _).
  destruct (as_number_spec D c va wa m HVa) as (wa' & Ena).
  destruct (as_number_spec D c vb wb n HVb) as (wb' & Enb).
  exists (SNum (arith_op op (as_number D m) (as_number D n))), (wa', wb'). split; [|reflexivity].
  assert (Hshape : E3 F (QNumeric op l r) (sl, sr) c =
          match E3 F l sl c with
          | Stuck3 => Stuck3 | Panic3 m => Panic3 m
          | OK3 va wa cur1 =>
            match E3 F r sr cur1 with
            | Stuck3 => Stuck3 | Panic3 m => Panic3 m
            | OK3 vb wb cur2 =>
              match as_number_c D va wa cur2 with
              | Stuck3 => Stuck3 | Panic3 m => Panic3 m
              | OK3 a wa' cur3 =>
                match as_number_c D vb wb cur3 with
                | Stuck3 => Stuck3 | Panic3 m => Panic3 m
                | OK3 b wb' cur4 => OK3 (CVS (SNum (arith_op op a b))) (wa', wb') cur4
                end
              end
            end
          end) by reflexivity.
  rewrite Hshape.
  rewrite Ea, Eb, Ena, Enb. reflexivity.
Qed.

Lemma bool_EvOK : forall F q c b,
  1 <= F -> (forall s, exists s', E3 F q s c = OK3 (CVS (SBool b)) s' c) -> EvOK F q c (VBool b).
Proof.
  intros F q c b HF H s. destruct (H s) as (s' & E). rewrite E. eexists _, _. split; [reflexivity|].
  cbn. repeat split; auto.
Qed.

(* ---- booleanQuery ---- *)
Lemma case_boolean : forall isor l r, Sstmt l -> Sstmt r -> Estmt l -> Estmt r ->
  Sstmt (QBoolean isor l r) /\ Estmt (QBoolean isor l r).
Proof.
  intros isor l r ISl ISr IEl IEr. split.
  - intros c l0 E.
    change (SEL (QBoolean isor l r) c)
      with (do a <- SEL l c; do b <- SEL r c;
            if isor then Val (unnumbered (nodes_of a ++ nodes_of b))
            else Val (unnumbered (match rev (nodes_of b) with
                                  | x :: _ => [x]
                                  | [] => match rev (nodes_of a) with x :: _ => [x] | [] => [] end
                                  end))) in E.
    apply obind_val_inv' in E. destruct E as (a & Ea & E). apply obind_val_inv' in E. destruct E as (b & Eb & E).
    assert (El0 : l0 = unnumbered (bool_list isor (nodes_of a) (nodes_of b))).
    { unfold bool_list. destruct isor; inversion E; reflexivity. }
    subst l0. destruct (ISl c a Ea) as [F1 H1]. destruct (ISr c b Eb) as [F2 H2].
    exists (Nat.max (Nat.max F1 F2) (S (Nat.max (List.length a) (List.length b)))).
    intros F HF [it sl sr] (Hit & HRl & HRr). cbn [bo_it bo_l bo_r] in *. subst it.
    apply (bool_Rep (S3 F l) (position_of3 l) (depth_of3 l) (S3 F r) (position_of3 r) (depth_of3 r));
      [apply H1; [lia|exact HRl]|apply H2; [lia|exact HRr]|lia|lia].
  - intros c V E.
    change (EVAL (QBoolean isor l r) c)
      with (do m <- EVAL l c; do a <- as_bool m;
            if isor then (if a then Val (VBool true) else do n <- EVAL r c; do b <- as_bool n; Val (VBool b))
            else (if a then do n <- EVAL r c; do b <- as_bool n; Val (VBool b) else Val (VBool false))) in E.
    apply obind_val_inv' in E. destruct E as (m & Em & E). apply obind_val_inv' in E. destruct E as (a & Eab & E).
    destruct (IEl c m Em) as [F1 H1].
    assert (Hshape : forall F st, E3 F (QBoolean isor l r) st c =
      match E3 F l (bo_l st) c with
      | Stuck3 => Stuck3 | Panic3 m => Panic3 m
      | OK3 va wa cur1 =>
        match as_bool_c va wa cur1 with
        | Stuck3 => Stuck3 | Panic3 m => Panic3 m
        | OK3 a wa' cur2 =>
          if Bool.eqb isor a then OK3 (CVS (SBool a)) (mkBoolSt (bo_it st) wa' (bo_r st)) cur2
          else
            match E3 F r (bo_r st) c with
            | Stuck3 => Stuck3 | Panic3 m => Panic3 m
            | OK3 vb wb cur4 =>
              match as_bool_c vb wb cur4 with
              | Stuck3 => Stuck3 | Panic3 m => Panic3 m
              | OK3 b wb' cur5 => OK3 (CVS (SBool b)) (mkBoolSt (bo_it st) wa' wb') cur5
              end
            end
        end
      end) by reflexivity.
    destruct (Bool.eqb isor a) eqn:Esc.
    + (* short cut *)
      assert (EV : V = VBool a).
      { apply Bool.eqb_prop in Esc. subst isor. destruct a; inversion E; reflexivity. }
      subst V. exists (Nat.max 1 F1). intros F HF.
      apply bool_EvOK; [lia|]. intros st. rewrite Hshape.
      destruct (H1 F ltac:(lia) (bo_l st)) as (va & wa & Ea & HVa & _ & _). rewrite Ea.
      destruct (as_bool_spec c va wa m a HVa Eab) as (wa' & Eba). rewrite Eba, Esc.
      eexists. reflexivity.
    + assert (E2 : (do n <- EVAL r c; do b <- as_bool n; Val (VBool b)) = Val V).
      { destruct isor, a; cbn in Esc; try discriminate; exact E. }
      apply obind_val_inv' in E2. destruct E2 as (n & En & E2). apply obind_val_inv' in E2.
      destruct E2 as (b & Ebb & E2). inversion E2; subst.
      destruct (IEr c n En) as [F2 H2]. exists (Nat.max 1 (Nat.max F1 F2)). intros F HF.
      apply bool_EvOK; [lia|]. intros st. rewrite Hshape.
      destruct (H1 F ltac:(lia) (bo_l st)) as (va & wa & Ea & HVa & _ & _). rewrite Ea.
      destruct (as_bool_spec c va wa m a HVa Eab) as (wa' & Eba). rewrite Eba, Esc.
      destruct (H2 F ltac:(lia) (bo_r st)) as (vb & wb & Eb & HVb & _ & _). rewrite Eb.
      destruct (as_bool_spec c vb wb n b HVb Ebb) as (wb' & Ebb'). rewrite Ebb'.
      eexists. reflexivity.
Qed.

(* ---- functionArgs ---- *)
Lemma fargs_step : forall {A} F a c Va (k : cval (state3 a) -> state3 a -> node -> cres3 A (state3 a)) (Q : A -> Prop),
  EvOK F a c Va ->
  (forall v w1, VRel c v w1 Va -> vlen Va < F -> exists x w2, k v w1 c = OK3 x w2 c /\ Q x) ->
  forall s, exists x s', fargs (is_fn a) (init3 a) (E3 F a) k s c = OK3 x s' c /\ Q x.
Proof.
  intros A F a c Va k Q HE Hk s. unfold fargs.
  destruct (HE (if is_fn a then s else init3 a)) as (v & w1 & E & HV & Hlen & _). rewrite E.
  destruct (Hk v w1 HV Hlen) as (x & w2 & E2 & HQ). rewrite E2. eauto.
Qed.

Lemma str_only_rel : forall {W} c (v : cval W) w V, VRel c v w V ->
  match v with CVS (SStr y) => y | _ => "" end = match V with VStr s => s | _ => "" end.
Proof.
  intros W c v w V H. destruct v as [[b|f|s|z|]|h]; destruct V; cbn in H; try destruct H; try contradiction;
    subst; reflexivity.
Qed.

(* ---- concat ---- *)
Lemma arglist_str : forall args c V, is_arglist args = true -> EVAL args c = Val V -> exists s, V = VStr s.
Proof.
  intros args c V Ha. destruct args; cbn [is_arglist] in Ha; try discriminate Ha; intros E.
  - change (EVAL QNil c) with (@Val value (VStr "")) in E. inversion E. eauto.
  - change (EVAL (QArg args1 args2) c)
      with (do v <- EVAL args1 c; do r <- EVAL args2 c;
            Val (VStr (str_or_first D v ++ match r with VStr s => s | _ => "" end))) in E.
    apply obind_val_inv' in E. destruct E as (v & _ & E). apply obind_val_inv' in E. destruct E as (r & _ & E).
    inversion E. eauto.
Qed.

Lemma case_arg : forall a rest, Estmt a -> Estmt rest -> Sstmt (QArg a rest) /\ Estmt (QArg a rest).
Proof.
  intros a rest IHa IHr. split; [apply nilsel_Sstmt; reflexivity|].
  intros c V E.
  change (EVAL (QArg a rest) c)
    with (do v <- EVAL a c; do r <- EVAL rest c;
          Val (VStr (str_or_first D v ++ match r with VStr s => s | _ => "" end))) in E.
  apply obind_val_inv' in E. destruct E as (v & Ea & E). apply obind_val_inv' in E. destruct E as (r & Er & E).
  inversion E; subst. destruct (IHa c v Ea) as [F1 H1]. destruct (IHr c r Er) as [F2 H2].
  exists (Nat.max 1 (Nat.max F1 F2)). intros F HF.
  apply fn_EvOK; [lia|reflexivity|]. intros [sa sr].
  assert (Hshape : E3 F (QArg a rest) (sa, sr) c =
    match fargs (is_fn a) (init3 a) (E3 F a) (str_or_first_c D) sa c with
    | Stuck3 => Stuck3 | Panic3 m => Panic3 m
    | OK3 x sa' cur1 =>
      match E3 F rest sr cur1 with
      | Stuck3 => Stuck3 | Panic3 m => Panic3 m
      | OK3 vr sr' cur2 =>
        OK3 (CVS (SStr (x ++ match vr with CVS (SStr y) => y | _ => "" end))) (sa', sr') cur2
      end
    end) by reflexivity.
  rewrite Hshape.
  destruct (fargs_step F a c v (str_or_first_c D) (fun x => x = str_or_first D v) (H1 F ltac:(lia))
              (fun v0 w1 HV _ => let '(ex_intro _ w' E') := str_or_first_spec D c v0 w1 v HV in
                                 ex_intro _ _ (ex_intro _ w' (conj E' eq_refl))) sa) as (x & sa' & Ef & ->).
  rewrite Ef. destruct (H2 F ltac:(lia) sr) as (vr & sr' & Er' & HVr & _ & _). rewrite Er'.
  rewrite (str_only_rel c vr sr' r HVr). eexists _, _. split; reflexivity.
Qed.

Lemma case_concat : forall args, is_arglist args = true -> Estmt args ->
  Sstmt (QConcat args) /\ Estmt (QConcat args).
Proof.
  intros args Hal IH. split; [apply nilsel_Sstmt; reflexivity|].
  intros c V E. change (EVAL (QConcat args) c) with (EVAL args c) in E.
  destruct (arglist_str args c V Hal E) as (s0 & ->).
  destruct (IH c (VStr s0) E) as [F0 H0]. exists F0. intros F HF s.
  destruct (H0 F HF s) as (v & s' & Ev & HV & Hlen & _).
  change (E3 F (QConcat args) s c) with (E3 F args s c). rewrite Ev.
  eexists _, _. split; [reflexivity|]. split; [exact HV|]. split; [exact Hlen|exact I].
Qed.

(* ---- functions of one argument ---- *)
Definition is_namefn (f : fn1) : bool :=
  match f with FName | FLocalName | FNamespaceURI => true | _ => false end.

Lemma eval_fn1_eq : forall f a c, is_namefn f = false ->
  EVAL (QFn1 f a) c = do v <- EVAL a c; fn1_list D (query_test D has_ns a) f v.
Proof. intros f a c Hf. destruct f; try discriminate; reflexivity. Qed.

Lemma ev3_fn1_eq : forall F f a s cur, is_namefn f = false ->
  E3 F (QFn1 f a) s cur =
  sv (fargs (is_fn a) (init3 a) (E3 F a) (fn1_consume D F f (query_test D has_ns a)) s cur).
Proof. intros F f a s cur Hf. destruct f; try discriminate; reflexivity. Qed.

Lemma eval_name_eq : forall f a c, is_namefn f = true ->
  EVAL (QFn1 f a) c =
  do target <- (if is_nil a then Val (Some c)
                else do l <- SEL a c; Val (match l with [] => None | i :: _ => Some (it_node i) end));
  match target with
  | None => Val (VStr "")
  | Some n => Val (VStr (name_of D has_ns f n))
  end.
Proof. intros f a c Hf. destruct f; try discriminate; destruct a; reflexivity. Qed.

Lemma ev3_name_eq : forall F f a s cur, is_namefn f = true ->
  E3 F (QFn1 f a) s cur = sv (name_ev D has_ns f (is_nil a) (init3 a) (S3 F a) s cur).
Proof. intros F f a s cur Hf. destruct f; try discriminate; reflexivity. Qed.

Lemma case_fn1 : forall f a, Sstmt a -> Estmt a -> Sstmt (QFn1 f a) /\ Estmt (QFn1 f a).
Proof.
  intros f a IHS IHE. split; [apply nilsel_Sstmt; reflexivity|].
  intros c V E. destruct (is_namefn f) eqn:Hf.
  - rewrite (eval_name_eq f a c Hf) in E. apply obind_val_inv' in E. destruct E as (target & Et & E).
    destruct (is_nil a) eqn:Hn.
    + inversion Et; subst. inversion E; subst. exists 1. intros F HF.
      apply fn_EvOK; [exact HF|reflexivity|]. intros s. rewrite (ev3_name_eq F f a s c Hf).
      unfold name_ev. rewrite Hn. eexists _, _. split; reflexivity.
    + apply obind_val_inv' in Et. destruct Et as (l & El & Et). inversion Et; subst.
      destruct (IHS c l El) as [F0 H0]. exists (Nat.max 1 F0). intros F HF.
      apply fn_EvOK; [lia|reflexivity|]. intros s. rewrite (ev3_name_eq F f a s c Hf).
      unfold name_ev. rewrite Hn.
      pose proof (H0 F ltac:(lia) (init3 a) (ResetOK3_init a)) as HR.
      destruct l as [|it l].
      * destruct (Rep_nil_step _ _ _ _ _ _ _ HR (OK_c c true)) as (w' & Ew & _). rewrite Ew.
        inversion E; subst. eexists _, _. split; reflexivity.
      * cbn [Rep] in HR. destruct (HR c (OK_c c true)) as (w' & Ew & _). rewrite Ew.
        inversion E; subst. eexists _, _. split; reflexivity.
  - rewrite (eval_fn1_eq f a c Hf) in E. apply obind_val_inv' in E. destruct E as (Va & Ea & E).
    destruct (IHE c Va Ea) as [F0 H0]. exists (Nat.max 1 F0). intros F HF.
    apply fn_EvOK; [lia|reflexivity|]. intros s. rewrite (ev3_fn1_eq F f a s c Hf).
    destruct (fargs_step F a c Va (fn1_consume D F f (query_test D has_ns a)) (fun x => sval_val x = V)
                         (H0 F ltac:(lia))
                         (fun v w1 HV Hlen => fn1_consume_spec D f (query_test D has_ns a) c F v w1 Va V HV Hlen E) s)
      as (x & s' & Ef & Hx).
    rewrite Ef. exists x, s'. split; [reflexivity|exact Hx].
Qed.

(* ---- functions of two arguments ---- *)
Lemma ev3_fn2_eq : forall F f a b st cur,
  E3 F (QFn2 f a b) st cur =
  fn2_ev D rm F f (is_fn a) (init3 a) (E3 F a) (query_test D has_ns a) (is_fn b) (init3 b) (E3 F b) st cur.
Proof. reflexivity. Qed.

(* consumers used by the string functions *)
Lemma k_str_or_query : forall {W} c nm (v : cval W) w V,
  VRel c v w V -> (match V with VStr _ | VNodes _ => True | _ => False end) ->
  exists x w2, (match v with
                | CVS (SStr _) | CVQuery _ => str_or_first_c D v w c
                | _ => Panic3 nm
                end) = OK3 x w2 c /\ x = str_or_first D V.
Proof.
  intros W c nm v w V HV HT. destruct (str_or_first_spec D c v w V HV) as (w' & E).
  destruct v as [[b|f|s|z|]|h]; destruct V; cbn in HV; try destruct HV; try contradiction; eauto.
Qed.

Lemma k_str : forall {W} c nm (v : cval W) w n,
  VRel c v w (VStr n) ->
  exists x w2, (match v with CVS (SStr n0) => OK3 n0 w c | _ => Panic3 nm end) = OK3 x w2 c /\ x = n.
Proof.
  intros W c nm v w n HV. destruct v as [[b|f|s|z|]|h]; cbn in HV; try contradiction. subst. eauto.
Qed.

Lemma k_num : forall {W} c nm (v : cval W) w n,
  VRel c v w (VNum n) ->
  exists x w2, (match v with CVS (SNum n0) => OK3 n0 w c | _ => Panic3 nm end) = OK3 x w2 c /\ x = n.
Proof.
  intros W c nm v w n HV. destruct v as [[b|f|s|z|]|h]; cbn in HV; try contradiction. subst. eauto.
Qed.

(* case string: Some s; case query: first node or None (return ""); default: Some "" *)
Lemma k_opt_first : forall {W} c (v : cval W) w V,
  VRel c v w V ->
  exists x w2, (match v with
                | CVS (SStr s) => OK3 (Some s) w c
                | CVQuery h => first_value_c D h w c
                | _ => OK3 (Some "") w c
                end) = OK3 x w2 c /\
               x = match V with VNodes [] => None | _ => Some (str_or_first D V) end.
Proof.
  intros W c v w V HV. destruct v as [[b|f|s|z|]|h]; destruct V; cbn in HV; try destruct HV as [HV HV'];
    try contradiction; subst; unfold str_or_first; eauto.
  destruct (first_value_spec D h c true w (nodes_of l) HV (OK_c c true)) as (w' & E & _).
  rewrite E, first_value_nodes. destruct l; cbn [nodes_of map]; eauto.
Qed.

(* run one  functionArgs(arg).Evaluate(t) + consumer  step in the goal *)
Ltac farg F a0 Va Q Hev tac :=
  match goal with
  | |- context [fargs (is_fn a0) (init3 a0) ?ev ?k ?s ?c] =>
    let Hk := fresh "Hk" in
    assert (Hk : forall v w1, VRel c v w1 Va -> vlen Va < F -> exists x w2, k v w1 c = OK3 x w2 c /\ Q x)
      by (let v := fresh "v" in let w1 := fresh "w1" in let HV := fresh "HV" in let Hlen := fresh "Hlen" in
          intros v w1 HV Hlen; cbv beta; tac HV Hlen);
    let x := fresh "x" in let s' := fresh "s'" in let Ef := fresh "Ef" in let HQ := fresh "HQ" in
    destruct (fargs_step F a0 c Va k Q Hev Hk s) as (x & s' & Ef & HQ); rewrite Ef; clear Hk; cbv beta in HQ
  end.

Lemma case_fn2 : forall f a b, Estmt a -> Estmt b -> Sstmt (QFn2 f a b) /\ Estmt (QFn2 f a b).
Proof.
  intros f a b IHa IHb. split; [apply nilsel_Sstmt; reflexivity|].
  intros c V E.
  destruct f.
  - (* starts-with *)
    change (EVAL (QFn2 FStartsWith a b) c)
      with (do va <- EVAL a c;
            match va with
            | VStr _ | VNodes _ =>
              do vb <- EVAL b c;
              match vb with
              | VStr n => Val (VBool (prefix n (str_or_first D va)))
              | _ => Complaint "starts-with() function argument type must be string"
              end
            | _ => Complaint "starts-with() function argument type must be string"
            end) in E.
    apply obind_val_inv' in E. destruct E as (va & Ea & E).
    assert (HT : match va with VStr _ | VNodes _ => True | _ => False end) by (destruct va; try discriminate; exact I).
    assert (E' : exists n, EVAL b c = Val (VStr n) /\ V = VBool (prefix n (str_or_first D va))).
    { destruct va; try discriminate; apply obind_val_inv' in E; destruct E as (vb & Eb & E);
        destruct vb; try discriminate; inversion E; eauto. }
    destruct E' as (n & Eb & ->). destruct (IHa c va Ea) as [F1 H1]. destruct (IHb c _ Eb) as [F2 H2].
    exists (Nat.max 1 (Nat.max F1 F2)). intros F HF.
    apply bool_EvOK; [lia|]. intros [sa sb]. rewrite ev3_fn2_eq. unfold fn2_ev. cbn [fst snd].
    farg F a va (fun x => x = str_or_first D va) (H1 F ltac:(lia))
         ltac:(fun HV Hlen => exact (k_str_or_query c _ _ _ va HV HT)). subst.
    farg F b (VStr n) (fun x => x = n) (H2 F ltac:(lia)) ltac:(fun HV Hlen => exact (k_str c _ _ _ n HV)). subst.
    eexists. reflexivity.
  - (* ends-with *)
    change (EVAL (QFn2 FEndsWith a b) c)
      with (do va <- EVAL a c;
            match va with
            | VStr _ | VNodes _ =>
              do vb <- EVAL b c;
              match vb with
              | VStr n => Val (VBool (has_suffix (str_or_first D va) n))
              | _ => Complaint "ends-with() function argument type must be string"
              end
            | _ => Complaint "ends-with() function argument type must be string"
            end) in E.
    apply obind_val_inv' in E. destruct E as (va & Ea & E).
    assert (HT : match va with VStr _ | VNodes _ => True | _ => False end) by (destruct va; try discriminate; exact I).
    assert (E' : exists n, EVAL b c = Val (VStr n) /\ V = VBool (has_suffix (str_or_first D va) n)).
    { destruct va; try discriminate; apply obind_val_inv' in E; destruct E as (vb & Eb & E);
        destruct vb; try discriminate; inversion E; eauto. }
    destruct E' as (n & Eb & ->). destruct (IHa c va Ea) as [F1 H1]. destruct (IHb c _ Eb) as [F2 H2].
    exists (Nat.max 1 (Nat.max F1 F2)). intros F HF.
    apply bool_EvOK; [lia|]. intros [sa sb]. rewrite ev3_fn2_eq. unfold fn2_ev. cbn [fst snd].
    farg F a va (fun x => x = str_or_first D va) (H1 F ltac:(lia))
         ltac:(fun HV Hlen => exact (k_str_or_query c _ _ _ va HV HT)). subst.
    farg F b (VStr n) (fun x => x = n) (H2 F ltac:(lia)) ltac:(fun HV Hlen => exact (k_str c _ _ _ n HV)). subst.
    eexists. reflexivity.
  - (* contains *)
    change (EVAL (QFn2 FContains a b) c)
      with (do va <- EVAL a c;
            match va with
            | VStr _ | VNodes _ =>
              do vb <- EVAL b c;
              match vb with
              | VStr n => Val (VBool (contains (str_or_first D va) n))
              | _ => Complaint "contains() function argument type must be string"
              end
            | _ => Complaint "contains() function argument type must be string"
            end) in E.
    apply obind_val_inv' in E. destruct E as (va & Ea & E).
    assert (HT : match va with VStr _ | VNodes _ => True | _ => False end) by (destruct va; try discriminate; exact I).
    assert (E' : exists n, EVAL b c = Val (VStr n) /\ V = VBool (contains (str_or_first D va) n)).
    { destruct va; try discriminate; apply obind_val_inv' in E; destruct E as (vb & Eb & E);
        destruct vb; try discriminate; inversion E; eauto. }
    destruct E' as (n & Eb & ->). destruct (IHa c va Ea) as [F1 H1]. destruct (IHb c _ Eb) as [F2 H2].
    exists (Nat.max 1 (Nat.max F1 F2)). intros F HF.
    apply bool_EvOK; [lia|]. intros [sa sb]. rewrite ev3_fn2_eq. unfold fn2_ev. cbn [fst snd].
    farg F a va (fun x => x = str_or_first D va) (H1 F ltac:(lia))
         ltac:(fun HV Hlen => exact (k_str_or_query c _ _ _ va HV HT)). subst.
    farg F b (VStr n) (fun x => x = n) (H2 F ltac:(lia)) ltac:(fun HV Hlen => exact (k_str c _ _ _ n HV)). subst.
    eexists. reflexivity.
  - (* matches *)
    change (EVAL (QFn2 FMatches a b) c)
      with (do va <- EVAL a c; do vb <- EVAL b c;
            match vb with
            | VStr p => match rm p (str_or_first D va) with
                        | Some r => Val (VBool r)
                        | None => Complaint "matches() function second argument is not a valid regexp pattern"
                        end
            | _ => Complaint "matches() function second argument type must be string"
            end) in E.
    apply obind_val_inv' in E. destruct E as (va & Ea & E). apply obind_val_inv' in E. destruct E as (vb & Eb & E).
    destruct vb as [| |p| | |]; try discriminate.
    destruct (rm p (str_or_first D va)) as [r|] eqn:Erm; [|discriminate]. inversion E; subst.
    destruct (IHa c va Ea) as [F1 H1]. destruct (IHb c _ Eb) as [F2 H2].
    exists (Nat.max 1 (Nat.max F1 F2)). intros F HF.
    apply bool_EvOK; [lia|]. intros [sa sb]. rewrite ev3_fn2_eq. unfold fn2_ev. cbn [fst snd].
    farg F a va (fun x => x = str_or_first D va) (H1 F ltac:(lia))
         ltac:(fun HV Hlen => destruct (str_or_first_spec D c _ _ va HV) as (w' & E'); eauto). subst.
    farg F b (VStr p) (fun x => x = p) (H2 F ltac:(lia)) ltac:(fun HV Hlen => exact (k_str c _ _ _ p HV)). subst.
    rewrite Erm. eexists. reflexivity.
  - (* substring-before *)
    change (EVAL (QFn2 FSubstringBefore a b) c)
      with (do va <- EVAL a c;
            match va with
            | VNodes [] => Val (VStr "")
            | _ => do vb <- EVAL b c;
                   match index_of (str_or_first D vb) (str_or_first D va) with
                   | None => Val (VStr "")
                   | Some i => Val (VStr (firstn_s i (str_or_first D va)))
                   end
            end) in E.
    apply obind_val_inv' in E. destruct E as (va & Ea & E). destruct (IHa c va Ea) as [F1 H1].
    destruct (match va with VNodes [] => true | _ => false end) eqn:Hemp.
    + assert (va = VNodes []) by (destruct va as [| | |[|]| |]; try discriminate; reflexivity). subst va.
      inversion E; subst. exists (Nat.max 1 F1). intros F HF.
      apply fn_EvOK; [lia|reflexivity|]. intros [sa sb]. rewrite ev3_fn2_eq. unfold fn2_ev. cbn [fst snd].
      farg F a (VNodes []) (fun x : option string => x = None) (H1 F ltac:(lia))
           ltac:(fun HV Hlen => exact (k_opt_first c _ _ (VNodes []) HV)). subst.
      eexists _, _. split; reflexivity.
    + assert (E' : (do vb <- EVAL b c;
                    match index_of (str_or_first D vb) (str_or_first D va) with
                    | None => Val (VStr "")
                    | Some i => Val (VStr (firstn_s i (str_or_first D va)))
                    end) = Val V) by (destruct va as [| | |[|]| |]; try discriminate; exact E).
      apply obind_val_inv' in E'. destruct E' as (vb & Eb & E'). destruct (IHb c vb Eb) as [F2 H2].
      exists (Nat.max 1 (Nat.max F1 F2)). intros F HF.
      apply fn_EvOK; [lia|reflexivity|]. intros [sa sb]. rewrite ev3_fn2_eq. unfold fn2_ev. cbn [fst snd].
      farg F a va (fun x => x = Some (str_or_first D va)) (H1 F ltac:(lia))
           ltac:(fun HV Hlen => destruct (k_opt_first c _ _ va HV) as (x0 & w2 & E1 & E2); exists x0, w2;
                                split; [exact E1|]; rewrite E2;
                                destruct va as [| | |[|]| |]; try discriminate; reflexivity). subst.
      farg F b vb (fun x => x = str_or_first D vb) (H2 F ltac:(lia))
           ltac:(fun HV Hlen => destruct (str_or_first_spec D c _ _ vb HV) as (w' & E''); eauto). subst.
      eexists _, _. split; [reflexivity|].
      destruct (index_of (str_or_first D vb) (str_or_first D va)); inversion E'; reflexivity.
  - (* substring-after *)
    change (EVAL (QFn2 FSubstringAfter a b) c)
      with (do va <- EVAL a c;
            match va with
            | VNodes [] => Val (VStr "")
            | _ => do vb <- EVAL b c;
                   match index_of (str_or_first D vb) (str_or_first D va) with
                   | None => Val (VStr "")
                   | Some i => Val (VStr (skipn_s (i + String.length (str_or_first D vb)) (str_or_first D va)))
                   end
            end) in E.
    apply obind_val_inv' in E. destruct E as (va & Ea & E). destruct (IHa c va Ea) as [F1 H1].
    destruct (match va with VNodes [] => true | _ => false end) eqn:Hemp.
    + assert (va = VNodes []) by (destruct va as [| | |[|]| |]; try discriminate; reflexivity). subst va.
      inversion E; subst. exists (Nat.max 1 F1). intros F HF.
      apply fn_EvOK; [lia|reflexivity|]. intros [sa sb]. rewrite ev3_fn2_eq. unfold fn2_ev. cbn [fst snd].
      farg F a (VNodes []) (fun x : option string => x = None) (H1 F ltac:(lia))
           ltac:(fun HV Hlen => exact (k_opt_first c _ _ (VNodes []) HV)). subst.
      eexists _, _. split; reflexivity.
    + assert (E' : (do vb <- EVAL b c;
                    match index_of (str_or_first D vb) (str_or_first D va) with
                    | None => Val (VStr "")
                    | Some i => Val (VStr (skipn_s (i + String.length (str_or_first D vb)) (str_or_first D va)))
                    end) = Val V) by (destruct va as [| | |[|]| |]; try discriminate; exact E).
      apply obind_val_inv' in E'. destruct E' as (vb & Eb & E'). destruct (IHb c vb Eb) as [F2 H2].
      exists (Nat.max 1 (Nat.max F1 F2)). intros F HF.
      apply fn_EvOK; [lia|reflexivity|]. intros [sa sb]. rewrite ev3_fn2_eq. unfold fn2_ev. cbn [fst snd].
      farg F a va (fun x => x = Some (str_or_first D va)) (H1 F ltac:(lia))
           ltac:(fun HV Hlen => destruct (k_opt_first c _ _ va HV) as (x0 & w2 & E1 & E2); exists x0, w2;
                                split; [exact E1|]; rewrite E2;
                                destruct va as [| | |[|]| |]; try discriminate; reflexivity). subst.
      farg F b vb (fun x => x = str_or_first D vb) (H2 F ltac:(lia))
           ltac:(fun HV Hlen => destruct (str_or_first_spec D c _ _ vb HV) as (w' & E''); eauto). subst.
      eexists _, _. split; [reflexivity|].
      destruct (index_of (str_or_first D vb) (str_or_first D va)); inversion E'; reflexivity.
  - (* string-join *)
    change (EVAL (QFn2 FStringJoin a b) c)
      with (do va <- EVAL a c; do vb <- EVAL b c;
            match va with
            | VStr s => Val (VStr s)
            | VNodes l => Val (VStr (join (str_or_first D vb)
                                          (map (node_value D) (filter (query_test D has_ns a) (nodes_of l)))))
            | _ => Val (VStr "")
            end) in E.
    apply obind_val_inv' in E. destruct E as (va & Ea & E). apply obind_val_inv' in E. destruct E as (vb & Eb & E).
    destruct (IHa c va Ea) as [F1 H1]. destruct (IHb c vb Eb) as [F2 H2].
    exists (Nat.max 1 (Nat.max F1 F2)). intros F HF.
    apply fn_EvOK; [lia|reflexivity|]. intros [sa sb]. rewrite ev3_fn2_eq. unfold fn2_ev. cbn [fst snd].
    farg F b vb (fun x => x = str_or_first D vb) (H2 F ltac:(lia))
         ltac:(fun HV Hlen => destruct (str_or_first_spec D c _ _ vb HV) as (w' & E''); eauto). subst.
    farg F a va (fun x => VStr x = V) (H1 F ltac:(lia))
         ltac:(fun HV Hlen =>
                 match goal with v : cval _ |- _ =>
                   destruct v as [[y|y|y|y|]|h]; destruct va; cbn in HV; try destruct HV as [HV HV'];
                   try contradiction; subst; inversion E; subst; eauto;
                   match goal with l : list item |- _ =>
                     destruct (sel_loop_spec (h_sel h)
                       (fun acc n => (if query_test D has_ns a n then acc ++ [node_value D n] else acc, false))
                       c (nodes_of l) F true _ [] c HV (OK_c c true)
                       ltac:(unfold nodes_of; rewrite map_length; exact Hlen)) as (w' & El);
                     rewrite El, lfold_parts; cbn [app]; eauto
                   end
                 end).
    eexists (SStr _). eexists. split; [reflexivity|exact HQ].
Qed.

(* ---- functions of three arguments ---- *)
Lemma ev3_fn3_eq : forall F f a b x st cur,
  E3 F (QFn3 f a b x) st cur =
  fn3_ev D rm rn rr f (is_fn a) (init3 a) (E3 F a) (is_fn b) (init3 b) (E3 F b)
         (is_nil x) (is_fn x) (init3 x) (E3 F x) st cur.
Proof. reflexivity. Qed.

Lemma eval_substring_eq : forall a b x c,
  EVAL (QFn3 FSubstring a b x) c =
  do va <- EVAL a c;
  match va with
  | VNodes [] => Val (VStr "")
  | _ =>
    do vb <- EVAL b c;
    match vb with
    | VNum start =>
      match x with
      | QNil => Val (VStr (substring_go (str_or_first D va) start None))
      | _ => do vx <- EVAL x c;
             match vx with
             | VNum len => Val (VStr (substring_go (str_or_first D va) start (Some len)))
             | _ => Complaint "substring() function second argument type must be number"
             end
      end
    | _ => Complaint "substring() function first argument type must be number"
    end
  end.
Proof. reflexivity. Qed.

Lemma case_fn3 : forall f a b x, Estmt a -> Estmt b -> Estmt x -> Sstmt (QFn3 f a b x) /\ Estmt (QFn3 f a b x).
Proof.
  intros f a b x IHa IHb IHx. split; [apply nilsel_Sstmt; reflexivity|].
  intros c V E. destruct f.
  - (* substring *)
    rewrite eval_substring_eq in E.
    apply obind_val_inv' in E. destruct E as (va & Ea & E). destruct (IHa c va Ea) as [F1 H1].
    destruct (match va with VNodes [] => true | _ => false end) eqn:Hemp.
    + assert (va = VNodes []) by (destruct va as [| | |[|]| |]; try discriminate; reflexivity). subst va.
      inversion E; subst. exists (Nat.max 1 F1). intros F HF.
      apply fn_EvOK; [lia|reflexivity|]. intros [[sa sb] sx]. rewrite ev3_fn3_eq. unfold fn3_ev. cbn [fst snd].
      farg F a (VNodes []) (fun x : option string => x = None) (H1 F ltac:(lia))
           ltac:(fun HV Hlen => exact (k_opt_first c _ _ (VNodes []) HV)). subst.
      eexists _, _. split; reflexivity.
    + assert (E' : (do vb <- EVAL b c;
                    match vb with
                    | VNum start =>
                      match x with
                      | QNil => Val (VStr (substring_go (str_or_first D va) start None))
                      | _ => do vx <- EVAL x c;
                             match vx with
                             | VNum len => Val (VStr (substring_go (str_or_first D va) start (Some len)))
                             | _ => Complaint "substring() function second argument type must be number"
                             end
                      end
                    | _ => Complaint "substring() function first argument type must be number"
                    end) = Val V) by (destruct va as [| | |[|]| |]; try discriminate; exact E).
      apply obind_val_inv' in E'. destruct E' as (vb & Eb & E').
      destruct vb as [|start| | | |]; try discriminate. destruct (IHb c _ Eb) as [F2 H2].
      rewrite match_nil in E'.
      destruct (is_nil x) eqn:Hnx.
      * inversion E'; subst. exists (Nat.max 1 (Nat.max F1 F2)). intros F HF.
        apply fn_EvOK; [lia|reflexivity|]. intros [[sa sb] sx]. rewrite ev3_fn3_eq. unfold fn3_ev. cbn [fst snd].
        farg F a va (fun y => y = Some (str_or_first D va)) (H1 F ltac:(lia))
             ltac:(fun HV Hlen => destruct (k_opt_first c _ _ va HV) as (x0 & w2 & E1 & E2); exists x0, w2;
                                  split; [exact E1|]; rewrite E2;
                                  destruct va as [| | |[|]| |]; try discriminate; reflexivity). subst.
        farg F b (VNum start) (fun y => y = start) (H2 F ltac:(lia))
             ltac:(fun HV Hlen => exact (k_num c _ _ _ start HV)). subst.
        rewrite Hnx. eexists _, _. split; reflexivity.
      * apply obind_val_inv' in E'. destruct E' as (vx & Ex & E').
        destruct vx as [|len| | | |]; try discriminate. inversion E'; subst.
        destruct (IHx c _ Ex) as [F3 H3].
        exists (Nat.max 1 (Nat.max F1 (Nat.max F2 F3))). intros F HF.
        apply fn_EvOK; [lia|reflexivity|]. intros [[sa sb] sx]. rewrite ev3_fn3_eq. unfold fn3_ev. cbn [fst snd].
        farg F a va (fun y => y = Some (str_or_first D va)) (H1 F ltac:(lia))
             ltac:(fun HV Hlen => destruct (k_opt_first c _ _ va HV) as (x0 & w2 & E1 & E2); exists x0, w2;
                                  split; [exact E1|]; rewrite E2;
                                  destruct va as [| | |[|]| |]; try discriminate; reflexivity). subst.
        farg F b (VNum start) (fun y => y = start) (H2 F ltac:(lia))
             ltac:(fun HV Hlen => exact (k_num c _ _ _ start HV)). subst.
        rewrite Hnx.
        farg F x (VNum len) (fun y => y = len) (H3 F ltac:(lia))
             ltac:(fun HV Hlen => exact (k_num c _ _ _ len HV)). subst.
        eexists _, _. split; reflexivity.
  - (* translate *)
    change (EVAL (QFn3 FTranslate a b x) c)
      with (do va <- EVAL a c; do s <- as_string D va;
            do vb <- EVAL b c; do src <- as_string D vb;
            do vx <- EVAL x c; do dst <- as_string D vx;
            Val (VStr (translate s src dst))) in E.
    apply obind_val_inv' in E. destruct E as (va & Ea & E). apply obind_val_inv' in E. destruct E as (s0 & Es & E).
    apply obind_val_inv' in E. destruct E as (vb & Eb & E). apply obind_val_inv' in E. destruct E as (src & Esrc & E).
    apply obind_val_inv' in E. destruct E as (vx & Ex & E). apply obind_val_inv' in E. destruct E as (dst & Edst & E).
    inversion E; subst.
    destruct (IHa c va Ea) as [F1 H1]. destruct (IHb c vb Eb) as [F2 H2]. destruct (IHx c vx Ex) as [F3 H3].
    exists (Nat.max 1 (Nat.max F1 (Nat.max F2 F3))). intros F HF.
    apply fn_EvOK; [lia|reflexivity|]. intros [[sa sb] sx]. rewrite ev3_fn3_eq. unfold fn3_ev. cbn [fst snd].
    farg F a va (fun y => y = s0) (H1 F ltac:(lia))
         ltac:(fun HV Hlen => destruct (as_string_spec D c _ _ va s0 HV Es) as (w' & E'); eauto). subst.
    farg F b vb (fun y => y = src) (H2 F ltac:(lia))
         ltac:(fun HV Hlen => destruct (as_string_spec D c _ _ vb src HV Esrc) as (w' & E'); eauto). subst.
    farg F x vx (fun y => y = dst) (H3 F ltac:(lia))
         ltac:(fun HV Hlen => destruct (as_string_spec D c _ _ vx dst HV Edst) as (w' & E'); eauto). subst.
    eexists _, _. split; reflexivity.
  - (* replace *)
    change (EVAL (QFn3 FReplace a b x) c)
      with (do va <- EVAL a c; do s <- as_string D va;
            do vb <- EVAL b c; do src <- as_string D vb;
            do vx <- EVAL x c; do dst <- as_string D vx;
            match rm src "" with
            | None => Complaint "replace() function second argument is not a valid regexp pattern"
            | Some _ => Val (VStr (rr src s (rewrite_refs (rn src) dst)))
            end) in E.
    apply obind_val_inv' in E. destruct E as (va & Ea & E). apply obind_val_inv' in E. destruct E as (s0 & Es & E).
    apply obind_val_inv' in E. destruct E as (vb & Eb & E). apply obind_val_inv' in E. destruct E as (src & Esrc & E).
    apply obind_val_inv' in E. destruct E as (vx & Ex & E). apply obind_val_inv' in E. destruct E as (dst & Edst & E).
    destruct (rm src "") as [r0|] eqn:Erm; [|discriminate]. inversion E; subst.
    destruct (IHa c va Ea) as [F1 H1]. destruct (IHb c vb Eb) as [F2 H2]. destruct (IHx c vx Ex) as [F3 H3].
    exists (Nat.max 1 (Nat.max F1 (Nat.max F2 F3))). intros F HF.
    apply fn_EvOK; [lia|reflexivity|]. intros [[sa sb] sx]. rewrite ev3_fn3_eq. unfold fn3_ev. cbn [fst snd].
    farg F a va (fun y => y = s0) (H1 F ltac:(lia))
         ltac:(fun HV Hlen => destruct (as_string_spec D c _ _ va s0 HV Es) as (w' & E'); eauto). subst.
    farg F b vb (fun y => y = src) (H2 F ltac:(lia))
         ltac:(fun HV Hlen => destruct (as_string_spec D c _ _ vb src HV Esrc) as (w' & E'); eauto). subst.
    farg F x vx (fun y => y = dst) (H3 F ltac:(lia))
         ltac:(fun HV Hlen => destruct (as_string_spec D c _ _ vx dst HV Edst) as (w' & E'); eauto). subst.
    rewrite Erm. eexists _, _. split; reflexivity.
Qed.

(* ================================================================== *)
(** * 6. The refinement theorem *)

Theorem m1_main : forall q, m1_supported q = true -> Sstmt q /\ Estmt q.
Proof.
  induction q; intros Hs; cbn [m1_supported] in Hs; try discriminate;
    repeat (apply andb_prop in Hs; let H1 := fresh "Hsup" in destruct Hs as [Hs H1]).
  - apply case_nil.
  - apply case_nop.
  - apply case_context.
  - apply case_absolute.
  - apply case_ancestor; auto. apply IHq; auto.
  - apply case_attribute; auto. apply IHq; auto.
  - apply case_child; auto. apply IHq; auto.
  - apply case_cachedchild; auto. apply IHq; auto.
  - apply case_descendant; auto. apply IHq; auto.
  - apply case_following; auto. apply IHq; auto.
  - apply case_preceding; auto. apply IHq; auto.
  - apply case_parent; auto. apply IHq; auto.
  - apply case_self; auto. apply IHq; auto.
  - apply case_filter; auto; [apply IHq1|apply IHq2]; auto.
  - apply case_fn0.
  - apply case_fn1; apply IHq; auto.
  - apply case_fn2; [apply IHq1|apply IHq2]; auto.
  - apply case_fn3; [apply IHq1|apply IHq2|apply IHq3]; auto.
  - apply case_concat; auto. apply IHq; auto.
  - apply case_arg; [apply IHq1|apply IHq2]; auto.
  - apply case_position.
  - apply case_last.
  - apply case_reverse; auto. apply IHq; auto.
  - apply case_num.
  - apply case_str.
  - apply case_group; apply IHq; auto.
  - apply case_logical; [apply IHq1|apply IHq2]; auto.
  - apply case_numeric; [apply IHq1|apply IHq2]; auto.
  - apply case_boolean; try apply IHq1; try apply IHq2; auto.
  - apply andb_prop in Hsup. destruct Hsup. apply case_union; auto; [apply IHq1|apply IHq2]; auto.
  - apply andb_prop in Hsup. destruct Hsup. apply case_merge; auto; [apply IHq1|apply IHq2]; auto.
Qed.

End Main.

(* ================================================================== *)
(** * 7. Top-level statements *)

Section Top.
Variable D : tree.
Variable has_ns : bool.
Variable hc : node -> N.
Variable rm : string -> string -> option bool.
Variable rn : string -> nat.
Variable rr : string -> string -> string -> string.
Notation SEL := (sel D has_ns hc rm rn rr).
Notation EVAL := (eval D has_ns hc rm rn rr).
Notation S3 := (sel3 D has_ns hc rm rn rr).
Notation E3 := (ev3 D has_ns hc rm rn rr).

Lemma run3_Rep : forall q F c l b s n,
  Rep (S3 F q) (position_of3 q) (depth_of3 q) c b s l -> List.length l < n ->
  exists s', run3 D has_ns hc rm rn rr F n (existT _ q s) c = (l, E_nil, existT _ q s', c).
Proof.
  intros q F c. induction l as [|it r IH]; intros b s n HR Hn; (destruct n as [|n]; [cbn in Hn; lia|]).
  - destruct (Rep_nil_step _ _ _ _ _ _ _ HR (OK_c c b)) as (s' & E & HR').
    exists s'. cbn [run3]. unfold select3. cbn [projT1 projT2]. rewrite E. reflexivity.
  - cbn [Rep] in HR. destruct (HR c (OK_c c b)) as (s1 & E & Hp & Hl & HR1).
    destruct (IH false s1 n HR1 ltac:(cbn in Hn; lia)) as (s' & Erun).
    exists s'. cbn [run3]. unfold select3. cbn [projT1 projT2]. rewrite E, Erun.
    unfold position3, depth3. cbn [projT1 projT2]. rewrite Hp, Hl. destruct it; reflexivity.
Qed.

(** ** MAIN.  For every supported query, draining the cursor-level iterator of a fresh
    (just cloned) query, with enough fuel, yields exactly the items -- node, position(),
    depth() -- of the list-level [sel]; the run ends with nil (never Stuck) and the shared
    context cursor t.Current() is where it was. *)
Theorem m1_refines_m2_all : forall q (wf : m1_supported q = true) c l,
  SEL q c = Val l ->
  exists F0, forall F n, F0 <= F -> List.length l < n ->
    drain_items3 D has_ns hc rm rn rr F n (fresh3 q) c = l /\
    drain3 D has_ns hc rm rn rr F n (fresh3 q) c = nodes_of l /\
    exists st', run3 D has_ns hc rm rn rr F n (fresh3 q) c = (l, E_nil, st', c).
Proof.
  intros q wf c l E. destruct (m1_main D has_ns hc rm rn rr q wf) as [HS _].
  destruct (HS c l E) as [F0 H0]. exists F0. intros F n HF Hn.
  destruct (run3_Rep q F c l true (init3 q) n (H0 F HF (init3 q) (ResetOK3_init q)) Hn) as (s' & Er).
  unfold drain3, drain_items3, fresh3. rewrite Er. cbn [fst]. repeat split; eauto.
Qed.

(* the same from any state Evaluate leaves behind (Evaluate resets), and after Clone *)
Theorem m1_refines_after_evaluate : forall q (wf : m1_supported q = true) (ns : is_ns q = true) c l s,
  SEL q c = Val l ->
  exists F0, forall F n, F0 <= F -> List.length l < n ->
    exists st', run3 D has_ns hc rm rn rr F n (existT _ q (reset3 q s)) c = (l, E_nil, st', c).
Proof.
  intros q wf ns c l s E. destruct (m1_main D has_ns hc rm rn rr q wf) as [HS _].
  destruct (HS c l E) as [F0 H0]. exists F0. intros F n HF Hn.
  destruct (run3_Rep q F c l true (reset3 q s) n (H0 F HF _ (ResetOK3_reset q ns wf s)) Hn) as (s' & Er). eauto.
Qed.

(** ** Evaluate: from ANY state of the query tree (states are shared between
    evaluations: filter predicates, operands of logical/numeric/boolean queries,
    function arguments that are functions), the value is the list-level value, and
    t.Current() is restored. *)
Definition val_out (V : value) : eval_out :=
  match V with
  | VBool b => EO_val (SBool b) | VNum f => EO_val (SNum f) | VStr s => EO_val (SStr s)
  | VInt z => EO_val (SInt z) | VNil => EO_val SNil
  | VNodes l => EO_nodes (nodes_of l)
  end.

Theorem m1_evaluate_refines : forall q (wf : m1_supported q = true) c V,
  EVAL q c = Val V ->
  exists F0, forall F n, F0 <= F -> vlen V < n ->
    evaluate3 D has_ns hc rm rn rr F n q c = val_out V.
Proof.
  intros q wf c V E. destruct (m1_main D has_ns hc rm rn rr q wf) as [_ HE].
  destruct (HE c V E) as [F0 H0]. exists F0. intros F n HF Hn.
  destruct (H0 F HF (init3 q)) as (v & s' & Ev & HV & _ & _). unfold evaluate3. rewrite Ev.
  destruct v as [[b|f|s|z|]|h]; destruct V; cbn in HV; try destruct HV as [HV _]; try contradiction; subst;
    try reflexivity.
  destruct HV as (pos & lvl & l0 & HR & El).
  assert (Hl : List.length l0 < n).
  { cbn [vlen] in Hn. apply (f_equal (@List.length node)) in El. unfold nodes_of in El. rewrite !map_length in El. lia. }
  destruct (mcollect_spec (h_sel h) pos lvl c l0 n s' true c [] HR (OK_c c true) Hl) as (s'' & Em).
  rewrite Em. cbn [app val_out]. rewrite El. reflexivity.
Qed.

Theorem m1_evaluate_any_state : forall q (wf : m1_supported q = true) c V,
  EVAL q c = Val V ->
  exists F0, forall F, F0 <= F -> forall s, exists v s', E3 F q s c = OK3 v s' c /\ VRel c v s' V.
Proof.
  intros q wf c V E. destruct (m1_main D has_ns hc rm rn rr q wf) as [_ HE].
  destruct (HE c V E) as [F0 H0]. exists F0. intros F HF s.
  destruct (H0 F HF s) as (v & s' & Ev & HV & _). eauto.
Qed.

End Top.

Print Assumptions m1_main.
Print Assumptions m1_refines_m2_all.
Print Assumptions m1_refines_after_evaluate.
Print Assumptions m1_evaluate_refines.
Print Assumptions m1_evaluate_any_state.
Print Assumptions filter3_Rep.
Print Assumptions rev_Rep.
Print Assumptions bool_Rep.
Print Assumptions logical_select_Rep.
Print Assumptions logical_do_spec.
Print Assumptions fn1_consume_spec.

(* ================================================================== *)
(** * 8. Examples (document of AxesSound.Examples:
      <a x="1" y="2"><b>t</b><c z="3"><d/><!--k--></c><e/></a>; queries compiled by Api.compile) *)

From XP Require Import Api.

Module M3Examples.
Import AxesSound.Examples.
Open Scope string_scope.

Definition hc := hash_code exD.
Definition SELx := sel exD false hc lit_match lit_numsubexp lit_replace_all.
Definition EVALx := eval exD false hc lit_match lit_numsubexp lit_replace_all.
Definition comp (s : string) : query := match compile lit_ok s None with Ok q => q | _ => QNop end.
Definition dr3 (q : query) (c : node) := drain_items3 exD false hc lit_match lit_numsubexp lit_replace_all 60 60 (fresh3 q) c.
Definition drn3 (q : query) (c : node) := drain3 exD false hc lit_match lit_numsubexp lit_replace_all 60 60 (fresh3 q) c.
Definition ev3x (q : query) (c : node) := evaluate3 exD false hc lit_match lit_numsubexp lit_replace_all 60 60 q c.

(* supported, and the cursor-level drain IS the list-level result (items: node, position, level) *)
Definition agrees (s : string) (c : node) : Prop :=
  m1_supported (comp s) = true /\ SELx (comp s) c = Val (dr3 (comp s) c).

Example ex_filters :
  agrees "//*[@x]" root_node /\ agrees "//node()[2]" root_node /\ agrees "//*[position()=last()]" root_node /\
  agrees "(//node())[3]" root_node /\ agrees "//*[count(*)=2]" root_node /\ agrees "//*[not(@z)]" root_node /\
  agrees "//*[. = 't']" root_node /\ agrees "//*[name()='c']" root_node /\
  agrees "//*[@x='1' and @y='2']" root_node /\ agrees "//*[@x or @z]" root_node /\
  agrees "/a/*[position() < 3]" root_node /\ agrees "//*[string-length(name()) = 1][2]" root_node /\
  agrees "//node()[self::b or self::e]" root_node /\ agrees "//*[contains(name(), 'a')]" root_node /\
  agrees "//a[b][c][e]" root_node /\ agrees "//*[*[2]]" root_node /\ agrees "/a/*[last()][1]" root_node.
Proof. unfold agrees. vm_compute. repeat split; reflexivity. Qed.

Example ex_paths :
  agrees "//b | //e" root_node /\ agrees "//d/ancestor::*" root_node /\ agrees "/a/b/following::node()" root_node /\
  agrees "reverse(//*)" root_node /\ agrees "//c/*[1]/following-sibling::node()" root_node /\
  agrees "/a/c/preceding::node()" root_node /\ agrees "//@*/.." root_node.
Proof. unfold agrees. vm_compute. repeat split; reflexivity. Qed.

Example ex_drain_nodes : drn3 (comp "//*[not(@z)]") root_node = [n_a; n_b; n_e; n_d].
Proof. vm_compute. reflexivity. Qed.
Example ex_drain_reverse : drn3 (comp "reverse(//*)") root_node = [n_e; n_d; n_c; n_b; n_a].
Proof. vm_compute. reflexivity. Qed.

(* a top-level logicalQuery / booleanQuery Select *)
Example ex_logical_select : drn3 (comp "b = 't'") n_a = [n_a] /\ SELx (comp "b = 't'") n_a = Val (dr3 (comp "b = 't'") n_a).
Proof. vm_compute. split; reflexivity. Qed.

(* Evaluate *)
Definition vagrees (s : string) (c : node) : Prop :=
  m1_supported (comp s) = true /\
  exists V, EVALx (comp s) c = Val V /\ ev3x (comp s) c = val_out V.

Example ex_evaluate :
  vagrees "count(//node())" n_a /\ vagrees "sum(//@*)" n_a /\ vagrees "string(b)" n_a /\
  vagrees "concat(name(), '-', @x, b)" n_a /\ vagrees "1 + count(*) * 2" n_a /\ vagrees "b = 't'" n_a /\
  vagrees "@x < @y" n_a /\ vagrees "boolean(c/d)" n_a /\ vagrees "not(e/x)" n_a /\
  vagrees "substring('12345', 2, 3)" n_a /\ vagrees "normalize-space(b)" n_a /\ vagrees "round(2.5)" n_a /\
  vagrees "starts-with(name(c), 'c')" n_a /\ vagrees "translate(b, 't', 'T')" n_a /\ vagrees "//b = //c" n_a /\
  vagrees "* = 't'" n_a /\ vagrees "position()" n_a /\ vagrees "last()" n_a /\ vagrees "(1 = 1) = (b = 't')" n_a /\
  vagrees "lower-case('AbC')" n_a /\ vagrees "//*[2]" n_a.
Proof. unfold vagrees. vm_compute. repeat split; try reflexivity; eexists; split; reflexivity. Qed.

Example ex_evaluate_values :
  ev3x (comp "concat(name(), '-', @x, b)") n_a = EO_val (SStr "a-1t") /\
  ev3x (comp "round(2.5)") n_a = EO_val (SInt 3) /\
  ev3x (comp "//*[2]") n_a = EO_nodes [n_c].
Proof. vm_compute. repeat split; reflexivity. Qed.

(* the hypotheses of m1_refines_m2_all are satisfiable; its conclusion computed *)
Example ex_main_instance :
  let q := comp "//*[count(node())=2][1]" in
  m1_supported q = true /\ SELx q root_node = Val (dr3 q root_node) /\ drn3 q root_node = [n_c].
Proof. vm_compute. repeat split; reflexivity. Qed.

(* descendantOverDescendantQuery is transliterated (Iter3.dod_select) and agrees with Eval.sel on
   examples; its refinement is not proved, so m1_supported says no.  (The expressions //a//d,
   //a//node(), //*//d ... do not compile to it with the current builder.) *)
Definition Qdod1 := QDoD false elem_t (QChild any_t QAbsolute).
Definition Qdod2 := QDoD true any_t (QDescendant true elem_t QContext).
Example ex_dod :
  m1_supported Qdod1 = false /\
  SELx Qdod1 root_node = Val (dr3 Qdod1 root_node) /\ drn3 Qdod1 root_node = [n_b; n_c; n_e] /\
  SELx Qdod2 root_node = Val (dr3 Qdod2 root_node) /\ List.length (dr3 Qdod2 root_node) = 5.
Proof. vm_compute. repeat split; reflexivity. Qed.

(* ---- FINDING 1: lastFuncQuery.Evaluate caches its count for the life of the object
        (`counted` is never reset, not by Evaluate either).  A second evaluation from another
        context node returns the stale number ---- *)
Definition lfq := QLastFunc (QChild any_t QContext).
Definition ev3e := ev3 exD false hc lit_match lit_numsubexp lit_replace_all 20.
Example ex_lastfunc_stale :
  match ev3e lfq (init3 lfq) n_c with
  | OK3 (CVS v1) s _ =>
    v1 = SNum (num_of_nat 2) /\                                   (* <c> has 2 children *)
    match ev3e lfq s n_b with
    | OK3 (CVS v2) _ _ => v2 = SNum (num_of_nat 2)                (* <b> has 1: stale *)
    | _ => False
    end /\
    EVALx lfq n_b = Val (VNum (num_of_nat 1))
  | _ => False
  end.
Proof. vm_compute. repeat split; reflexivity. Qed.

(* as a filter predicate the stale count changes the result: candidates b (1 child), c (2), e (0);
   Eval.sel recomputes last per candidate: [b; c]; the Go code (cursor model) keeps 1: [b] *)
Definition Qlf := QFilter false (QChild any_t QContext) lfq.
Example ex_lastfunc_filter :
  omap nodes_of (SELx Qlf n_a) = Val [n_b; n_c] /\ drn3 Qlf n_a = [n_b] /\ m1_supported Qlf = false.
Proof. vm_compute. repeat split; reflexivity. Qed.

(* the builder produces such trees:  *[true()][last()]  on  <a><b><x/></b><c><x/><y/></c></a>  from <a> *)
Definition exD3 : tree :=
  T KRoot "" "" "" "" [] [ el "a" [] [ el "b" [] [el "x" [] []]; el "c" [] [el "x" [] []; el "y" [] []] ] ].
Definition hc3 := hash_code exD3.
Example ex_lastfunc_built :
  let q := comp "*[true()][last()]" in
  omap nodes_of (sel exD3 false hc3 lit_match lit_numsubexp lit_replace_all q (elem_at [0]))
    = Val [elem_at [0;0]; elem_at [0;1]] /\
  drain3 exD3 false hc3 lit_match lit_numsubexp lit_replace_all 60 60 (fresh3 q) (elem_at [0]) = [elem_at [0;0]] /\
  m1_supported q = false.
Proof. vm_compute. repeat split; reflexivity. Qed.

(* ---- FINDING 2 (structural): logicalQuery / numericQuery never restore t.Current(), and
        booleanQuery.Evaluate, booleanQuery.Select, unionQuery.Select do not restore it after
        their RIGHT operand: they rely on the operands.  With an operand that moves the cursor
        (as filterQuery and mergeQuery did before their repairs) the context is lost ---- *)
Example ex_logical_no_restore :
  match logical_ev exD 5 CEq (fun (s : unit) (cur : node) => OK3 (CVS (SBool true)) s n_b)
                   (fun (s : unit) cur => OK3 (CVS (SBool true)) s cur) (mkLogic false tt tt) root_node with
  | OK3 b _ cur' => b = true /\ cur' = n_b /\ cur' <> root_node
  | _ => False
  end.
Proof. vm_compute. repeat split; discriminate. Qed.

End M3Examples.

(* ================================================================== *)
(** * Summary

   Statements (all closed under the global context):
     m1_main                    for every supported query q:
                                  Sstmt q: sel q c = Val l -> for all large enough fuel, from every reset
                                           state Select delivers l (node, position(), depth() after each
                                           call; t.Current() = c after each call; only the first call reads it)
                                  Estmt q: eval q c = Val V -> for all large enough fuel, from EVERY state
                                           Evaluate returns the value V (a returned query delivers the
                                           nodes of V, again after each re-Evaluate) and t.Current() = c
     m1_refines_m2_all          drain_items3 (fresh3 q) c = l, drain3 = nodes_of l, the run ends with nil and
                                t.Current() = c                                           (Select)
     m1_refines_after_evaluate  the same from reset3 q s for ANY state s                  (Evaluate resets)
     m1_evaluate_refines        evaluate3 q c = val_out V                                 (Expr.Evaluate)
     m1_evaluate_any_state      Evaluate from any (shared, half-consumed) state
     per iterator: filter3_Rep, rev_Rep, bool_Rep, logical_select_Rep;  operator.go: logical_do_spec,
     cmp_sets_spec, cmp_loop_spec;  func.go: fn1_consume_spec, case_fn2, case_fn3, case_arg,
     position_c_spec, last_c_spec;  functionArgs: fargs_step.
   "Large enough fuel": the theorems give an F0 (the maximum of 2 + the lengths of the node lists met
   during the evaluation); the examples run with 60.

   Coverage (m1_supported; is_ns inputs for the node-set operators, i.e. well-typed trees):

     query type                  transliterated  refinement   t.Current() on return
     -----------------------------------------------------------------------------------------------
     contextQuery, absoluteQuery Iter            yes          untouched (works on a Copy)
     child/attribute/self/parent/
       descendant                Iter            yes          untouched
     cachedChildQuery            Iter3 (= child) yes          untouched
     following/preceding (both),
       ancestor, group           Iter2           yes          untouched
     unionQuery                  Iter2           yes          MoveTo(root) between the operands; after the
                                                              right operand: relies on the operand
     mergeQuery                  Iter2           yes          restored (repair 231c797; unrepaired variant:
                                                              IterRefine2.ex_merge_unrepaired)
     filterQuery + predicate     Iter3           yes          moved to the candidate and back (repair 08a4038;
                                                              IterRefine.ex_unrepaired_moves_context)
     logicalQuery (Select, Eval) Iter3           yes          never restored by itself (ex_logical_no_restore):
                                                              relies on the operands
     numericQuery                Iter3           yes          never restored by itself: relies on the operands
     booleanQuery Evaluate       Iter3           yes          MoveTo(n) before the right operand, not after
     booleanQuery Select         Iter3           yes          MoveTo(root) between the operands, not after
     functionQuery (all of
       func.go, functionArgs)    Iter3           yes          arguments: Clone (fresh state) unless the argument
                                                              is a functionQuery (shared state); never moved
     position(), last()          Iter3           yes          work on a Copy
     transformFunctionQuery
       (reverse)                 Iter3           yes          relies on the input
     constantQuery, nopQuery     Iter3           yes          -
     lastFuncQuery               Iter3           NO (false)   relies on the input
     descendantOverDescendant    Iter3           not proved   works on a Copy
     -----------------------------------------------------------------------------------------------
   For every supported query the context IS restored (part of m1_main): after the repairs no query
   type leaves t.Current() moved.  logical/numeric/boolean/union/transform queries restore nothing
   themselves after their last operand; that is sound only because every operand restores it.

   Where the cursor level differs from Eval.v:
     1. lastFuncQuery (ex_lastfunc_stale, ex_lastfunc_filter, ex_lastfunc_built).  Its Evaluate counts
        its input once and keeps the number for the life of the object; Evaluate does not reset
        `counted`, only Clone does.  As a filter predicate it is evaluated in place for every candidate,
        so every candidate is compared with the count computed for the FIRST candidate, whereas
        Eval.eval (QLastFunc i) recounts per candidate.  The builder makes such trees
        ( E[p][last()] ):   *[true()][last()]  on  <a><b><x/></b><c><x/><y/></c></a>  from <a>
        gives [b; c] in Eval.sel and [b] in the cursor model.  (When the input of the lastFuncQuery does
        not depend on the context node -- absolute paths -- the cached number is the right one, and the
        two agree: ex_filters has //*[last()] and /a/*[last()][1].)  Candidate defect of the Go code /
        candidate correction of Eval.v; m1_supported excludes QLastFunc.
     2. Ill-typed trees (a node-set operator over a non-node-set query): Go runs the input's Evaluate,
        which may panic; Eval.sel gives the empty list.  Not produced by the builder; excluded by is_ns.
     3. descendantOverDescendantQuery: no difference found (ex_dod), refinement not proved; the
        expressions tried (//a//d, //a//node(), //*//d, /a//d ...) do not compile to it.
   Not covered here: protocol facts for ARBITRARY states of the new Select iterators (Good/Stable of
   IterRefine.v are proved for the Iter/Iter2 types only); the statements above are for reset states
   (Select) and arbitrary states (Evaluate) under the hypothesis that the list level returns Val. *)
