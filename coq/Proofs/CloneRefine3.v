(* Proofs/CloneRefine3.v — Clone() at cursor level (Model1/Clone3.v):
     clone_forgets3       a clone, whatever the state of the original, behaves as a fresh query
     fn_immutable         the objects a clone shares with its original (the argument queries
                          captured by a functionQuery's closure) are never changed by any
                          Select or Evaluate; hence running a clone does not affect the original
   Summary at the end. *)
From XP Require Import Base F64 Doc Ast Hash Eval.
From XP.Model1 Require Import Iter Iter2 Iter3 Clone3.
From XP.Proofs Require Import AxesSound IterRefine IterRefine2 Filter IterRefine3 IterRefine4 IterProtocol3 Absolute.
Open Scope nat_scope.
Open Scope list_scope.

(* ================================================================== *)
(** * 1. The configuration of a clone means the same *)

Lemma clone_cfg3_is_ns : forall q, is_ns (clone_cfg3 q) = is_ns q.
Proof. induction q; cbn [clone_cfg3 is_ns]; auto. Qed.

Lemma clone_cfg3_arglist : forall q, is_arglist (clone_cfg3 q) = is_arglist q.
Proof. destruct q; reflexivity. Qed.

Lemma clone_cfg3_supported4 : forall q, m1_supported4 (clone_cfg3 q) = m1_supported4 q.
Proof.
  induction q; cbn [clone_cfg3 m1_supported4]; auto;
    rewrite ?clone_cfg3_is_ns, ?clone_cfg3_arglist, ?IHq, ?IHq1, ?IHq2, ?IHq3; reflexivity.
Qed.

Lemma clone_cfg3_wt3 : forall q, IterProtocol3.wt3 (clone_cfg3 q) = IterProtocol3.wt3 q.
Proof.
  induction q; cbn [clone_cfg3 IterProtocol3.wt3]; auto;
    rewrite ?clone_cfg3_is_ns, ?IHq, ?IHq1, ?IHq2; reflexivity.
Qed.

Section CloneSem.
Variable D : tree.
Variable has_ns : bool.
Variable hc : node -> N.
Variable rm : string -> string -> option bool.
Variable rn : string -> nat.
Variable rr : string -> string -> string -> string.
Notation SEL := (sel D has_ns hc rm rn rr).
Notation EVAL := (eval D has_ns hc rm rn rr).
Notation S3 := (sel3 D has_ns hc rm rn rr).
Notation E3 := (ev3 D has_ns hc rm rn rr).
Notation SU := (sel_unf D has_ns hc rm rn rr).

Lemma clone_cfg3_test : forall q, query_test D has_ns (clone_cfg3 q) = query_test D has_ns q.
Proof. destruct q; reflexivity. Qed.

Lemma filter_go_ext : forall p p', (forall n, EVAL p n = EVAL p' n) ->
  forall l pm, filter_go D has_ns hc rm rn rr p l pm = filter_go D has_ns hc rm rn rr p' l pm.
Proof.
  intros p p' H. induction l as [|it l IH]; intros pm; [reflexivity|].
  rewrite !filter_go_cons, H. destruct (EVAL p' (it_node it)); cbn [obind]; try reflexivity.
  destruct (truth_of_filter a (it_pos it)); [rewrite IH|]; auto.
Qed.

Lemma oflat_map_ext : forall {A B} (f g : A -> outcome (list B)) l,
  (forall a, f a = g a) -> oflat_map f l = oflat_map g l.
Proof. intros A B f g l H. induction l as [|a l IH]; cbn [oflat_map]; [reflexivity|]. rewrite H, IH. reflexivity. Qed.

Lemma nodeset_query_clone : forall q, nodeset_query (clone_cfg3 q) = nodeset_query q.
Proof. destruct q; reflexivity. Qed.

(* Eval.v does not look at NoPosition and treats cachedChildQuery as childQuery *)
Theorem clone_cfg3_sem : forall q,
  (forall c, SEL (clone_cfg3 q) c = SEL q c) /\ (forall c, EVAL (clone_cfg3 q) c = EVAL q c).
Proof.
  assert (NS : forall q, nodeset_query q = true ->
             (forall c, SEL (clone_cfg3 q) c = SEL q c) ->
             (forall c, SEL (clone_cfg3 q) c = SEL q c) /\ (forall c, EVAL (clone_cfg3 q) c = EVAL q c)).
  { intros q N E. split; [exact E|]. intros c.
    rewrite !(eval_nodeset D has_ns hc rm rn rr) by (rewrite ?nodeset_query_clone; exact N). rewrite E. reflexivity. }
  induction q; cbn [clone_cfg3]; try (split; reflexivity);
    repeat match goal with H : _ /\ _ |- _ => let a := fresh "IS" in let b := fresh "IE" in destruct H as [a b] end.
  - apply (NS (QAncestor self t q)); [reflexivity|]. intros c. cbn [clone_cfg3]. rewrite !SU. cbn [sel_body]. rewrite IS. reflexivity.
  - apply (NS (QAttribute t q)); [reflexivity|]. intros c. cbn [clone_cfg3]. rewrite !SU. cbn [sel_body]. rewrite IS. reflexivity.
  - apply (NS (QChild t q)); [reflexivity|]. intros c. cbn [clone_cfg3]. rewrite !SU. cbn [sel_body]. rewrite IS. reflexivity.
  - (* cachedChild -> child *)
    split.
    + intros c. rewrite !SU. cbn [sel_body]. rewrite IS. reflexivity.
    + intros c. rewrite (eval_nodeset D has_ns hc rm rn rr (QChild t (clone_cfg3 q))) by reflexivity.
      rewrite (eval_nodeset D has_ns hc rm rn rr (QCachedChild t q)) by reflexivity.
      rewrite !SU. cbn [sel_body]. rewrite IS. reflexivity.
  - apply (NS (QDescendant self t q)); [reflexivity|]. intros c. cbn [clone_cfg3]. rewrite !SU. cbn [sel_body]. rewrite IS. reflexivity.
  - apply (NS (QFollowing sibling t q)); [reflexivity|]. intros c. cbn [clone_cfg3]. rewrite !SU. destruct sibling; cbn [sel_body]; rewrite IS; reflexivity.
  - apply (NS (QPreceding sibling t q)); [reflexivity|]. intros c. cbn [clone_cfg3]. rewrite !SU. destruct sibling; cbn [sel_body]; rewrite IS; reflexivity.
  - apply (NS (QParent t q)); [reflexivity|]. intros c. cbn [clone_cfg3]. rewrite !SU. cbn [sel_body]. rewrite IS. reflexivity.
  - apply (NS (QSelf t q)); [reflexivity|]. intros c. cbn [clone_cfg3]. rewrite !SU. cbn [sel_body]. rewrite IS. reflexivity.
  - (* filter *)
    assert (E : forall c, SEL (QFilter false (clone_cfg3 q1) (clone_cfg3 q2)) c = SEL (QFilter nopos q1 q2) c).
    { intros c. rewrite !sel_filter, IS0. destruct (SEL q1 c); cbn [obind]; try reflexivity.
      apply filter_go_ext. exact IE. }
    split; [exact E|]. intros c.
    rewrite (eval_nodeset D has_ns hc rm rn rr (QFilter false _ _)) by reflexivity.
    rewrite (eval_nodeset D has_ns hc rm rn rr (QFilter nopos q1 q2)) by reflexivity. rewrite E. reflexivity.
  - (* position *)
    split; [reflexivity|]. intros c.
    change (EVAL (QPosition (clone_cfg3 q)) c) with (@Val value (VNum (Eval.position_of (query_test D has_ns (clone_cfg3 q)) c))).
    rewrite clone_cfg3_test. reflexivity.
  - split; [reflexivity|]. intros c.
    change (EVAL (QLast (clone_cfg3 q)) c) with (@Val value (VNum (last_of D (query_test D has_ns (clone_cfg3 q)) c))).
    rewrite clone_cfg3_test. reflexivity.
  - apply (NS (QReverse q)); [reflexivity|]. intros c. cbn [clone_cfg3]. rewrite !SU. cbn [sel_body]. rewrite IS. reflexivity.
  - (* group *)
    split; intros c.
    + rewrite !SU. cbn [sel_body]. rewrite IS. reflexivity.
    + rewrite !(eval_group D has_ns hc rm rn rr). apply IE.
  - (* logical *)
    split; intros c.
    + rewrite !SU. cbn [sel_body]. rewrite IE0, IE. reflexivity.
    + rewrite !(eval_logical' D has_ns hc rm rn rr), IE0, IE. reflexivity.
  - (* numeric *)
    split; [reflexivity|]. intros c. rewrite !(eval_numeric D has_ns hc rm rn rr), IE0, IE. reflexivity.
  - (* boolean *)
    split; intros c.
    + rewrite !SU. cbn [sel_body]. rewrite IS0, IS. reflexivity.
    + rewrite !(eval_boolean_sel D has_ns hc rm rn rr), IE0, IE. reflexivity.
  - (* union *)
    apply (NS (QUnion q1 q2)); [reflexivity|]. intros c. cbn [clone_cfg3]. rewrite !SU. cbn [sel_body]. rewrite IS0, IS. reflexivity.
  - (* lastfunc *)
    split; [reflexivity|]. intros c. rewrite !(eval_lastfunc D has_ns hc rm rn rr), IS. reflexivity.
  - apply (NS (QDoD matchself t q)); [reflexivity|]. intros c. cbn [clone_cfg3]. rewrite !SU. cbn [sel_body]. rewrite IS. reflexivity.
  - (* merge *)
    apply (NS (QMerge q1 q2)); [reflexivity|]. intros c. cbn [clone_cfg3]. rewrite !SU. cbn [sel_body]. rewrite IS0.
    destruct (SEL q1 c); cbn [obind]; try reflexivity.
    rewrite (oflat_map_ext (fun it => SEL (clone_cfg3 q2) (it_node it)) (fun it => SEL q2 (it_node it)) a (fun it => IS (it_node it))).
    reflexivity.
Qed.

End CloneSem.

(* ================================================================== *)
(** * 2. A clone starts afresh *)

Lemma ResetOK3_clone : forall q s, ResetOK3 (clone_cfg3 q) (clone_state3 q s).
Proof.
  induction q; intros st;
    cbn [clone_cfg3 clone_state3 ResetOK3 n_it n_table n_in a_it a_in c_it c_in d_it d_in fo_it fo_in pr_it pr_in
         f3_pm f3_in rv_it rv_in g_posit g_in u_it u_l u_r dd_level dd_in m_it m_in lg_done bo_it bo_l bo_r]; auto.
Qed.

Lemma Inv3_clone : forall q s, Inv3 (clone_cfg3 q) (clone_state3 q s).
Proof.
  induction q; intros st;
    cbn [clone_cfg3 clone_state3 Inv3 n_in a_in c_in d_in fo_in pr_in f3_in rv_in g_in u_r dd_in m_in]; auto.
  split; [exact I|apply IHq].
Qed.

Section CloneForgets.
Variable D : tree.
Variable has_ns : bool.
Variable hc : node -> N.
Variable rm : string -> string -> option bool.
Variable rn : string -> nat.
Variable rr : string -> string -> string -> string.
Notation SEL := (sel D has_ns hc rm rn rr).
Notation EVAL := (eval D has_ns hc rm rn rr).
Notation S3 := (sel3 D has_ns hc rm rn rr).
Notation E3 := (ev3 D has_ns hc rm rn rr).
Notation RUN := (run3 D has_ns hc rm rn rr).

(** ** (a) Select on a clone: whatever state the original is in, the clone delivers the
    list-level result of the ORIGINAL configuration *)
Theorem clone_forgets3 : forall q (wf : m1_supported4 q = true) c l,
  SEL q c = Val l ->
  exists F0, forall F n, F0 <= F -> List.length l < n -> forall s,
    exists st', RUN F n (clone3 (existT _ q s)) c = (l, E_nil, st', c).
Proof.
  intros q wf c l E.
  assert (wf' : m1_supported4 (clone_cfg3 q) = true) by (rewrite clone_cfg3_supported4; exact wf).
  destruct (m1_main4 D has_ns hc rm rn rr (clone_cfg3 q) wf') as [HS _].
  assert (E' : SEL (clone_cfg3 q) c = Val l) by (rewrite (proj1 (clone_cfg3_sem D has_ns hc rm rn rr q)); exact E).
  destruct (HS c l E') as [F0 H0]. exists F0. intros F n HF Hn s. unfold clone3. cbn [projT1 projT2].
  destruct (run3_Rep D has_ns hc rm rn rr (clone_cfg3 q) F c l true (clone_state3 q s) n
                     (H0 F HF _ (ResetOK3_clone q s)) Hn) as (s' & Er). eauto.
Qed.

(* ... which is what a fresh query delivers *)
Corollary clone_as_fresh3 : forall q (wf : m1_supported4 q = true) c l,
  SEL q c = Val l ->
  exists F0, forall F n, F0 <= F -> List.length l < n -> forall s,
    fst (fst (RUN F n (clone3 (existT _ q s)) c)) = fst (fst (RUN F n (fresh3 q) c)).
Proof.
  intros q wf c l E. destruct (clone_forgets3 q wf c l E) as [F1 H1].
  destruct (m1_refines_m2_all4 D has_ns hc rm rn rr q wf c l E) as [F2 H2].
  exists (Nat.max F1 F2). intros F n HF Hn s.
  destruct (H1 F n ltac:(lia) Hn s) as (st1 & E1). destruct (H2 F n ltac:(lia) Hn) as (_ & _ & st2 & E2).
  rewrite E1, E2. reflexivity.
Qed.

(** ** (a) Evaluate on a clone *)
Theorem clone_forgets_eval3 : forall q (wf : m1_supported4 q = true) c V,
  EVAL q c = Val V ->
  exists F0, forall F, F0 <= F -> forall s,
    exists v s', E3 F (clone_cfg3 q) (clone_state3 q s) c = OK3 v s' c /\ VRel c v s' V.
Proof.
  intros q wf c V E.
  assert (wf' : m1_supported4 (clone_cfg3 q) = true) by (rewrite clone_cfg3_supported4; exact wf).
  assert (E' : EVAL (clone_cfg3 q) c = Val V) by (rewrite (proj2 (clone_cfg3_sem D has_ns hc rm rn rr q)); exact E).
  destruct (m1_evaluate_any_state4 D has_ns hc rm rn rr (clone_cfg3 q) wf' c V E') as [F0 H0].
  exists F0. intros F HF s. apply (H0 F HF).
Qed.

End CloneForgets.

(* ================================================================== *)
(** * 3. What a clone shares with its original, and why that is harmless *)

(* the queries that are a functionQuery closure, or part of one (the argument list of concat) *)
Definition fnlike (q : query) : bool := orb (is_fn q) (is_arglist q).

(* well-formed: the arguments of concat form a list *)
Fixpoint fnwf (q : query) : bool :=
  match q with
  | QFn1 _ a => fnwf a
  | QFn2 _ a b => andb (fnwf a) (fnwf b)
  | QFn3 _ a b x => andb (andb (fnwf a) (fnwf b)) (fnwf x)
  | QConcat args => andb (is_arglist args) (fnwf args)
  | QArg a rest => andb (fnwf a) (fnwf rest)
  | _ => true
  end.

Lemma is_fn_fnlike : forall q, is_fn q = true -> fnlike q = true.
Proof. intros q H. unfold fnlike. rewrite H. reflexivity. Qed.
Lemma arglist_fnlike : forall q, is_arglist q = true -> fnlike q = true.
Proof. intros q H. unfold fnlike. rewrite H. apply Bool.orb_true_r. Qed.

(* the shared objects: for them Clone copies nothing *)
Lemma clone_shares_closure : forall q s,
  match q with QFn1 _ _ | QFn2 _ _ _ | QFn3 _ _ _ _ | QConcat _ | QArg _ _ => True | _ => False end ->
  clone3 (existT _ q s) = existT _ q s.
Proof. intros q s H. destruct q; try contradiction; reflexivity. Qed.

(* Evaluate of the node-set types (a reset) does not touch them either *)
Lemma reset3_fnlike : forall q s, fnlike q = true -> reset3 q s = s.
Proof. intros q s H. destruct q; try discriminate; reflexivity. Qed.

Lemma m1_supported4_fnwf : forall q, m1_supported4 q = true -> fnwf q = true.
Proof.
  induction q; cbn [m1_supported4 fnwf]; intros H; auto;
    repeat match goal with H : andb _ _ = true |- _ => apply andb_prop in H; destruct H end;
    repeat (apply andb_true_intro; split); auto.
Qed.

Section FnImmutable.
Variable D : tree.
Variable has_ns : bool.
Variable hc : node -> N.
Variable rm : string -> string -> option bool.
Variable rn : string -> nat.
Variable rr : string -> string -> string -> string.
Notation S3 := (sel3 D has_ns hc rm rn rr).
Notation E3 := (ev3 D has_ns hc rm rn rr).

(* the consumers of func.go do not touch the state when handed a scalar *)
Definition scalar_pres {A W} (k : cval W -> W -> node -> cres3 A W) : Prop :=
  forall x w c y w' c', k (CVS x) w c = OK3 y w' c' -> w' = w.

Lemma fargs_state : forall {A W} (isfn : bool) (w0 : W) (aev : W -> node -> eres W)
                           (k : cval W -> W -> node -> cres3 A W) s cur y s' cur',
  fargs isfn w0 aev k s cur = OK3 y s' cur' ->
  (isfn = true -> forall v w1 c1, aev s cur = OK3 v w1 c1 -> w1 = s /\ exists x, v = CVS x) ->
  scalar_pres k -> s' = s.
Proof.
  intros A W isfn w0 aev k s cur y s' cur' E Ha Hk. unfold fargs in E. destruct isfn.
  - destruct (aev s cur) as [v w1 c1| |] eqn:Ea; try discriminate.
    destruct (Ha eq_refl _ _ _ eq_refl) as [-> [x ->]].
    destruct (k (CVS x) s c1) as [y' w2 c2| |] eqn:Ek; try discriminate.
    inversion E; subst. apply (Hk _ _ _ _ _ _ Ek).
  - destruct (aev w0 cur) as [v w1 c1| |]; try discriminate.
    destruct (k v w1 c1) as [y' w2 c2| |]; try discriminate. inversion E; reflexivity.
Qed.

Ltac sp := let x := fresh in let H := fresh in
  intros x ? ? ? ? ? H; destruct x; cbn in H; try discriminate; inversion H; reflexivity.

Lemma sp_str_or_first : forall {W}, @scalar_pres string W (str_or_first_c D).
Proof. intros W. sp. Qed.
Lemma sp_as_string : forall {W}, @scalar_pres string W (as_string_c D).
Proof. intros W. sp. Qed.
Lemma sp_fn1 : forall {W} F f test, @scalar_pres sval W (fn1_consume D F f test).
Proof.
  intros W F f test x w c y w' c' H. destruct f; destruct x; cbn in H; try discriminate;
    try (inversion H; reflexivity).
  destruct (is_nan (string_to_number s)); [discriminate|inversion H; reflexivity].
Qed.

(** ** Evaluate (and Select) of a functionQuery leaves the captured objects as they are,
    and returns a scalar *)
Theorem fn_immutable : forall q, fnwf q = true -> fnlike q = true ->
  forall F s c v s' c', E3 F q s c = OK3 v s' c' -> s' = s /\ exists x, v = CVS x.
Proof.
  induction q; intros Hw Hf F st c vv st' c' E; try discriminate Hf; cbn [fnwf] in Hw;
    repeat (apply andb_prop in Hw; let H1 := fresh "Hw" in destruct Hw as [Hw H1]).
  - (* QNil *) inversion E; subst. eauto.
  - (* QFn0 *) destruct f; inversion E; subst; eauto.
  - (* QFn1 *)
    destruct (is_namefn f) eqn:Hn.
    + rewrite (ev3_name_eq D has_ns hc rm rn rr F f q st c Hn) in E. unfold name_ev, sv in E.
      destruct (is_nil q).
      * inversion E; subst. eauto.
      * destruct (S3 F q (init3 q) c) as [[n|] w cur'|]; inversion E; subst; eauto.
    + rewrite (ev3_fn1_eq D has_ns hc rm rn rr F f q st c Hn) in E. unfold sv in E.
      destruct (fargs (is_fn q) (init3 q) (E3 F q) (fn1_consume D F f (query_test D has_ns q)) st c)
        as [x s1 c1| |] eqn:Ef; try discriminate.
      inversion E; subst. split; [|eauto].
      apply (fargs_state _ _ _ _ _ _ _ _ _ Ef); [|apply sp_fn1].
      intros Hfn v0 w1 c1 Ea. apply (IHq Hw (is_fn_fnlike q Hfn) F _ _ _ _ _ Ea).
  - (* QFn2 *)
    rewrite (ev3_fn2_eq D has_ns hc rm rn rr) in E. destruct st as [sa sb]. unfold fn2_ev in E. cbn [fst snd] in E.
    assert (HA : forall A (k : cval (state3 q1) -> state3 q1 -> node -> cres3 A (state3 q1)) cur y s1 c1,
               scalar_pres k -> fargs (is_fn q1) (init3 q1) (E3 F q1) k sa cur = OK3 y s1 c1 -> s1 = sa).
    { intros A k cur y s1 c1 Hk Ef. apply (fargs_state _ _ _ _ _ _ _ _ _ Ef); [|exact Hk].
      intros Hfn v0 w1 c2 Ea. apply (IHq1 Hw (is_fn_fnlike q1 Hfn) F _ _ _ _ _ Ea). }
    assert (HB : forall A (k : cval (state3 q2) -> state3 q2 -> node -> cres3 A (state3 q2)) cur y s1 c1,
               scalar_pres k -> fargs (is_fn q2) (init3 q2) (E3 F q2) k sb cur = OK3 y s1 c1 -> s1 = sb).
    { intros A k cur y s1 c1 Hk Ef. apply (fargs_state _ _ _ _ _ _ _ _ _ Ef); [|exact Hk].
      intros Hfn v0 w1 c2 Ea. apply (IHq2 Hw0 (is_fn_fnlike q2 Hfn) F _ _ _ _ _ Ea). }
    destruct f;
      repeat match type of E with
             | context [fargs (is_fn q1) (init3 q1) (E3 F q1) ?k sa ?cur] =>
               let Ef := fresh "Ef" in
               destruct (fargs (is_fn q1) (init3 q1) (E3 F q1) k sa cur) as [? ? ?| |] eqn:Ef; try discriminate;
               apply HA in Ef; [subst|sp]
             | context [fargs (is_fn q2) (init3 q2) (E3 F q2) ?k sb ?cur] =>
               let Ef := fresh "Ef" in
               destruct (fargs (is_fn q2) (init3 q2) (E3 F q2) k sb cur) as [? ? ?| |] eqn:Ef; try discriminate;
               apply HB in Ef; [subst|sp]
             | context [match ?o with Some _ => _ | None => _ end] => destruct o; try discriminate
             end;
      inversion E; subst; eauto.
  - (* QFn3 *)
    rewrite (ev3_fn3_eq D has_ns hc rm rn rr) in E. destruct st as [[sa sb] sx]. unfold fn3_ev in E. cbn [fst snd] in E.
    assert (HA : forall A (k : cval (state3 q1) -> state3 q1 -> node -> cres3 A (state3 q1)) cur y s1 c1,
               scalar_pres k -> fargs (is_fn q1) (init3 q1) (E3 F q1) k sa cur = OK3 y s1 c1 -> s1 = sa).
    { intros A k cur y s1 c1 Hk Ef. apply (fargs_state _ _ _ _ _ _ _ _ _ Ef); [|exact Hk].
      intros Hfn v0 w1 c2 Ea. apply (IHq1 Hw (is_fn_fnlike q1 Hfn) F _ _ _ _ _ Ea). }
    assert (HB : forall A (k : cval (state3 q2) -> state3 q2 -> node -> cres3 A (state3 q2)) cur y s1 c1,
               scalar_pres k -> fargs (is_fn q2) (init3 q2) (E3 F q2) k sb cur = OK3 y s1 c1 -> s1 = sb).
    { intros A k cur y s1 c1 Hk Ef. apply (fargs_state _ _ _ _ _ _ _ _ _ Ef); [|exact Hk].
      intros Hfn v0 w1 c2 Ea. apply (IHq2 Hw1 (is_fn_fnlike q2 Hfn) F _ _ _ _ _ Ea). }
    assert (HX : forall A (k : cval (state3 q3) -> state3 q3 -> node -> cres3 A (state3 q3)) cur y s1 c1,
               scalar_pres k -> fargs (is_fn q3) (init3 q3) (E3 F q3) k sx cur = OK3 y s1 c1 -> s1 = sx).
    { intros A k cur y s1 c1 Hk Ef. apply (fargs_state _ _ _ _ _ _ _ _ _ Ef); [|exact Hk].
      intros Hfn v0 w1 c2 Ea. apply (IHq3 Hw0 (is_fn_fnlike q3 Hfn) F _ _ _ _ _ Ea). }
    destruct f;
      repeat match type of E with
             | context [fargs (is_fn q1) (init3 q1) (E3 F q1) ?k sa ?cur] =>
               let Ef := fresh "Ef" in
               destruct (fargs (is_fn q1) (init3 q1) (E3 F q1) k sa cur) as [? ? ?| |] eqn:Ef; try discriminate;
               apply HA in Ef; [subst|sp]
             | context [fargs (is_fn q2) (init3 q2) (E3 F q2) ?k sb ?cur] =>
               let Ef := fresh "Ef" in
               destruct (fargs (is_fn q2) (init3 q2) (E3 F q2) k sb cur) as [? ? ?| |] eqn:Ef; try discriminate;
               apply HB in Ef; [subst|sp]
             | context [fargs (is_fn q3) (init3 q3) (E3 F q3) ?k sx ?cur] =>
               let Ef := fresh "Ef" in
               destruct (fargs (is_fn q3) (init3 q3) (E3 F q3) k sx cur) as [? ? ?| |] eqn:Ef; try discriminate;
               apply HX in Ef; [subst|sp]
             | context [match ?o with Some _ => _ | None => _ end] => destruct o; try discriminate
             | context [if ?b then _ else _] => destruct b
             end;
      inversion E; subst; eauto.
  - (* QConcat *)
    change (E3 F (QConcat q) st c) with (E3 F q st c) in E.
    apply (IHq Hw0 (arglist_fnlike q Hw) F _ _ _ _ _ E).
  - (* QArg *)
    destruct st as [sa sr].
    assert (Hshape : E3 F (QArg q1 q2) (sa, sr) c =
      match fargs (is_fn q1) (init3 q1) (E3 F q1) (str_or_first_c D) sa c with
      | Stuck3 => Stuck3 | Panic3 m => Panic3 m
      | OK3 x sa' cur1 =>
        match E3 F q2 sr cur1 with
        | Stuck3 => Stuck3 | Panic3 m => Panic3 m
        | OK3 vr sr' cur2 =>
          OK3 (CVS (SStr (x ++ match vr with CVS (SStr y) => y | _ => "" end))) (sa', sr') cur2
        end
      end) by reflexivity.
    rewrite Hshape in E.
    destruct (fargs (is_fn q1) (init3 q1) (E3 F q1) (str_or_first_c D) sa c) as [x sa' c1| |] eqn:Ef; try discriminate.
    destruct (E3 F q2 sr c1) as [vr sr' c2| |] eqn:Er; try discriminate.
    inversion E; subst. split; [|eauto]. f_equal.
    + apply (fargs_state _ _ _ _ _ _ _ _ _ Ef); [|apply sp_str_or_first].
      intros Hfn v0 w1 c3 Ea. apply (IHq1 Hw (is_fn_fnlike q1 Hfn) F _ _ _ _ _ Ea).
    + apply (IHq2 Hw0 (arglist_fnlike q2 Hf) F _ _ _ _ _ Er).
  - (* QPosition *)
    change (E3 F (QPosition q) st c)
      with (match position_c (query_test D has_ns q) c return eres (state3 (QPosition q)) with
            | Some n => OK3 (CVS (SNum (num_of_nat n))) st c | None => Stuck3 end) in E.
    destruct (position_c (query_test D has_ns q) c); inversion E; subst; eauto.
  - (* QLast *)
    change (E3 F (QLast q) st c)
      with (match last_c D (query_test D has_ns q) c return eres (state3 (QLast q)) with
            | Some n => OK3 (CVS (SNum (num_of_nat n))) st c | None => Stuck3 end) in E.
    destruct (last_c D (query_test D has_ns q) c); inversion E; subst; eauto.
Qed.

(* Select of a functionQuery is nil and touches nothing *)
Lemma fn_select_immutable : forall q, is_fn q = true -> forall F s c, S3 F q s c = R None s c.
Proof. intros q H F s c. destruct q; try discriminate; reflexivity. Qed.

(** ** (b) running a clone does not change the original.
    The only objects reachable from both are the argument queries captured by functionQuery
    closures (clone_shares_closure; everything else in a clone is a new object, see
    Clone3.clone_state3).  Every access to such an object is an Evaluate or a Select of the
    functionQuery, a reset (Evaluate of an enclosing node-set query), or another Clone; none of
    them changes it: *)
Theorem clone_independent3 : forall q, fnwf q = true -> is_fn q = true ->
  forall F s c,
    (forall v s' c', E3 F (clone_cfg3 q) (clone_state3 q s) c = OK3 v s' c' ->
                     match q return state3 q -> state3 (clone_cfg3 q) -> Prop with
                     | QFn1 _ _ => fun s s' => s' = s
                     | QFn2 _ _ _ => fun s s' => s' = s
                     | QFn3 _ _ _ _ => fun s s' => s' = s
                     | QConcat _ => fun s s' => s' = s
                     | _ => fun _ _ => True
                     end s s') /\
    S3 F q s c = R None s c /\ reset3 q s = s.
Proof.
  intros q Hw Hf F s c. split; [|split; [apply fn_select_immutable; exact Hf|apply reset3_fnlike, is_fn_fnlike, Hf]].
  intros v s' c' E. destruct q; try discriminate Hf; try exact I; cbn [clone_cfg3 clone_state3] in E;
    apply (fn_immutable _ Hw (is_fn_fnlike _ Hf)) in E; apply E.
Qed.

End FnImmutable.



Print Assumptions clone_cfg3_sem.
Print Assumptions clone_forgets3.
Print Assumptions clone_as_fresh3.
Print Assumptions clone_forgets_eval3.
Print Assumptions fn_immutable.
Print Assumptions clone_independent3.

(* ================================================================== *)
(** * 4. Examples *)
From XP Require Import Api.
Module CloneExamples.
Import AxesSound.Examples IterRefine3.M3Examples.
Open Scope string_scope.
Open Scope list_scope.

Definition E3x := ev3 exD false hc lit_match lit_numsubexp lit_replace_all 60.
Definition RUNx := run3 exD false hc lit_match lit_numsubexp lit_replace_all 60.
(* the query object after k successful Selects *)
Definition after (k : nat) (q : query) (c : node) : qstate3 := snd (fst (RUNx k (fresh3 q) c)).
Definition nodes_from (st : qstate3) (c : node) := map it_node (fst (fst (fst (RUNx 60 st c)))).

(* a half-consumed iterator continues; its clone starts again, like a fresh query *)
Example ex_clone_half_consumed :
  let q := comp "//*[not(@z)]" in
  nodes_from (after 2 q root_node) root_node = [n_e; n_d] /\
  nodes_from (clone3 (after 2 q root_node)) root_node = [n_a; n_b; n_e; n_d] /\
  nodes_from (fresh3 q) root_node = [n_a; n_b; n_e; n_d].
Proof. vm_compute. repeat split; reflexivity. Qed.

Example ex_clone_positions :
  let q := comp "//*[position()=last()]" in
  nodes_from (after 1 q root_node) root_node = [n_e; n_d] /\
  nodes_from (clone3 (after 1 q root_node)) root_node = [n_a; n_e; n_d].
Proof. vm_compute. repeat split; reflexivity. Qed.

Example ex_clone_union :
  let q := comp "//b | //e | //d/ancestor::*" in
  nodes_from (clone3 (after 2 q root_node)) root_node = nodes_from (fresh3 q) root_node /\
  nodes_from (after 2 q root_node) root_node <> nodes_from (fresh3 q) root_node.
Proof. vm_compute. split; [reflexivity|discriminate]. Qed.

(* cachedChildQuery.Clone returns a childQuery; filterQuery.Clone drops NoPosition *)
Example ex_clone_cached : forall t i, clone_cfg3 (QCachedChild t i) = QChild t (clone_cfg3 i).
Proof. reflexivity. Qed.
Example ex_clone_nopos : forall i p, clone_cfg3 (QFilter true i p) = QFilter false (clone_cfg3 i) (clone_cfg3 p).
Proof. reflexivity. Qed.
(* lastFuncQuery.Clone: buffer and counted are not copied *)
Example ex_clone_lastfunc : forall i b s,
  clone_state3 (QLastFunc i) (mkLastF b true s) = mkLastF [] false (clone_state3 i s).
Proof. reflexivity. Qed.

(* functionQuery.Clone copies Func, the closure: the captured argument query is the SAME object
   (configuration with its cachedChildQuery and NoPosition, and state) *)
Example ex_clone_function_shared :
  let q := comp "count(//*[@x])" in clone3 (fresh3 q) = fresh3 q /\
  exists t i p, q = QFn1 FCount (QFilter true (QCachedChild t i) p).
Proof. vm_compute. split; [reflexivity|]. do 3 eexists. reflexivity. Qed.

(* ... and evaluating it leaves that object as it was *)
Definition qf := comp "concat(name(), '-', string(count(//*[@x])), b)".
Definition ev_view {W} (r : eres W) : option (option sval * W * node) :=
  match r with OK3 (CVS v) s c => Some (Some v, s, c) | OK3 _ s c => Some (None, s, c) | _ => None end.
Example ex_function_immutable :
  ev_view (E3x qf (init3 qf) n_a) = Some (Some (SStr "a-1t"), init3 qf, n_a).
Proof. vm_compute. reflexivity. Qed.
End CloneExamples.

(* ================================================================== *)
(** * Summary

   CONFIGURATION      clone_cfg3_sem        sel / eval of clone_cfg3 q = sel / eval of q (list level):
                                            cachedChildQuery -> childQuery and the lost NoPosition
                                            flag (never read anywhere in the Go code) change nothing
                      clone_cfg3_supported4 / clone_cfg3_is_ns / clone_cfg3_wt3   coverage is kept
   (a) FRESHNESS      ResetOK3_clone, Inv3_clone   the state a clone starts with is a start state
                      clone_forgets3        Select loop on clone3 (q, ANY s) = list-level sel q, ends
                                            with nil, Current() back on the context node
                      clone_as_fresh3       ... = the Select loop on fresh3 q
                      clone_forgets_eval3   Evaluate on clone3 (q, ANY s) = list-level eval q
   (b) INDEPENDENCE   What is shared.  In the model a state is a value, so a clone and its original
       are independent by construction EXCEPT where clone_state3 hands the state over unchanged.
       That is exactly: the state of QFn1 / QFn2 / QFn3 / QConcat(QArg ...) = the argument queries
       captured by a functionQuery closure (Clone copies the field Func, i.e. the closure, not
       what it captured), see clone_shares_closure; constantQuery.Clone returns the receiver,
       it has no state.  Everything else in a clone is a new object (Clone3.clone_state3).
       Why harmless.  A captured argument query is reached only from the closure:
         - not a functionQuery: functionArgs clones it on every call and runs the clone (fargs with
           isfn = false runs init3 a and returns the captured state unchanged);
         - a functionQuery: evaluated in place, and by induction this changes nothing, because it
           returns a scalar and every consumer in func.go leaves a scalar's query alone;
       fn_immutable          Evaluate of a functionQuery (and of concat's argument list) returns the
                             state it was given, and a scalar
       fn_select_immutable   Select of a functionQuery: nil, state unchanged
       reset3_fnlike         the reset done by Evaluate of an enclosing node-set query: unchanged
       clone_independent3    the three together, phrased for the clone of a functionQuery:
                             after running the clone the shared object is as before
       m1_supported4_fnwf    the side condition (concat's arguments form a list) holds for every
                             supported query
       Consequence: the captured argument queries stay for ever in the state NewXxx / build.go gave
       them; they are prototypes that are cloned, never run.
       NOT PROVED as a theorem: the tree-wide frame property "no Select / Evaluate of ANY query
       changes the state of a functionQuery nested anywhere inside it".  It follows from
       fn_immutable, fn_select_immutable, reset3_fnlike and the shape of sel3 / ev3 (the state of
       a sub-query is passed to that sub-query's Select / Evaluate / reset only), but the induction
       through all the loops of Iter.v / Iter2.v / Iter3.v is not carried out.
       CONCURRENCY is outside this model: two goroutines evaluating clones of one Expr both READ the
       shared captured queries (Clone reads the fields it copies) and never write them.

   Not covered: lastFuncQuery (outside m1_supported4; ex_clone_lastfunc shows that its Clone
   drops buffer and counted). *)
