(* Proofs/NameTest.v — name tests and namespaces:
   the decision table of axisPredicate ([match_test]), prefix binding at
   compile time ([parse_node_test] with a namespace map), and the functions
   name(), local-name(), namespace-uri(). *)
From XP Require Import Base F64 Doc Ast Scan Parse Build Hash Eval Api.
Open Scope nat_scope.
Open Scope list_scope.

(* ================================================================== *)
(* 1. match_test                                                        *)

Lemma ntype_eqb_eq : forall a b, ntype_eqb a b = true <-> a = b.
Proof. intros a b. destruct a, b; cbn; split; intros H; try reflexivity; discriminate. Qed.

Section MatchTest.
Variable D : tree.
Variable has_ns : bool.    (* the navigator exposes namespace URIs (NamespaceURL()) *)

Notation mt := (match_test D has_ns).

(* the node-type filter *)
Definition type_ok (t : ntest) (n : node) : Prop :=
  nt_type t = node_type D n \/ nt_type t = NTAll.

(* the tests  * , node(), text(), comment(): no name to compare *)
Definition no_name (t : ntest) : Prop := nt_loc t = "" /\ nt_pre t = "".

(* the test was compiled with a namespace map binding its prefix AND the
   navigator can report namespace URIs *)
Definition by_uri (t : ntest) : bool := andb has_ns (nt_hasns t).

Lemma type_ok_dec : forall t n,
  orb (ntype_eqb (nt_type t) (node_type D n)) (ntype_eqb (nt_type t) NTAll) = true <-> type_ok t n.
Proof.
  intros t n. unfold type_ok. rewrite orb_true_iff, !ntype_eqb_eq. reflexivity.
Qed.

Lemma no_name_dec : forall t,
  orb (negb (String.eqb (nt_loc t) "")) (negb (String.eqb (nt_pre t) "")) = false <-> no_name t.
Proof.
  intros t. unfold no_name. rewrite orb_false_iff, !negb_false_iff, !String.eqb_eq. reflexivity.
Qed.

(* (1) the type filter *)
Theorem match_test_type : forall t n, mt t n = true -> type_ok t n.
Proof.
  intros t n H. apply type_ok_dec. unfold match_test in H.
  destruct (orb (ntype_eqb (nt_type t) (node_type D n)) (ntype_eqb (nt_type t) NTAll));
    [reflexivity|discriminate].
Qed.

Theorem match_test_wrong_type : forall t n,
  nt_type t <> node_type D n -> nt_type t <> NTAll -> mt t n = false.
Proof.
  intros t n H1 H2. destruct (mt t n) eqn:E; [|reflexivity].
  apply match_test_type in E. destruct E; contradiction.
Qed.

(* (2) wildcard / node-type test *)
Theorem match_test_no_name : forall t n, no_name t -> (mt t n = true <-> type_ok t n).
Proof.
  intros t n Hn. rewrite <- type_ok_dec. apply no_name_dec in Hn.
  unfold match_test. rewrite Hn.
  destruct (orb (ntype_eqb (nt_type t) (node_type D n)) (ntype_eqb (nt_type t) NTAll));
    split; intros H; try reflexivity; discriminate.
Qed.

(* (3) namespace-aware comparison: local name and namespace URI; the node's
   prefix plays no role *)
Theorem match_test_by_uri : forall t n, ~ no_name t -> by_uri t = true ->
  (mt t n = true <-> type_ok t n /\ nt_loc t = local_name D n /\ nt_ns t = node_ns D n).
Proof.
  intros t n Hn Hu. rewrite <- type_ok_dec. unfold by_uri in Hu.
  assert (Hn' : orb (negb (String.eqb (nt_loc t) "")) (negb (String.eqb (nt_pre t) "")) = true).
  { destruct (orb (negb (String.eqb (nt_loc t) "")) (negb (String.eqb (nt_pre t) ""))) eqn:E;
      [reflexivity|]. apply no_name_dec in E. contradiction. }
  unfold match_test. rewrite Hn', Hu.
  destruct (orb (ntype_eqb (nt_type t) (node_type D n)) (ntype_eqb (nt_type t) NTAll)).
  - rewrite andb_true_iff, !String.eqb_eq. tauto.
  - split; [discriminate|]. intros [H _]. discriminate.
Qed.

(* (4) lexical comparison: local name and PREFIX *)
Theorem match_test_by_prefix : forall t n, ~ no_name t -> by_uri t = false ->
  (mt t n = true <-> type_ok t n /\ nt_loc t = local_name D n /\ nt_pre t = node_prefix D n).
Proof.
  intros t n Hn Hu. rewrite <- type_ok_dec. unfold by_uri in Hu.
  assert (Hn' : orb (negb (String.eqb (nt_loc t) "")) (negb (String.eqb (nt_pre t) "")) = true).
  { destruct (orb (negb (String.eqb (nt_loc t) "")) (negb (String.eqb (nt_pre t) ""))) eqn:E;
      [reflexivity|]. apply no_name_dec in E. contradiction. }
  unfold match_test. rewrite Hn', Hu.
  destruct (orb (ntype_eqb (nt_type t) (node_type D n)) (ntype_eqb (nt_type t) NTAll)).
  - rewrite andb_true_iff, !String.eqb_eq. tauto.
  - split; [discriminate|]. intros [H _]. discriminate.
Qed.

Lemma no_name_decidable : forall t, no_name t \/ ~ no_name t.
Proof.
  intros t. unfold no_name.
  destruct (string_dec (nt_loc t) "") as [H1|H1]; destruct (string_dec (nt_pre t) "") as [H2|H2]; tauto.
Qed.

(* the whole table *)
Theorem match_test_table : forall t n,
  mt t n = true <->
  type_ok t n /\
  (no_name t \/
   (~ no_name t /\ nt_loc t = local_name D n /\
    (if by_uri t then nt_ns t = node_ns D n else nt_pre t = node_prefix D n))).
Proof.
  intros t n. destruct (no_name_decidable t) as [Hn|Hn].
  - rewrite (match_test_no_name t n Hn). tauto.
  - destruct (by_uri t) eqn:Hu.
    + rewrite (match_test_by_uri t n Hn Hu). tauto.
    + rewrite (match_test_by_prefix t n Hn Hu). tauto.
Qed.

(* ---- consequences ---- *)

(* in namespace-aware mode two nodes of the same type, local name and
   namespace URI are not distinguished, whatever their prefixes *)
Corollary match_test_prefix_irrelevant : forall t n1 n2,
  by_uri t = true ->
  node_type D n1 = node_type D n2 -> local_name D n1 = local_name D n2 ->
  node_ns D n1 = node_ns D n2 ->
  mt t n1 = mt t n2.
Proof.
  intros t n1 n2 Hu Ht Hl Hns. unfold match_test. unfold by_uri in Hu.
  rewrite Hu, Ht, Hl, Hns. reflexivity.
Qed.

(* in lexical mode the namespace URI is irrelevant *)
Corollary match_test_uri_irrelevant : forall t n1 n2,
  by_uri t = false ->
  node_type D n1 = node_type D n2 -> local_name D n1 = local_name D n2 ->
  node_prefix D n1 = node_prefix D n2 ->
  mt t n1 = mt t n2.
Proof.
  intros t n1 n2 Hu Ht Hl Hp. unfold match_test. unfold by_uri in Hu.
  rewrite Hu, Ht, Hl, Hp. reflexivity.
Qed.

(* an unprefixed name test is never bound (see parse_node_test below), so it
   matches unprefixed nodes only *)
Corollary match_test_unprefixed : forall t n,
  nt_pre t = "" -> nt_loc t <> "" -> nt_hasns t = false ->
  (mt t n = true <-> type_ok t n /\ local_name D n = nt_loc t /\ node_prefix D n = "").
Proof.
  intros t n Hp Hl Hh.
  assert (Hn : ~ no_name t) by (intros [H _]; contradiction).
  assert (Hu : by_uri t = false) by (unfold by_uri; rewrite Hh; apply andb_false_r).
  rewrite (match_test_by_prefix t n Hn Hu), Hp. intuition congruence.
Qed.

(* QUIRK: "p:*" is compiled to  nt_loc = "" , nt_pre = "p"  and is then NOT a
   wildcard: in both modes it asks for a node whose local name is EMPTY,
   so it matches no element or attribute *)
Corollary match_test_prefixed_star : forall t n,
  nt_loc t = "" -> nt_pre t <> "" -> mt t n = true -> local_name D n = "".
Proof.
  intros t n Hl Hp H.
  assert (Hn : ~ no_name t) by (intros [_ H']; contradiction).
  destruct (by_uri t) eqn:Hu.
  - apply (match_test_by_uri t n Hn Hu) in H. destruct H as [_ [H _]]. congruence.
  - apply (match_test_by_prefix t n Hn Hu) in H. destruct H as [_ [H _]]. congruence.
Qed.

End MatchTest.

Print Assumptions match_test_table.
Print Assumptions match_test_by_uri.
Print Assumptions match_test_by_prefix.

(* ---- examples ---- *)
(*  <p:a xmlns:p="urn:x" id="1" q:k="v">  <a/>  <z:a xmlns:z="urn:x"/>  text </p:a> *)
Definition Dn : tree :=
  T KRoot "" "" "" "" []
    [T KElem "p" "a" "urn:x" "" [mkAttr "" "id" "" "1"; mkAttr "q" "k" "urn:y" "v"]
       [T KElem "" "a" "" "" [] [];
        T KElem "z" "a" "urn:x" "" [] [];
        T KText "" "" "" "hello" [] []]].
Definition n_pa := mkNode [0] None.
Definition n_a := mkNode [0; 0] None.
Definition n_za := mkNode [0; 1] None.
Definition n_txt := mkNode [0; 2] None.
Definition n_id := mkNode [0] (Some 0).
Definition n_qk := mkNode [0] (Some 1).

(* p:a compiled with {p -> urn:x} *)
Definition t_bound := mkTest NTElem "p" "a" true "urn:x".
(* p:a compiled without a map *)
Definition t_lex := mkTest NTElem "p" "a" false "".
(* a *)
Definition t_plain := mkTest NTElem "" "a" false "".
(* * , text(), node() *)
Definition t_star := mkTest NTElem "" "" false "".
Definition t_text := mkTest NTText "" "" false "".
Definition t_node := mkTest NTAll "" "" false "".
(* p:* *)
Definition t_pstar := mkTest NTElem "p" "" true "urn:x".

Example match_test_ex_by_uri :
  map (match_test Dn true t_bound) [n_pa; n_a; n_za; n_txt; n_id] = [true; false; true; false; false].
Proof. vm_compute. reflexivity. Qed.

(* the same compiled test on a navigator without NamespaceURL(): lexical *)
Example match_test_ex_no_nav_ns :
  map (match_test Dn false t_bound) [n_pa; n_a; n_za; n_txt; n_id] = [true; false; false; false; false].
Proof. vm_compute. reflexivity. Qed.

Example match_test_ex_lex :
  map (match_test Dn true t_lex) [n_pa; n_a; n_za] = [true; false; false] /\
  map (match_test Dn true t_plain) [n_pa; n_a; n_za] = [false; true; false].
Proof. vm_compute. split; reflexivity. Qed.

Example match_test_ex_wild :
  map (match_test Dn true t_star) [n_pa; n_a; n_za; n_txt; n_id] = [true; true; true; false; false] /\
  map (match_test Dn true t_text) [n_pa; n_a; n_za; n_txt; n_id] = [false; false; false; true; false] /\
  map (match_test Dn true t_node) [n_pa; n_a; n_za; n_txt; n_id] = [true; true; true; true; true].
Proof. vm_compute. repeat split; reflexivity. Qed.

Example match_test_ex_prefixed_star :
  map (match_test Dn true t_pstar) [n_pa; n_a; n_za] = [false; false; false] /\
  map (match_test Dn false t_pstar) [n_pa; n_a; n_za] = [false; false; false].
Proof. vm_compute. split; reflexivity. Qed.

Example match_test_by_uri_hyps_ex :
  ~ no_name t_bound /\ by_uri true t_bound = true /\ type_ok Dn t_bound n_za.
Proof.
  repeat split.
  - intros [H _]. discriminate.
  - left. vm_compute. reflexivity.
Qed.

(* ================================================================== *)
(* 2. parse_node_test: binding the prefix at compile time                *)

Section ParseNodeTest.
Variables (n : option anode) (axis : string) (mt : ntype).
Variables (st st1 : pst).
Hypothesis Htyp : typ st = IName.
(* not a node-type test  node( / text( / comment( / processing-instruction( *)
Hypothesis Hname : andb (s_canfunc (p_s st)) (is_node_type st) = false.
Hypothesis Hnext : pnext st = Ok st1.

Let prefix := s_prefix (p_s st).
(* Go re-reads the scanner's name field AFTER advancing: "p:*" leaves "*" there *)
Let name := if String.eqb (s_name (p_s st1)) "*" then "" else s_name (p_s st).

(* a prefix that the map does not bind is a compile error *)
Theorem parse_node_test_unbound : forall m,
  prefix <> "" -> ns_lookup m prefix = None ->
  parse_node_test (Some m) n axis mt st = Err "prefix not defined.".
Proof.
  intros m Hp Hl. unfold parse_node_test. rewrite Htyp, Hname, Hnext. cbn [cbind].
  fold prefix. apply String.eqb_neq in Hp. rewrite Hp. cbn [negb andb]. rewrite Hl. reflexivity.
Qed.

(* a bound prefix: the axis node carries hasns = true and the URI *)
Theorem parse_node_test_bound : forall m uri,
  prefix <> "" -> ns_lookup m prefix = Some uri ->
  parse_node_test (Some m) n axis mt st = Ok (AAxis axis mt prefix name "" true uri n, st1).
Proof.
  intros m uri Hp Hl. unfold parse_node_test. rewrite Htyp, Hname, Hnext. cbn [cbind].
  fold prefix. apply String.eqb_neq in Hp. rewrite Hp. cbn [negb andb]. rewrite Hl. reflexivity.
Qed.

(* no map (Compile, as opposed to CompileWithNS): never bound, never an error *)
Theorem parse_node_test_no_map :
  parse_node_test None n axis mt st = Ok (AAxis axis mt prefix name "" false "" n, st1).
Proof.
  unfold parse_node_test. rewrite Htyp, Hname, Hnext. cbn [cbind].
  fold prefix. rewrite andb_false_r. reflexivity.
Qed.

(* an unprefixed name is never bound, even with a map (no default namespace) *)
Theorem parse_node_test_unprefixed : forall ns,
  prefix = "" ->
  parse_node_test ns n axis mt st = Ok (AAxis axis mt "" name "" false "" n, st1).
Proof.
  intros ns Hp. unfold parse_node_test. rewrite Htyp, Hname, Hnext. cbn [cbind].
  fold prefix. rewrite Hp. cbn [String.eqb negb andb]. reflexivity.
Qed.

(* summary: the hasns flag of the result *)
Theorem parse_node_test_hasns : forall ns a st',
  parse_node_test ns n axis mt st = Ok (a, st') ->
  exists pre loc hasns uri,
    a = AAxis axis mt pre loc "" hasns uri n /\ pre = prefix /\ st' = st1 /\
    (hasns = true <-> exists m, ns = Some m /\ prefix <> "" /\ ns_lookup m prefix = Some uri).
Proof.
  intros ns a st' H.
  destruct (string_dec prefix "") as [Hp|Hp].
  - rewrite (parse_node_test_unprefixed ns Hp) in H. inversion H; subst a st'.
    exists "", name, false, "". rewrite Hp. repeat split; try discriminate.
    intros [m [_ [Hc _]]]. contradiction.
  - destruct ns as [m|].
    + destruct (ns_lookup m prefix) as [uri|] eqn:Hl.
      * rewrite (parse_node_test_bound m uri Hp Hl) in H. inversion H; subst a st'.
        exists prefix, name, true, uri. repeat split; try reflexivity.
        intros _. exists m. auto.
      * rewrite (parse_node_test_unbound m Hp Hl) in H. discriminate.
    + rewrite parse_node_test_no_map in H. inversion H; subst a st'.
      exists prefix, name, false, "". repeat split; try reflexivity; try discriminate.
      intros [m [Hc _]]. discriminate.
Qed.

End ParseNodeTest.

Print Assumptions parse_node_test_unbound.
Print Assumptions parse_node_test_bound.
Print Assumptions parse_node_test_hasns.

(* ns_lookup: first binding wins *)
Lemma ns_lookup_in : forall m k v, ns_lookup m k = Some v -> In (k, v) m.
Proof.
  induction m as [|[a b] r IH]; intros k v H; cbn in H; [discriminate|].
  destruct (String.eqb a k) eqn:E.
  - apply String.eqb_eq in E. inversion H. subst. left. reflexivity.
  - right. apply IH. exact H.
Qed.

Lemma ns_lookup_none : forall m k, ns_lookup m k = None <-> ~ In k (map fst m).
Proof.
  induction m as [|[a b] r IH]; intros k; cbn; [tauto|].
  destruct (String.eqb a k) eqn:E.
  - apply String.eqb_eq in E. split; [discriminate|]. intros H. exfalso. apply H. left. exact E.
  - apply String.eqb_neq in E. rewrite IH. tauto.
Qed.

(* end to end through the scanner and the parser *)
Definition parse_step_of (text : string) (ns : nsmap) : cres anode := parse text ns.

Example parse_bound_ex :
  parse "p:a" (Some [("p", "urn:x")]) = Ok (AAxis "child" NTElem "p" "a" "" true "urn:x" None).
Proof. vm_compute. reflexivity. Qed.

Example parse_unbound_ex :
  parse "p:a" (Some [("q", "urn:x")]) = Err "prefix not defined.".
Proof. vm_compute. reflexivity. Qed.

Example parse_no_map_ex :
  parse "p:a" None = Ok (AAxis "child" NTElem "p" "a" "" false "" None).
Proof. vm_compute. reflexivity. Qed.

Example parse_unprefixed_ex :
  parse "a" (Some [("", "urn:x"); ("p", "urn:x")]) = Ok (AAxis "child" NTElem "" "a" "" false "" None).
Proof. vm_compute. reflexivity. Qed.

Example parse_attr_bound_ex :
  parse "@q:k" (Some [("q", "urn:y")]) = Ok (AAxis "attribute" NTAttr "q" "k" "" true "urn:y" None).
Proof. vm_compute. reflexivity. Qed.

Example parse_prefixed_star_ex :
  parse "p:*" (Some [("p", "urn:x")]) = Ok (AAxis "child" NTElem "p" "" "" true "urn:x" None).
Proof. vm_compute. reflexivity. Qed.

(* ================================================================== *)
(* 3. name(), local-name(), namespace-uri()                              *)

Section NameFunctions.
Variable D : tree.
Variable has_ns : bool.
Variable hcode : node -> N.
Variable re_match : string -> string -> option bool.
Variable re_numsubexp : string -> nat.
Variable re_replace_all : string -> string -> string -> string.

Notation ev := (eval D has_ns hcode re_match re_numsubexp re_replace_all).
Notation sl := (sel D has_ns hcode re_match re_numsubexp re_replace_all).

(* the QName of a node: prefix:local, or local when there is no prefix *)
Definition qname (n : node) : string :=
  if String.eqb (node_prefix D n) "" then local_name D n
  else (node_prefix D n ++ ":" ++ local_name D n)%string.

(* namespace-uri() falls back to the PREFIX when the navigator has no
   NamespaceURL() method *)
Definition ns_uri (n : node) : string := if has_ns then node_ns D n else node_prefix D n.

(* which node the function reports on *)
Definition name_target (a : query) (c : node) : outcome (option node) :=
  match a with
  | QNil => Val (Some c)
  | _ => do l <- sl a c; Val (match l with [] => None | i :: _ => Some (it_node i) end)
  end.

Lemma name_target_arg : forall a c, a <> QNil ->
  name_target a c = do l <- sl a c; Val (match l with [] => None | i :: _ => Some (it_node i) end).
Proof. intros a c H. destruct a; try reflexivity. contradiction. Qed.

Definition name_fn (f : fn1) (n : node) : string :=
  match f with
  | FName => qname n
  | FLocalName => local_name D n
  | _ => ns_uri n
  end.

Definition is_name_fn (f : fn1) : Prop :=
  match f with FName | FLocalName | FNamespaceURI => True | _ => False end.

(* unfolding equation *)
Lemma eval_name_fn_eq : forall f a c, is_name_fn f ->
  ev (QFn1 f a) c =
  do target <- name_target a c;
  Val (VStr (match target with None => "" | Some n => name_fn f n end)).
Proof.
  intros f a c Hf. destruct f; cbn in Hf; try contradiction.
  - change (ev (QFn1 FName a) c) with
      (do target <- name_target a c;
       match target with
       | None => Val (VStr "")
       | Some n => Val (VStr (qname n))
       end).
    destruct (name_target a c) as [[n|]| |]; reflexivity.
  - change (ev (QFn1 FLocalName a) c) with
      (do target <- name_target a c;
       match target with
       | None => Val (VStr "")
       | Some n => Val (VStr (local_name D n))
       end).
    destruct (name_target a c) as [[n|]| |]; reflexivity.
  - change (ev (QFn1 FNamespaceURI a) c) with
      (do target <- name_target a c;
       match target with
       | None => Val (VStr "")
       | Some n => Val (VStr (ns_uri n))
       end).
    destruct (name_target a c) as [[n|]| |]; reflexivity.
Qed.

(* no argument: the context node *)
Theorem eval_name_fn_context : forall f c, is_name_fn f ->
  ev (QFn1 f QNil) c = Val (VStr (name_fn f c)).
Proof. intros f c Hf. rewrite (eval_name_fn_eq f QNil c Hf). reflexivity. Qed.

(* a node-set argument: its first node; "" when empty *)
Theorem eval_name_fn_arg : forall f a c l, is_name_fn f -> a <> QNil ->
  sl a c = Val l ->
  ev (QFn1 f a) c =
  Val (VStr (match l with [] => "" | i :: _ => name_fn f (it_node i) end)).
Proof.
  intros f a c l Hf Ha Hs. rewrite (eval_name_fn_eq f a c Hf), (name_target_arg a c Ha), Hs.
  destruct l; reflexivity.
Qed.

Corollary eval_name_fn_empty : forall f a c, is_name_fn f -> a <> QNil ->
  sl a c = Val [] -> ev (QFn1 f a) c = Val (VStr "").
Proof. intros f a c Hf Ha Hs. rewrite (eval_name_fn_arg f a c [] Hf Ha Hs). reflexivity. Qed.

(* a failing argument fails the call *)
Theorem eval_name_fn_arg_fails : forall f a c, is_name_fn f -> a <> QNil ->
  (forall l, sl a c <> Val l) ->
  ev (QFn1 f a) c = match sl a c with Val _ => Val VNil | Complaint m => Complaint m | Crash k => Crash k end.
Proof.
  intros f a c Hf Ha Hs. rewrite (eval_name_fn_eq f a c Hf), (name_target_arg a c Ha).
  destruct (sl a c) as [l| |]; [exfalso; apply (Hs l); reflexivity| |]; reflexivity.
Qed.

(* the three functions spelled out *)
Corollary eval_name_context : forall c,
  ev (QFn1 FName QNil) c =
  Val (VStr (if String.eqb (node_prefix D c) "" then local_name D c
             else (node_prefix D c ++ ":" ++ local_name D c)%string)).
Proof. intros c. apply (eval_name_fn_context FName c I). Qed.

Corollary eval_local_name_context : forall c,
  ev (QFn1 FLocalName QNil) c = Val (VStr (local_name D c)).
Proof. intros c. apply (eval_name_fn_context FLocalName c I). Qed.

Corollary eval_namespace_uri_context : forall c,
  ev (QFn1 FNamespaceURI QNil) c = Val (VStr (if has_ns then node_ns D c else node_prefix D c)).
Proof. intros c. apply (eval_name_fn_context FNamespaceURI c I). Qed.

(* name() of a node without prefix / with prefix *)
Lemma qname_unprefixed : forall n, node_prefix D n = "" -> qname n = local_name D n.
Proof. intros n H. unfold qname. rewrite H. reflexivity. Qed.

Lemma qname_prefixed : forall n, node_prefix D n <> "" ->
  qname n = (node_prefix D n ++ ":" ++ local_name D n)%string.
Proof. intros n H. unfold qname. apply String.eqb_neq in H. rewrite H. reflexivity. Qed.

End NameFunctions.

Print Assumptions eval_name_fn_context.
Print Assumptions eval_name_fn_arg.

(* examples on Dn; the regexp parameters are irrelevant *)
Section NameExamples.
Variables (hc : node -> N) (rm : string -> string -> option bool) (rn : string -> nat)
          (rr : string -> string -> string -> string).

Example name_context_ex :
  eval Dn true hc rm rn rr (QFn1 FName QNil) n_pa = Val (VStr "p:a") /\
  eval Dn true hc rm rn rr (QFn1 FName QNil) n_a = Val (VStr "a") /\
  eval Dn true hc rm rn rr (QFn1 FLocalName QNil) n_za = Val (VStr "a") /\
  eval Dn true hc rm rn rr (QFn1 FNamespaceURI QNil) n_za = Val (VStr "urn:x") /\
  eval Dn false hc rm rn rr (QFn1 FNamespaceURI QNil) n_za = Val (VStr "z") /\
  eval Dn true hc rm rn rr (QFn1 FName QNil) n_qk = Val (VStr "q:k") /\
  eval Dn true hc rm rn rr (QFn1 FName QNil) n_txt = Val (VStr "") /\
  eval Dn true hc rm rn rr (QFn1 FName QNil) root_node = Val (VStr "").
Proof. vm_compute. repeat split; reflexivity. Qed.

(* name( * ) from <p:a>: its first child <a/>;  name(p:a) bound by URI finds the
   child <z:a> (same URI, other prefix);  lexically p:a has no match: "" *)
Example name_arg_ex :
  eval Dn true hc rm rn rr (QFn1 FName (QChild t_star QContext)) n_pa = Val (VStr "a") /\
  eval Dn true hc rm rn rr (QFn1 FName (QChild t_bound QContext)) n_pa = Val (VStr "z:a") /\
  eval Dn true hc rm rn rr (QFn1 FNamespaceURI (QChild t_bound QContext)) n_pa = Val (VStr "urn:x") /\
  eval Dn true hc rm rn rr (QFn1 FName (QChild t_lex QContext)) n_pa = Val (VStr "") /\
  eval Dn true hc rm rn rr (QFn1 FLocalName (QChild t_lex QContext)) n_pa = Val (VStr "").
Proof. vm_compute. repeat split; reflexivity. Qed.

End NameExamples.

(* ================================================================== *)
(* 4. end to end: CompileWithNS + Evaluate on Dn from the document root    *)

Definition run_ns (D : tree) (has_ns : bool) (text : string) (ns : nsmap) : cres (outcome value) :=
  match compile lit_ok text ns with
  | Ok q => Ok (evaluate lit_match lit_numsubexp lit_replace_all hash_code D has_ns q root_node)
  | Err m => Err m
  | OutOfFuel => OutOfFuel
  end.

Definition two : f64 := of_Z 2.

(* //p:a with p bound to urn:x finds <p:a> and <z:a> (2 nodes) when the
   navigator reports URIs, only <p:a> when it does not or when no map is
   given; an unbound prefix does not compile; //a finds only the unprefixed
   <a/> *)
Example e2e_ns :
  run_ns Dn true  "count(//p:a)" (Some [("p", "urn:x")]) = Ok (Val (VNum two)) /\
  run_ns Dn true  "count(//x:a)" (Some [("x", "urn:x")]) = Ok (Val (VNum two)) /\
  run_ns Dn false "count(//p:a)" (Some [("p", "urn:x")]) = Ok (Val (VNum fone)) /\
  run_ns Dn true  "count(//p:a)" None = Ok (Val (VNum fone)) /\
  run_ns Dn true  "count(//q:a)" (Some [("p", "urn:x")]) = Err "prefix not defined." /\
  run_ns Dn true  "count(//a)" (Some [("p", "urn:x")]) = Ok (Val (VNum fone)) /\
  run_ns Dn true  "name(//x:a/x:a)" (Some [("x", "urn:x")]) = Ok (Val (VStr "z:a")) /\
  run_ns Dn true  "namespace-uri(*)" None = Ok (Val (VStr "urn:x")) /\
  run_ns Dn false "namespace-uri(*)" None = Ok (Val (VStr "p")) /\
  run_ns Dn true  "local-name(*/@q:k)" None = Ok (Val (VStr "k")) /\
  run_ns Dn true  "name(nosuch)" None = Ok (Val (VStr "")).
Proof. vm_compute. repeat split; reflexivity. Qed.

(* QUIRK end to end: p:* selects nothing although * selects <p:a> *)
Example e2e_prefixed_star :
  run_ns Dn true "count(*)" (Some [("p", "urn:x")]) = Ok (Val (VNum fone)) /\
  run_ns Dn true "count(p:*)" (Some [("p", "urn:x")]) = Ok (Val (VNum fzero)) /\
  run_ns Dn true "count(p:*)" None = Ok (Val (VNum fzero)) /\
  run_ns Dn true "count(//p:*)" (Some [("p", "urn:x")]) = Ok (Val (VNum fzero)).
Proof. vm_compute. repeat split; reflexivity. Qed.
