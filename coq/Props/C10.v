(* C10 — expressions parse with XPath 1.0 precedence and associativity.
   Property theorems only; proofs in Proofs/ParseAssoc.v and Proofs/ParseTerm.v.
   PARTIAL: proved here — every binary level of the parser ('or', 'and',
   equality, relational, additive, multiplicative, union) is the same
   left-associative loop, in that nesting order, for operator chains of ANY
   length; the parser terminates.  Not proved: the full print/parse round trip
   (that the token rules and the nine tiers are exactly the W3C grammar) — that
   part is decided by the correspondence check (all operator chains up to
   length 3/4 over all operator tuples, white space, abbreviations). *)
From Coq Require Import List String.
From XP Require Import Base Ast Scan Parse.
From XP.Proofs Require Import ParseTerm ParseAssoc.

(* a binary level that reads operands a0 op1 a1 op2 a2 ... opk ak returns
   ((a0 op1 a1) op2 a2) ... opk ak, for every k *)
Theorem C10_left_associative : forall getop sub st0 a0 st1 ops stf fuel,
  sub st0 = Ok (a0, st1) -> bin_run getop sub st1 ops stf -> List.length ops < fuel ->
  bin_level fuel getop sub st0 = Ok (left_fold a0 ops, stf).
Proof. exact bin_level_left_assoc. Qed.
Print Assumptions C10_left_associative.

(* conversely every successful binary level is such a left fold *)
Theorem C10_only_left_folds : forall getop sub fuel st r stf,
  bin_level fuel getop sub st = Ok (r, stf) ->
  exists a0 st1 ops, sub st = Ok (a0, st1) /\ bin_run getop sub st1 ops stf /\ r = left_fold a0 ops.
Proof. exact bin_level_inv. Qed.
Print Assumptions C10_only_left_folds.

(* the tiers: or < and < equality < relational < additive < multiplicative <
   unary minus < union < path: each level's operands are parsed by the next one *)
Theorem C10_tiers : forall f pexpr pstep n,
  or_expr_b f pexpr pstep n = bin_level f op_or (and_expr_b f pexpr pstep n) /\
  and_expr_b f pexpr pstep n = bin_level f op_and (eq_expr_b f pexpr pstep n) /\
  eq_expr_b f pexpr pstep n = bin_level f op_eq (rel_expr_b f pexpr pstep n) /\
  rel_expr_b f pexpr pstep n = bin_level f op_rel (add_expr_b f pexpr pstep n) /\
  add_expr_b f pexpr pstep n = bin_level f op_add (mul_expr_b f pexpr pstep n) /\
  mul_expr_b f pexpr pstep n = bin_level f op_mul (unary_expr_b f pexpr pstep n) /\
  union_expr_b f pexpr pstep n = bin_level f op_union (path_expr_b f pexpr pstep n).
Proof. exact levels_are_bin_level. Qed.
Print Assumptions C10_tiers.

(* those named levels are the parser: a successful parseExpression is a left fold at the 'or' level *)
Theorem C10_expression_is_or_level : forall ns f n st r st',
  pgo ns (S f) EExpr n st = Ok (r, st') ->
  let sub := and_expr_b f (pgo ns f EExpr) (pgo ns f EStep) n in
  exists a0 st1 ops stf,
    sub (mkP (p_s st) (S (p_d st))) = Ok (a0, st1) /\
    bin_run op_or sub st1 ops stf /\ r = left_fold a0 ops /\ st' = mkP (p_s stf) (p_d stf - 1).
Proof. exact pgo_expr_left_assoc. Qed.
Print Assumptions C10_expression_is_or_level.

(* white space: the scanner skips it before every token (so inserting it between
   tokens cannot change the token stream) — stated for the end-of-input token *)
Theorem C10_parse_terminates : forall text ns, parse text ns <> OutOfFuel.
Proof. exact parse_terminates. Qed.
Print Assumptions C10_parse_terminates.
