(* Proofs/Compare.v — the model's dynamically typed comparison layer
   (operator.go: logicalFuncs / cmpXxx_Yyy, func.go: asBool / asNumber,
   query.go: booleanQuery) against Spec/Values.v (XPath 1.0, 3.4). *)
From XP Require Import Base F64 Doc Ast Scan Parse Build Hash Eval Api.
From XP.Spec Require Import Values.
Open Scope nat_scope.
Open Scope list_scope.

(* ================================================================== *)
(* 1. IEEE comparison facts on spec_float                              *)

Lemma SFcompare_antisym : forall a b : f64,
  SFcompare b a = option_map CompOpp (SFcompare a b).
Proof.
  intros a b.
  destruct a as [sa|sa| |sa ma ea]; destruct b as [sb|sb| |sb mb eb]; cbn;
    try reflexivity;
    try (destruct sa; reflexivity); try (destruct sb; reflexivity);
    try (destruct sa, sb; reflexivity).
  destruct sa, sb; cbn; try reflexivity.
  - rewrite (Z.compare_antisym ea eb).
    destruct (Z.compare ea eb); cbn; try reflexivity.
    rewrite (Pos.compare_cont_antisym ma mb Eq). cbn. reflexivity.
  - rewrite (Z.compare_antisym ea eb).
    destruct (Z.compare ea eb); cbn; try reflexivity.
    rewrite (Pos.compare_cont_antisym ma mb Eq). cbn. reflexivity.
Qed.

(* the model's six Go float operators are the six IEEE predicates of the spec *)
Lemma cmp_num_spec : forall op a b, cmp_num op a b = num_cmp op a b.
Proof.
  intros op a b. unfold cmp_num, num_cmp, feq, fne, flt, fle, fgt, fge, SFeqb, SFltb, SFleb.
  destruct op; try rewrite (SFcompare_antisym a b);
    destruct (SFcompare a b) as [[ | | ]|]; reflexivity.
Qed.

(* any comparison with NaN is false, except != which is true *)
Lemma cmp_num_nan_l : forall op x,
  cmp_num op fnan x = match op with CNe => true | _ => false end.
Proof. intros op x. destruct op, x; reflexivity. Qed.

Lemma cmp_num_nan_r : forall op x,
  cmp_num op x fnan = match op with CNe => true | _ => false end.
Proof. intros op x. destruct op, x; reflexivity. Qed.

Lemma cmp_num_is_nan_l : forall op a x, is_nan a = true ->
  cmp_num op a x = match op with CNe => true | _ => false end.
Proof. intros op a x H. destruct a; try discriminate. apply cmp_num_nan_l. Qed.

Lemma cmp_num_is_nan_r : forall op a x, is_nan a = true ->
  cmp_num op x a = match op with CNe => true | _ => false end.
Proof. intros op a x H. destruct a; try discriminate. apply cmp_num_nan_r. Qed.

(* != is the negation of = on numbers (also for NaN: = false, != true) *)
Lemma cmp_num_ne_negb_eq : forall a b, cmp_num CNe a b = negb (cmp_num CEq a b).
Proof. reflexivity. Qed.

(* +0 = -0 *)
Lemma cmp_num_zero_signs : forall s1 s2, cmp_num CEq (S754_zero s1) (S754_zero s2) = true.
Proof. reflexivity. Qed.

(* ================================================================== *)
(* 2. Go's string comparison decides equality                           *)

Lemma byte_of_inj : forall x y, byte_of x = byte_of y -> x = y.
Proof.
  intros x y H. unfold byte_of in H.
  rewrite <- (ascii_nat_embedding x), <- (ascii_nat_embedding y), H. reflexivity.
Qed.

Lemma str_compare_refl : forall a, str_compare a a = Eq.
Proof.
  induction a as [|c a IH]; cbn [str_compare]; [reflexivity|].
  rewrite Nat.compare_refl. exact IH.
Qed.

Lemma str_compare_eq : forall a b, str_compare a b = Eq <-> a = b.
Proof.
  induction a as [|x a IH]; intros [|y b]; cbn [str_compare]; split; intros H;
    try reflexivity; try discriminate.
  - destruct (Nat.compare (byte_of x) (byte_of y)) eqn:E; try discriminate.
    apply Nat.compare_eq in E. apply byte_of_inj in E. subst y.
    apply IH in H. subst b. reflexivity.
  - injection H as -> ->. rewrite Nat.compare_refl. apply str_compare_refl.
Qed.

Lemma cmp_str_eq : forall a b, cmp_str CEq a b = String.eqb a b.
Proof.
  intros a b. unfold cmp_str.
  destruct (String.eqb a b) eqn:E.
  - apply String.eqb_eq in E. subst b. rewrite str_compare_refl. reflexivity.
  - apply String.eqb_neq in E.
    destruct (str_compare a b) eqn:C; try reflexivity.
    apply str_compare_eq in C. contradiction.
Qed.

Lemma cmp_str_ne : forall a b, cmp_str CNe a b = negb (String.eqb a b).
Proof.
  intros a b. rewrite <- cmp_str_eq. unfold cmp_str.
  destruct (str_compare a b); reflexivity.
Qed.

Lemma cmp_str_eq_sym : forall a b, cmp_str CEq a b = cmp_str CEq b a.
Proof. intros a b. rewrite !cmp_str_eq. apply String.eqb_sym. Qed.

Lemma cmp_str_ne_sym : forall a b, cmp_str CNe a b = cmp_str CNe b a.
Proof. intros a b. rewrite !cmp_str_ne. f_equal. apply String.eqb_sym. Qed.

(* ================================================================== *)
(* 3. abstraction of the model's values                                *)

Section WithDoc.
Variable D : tree.

Definition abs (v : value) : option xval :=
  match v with
  | VBool b => Some (XBool b)
  | VNum f => Some (XNum f)
  | VStr s => Some (XStr s)
  | VNodes l => Some (XSet (values_of D l))
  | VInt _ | VNil => None
  end.

(* the spec instantiated with the model's string -> number conversion *)
Notation xbool := xboolean.
Notation xnum := (xnumber string_to_number).
Notation xcmp := (xcompare string_to_number).
Notation scmp := (scalar_compare string_to_number).

Lemma existsb_ext_in : forall (A : Type) (f g : A -> bool) l,
  (forall x, f x = g x) -> existsb f l = existsb g l.
Proof.
  intros A f g l H. induction l as [|a l IH]; cbn; [reflexivity|].
  rewrite H, IH. reflexivity.
Qed.

(* boolean() and number() *)
Lemma as_bool_spec : forall v x, abs v = Some x -> as_bool v = Val (xbool x).
Proof.
  intros v x H. destruct v; cbn in H; inversion H; subst; cbn; try reflexivity.
  unfold values_of. destruct l; reflexivity.
Qed.

Lemma as_number_spec : forall v x, abs v = Some x ->
  match v with VBool _ => True | _ => as_number D v = xnum x end.
Proof.
  intros v x H. destruct v; cbn in H; inversion H; subst; cbn; try exact I; try reflexivity.
  unfold first_value, values_of. destruct l; reflexivity.
Qed.

(* (the comparison layer never applies as_number to a boolean: it goes through
   bool_num, next) *)

Lemma bool_num_spec : forall v x, abs v = Some x ->
  bool_num D v = Val (match x with XSet l => bool_to_num (xbool x) | _ => xnum x end).
Proof.
  intros v x H. destruct v as [b|f|s|l|z| ]; cbn in H; inversion H; subst; cbn; try reflexivity;
    try (destruct b; reflexivity).
  unfold values_of. destruct l; reflexivity.
Qed.

(* ------------------------------------------------------------------ *)
(* 3a. number / number                                                  *)
Theorem compare_num_num : forall op a b,
  compare_values D op (VNum a) (VNum b) = Val (VBool (xcmp op (XNum a) (XNum b))).
Proof. intros op a b. cbn. rewrite cmp_num_spec. destruct op; reflexivity. Qed.

(* 3b. node-set / number, operand order preserved *)
Theorem compare_nodes_num : forall op l b,
  compare_values D op (VNodes l) (VNum b) = Val (VBool (xcmp op (XSet (values_of D l)) (XNum b))).
Proof.
  intros op l b. cbn [compare_values xcompare]. do 2 f_equal.
  apply existsb_ext_in. intros s. rewrite cmp_num_spec. destruct op; reflexivity.
Qed.

Theorem compare_num_nodes : forall op a l,
  compare_values D op (VNum a) (VNodes l) = Val (VBool (xcmp op (XNum a) (XSet (values_of D l)))).
Proof.
  intros op a l. cbn [compare_values xcompare]. do 2 f_equal.
  apply existsb_ext_in. intros s. rewrite cmp_num_spec. destruct op; reflexivity.
Qed.

(* 3c. string / number: the string is converted with number(); a non-numeric
   string is NaN *)
Theorem compare_str_num : forall op a b,
  compare_values D op (VStr a) (VNum b) = Val (VBool (xcmp op (XStr a) (XNum b))).
Proof. intros op a b. cbn. rewrite cmp_num_spec. destruct op; reflexivity. Qed.

Theorem compare_num_str : forall op a b,
  compare_values D op (VNum a) (VStr b) = Val (VBool (xcmp op (XNum a) (XStr b))).
Proof. intros op a b. cbn. rewrite cmp_num_spec. destruct op; reflexivity. Qed.

Corollary compare_nan_str_num : forall op a b, string_to_number a = fnan ->
  compare_values D op (VStr a) (VNum b) = Val (VBool (match op with CNe => true | _ => false end)).
Proof. intros op a b H. cbn. rewrite H, cmp_num_nan_l. reflexivity. Qed.

Corollary compare_num_nan_str : forall op a b, string_to_number b = fnan ->
  compare_values D op (VNum a) (VStr b) = Val (VBool (match op with CNe => true | _ => false end)).
Proof. intros op a b H. cbn. rewrite H, cmp_num_nan_r. reflexivity. Qed.

(* 3d. string / string, = and != *)
Theorem compare_str_str : forall op a b, is_equality op = true ->
  compare_values D op (VStr a) (VStr b) = Val (VBool (xcmp op (XStr a) (XStr b))).
Proof.
  intros op a b H. destruct op; try discriminate; cbn [compare_values].
  - rewrite cmp_str_eq. reflexivity.
  - rewrite cmp_str_ne. reflexivity.
Qed.

(* 3e. node-set / string and string / node-set, = and != .
   (the model compares  s op x  also when the node-set is on the LEFT; for
   = and != this is invisible) *)
Theorem compare_str_nodes : forall op a l, is_equality op = true ->
  compare_values D op (VStr a) (VNodes l) = Val (VBool (xcmp op (XStr a) (XSet (values_of D l)))).
Proof.
  intros op a l H. cbn [compare_values xcompare]. do 2 f_equal.
  apply existsb_ext_in. intros s. destruct op; try discriminate; cbn [scalar_compare is_bool is_num orb].
  - apply cmp_str_eq.
  - apply cmp_str_ne.
Qed.

Theorem compare_nodes_str : forall op l b, is_equality op = true ->
  compare_values D op (VNodes l) (VStr b) = Val (VBool (xcmp op (XSet (values_of D l)) (XStr b))).
Proof.
  intros op l b H. cbn [compare_values xcompare]. do 2 f_equal.
  apply existsb_ext_in. intros s. destruct op; try discriminate; cbn [scalar_compare is_bool is_num orb].
  - rewrite cmp_str_eq_sym. apply cmp_str_eq.
  - rewrite cmp_str_ne_sym. apply cmp_str_ne.
Qed.

(* 3f. node-set / node-set, = and != *)
Theorem compare_nodes_nodes : forall op l1 l2, is_equality op = true ->
  compare_values D op (VNodes l1) (VNodes l2) =
  Val (VBool (xcmp op (XSet (values_of D l1)) (XSet (values_of D l2)))).
Proof.
  intros op l1 l2 H. cbn [compare_values xcompare]. do 2 f_equal.
  apply existsb_ext_in. intros x. apply existsb_ext_in. intros y.
  destruct op; try discriminate; cbn [scalar_compare is_bool is_num orb].
  - apply cmp_str_eq.
  - apply cmp_str_ne.
Qed.

(* 3g. a boolean operand: cmpBooleanAny, with any other operand type and for
   ALL SIX operators (the property asks for = and != ) *)
Theorem cmp_boolean_any_spec : forall op m n x y,
  abs m = Some x -> abs n = Some y ->
  (is_bool x = true \/ is_bool y = true) ->
  cmp_boolean_any D op m n = Val (xcmp op x y).
Proof.
  intros op m n x y Hm Hn Hb.
  assert (E : forall o, match o with CEq | CNe => True | _ =>
              cmp_boolean_any D o m n = do a <- bool_num D m; do b <- bool_num D n; Val (cmp_num o a b) end)
    by (intros []; try exact I; reflexivity).
  destruct op;
    try (unfold cmp_boolean_any; rewrite (as_bool_spec m x Hm), (as_bool_spec n y Hn); cbn [obind]);
    try (pose proof (E CLt) as E1; pose proof (E CLe) as E2; pose proof (E CGt) as E3; pose proof (E CGe) as E4;
         cbn beta iota in E1, E2, E3, E4;
         first [rewrite E1 | rewrite E2 | rewrite E3 | rewrite E4];
         rewrite (bool_num_spec m x Hm), (bool_num_spec n y Hn); cbn [obind]; rewrite cmp_num_spec);
    clear E;
    destruct x as [bx|fx|sx|lx], y as [by_|fy|sy|ly]; cbn in Hb;
      try (destruct Hb; discriminate); try reflexivity;
      cbn; try (destruct lx; reflexivity); try (destruct ly; reflexivity).
Qed.

Theorem compare_bool_any : forall op m n x y,
  abs m = Some x -> abs n = Some y ->
  (is_bool x = true \/ is_bool y = true) ->
  compare_values D op m n = Val (VBool (xcmp op x y)).
Proof.
  intros op m n x y Hm Hn Hb.
  assert (E : compare_values D op m n = do b <- cmp_boolean_any D op m n; Val (VBool b)).
  { destruct m, n; cbn in Hm, Hn; inversion Hm; inversion Hn; subst; cbn in Hb;
      try (destruct Hb; discriminate); reflexivity. }
  rewrite E, (cmp_boolean_any_spec op m n x y Hm Hn Hb). reflexivity.
Qed.

(* ------------------------------------------------------------------ *)
(* 3h. the combined statement.  [follows_spec] is the exact set of
   (operator, type, type) triples on which model and spec agree for ALL
   values; outside it they disagree on some values (section 4). *)
Definition follows_spec (op : cmpop) (x y : xval) : bool :=
  match x, y with
  | XBool _, _ | _, XBool _ => true
  | XNum _, _ | _, XNum _ => true
  | _, _ => is_equality op          (* string|node-set  vs  string|node-set *)
  end.

Theorem compare_values_spec : forall op m n x y,
  abs m = Some x -> abs n = Some y -> follows_spec op x y = true ->
  compare_values D op m n = Val (VBool (xcmp op x y)).
Proof.
  intros op m n x y Hm Hn HF.
  destruct m as [bm|fm|sm|lm|zm| ]; cbn in Hm; inversion Hm; subst x; clear Hm;
  destruct n as [bn|fn|sn|ln|zn| ]; cbn in Hn; inversion Hn; subst y; clear Hn;
    cbn in HF;
    try (apply compare_bool_any; cbn; auto; fail).
  - apply compare_num_num.
  - apply compare_num_str.
  - apply compare_num_nodes.
  - apply compare_str_num.
  - apply compare_str_str; assumption.
  - apply compare_str_nodes; assumption.
  - apply compare_nodes_num.
  - apply compare_nodes_str; assumption.
  - apply compare_nodes_nodes; assumption.
Qed.

(* ------------------------------------------------------------------ *)
(* 3i. no comparison of XPath values aborts, whatever the document *)
Definition xpath_typed (v : value) : Prop :=
  match v with VBool _ | VNum _ | VStr _ | VNodes _ => True | _ => False end.

Theorem compare_never_aborts : forall op m n,
  xpath_typed m -> xpath_typed n ->
  exists b, compare_values D op m n = Val (VBool b).
Proof.
  intros op m n Hm Hn.
  destruct m; cbn in Hm; try contradiction; destruct n; cbn in Hn; try contradiction;
    try (eexists; reflexivity);
    destruct op; cbn; try (eexists; reflexivity);
    try (destruct l; eexists; reflexivity).
Qed.

(* and conversely the two non-XPath dynamic types make it complain *)
Theorem compare_int_or_nil_complains : forall op m n,
  ~ xpath_typed m \/ ~ xpath_typed n ->
  compare_values D op m n = Complaint "xpath unknown value type".
Proof.
  intros op m n [H|H]; destruct m, n; cbn in H; try (exfalso; apply H; exact I); reflexivity.
Qed.

End WithDoc.


(* ================================================================== *)
(* 4. Examples and REFUTED combinations                                 *)

Definition D0 : tree :=
  T KRoot "" "" "" "" []
    [T KElem "" "a" "" "" [] [T KText "" "" "" "10" [] []];
     T KElem "" "b" "" "" [] [T KText "" "" "" "9" [] []];
     T KElem "" "c" "" "" [] [T KText "" "" "" "2" [] []];
     T KElem "" "d" "" "" [] [T KText "" "" "" "abc" [] []]].
Definition it0 (i : nat) : item := mkItem (mkNode [i] None) 1 0.

Example D0_values : values_of D0 [it0 0; it0 1; it0 2; it0 3] = ["10"; "9"; "2"; "abc"].
Proof. vm_compute. reflexivity. Qed.

(* the hypotheses of compare_values_spec are satisfiable; //a|//b|//c|//d > 9.5 *)
Example compare_values_spec_ex :
  let m := VNodes [it0 3; it0 1; it0 0] in let n := VNum (of_Z 9) in
  abs D0 m = Some (XSet ["abc"; "9"; "10"]) /\ abs D0 n = Some (XNum (of_Z 9)) /\
  follows_spec CGt (XSet ["abc"; "9"; "10"]) (XNum (of_Z 9)) = true /\
  compare_values D0 CGt m n = Val (VBool true) /\
  compare_values D0 CLt m n = Val (VBool false) /\
  compare_values D0 CGe n m = Val (VBool true).
Proof. vm_compute. repeat split; reflexivity. Qed.

(* a non-numeric string-value is NaN: only != holds *)
Example compare_nan_ex :
  map (fun op => compare_values D0 op (VNodes [it0 3]) (VNum (of_Z 1)))
      [CEq; CNe; CLt; CLe; CGt; CGe]
  = map (fun b => Val (VBool b)) [false; true; false; false; false; false].
Proof. vm_compute. reflexivity. Qed.

(* --- REFUTED: relational operators between strings / node-sets ---
   XPath 1.0: "<=, <, >=, > ... converting both objects to numbers".
   The model (as operator.go: cmpStringStringF) compares the STRINGS
   lexicographically;  '10' < '9'  is true in the model, false in XPath. *)
Example compare_str_str_rel_refuted :
  compare_values D0 CLt (VStr "10") (VStr "9") = Val (VBool true) /\
  xcompare string_to_number CLt (XStr "10") (XStr "9") = false.
Proof. vm_compute. split; reflexivity. Qed.

Example compare_str_nodes_rel_refuted :
  compare_values D0 CLt (VStr "10") (VNodes [it0 1]) = Val (VBool true) /\
  xcompare string_to_number CLt (XStr "10") (XSet (values_of D0 [it0 1])) = false.
Proof. vm_compute. split; reflexivity. Qed.

Example compare_nodes_nodes_rel_refuted :
  compare_values D0 CLt (VNodes [it0 0]) (VNodes [it0 1]) = Val (VBool true) /\
  xcompare string_to_number CLt (XSet (values_of D0 [it0 0])) (XSet (values_of D0 [it0 1])) = false.
Proof. vm_compute. split; reflexivity. Qed.

(* --- REFUTED: node-set on the LEFT of a string: the operands are SWAPPED
   (cmpNodeSetString calls cmpStringStringF(op, b, node.Value())), on top of
   being compared as strings:  //c < '3'  with string(//c) = '2'  is false in
   the model although 2 < 3 both numerically and lexicographically;
   //b > '2'  with string(//b) = '9'  likewise. *)
Example compare_nodes_str_rel_swapped_refuted :
  compare_values D0 CLt (VNodes [it0 2]) (VStr "3") = Val (VBool false) /\
  xcompare string_to_number CLt (XSet (values_of D0 [it0 2])) (XStr "3") = true /\
  cmp_str CLt "2" "3" = true /\
  compare_values D0 CGt (VNodes [it0 1]) (VStr "2") = Val (VBool false) /\
  xcompare string_to_number CGt (XSet (values_of D0 [it0 1])) (XStr "2") = true.
Proof. vm_compute. repeat split; reflexivity. Qed.

(* what the model computes instead in these four combinations *)
Theorem compare_nodes_str_model : forall D op l b,
  compare_values D op (VNodes l) (VStr b) =
  Val (VBool (existsb (fun x => cmp_str op b x) (values_of D l))).
Proof. reflexivity. Qed.

(* hence: outside [follows_spec], for every relational operator there are
   operands on which model and spec differ *)
Theorem follows_spec_is_exact : forall op, is_equality op = false ->
  (exists a b, compare_values D0 op (VStr a) (VStr b)
               <> Val (VBool (xcompare string_to_number op (XStr a) (XStr b)))) /\
  (exists a l, compare_values D0 op (VStr a) (VNodes l)
               <> Val (VBool (xcompare string_to_number op (XStr a) (XSet (values_of D0 l))))) /\
  (exists l b, compare_values D0 op (VNodes l) (VStr b)
               <> Val (VBool (xcompare string_to_number op (XSet (values_of D0 l)) (XStr b)))) /\
  (exists l1 l2, compare_values D0 op (VNodes l1) (VNodes l2)
               <> Val (VBool (xcompare string_to_number op (XSet (values_of D0 l1)) (XSet (values_of D0 l2))))).
Proof.
  intros op H. destruct op; try discriminate.
  - (* <  *) repeat split.
    + exists "10", "9". vm_compute. discriminate.
    + exists "10", [it0 1]. vm_compute. discriminate.
    + exists [it0 2], "3". vm_compute. discriminate.
    + exists [it0 0], [it0 1]. vm_compute. discriminate.
  - (* <= *) repeat split.
    + exists "10", "9". vm_compute. discriminate.
    + exists "10", [it0 1]. vm_compute. discriminate.
    + exists [it0 2], "3". vm_compute. discriminate.
    + exists [it0 0], [it0 1]. vm_compute. discriminate.
  - (* >  *) repeat split.
    + exists "9", "10". vm_compute. discriminate.
    + exists "9", [it0 0]. vm_compute. discriminate.
    + exists [it0 1], "2". vm_compute. discriminate.
    + exists [it0 1], [it0 0]. vm_compute. discriminate.
  - (* >= *) repeat split.
    + exists "9", "10". vm_compute. discriminate.
    + exists "9", [it0 0]. vm_compute. discriminate.
    + exists [it0 1], "2". vm_compute. discriminate.
    + exists [it0 1], [it0 0]. vm_compute. discriminate.
Qed.

(* ================================================================== *)
(* 5. string_to_number                                                  *)

Lemma string_to_number_empty : string_to_number "" = fnan.
Proof. reflexivity. Qed.

(* the only characters a numeric string may contain *)
Definition numeric_char (c : ascii) : bool :=
  orb (orb (is_digit_ascii c) (Nat.eqb (byte_of c) 46))       (* 0-9  .  *)
      (orb (Nat.eqb (byte_of c) 45) (is_xml_space c)).          (* -  and  #x20 #x9 #xD #xA *)

Lemma In_trim_left_xml : forall c l,
  In c l -> is_xml_space c = false -> In c (trim_left_xml l).
Proof.
  intros c l. induction l as [|a r IH]; intros Hin Hc; [contradiction|].
  cbn [trim_left_xml]. destruct (is_xml_space a) eqn:Ea.
  - destruct Hin as [->|Hin]; [congruence|]. apply IH; assumption.
  - exact Hin.
Qed.

Lemma In_trim_xml : forall c l,
  In c l -> is_xml_space c = false -> In c (trim_xml l).
Proof.
  intros c l Hin Hc. unfold trim_xml. apply -> in_rev.
  apply In_trim_left_xml; [|assumption]. apply -> in_rev.
  apply In_trim_left_xml; assumption.
Qed.

Lemma split_number_bad : forall l sd ip fp,
  (exists c, In c l /\ is_digit_ascii c = false /\ Nat.eqb (byte_of c) 46 = false) ->
  split_number l sd ip fp = None.
Proof.
  induction l as [|a r IH]; intros sd ip fp [c [Hin [Hd Hdot]]]; [contradiction|].
  cbn [split_number].
  destruct (is_digit_ascii a) eqn:Ea.
  - destruct Hin as [->|Hin]; [congruence|].
    destruct sd; apply IH; exists c; auto.
  - destruct (andb (Nat.eqb (byte_of a) 46) (negb sd)) eqn:Eb; [|reflexivity].
    destruct Hin as [->|Hin].
    + rewrite Hdot in Eb. discriminate.
    + apply IH. exists c; auto.
Qed.

Lemma string_to_number_body : forall s,
  string_to_number s =
  let l := trim_xml (list_of_string s) in
  let nb := match l with
            | c :: r => if Nat.eqb (byte_of c) 45 then (true, r) else (false, l)
            | [] => (false, l)
            end in
  match split_number (snd nb) false [] [] with
  | Some (ip, fp) => match ip, fp with [], [] => fnan | _, _ => of_decimal (fst nb) ip fp end
  | None => fnan
  end.
Proof.
  intros s. unfold string_to_number. cbv zeta.
  destruct (trim_xml (list_of_string s)) as [|c r]; [reflexivity|].
  destruct (Nat.eqb (byte_of c) 45); reflexivity.
Qed.

(* NaN as soon as the string contains a character other than a digit, '.',
   '-' or XML white space *)
Theorem string_to_number_bad_char : forall s,
  (exists c, In c (list_of_string s) /\ numeric_char c = false) ->
  string_to_number s = fnan.
Proof.
  intros s [c [Hin Hc]]. unfold numeric_char in Hc.
  apply orb_false_iff in Hc. destruct Hc as [Hc1 Hc2].
  apply orb_false_iff in Hc1. destruct Hc1 as [Hd Hdot].
  apply orb_false_iff in Hc2. destruct Hc2 as [Hminus Hsp].
  rewrite string_to_number_body. cbv zeta.
  pose proof (In_trim_xml c _ Hin Hsp) as Hl.
  destruct (trim_xml (list_of_string s)) as [|c0 r]; [contradiction|].
  destruct (Nat.eqb (byte_of c0) 45) eqn:E0; cbn [snd fst].
  - destruct Hl as [->|Hl]; [congruence|].
    rewrite split_number_bad; [reflexivity|]. exists c; auto.
  - rewrite split_number_bad; [reflexivity|]. exists c; auto.
Qed.

(* a '-' anywhere but in front (after trimming) gives NaN: "1-2", "--1", "- 1" *)
Theorem string_to_number_inner_minus : forall s c r,
  trim_xml (list_of_string s) = c :: r ->
  (exists d, In d r /\ (Nat.eqb (byte_of d) 45 = true \/ is_xml_space d = true)) ->
  string_to_number s = fnan.
Proof.
  intros s c r Ht [d [Hin Hd]].
  assert (Hbad : is_digit_ascii d = false /\ Nat.eqb (byte_of d) 46 = false).
  { unfold is_digit_ascii, is_xml_space in *.
    destruct Hd as [Hd|Hd].
    - apply Nat.eqb_eq in Hd. rewrite Hd. split; reflexivity.
    - apply orb_true_iff in Hd. destruct Hd as [Hd|Hd];
        apply orb_true_iff in Hd; destruct Hd as [Hd|Hd];
        apply Nat.eqb_eq in Hd; rewrite Hd; split; reflexivity. }
  destruct Hbad as [Hb1 Hb2].
  rewrite string_to_number_body. cbv zeta. rewrite Ht.
  destruct (Nat.eqb (byte_of c) 45); cbn [snd fst];
    (rewrite split_number_bad; [reflexivity|]); exists d; auto using in_cons.
Qed.

(* only white space: NaN *)
Lemma trim_left_xml_all_space : forall l,
  Forall (fun c => is_xml_space c = true) l -> trim_left_xml l = [].
Proof.
  induction 1 as [|a r Ha _ IH]; [reflexivity|]. cbn [trim_left_xml]. rewrite Ha. exact IH.
Qed.

Theorem string_to_number_blank : forall s,
  Forall (fun c => is_xml_space c = true) (list_of_string s) -> string_to_number s = fnan.
Proof.
  intros s H. rewrite string_to_number_body. cbv zeta.
  unfold trim_xml. rewrite (trim_left_xml_all_space _ H). reflexivity.
Qed.

(* letters, in particular: no exponent, no hexadecimal, no "Infinity", "NaN" *)
Definition is_alpha (c : ascii) : bool :=
  let n := byte_of c in
  orb (andb (Nat.leb 65 n) (Nat.leb n 90)) (andb (Nat.leb 97 n) (Nat.leb n 122)).

Lemma is_alpha_not_numeric : forall c, is_alpha c = true -> numeric_char c = false.
Proof.
  intros c H. unfold is_alpha, numeric_char, is_digit_ascii, is_xml_space in *.
  set (n := byte_of c) in *. clearbody n.
  apply orb_true_iff in H.
  repeat rewrite orb_false_iff. rewrite andb_false_iff.
  repeat rewrite Nat.eqb_neq. repeat rewrite Nat.leb_gt.
  destruct H as [H|H]; apply andb_true_iff in H; destruct H as [H1 H2];
    apply Nat.leb_le in H1; apply Nat.leb_le in H2; repeat split; try lia; right; lia.
Qed.

Corollary string_to_number_alpha : forall s,
  (exists c, In c (list_of_string s) /\ is_alpha c = true) -> string_to_number s = fnan.
Proof.
  intros s [c [Hin Hc]]. apply string_to_number_bad_char.
  exists c. split; [assumption|]. apply is_alpha_not_numeric; assumption.
Qed.

Example string_to_number_nan_ex :
  map string_to_number ["1e3"; "+1"; "1 2"; "1.2.3"; "--1"; "."; "-"; "0x10"; "Infinity"; "NaN"; "- 5"; " "]
  = repeat fnan 12.
Proof. vm_compute. reflexivity. Qed.

(* ... and it does convert decimal numerals, with surrounding white space *)
Example string_to_number_ok_ex :
  bits_of (string_to_number "  12.5 ") = 4623226492472524800%Z (* 0x4029000000000000 *) /\
  bits_of (string_to_number "-.5") = 13826050856027422720%Z     (* 0xBFE0000000000000 *) /\
  string_to_number "5." = of_Z 5 /\ string_to_number "-0" = S754_zero true.
Proof. vm_compute. repeat split; reflexivity. Qed.

Example string_to_number_bad_char_ex :
  exists c, In c (list_of_string "12a") /\ numeric_char c = false.
Proof. exists "a"%char. vm_compute. split; [right; right; left|]; reflexivity. Qed.

(* ================================================================== *)
(* 6. the operators inside [eval]: = != < ..., or / and, not(), boolean(),
      true(), false()                                                   *)

Section WithEval.
Variable D : tree.
Variable has_ns : bool.
Variable hcode : node -> N.
Variable re_match : string -> string -> option bool.
Variable re_numsubexp : string -> nat.
Variable re_replace_all : string -> string -> string -> string.

Notation ev := (eval D has_ns hcode re_match re_numsubexp re_replace_all).
Notation xcmp := (xcompare string_to_number).

(* unfolding equations *)
Lemma eval_QLogical_eq : forall op l r c,
  ev (QLogical op l r) c = do m <- ev l c; do n <- ev r c; compare_values D op m n.
Proof. reflexivity. Qed.

Lemma eval_QBoolean_eq : forall isor l r c,
  ev (QBoolean isor l r) c =
  do m <- ev l c; do a <- as_bool m;
  if isor then (if a then Val (VBool true) else do n <- ev r c; do b <- as_bool n; Val (VBool b))
  else (if a then do n <- ev r c; do b <- as_bool n; Val (VBool b) else Val (VBool false)).
Proof. reflexivity. Qed.

Lemma eval_FNot_eq : forall a c,
  ev (QFn1 FNot a) c =
  do v <- ev a c;
  Val (VBool (match v with
              | VBool b => negb b
              | VNodes l => match l with [] => true | _ => false end
              | _ => false end)).
Proof. reflexivity. Qed.

Lemma eval_FBoolean_eq : forall a c,
  ev (QFn1 FBoolean a) c = do v <- ev a c; do b <- as_bool v; Val (VBool b).
Proof. reflexivity. Qed.

Theorem eval_true : forall c, ev (QFn0 FTrue) c = Val (VBool true).
Proof. reflexivity. Qed.
Theorem eval_false : forall c, ev (QFn0 FFalse) c = Val (VBool false).
Proof. reflexivity. Qed.

(* a comparison expression whose operands evaluate *)
Theorem eval_logical_spec : forall op l r c m n x y,
  ev l c = Val m -> ev r c = Val n ->
  abs D m = Some x -> abs D n = Some y -> follows_spec op x y = true ->
  ev (QLogical op l r) c = Val (VBool (xcmp op x y)).
Proof.
  intros op l r c m n x y Hl Hr Hm Hn HF.
  rewrite eval_QLogical_eq, Hl, Hr. cbn [obind].
  apply compare_values_spec; assumption.
Qed.

Theorem eval_logical_never_aborts : forall op l r c m n,
  ev l c = Val m -> ev r c = Val n -> xpath_typed m -> xpath_typed n ->
  exists b, ev (QLogical op l r) c = Val (VBool b).
Proof.
  intros op l r c m n Hl Hr Hm Hn. rewrite eval_QLogical_eq, Hl, Hr. cbn [obind].
  apply compare_never_aborts; assumption.
Qed.

(* the model's truth value of anything but a Go int ([VNil], the value of
   the nop query, counts as false) *)
Definition truth (v : value) : bool :=
  match v with
  | VNil | VInt _ => false
  | VBool b => b
  | VNum f => negb (orb (is_zero f) (is_nan f))
  | VStr s => negb (String.eqb s "")
  | VNodes l => match l with [] => false | _ => true end
  end.

Definition not_int (v : value) : Prop := match v with VInt _ => False | _ => True end.

Lemma as_bool_truth : forall v, not_int v -> as_bool v = Val (truth v).
Proof. intros v H. destruct v; cbn in H; try contradiction; reflexivity. Qed.

Lemma truth_spec : forall v x, abs D v = Some x -> truth v = xboolean x.
Proof.
  intros v x H. destruct v; cbn in H; inversion H; subst; cbn; try reflexivity.
  unfold values_of. destruct l; reflexivity.
Qed.

(* --- or --- *)
(* left operand true: the result is true and the right operand is NOT
   evaluated: nothing at all is assumed about [r] *)
Theorem eval_or_left_true : forall l r c m,
  ev l c = Val m -> not_int m -> truth m = true ->
  ev (QBoolean true l r) c = Val (VBool true).
Proof.
  intros l r c m Hl Hm Ht. rewrite eval_QBoolean_eq, Hl. cbn [obind].
  rewrite (as_bool_truth m Hm). cbn [obind]. rewrite Ht. reflexivity.
Qed.

Theorem eval_or_left_false : forall l r c m n,
  ev l c = Val m -> not_int m -> truth m = false ->
  ev r c = Val n -> not_int n ->
  ev (QBoolean true l r) c = Val (VBool (truth n)).
Proof.
  intros l r c m n Hl Hm Ht Hr Hn. rewrite eval_QBoolean_eq, Hl. cbn [obind].
  rewrite (as_bool_truth m Hm). cbn [obind]. rewrite Ht, Hr. cbn [obind].
  rewrite (as_bool_truth n Hn). reflexivity.
Qed.

(* --- and --- *)
Theorem eval_and_left_false : forall l r c m,
  ev l c = Val m -> not_int m -> truth m = false ->
  ev (QBoolean false l r) c = Val (VBool false).
Proof.
  intros l r c m Hl Hm Ht. rewrite eval_QBoolean_eq, Hl. cbn [obind].
  rewrite (as_bool_truth m Hm). cbn [obind]. rewrite Ht. reflexivity.
Qed.

Theorem eval_and_left_true : forall l r c m n,
  ev l c = Val m -> not_int m -> truth m = true ->
  ev r c = Val n -> not_int n ->
  ev (QBoolean false l r) c = Val (VBool (truth n)).
Proof.
  intros l r c m n Hl Hm Ht Hr Hn. rewrite eval_QBoolean_eq, Hl. cbn [obind].
  rewrite (as_bool_truth m Hm). cbn [obind]. rewrite Ht, Hr. cbn [obind].
  rewrite (as_bool_truth n Hn). reflexivity.
Qed.

(* when the right operand IS needed, its failure is the failure of the whole *)
Theorem eval_bool_right_fails : forall isor l r c m,
  ev l c = Val m -> not_int m -> truth m = negb isor ->
  (forall v, ev r c <> Val v) ->
  ev (QBoolean isor l r) c = ev r c.
Proof.
  intros isor l r c m Hl Hm Ht Hr. rewrite eval_QBoolean_eq, Hl. cbn [obind].
  rewrite (as_bool_truth m Hm). cbn [obind]. rewrite Ht.
  destruct (ev r c) as [v|msg|k] eqn:E; [exfalso; apply (Hr v); reflexivity| |];
    destruct isor; reflexivity.
Qed.

(* a Go int (the result of round()) as an operand of or / and is a complaint *)
Theorem eval_bool_left_int : forall isor l r c z,
  ev l c = Val (VInt z) ->
  ev (QBoolean isor l r) c = Complaint "unexpected type: int".
Proof. intros isor l r c z Hl. rewrite eval_QBoolean_eq, Hl. reflexivity. Qed.

(* the four clauses together, against the specification's short-circuit
   operators.  [lift] reads the outcome of the right operand as a spec-level
   "error or XPath value". *)
Definition lift (o : outcome value) : outcome value + xval :=
  match o with
  | Val v => match abs D v with Some x => inr x | None => inl o end
  | _ => inl o
  end.

Theorem eval_or_spec : forall l r c m x,
  ev l c = Val m -> abs D m = Some x ->
  match xor_else x (fun _ => lift (ev r c)) with
  | inr b => ev (QBoolean true l r) c = Val (VBool b)
  | inl (Val _) => True                        (* right operand of a non-XPath type *)
  | inl e => ev (QBoolean true l r) c = e      (* its Complaint / Crash *)
  end.
Proof.
  intros l r c m x Hl Hx.
  assert (Hm : not_int m) by (destruct m; cbn in Hx; try discriminate; exact I).
  pose proof (truth_spec m x Hx) as Ht.
  unfold xor_else. destruct (xboolean x) eqn:Eb.
  - apply (eval_or_left_true l r c m Hl Hm). congruence.
  - unfold lift. destruct (ev r c) as [n|msg|k] eqn:Er.
    + destruct (abs D n) as [y|] eqn:Ey; [|exact I].
      rewrite <- (truth_spec n y Ey).
      apply (eval_or_left_false l r c m n Hl Hm); try congruence.
      destruct n; cbn in Ey; try discriminate; exact I.
    + rewrite <- Er. apply (eval_bool_right_fails true l r c m Hl Hm); [cbn; congruence|].
      intros v. rewrite Er. discriminate.
    + rewrite <- Er. apply (eval_bool_right_fails true l r c m Hl Hm); [cbn; congruence|].
      intros v. rewrite Er. discriminate.
Qed.

Theorem eval_and_spec : forall l r c m x,
  ev l c = Val m -> abs D m = Some x ->
  match xand_then x (fun _ => lift (ev r c)) with
  | inr b => ev (QBoolean false l r) c = Val (VBool b)
  | inl (Val _) => True
  | inl e => ev (QBoolean false l r) c = e
  end.
Proof.
  intros l r c m x Hl Hx.
  assert (Hm : not_int m) by (destruct m; cbn in Hx; try discriminate; exact I).
  pose proof (truth_spec m x Hx) as Ht.
  unfold xand_then. destruct (xboolean x) eqn:Eb.
  - unfold lift. destruct (ev r c) as [n|msg|k] eqn:Er.
    + destruct (abs D n) as [y|] eqn:Ey; [|exact I].
      rewrite <- (truth_spec n y Ey).
      apply (eval_and_left_true l r c m n Hl Hm); try congruence.
      destruct n; cbn in Ey; try discriminate; exact I.
    + rewrite <- Er. apply (eval_bool_right_fails false l r c m Hl Hm); [cbn; congruence|].
      intros v. rewrite Er. discriminate.
    + rewrite <- Er. apply (eval_bool_right_fails false l r c m Hl Hm); [cbn; congruence|].
      intros v. rewrite Er. discriminate.
  - apply (eval_and_left_false l r c m Hl Hm). congruence.
Qed.

(* --- boolean() --- *)
Theorem eval_boolean_spec : forall a c v x,
  ev a c = Val v -> abs D v = Some x ->
  ev (QFn1 FBoolean a) c = Val (VBool (xboolean x)).
Proof.
  intros a c v x Ha Hx. rewrite eval_FBoolean_eq, Ha. cbn [obind].
  rewrite (as_bool_spec D v x Hx). reflexivity.
Qed.

(* --- not() --- on a boolean or a node-set *)
Theorem eval_not_spec : forall a c v x,
  ev a c = Val v -> abs D v = Some x ->
  match x with XBool _ | XSet _ => True | _ => False end ->
  ev (QFn1 FNot a) c = Val (VBool (negb (xboolean x))).
Proof.
  intros a c v x Ha Hx Hty. rewrite eval_FNot_eq, Ha. cbn [obind].
  destruct v; cbn in Hx; inversion Hx; subst; cbn in Hty; try contradiction; cbn.
  - reflexivity.
  - unfold values_of. destruct l; reflexivity.
Qed.

(* not() on a number or a string is ALWAYS false in the model (notFunc's
   "default: return false"), whereas XPath says not(boolean(x)) *)
Theorem eval_not_scalar_model : forall a c v,
  ev a c = Val v -> match v with VNum _ | VStr _ => True | _ => False end ->
  ev (QFn1 FNot a) c = Val (VBool false).
Proof.
  intros a c v Ha Hv. rewrite eval_FNot_eq, Ha.
  destruct v; try contradiction; reflexivity.
Qed.

End WithEval.

(* REFUTED: not(0) and not('') are false in the model, true in XPath 1.0 *)
Example eval_not_number_refuted :
  forall hn hc rm rn rr c,
  eval D0 hn hc rm rn rr (QFn1 FNot (QNum fzero)) c = Val (VBool false) /\
  negb (xboolean (XNum fzero)) = true /\
  eval D0 hn hc rm rn rr (QFn1 FNot (QStr "")) c = Val (VBool false) /\
  negb (xboolean (XStr "")) = true.
Proof. intros. repeat split; reflexivity. Qed.

(* short-circuit, concretely:  true() or sum('x')  is true although
   sum('x') alone complains;  false() and sum('x')  is false *)
Example eval_or_short_circuit_ex :
  forall hn hc rm rn rr c,
  (exists msg, eval D0 hn hc rm rn rr (QFn1 FSum (QStr "x")) c = Complaint msg) /\
  eval D0 hn hc rm rn rr (QBoolean true (QFn0 FTrue) (QFn1 FSum (QStr "x"))) c = Val (VBool true) /\
  eval D0 hn hc rm rn rr (QBoolean false (QFn0 FFalse) (QFn1 FSum (QStr "x"))) c = Val (VBool false) /\
  (exists msg, eval D0 hn hc rm rn rr (QBoolean true (QFn0 FFalse) (QFn1 FSum (QStr "x"))) c = Complaint msg).
Proof. intros. repeat split; try (eexists; vm_compute; reflexivity); vm_compute; reflexivity. Qed.

(* ================================================================== *)
(* 7. the same facts through the whole pipeline (scanner, parser, builder,
      evaluator), context node = the document root of D0, whose children are
      <a>10</a> <b>9</b> <c>2</c> <d>abc</d> *)

Definition run (D : tree) (text : string) : cres (outcome value) :=
  match compile lit_ok text None with
  | Ok q => Ok (evaluate lit_match lit_numsubexp lit_replace_all hash_code D false q root_node)
  | Err m => Err m
  | OutOfFuel => OutOfFuel
  end.

Example e2e_agree :
  map (run D0) ["a = 10"; "a != 10"; "* > 9.5"; "9.5 < *"; "d = d"; "d < 1"; "d != 1"; "* = 'abc'";
                "'abc' = *"; "b != c"; "true() = a"; "false() = nosuch"; "(a > 1) = true()";
                "'1.0' = 1"; "'x' = 'x'"; "1 < 2 and 2 <= 2"; "0 or ''"; "boolean(d)"; "not(nosuch)"]
  = map (fun b => Ok (Val (VBool b)))
               [true; false; true; true; true; false; true; true;
                true; true; true; true; true;
                true; true; true; false; true; true].
Proof. vm_compute. reflexivity. Qed.

(* the refuted combinations, end to end:
   c < '3' is false although c < 3 is true (string(c) = '2');
   '10' < '9' is true;  a < b is true (10 < 9);  not(0) is false *)
Example e2e_refuted :
  map (run D0) ["c < 3"; "c < '3'"; "'10' < '9'"; "a < b"; "not(0)"; "not('')"]
  = map (fun b => Ok (Val (VBool b))) [true; false; true; true; false; false].
Proof. vm_compute. reflexivity. Qed.

Example e2e_short_circuit :
  run D0 "true() or sum('x')" = Ok (Val (VBool true)) /\
  run D0 "false() and sum('x')" = Ok (Val (VBool false)) /\
  run D0 "false() or sum('x')" = Ok (Complaint "sum() function argument type must be a node-set or number").
Proof. vm_compute. repeat split; reflexivity. Qed.

Print Assumptions cmp_num_spec.
Print Assumptions compare_values_spec.
Print Assumptions cmp_boolean_any_spec.
Print Assumptions compare_never_aborts.
Print Assumptions follows_spec_is_exact.
Print Assumptions string_to_number_bad_char.
Print Assumptions string_to_number_inner_minus.
Print Assumptions eval_logical_spec.
Print Assumptions eval_or_spec.
Print Assumptions eval_and_spec.
Print Assumptions eval_or_left_true.
Print Assumptions eval_boolean_spec.
Print Assumptions eval_not_spec.
