(* SubstringFloat.v — the float front-end of substring() (property C09).
   A. exact rounding: a value with a canonical representation is returned in
      that representation (binary_round_repr)
   B. integer-valued doubles |z| <= 2^53: go_int (of_Z z) = z, the float
      comparisons are the integer comparisons (SFcompare_of_Z, fgt_of_Z ...)
   C. exact addition fadd (of_Z a) (of_Z b) = of_Z (a + b)
   D. substring_pos only looks at the positions 1 .. length m
   E. substring_go on rounded arguments = positions A <= p < A + L
      (substring_go_spec_small, substring_go2_spec_small)
   F. xround x = of_Z (R x), R x = floor_Z (x + 0.5); xround (of_Z a) = of_Z a
   G. substring_go = substring_pos m (R start) (R start + R len) (conditional
      forms, integer arguments); FINDING xround_pred_half
   H. general bounds on binary_round_aux (no underflow to zero, no crossing
      of a power of two); x + 0.5 for |x| < 2^51
   I. substring_go_finite / substring_go2_finite: all canonical finite doubles
      of magnitude below 2^51, strings shorter than 2^52 bytes. *)
From Coq Require Import ZArith NArith Bool List String Ascii Lia.
From XP Require Import Base F64 Doc Ast Hash Eval.
From XP.Spec Require Import StrSpec.
From XP.Proofs Require Import Arith StrFuncs.
Import ListNotations.
Open Scope Z_scope.

(* ================================================================== *)
(** * A. exact rounding: a value that has a canonical representation is
      returned in that representation *)

Definition canon (m : positive) (e : Z) : Prop :=
  fexp prec emax (Zpos (digits2_pos m) + e) = e.

(* m1 * 2^e1 = m2 * 2^e2, without fractions *)
Definition same_val (m1 : positive) (e1 : Z) (m2 : positive) (e2 : Z) : Prop :=
  exists lo, lo <= e1 /\ lo <= e2 /\ Zpos m1 * 2 ^ (e1 - lo) = Zpos m2 * 2 ^ (e2 - lo).

Lemma pow2_pos k : 0 <= k -> 0 < 2 ^ k.
Proof. intros H. apply Z.pow_pos_nonneg; lia. Qed.

Lemma same_val_at m1 e1 m2 e2 lo :
  same_val m1 e1 m2 e2 -> lo <= e1 -> lo <= e2 ->
  Zpos m1 * 2 ^ (e1 - lo) = Zpos m2 * 2 ^ (e2 - lo).
Proof.
  intros (l0 & H1 & H2 & H) L1 L2.
  destruct (Z_le_gt_dec lo l0) as [Hle|Hgt].
  - replace (e1 - lo) with ((e1 - l0) + (l0 - lo)) by lia.
    replace (e2 - lo) with ((e2 - l0) + (l0 - lo)) by lia.
    rewrite !Z.pow_add_r, !Z.mul_assoc, H by lia. reflexivity.
  - replace (e1 - l0) with ((e1 - lo) + (lo - l0)) in H by lia.
    replace (e2 - l0) with ((e2 - lo) + (lo - l0)) in H by lia.
    rewrite !Z.pow_add_r, !Z.mul_assoc in H by lia.
    pose proof (pow2_pos (lo - l0) ltac:(lia)) as Hp.
    apply Z.mul_reg_r in H; [exact H|lia].
Qed.

Lemma same_val_sym m1 e1 m2 e2 : same_val m1 e1 m2 e2 -> same_val m2 e2 m1 e1.
Proof. intros (lo & H1 & H2 & H). exists lo. auto. Qed.

(* iterated right shift of m * 2^d *)
Lemma shr_shift_pos d : forall m,
  iter_pos shr_1 d (Build_shr_record (Zpos (shift_pos d m)) false false)
  = Build_shr_record (Zpos m) false false.
Proof.
  unfold shift_pos.
  induction d as [d IH|d IH|]; intros m; cbn [iter_pos Pos.iter].
  - cbn [shr_1 orb]. rewrite IH, IH. reflexivity.
  - rewrite IH, IH. reflexivity.
  - reflexivity.
Qed.

Lemma digits_shift_pos d m :
  Zpos (digits2_pos (shift_pos d m)) = Zpos (digits2_pos m) + Zpos d.
Proof. rewrite !digits2_log2, shift_pos_pow, Z.log2_mul_pow2 by lia. lia. Qed.

Lemma binary_round_aux_shr_exact s mz e' d :
  canon mz e' -> e' <= emax - prec ->
  binary_round_aux prec emax s (Zpos (shift_pos d mz)) (e' - Zpos d) loc_Exact
  = S754_finite s mz e'.
Proof.
  unfold canon. intros Hc He. unfold binary_round_aux.
  unfold shr_fexp at 1. unfold Zdigits2 at 1. rewrite digits_shift_pos.
  replace (Z.pos (digits2_pos mz) + Z.pos d + (e' - Z.pos d))
    with (Z.pos (digits2_pos mz) + e') by lia.
  rewrite Hc. replace (e' - (e' - Z.pos d)) with (Zpos d) by lia.
  unfold shr_record_of_loc, shr. rewrite shr_shift_pos.
  cbn [shr_m loc_of_shr_record round_nearest_even].
  replace (e' - Z.pos d + Z.pos d) with e' by lia.
  unfold shr_fexp, Zdigits2. rewrite Hc, Z.sub_diag.
  cbn [shr shr_record_of_loc shr_m].
  apply Z.leb_le in He. rewrite He. reflexivity.
Qed.

(* the general exactness theorem *)
Theorem binary_round_repr s p e mz e' :
  canon mz e' -> e' <= emax - prec -> same_val p e mz e' ->
  binary_round prec emax s p e = S754_finite s mz e'.
Proof.
  intros Hc He Hv.
  destruct (Z_le_gt_dec e' e) as [Hle|Hgt].
  - pose proof (same_val_at _ _ _ _ e' Hv Hle ltac:(lia)) as H.
    rewrite Z.sub_diag, Z.mul_1_r in H.
    apply binary_round_exact; try assumption; [|symmetry; exact H].
    unfold canon in Hc. rewrite <- Hc at 1. f_equal.
    rewrite !digits2_log2, <- H, Z.log2_mul_pow2 by lia. lia.
  - pose proof (same_val_at _ _ _ _ e Hv ltac:(lia) ltac:(lia)) as H.
    rewrite Z.sub_diag, Z.mul_1_r in H.
    destruct (e' - e) as [|d|d] eqn:Hd; try lia.
    assert (Hp : p = shift_pos d mz).
    { apply Pos2Z.inj. rewrite H, shift_pos_pow. reflexivity. }
    subst p. replace e with (e' - Zpos d) by lia.
    unfold binary_round. rewrite digits_shift_pos.
    replace (Z.pos (digits2_pos mz) + Z.pos d + (e' - Z.pos d))
      with (Z.pos (digits2_pos mz) + e') by lia.
    unfold canon in Hc. rewrite Hc. unfold shl_align.
    replace (e' - (e' - Z.pos d)) with (Zpos d) by lia.
    apply binary_round_aux_shr_exact; assumption.
Qed.
Print Assumptions binary_round_repr.

(* ================================================================== *)
(** * B. integer-valued doubles: representation, comparison, conversion *)

(* every integer of magnitude <= 2^53 is a double: mantissa and exponent *)
Lemma int_repr s p :
  Zpos p <= 2 ^ 53 ->
  exists mz, binary_round prec emax s p 0 = S754_finite s mz (Z.log2 (Zpos p) - 52)
             /\ canon mz (Z.log2 (Zpos p) - 52)
             /\ same_val p 0 mz (Z.log2 (Zpos p) - 52).
Proof.
  intros Hp. destruct (Z.eq_dec (Zpos p) (2 ^ 53)) as [E|NE].
  - assert (p = 9007199254740992%positive) by (apply Pos2Z.inj; rewrite E; reflexivity).
    subst p. exists 4503599627370496%positive. split; [|split].
    + destruct s; vm_compute; reflexivity.
    + vm_compute. reflexivity.
    + exists 0. vm_compute. repeat split; discriminate.
  - assert (Hlt : Zpos p < 2 ^ 53) by lia.
    destruct (binary_round_small_int s p Hlt) as (mz & Hr & Hmz).
    pose proof (Z.log2_nonneg (Zpos p)) as Hl0.
    assert (Hl : Z.log2 (Zpos p) < 53) by (apply Z.log2_lt_pow2; lia).
    exists mz. split; [exact Hr|split].
    + unfold canon. rewrite digits2_log2, Hmz, Z.log2_mul_pow2 by lia.
      replace (52 - Z.log2 (Zpos p) + Z.log2 (Zpos p) + 1 + (Z.log2 (Zpos p) - 52))
        with (Z.log2 (Zpos p) + 1) by lia.
      apply fexp_small; lia.
    + exists (Z.log2 (Zpos p) - 52). split; [lia|split; [lia|]].
      rewrite Z.sub_diag, Z.mul_1_r, Hmz. f_equal. f_equal. lia.
Qed.

Lemma floor_pos_int p mz e : same_val p 0 mz e -> floor_pos (Zpos mz) e = Zpos p.
Proof.
  intros Hv. unfold floor_pos.
  destruct (Z.leb_spec 0 e) as [He|He].
  - pose proof (same_val_at _ _ _ _ 0 Hv ltac:(lia) He) as H.
    rewrite !Z.sub_0_r, Z.mul_1_r in H. rewrite Z.shiftl_mul_pow2 by lia. symmetry. exact H.
  - pose proof (same_val_at _ _ _ _ e Hv ltac:(lia) ltac:(lia)) as H.
    rewrite Z.sub_diag, Z.mul_1_r, Z.sub_0_l in H.
    rewrite Z.shiftr_div_pow2, <- H by lia.
    apply Z.div_mul. pose proof (pow2_pos (- e) ltac:(lia)). lia.
Qed.

Lemma is_integral_int p mz e : same_val p 0 mz e -> is_integral mz e = true.
Proof.
  intros Hv. unfold is_integral.
  destruct (Z.leb_spec 0 e) as [He|He]; [reflexivity|].
  pose proof (floor_pos_int p mz e Hv) as Hf. unfold floor_pos in Hf.
  replace (0 <=? e) with false in Hf by (symmetry; apply Z.leb_gt; lia).
  rewrite Hf.
  pose proof (same_val_at _ _ _ _ e Hv ltac:(lia) ltac:(lia)) as H.
  rewrite Z.sub_diag, Z.mul_1_r, Z.sub_0_l in H.
  rewrite Z.shiftl_mul_pow2 by lia. apply Z.eqb_eq. exact H.
Qed.

(* of_Z on the three shapes of an integer *)
Lemma of_Z_0 : of_Z 0 = S754_zero false.
Proof. reflexivity. Qed.
Lemma of_Z_pos p : of_Z (Zpos p) = binary_round prec emax false p 0.
Proof. reflexivity. Qed.
Lemma of_Z_neg p : of_Z (Zneg p) = binary_round prec emax true p 0.
Proof. reflexivity. Qed.

(* (c) float -> int conversion is exact on integers *)
Theorem go_int_of_Z z : Z.abs z <= 2 ^ 53 -> go_int (of_Z z) = z.
Proof.
  intros Hz. destruct z as [|p|p]; [reflexivity| |].
  - rewrite of_Z_pos. destruct (int_repr false p ltac:(lia)) as (mz & -> & _ & Hv).
    unfold go_int, trunc_Z. rewrite (floor_pos_int p mz _ Hv).
    unfold min_int64.
    replace (- 2 ^ 63 <=? Zpos p) with true by (symmetry; apply Z.leb_le; lia).
    replace (Zpos p <? 2 ^ 63) with true by (symmetry; apply Z.ltb_lt; lia).
    reflexivity.
  - rewrite of_Z_neg. destruct (int_repr true p ltac:(lia)) as (mz & -> & _ & Hv).
    unfold go_int, trunc_Z. rewrite (floor_pos_int p mz _ Hv).
    unfold min_int64.
    replace (- 2 ^ 63 <=? - Zpos p) with true by (symmetry; apply Z.leb_le; lia).
    replace (- Zpos p <? 2 ^ 63) with true by (symmetry; apply Z.ltb_lt; lia).
    reflexivity.
Qed.
Print Assumptions go_int_of_Z.

(* comparison of the magnitudes through exponent and mantissa *)
Lemma cmp_mag pa pb ma mb :
  same_val pa 0 ma (Z.log2 (Zpos pa) - 52) -> same_val pb 0 mb (Z.log2 (Zpos pb) - 52) ->
  match Z.log2 (Zpos pa) - 52 ?= Z.log2 (Zpos pb) - 52 with
  | Lt => Lt | Gt => Gt | Eq => Pos.compare_cont Eq ma mb
  end = (Zpos pa ?= Zpos pb).
Proof.
  intros Ha Hb.
  destruct (Z.compare_spec (Z.log2 (Zpos pa) - 52) (Z.log2 (Zpos pb) - 52)) as [E|L|G].
  - set (l := Z.log2 (Zpos pa)) in *. assert (El : Z.log2 (Zpos pb) = l) by lia.
    rewrite El in Hb.
    set (lo := Z.min 0 (l - 52)).
    pose proof (same_val_at _ _ _ _ lo Ha ltac:(lia) ltac:(lia)) as H1.
    pose proof (same_val_at _ _ _ _ lo Hb ltac:(lia) ltac:(lia)) as H2.
    pose proof (pow2_pos (0 - lo) ltac:(lia)) as K1.
    pose proof (pow2_pos (l - 52 - lo) ltac:(lia)) as K2.
    change (Pos.compare_cont Eq ma mb) with (Zpos ma ?= Zpos mb).
    set (K := 2 ^ (0 - lo)) in *. set (K' := 2 ^ (l - 52 - lo)) in *.
    destruct (Z.compare_spec (Zpos ma) (Zpos mb)) as [E1|L1|G1];
      symmetry; [apply Z.compare_eq_iff|apply Z.compare_lt_iff|apply Z.compare_gt_iff]; nia.
  - symmetry. apply Z.compare_lt_iff. apply Z.log2_lt_cancel. lia.
  - symmetry. apply Z.compare_gt_iff. apply Z.log2_lt_cancel. lia.
Qed.

(* (b) the float comparison of integer-valued doubles is the integer comparison *)
Theorem SFcompare_of_Z a b :
  Z.abs a <= 2 ^ 53 -> Z.abs b <= 2 ^ 53 ->
  SFcompare (of_Z a) (of_Z b) = Some (a ?= b).
Proof.
  intros Ha Hb.
  destruct a as [|pa|pa]; destruct b as [|pb|pb];
    rewrite ?of_Z_0, ?of_Z_pos, ?of_Z_neg;
    try (destruct (int_repr false pa ltac:(lia)) as (ma & -> & _ & Hva));
    try (destruct (int_repr true pa ltac:(lia)) as (ma & -> & _ & Hva));
    try (destruct (int_repr false pb ltac:(lia)) as (mb & -> & _ & Hvb));
    try (destruct (int_repr true pb ltac:(lia)) as (mb & -> & _ & Hvb));
    try reflexivity.
  - cbn [SFcompare]. rewrite (cmp_mag pa pb ma mb Hva Hvb). reflexivity.
  - cbn [SFcompare].
    pose proof (cmp_mag pa pb ma mb Hva Hvb) as H.
    change (Zneg pa ?= Zneg pb) with (CompOpp (Zpos pa ?= Zpos pb)). rewrite <- H.
    destruct (Z.log2 (Zpos pa) - 52 ?= Z.log2 (Zpos pb) - 52); reflexivity.
Qed.
Print Assumptions SFcompare_of_Z.

Section CmpInt.
Variables a b : Z.
Hypothesis Ha : Z.abs a <= 2 ^ 53.
Hypothesis Hb : Z.abs b <= 2 ^ 53.

Lemma flt_of_Z : flt (of_Z a) (of_Z b) = (a <? b).
Proof. unfold flt, SFltb, Z.ltb. rewrite SFcompare_of_Z by assumption. reflexivity. Qed.
Lemma fgt_of_Z : fgt (of_Z a) (of_Z b) = (b <? a).
Proof. unfold fgt, SFltb, Z.ltb. rewrite SFcompare_of_Z by assumption. reflexivity. Qed.
Lemma fle_of_Z : fle (of_Z a) (of_Z b) = (a <=? b).
Proof. unfold fle, SFleb, Z.leb. rewrite SFcompare_of_Z by assumption. destruct (a ?= b); reflexivity. Qed.
Lemma fge_of_Z : fge (of_Z a) (of_Z b) = (b <=? a).
Proof. unfold fge, SFleb, Z.leb. rewrite SFcompare_of_Z by assumption. destruct (b ?= a); reflexivity. Qed.
Lemma feq_of_Z : feq (of_Z a) (of_Z b) = (a =? b).
Proof.
  unfold feq, SFeqb. rewrite SFcompare_of_Z by assumption.
  destruct (Z.eqb_spec a b) as [->|NE]; [rewrite Z.compare_refl; reflexivity|].
  destruct (a ?= b) eqn:E; try reflexivity. apply Z.compare_eq in E. contradiction.
Qed.
End CmpInt.

(* ================================================================== *)
(** * C. exact integer addition *)

Lemma log2_le_53 p : Zpos p <= 2 ^ 53 -> Z.log2 (Zpos p) <= 53.
Proof. intros H. apply Z.log2_le_mono in H. rewrite Z.log2_pow2 in H; lia. Qed.

Lemma same_val_scale pc e mz e' ps k :
  same_val pc e mz e' -> 0 <= k -> Zpos ps = Zpos pc * 2 ^ k -> same_val ps (e - k) mz e'.
Proof.
  intros Hv Hk Hps. set (lo := Z.min (e - k) e').
  exists lo. split; [lia|split; [lia|]].
  rewrite Hps, <- Z.mul_assoc, <- Z.pow_add_r by lia.
  replace (k + (e - k - lo)) with (e - lo) by lia.
  apply same_val_at; [exact Hv|lia|lia].
Qed.

(* an integer given with trailing zero bits is normalised to the same double *)
Lemma binary_round_scaled s pc k ps :
  Zpos pc <= 2 ^ 53 -> 0 <= k -> Zpos ps = Zpos pc * 2 ^ k ->
  binary_round prec emax s ps (- k) = binary_round prec emax s pc 0.
Proof.
  intros Hpc Hk Hps.
  destruct (int_repr s pc Hpc) as (mz & -> & Hc & Hv).
  pose proof (log2_le_53 pc Hpc) as Hl.
  apply binary_round_repr; [exact Hc|unfold emax, prec; lia|].
  replace (- k) with (0 - k) by lia. eapply same_val_scale; eassumption.
Qed.

Lemma binary_normalize_scaled c k :
  Z.abs c <= 2 ^ 53 -> 0 <= k ->
  binary_normalize prec emax (c * 2 ^ k) (- k) false = of_Z c.
Proof.
  intros Hc Hk. pose proof (pow2_pos k Hk) as H2.
  destruct c as [|pc|pc].
  - reflexivity.
  - assert (Hpos : 0 < Zpos pc * 2 ^ k) by lia.
    destruct (Zpos pc * 2 ^ k) as [|ps|ps] eqn:E; try lia.
    cbn [binary_normalize]. rewrite of_Z_pos. apply binary_round_scaled; [lia|lia|symmetry; exact E].
  - assert (Hneg : Zneg pc * 2 ^ k < 0) by lia.
    destruct (Zneg pc * 2 ^ k) as [|ps|ps] eqn:E; try lia.
    cbn [binary_normalize]. rewrite of_Z_neg. apply binary_round_scaled; [lia|lia|lia].
Qed.

(* non-zero integers below 2^53 in magnitude: sign, mantissa, exponent <= 0 *)
Lemma of_Z_small_repr z :
  z <> 0 -> Z.abs z < 2 ^ 53 ->
  exists s m e, of_Z z = S754_finite s m e /\ -52 <= e <= 0 /\
                cond_Zopp s (Zpos m) = z * 2 ^ (- e).
Proof.
  intros Hz Hlt.
  assert (H : forall s p, Zpos p < 2 ^ 53 ->
     exists m e, binary_round prec emax s p 0 = S754_finite s m e /\ -52 <= e <= 0 /\
                 Zpos m = Zpos p * 2 ^ (- e)).
  { intros s p Hp. destruct (binary_round_small_int s p Hp) as (mz & -> & Hmz).
    pose proof (Z.log2_nonneg (Zpos p)) as Hl0.
    assert (Hl : Z.log2 (Zpos p) < 53) by (apply Z.log2_lt_pow2; lia).
    exists mz, (Z.log2 (Zpos p) - 52). split; [reflexivity|split; [lia|]].
    rewrite Hmz. f_equal. f_equal. lia. }
  destruct z as [|p|p]; [contradiction| |].
  - destruct (H false p ltac:(lia)) as (m & e & Hr & He & Hm).
    exists false, m, e. rewrite of_Z_pos. split; [exact Hr|split; [exact He|exact Hm]].
  - destruct (H true p ltac:(lia)) as (m & e & Hr & He & Hm).
    exists true, m, e. rewrite of_Z_neg. split; [exact Hr|split; [exact He|]].
    cbn [cond_Zopp]. rewrite Hm. lia.
Qed.

Lemma shl_align_fst m e ez :
  ez <= e -> Zpos (fst (shl_align m e ez)) = Zpos m * 2 ^ (e - ez).
Proof.
  intros H. unfold shl_align. destruct (ez - e) as [|d|d] eqn:Hd; try lia; cbn [fst].
  - replace (e - ez) with 0 by lia. lia.
  - rewrite shift_pos_pow. f_equal. f_equal. lia.
Qed.

Lemma cond_Zopp_mul s x k : cond_Zopp s (x * k) = cond_Zopp s x * k.
Proof. destruct s; cbn [cond_Zopp]; lia. Qed.

(* (d) *)
Theorem fadd_of_Z a b :
  Z.abs a < 2 ^ 53 -> Z.abs b < 2 ^ 53 -> Z.abs (a + b) <= 2 ^ 53 ->
  fadd (of_Z a) (of_Z b) = of_Z (a + b).
Proof.
  intros Ha Hb Hab.
  destruct (Z.eq_dec a 0) as [->|Ha0].
  - rewrite Z.add_0_l, of_Z_0.
    destruct (Z.eq_dec b 0) as [->|Hb0]; [reflexivity|].
    destruct (of_Z_small_repr b Hb0 Hb) as (sb & mb & eb & -> & _). reflexivity.
  - destruct (of_Z_small_repr a Ha0 Ha) as (sa & ma & ea & Ea & Hea & Hma).
    destruct (Z.eq_dec b 0) as [->|Hb0].
    + rewrite Z.add_0_r, of_Z_0, Ea. reflexivity.
    + destruct (of_Z_small_repr b Hb0 Hb) as (sb & mb & eb & Eb & Heb & Hmb).
      rewrite Ea, Eb. unfold fadd, SFadd. cbv zeta.
      set (ez := Z.min ea eb).
      rewrite !shl_align_fst by (unfold ez; lia).
      rewrite !cond_Zopp_mul, Hma, Hmb.
      rewrite <- !Z.mul_assoc, <- !Z.pow_add_r by (unfold ez; lia).
      replace (- ea + (ea - ez)) with (- ez) by lia.
      replace (- eb + (eb - ez)) with (- ez) by lia.
      rewrite <- Z.mul_add_distr_r.
      replace ez with (- (- ez)) at 2 by lia.
      apply binary_normalize_scaled; [exact Hab|unfold ez; lia].
Qed.
Print Assumptions fadd_of_Z.

Example fadd_of_Z_ex :
  fadd (of_Z (2 ^ 52)) (of_Z (2 ^ 52)) = of_Z (2 ^ 53) /\ fadd (of_Z 3) (of_Z 3) = of_Z 6 /\
  fadd (of_Z (-7)) (of_Z 7) = of_Z 0 /\ go_int (of_Z (- 2 ^ 53)) = - 2 ^ 53 /\
  fgt (of_Z (2 ^ 53)) (of_Z (2 ^ 53 - 1)) = true.
Proof. vm_compute. repeat split; reflexivity. Qed.

Lemma of_Z_finite z : Z.abs z <= 2 ^ 53 -> is_finite (of_Z z) = true.
Proof.
  intros Hz. destruct z as [|p|p]; [reflexivity| |].
  - rewrite of_Z_pos. destruct (int_repr false p ltac:(lia)) as (mz & -> & _). reflexivity.
  - rewrite of_Z_neg. destruct (int_repr true p ltac:(lia)) as (mz & -> & _). reflexivity.
Qed.

Lemma of_Z_not_nan z : Z.abs z <= 2 ^ 53 -> is_nan (of_Z z) = false.
Proof. intros Hz. pose proof (of_Z_finite z Hz) as H. destruct (of_Z z); try discriminate; reflexivity. Qed.

(* ================================================================== *)
(** * D. positions: [substring_pos] only looks at the positions 1 .. length m *)

Local Notation slen m := (Z.of_nat (String.length m)).

Lemma filter_pos_ext (k1 k2 : Z -> bool) (s : string) : forall i,
  (forall p, i <= p < i + slen s -> k1 p = k2 p) ->
  filter_pos k1 i s = filter_pos k2 i s.
Proof.
  induction s as [|c s IH]; intros i H; cbn [filter_pos]; [reflexivity|].
  cbn [String.length] in H. rewrite Nat2Z.inj_succ in H.
  rewrite (H i) by lia. rewrite (IH (i + 1)) by (intros p Hp; apply H; lia). reflexivity.
Qed.

Lemma filter_pos_all (s : string) : forall i, filter_pos (fun _ => true) i s = s.
Proof. induction s as [|c s IH]; intros i; cbn [filter_pos]; [reflexivity|rewrite IH; reflexivity]. Qed.

Lemma in_range_clamp n a e p :
  1 <= p < 1 + n ->
  (a <=? p) && (p <? e) = (Z.max 1 a <=? p) && (p <? Z.min (n + 1) e).
Proof.
  intros Hp.
  destruct (Z.leb_spec a p), (Z.ltb_spec p e), (Z.leb_spec (Z.max 1 a) p),
    (Z.ltb_spec p (Z.min (n + 1) e)); cbn; try reflexivity; lia.
Qed.

Lemma substring_pos_clamp (m : string) (a e : Z) :
  substring_pos m a e = substring_pos m (Z.max 1 a) (Z.min (slen m + 1) e).
Proof. unfold substring_pos. apply filter_pos_ext. intros p Hp. apply in_range_clamp. exact Hp. Qed.

Lemma substring_pos_empty (m : string) (a e : Z) : e <= a -> substring_pos m a e = ""%string.
Proof.
  intros H. unfold substring_pos. apply filter_pos_none. intros p _.
  destruct (Z.leb_spec a p), (Z.ltb_spec p e); cbn; try reflexivity; lia.
Qed.

Lemma substring_pos_all (m : string) (a e : Z) : a <= 1 -> slen m + 1 <= e -> substring_pos m a e = m.
Proof.
  intros Ha He. unfold substring_pos. rewrite <- (filter_pos_all m 1) at 2.
  apply filter_pos_ext. intros p Hp.
  destruct (Z.leb_spec a p), (Z.ltb_spec p e); cbn; try reflexivity; lia.
Qed.

(* "the characters at the positions p >= a" *)
Lemma substring_pos_from (m : string) (a : Z) :
  substring_pos m a (slen m + 1) = filter_pos (fun p => a <=? p) 1 m.
Proof.
  unfold substring_pos. apply filter_pos_ext. intros p Hp.
  destruct (Z.leb_spec a p), (Z.ltb_spec p (slen m + 1)); cbn; try reflexivity; lia.
Qed.

(* ================================================================== *)
(** * E. substring on already rounded arguments *)

(* [substring_go] with the two [xround] calls factored out *)
Definition substring_go_rounded (m : string) (start length : f64) : string :=
  let n := slen m in
  let e := fadd start length in
  let start := if fgt start fone then start else fone in
  let e := if fgt e (of_Z (n + 1)) then of_Z (n + 1) else e in
  if fgt e start then
    let a := Z.to_nat (go_int start - 1) in
    let b := Z.to_nat (go_int e - 1) in
    firstn_s (b - a) (skipn_s a m)
  else ""%string.

Definition substring_go_rounded2 (m : string) (start : f64) : string :=
  let n := slen m in
  if orb (is_nan start) (fgt start (of_Z n)) then ""%string
  else if flt start fone then m
  else skipn_s (Z.to_nat (go_int start - 1)) m.

Lemma substring_go_rounded_eq m start len :
  substring_go m start (Some len) = substring_go_rounded m (xround start) (xround len).
Proof. reflexivity. Qed.
Lemma substring_go_rounded2_eq m start :
  substring_go m start None = substring_go_rounded2 m (xround start).
Proof. reflexivity. Qed.

Lemma fone_of_Z : fone = of_Z 1.
Proof. reflexivity. Qed.

(* the heart of the property: integer start A and length L, the engine returns
   exactly the characters at the positions A <= p < A + L *)
Theorem substring_go_spec_small (m : string) (A L : Z) :
  Z.abs A <= 2 ^ 52 -> Z.abs L <= 2 ^ 52 -> slen m < 2 ^ 52 ->
  substring_go_rounded m (of_Z A) (of_Z L) = substring_pos m A (A + L).
Proof.
  intros HA HL Hn. unfold substring_go_rounded. cbv zeta.
  set (n := slen m) in *. assert (Hn0 : 0 <= n) by (unfold n; lia).
  rewrite fadd_of_Z by lia.
  rewrite fone_of_Z, (fgt_of_Z A 1) by lia.
  rewrite (fgt_of_Z (A + L) (n + 1)) by lia.
  replace (if 1 <? A then of_Z A else of_Z 1) with (of_Z (Z.max 1 A))
    by (destruct (Z.ltb_spec 1 A); f_equal; lia).
  replace (if n + 1 <? A + L then of_Z (n + 1) else of_Z (A + L)) with (of_Z (Z.min (n + 1) (A + L)))
    by (destruct (Z.ltb_spec (n + 1) (A + L)); f_equal; lia).
  rewrite fgt_of_Z, !go_int_of_Z by lia.
  rewrite slice_substring_pos.
  rewrite (substring_pos_clamp m A (A + L)). fold n.
  destruct (Z.ltb_spec (Z.max 1 A) (Z.min (n + 1) (A + L))) as [Hlt|Hge]; [reflexivity|].
  symmetry. apply substring_pos_empty. exact Hge.
Qed.
Print Assumptions substring_go_spec_small.

(* two-argument form: the positions p >= A *)
Theorem substring_go2_spec_small (m : string) (A : Z) :
  Z.abs A <= 2 ^ 53 -> slen m < 2 ^ 53 ->
  substring_go_rounded2 m (of_Z A) = substring_pos m A (slen m + 1).
Proof.
  intros HA Hn. unfold substring_go_rounded2. cbv zeta.
  set (n := slen m) in *. assert (Hn0 : 0 <= n) by (unfold n; lia).
  rewrite of_Z_not_nan by lia. cbn [orb].
  rewrite fone_of_Z, fgt_of_Z, flt_of_Z by lia.
  destruct (Z.ltb_spec n A) as [H1|H1].
  - symmetry. rewrite substring_pos_clamp. apply substring_pos_empty. fold n. lia.
  - destruct (Z.ltb_spec A 1) as [H2|H2].
    + symmetry. apply substring_pos_all; fold n; lia.
    + rewrite go_int_of_Z by lia.
      rewrite <- slice_substring_pos. fold n.
      symmetry. apply firstn_all_s. rewrite length_skipn_s. lia.
Qed.
Print Assumptions substring_go2_spec_small.

Example substring_go_spec_small_ex :
  substring_go_rounded "12345" (of_Z 2) (of_Z 3) = "234"%string /\
  substring_go_rounded "12345" (of_Z 0) (of_Z 3) = "12"%string /\
  substring_go_rounded "12345" (of_Z (-5)) (of_Z 100) = "12345"%string /\
  substring_go_rounded "12345" (of_Z 4) (of_Z (-1)) = ""%string /\
  substring_go_rounded2 "12345" (of_Z (-1)) = "12345"%string /\
  substring_go_rounded2 "12345" (of_Z 4) = "45"%string.
Proof. vm_compute. repeat split; reflexivity. Qed.

(* ================================================================== *)
(** * F. XPath rounding  xround x = floor (x + 0.5)  (in double arithmetic) *)

(* the integer that [xround] produces *)
Definition R (x : f64) : Z := floor_Z (fadd x fhalf).

Lemma floor_pos_nonneg m e : 0 <= floor_pos (Zpos m) e.
Proof.
  unfold floor_pos. destruct (0 <=? e).
  - apply Z.shiftl_nonneg. lia.
  - apply Z.shiftr_nonneg. lia.
Qed.

(* the floor of a negative double is never (minus) zero *)
Lemma floor_Z_neg m e : floor_Z (S754_finite true m e) <= -1.
Proof.
  unfold floor_Z. pose proof (floor_pos_nonneg m e) as H0.
  destruct (is_integral m e) eqn:Hi; [|lia].
  unfold is_integral, floor_pos in *. destruct (Z.leb_spec 0 e) as [He|He].
  - rewrite Z.shiftl_mul_pow2 by lia. pose proof (pow2_pos e He). nia.
  - apply Z.eqb_eq in Hi. rewrite Z.shiftl_mul_pow2 in Hi by lia.
    pose proof (pow2_pos (- e) ltac:(lia)). nia.
Qed.

Lemma of_Z_signed_of_Z z s : z <> 0 \/ s = false -> of_Z_signed z s = of_Z z.
Proof. intros [H| ->]; [|reflexivity]. destruct z; [contradiction|reflexivity..]. Qed.

(* (a) integrality: whenever x + 0.5 is finite, [xround x] is the integer-valued
   double [of_Z (R x)] *)
Theorem xround_integral x :
  is_finite (fadd x fhalf) = true -> fadd x fhalf <> S754_zero true ->
  xround x = of_Z (R x).
Proof.
  unfold xround, R. destruct (fadd x fhalf) as [s|s| |s m e]; cbn [is_finite]; intros Hf Hz;
    try discriminate.
  - destruct s; [contradiction|reflexivity].
  - unfold ffloor. apply of_Z_signed_of_Z.
    destruct s; [left|right; reflexivity].
    pose proof (floor_Z_neg m e). lia.
Qed.
Print Assumptions xround_integral.

(* [same_val] on shifted exponents *)
Lemma same_val_shift p e m e' d : same_val p e m e' -> same_val p (e + d) m (e' + d).
Proof.
  intros (lo & H1 & H2 & H). exists (lo + d). split; [lia|split; [lia|]].
  replace (e + d - (lo + d)) with (e - lo) by lia.
  replace (e' + d - (lo + d)) with (e' - lo) by lia. exact H.
Qed.

(* integers are fixed points of xround (|a| < 2^52: a + 0.5 is a double) *)
Theorem xround_of_Z a : Z.abs a < 2 ^ 52 -> xround (of_Z a) = of_Z a.
Proof.
  intros Ha.
  destruct (Z.eq_dec a 0) as [->|Ha0]; [reflexivity|].
  destruct (of_Z_small_repr a Ha0 ltac:(lia)) as (sa & ma & ea & Ea & Hea & Hma).
  set (c := 2 * a + 1).
  assert (Hc0 : c <> 0) by (unfold c; lia).
  assert (Hc : Z.abs c < 2 ^ 53) by (unfold c; lia).
  (* a + 0.5 = c / 2 *)
  assert (Hy : exists mc ec, fadd (of_Z a) fhalf = S754_finite (c <? 0) mc (ec - 1)
                 /\ -52 <= ec <= 0 /\ Zpos mc = Z.abs c * 2 ^ (- ec)).
  { rewrite Ea. change fhalf with (S754_finite false 4503599627370496 (-53)).
    unfold fadd, SFadd. cbv zeta.
    replace (Z.min ea (-53)) with (-53) by lia.
    rewrite !shl_align_fst by lia.
    rewrite cond_Zopp_mul, Hma. cbn [cond_Zopp].
    rewrite <- Z.mul_assoc, <- Z.pow_add_r by lia.
    replace (- ea + (ea - -53)) with 53 by lia.
    replace (-53 - -53) with 0 by lia.
    replace (a * 2 ^ 53 + 4503599627370496 * 2 ^ 0) with (c * 2 ^ 52) by (unfold c; lia).
    assert (Hrep : forall s p, Zpos p < 2 ^ 53 -> forall ps, Zpos ps = Zpos p * 2 ^ 52 ->
              exists mc ec, binary_round prec emax s ps (-53) = S754_finite s mc (ec - 1)
                            /\ -52 <= ec <= 0 /\ Zpos mc = Zpos p * 2 ^ (- ec)).
    { intros s p Hp ps Hps.
      destruct (int_repr s p ltac:(lia)) as (mz & _ & Hcz & Hvz).
      pose proof (Z.log2_nonneg (Zpos p)) as Hl0.
      assert (Hl : Z.log2 (Zpos p) < 53) by (apply Z.log2_lt_pow2; lia).
      set (ec := Z.log2 (Zpos p) - 52) in *.
      exists mz, ec. split; [|split; [lia|]].
      - apply binary_round_repr.
        + unfold canon in *. unfold fexp, emin, prec, emax in *. lia.
        + unfold emax, prec. lia.
        + replace (-53) with (0 + -1 - 52) by lia.
          eapply same_val_scale; [|lia|exact Hps].
          apply same_val_shift. exact Hvz.
      - pose proof (same_val_at _ _ _ _ ec Hvz ltac:(lia) ltac:(lia)) as H.
        rewrite Z.sub_diag, Z.mul_1_r, Z.sub_0_l in H. symmetry. exact H. }
    destruct c as [|pc|pc] eqn:Ec; [contradiction| |].
    - assert (Hpos : 0 < Zpos pc * 2 ^ 52) by lia.
      destruct (Zpos pc * 2 ^ 52) as [|ps|ps] eqn:Eps; try lia.
      cbn [binary_normalize]. apply (Hrep false pc ltac:(lia) ps). lia.
    - assert (Hneg : Zneg pc * 2 ^ 52 < 0) by lia.
      destruct (Zneg pc * 2 ^ 52) as [|ps|ps] eqn:Eps; try lia.
      cbn [binary_normalize]. apply (Hrep true pc ltac:(lia) ps). lia. }
  destruct Hy as (mc & ec & Ey & Hec & Hmc).
  unfold xround. rewrite Ey. unfold ffloor.
  assert (Hfl : floor_Z (S754_finite (c <? 0) mc (ec - 1)) = a).
  { unfold floor_Z, floor_pos, is_integral.
    replace (0 <=? ec - 1) with false by (symmetry; apply Z.leb_gt; lia).
    rewrite Z.shiftr_div_pow2, Z.shiftl_mul_pow2 by lia.
    replace (- (ec - 1)) with (1 + - ec) by lia. rewrite Z.pow_add_r by lia.
    pose proof (pow2_pos (- ec) ltac:(lia)) as HK. set (K := 2 ^ (- ec)) in *.
    rewrite Hmc. change (2 ^ 1) with 2.
    rewrite Z.div_mul_cancel_r by lia.
    assert (Hodd : Z.abs c = 2 * (Z.abs c / 2) + 1).
    { pose proof (Z.div_mod (Z.abs c) 2 ltac:(lia)) as Hd.
      assert (Z.abs c mod 2 = 1); [|lia].
      unfold c. destruct (Z.abs_spec (2 * a + 1)) as [[_ ->]|[_ ->]].
      - rewrite Z.add_comm, Z.mul_comm, Z.mod_add by lia. reflexivity.
      - replace (- (2 * a + 1)) with (1 + (- a - 1) * 2) by lia.
        rewrite Z.mod_add by lia. reflexivity. }
    set (t := Z.abs c / 2) in *.
    replace (t * (2 * K) =? Z.abs c * K) with false by (symmetry; apply Z.eqb_neq; nia).
    destruct (Z.ltb_spec c 0) as [Hn|Hp]; unfold c in *; lia. }
  rewrite Hfl. apply of_Z_signed_of_Z. left. exact Ha0.
Qed.
Print Assumptions xround_of_Z.

(* ================================================================== *)
(** * G. substring(s, start, length) and substring(s, start) *)

(* the statement for already identified roundings *)
Theorem substring_go_spec (m : string) (start len : f64) (A L : Z) :
  xround start = of_Z A -> xround len = of_Z L ->
  Z.abs A <= 2 ^ 52 -> Z.abs L <= 2 ^ 52 -> slen m < 2 ^ 52 ->
  substring_go m start (Some len) = substring_pos m A (A + L).
Proof.
  intros HA HL BA BL Hn. rewrite substring_go_rounded_eq, HA, HL.
  apply substring_go_spec_small; assumption.
Qed.

Theorem substring_go2_spec (m : string) (start : f64) (A : Z) :
  xround start = of_Z A -> Z.abs A <= 2 ^ 53 -> slen m < 2 ^ 53 ->
  substring_go m start None = filter_pos (fun p => A <=? p) 1 m.
Proof.
  intros HA BA Hn. rewrite substring_go_rounded2_eq, HA, substring_go2_spec_small by assumption.
  apply substring_pos_from.
Qed.

(* a double whose rounding is well behaved: x + 0.5 is finite (and not -0) *)
Definition round_ok (x : f64) : Prop :=
  is_finite (fadd x fhalf) = true /\ fadd x fhalf <> S754_zero true.

(* the positions  R start <= p < R start + R len *)
Theorem substring_go_spec_R (m : string) (start len : f64) :
  round_ok start -> round_ok len ->
  Z.abs (R start) <= 2 ^ 52 -> Z.abs (R len) <= 2 ^ 52 -> slen m < 2 ^ 52 ->
  substring_go m start (Some len) = substring_pos m (R start) (R start + R len).
Proof.
  intros [F1 Z1] [F2 Z2] B1 B2 Hn.
  apply substring_go_spec; try assumption; apply xround_integral; assumption.
Qed.

Theorem substring_go2_spec_R (m : string) (start : f64) :
  round_ok start -> Z.abs (R start) <= 2 ^ 53 -> slen m < 2 ^ 53 ->
  substring_go m start None = filter_pos (fun p => R start <=? p) 1 m.
Proof.
  intros [F1 Z1] B1 Hn. apply substring_go2_spec; try assumption. apply xround_integral; assumption.
Qed.
Print Assumptions substring_go_spec_R.
Print Assumptions substring_go2_spec_R.

(* integer-valued arguments: no hypothesis on rounding is left *)
Theorem substring_go_int (m : string) (a l : Z) :
  Z.abs a < 2 ^ 52 -> Z.abs l < 2 ^ 52 -> slen m < 2 ^ 52 ->
  substring_go m (of_Z a) (Some (of_Z l)) = substring_pos m a (a + l).
Proof.
  intros Ha Hl Hn. apply substring_go_spec; try lia; apply xround_of_Z; assumption.
Qed.

Theorem substring_go2_int (m : string) (a : Z) :
  Z.abs a < 2 ^ 52 -> slen m < 2 ^ 53 ->
  substring_go m (of_Z a) None = filter_pos (fun p => a <=? p) 1 m.
Proof.
  intros Ha Hn. apply substring_go2_spec; try lia. apply xround_of_Z; assumption.
Qed.
Print Assumptions substring_go_int.
Print Assumptions substring_go2_int.

(* XPath 1.0 section 4.2: substring("12345", 1.5, 2.6) = "234" through the
   theorem: the hypotheses hold by computation, R 1.5 = 2, R 2.6 = 3 *)
Example substring_go_spec_R_ex :
  round_ok f_1_5 /\ round_ok f_2_6 /\ R f_1_5 = 2 /\ R f_2_6 = 3 /\
  substring_go "12345" f_1_5 (Some f_2_6) = substring_pos "12345" 2 5 /\
  substring_pos "12345" 2 5 = "234"%string.
Proof.
  assert (H1 : round_ok f_1_5) by (split; vm_compute; [reflexivity|discriminate]).
  assert (H2 : round_ok f_2_6) by (split; vm_compute; [reflexivity|discriminate]).
  repeat split; try (vm_compute; reflexivity); try (vm_compute; discriminate).
Qed.
Example substring_go_int_ex :
  substring_go "12345" (of_Z 0) (Some (of_Z 3)) = "12"%string /\
  substring_pos "12345" 0 (0 + 3) = "12"%string /\
  substring_go "12345" (of_Z 2) None = "2345"%string.
Proof. vm_compute. repeat split; reflexivity. Qed.
(* outside the finite fragment (start = -42, length = +Infinity): computed only *)
Example substring_go_inf_len_ex :
  substring_go "12345" (of_Z (-42)) (Some (S754_infinity false)) = "12345"%string.
Proof. vm_compute. reflexivity. Qed.

(* FINDING.  xround is floor(x + 0.5) in double arithmetic, which is not XPath's
   round() at x = 0.49999999999999994 (the predecessor of 0.5): x + 0.5 rounds
   up to 1.0.  round(x) = 0 selects the positions 0 <= p < 1, i.e. nothing;
   the engine returns "1". *)
Definition f_pred_half : f64 := S754_finite false 9007199254740991 (-54).
Example xround_pred_half :
  valid_binary prec emax f_pred_half = true /\
  xpath_number_string f_pred_half = "0.49999999999999994"%string /\
  flt f_pred_half fhalf = true /\ R f_pred_half = 1 /\ xround f_pred_half = of_Z 1 /\
  substring_go "12345" f_pred_half (Some (of_Z 1)) = "1"%string /\
  substring_pos "12345" 0 (0 + 1) = ""%string.
Proof. vm_compute. repeat split; reflexivity. Qed.

(* ================================================================== *)
(** * H. rounding in general: bounds *)

Definition shr_ok (n : Z) (a b : shr_record) : Prop :=
  shr_m b = shr_m a / 2 ^ n /\
  (shr_m a mod 2 ^ n = 0 -> shr_r a = false -> shr_s a = false ->
   shr_r b = false /\ shr_s b = false).

Lemma shr_1_ok a : 0 <= shr_m a -> shr_ok 1 a (shr_1 a).
Proof.
  destruct a as [m r s]. cbn [shr_m]. intros Hm. unfold shr_ok. cbn [shr_m shr_r shr_s].
  assert (H1 : shr_m (shr_1 (Build_shr_record m r s)) = Z.div2 m).
  { destruct m as [|[p|p|]|p]; try reflexivity; lia. }
  assert (H2 : shr_r (shr_1 (Build_shr_record m r s)) = Z.odd m).
  { destruct m as [|[p|p|]|p]; try reflexivity; lia. }
  assert (H3 : shr_s (shr_1 (Build_shr_record m r s)) = orb r s).
  { destruct m as [|[p|p|]|p]; try reflexivity; lia. }
  rewrite H1, H2, H3. split.
  - rewrite Z.div2_div. reflexivity.
  - change (2 ^ 1) with 2. rewrite Zmod_odd. intros Hmod -> ->.
    destruct (Z.odd m); [discriminate|split; reflexivity].
Qed.

Lemma shr_ok_nonneg n a b : 0 <= n -> 0 <= shr_m a -> shr_ok n a b -> 0 <= shr_m b.
Proof. intros Hn Ha [-> _]. apply Z.div_pos; [exact Ha|apply pow2_pos; exact Hn]. Qed.

Lemma shr_ok_trans n1 n2 a b c :
  0 <= n1 -> 0 <= n2 -> shr_ok n1 a b -> shr_ok n2 b c -> shr_ok (n1 + n2) a c.
Proof.
  intros H1 H2 [Eb Xb] [Ec Xc].
  pose proof (pow2_pos n1 H1) as P1. pose proof (pow2_pos n2 H2) as P2.
  split.
  - rewrite Ec, Eb, Z.pow_add_r, Z.div_div by lia. reflexivity.
  - intros Hmod Hr Hs. rewrite Z.pow_add_r in Hmod by lia.
    pose proof (Z.mul_pos_pos _ _ P1 P2) as P12.
    apply Z.mod_divide in Hmod. 2: lia. destruct Hmod as [q Hq].
    assert (Ha1 : shr_m a mod 2 ^ n1 = 0).
    { rewrite Hq. replace (q * (2 ^ n1 * 2 ^ n2)) with (q * 2 ^ n2 * 2 ^ n1) by ring.
      apply Z.mod_mul. lia. }
    destruct (Xb Ha1 Hr Hs) as [Rb Sb].
    apply Xc; try assumption.
    rewrite Eb, Hq. replace (q * (2 ^ n1 * 2 ^ n2)) with (q * 2 ^ n2 * 2 ^ n1) by ring.
    rewrite Z.div_mul by lia. apply Z.mod_mul. lia.
Qed.

Lemma iter_shr_ok n : forall a, 0 <= shr_m a -> shr_ok (Zpos n) a (iter_pos shr_1 n a).
Proof.
  induction n as [n IH|n IH|]; intros a Ha; cbn [iter_pos].
  - replace (Zpos n~1) with (1 + (Zpos n + Zpos n)) by lia.
    pose proof (shr_1_ok a Ha) as S1.
    pose proof (shr_ok_nonneg 1 _ _ ltac:(lia) Ha S1) as N1.
    pose proof (IH _ N1) as S2.
    pose proof (shr_ok_nonneg (Zpos n) _ _ ltac:(lia) N1 S2) as N2.
    pose proof (IH _ N2) as S3.
    eapply shr_ok_trans; [lia|lia|exact S1|].
    eapply shr_ok_trans; [lia|lia|exact S2|exact S3].
  - replace (Zpos n~0) with (Zpos n + Zpos n) by lia.
    pose proof (IH _ Ha) as S2.
    pose proof (shr_ok_nonneg (Zpos n) _ _ ltac:(lia) Ha S2) as N2.
    eapply shr_ok_trans; [lia|lia|exact S2|apply IH; exact N2].
  - apply shr_1_ok. exact Ha.
Qed.

Lemma fexp_eq x : fexp prec emax x = Z.max (x - 53) (-1074).
Proof. reflexivity. Qed.

Lemma pos_ge_pow_log2 m : 2 ^ Z.log2 (Zpos m) <= Zpos m.
Proof. apply Z.log2_spec. lia. Qed.

Lemma shr_m_of_loc m l : shr_m (shr_record_of_loc m l) = m.
Proof. destruct l as [|[]]; reflexivity. Qed.

(* the shift to the canonical exponent: a floor division that keeps at least one bit *)
Lemma shr_fexp_spec m e l :
  -1074 <= e ->
  exists n rec, 0 <= n /\ shr_fexp prec emax (Zpos m) e l = (rec, e + n) /\
    shr_m rec = Zpos m / 2 ^ n /\ 1 <= Zpos m / 2 ^ n /\
    (l = loc_Exact -> Zpos m mod 2 ^ n = 0 -> shr_r rec = false /\ shr_s rec = false).
Proof.
  intros He. unfold shr_fexp, Zdigits2. rewrite fexp_eq, digits2_log2.
  set (lg := Z.log2 (Zpos m)). pose proof (Z.log2_nonneg (Zpos m)) as Hlg. fold lg in Hlg.
  destruct (Z.max (lg + 1 + e - 53) (-1074) - e) as [|d|d] eqn:Hd.
  - exists 0, (shr_record_of_loc (Zpos m) l). cbn [shr]. rewrite Z.add_0_r, shr_m_of_loc.
    change (2 ^ 0) with 1. rewrite Z.div_1_r.
    split; [lia|split; [reflexivity|split; [reflexivity|split; [lia|]]]].
    intros -> _. split; reflexivity.
  - exists (Zpos d), (iter_pos shr_1 d (shr_record_of_loc (Zpos m) l)). cbn [shr].
    pose proof (iter_shr_ok d (shr_record_of_loc (Zpos m) l)) as [Hm Hx];
      [rewrite shr_m_of_loc; lia|].
    rewrite shr_m_of_loc in Hm, Hx.
    split; [lia|split; [reflexivity|split; [exact Hm|split]]].
    + apply Z.div_le_lower_bound; [apply pow2_pos; lia|]. rewrite Z.mul_1_r.
      transitivity (2 ^ lg); [apply Z.pow_le_mono_r; lia|apply pos_ge_pow_log2].
    + intros ->. intros H. apply Hx; [exact H|reflexivity|reflexivity].
  - exists 0, (shr_record_of_loc (Zpos m) l). cbn [shr]. rewrite Z.add_0_r, shr_m_of_loc.
    change (2 ^ 0) with 1. rewrite Z.div_1_r.
    split; [lia|split; [reflexivity|split; [reflexivity|split; [lia|]]]].
    intros -> _. split; reflexivity.
Qed.

Lemma round_nearest_even_spec rec :
  let mr := round_nearest_even (shr_m rec) (loc_of_shr_record rec) in
  shr_m rec <= mr <= shr_m rec + 1 /\ (shr_r rec = false -> shr_s rec = false -> mr = shr_m rec).
Proof.
  destruct rec as [m [] []]; cbn; try (destruct (Z.even m)); split; try lia; try discriminate; auto.
Qed.

(* rounding never crosses a power of two, never underflows to zero when the
   exponent is at least emin, and does not overflow below 2^971 *)
Lemma binary_round_aux_bound s p e k :
  -1074 <= e -> k <= 971 ->
  Zpos p * 2 ^ (e + 1074) <= 2 ^ (k + 1074) ->
  exists m2 e2, binary_round_aux prec emax s (Zpos p) e loc_Exact = S754_finite s m2 e2 /\
                -1074 <= e2 /\ Zpos m2 * 2 ^ (e2 + 1074) <= 2 ^ (k + 1074).
Proof.
  intros He Hk Hb. unfold binary_round_aux.
  destruct (shr_fexp_spec p e loc_Exact He) as (n1 & rec1 & Hn1 & -> & Hm1 & Hge1 & Hx1).
  pose proof (round_nearest_even_spec rec1) as [Hr1 Hr1x]. cbv zeta in Hr1, Hr1x.
  set (mr := round_nearest_even (shr_m rec1) (loc_of_shr_record rec1)) in *.
  pose proof (pow2_pos n1 Hn1) as PN1. set (N1 := 2 ^ n1) in *.
  pose proof (pow2_pos (e + 1074) ltac:(lia)) as Pu. set (u := 2 ^ (e + 1074)) in *.
  set (m1 := Zpos p / N1) in *. rewrite Hm1 in Hr1, Hr1x.
  assert (Hk0 : 0 <= k + 1074).
  { destruct (Z_lt_le_dec (k + 1074) 0) as [Hneg|]; [|assumption].
    rewrite (Z.pow_neg_r 2 _ Hneg) in Hb. nia. }
  (* N1 <= p *)
  assert (HN1p : N1 <= Zpos p).
  { pose proof (Z.mul_div_le (Zpos p) N1 PN1). fold m1 in H. nia. }
  (* e + n1 <= k *)
  assert (He1 : e + n1 <= k).
  { assert (H : 2 ^ (n1 + (e + 1074)) <= 2 ^ (k + 1074)).
    { rewrite Z.pow_add_r by lia. fold N1 u. nia. }
    apply (Z.pow_le_mono_r_iff 2) in H; lia. }
  set (B := 2 ^ (k - (e + n1))). pose proof (pow2_pos (k - (e + n1)) ltac:(lia)) as PB. fold B in PB.
  assert (HB : 2 ^ (k + 1074) = B * N1 * u).
  { unfold B, N1, u. rewrite <- !Z.pow_add_r by lia. f_equal. lia. }
  assert (HpB : Zpos p <= B * N1).
  { rewrite HB in Hb. apply Z.mul_le_mono_pos_r in Hb; assumption. }
  assert (Hmr : mr <= B).
  { destruct (Z.eq_dec (Zpos p mod N1) 0) as [E0|NE0].
    - destruct (Hx1 eq_refl E0) as [R0 S0]. rewrite (Hr1x R0 S0).
      apply Z.div_le_upper_bound; [exact PN1|]. lia.
    - pose proof (Z.div_mod (Zpos p) N1 ltac:(lia)) as Hdm. fold m1 in Hdm.
      pose proof (Z.mod_pos_bound (Zpos p) N1 PN1) as Hmb.
      assert (m1 < B) by nia. lia. }
  assert (Hmr1 : 1 <= mr) by lia.
  destruct mr as [|pr|pr] eqn:Emr; try lia.
  destruct (shr_fexp_spec pr (e + n1) loc_Exact ltac:(lia)) as (n2 & rec2 & Hn2 & -> & Hm2 & Hge2 & _).
  pose proof (pow2_pos n2 Hn2) as PN2. set (N2 := 2 ^ n2) in *.
  rewrite Hm2. destruct (Zpos pr / N2) as [|m2|m2] eqn:Em2; try lia.
  assert (Hm2le : Zpos m2 * N2 <= Zpos pr).
  { rewrite <- Em2. rewrite Z.mul_comm. apply Z.mul_div_le. exact PN2. }
  assert (Hv : Zpos m2 * 2 ^ (e + n1 + n2 + 1074) <= 2 ^ (k + 1074)).
  { replace (e + n1 + n2 + 1074) with (n2 + (n1 + (e + 1074))) by lia.
    rewrite !Z.pow_add_r by lia. fold N1 N2 u. rewrite HB.
    transitivity (Zpos pr * (N1 * u)); [|nia].
    rewrite Z.mul_assoc. apply Z.mul_le_mono_nonneg_r; [nia|exact Hm2le]. }
  assert (He2 : e + n1 + n2 <= k).
  { assert (H : 2 ^ (e + n1 + n2 + 1074) <= 2 ^ (k + 1074)).
    { pose proof (pow2_pos (e + n1 + n2 + 1074) ltac:(lia)). nia. }
    apply (Z.pow_le_mono_r_iff 2) in H; lia. }
  exists m2, (e + n1 + n2).
  replace (e + n1 + n2 <=? emax - prec) with true
    by (symmetry; apply Z.leb_le; unfold emax, prec; lia).
  split; [reflexivity|split; [lia|exact Hv]].
Qed.

Lemma binary_round_bound s p e k :
  -1074 <= e -> k <= 971 ->
  Zpos p * 2 ^ (e + 1074) <= 2 ^ (k + 1074) ->
  exists m2 e2, binary_round prec emax s p e = S754_finite s m2 e2 /\
                -1074 <= e2 /\ Zpos m2 * 2 ^ (e2 + 1074) <= 2 ^ (k + 1074).
Proof.
  intros He Hk Hb. unfold binary_round, shl_align. rewrite fexp_eq.
  set (f := Z.max (Z.pos (digits2_pos p) + e - 53) (-1074)).
  destruct (f - e) as [|d|d] eqn:Hd.
  - apply binary_round_aux_bound; assumption.
  - apply binary_round_aux_bound; assumption.
  - apply binary_round_aux_bound; [lia|exact Hk|].
    rewrite shift_pos_pow, <- Z.mul_assoc, <- Z.pow_add_r by lia.
    replace (Z.pos d + (f + 1074)) with (e + 1074) by lia. exact Hb.
Qed.

Lemma valid_exponent s m e :
  valid_binary prec emax (S754_finite s m e) = true ->
  -1074 <= e /\ Zpos (digits2_pos m) <= 53.
Proof.
  cbn [valid_binary]. unfold bounded, canonical_mantissa. intros H.
  apply andb_true_iff in H. destruct H as [Hc _]. apply Zeq_bool_eq in Hc.
  rewrite fexp_eq in Hc. lia.
Qed.

(* x + 0.5 for a double of magnitude below 2^51 *)
Lemma fadd_half_small s m e :
  valid_binary prec emax (S754_finite s m e) = true ->
  Zpos (digits2_pos m) + e <= 51 ->
  fadd (S754_finite s m e) fhalf = S754_zero false \/
  exists s' m' e', fadd (S754_finite s m e) fhalf = S754_finite s' m' e' /\
                   -1074 <= e' /\ Zpos m' * 2 ^ (e' + 1074) <= 2 ^ (52 + 1074).
Proof.
  intros Hv Hsmall. destruct (valid_exponent s m e Hv) as [He Hd].
  change fhalf with (S754_finite false 4503599627370496 (-53)).
  unfold fadd, SFadd. cbv zeta.
  set (ez := Z.min e (-53)).
  rewrite !shl_align_fst by (unfold ez; lia).
  set (a := Zpos m * 2 ^ (e - ez)).
  set (b := 4503599627370496 * 2 ^ (-53 - ez)).
  pose proof (pow2_pos (e - ez) ltac:(unfold ez; lia)) as Pa.
  pose proof (pow2_pos (-53 - ez) ltac:(unfold ez; lia)) as Pb.
  assert (Ha : 0 < a) by (unfold a; lia).
  assert (Hb : 0 < b) by (unfold b; lia).
  pose proof (pow2_pos (ez + 1074) ltac:(unfold ez; lia)) as PW. set (W := 2 ^ (ez + 1074)) in *.
  assert (HaW : a * W = Zpos m * 2 ^ (e + 1074)).
  { unfold a, W. rewrite <- Z.mul_assoc, <- Z.pow_add_r by (unfold ez; lia). f_equal. f_equal. lia. }
  assert (HbW : b * W = 2 ^ 1073).
  { unfold b, W. change 4503599627370496 with (2 ^ 52).
    rewrite <- !Z.pow_add_r by (unfold ez; lia). f_equal. lia. }
  assert (Hm : Zpos m * 2 ^ (e + 1074) <= 2 ^ 1125).
  { assert (Zpos m < 2 ^ Zpos (digits2_pos m)).
    { rewrite digits2_log2. replace (Z.log2 (Zpos m) + 1) with (Z.succ (Z.log2 (Zpos m))) by lia.
      apply Z.log2_spec. lia. }
    transitivity (2 ^ Zpos (digits2_pos m) * 2 ^ (e + 1074)).
    - apply Z.mul_le_mono_nonneg_r; [apply Z.lt_le_incl, pow2_pos; lia|lia].
    - rewrite <- Z.pow_add_r by lia. apply Z.pow_le_mono_r; lia. }
  assert (Hsum : (a + b) * W <= 2 ^ (52 + 1074)).
  { rewrite Z.mul_add_distr_r, HaW, HbW.
    assert (2 ^ 1073 <= 2 ^ 1125) by (apply Z.pow_le_mono_r; lia).
    replace (52 + 1074) with (Z.succ 1125) by lia. rewrite Z.pow_succ_r by lia. lia. }
  assert (Habs : forall S ps, S = cond_Zopp s a + cond_Zopp false b -> Z.abs S = Zpos ps ->
                 Zpos ps * W <= 2 ^ (52 + 1074)).
  { intros S ps HS Hps. transitivity ((a + b) * W); [|exact Hsum].
    apply Z.mul_le_mono_nonneg_r; [lia|]. rewrite <- Hps, HS. destruct s; cbn [cond_Zopp]; lia. }
  destruct (cond_Zopp s a + cond_Zopp false b) as [|ps|ps] eqn:ES.
  - left. reflexivity.
  - right. cbn [binary_normalize].
    destruct (binary_round_bound false ps ez 52 ltac:(unfold ez; lia) ltac:(lia)) as (m2 & e2 & H1 & H2 & H3).
    { apply (Habs (Zpos ps) ps); [reflexivity|reflexivity]. }
    exists false, m2, e2. auto.
  - right. cbn [binary_normalize].
    destruct (binary_round_bound true ps ez 52 ltac:(unfold ez; lia) ltac:(lia)) as (m2 & e2 & H1 & H2 & H3).
    { apply (Habs (Zneg ps) ps); [reflexivity|reflexivity]. }
    exists true, m2, e2. auto.
Qed.

Lemma floor_Z_bound s m e :
  -1074 <= e -> Zpos m * 2 ^ (e + 1074) <= 2 ^ (52 + 1074) ->
  Z.abs (floor_Z (S754_finite s m e)) <= 2 ^ 52.
Proof.
  intros He Hb. unfold floor_Z, is_integral, floor_pos.
  pose proof (pow2_pos 1074 ltac:(lia)) as P0. set (U := 2 ^ 1074) in *.
  rewrite (Z.pow_add_r 2 52 1074) in Hb by lia. fold U in Hb.
  destruct (Z.leb_spec 0 e) as [H0|H0].
  - rewrite Z.shiftl_mul_pow2 by lia.
    rewrite Z.pow_add_r, Z.mul_assoc in Hb by lia. fold U in Hb.
    apply Z.mul_le_mono_pos_r in Hb; [|exact P0].
    pose proof (pow2_pos e H0). destruct s; nia.
  - rewrite Z.shiftr_div_pow2, Z.shiftl_mul_pow2 by lia.
    pose proof (pow2_pos (- e) ltac:(lia)) as PK. set (K := 2 ^ (- e)) in *.
    assert (HmK : Zpos m <= 2 ^ 52 * K).
    { assert (H : Zpos m * 2 ^ (e + 1074) * K <= 2 ^ 52 * U * K)
        by (apply Z.mul_le_mono_nonneg_r; lia).
      unfold K in H at 1. rewrite <- Z.mul_assoc, <- Z.pow_add_r in H by lia.
      replace (e + 1074 + - e) with 1074 in H by lia. fold U in H.
      replace (2 ^ 52 * U * K) with (2 ^ 52 * K * U) in H by ring.
      apply Z.mul_le_mono_pos_r in H; assumption. }
    pose proof (Z.mul_div_le (Zpos m) K PK) as Hfl.
    assert (H0t : 0 <= Zpos m / K) by (apply Z.div_pos; lia).
    set (t := Zpos m / K) in *.
    assert (Ht : t <= 2 ^ 52) by (apply Z.div_le_upper_bound; [exact PK|lia]).
    destruct (Z.eqb_spec (t * K) (Zpos m)) as [E|NE]; destruct s; try lia.
    assert (t < 2 ^ 52) by nia. lia.
Qed.

(* ================================================================== *)
(** * I. substring for all finite doubles of magnitude below 2^51 *)

(* a canonical finite double with |x| < 2^51 (mantissa bits + exponent <= 51) *)
Definition small_finite (x : f64) : Prop :=
  match x with
  | S754_zero _ => True
  | S754_finite s m e =>
    valid_binary prec emax x = true /\ Zpos (digits2_pos m) + e <= 51
  | _ => False
  end.

(* the same, through the float order: |x| < 2^51 *)
Lemma small_finite_flt x :
  is_finite x = true -> valid_binary prec emax x = true ->
  flt (SFabs x) (of_Z (2 ^ 51)) = true -> small_finite x.
Proof.
  destruct x as [s|s| |s m e]; cbn [is_finite small_finite]; intros Hf Hv Hlt; try discriminate.
  - exact I.
  - split; [exact Hv|]. destruct (valid_exponent s m e Hv) as [_ Hd].
    change (of_Z (2 ^ 51)) with (S754_finite false 4503599627370496 (-1)) in Hlt.
    unfold flt, SFltb in Hlt. cbn [SFabs SFcompare] in Hlt.
    destruct (Z.compare_spec e (-1)) as [E|L|G]; try discriminate; [|lia].
    exfalso. subst e.
    cbn [valid_binary] in Hv. unfold bounded, canonical_mantissa in Hv.
    apply andb_true_iff in Hv. destruct Hv as [Hc _]. apply Zeq_bool_eq in Hc.
    rewrite fexp_eq in Hc.
    assert (Hd53 : Zpos (digits2_pos m) = 53) by lia.
    rewrite digits2_log2 in Hd53.
    assert (Hl : Z.log2 (Zpos m) = 52) by lia.
    pose proof (pos_ge_pow_log2 m) as Hge. rewrite Hl in Hge.
    destruct (Pos.compare_cont Eq m 4503599627370496) eqn:Ecmp; try discriminate.
    assert (Hlt2 : Zpos m < 4503599627370496) by (apply Pos2Z.pos_lt_pos; exact Ecmp).
    change (2 ^ 52) with 4503599627370496 in Hge. lia.
Qed.

Theorem round_ok_small x : small_finite x -> round_ok x /\ Z.abs (R x) <= 2 ^ 52.
Proof.
  destruct x as [s|s| |s m e]; cbn [small_finite]; intros H; try contradiction.
  - split; [split|]; destruct s; vm_compute; try reflexivity; discriminate.
  - destruct H as [Hv Hs]. unfold round_ok, R.
    destruct (fadd_half_small s m e Hv Hs) as [-> |(s' & m' & e' & -> & He' & Hb)].
    + split; [split; [reflexivity|discriminate]|vm_compute; discriminate].
    + split; [split; [reflexivity|discriminate]|]. apply floor_Z_bound; assumption.
Qed.
Print Assumptions round_ok_small.

Corollary xround_small x : small_finite x -> xround x = of_Z (R x) /\ Z.abs (R x) <= 2 ^ 52.
Proof.
  intros H. destruct (round_ok_small x H) as [[F Z0] B]. split; [apply xround_integral; assumption|exact B].
Qed.

(* C09, three-argument form, for all finite doubles of magnitude below 2^51 *)
Theorem substring_go_finite (m : string) (start len : f64) :
  small_finite start -> small_finite len -> Z.of_nat (String.length m) < 2 ^ 52 ->
  substring_go m start (Some len) = substring_pos m (R start) (R start + R len).
Proof.
  intros H1 H2 Hn.
  destruct (round_ok_small start H1) as [O1 B1]. destruct (round_ok_small len H2) as [O2 B2].
  apply substring_go_spec_R; assumption.
Qed.

(* two-argument form: the positions p >= R start *)
Theorem substring_go2_finite (m : string) (start : f64) :
  small_finite start -> Z.of_nat (String.length m) < 2 ^ 53 ->
  substring_go m start None = filter_pos (fun p => R start <=? p) 1 m.
Proof.
  intros H1 Hn. destruct (round_ok_small start H1) as [O1 B1].
  apply substring_go2_spec_R; [assumption|lia|assumption].
Qed.
Print Assumptions substring_go_finite.
Print Assumptions substring_go2_finite.

Example substring_go_finite_ex :
  small_finite f_1_5 /\ small_finite f_2_6 /\ small_finite f_pred_half /\
  small_finite (S754_finite true 1 (-1074)) /\
  substring_go "12345" f_1_5 (Some f_2_6) = substring_pos "12345" (R f_1_5) (R f_1_5 + R f_2_6).
Proof.
  assert (H1 : small_finite f_1_5) by (vm_compute; split; [reflexivity|discriminate]).
  assert (H2 : small_finite f_2_6) by (vm_compute; split; [reflexivity|discriminate]).
  assert (H3 : small_finite f_pred_half) by (vm_compute; split; [reflexivity|discriminate]).
  assert (H4 : small_finite (S754_finite true 1 (-1074))) by (vm_compute; split; [reflexivity|discriminate]).
  split; [exact H1|split; [exact H2|split; [exact H3|split; [exact H4|]]]].
  apply substring_go_finite; [exact H1|exact H2|]. vm_compute. reflexivity.
Qed.
