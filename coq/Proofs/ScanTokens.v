(* ScanTokens.v — C10, stage 1: what [next_item] does, token by token.

   A laid-out token stream is a list of (white space, token) pairs; [render]
   turns it into text.  For every token kind we prove that [next_item], started
   anywhere in front of the white space that precedes the token, returns the
   state that "carries" the token ([St]) with the rest of the stream still in
   front of it.  Because the statement quantifies over the white space, it is
   the token-level form of the white-space clause of C10. *)
From XP Require Import Base F64 Doc Ast Scan Parse.
From XP.Proofs Require Import ParseTerm.
Require Import Lia.
Open Scope nat_scope.
Open Scope list_scope.

(* ------------------------------------------------------------------ *)
(** * 1. The scanner's rune classes on ASCII                            *)
(* ------------------------------------------------------------------ *)

Lemma forall_below_128 : forall P : N -> bool,
  forallb P (map N.of_nat (seq 0 128)) = true ->
  forall n, (n < 128)%N -> P n = true.
Proof.
  intros P H n Hn. rewrite forallb_forall in H. apply H.
  apply in_map_iff. exists (N.to_nat n). split; [apply N2Nat.id|].
  apply in_seq. lia.
Qed.

(* the explicit ASCII tables *)
Definition name_rune_ascii (n : N) : bool :=
  orb (orb (N.eqb n 45) (N.eqb n 46))
      (orb (orb (andb (N.leb 48 n) (N.leb n 57)) (andb (N.leb 65 n) (N.leb n 90)))
           (orb (N.eqb n 95) (andb (N.leb 97 n) (N.leb n 122)))).
Definition digit_rune_ascii (n : N) : bool := andb (N.leb 48 n) (N.leb n 57).
Definition space_rune_ascii (n : N) : bool := orb (andb (N.leb 9 n) (N.leb n 13)) (N.eqb n 32).

Lemma is_name_rune_ascii : forall n, (n < 128)%N -> is_name_rune n = name_rune_ascii n.
Proof.
  intros n Hn.
  apply Bool.eqb_prop.
  apply (forall_below_128 (fun n => Bool.eqb (is_name_rune n) (name_rune_ascii n))); [|exact Hn].
  vm_compute. reflexivity.
Qed.

Lemma is_digit_rune_ascii : forall n, (n < 128)%N -> is_digit_rune n = digit_rune_ascii n.
Proof.
  intros n Hn.
  apply Bool.eqb_prop.
  apply (forall_below_128 (fun n => Bool.eqb (is_digit_rune n) (digit_rune_ascii n))); [|exact Hn].
  vm_compute. reflexivity.
Qed.

Lemma is_space_rune_ascii : forall n, (n < 128)%N -> is_space_rune n = space_rune_ascii n.
Proof.
  intros n Hn.
  apply Bool.eqb_prop.
  apply (forall_below_128 (fun n => Bool.eqb (is_space_rune n) (space_rune_ascii n))); [|exact Hn].
  vm_compute. reflexivity.
Qed.

(* the forms asked for: on characters *)
Theorem is_name_rune_char : forall c, (N_of_ascii c < 128)%N ->
  is_name_rune (N_of_ascii c) = name_rune_ascii (N_of_ascii c).
Proof. intros c. apply is_name_rune_ascii. Qed.
Theorem is_digit_rune_char : forall c, (N_of_ascii c < 128)%N ->
  is_digit_rune (N_of_ascii c) = digit_rune_ascii (N_of_ascii c).
Proof. intros c. apply is_digit_rune_ascii. Qed.
Theorem is_space_rune_char : forall c, (N_of_ascii c < 128)%N ->
  is_space_rune (N_of_ascii c) = space_rune_ascii (N_of_ascii c).
Proof. intros c. apply is_space_rune_ascii. Qed.

(* ------------------------------------------------------------------ *)
(** * 2. Character classes of the printed tokens                        *)
(* ------------------------------------------------------------------ *)

Definition asc (c : ascii) : bool := N.ltb (bN c) 128.
Definition ws_char (c : ascii) : bool := andb (asc c) (space_rune_ascii (bN c)).
Definition lower_char (c : ascii) : bool := andb (N.leb 97 (bN c)) (N.leb (bN c) 122).
Definition name_char (c : ascii) : bool := orb (lower_char c) (N.eqb (bN c) 45).
Definition digit_char_b (c : ascii) : bool := andb (N.leb 48 (bN c)) (N.leb (bN c) 57).
Definition str_char (c : ascii) : bool := andb (asc c) (negb (N.eqb (bN c) 39)).

Lemma asc_lt : forall c, asc c = true -> (bN c < 128)%N.
Proof. intros c H. apply N.ltb_lt. exact H. Qed.

Lemma ws_char_asc : forall c, ws_char c = true -> asc c = true.
Proof. intros c H. apply andb_prop in H. tauto. Qed.
Lemma ws_char_space : forall c, ws_char c = true -> is_space_rune (bN c) = true.
Proof.
  intros c H. apply andb_prop in H. destruct H as [H1 H2].
  rewrite is_space_rune_ascii by (apply asc_lt; exact H1). exact H2.
Qed.

Ltac nb :=
  unfold name_char, lower_char, digit_char_b, str_char, ws_char, asc,
         name_rune_ascii, digit_rune_ascii, space_rune_ascii in *;
  repeat match goal with
  | H : andb _ _ = true |- _ => apply andb_prop in H; destruct H
  | H : orb _ _ = true |- _ => apply Bool.orb_prop in H; destruct H
  | H : negb _ = true |- _ => apply Bool.negb_true_iff in H
  | H : N.leb _ _ = true |- _ => apply N.leb_le in H
  | H : N.ltb _ _ = true |- _ => apply N.ltb_lt in H
  | H : N.eqb _ _ = true |- _ => apply N.eqb_eq in H
  | H : N.eqb _ _ = false |- _ => apply N.eqb_neq in H
  | H : N.leb _ _ = false |- _ => apply N.leb_gt in H
  | H : N.ltb _ _ = false |- _ => apply N.ltb_ge in H
  end.

Lemma name_char_asc : forall c, name_char c = true -> (bN c < 128)%N.
Proof. intros c H. nb; lia. Qed.
Lemma name_char_rune : forall c, name_char c = true -> is_name_rune (bN c) = true.
Proof.
  intros c H. rewrite is_name_rune_ascii by (apply name_char_asc; exact H).
  unfold name_rune_ascii. nb.
  - replace (N.leb 97 (bN c)) with true by (symmetry; apply N.leb_le; lia).
    replace (N.leb (bN c) 122) with true by (symmetry; apply N.leb_le; lia).
    cbn. rewrite !Bool.orb_true_r. reflexivity.
  - rewrite H. reflexivity.
Qed.
Lemma digit_char_asc : forall c, digit_char_b c = true -> (bN c < 128)%N.
Proof. intros c H. nb; lia. Qed.
Lemma digit_char_rune : forall c, digit_char_b c = true -> is_digit_rune (bN c) = true.
Proof.
  intros c H. rewrite is_digit_rune_ascii by (apply digit_char_asc; exact H). exact H.
Qed.

(* ------------------------------------------------------------------ *)
(** * 3. cur / advance / skipsp on ASCII input                          *)
(* ------------------------------------------------------------------ *)

Lemma cur_cons : forall c l, (bN c < 128)%N -> cur (c :: l) = bN c.
Proof.
  intros c l H. unfold cur, decode. cbv zeta.
  apply N.ltb_lt in H. rewrite H. reflexivity.
Qed.
Lemma cur_size_cons : forall c l, (bN c < 128)%N -> cur_size (c :: l) = 1.
Proof.
  intros c l H. unfold cur_size, decode. cbv zeta.
  apply N.ltb_lt in H. rewrite H. reflexivity.
Qed.
Lemma advance_cons : forall c l, (bN c < 128)%N -> advance (c :: l) = l.
Proof. intros c l H. unfold advance. rewrite cur_size_cons by exact H. reflexivity. Qed.

(* the head of the text, as the scanner sees it *)
Definition hd_ok (P : ascii -> bool) (l : list ascii) : Prop :=
  match l with [] => True | c :: _ => P c = true end.

Lemma skip_space_stop : forall f l,
  hd_ok (fun c => andb (asc c) (negb (space_rune_ascii (bN c)))) l -> skip_space f l = l.
Proof.
  intros f l H. destruct f as [|f]; [reflexivity|]. cbn [skip_space].
  destruct l as [|c l]; [reflexivity|]. cbn [hd_ok] in H.
  apply andb_prop in H. destruct H as [H1 H2]. apply asc_lt in H1.
  rewrite cur_cons by exact H1. rewrite is_space_rune_ascii by exact H1.
  apply Bool.negb_true_iff in H2. rewrite H2. reflexivity.
Qed.

Definition nonsp (c : ascii) : bool := andb (asc c) (negb (space_rune_ascii (bN c))).

Lemma skip_space_ws : forall w f l,
  forallb ws_char w = true -> List.length w <= f -> hd_ok nonsp l ->
  skip_space f (w ++ l) = l.
Proof.
  induction w as [|c w IH]; intros f l Hw Hf Hl.
  - cbn [app]. apply skip_space_stop. exact Hl.
  - cbn [forallb] in Hw. apply andb_prop in Hw. destruct Hw as [Hc Hw].
    destruct f as [|f]; [cbn in Hf; lia|].
    cbn [app skip_space].
    pose proof (asc_lt c (ws_char_asc c Hc)) as Ha.
    rewrite cur_cons by exact Ha. rewrite (ws_char_space c Hc).
    rewrite advance_cons by exact Ha.
    apply IH; [exact Hw | cbn in Hf; lia | exact Hl].
Qed.

Lemma skipsp_ws : forall w l,
  forallb ws_char w = true -> hd_ok nonsp l -> skipsp (w ++ l) = l.
Proof.
  intros w l Hw Hl. unfold skipsp. apply skip_space_ws; [exact Hw| |exact Hl].
  rewrite app_length. lia.
Qed.

Lemma skipsp_nonsp : forall l, hd_ok nonsp l -> skipsp l = l.
Proof. intros l H. apply (skipsp_ws [] l); [reflexivity|exact H]. Qed.

(* general: skipsp is idempotent, and white space in front is invisible *)
Lemma skip_space_done : forall f l, List.length l <= f ->
  skip_space f l = [] \/ is_space_rune (cur (skip_space f l)) = false.
Proof.
  induction f as [|f IH]; intros l Hf.
  - destruct l; [left; reflexivity|cbn in Hf; lia].
  - cbn [skip_space]. destruct l as [|c l]; [left; reflexivity|].
    destruct (is_space_rune (cur (c :: l))) eqn:E; [|right; exact E].
    apply IH. pose proof (advance_lt (c :: l)) as H. cbn [List.length] in *.
    assert (c :: l <> []) by discriminate. specialize (H H0). lia.
Qed.

Lemma skipsp_fix : forall l, l = [] \/ is_space_rune (cur l) = false -> skipsp l = l.
Proof.
  intros l H. unfold skipsp. destruct l as [|c l]; [reflexivity|].
  cbn [List.length skip_space]. destruct H as [H|H]; [discriminate|]. rewrite H. reflexivity.
Qed.

Theorem skipsp_idem : forall l, skipsp (skipsp l) = skipsp l.
Proof. intros l. apply skipsp_fix. apply skip_space_done. lia. Qed.

(* skip_space does not depend on the fuel once it is large enough *)
Lemma skip_space_fuel : forall f g l, List.length l <= f -> List.length l <= g ->
  skip_space f l = skip_space g l.
Proof.
  induction f as [|f IH]; intros g l Hf Hg.
  - destruct l; [|cbn in Hf; lia]. destruct g; reflexivity.
  - destruct g as [|g].
    + destruct l; [reflexivity|cbn in Hg; lia].
    + cbn [skip_space]. destruct l as [|c l]; [reflexivity|].
      destruct (is_space_rune (cur (c :: l))); [|reflexivity].
      assert (Hne : c :: l <> []) by discriminate.
      pose proof (advance_lt (c :: l) Hne) as Ha. cbn [List.length] in *.
      apply IH; lia.
Qed.

Theorem skipsp_ws_any : forall w l, forallb ws_char w = true -> skipsp (w ++ l) = skipsp l.
Proof.
  induction w as [|c w IH]; intros l Hw; [reflexivity|].
  cbn [forallb] in Hw. apply andb_prop in Hw. destruct Hw as [Hc Hw].
  pose proof (asc_lt c (ws_char_asc c Hc)) as Ha.
  rewrite <- (IH l Hw). unfold skipsp at 1. cbn [app List.length skip_space].
  rewrite cur_cons by exact Ha. rewrite (ws_char_space c Hc). rewrite advance_cons by exact Ha.
  unfold skipsp. apply skip_space_fuel; lia.
Qed.

(* next_item looks at its input only through skipsp *)
Theorem next_item_rest_ext : forall s l,
  skipsp (s_rest s) = skipsp l -> next_item s = next_item (set_rest s l).
Proof.
  intros s l H. unfold next_item. cbn [set_rest s_rest s_name s_prefix s_strval s_numval s_canfunc].
  rewrite H. reflexivity.
Qed.

(* white space in front of the input is invisible to next_item *)
Theorem next_item_skip_ws : forall s ws l,
  forallb ws_char ws = true -> s_rest s = ws ++ l ->
  next_item s = next_item (set_rest s l).
Proof.
  intros s ws l Hw Hs. apply next_item_rest_ext. rewrite Hs. apply skipsp_ws_any. exact Hw.
Qed.

(* ------------------------------------------------------------------ *)
(** * 4. Tokens, layouts, rendering                                     *)
(* ------------------------------------------------------------------ *)
Open Scope string_scope.
Open Scope list_scope.

Inductive token :=
| TNum (ds : list ascii)                 (* [0-9]+ *)
| TStr (body : string)                   (* '...'  *)
| TName (nm : string)                    (* [a-z][a-z-]* *)
| TAxe (nm : string) (w : list ascii)    (* name, optional white space, :: *)
| TP (p : itype)                         (* punctuation *)
| TEOF.

Definition pstr (p : itype) : string :=
  match p with
  | IComma => "," | ISlash => "/" | IAt => "@" | IDot => "." | ILParens => "("
  | IRParens => ")" | ILBracket => "[" | IRBracket => "]" | IStar => "*" | IPlus => "+"
  | IMinus => "-" | IEq => "=" | ILt => "<" | IGt => ">" | IUnion => "|" | INe => "!="
  | ILe => "<=" | IGe => ">=" | IDotDot => ".." | ISlashSlash => "//" | IDollar => "$"
  | _ => ""
  end.
Definition ptext (p : itype) : list ascii := list_of_string (pstr p).
Definition is_punct (p : itype) : bool := match ptext p with [] => false | _ => true end.

Definition ttext (t : token) : list ascii :=
  match t with
  | TNum ds => ds
  | TStr b => "'"%char :: list_of_string b ++ ["'"%char]
  | TName nm => list_of_string nm
  | TAxe nm w => list_of_string nm ++ w ++ [":"%char; ":"%char]
  | TP p => ptext p
  | TEOF => []
  end.

Definition ttyp (t : token) : itype :=
  match t with
  | TNum _ => INumber | TStr _ => IString | TName _ => IName | TAxe _ _ => IAxe
  | TP p => p | TEOF => IEOF
  end.

Definition name_ok (nm : string) : bool :=
  match list_of_string nm with
  | [] => false
  | c :: r => andb (lower_char c) (forallb name_char r)
  end.

Definition not_inf (v : f64) : bool := match v with S754_infinity _ => false | _ => true end.

Definition tok_ok (t : token) : bool :=
  match t with
  | TNum ds => andb (match ds with [] => false | _ => true end)
                    (andb (forallb digit_char_b ds) (not_inf (of_decimal false ds [])))
  | TStr b => forallb str_char (list_of_string b)
  | TName nm => name_ok nm
  | TAxe nm w => andb (name_ok nm) (forallb ws_char w)
  | TP p => is_punct p
  | TEOF => true
  end.

(* may the character [next] directly follow the token? *)
Definition sep_ok (t : token) (next : option ascii) : bool :=
  match next with
  | None => true
  | Some c =>
    andb (asc c)
      match t with
      | TNum _ => andb (negb (digit_rune_ascii (bN c))) (negb (N.eqb (bN c) 46))
      | TName _ => andb (negb (name_rune_ascii (bN c))) (negb (N.eqb (bN c) 58))
      | TP ISlash => negb (N.eqb (bN c) 47)
      | TP ILt | TP IGt => negb (N.eqb (bN c) 61)
      | TP IDot => andb (negb (N.eqb (bN c) 46)) (negb (digit_rune_ascii (bN c)))
      | _ => true
      end
  end.

Definition layout := list (list ascii * token).

Fixpoint render (r : layout) : list ascii :=
  match r with
  | [] => []
  | (w, t) :: r' => w ++ ttext t ++ render r'
  end.

Definition is_eof (t : token) : bool := match t with TEOF => true | _ => false end.

Fixpoint lay_ok (r : layout) : bool :=
  match r with
  | [] => true
  | (w, t) :: r' =>
    andb (forallb ws_char w)
    (andb (tok_ok t)
    (andb (sep_ok t (hd_error (render r')))
    (andb (if is_eof t then match r' with [] => true | _ => false end else true)
          (lay_ok r'))))
  end.

Lemma lay_ok_cons : forall w t r, lay_ok ((w, t) :: r) = true ->
  forallb ws_char w = true /\ tok_ok t = true /\ sep_ok t (hd_error (render r)) = true /\
  (t = TEOF -> r = []) /\ lay_ok r = true.
Proof.
  intros w t r H. cbn [lay_ok] in H.
  apply andb_prop in H. destruct H as [H1 H].
  apply andb_prop in H. destruct H as [H2 H].
  apply andb_prop in H. destruct H as [H3 H].
  apply andb_prop in H. destruct H as [H4 H5].
  repeat split; try assumption.
  intros ->. cbn in H4. destruct r; [reflexivity|discriminate].
Qed.

(* the input as [next_item] sees it *)
Definition norm (r : layout) : list ascii := skipsp (render r).

Lemma name_ok_inv : forall nm, name_ok nm = true ->
  exists c r, list_of_string nm = c :: r /\ lower_char c = true /\ forallb name_char r = true.
Proof.
  intros nm H. unfold name_ok in H. destruct (list_of_string nm) as [|c r]; [discriminate|].
  apply andb_prop in H. destruct H. eauto.
Qed.

Lemma name_ok_chars : forall nm, name_ok nm = true -> forallb name_char (list_of_string nm) = true.
Proof.
  intros nm H. destruct (name_ok_inv nm H) as [c [r [E [Hc Hr]]]]. rewrite E.
  cbn [forallb]. rewrite Hr. unfold name_char. rewrite Hc. reflexivity.
Qed.

(* every token starts with a visible ASCII character that is neither NUL nor ':' ;
   only the token "(" starts with '(' *)
Lemma tok_head : forall t, tok_ok t = true -> t <> TEOF ->
  exists c tl, ttext t = c :: tl /\ nonsp c = true /\ bN c <> 0%N /\ bN c <> 58%N /\
    N.eqb (bN c) 40 = match t with TP ILParens => true | _ => false end.
Proof.
  intros t H Hne. destruct t as [ds|b|nm|nm w|p|]; cbn [tok_ok ttext] in *.
  - destruct ds as [|c ds]; [discriminate|]. cbn [andb forallb] in H.
    apply andb_prop in H. destruct H as [H _]. apply andb_prop in H. destruct H as [H _].
    exists c, ds. split; [reflexivity|].
    assert (Hr : (48 <= bN c <= 57)%N) by (nb; lia).
    unfold nonsp, asc, space_rune_ascii.
    repeat split; try lia.
    + replace (N.ltb (bN c) 128) with true by (symmetry; apply N.ltb_lt; lia).
      replace (N.leb (bN c) 13) with false by (symmetry; apply N.leb_gt; lia).
      replace (N.eqb (bN c) 32) with false by (symmetry; apply N.eqb_neq; lia).
      rewrite Bool.andb_false_r. reflexivity.
    + apply N.eqb_neq. lia.
  - eexists _, _. split; [reflexivity|]. repeat split; vm_compute; congruence.
  - destruct (name_ok_inv nm H) as [c [r [E [Hc Hr]]]]. rewrite E.
    exists c, r. split; [reflexivity|].
    assert (Hx : (97 <= bN c <= 122)%N) by (nb; lia).
    unfold nonsp, asc, space_rune_ascii.
    repeat split; try lia.
    + replace (N.ltb (bN c) 128) with true by (symmetry; apply N.ltb_lt; lia).
      replace (N.leb (bN c) 13) with false by (symmetry; apply N.leb_gt; lia).
      replace (N.eqb (bN c) 32) with false by (symmetry; apply N.eqb_neq; lia).
      rewrite Bool.andb_false_r. reflexivity.
    + apply N.eqb_neq. lia.
  - apply andb_prop in H. destruct H as [H _].
    destruct (name_ok_inv nm H) as [c [r [E [Hc Hr]]]]. rewrite E.
    exists c, (r ++ w ++ [":"%char; ":"%char])%list. split; [reflexivity|].
    assert (Hx : (97 <= bN c <= 122)%N) by (nb; lia).
    unfold nonsp, asc, space_rune_ascii.
    repeat split; try lia.
    + replace (N.ltb (bN c) 128) with true by (symmetry; apply N.ltb_lt; lia).
      replace (N.leb (bN c) 13) with false by (symmetry; apply N.leb_gt; lia).
      replace (N.eqb (bN c) 32) with false by (symmetry; apply N.eqb_neq; lia).
      rewrite Bool.andb_false_r. reflexivity.
    + apply N.eqb_neq. lia.
  - destruct p; try discriminate H;
      (eexists _, _; split; [reflexivity|]; repeat split; vm_compute; congruence).
  - congruence.
Qed.

Lemma norm_cons : forall w t r, lay_ok ((w, t) :: r) = true ->
  norm ((w, t) :: r) = ttext t ++ render r.
Proof.
  intros w t r H. apply lay_ok_cons in H. destruct H as [Hw [Ht [_ [He _]]]].
  unfold norm. cbn [render]. apply skipsp_ws; [exact Hw|].
  destruct t; try (destruct (tok_head _ Ht ltac:(discriminate)) as [c [tl [E [Hc _]]]];
                   rewrite E; exact Hc).
  rewrite (He eq_refl). exact I.
Qed.

Lemma norm_nil : norm [] = [].
Proof. reflexivity. Qed.

Definition next_lparen (r : layout) : bool :=
  match r with (_, TP ILParens) :: _ => true | _ => false end.

Lemma norm_fix : forall r, lay_ok r = true -> skipsp (norm r) = norm r.
Proof. intros r _. apply skipsp_idem. Qed.

Lemma cur_norm : forall r, lay_ok r = true ->
  cur (norm r) <> 58%N /\ N.eqb (cur (norm r)) 40 = next_lparen r.
Proof.
  intros r H. destruct r as [|[w t] r].
  - rewrite norm_nil. split; [discriminate|reflexivity].
  - rewrite norm_cons by exact H. apply lay_ok_cons in H.
    destruct H as [Hw [Ht [_ [He _]]]].
    destruct (is_eof t) eqn:Eeof.
    + destruct t; try discriminate. rewrite (He eq_refl). split; [discriminate|reflexivity].
    + assert (Hne : t <> TEOF) by (intros ->; discriminate).
      destruct (tok_head t Ht Hne) as [c [tl [E [Hc [H0 [H58 H40]]]]]].
      rewrite E. cbn [app].
      assert (Ha : (bN c < 128)%N) by (unfold nonsp in Hc; apply andb_prop in Hc; apply asc_lt; tauto).
      rewrite cur_cons by exact Ha. split; [exact H58|].
      rewrite H40. cbn [next_lparen]. destruct t as [| | | |p|]; try reflexivity.
Qed.

(* ------------------------------------------------------------------ *)
(** * 5. The scanner state that carries a token                         *)
(* ------------------------------------------------------------------ *)

Record St (s : sstate) (t : token) (r : layout) : Prop := mkSt {
  st_typ : s_typ s = ttyp t;
  st_rest : skipsp (s_rest s) = norm r;
  st_star : s_name s <> "*";
  st_fld : match t with
           | TNum ds => s_numval s = of_decimal false ds []
           | TStr b => s_strval s = b
           | TName nm => s_name s = nm /\ s_prefix s = "" /\ s_canfunc s = next_lparen r
           | TAxe nm _ => s_name s = nm
           | _ => True
           end }.

(* ------------------------------------------------------------------ *)
(** * 6. The scanning loops on our tokens                               *)
(* ------------------------------------------------------------------ *)

Definition not_name_hd (c : ascii) : bool := andb (asc c) (negb (name_rune_ascii (bN c))).
Definition not_digit_hd (c : ascii) : bool := andb (asc c) (negb (digit_rune_ascii (bN c))).

Lemma scan_name_loop_spec : forall nm f acc rest,
  forallb name_char nm = true -> hd_ok not_name_hd rest -> List.length nm < f ->
  scan_name_loop f (nm ++ rest) acc = (acc ++ nm, rest).
Proof.
  induction nm as [|c nm IH]; intros f acc rest Hn Hr Hf.
  - cbn [app]. rewrite app_nil_r. destruct f as [|f]; [cbn in Hf; lia|].
    cbn [scan_name_loop]. destruct rest as [|c rest]; [reflexivity|].
    cbn [hd_ok] in Hr. unfold not_name_hd in Hr. apply andb_prop in Hr. destruct Hr as [Ha Hb].
    apply asc_lt in Ha. rewrite cur_cons by exact Ha. rewrite is_name_rune_ascii by exact Ha.
    apply Bool.negb_true_iff in Hb. rewrite Hb. rewrite cur_size_cons by exact Ha.
    cbn [Nat.sub firstn]. rewrite app_nil_r. reflexivity.
  - cbn [forallb] in Hn. apply andb_prop in Hn. destruct Hn as [Hc Hn].
    destruct f as [|f]; [cbn in Hf; lia|].
    cbn [app scan_name_loop].
    pose proof (name_char_asc c Hc) as Ha.
    rewrite cur_cons by exact Ha. rewrite (name_char_rune c Hc).
    rewrite advance_cons, cur_size_cons by exact Ha. cbn [firstn].
    rewrite IH; [|exact Hn|exact Hr|cbn in Hf; lia].
    rewrite <- app_assoc. reflexivity.
Qed.

Lemma string_of_list_of_string : forall s, string_of_list (list_of_string s) = s.
Proof. intros s. apply string_of_list_ascii_of_string. Qed.

Lemma scan_name_spec : forall nm rest,
  name_ok nm = true -> hd_ok not_name_hd rest ->
  scan_name (list_of_string nm ++ rest) = (nm, rest).
Proof.
  intros nm rest Hn Hr. unfold scan_name.
  rewrite scan_name_loop_spec; [|apply name_ok_chars; exact Hn|exact Hr|rewrite app_length; lia].
  cbn [app]. rewrite string_of_list_of_string. reflexivity.
Qed.

Lemma scan_digits_spec : forall ds f acc rest,
  forallb digit_char_b ds = true -> hd_ok not_digit_hd rest -> List.length ds <= f ->
  scan_digits f (ds ++ rest) acc true = (acc ++ ds, true, rest).
Proof.
  induction ds as [|c ds IH]; intros f acc rest Hd Hr Hf.
  - cbn [app]. rewrite app_nil_r. destruct f as [|f]; [reflexivity|].
    cbn [scan_digits]. destruct rest as [|c rest]; [reflexivity|].
    cbn [hd_ok] in Hr. unfold not_digit_hd in Hr. apply andb_prop in Hr. destruct Hr as [Ha Hb].
    apply asc_lt in Ha. rewrite cur_cons by exact Ha. rewrite is_digit_rune_ascii by exact Ha.
    apply Bool.negb_true_iff in Hb. rewrite Hb. reflexivity.
  - cbn [forallb] in Hd. apply andb_prop in Hd. destruct Hd as [Hc Hd].
    destruct f as [|f]; [cbn in Hf; lia|].
    cbn [app scan_digits].
    pose proof (digit_char_asc c Hc) as Ha.
    rewrite cur_cons by exact Ha. rewrite (digit_char_rune c Hc).
    rewrite advance_cons by exact Ha.
    replace (N.ltb (bN c) 128) with true by (symmetry; apply N.ltb_lt; exact Ha).
    cbn [andb]. rewrite IH; [|exact Hd|exact Hr|cbn in Hf; lia].
    rewrite <- app_assoc. reflexivity.
Qed.

Lemma scan_string_loop_spec : forall body f acc rest,
  forallb str_char body = true -> List.length body < f ->
  scan_string_loop f 39 (body ++ "'"%char :: rest) acc = Some (acc ++ body, rest).
Proof.
  induction body as [|c body IH]; intros f acc rest Hb Hf.
  - destruct f as [|f]; [cbn in Hf; lia|]. cbn [app scan_string_loop].
    rewrite cur_cons by (vm_compute; reflexivity).
    rewrite advance_cons by (vm_compute; reflexivity).
    rewrite app_nil_r. reflexivity.
  - cbn [forallb] in Hb. apply andb_prop in Hb. destruct Hb as [Hc Hb].
    destruct f as [|f]; [cbn in Hf; lia|]. cbn [app scan_string_loop].
    unfold str_char in Hc. apply andb_prop in Hc. destruct Hc as [Ha Hq].
    apply asc_lt in Ha. rewrite cur_cons by exact Ha.
    apply Bool.negb_true_iff in Hq. rewrite Hq.
    rewrite advance_cons, cur_size_cons by exact Ha. cbn [firstn].
    rewrite IH; [|exact Hb|cbn in Hf; lia].
    rewrite <- app_assoc. reflexivity.
Qed.

Lemma scan_string_spec : forall b rest,
  forallb str_char (list_of_string b) = true ->
  scan_string ("'"%char :: list_of_string b ++ "'"%char :: rest) = Some (b, rest).
Proof.
  intros b rest Hb. unfold scan_string.
  rewrite cur_cons by (vm_compute; reflexivity).
  rewrite advance_cons by (vm_compute; reflexivity).
  change (bN "'"%char) with 39%N.
  rewrite scan_string_loop_spec; [|exact Hb|cbn [List.length]; rewrite app_length; lia].
  cbn [app]. rewrite string_of_list_of_string. reflexivity.
Qed.

Lemma scan_number_spec : forall ds rest,
  forallb digit_char_b ds = true -> not_inf (of_decimal false ds []) = true ->
  hd_ok (fun c => andb (not_digit_hd c) (negb (N.eqb (bN c) 46))) rest ->
  scan_number (ds ++ rest) = Ok (of_decimal false ds [], rest).
Proof.
  intros ds rest Hd Hinf Hr. unfold scan_number. cbv zeta.
  assert (Hr1 : hd_ok not_digit_hd rest).
  { destruct rest; [exact I|]. cbn [hd_ok] in *. apply andb_prop in Hr. tauto. }
  rewrite scan_digits_spec; [|exact Hd|exact Hr1|rewrite app_length; lia].
  cbn [app].
  assert (Hdot : N.eqb (cur rest) 46 = false).
  { destruct rest as [|c rest]; [reflexivity|]. cbn [hd_ok] in Hr.
    apply andb_prop in Hr. destruct Hr as [Hx Hy]. unfold not_digit_hd in Hx.
    apply andb_prop in Hx. destruct Hx as [Ha _]. apply asc_lt in Ha.
    rewrite cur_cons by exact Ha. apply Bool.negb_true_iff. exact Hy. }
  rewrite Hdot. unfold finish_number.
  destruct (of_decimal false ds []); try reflexivity. discriminate Hinf.
Qed.

(* ------------------------------------------------------------------ *)
(** * 7. next_item, token by token                                      *)
(* ------------------------------------------------------------------ *)

Ltac ev_bN :=
  repeat match goal with
  | |- context [bN (Ascii ?a ?b ?c ?d ?e ?f ?g ?h)] =>
    let v := eval vm_compute in (bN (Ascii a b c d e f g h)) in
    change (bN (Ascii a b c d e f g h)) with v
  end.
Ltac ev_eqb :=
  repeat match goal with
  | |- context [N.eqb (Npos ?p) ?b] =>
    let v := eval vm_compute in (N.eqb (Npos p) b) in
    lazymatch v with
    | true => change (N.eqb (Npos p) b) with true
    | false => change (N.eqb (Npos p) b) with false
    end
  end.
Ltac conc :=
  repeat (rewrite cur_cons by (vm_compute; reflexivity));
  repeat (rewrite advance_cons by (vm_compute; reflexivity));
  ev_bN; ev_eqb; cbv iota; cbn [orb].

Lemma ws_not_name : forall c, ws_char c = true -> not_name_hd c = true.
Proof.
  intros c H. unfold ws_char in H. apply andb_prop in H. destruct H as [Ha Hs].
  unfold not_name_hd. rewrite Ha. cbn [andb].
  pose proof (forall_below_128
    (fun n => implb (space_rune_ascii n) (negb (name_rune_ascii n))) eq_refl (bN c) (asc_lt c Ha)) as H.
  cbv beta in H. rewrite Hs in H. exact H.
Qed.

Lemma name_not_star : forall nm, name_ok nm = true -> nm <> "*".
Proof. intros nm H ->. vm_compute in H. discriminate. Qed.

(* what sep_ok gives about the text that follows *)
Lemma sep_cur_ne : forall t L k,
  sep_ok t (hd_error L) = true ->
  (forall c, asc c = true ->
     match t with
     | TNum _ => andb (negb (digit_rune_ascii (bN c))) (negb (N.eqb (bN c) 46))
     | TName _ => andb (negb (name_rune_ascii (bN c))) (negb (N.eqb (bN c) 58))
     | TP ISlash => negb (N.eqb (bN c) 47)
     | TP ILt | TP IGt => negb (N.eqb (bN c) 61)
     | TP IDot => andb (negb (N.eqb (bN c) 46)) (negb (digit_rune_ascii (bN c)))
     | _ => true
     end = true -> bN c <> k) ->
  k <> 0%N -> N.eqb (cur L) k = false.
Proof.
  intros t L k Hs Hk H0. apply N.eqb_neq. destruct L as [|c L].
  - rewrite cur_nil. congruence.
  - cbn [hd_error sep_ok] in Hs. apply andb_prop in Hs. destruct Hs as [Ha Hs].
    rewrite cur_cons by (apply asc_lt; exact Ha). apply Hk; assumption.
Qed.

Theorem next_item_tok : forall s w t r,
  skipsp (s_rest s) = norm ((w, t) :: r) -> lay_ok ((w, t) :: r) = true -> s_name s <> "*" ->
  exists s', next_item s = Ok s' /\ St s' t r.
Proof.
  intros s w t r Hsk Hlay Hstar.
  rewrite norm_cons in Hsk by exact Hlay.
  apply lay_ok_cons in Hlay. destruct Hlay as [Hw [Ht [Hsep [Heof Hlr]]]].
  set (L := render r) in *.
  assert (HnormL : skipsp L = norm r) by reflexivity.
  destruct t as [ds|b|nm|nm aw|p|].
  - (* number *)
    cbn [ttext tok_ok] in *.
    destruct ds as [|c ds']; [discriminate|]. cbn [andb] in Ht.
    apply andb_prop in Ht. destruct Ht as [Hd Hinf].
    assert (Hc : digit_char_b c = true) by (cbn [forallb] in Hd; apply andb_prop in Hd; tauto).
    assert (Hr : (48 <= bN c <= 57)%N) by (nb; lia).
    assert (Hcur : cur ((c :: ds') ++ L) = bN c) by (cbn [app]; apply cur_cons; lia).
    eexists. split.
    + unfold next_item. cbv zeta. rewrite Hsk, Hcur.
      repeat match goal with
      | |- context [N.eqb (bN c) ?k] => rewrite (proj2 (N.eqb_neq (bN c) k)) by lia
      end.
      cbv iota. cbn [orb]. rewrite (digit_char_rune c Hc).
      rewrite scan_number_spec; [cbn [cbind]; reflexivity|exact Hd|exact Hinf|].
      destruct L as [|c2 L2]; [exact I|]. cbn [hd_ok hd_error sep_ok] in *.
      unfold not_digit_hd. apply andb_prop in Hsep. destruct Hsep as [Ha Hb].
      apply andb_prop in Hb. destruct Hb as [Hb1 Hb2]. rewrite Ha, Hb1, Hb2. reflexivity.
    + constructor; cbn [s_typ s_rest s_name s_numval ttyp]; auto.
  - (* string *)
    cbn [ttext tok_ok] in *.
    assert (Hl : ("'"%char :: list_of_string b ++ ["'"%char]) ++ L
                 = "'"%char :: list_of_string b ++ "'"%char :: L).
    { cbn [app]. rewrite <- app_assoc. reflexivity. }
    rewrite Hl in Hsk.
    eexists. split.
    + unfold next_item. cbv zeta. rewrite Hsk.
      rewrite (cur_cons "'"%char) by (vm_compute; reflexivity).
      ev_bN; ev_eqb; cbv iota; cbn [orb].
      rewrite scan_string_spec by exact Ht. reflexivity.
    + constructor; cbn [s_typ s_rest s_name s_strval ttyp]; auto.
  - (* name *)
    cbn [ttext tok_ok] in *.
    destruct (name_ok_inv nm Ht) as [c [nr [E [Hc Hnr]]]].
    assert (Hr : (97 <= bN c <= 122)%N) by (nb; lia).
    assert (Hcur : cur (list_of_string nm ++ L) = bN c)
      by (rewrite E; cbn [app]; apply cur_cons; lia).
    assert (HL58 : N.eqb (cur L) 58 = false).
    { apply (sep_cur_ne (TName nm)); [exact Hsep| |discriminate].
      intros c0 _ H0. apply andb_prop in H0. destruct H0 as [_ H0].
      apply Bool.negb_true_iff in H0. apply N.eqb_neq. exact H0. }
    assert (HLn : hd_ok not_name_hd L).
    { destruct L as [|c2 L2]; [exact I|]. cbn [hd_ok hd_error sep_ok] in *.
      unfold not_name_hd. apply andb_prop in Hsep. destruct Hsep as [Ha Hb].
      apply andb_prop in Hb. destruct Hb as [Hb1 Hb2]. rewrite Ha, Hb1. reflexivity. }
    destruct (cur_norm r Hlr) as [Hn58 Hn40].
    eexists. split.
    + unfold next_item. cbv zeta. rewrite Hsk, Hcur.
      repeat match goal with
      | |- context [N.eqb (bN c) ?k] => rewrite (proj2 (N.eqb_neq (bN c) k)) by lia
      end.
      cbv iota. cbn [orb].
      rewrite is_digit_rune_ascii by lia.
      replace (digit_rune_ascii (bN c)) with false
        by (symmetry; unfold digit_rune_ascii; apply Bool.andb_false_iff; right; apply N.leb_gt; lia).
      assert (Hnc : name_char c = true) by (unfold name_char; rewrite Hc; reflexivity).
      rewrite (name_char_rune c Hnc).
      rewrite scan_name_spec by assumption. cbv iota beta.
      rewrite HL58. rewrite HnormL.
      rewrite (proj2 (N.eqb_neq _ _) Hn58). reflexivity.
    + constructor; cbn [s_typ s_rest s_name s_prefix s_canfunc ttyp].
      * reflexivity.
      * unfold norm. rewrite !skipsp_idem. reflexivity.
      * apply name_not_star. exact Ht.
      * split; [reflexivity|]. split; [reflexivity|].
        unfold norm in *. rewrite !skipsp_idem. exact Hn40.
  - (* axis *)
    cbn [ttext tok_ok] in *.
    apply andb_prop in Ht. destruct Ht as [Ht Haw].
    destruct (name_ok_inv nm Ht) as [c [nr [E [Hc Hnr]]]].
    assert (Hr : (97 <= bN c <= 122)%N) by (nb; lia).
    assert (Hl : (list_of_string nm ++ aw ++ [":"%char; ":"%char]) ++ L
                 = list_of_string nm ++ (aw ++ ":"%char :: ":"%char :: L)).
    { rewrite <- !app_assoc. reflexivity. }
    rewrite Hl in Hsk.
    assert (Hcur : cur (list_of_string nm ++ (aw ++ ":"%char :: ":"%char :: L)) = bN c)
      by (rewrite E; cbn [app]; apply cur_cons; lia).
    assert (HLn : hd_ok not_name_hd (aw ++ ":"%char :: ":"%char :: L)).
    { destruct aw as [|c2 aw2]; [vm_compute; reflexivity|]. cbn [app hd_ok].
      apply ws_not_name. cbn [forallb] in Haw. apply andb_prop in Haw. tauto. }
    eexists. split.
    + unfold next_item. cbv zeta. rewrite Hsk, Hcur.
      repeat match goal with
      | |- context [N.eqb (bN c) ?k] => rewrite (proj2 (N.eqb_neq (bN c) k)) by lia
      end.
      cbv iota. cbn [orb].
      rewrite is_digit_rune_ascii by lia.
      replace (digit_rune_ascii (bN c)) with false
        by (symmetry; unfold digit_rune_ascii; apply Bool.andb_false_iff; right; apply N.leb_gt; lia).
      assert (Hnc : name_char c = true) by (unfold name_char; rewrite Hc; reflexivity).
      rewrite (name_char_rune c Hnc).
      rewrite scan_name_spec by assumption. cbv iota beta.
      destruct aw as [|c2 aw2].
      * cbn [app]. conc. reflexivity.
      * cbn [forallb] in Haw. apply andb_prop in Haw. destruct Haw as [Hc2 Haw2].
        assert (Hws : skipsp ((c2 :: aw2) ++ ":"%char :: ":"%char :: L) = ":"%char :: ":"%char :: L).
        { apply skipsp_ws; [cbn [forallb]; rewrite Hc2, Haw2; reflexivity|vm_compute; reflexivity]. }
        rewrite Hws. cbn [app].
        pose proof (asc_lt c2 (ws_char_asc c2 Hc2)) as Ha2.
        rewrite (cur_cons c2) by exact Ha2.
        assert (H258 : N.eqb (bN c2) 58 = false).
        { apply N.eqb_neq. intro E58. unfold ws_char in Hc2. apply andb_prop in Hc2.
          destruct Hc2 as [_ Hc2]. rewrite E58 in Hc2. vm_compute in Hc2. discriminate. }
        rewrite H258. conc. reflexivity.
    + constructor; cbn [s_typ s_rest s_name ttyp].
      * reflexivity.
      * unfold norm, L. rewrite !skipsp_idem. reflexivity.
      * apply name_not_star. exact Ht.
      * reflexivity.
  - (* punctuation *)
    cbn [ttext tok_ok] in *.
    assert (Hdot : forall k, (match p with
                              | ISlash => k = 47%N | ILt | IGt => k = 61%N | IDot => k = 46%N
                              | _ => False end) -> N.eqb (cur L) k = false).
    { intros k Hk. apply (sep_cur_ne (TP p)); [exact Hsep| |destruct p; try contradiction; subst k; discriminate].
      intros c0 _ H0. destruct p; try contradiction; subst k;
        try (apply andb_prop in H0; destruct H0 as [H0 _]);
        apply Bool.negb_true_iff in H0; apply N.eqb_neq; exact H0. }
    assert (Hdig : p = IDot -> is_digit_rune (cur L) = false).
    { intros ->. destruct L as [|c2 L2]; [vm_compute; reflexivity|].
      cbn [hd_error sep_ok] in Hsep. apply andb_prop in Hsep. destruct Hsep as [Ha Hb].
      apply andb_prop in Hb. destruct Hb as [_ Hb]. apply asc_lt in Ha.
      rewrite cur_cons by exact Ha. rewrite is_digit_rune_ascii by exact Ha.
      apply Bool.negb_true_iff. exact Hb. }
    destruct p; try discriminate Ht;
      (eexists; split;
       [ unfold next_item; cbv zeta; rewrite Hsk; unfold ptext, pstr, list_of_string;
         cbn [list_ascii_of_string app]; conc;
         try (rewrite Hdot by (cbv beta iota; auto));
         try (rewrite (Hdig eq_refl));
         cbv iota; reflexivity
       | constructor; cbn [s_typ s_rest s_name ttyp]; auto ]).
  - (* EOF *)
    cbn [ttext] in *. pose proof (Heof eq_refl) as Hr0. subst r. subst L. cbn [render app] in *.
    eexists. split.
    + unfold next_item. cbv zeta. rewrite Hsk. rewrite cur_nil. cbn [N.eqb]. reflexivity.
    + constructor; cbn [s_typ s_rest s_name ttyp]; auto.
Qed.

Print Assumptions next_item_tok.

(* ------------------------------------------------------------------ *)
(** * 7b. The same facts for an arbitrary rest of the input             *)
(* ------------------------------------------------------------------ *)

(* name: after the name the scanner has already skipped white space (to look
   for '(' and ':'), and can_func says whether a '(' follows *)
Theorem next_item_name : forall s ws nm rest,
  forallb ws_char ws = true -> name_ok nm = true ->
  hd_ok not_name_hd rest -> cur rest <> 58%N -> cur (skipsp rest) <> 58%N ->
  s_rest s = ws ++ list_of_string nm ++ rest ->
  next_item s = Ok (mkS (skipsp rest) IName nm "" (s_strval s) (s_numval s)
                        (N.eqb (cur (skipsp rest)) 40)).
Proof.
  intros s ws nm rest Hw Ht HLn H58 Hs58 Hs.
  destruct (name_ok_inv nm Ht) as [c [nr [E [Hc Hnr]]]].
  assert (Hr : (97 <= bN c <= 122)%N) by (nb; lia).
  assert (Hsk : skipsp (s_rest s) = list_of_string nm ++ rest).
  { rewrite Hs. apply skipsp_ws; [exact Hw|]. rewrite E. cbn [app hd_ok].
    unfold nonsp, asc, space_rune_ascii.
    replace (N.ltb (bN c) 128) with true by (symmetry; apply N.ltb_lt; lia).
    replace (N.leb (bN c) 13) with false by (symmetry; apply N.leb_gt; lia).
    replace (N.eqb (bN c) 32) with false by (symmetry; apply N.eqb_neq; lia).
    rewrite Bool.andb_false_r. reflexivity. }
  assert (Hcur : cur (list_of_string nm ++ rest) = bN c)
    by (rewrite E; cbn [app]; apply cur_cons; lia).
  unfold next_item. cbv zeta. rewrite Hsk, Hcur.
  repeat match goal with
  | |- context [N.eqb (bN c) ?k] => rewrite (proj2 (N.eqb_neq (bN c) k)) by lia
  end.
  cbv iota. cbn [orb].
  rewrite is_digit_rune_ascii by lia.
  replace (digit_rune_ascii (bN c)) with false
    by (symmetry; unfold digit_rune_ascii; apply Bool.andb_false_iff; right; apply N.leb_gt; lia).
  assert (Hnc : name_char c = true) by (unfold name_char; rewrite Hc; reflexivity).
  rewrite (name_char_rune c Hnc).
  rewrite scan_name_spec by assumption. cbv iota beta.
  rewrite (proj2 (N.eqb_neq _ _) H58). rewrite (proj2 (N.eqb_neq _ _) Hs58).
  rewrite !skipsp_idem. reflexivity.
Qed.

Theorem next_item_number : forall s ws ds rest,
  forallb ws_char ws = true -> ds <> [] -> forallb digit_char_b ds = true ->
  not_inf (of_decimal false ds []) = true ->
  hd_ok (fun c => andb (not_digit_hd c) (negb (N.eqb (bN c) 46))) rest ->
  s_rest s = ws ++ ds ++ rest ->
  next_item s = Ok (mkS rest INumber (s_name s) (s_prefix s) (s_strval s)
                        (of_decimal false ds []) (s_canfunc s)).
Proof.
  intros s ws ds rest Hw Hne Hd Hinf Hr Hs.
  destruct ds as [|c ds']; [congruence|].
  assert (Hc : digit_char_b c = true) by (cbn [forallb] in Hd; apply andb_prop in Hd; tauto).
  assert (Hrg : (48 <= bN c <= 57)%N) by (nb; lia).
  assert (Hsk : skipsp (s_rest s) = (c :: ds') ++ rest).
  { rewrite Hs. apply skipsp_ws; [exact Hw|]. cbn [app hd_ok].
    unfold nonsp, asc, space_rune_ascii.
    replace (N.ltb (bN c) 128) with true by (symmetry; apply N.ltb_lt; lia).
    replace (N.leb (bN c) 13) with false by (symmetry; apply N.leb_gt; lia).
    replace (N.eqb (bN c) 32) with false by (symmetry; apply N.eqb_neq; lia).
    rewrite Bool.andb_false_r. reflexivity. }
  assert (Hcur : cur ((c :: ds') ++ rest) = bN c) by (cbn [app]; apply cur_cons; lia).
  unfold next_item. cbv zeta. rewrite Hsk, Hcur.
  repeat match goal with
  | |- context [N.eqb (bN c) ?k] => rewrite (proj2 (N.eqb_neq (bN c) k)) by lia
  end.
  cbv iota. cbn [orb]. rewrite (digit_char_rune c Hc).
  rewrite scan_number_spec by assumption. reflexivity.
Qed.

Theorem next_item_string : forall s ws b rest,
  forallb ws_char ws = true -> forallb str_char (list_of_string b) = true ->
  s_rest s = ws ++ ("'"%char :: list_of_string b ++ "'"%char :: rest) ->
  next_item s = Ok (mkS rest IString (s_name s) (s_prefix s) b (s_numval s) (s_canfunc s)).
Proof.
  intros s ws b rest Hw Hb Hs.
  assert (Hsk : skipsp (s_rest s) = "'"%char :: list_of_string b ++ "'"%char :: rest).
  { rewrite Hs. apply skipsp_ws; [exact Hw|]. vm_compute. reflexivity. }
  unfold next_item. cbv zeta. rewrite Hsk.
  rewrite (cur_cons "'"%char) by (vm_compute; reflexivity).
  ev_bN; ev_eqb; cbv iota; cbn [orb].
  rewrite scan_string_spec by exact Hb. reflexivity.
Qed.

(* punctuation; [sep_ok] says the next character does not extend the token
   ("/" before "/", "<" before "=", "." before "." or a digit) *)
Theorem next_item_punct : forall s ws p rest,
  forallb ws_char ws = true -> is_punct p = true ->
  sep_ok (TP p) (hd_error rest) = true ->
  s_rest s = ws ++ ptext p ++ rest ->
  next_item s = Ok (mkS rest p (s_name s) (s_prefix s) (s_strval s) (s_numval s) (s_canfunc s)).
Proof.
  intros s ws p rest Hw Ht Hsep Hs.
  assert (Hsk : skipsp (s_rest s) = ptext p ++ rest).
  { rewrite Hs. apply skipsp_ws; [exact Hw|].
    destruct (tok_head (TP p) Ht ltac:(discriminate)) as [c [tl [E [Hc _]]]].
    cbn [ttext] in E. rewrite E. exact Hc. }
  assert (Hdot : forall k, (match p with
                            | ISlash => k = 47%N | ILt | IGt => k = 61%N | IDot => k = 46%N
                            | _ => False end) -> N.eqb (cur rest) k = false).
  { intros k Hk. apply (sep_cur_ne (TP p)); [exact Hsep| |destruct p; try contradiction; subst k; discriminate].
    intros c0 _ H0. destruct p; try contradiction; subst k;
      try (apply andb_prop in H0; destruct H0 as [H0 _]);
      apply Bool.negb_true_iff in H0; apply N.eqb_neq; exact H0. }
  assert (Hdig : p = IDot -> is_digit_rune (cur rest) = false).
  { intros ->. destruct rest as [|c2 L2]; [vm_compute; reflexivity|].
    cbn [hd_error sep_ok] in Hsep. apply andb_prop in Hsep. destruct Hsep as [Ha Hb].
    apply andb_prop in Hb. destruct Hb as [_ Hb]. apply asc_lt in Ha.
    rewrite cur_cons by exact Ha. rewrite is_digit_rune_ascii by exact Ha.
    apply Bool.negb_true_iff. exact Hb. }
  destruct p; try discriminate Ht;
    (unfold next_item; cbv zeta; rewrite Hsk; unfold ptext, pstr, list_of_string;
     cbn [list_ascii_of_string app]; conc;
     try (rewrite Hdot by (cbv beta iota; auto));
     try (rewrite (Hdig eq_refl));
     cbv iota; reflexivity).
Qed.

(* end of input *)
Theorem next_item_eof_ws : forall s ws,
  forallb ws_char ws = true -> s_rest s = ws ->
  next_item s = Ok (mkS [] IEOF (s_name s) (s_prefix s) (s_strval s) (s_numval s) (s_canfunc s)).
Proof.
  intros s ws Hw Hs.
  assert (Hsk : skipsp (s_rest s) = []).
  { rewrite Hs. rewrite <- (app_nil_r ws). apply skipsp_ws; [exact Hw|exact I]. }
  unfold next_item. cbv zeta. rewrite Hsk. reflexivity.
Qed.

Example next_item_name_ex :
  next_item (mkS (list_of_string "  count (x)") IEOF "" "" "" fzero false)
  = Ok (mkS (list_of_string "(x)") IName "count" "" "" fzero true).
Proof.
  rewrite (next_item_name _ (list_of_string "  ") "count" (list_of_string " (x)"));
    vm_compute; try reflexivity; discriminate.
Qed.

(* the scanner at the start of a rendered layout *)
Lemma list_of_string_of_list : forall l, list_of_string (string_of_list l) = l.
Proof. intros l. apply list_ascii_of_string_of_list_ascii. Qed.

Lemma init_scanner_St : forall w t r,
  lay_ok ((w, t) :: r) = true ->
  exists s1, next_item (init_scanner (string_of_list (render ((w, t) :: r)))) = Ok s1 /\ St s1 t r.
Proof.
  intros w t r H. apply next_item_tok with (w := w); [|exact H|cbn; discriminate].
  cbn [init_scanner s_rest]. rewrite list_of_string_of_list. reflexivity.
Qed.

(* ------------------------------------------------------------------ *)
(** * 8. White space before a token (C10, token level)                  *)
(* ------------------------------------------------------------------ *)

(* Whatever white space stands in front of the next token, next_item returns
   the same state. *)
Theorem C10_ws_before_token : forall s ws ws' l,
  forallb ws_char ws = true -> forallb ws_char ws' = true ->
  s_rest s = ws ++ l ->
  next_item s = next_item (set_rest s (ws' ++ l)).
Proof.
  intros s ws ws' l Hw Hw' Hs. apply next_item_rest_ext.
  rewrite Hs. rewrite !skipsp_ws_any by assumption. reflexivity.
Qed.
Print Assumptions C10_ws_before_token.

(* ... and the state it returns carries the token, with the rest of the
   stream in front of it, independently of the white space chosen. *)
Theorem C10_token_any_ws : forall s w t r,
  lay_ok ((w, t) :: r) = true -> s_rest s = render ((w, t) :: r) -> s_name s <> "*" ->
  exists s', next_item s = Ok s' /\ St s' t r.
Proof.
  intros s w t r Hl Hs Hn. apply next_item_tok with (w := w); [|exact Hl|exact Hn].
  rewrite Hs. reflexivity.
Qed.

(* the layouts differ only in white space: same tokens *)
Definition toks_of (r : layout) : list token := map snd r.

(* examples *)
Definition sp : list ascii := [" "%char].
Definition lay_ex1 : layout :=
  [ ([], TName "child"); (sp, TP ILParens); ([], TNum ["4"%char; "2"%char]); ([], TP IRParens);
    (sp, TP ILe); ([], TStr "x y"); (["009"%char; "010"%char], TAxe "descendant-or-self" sp);
    ([], TName "node"); ([], TP ILParens); ([], TP IRParens); (sp, TEOF) ].

Example lay_ex1_ok : lay_ok lay_ex1 = true.
Proof. vm_compute. reflexivity. Qed.
Example lay_ex1_text :
  string_of_list (render lay_ex1) =
  String.append "child (42) <='x y'" (String "009" (String "010" "descendant-or-self ::node() ")).
Proof. vm_compute. reflexivity. Qed.

Example next_item_ex1 :
  exists s1, next_item (init_scanner (string_of_list (render lay_ex1))) = Ok s1 /\
    s_typ s1 = IName /\ s_name s1 = "child" /\ s_prefix s1 = "" /\ s_canfunc s1 = true.
Proof.
  destruct (init_scanner_St _ _ _ lay_ex1_ok) as [s1 [H1 H2]].
  exists s1. split; [exact H1|]. destruct H2 as [Ha Hb Hc Hd]. cbn in Ha, Hd. tauto.
Qed.
