(* Doc.v — documents, node addresses, the navigator contract (the cursor
   operations of xpath.NodeNavigator as implemented by the harness-owned
   navigator), and the engine-order enumerations of the axes.
   Definitions only. *)
From XP Require Import Base.
Open Scope nat_scope.

Inductive kind := KRoot | KElem | KText | KComment.

Record attr := mkAttr { a_prefix : string; a_local : string; a_ns : string; a_value : string }.

(* prefix, local name, namespace URI, character data (text/comment) *)
Inductive tree := T (k : kind) (pre loc ns data : string) (attrs : list attr) (kids : list tree).

Definition t_kind t := match t with T k _ _ _ _ _ _ => k end.
Definition t_prefix t := match t with T _ p _ _ _ _ _ => p end.
Definition t_local t := match t with T _ _ l _ _ _ _ => l end.
Definition t_ns t := match t with T _ _ _ n _ _ _ => n end.
Definition t_data t := match t with T _ _ _ _ d _ _ => d end.
Definition t_attrs t := match t with T _ _ _ _ _ a _ => a end.
Definition t_kids t := match t with T _ _ _ _ _ _ k => k end.

(* A node is addressed by the child indices from the root (outermost first)
   and, for an attribute, its index in the owner's attribute list. *)
Record node := mkNode { npath : list nat; nattr : option nat }.

Definition root_node : node := mkNode [] None.
Definition elem_at (p : list nat) : node := mkNode p None.

Fixpoint subtree (t : tree) (p : list nat) : option tree :=
  match p with
  | [] => Some t
  | i :: q => match nth_error (t_kids t) i with
              | Some c => subtree c q
              | None => None
              end
  end.

Definition valid (t : tree) (n : node) : bool :=
  match subtree t (npath n) with
  | None => false
  | Some s => match nattr n with
              | None => true
              | Some i => Nat.ltb i (List.length (t_attrs s))
              end
  end.

(* Go NodeType constants *)
Inductive ntype := NTRoot | NTElem | NTAttr | NTText | NTComment | NTAll.

Definition ntype_eqb (a b : ntype) : bool :=
  match a, b with
  | NTRoot, NTRoot | NTElem, NTElem | NTAttr, NTAttr | NTText, NTText
  | NTComment, NTComment | NTAll, NTAll => true
  | _, _ => false
  end.

Definition kind_ntype (k : kind) : ntype :=
  match k with KRoot => NTRoot | KElem => NTElem | KText => NTText | KComment => NTComment end.

Section WithDoc.
Variable D : tree.

Definition node_tree (n : node) : option tree := subtree D (npath n).

Definition node_attr (n : node) : option attr :=
  match node_tree n, nattr n with
  | Some s, Some i => nth_error (t_attrs s) i
  | _, _ => None
  end.

Definition node_type (n : node) : ntype :=
  match nattr n with
  | Some _ => NTAttr
  | None => match node_tree n with Some s => kind_ntype (t_kind s) | None => NTRoot end
  end.

Definition local_name (n : node) : string :=
  match nattr n with
  | Some _ => match node_attr n with Some a => a_local a | None => "" end
  | None => match node_tree n with
            | Some s => match t_kind s with KElem => t_local s | _ => "" end
            | None => ""
            end
  end.

Definition node_prefix (n : node) : string :=
  match nattr n with
  | Some _ => match node_attr n with Some a => a_prefix a | None => "" end
  | None => match node_tree n with Some s => t_prefix s | None => "" end
  end.

Definition node_ns (n : node) : string :=
  match nattr n with
  | Some _ => match node_attr n with Some a => a_ns a | None => "" end
  | None => match node_tree n with Some s => t_ns s | None => "" end
  end.

(* concatenation of the text descendants, in document order *)
Fixpoint text_of (t : tree) : string :=
  match t with
  | T k _ _ _ d _ ks =>
    match k with
    | KText => d
    | KComment => ""
    | _ => (fix go (l : list tree) : string :=
              match l with [] => "" | c :: r => text_of c ++ go r end) ks
    end
  end.

Definition tree_value (t : tree) : string :=
  match t_kind t with
  | KText | KComment => t_data t
  | _ => text_of t
  end.

Definition node_value (n : node) : string :=
  match nattr n with
  | Some _ => match node_attr n with Some a => a_value a | None => "" end
  | None => match node_tree n with Some s => tree_value s | None => "" end
  end.

(* ---- cursor operations: Some target when the Go method returns true ---- *)

Definition last_index (p : list nat) : option nat :=
  match rev p with [] => None | i :: _ => Some i end.
Definition parent_path (p : list nat) : list nat := removelast p.

Definition move_parent (n : node) : option node :=
  match nattr n with
  | Some _ => Some (mkNode (npath n) None)
  | None => match npath n with
            | [] => None
            | _ => Some (mkNode (parent_path (npath n)) None)
            end
  end.

Definition n_attrs (n : node) : nat :=
  match node_tree n with Some s => List.length (t_attrs s) | None => 0 end.
Definition n_kids (n : node) : nat :=
  match node_tree n with Some s => List.length (t_kids s) | None => 0 end.

Definition move_next_attr (n : node) : option node :=
  let i := match nattr n with Some i => S i | None => 0 end in
  if Nat.ltb i (n_attrs n) then Some (mkNode (npath n) (Some i)) else None.

Definition move_child (n : node) : option node :=
  match nattr n with
  | Some _ => None
  | None => if Nat.ltb 0 (n_kids n) then Some (mkNode (npath n ++ [0]) None) else None
  end.

Definition move_next (n : node) : option node :=
  match nattr n, last_index (npath n) with
  | None, Some i =>
    let pp := parent_path (npath n) in
    if Nat.ltb (S i) (n_kids (mkNode pp None)) then Some (mkNode (pp ++ [S i]) None) else None
  | _, _ => None
  end.

Definition move_prev (n : node) : option node :=
  match nattr n, last_index (npath n) with
  | None, Some (S i) => Some (mkNode (parent_path (npath n) ++ [i]) None)
  | _, _ => None
  end.

Definition move_first (n : node) : option node :=
  match nattr n, last_index (npath n) with
  | None, Some (S _) => Some (mkNode (parent_path (npath n) ++ [0]) None)
  | _, _ => None
  end.

(* ---- enumerations in the order the engine's loops visit the nodes ---- *)

Definition children (n : node) : list node :=
  match nattr n with
  | Some _ => []
  | None => map (fun i => mkNode (npath n ++ [i]) None) (seq 0 (n_kids n))
  end.

Definition attributes_after (n : node) : list node :=
  let i := match nattr n with Some i => S i | None => 0 end in
  map (fun j => mkNode (npath n) (Some j)) (seq i (n_attrs n - i)).

(* paths strictly below a tree, pre-order, relative *)
Fixpoint below (t : tree) : list (list nat) :=
  match t with
  | T _ _ _ _ _ _ ks =>
    (fix go (l : list tree) (i : nat) : list (list nat) :=
       match l with
       | [] => []
       | c :: r => (([i] :: map (cons i) (below c)) ++ go r (S i))%list
       end) ks 0
  end.

Definition descendants (n : node) : list node :=
  match nattr n with
  | Some _ => []
  | None => match node_tree n with
            | Some s => map (fun r => mkNode (npath n ++ r) None) (below s)
            | None => []
            end
  end.

Definition desc_or_self (n : node) : list node := n :: descendants n.

(* proper ancestors, nearest first (repeated MoveToParent) *)
Fixpoint prefixes_desc (p : list nat) (fuel : nat) : list (list nat) :=
  match fuel with
  | 0 => []
  | S f => match p with
           | [] => []
           | _ => let q := parent_path p in q :: prefixes_desc q f
           end
  end.

Definition ancestors (n : node) : list node :=
  match nattr n with
  | Some _ => map elem_at (npath n :: prefixes_desc (npath n) (List.length (npath n)))
  | None => map elem_at (prefixes_desc (npath n) (List.length (npath n)))
  end.

Definition following_siblings (n : node) : list node :=
  match nattr n, last_index (npath n) with
  | None, Some i =>
    let pp := parent_path (npath n) in
    map (fun j => mkNode (pp ++ [j]) None) (seq (S i) (n_kids (mkNode pp None) - S i))
  | _, _ => []
  end.

(* nearest first (repeated MoveToPrevious) *)
Definition preceding_siblings (n : node) : list node :=
  match nattr n, last_index (npath n) with
  | None, Some i =>
    let pp := parent_path (npath n) in
    map (fun j => mkNode (pp ++ [j]) None) (rev (seq 0 i))
  | _, _ => []
  end.

(* ---- document order ---- *)
Fixpoint path_compare (a b : list nat) : comparison :=
  match a, b with
  | [], [] => Eq
  | [], _ :: _ => Lt
  | _ :: _, [] => Gt
  | x :: a', y :: b' => match Nat.compare x y with Eq => path_compare a' b' | c => c end
  end.

Fixpoint is_prefix (a b : list nat) : bool :=
  match a, b with
  | [], _ => true
  | x :: a', y :: b' => andb (Nat.eqb x y) (is_prefix a' b')
  | _ :: _, [] => false
  end.

(* element < its attributes (by index) < its children *)
Definition doc_compare (a b : node) : comparison :=
  if list_eq_dec Nat.eq_dec (npath a) (npath b) then
    match nattr a, nattr b with
    | None, None => Eq
    | None, Some _ => Lt
    | Some _, None => Gt
    | Some i, Some j => Nat.compare i j
    end
  else
    match nattr a, nattr b with
    | Some _, _ => if is_prefix (npath a) (npath b) then Lt else path_compare (npath a) (npath b)
    | _, Some _ => if is_prefix (npath b) (npath a) then Gt else path_compare (npath a) (npath b)
    | None, None => path_compare (npath a) (npath b)
    end.

Definition doc_ltb (a b : node) : bool :=
  match doc_compare a b with Lt => true | _ => false end.

End WithDoc.

Definition node_eqb (a b : node) : bool :=
  andb (if list_eq_dec Nat.eq_dec (npath a) (npath b) then true else false)
       (match nattr a, nattr b with
        | None, None => true
        | Some i, Some j => Nat.eqb i j
        | _, _ => false
        end).

(* all nodes of a document in document order *)
Definition all_nodes (D : tree) : list node :=
  flat_map (fun n => n :: attributes_after D n) (desc_or_self D root_node).
