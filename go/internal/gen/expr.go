// Package gen holds the case generators of the correspondence check: one
// PRNG state, expression trees with token-level printers (explicit and
// abbreviated syntax, white-space placement), document generators.
package gen

import (
	"strings"
)

// Rand is splitmix64: every random choice of a run derives from one seed.
type Rand struct{ s uint64 }

func NewRand(seed uint64) *Rand { return &Rand{seed*0x9E3779B97F4A7C15 + 0x1234567} }
func (r *Rand) next() uint64 {
	r.s += 0x9E3779B97F4A7C15
	z := r.s
	z = (z ^ (z >> 30)) * 0xBF58476D1CE4E5B9
	z = (z ^ (z >> 27)) * 0x94D049BB133111EB
	return z ^ (z >> 31)
}
func (r *Rand) Intn(n int) int {
	if n <= 0 {
		return 0
	}
	return int(r.next() % uint64(n))
}
func (r *Rand) Pick(xs []string) string { return xs[r.Intn(len(xs))] }
func (r *Rand) Chance(pct int) bool     { return r.Intn(100) < pct }
func (r *Rand) U64() uint64              { return r.next() }

// Mode selects the concrete syntax.
type Mode struct {
	Abbrev bool // a for child::a, @a, ., .., //
	Spaces int  // 0 minimal, 1 around binary operators
}

// Ex is an expression tree that prints itself as a token list.
type Ex interface {
	Toks(m Mode) []string
}

// nameLike reports whether byte c can be part of a name or number token.
func nameLike(c byte) bool {
	return c == '_' || c == '-' || c == '.' || (c >= '0' && c <= '9') || (c >= 'a' && c <= 'z') || (c >= 'A' && c <= 'Z') || c >= 0x80
}

// SepRequired decides whether white space is needed between two tokens.
func SepRequired(a, b string) bool {
	if a == "" || b == "" {
		return false
	}
	x, y := a[len(a)-1], b[0]
	if nameLike(x) && nameLike(y) {
		return true
	}
	// '*' directly after a name-like token would still lex, but keep "a * b" readable
	// cases that would glue into another token
	switch {
	case x == '/' && y == '/':
		return true
	case x == '<' && y == '=', x == '>' && y == '=', x == '!' && y == '=':
		return true
	case x == '.' && y == '.':
		return true
	case x == ':' && y == ':':
		return false
	}
	return false
}

// Join renders a token list with the fewest separators.
func Join(toks []string) string {
	var b strings.Builder
	for i, t := range toks {
		if i > 0 && SepRequired(toks[i-1], t) {
			b.WriteByte(' ')
		}
		b.WriteString(t)
	}
	return b.String()
}

// JoinSpaced renders a token list with a separator chosen per boundary:
// sep(i) is consulted for boundary i (between token i-1 and i) when white space
// is optional there.  Boundaries inside a QName / axis '::' are never split by
// the token printers (they emit such pieces as one token).
func JoinSpaced(toks []string, sep func(i int) string) string {
	var b strings.Builder
	for i, t := range toks {
		if i > 0 {
			s := sep(i)
			if s == "" && SepRequired(toks[i-1], t) {
				s = " "
			}
			b.WriteString(s)
		}
		b.WriteString(t)
	}
	return b.String()
}

func Str(e Ex, m Mode) string { return Join(e.Toks(m)) }

type Step struct {
	Axis, Test string
	Preds      []Ex
	DSlash     bool // reached by '//' instead of '/'
}

type Path struct {
	Abs   bool
	Base  Ex // optional filter-expression base:  Base/steps
	Steps []Step
}

func stepToks(s Step, m Mode) []string {
	var t []string
	switch {
	case m.Abbrev && s.Axis == "self" && s.Test == "node()":
		t = append(t, ".")
	case m.Abbrev && s.Axis == "parent" && s.Test == "node()":
		t = append(t, "..")
	case m.Abbrev && s.Axis == "child":
		t = append(t, testToks(s.Test)...)
	case m.Abbrev && s.Axis == "attribute":
		t = append(t, "@")
		t = append(t, testToks(s.Test)...)
	default:
		t = append(t, s.Axis, "::")
		t = append(t, testToks(s.Test)...)
	}
	for _, p := range s.Preds {
		t = append(t, "[")
		t = append(t, p.Toks(m)...)
		t = append(t, "]")
	}
	return t
}

func testToks(t string) []string {
	if strings.HasSuffix(t, "()") {
		return []string{t[:len(t)-2], "(", ")"}
	}
	return []string{t}
}

func (p Path) Toks(m Mode) []string {
	var t []string
	sep := func(ds bool) []string {
		if !ds {
			return []string{"/"}
		}
		if m.Abbrev {
			return []string{"//"}
		}
		return []string{"/", "descendant-or-self", "::", "node", "(", ")", "/"}
	}
	if p.Base != nil {
		t = append(t, p.Base.Toks(m)...)
	}
	for i, s := range p.Steps {
		if i > 0 || p.Abs || p.Base != nil {
			t = append(t, sep(s.DSlash)...)
		} else if s.DSlash {
			// a relative path cannot start with '//': spell the step out
			t = append(t, "descendant-or-self", "::", "node", "(", ")", "/")
		}
		t = append(t, stepToks(s, m)...)
	}
	if p.Abs && len(p.Steps) == 0 {
		t = append(t, "/")
	}
	return t
}

type Bin struct {
	Op   string
	L, R Ex
}

func (x Bin) Toks(m Mode) []string {
	t := append([]string{}, x.L.Toks(m)...)
	t = append(t, x.Op)
	return append(t, x.R.Toks(m)...)
}

type Neg struct{ E Ex }

func (x Neg) Toks(m Mode) []string { return append([]string{"-"}, x.E.Toks(m)...) }

type Call struct {
	Name string
	Args []Ex
}

func (x Call) Toks(m Mode) []string {
	t := []string{x.Name, "("}
	for i, e := range x.Args {
		if i > 0 {
			t = append(t, ",")
		}
		t = append(t, e.Toks(m)...)
	}
	return append(t, ")")
}

type Num struct{ Text string }

func (x Num) Toks(Mode) []string { return []string{x.Text} }

type Lit struct{ S string }

func (x Lit) Toks(Mode) []string {
	if strings.Contains(x.S, "'") {
		return []string{`"` + x.S + `"`}
	}
	return []string{"'" + x.S + "'"}
}

type Paren struct{ E Ex }

func (x Paren) Toks(m Mode) []string {
	t := []string{"("}
	t = append(t, x.E.Toks(m)...)
	return append(t, ")")
}

// Filter is a primary expression followed by predicates: (P)[n]
type Filter struct {
	E     Ex
	Preds []Ex
}

func (x Filter) Toks(m Mode) []string {
	t := append([]string{}, x.E.Toks(m)...)
	for _, p := range x.Preds {
		t = append(t, "[")
		t = append(t, p.Toks(m)...)
		t = append(t, "]")
	}
	return t
}

// Raw is spliced in verbatim (one token).
type Raw struct{ S string }

func (x Raw) Toks(Mode) []string { return []string{x.S} }

// Features collects what an expression exercises (input distribution).
func Features(e Ex, out map[string]int) {
	switch x := e.(type) {
	case Path:
		if x.Abs {
			out["abs"]++
		}
		if x.Base != nil {
			Features(x.Base, out)
		}
		for _, s := range x.Steps {
			out["axis:"+s.Axis]++
			if s.DSlash {
				out["//"]++
			}
			t := s.Test
			if !strings.HasSuffix(t, "()") && t != "*" {
				t = "name"
			}
			out["test:"+t]++
			for _, p := range s.Preds {
				out["pred"]++
				Features(p, out)
			}
		}
	case Bin:
		out["op:"+x.Op]++
		Features(x.L, out)
		Features(x.R, out)
	case Neg:
		out["op:neg"]++
		Features(x.E, out)
	case Call:
		out["fn:"+x.Name]++
		for _, a := range x.Args {
			Features(a, out)
		}
	case Num:
		out["num"]++
	case Lit:
		out["str"]++
	case Paren:
		out["paren"]++
		Features(x.E, out)
	case Filter:
		out["filterexpr"]++
		Features(x.E, out)
		for _, p := range x.Preds {
			out["pred"]++
			Features(p, out)
		}
	}
}

// Pick1 chooses one of two expressions.
func (r *Rand) Pick1(a, b Ex) Ex {
	if r.Intn(2) == 0 {
		return a
	}
	return b
}
