(* Spec/Axes.v — declarative specification of the XPath 1.0 axes on the node
   addresses of a document [D].  [n] is the context node, [m] the selected
   node.  No proofs here; see Proofs/AxesSound.v. *)
From XP Require Import Base Doc.
Open Scope nat_scope.
Open Scope list_scope.

Section Axes.
Variable D : tree.

Definition axis_child (n m : node) : Prop :=
  valid D m = true /\ nattr n = None /\ nattr m = None /\
  exists i, npath m = npath n ++ [i].

Definition axis_descendant (n m : node) : Prop :=
  valid D m = true /\ nattr n = None /\ nattr m = None /\
  exists r, r <> [] /\ npath m = npath n ++ r.

Definition axis_descendant_or_self (n m : node) : Prop :=
  valid D m = true /\ (m = n \/ axis_descendant n m).

Definition axis_parent (n m : node) : Prop :=
  valid D m = true /\ nattr m = None /\
  ((exists i, nattr n = Some i /\ npath m = npath n) \/
   (nattr n = None /\ exists i, npath n = npath m ++ [i])).

Definition axis_ancestor (n m : node) : Prop :=
  valid D m = true /\ nattr m = None /\
  exists r, npath n = npath m ++ r /\ (r <> [] \/ nattr n <> None).

Definition axis_ancestor_or_self (n m : node) : Prop :=
  valid D m = true /\ (m = n \/ axis_ancestor n m).

Definition axis_following_sibling (n m : node) : Prop :=
  valid D m = true /\ nattr n = None /\ nattr m = None /\
  exists p i j, npath n = p ++ [i] /\ npath m = p ++ [j] /\ i < j.

Definition axis_preceding_sibling (n m : node) : Prop :=
  valid D m = true /\ nattr n = None /\ nattr m = None /\
  exists p i j, npath n = p ++ [i] /\ npath m = p ++ [j] /\ j < i.

Definition axis_attribute (n m : node) : Prop :=
  valid D m = true /\ nattr n = None /\ npath m = npath n /\
  (exists i, nattr m = Some i) /\ node_type D n = NTElem.

Definition axis_self (n m : node) : Prop :=
  valid D m = true /\ m = n.

(* attributes are never on the following / preceding axes *)
Definition axis_following (n m : node) : Prop :=
  valid D m = true /\ nattr m = None /\ doc_compare n m = Lt /\
  ~ axis_descendant n m.

Definition axis_preceding (n m : node) : Prop :=
  valid D m = true /\ nattr m = None /\ doc_compare m n = Lt /\
  ~ axis_ancestor n m.

End Axes.

Inductive axis :=
| Child | Descendant | DescendantOrSelf | Parent | Ancestor | AncestorOrSelf
| FollowingSibling | PrecedingSibling | Attribute | Self | Following | Preceding.

Definition axis_rel (D : tree) (a : axis) : node -> node -> Prop :=
  match a with
  | Child => axis_child D
  | Descendant => axis_descendant D
  | DescendantOrSelf => axis_descendant_or_self D
  | Parent => axis_parent D
  | Ancestor => axis_ancestor D
  | AncestorOrSelf => axis_ancestor_or_self D
  | FollowingSibling => axis_following_sibling D
  | PrecedingSibling => axis_preceding_sibling D
  | Attribute => axis_attribute D
  | Self => axis_self D
  | Following => axis_following D
  | Preceding => axis_preceding D
  end.
