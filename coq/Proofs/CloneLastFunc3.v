(* Proofs/CloneLastFunc3.v — Clone of a lastFuncQuery (outside m1_supported4, so not covered by
   CloneRefine3.clone_forgets3): lastFuncQuery.Clone copies neither buffer nor counted, so a clone of
   an object in ANY state -- in particular one that has already counted, from some other context --
   is an unused object, and LastFuncModel.lastfunc_lifetime applies to it: its first Evaluate
   counts the input from the context it is given, which is the list-level value there.
   Only a lastFuncQuery at the TOP of the tree (input supported) is treated; a lastFuncQuery nested in
   a predicate is evaluated at several context nodes by ONE clone and keeps the first count
   (LastFuncModel.lastfunc_agrees_iff says exactly when that agrees with the list level). *)
From XP Require Import Base F64 Doc Ast Hash Eval.
From XP.Model1 Require Import Iter Iter2 Iter3 Clone3.
From XP.Proofs Require Import AxesSound IterRefine IterRefine2 Filter IterRefine3 IterRefine4 IterProtocol3
     Absolute CloneRefine3 LastFuncModel.
Open Scope nat_scope.
Open Scope list_scope.

Section CloneLastFunc.
Variable D : tree.
Variable has_ns : bool.
Variable hc : node -> N.
Variable rm : string -> string -> option bool.
Variable rn : string -> nat.
Variable rr : string -> string -> string -> string.
Notation SEL := (sel D has_ns hc rm rn rr).
Notation EVAL := (eval D has_ns hc rm rn rr).
Notation E3 := (ev3 D has_ns hc rm rn rr).
Notation HIST := (history D has_ns hc rm rn rr).

(* a clone is an unused object, whatever the original has been through *)
Lemma clone_lastfunc_unused : forall i (st : state3 (QLastFunc i)),
  unused (clone_cfg3 i) (clone_state3 (QLastFunc i) st).
Proof.
  intros i st. unfold unused. cbn [clone_state3 lf_counted lf_buffer lf_in]. auto using ResetOK3_clone.
Qed.

(** ** every Evaluate of the clone's lifetime returns the count from the clone's FIRST context *)
Theorem clone_forgets_lastfunc3 : forall i (wf : m1_supported4 i = true) c1 l,
  SEL i c1 = Val l ->
  exists F0, forall F, F0 <= F -> forall (st : state3 (QLastFunc i)) cs,
    HIST F (clone_cfg3 i) (clone_state3 (QLastFunc i) st) (c1 :: cs) =
    map (fun c => Some (SNum (num_of_nat (List.length l)), c)) (c1 :: cs).
Proof.
  intros i wf c1 l E.
  assert (wf' : m1_supported4 (clone_cfg3 i) = true) by (rewrite clone_cfg3_supported4; exact wf).
  assert (E' : SEL (clone_cfg3 i) c1 = Val l) by (rewrite (proj1 (clone_cfg3_sem D has_ns hc rm rn rr i)); exact E).
  destruct (lastfunc_lifetime D has_ns hc rm rn rr (clone_cfg3 i) wf' c1 l E') as [F0 H0].
  exists F0. intros F HF st cs. apply (H0 F HF _ (clone_lastfunc_unused i st) cs).
Qed.

(** ** Expr.Evaluate of `last-function` expression: one Evaluate on a clone = the list-level value,
    whatever state (counted, stale buffer) the shared tree is in *)
Theorem clone_forgets_lastfunc_eval3 : forall i (wf : m1_supported4 i = true) c V,
  EVAL (QLastFunc i) c = Val V ->
  exists F0, forall F, F0 <= F -> forall (st : state3 (QLastFunc i)),
    exists s', E3 F (clone_cfg3 (QLastFunc i)) (clone_state3 (QLastFunc i) st) c = OK3 (CVS (match V with VNum x => SNum x | _ => SNil end)) s' c
               /\ exists x, V = VNum x.
Proof.
  intros i wf c V E. rewrite eval_lastfunc_eq in E.
  destruct (SEL i c) as [l| |] eqn:Es; cbn [obind] in E; try discriminate. inversion E; subst V. clear E.
  destruct (clone_forgets_lastfunc3 i wf c l Es) as [F0 H0]. exists F0. intros F HF st.
  specialize (H0 F HF st []). cbn [history map] in H0. cbn [clone_cfg3].
  destruct (E3 F (QLastFunc (clone_cfg3 i)) (clone_state3 (QLastFunc i) st) c) as [[x|h] s' c'| |];
    inversion H0; subst. eauto.
Qed.

(* the contrast: the ORIGINAL, once counted, keeps answering with its old count *)
Lemma original_lastfunc_stale : forall F i (st : state3 (QLastFunc i)) cs,
  lf_counted st = true ->
  HIST F i st cs = map (fun c => Some (SNum (num_of_nat (List.length (lf_buffer st))), c)) cs.
Proof. intros. apply counted_constant. assumption. Qed.

End CloneLastFunc.

Print Assumptions clone_forgets_lastfunc3.
Print Assumptions clone_forgets_lastfunc_eval3.
