(* C09 — string functions compute the XPath result on their arguments.
   Property theorems only; proofs in Proofs/StrFuncs.v, specifications in
   Spec/StrSpec.v (declarative, independent of the model).  Strings are byte
   strings.  PARTIAL for substring(): the slice by integer positions and "never
   fails, for ALL doubles incl. NaN and infinities" are proved; that the clamped
   float bounds equal round(start) and round(start)+round(length) is validated by
   the exhaustive sweep of the correspondence check, not proved. *)
From Coq Require Import List String ZArith.
From XP Require Import Base F64 Doc Ast Eval.
From XP.Spec Require Import StrSpec.
From XP.Proofs Require Import StrFuncs.

Theorem C09_contains : forall s w, contains s w = true <-> is_substring w s.
Proof. exact contains_spec. Qed.
Print Assumptions C09_contains.
Theorem C09_starts_with : forall w s, prefix w s = true <-> (exists b, s = (w ++ b)%string).
Proof. exact starts_with_spec. Qed.
Print Assumptions C09_starts_with.
Theorem C09_ends_with : forall s w, has_suffix s w = true <-> (exists a, s = (a ++ w)%string).
Proof. exact ends_with_spec. Qed.
Print Assumptions C09_ends_with.

(* substring-before / substring-after: the part before / after the FIRST occurrence, "" if none *)
Theorem C09_first_occurrence : forall w s i, index_of w s = Some i <-> first_occurrence w s i.
Proof. exact index_of_spec. Qed.
Print Assumptions C09_first_occurrence.
Theorem C09_substring_before : forall s w, is_substring_before s w (substring_before_m s w).
Proof. exact substring_before_spec. Qed.
Print Assumptions C09_substring_before.
Theorem C09_substring_after : forall s w, is_substring_after s w (substring_after_m s w).
Proof. exact substring_after_spec. Qed.
Print Assumptions C09_substring_after.
Theorem C09_substring_after_empty_needle : forall s, substring_after_m s "" = s.
Proof. exact substring_after_empty. Qed.
Print Assumptions C09_substring_after_empty_needle.

(* translate: per character, by the FIRST occurrence in the second argument; deleted beyond the third *)
Theorem C09_translate : forall s src dst, translate s src dst = translate_spec s src dst.
Proof. exact translate_spec_correct. Qed.
Print Assumptions C09_translate.

(* normalize-space: the words of s joined by single spaces *)
Theorem C09_normalize_space : forall s, normalize_space s = normalize_space_spec s.
Proof. exact normalize_space_correct. Qed.
Print Assumptions C09_normalize_space.
Theorem C09_normalize_space_shape : forall s, normalized (normalize_space s).
Proof. exact normalize_space_normalized. Qed.
Print Assumptions C09_normalize_space_shape.

(* lower-case on ASCII; string-join; concat; string-length *)
Theorem C09_lower_case : forall c, nat_of_ascii (lower_ascii c) = lower_byte (nat_of_ascii c).
Proof. exact lower_ascii_spec. Qed.
Print Assumptions C09_lower_case.
Theorem C09_string_join : forall sep l, join sep l = concat_all (intersperse sep l).
Proof. exact join_intersperse. Qed.
Print Assumptions C09_string_join.
Theorem C09_concat : forall D has_ns hcode rm rn rr qs c vs,
  Forall2 (fun q v => eval D has_ns hcode rm rn rr q c = Val v) qs vs ->
  eval D has_ns hcode rm rn rr (QConcat (Build.list_of_args qs)) c =
  Val (VStr (concat_all (map (str_or_first D) vs))).
Proof. exact eval_concat. Qed.
Print Assumptions C09_concat.
Theorem C09_string_length : forall D has_ns hcode rm rn rr a c v,
  eval D has_ns hcode rm rn rr a c = Val v ->
  eval D has_ns hcode rm rn rr (QFn1 FStringLength a) c =
  Val (VNum (of_Z (Z.of_nat (String.length (str_or_first D v))))).
Proof. exact eval_string_length. Qed.
Print Assumptions C09_string_length.

(* a node-set argument is taken as the string-value of its first node *)
Theorem C09_nodeset_argument : forall D i l, str_or_first D (VNodes (i :: l)) = node_value D (it_node i).
Proof. exact sof_nodes_cons. Qed.
Print Assumptions C09_nodeset_argument.

(* substring: the engine's slice m[a-1 : e-1] is exactly the characters at the
   1-based positions p with a <= p < e, for ALL integers a, e *)
Theorem C09_substring_slice : forall m a e,
  firstn_s (Z.to_nat (e - 1) - Z.to_nat (a - 1)) (skipn_s (Z.to_nat (a - 1)) m) = substring_pos m a e.
Proof. exact slice_substring_pos. Qed.
Print Assumptions C09_substring_slice.
Theorem C09_substring3 : forall m start len,
  substring_go m start (Some len) =
  (if fgt (sub_end m start len) (sub_start start)
   then substring_pos m (go_int (sub_start start)) (go_int (sub_end m start len)) else "").
Proof. exact substring_go_3. Qed.
Print Assumptions C09_substring3.
(* never fails — for every double, finite or not — and returns a substring of its argument *)
Theorem C09_substring_never_fails : forall D has_ns hcode rm rn rr a b x c va start len,
  eval D has_ns hcode rm rn rr a c = Val va ->
  eval D has_ns hcode rm rn rr b c = Val (VNum start) ->
  x = QNil \/ eval D has_ns hcode rm rn rr x c = Val (VNum len) ->
  exists r, eval D has_ns hcode rm rn rr (QFn3 FSubstring a b x) c = Val (VStr r) /\
            is_substring r (str_or_first D va).
Proof. exact eval_substring_never_fails. Qed.
Print Assumptions C09_substring_never_fails.

(* ---- the float front-end of substring() (Proofs/SubstringFloat.v) ----
   [R x] = floor(x + 0.5) computed in double arithmetic (XPath's round as the engine
   computes it); [small_finite x]: x is a canonical finite double with |x| < 2^51. *)
From XP.Proofs Require Import SubstringFloat.

(* substring(s, start, length), finite arguments: exactly the characters at the
   positions p with round(start) <= p < round(start) + round(length) *)
Theorem C09_substring_positions : forall m start len,
  small_finite start -> small_finite len -> (Z.of_nat (String.length m) < 2 ^ 52)%Z ->
  substring_go m start (Some len) = substring_pos m (R start) (R start + R len).
Proof. exact substring_go_finite. Qed.
Print Assumptions C09_substring_positions.

Theorem C09_substring2_positions : forall m start,
  small_finite start -> (Z.of_nat (String.length m) < 2 ^ 53)%Z ->
  substring_go m start None = filter_pos (fun p => (R start <=? p)%Z) 1 m.
Proof. exact substring_go2_finite. Qed.
Print Assumptions C09_substring2_positions.

(* the one place where floor(x + 0.5) in double arithmetic is not the exact
   round-half-up: x = 0.49999999999999994 (the predecessor of 0.5) rounds to 1.
   Recorded as an observation: XPath itself defines round() through floor(x+0.5)
   on doubles only informally; the engine's reading is the IEEE one. *)
Theorem C09_round_at_pred_half :
  valid_binary prec emax f_pred_half = true /\
  xpath_number_string f_pred_half = "0.49999999999999994"%string /\
  flt f_pred_half fhalf = true /\ R f_pred_half = 1%Z /\ xround f_pred_half = of_Z 1 /\
  substring_go "12345" f_pred_half (Some (of_Z 1)) = "1"%string /\
  substring_pos "12345" 0 (0 + 1) = ""%string.
Proof. exact xround_pred_half. Qed.
Print Assumptions C09_round_at_pred_half.

(* ------------------------------------------------------------------ *)
(* END TO END, from the TEXT of a call (arguments: string literal or predicate-free path, taken as
   the string-value of its first node): Compile succeeds and the value is the declarative
   specification applied to the string values of the arguments. *)
From XP Require Import Parse Build Api.
From XP.Proofs Require Import HashInj RoundTripOps RoundTripPaths EndToEndValues.
Open Scope string_scope.

Theorem C09_end_to_end_contains_family : forall D has_ns hc rm rn rr,
  hash_ok (hc D) (all_nodes D) ->
  forall re_ok ns fn F l w,
  In (fn, F) [("contains", FContains); ("starts-with", FStartsWith); ("ends-with", FEndsWith)] ->
  is_operand_px l -> not_number l ->
  xok (XCall fn (args2 l (XStr w))) -> (1 + osize l <= max_build_depth)%nat ->
  exists q,
    compile re_ok (print_min (XCall fn (args2 l (XStr w)))) ns = Ok q /\
    compile re_ok (print_sp (XCall fn (args2 l (XStr w)))) ns = Ok q /\
    forall c, valid D c = true ->
    exists m b, opval D has_ns l c m /\ evaluate rm rn rr hc D has_ns q c = Val (VBool b) /\
      match F with
      | FContains => b = true <-> is_substring w (str_or_first D m)
      | FStartsWith => b = true <-> is_prefix w (str_or_first D m)
      | _ => b = true <-> is_suffix w (str_or_first D m)
      end.
Proof. exact C09_text_contains_family. Qed.
Print Assumptions C09_end_to_end_contains_family.

Theorem C09_end_to_end_substring_before_after : forall D has_ns hc rm rn rr,
  hash_ok (hc D) (all_nodes D) ->
  forall re_ok ns (after : bool) l r,
  is_operand_px l -> is_operand_px r ->
  let fn := if after then "substring-after" else "substring-before" in
  xok (XCall fn (args2 l r)) -> (1 + osize l <= max_build_depth)%nat -> (1 + osize r <= max_build_depth)%nat ->
  exists q,
    compile re_ok (print_min (XCall fn (args2 l r))) ns = Ok q /\
    compile re_ok (print_sp (XCall fn (args2 l r))) ns = Ok q /\
    forall c, valid D c = true ->
    exists m n res, opval D has_ns l c m /\ opval D has_ns r c n /\
      evaluate rm rn rr hc D has_ns q c = Val (VStr res) /\
      if after then is_substring_after (str_or_first D m) (str_or_first D n) res
      else is_substring_before (str_or_first D m) (str_or_first D n) res.
Proof. exact C09_text_substring_before_after. Qed.
Print Assumptions C09_end_to_end_substring_before_after.

Theorem C09_end_to_end_concat : forall D has_ns hc rm rn rr,
  hash_ok (hc D) (all_nodes D) ->
  forall re_ok ns l r,
  is_operand_px l -> is_operand_px r ->
  xok (XCall "concat" (args2 l r)) -> (1 + osize l <= max_build_depth)%nat -> (1 + osize r <= max_build_depth)%nat ->
  exists q,
    compile re_ok (print_min (XCall "concat" (args2 l r))) ns = Ok q /\
    compile re_ok (print_sp (XCall "concat" (args2 l r))) ns = Ok q /\
    forall c, valid D c = true ->
    exists m n, opval D has_ns l c m /\ opval D has_ns r c n /\
      evaluate rm rn rr hc D has_ns q c = Val (VStr (str_or_first D m ++ str_or_first D n)).
Proof. exact C09_text_concat. Qed.
Print Assumptions C09_end_to_end_concat.

Theorem C09_end_to_end_string_length : forall D has_ns hc rm rn rr,
  hash_ok (hc D) (all_nodes D) ->
  forall re_ok ns l,
  is_operand_px l -> xok (XCall "string-length" (AOne l)) -> (1 + osize l <= max_build_depth)%nat ->
  exists q,
    compile re_ok (print_min (XCall "string-length" (AOne l))) ns = Ok q /\
    compile re_ok (print_sp (XCall "string-length" (AOne l))) ns = Ok q /\
    forall c, valid D c = true ->
    exists m, opval D has_ns l c m /\
      evaluate rm rn rr hc D has_ns q c = Val (VNum (of_Z (Z.of_nat (String.length (str_or_first D m))))).
Proof. exact C09_text_string_length. Qed.
Print Assumptions C09_end_to_end_string_length.

Theorem C09_end_to_end_normalize_space : forall D has_ns hc rm rn rr,
  hash_ok (hc D) (all_nodes D) ->
  forall re_ok ns l,
  is_operand_px l -> xok (XCall "normalize-space" (AOne l)) -> (1 + osize l <= max_build_depth)%nat ->
  exists q,
    compile re_ok (print_min (XCall "normalize-space" (AOne l))) ns = Ok q /\
    compile re_ok (print_sp (XCall "normalize-space" (AOne l))) ns = Ok q /\
    forall c, valid D c = true ->
    exists m, opval D has_ns l c m /\
      evaluate rm rn rr hc D has_ns q c = Val (VStr (normalize_space_spec (str_or_first D m))).
Proof. exact C09_text_normalize_space. Qed.
Print Assumptions C09_end_to_end_normalize_space.

Theorem C09_end_to_end_translate : forall D has_ns hc rm rn rr,
  hash_ok (hc D) (all_nodes D) ->
  forall re_ok ns a b x,
  is_operand_px a -> is_operand_px b -> is_operand_px x ->
  not_number a -> not_number b -> not_number x ->
  xok (XCall "translate" (args3 a b x)) ->
  (1 + osize a <= max_build_depth)%nat -> (1 + osize b <= max_build_depth)%nat -> (1 + osize x <= max_build_depth)%nat ->
  exists q,
    compile re_ok (print_min (XCall "translate" (args3 a b x))) ns = Ok q /\
    compile re_ok (print_sp (XCall "translate" (args3 a b x))) ns = Ok q /\
    forall c, valid D c = true ->
    exists va vb vx, opval D has_ns a c va /\ opval D has_ns b c vb /\ opval D has_ns x c vx /\
      evaluate rm rn rr hc D has_ns q c =
        Val (VStr (translate_spec (str_or_first D va) (str_or_first D vb) (str_or_first D vx))).
Proof. exact C09_text_translate. Qed.
Print Assumptions C09_end_to_end_translate.
