(* Proofs/EndToEndReject.v — property C17, WHOLE-STRING statements:
   truncated or ill-formed expressions are rejected by Compile.

   Proofs/ParseReject.v proves rejection relative to a parser state standing
   at the damaged construct.  Here the statements are about TEXTS: the tokens
   of a printed expression (RoundTripPaths: any expression of the round-trip
   grammar, any size) are cut or damaged, printed again (minimal white space,
   or any admissible layout), and Compile returns an error.

   Method: a failing counterpart [Fails] / [FailsE] / [RelFails] / [StepFails]
   / [ArgsFails] of the parsing judgements of RoundTripOps / RoundTripPaths:
   "this token list, followed by the end of the text, makes the level-k parser
   fail".  The intact prefix is handled by the round-trip judgements (px_parses_all),
   the damaged spot by the lemmas of ParseReject.v, and the failure is carried
   up to parse() and Compile. *)
From XP Require Import Base F64 Doc Ast Scan Parse Build Api.
From XP.Proofs Require Import ParseTerm ParseAssoc ParseReject ScanTokens RoundTripOps RoundTripPaths
                              BuildFacts.
Require Import Lia.
Open Scope nat_scope.
Open Scope string_scope.
Open Scope list_scope.

Notation rejected r := (exists msg : string, r = Err msg).

(* ------------------------------------------------------------------ *)
(** * 0. Printing token lists; from parse to Compile                    *)
(* ------------------------------------------------------------------ *)

(* the tokens, with as little white space as the scanner needs *)
Definition print_toks (ts : list token) : string :=
  string_of_list (render (fix_lay (lay0 ts ++ [([], TEOF)]))).
(* the same followed by white space [we] *)
Definition print_toks_ws (we : list ascii) (ts : list token) : string :=
  string_of_list (render (fix_lay (lay0 ts ++ [(we, TEOF)]))).

Lemma print_min_toks : forall e, print_min e = print_toks (xtoks e).
Proof. reflexivity. Qed.

Definition toks_ok (ts : list token) : Prop := forallb tok_ok' ts = true.

Lemma toks_ok_app : forall a b, toks_ok a -> toks_ok b -> toks_ok (a ++ b).
Proof. intros a b Ha Hb. unfold toks_ok in *. rewrite forallb_app, Ha, Hb. reflexivity. Qed.
Lemma toks_ok_app_l : forall a b, toks_ok (a ++ b) -> toks_ok a.
Proof. intros a b H. unfold toks_ok in *. rewrite forallb_app in H. apply andb_prop in H. tauto. Qed.
Lemma toks_ok_app_r : forall a b, toks_ok (a ++ b) -> toks_ok b.
Proof. intros a b H. unfold toks_ok in *. rewrite forallb_app in H. apply andb_prop in H. tauto. Qed.

Lemma parse_rejected_compile : forall re_ok text ns,
  rejected (parse text ns) -> rejected (compile re_ok text ns).
Proof.
  intros re_ok text ns [msg H]. unfold compile, compile_fuel, build_fuel.
  destruct (String.eqb text ""); [eexists; reflexivity|].
  unfold parse in H. rewrite H. eexists. reflexivity.
Qed.

Section F.
Variable ns : nsmap.

(* ------------------------------------------------------------------ *)
(** * 1. Failing judgements                                             *)
(* ------------------------------------------------------------------ *)

(* the tokens [ts] followed by the END OF THE TEXT make the level-k parser fail *)
Definition Fails (k dn : nat) (ts : list token) : Prop :=
  forall f n d st lts we,
    List.length ts + 4 <= f -> d + dn <= max_depth ->
    map snd lts = ts -> AtL st d (lts ++ [(we, TEOF)]) ->
    ParseReject.is_err (lev ns k f n st).

Definition FailsE (dn : nat) (ts : list token) : Prop :=
  forall f n d st lts we,
    List.length ts + 5 <= f -> d + 1 + dn <= max_depth ->
    map snd lts = ts -> AtL st d (lts ++ [(we, TEOF)]) ->
    ParseReject.is_err (pgo ns f EExpr n st).

Lemma Fails_depth : forall k dn dn' ts, dn <= dn' -> Fails k dn ts -> Fails k dn' ts.
Proof. intros k dn dn' ts Hd H f n d st lts we Hf Hdd. apply H; [exact Hf|lia]. Qed.
Lemma FailsE_depth : forall dn dn' ts, dn <= dn' -> FailsE dn ts -> FailsE dn' ts.
Proof. intros dn dn' ts Hd H f n d st lts we Hf Hdd. apply H; [exact Hf|lia]. Qed.

Lemma pstep_err : forall g n st, cannot_start_step (typ st) = true ->
  ParseReject.is_err (pgo ns (S g) EStep n st).
Proof. intros g n st H. apply pgo_step_bad_is_err; [lia|exact H]. Qed.

Lemma pexpr_err : forall g n st, cannot_start (typ st) = true ->
  ParseReject.is_err (pgo ns (S (S g)) EExpr n st).
Proof. intros g n st H. apply (pgo_bad_start_is_error ns (S (S g)) EExpr n st); [lia|exact H]. Qed.

(* every level fails on a token that cannot start an expression *)
Lemma lev_bad_start : forall k g n st, cannot_start (typ st) = true ->
  ParseReject.is_err (lev ns k (S g) n st).
Proof.
  intros k g n st H.
  destruct k as [|[|[|[|[|[|[|[|k]]]]]]]]; cbn [lev].
  - apply or_expr_bad; [apply pstep_err|exact H].
  - apply and_expr_bad; [apply pstep_err|exact H].
  - apply eq_expr_bad; [apply pstep_err|exact H].
  - apply rel_expr_bad; [apply pstep_err|exact H].
  - apply add_expr_bad; [apply pstep_err|exact H].
  - apply mul_expr_bad; [apply pstep_err|exact H].
  - apply unary_expr_bad; [apply pstep_err|exact H].
  - apply union_expr_bad; [apply pstep_err|exact H].
  - apply path_expr_bad; [apply pstep_err|exact H].
Qed.

Lemma At_eof_typ : forall st d we, AtL st d [(we, TEOF)] -> typ st = IEOF.
Proof. intros st d we H. apply (typ_At _ _ _ _ _ H). Qed.

(* R0: nothing at all *)
Lemma Fails_nil : forall k, Fails k 0 [].
Proof.
  intros k f n d st lts we Hf Hd Hm HA. destruct lts; [|discriminate]. cbn [app] in HA.
  destruct f as [|g]; [cbn in Hf; lia|]. apply lev_bad_start.
  rewrite (At_eof_typ _ _ _ HA). reflexivity.
Qed.

(* R1: the failure of the first operand is the failure of the level *)
Lemma Fails_up : forall k dn ts, bin_lvl k = true -> Fails (S k) dn ts -> Fails k dn ts.
Proof.
  intros k dn ts Hk H f n d st lts we Hf Hd Hm HA.
  rewrite lev_bin by exact Hk. apply bin_level_sub_err. eapply H; eassumption.
Qed.

Lemma Fails_up6 : forall dn ts, hd_not_minus ts = true -> Fails 7 dn ts -> Fails 6 dn ts.
Proof.
  intros dn ts Hh H f n d st lts we Hf Hd Hm HA.
  rewrite lev_6.
  destruct lts as [|[w t] lts]; [subst ts; discriminate|]. cbn [app] in HA.
  assert (Ht : typ st <> IMinus).
  { rewrite (typ_At _ _ _ _ _ HA). subst ts. cbn [map snd hd_not_minus] in Hh.
    intros E. rewrite E in Hh. discriminate. }
  destruct f as [|g]; [lia|]. rewrite (minus_loop_stop g false st Ht). cbn [cbind].
  apply is_err_bind. apply (H (S g) n d st ((w, t) :: lts) we Hf Hd Hm). exact HA.
Qed.

Lemma Fails_down : forall dn ts j,
  (7 <= j -> hd_not_minus ts = true) -> j <= 8 -> Fails j dn ts ->
  forall k, k <= j -> Fails k dn ts.
Proof.
  intros dn ts j Hh Hj HF k Hk.
  remember (j - k) as x eqn:Ex. revert k Hk Ex.
  induction x as [|x IH]; intros k Hk Ex.
  - assert (k = j) by lia. subst k. exact HF.
  - assert (HS : Fails (S k) dn ts) by (apply IH; lia).
    destruct (Nat.eq_dec k 6) as [->|Hk6].
    + apply Fails_up6; [apply Hh; lia|exact HS].
    + apply Fails_up; [|exact HS].
      destruct k as [|[|[|[|[|[|[|[|k]]]]]]]]; try reflexivity; lia.
Qed.

(* R2: parseExpression *)
Lemma FailsE_of : forall dn ts, Fails 0 dn ts -> FailsE dn ts.
Proof.
  intros dn ts H f n d st lts we Hf Hd Hm HA.
  destruct f as [|f]; [lia|].
  pose proof (AtL_pd _ _ _ HA) as Hpd.
  rewrite pgo_expr_lev. cbv zeta. rewrite Hpd.
  replace (Nat.ltb max_depth (S d)) with false by (symmetry; apply Nat.ltb_ge; lia).
  apply is_err_bind.
  apply (H f n (S d) (mkP (p_s st) (S d)) lts we); [lia|lia|exact Hm|eapply AtL_depth; exact HA].
Qed.

(* a partial run of a binary level that ends in a failure *)
Lemma pre_run_err : forall getop sub st ops stm,
  pre_run getop sub st ops stm ->
  forall m, (forall acc, ParseReject.is_err (bin_loop m getop sub acc stm)) ->
  forall acc, ParseReject.is_err (bin_loop (List.length ops + m) getop sub acc st).
Proof.
  intros getop sub st ops stm H.
  induction H as [st|st ops stm op st1 a st2 Hpre IH Hop Hn Hs]; intros m Hm acc.
  - exact (Hm acc).
  - rewrite app_length. cbn [List.length]. replace (List.length ops + 1 + m) with (List.length ops + S m) by lia.
    apply IH. intros acc'. cbn [bin_loop]. rewrite Hop, Hn. cbn [cbind]. rewrite Hs. cbn [cbind].
    apply Hm.
Qed.

(* R3: operand chain, an operator, and then something that fails (possibly nothing) *)
Theorem Fails_after_op : forall k dn ts1 a1 top ts2,
  bin_lvl k = true -> oplevel top = Some k ->
  Runs ns k dn ts1 a1 -> Fails (S k) dn ts2 ->
  Fails k dn (ts1 ++ top :: ts2).
Proof.
  intros k dn ts1 a1 top ts2 Hk Hop HR HF f n d st lts we Hf Hd Hm HA.
  rewrite app_length in Hf. cbn [List.length] in Hf.
  destruct (map_snd_app_inv lts ts1 (top :: ts2) Hm) as [l1 [l2 [E [H1 H2]]]].
  destruct l2 as [|[wt top'] l2]; [discriminate|]. cbn [map snd] in H2.
  inversion H2 as [[Ht H2']]. subst top'. subst lts. clear H2 Hm.
  rewrite <- app_assoc in HA. cbn [app] in HA.
  destruct (HR f n d st l1 ((wt, top) :: l2 ++ [(we, TEOF)]))
    as [a0 [st1 [ops [stm [Hs [Hpre [Hlf [Hlen HAm]]]]]]]];
    [lia|exact Hd|exact H1|exact HA| |].
  { cbn [follow1]. unfold follow_ok.
    assert (Hlt : Nat.ltb k (S k) = true) by (apply Nat.ltb_lt; lia).
    destruct top as [| | | |p|]; try discriminate Hop; rewrite Hop; try exact Hlt.
    destruct p; try discriminate Hop; exact Hlt. }
  assert (Hne : l2 ++ [(we, TEOF)] <> []) by (destruct l2; discriminate).
  destruct (pnext_At _ _ _ _ _ HAm Hne) as [st2 [Hn HA2]].
  assert (Hgop : gop k stm = Some (opstr top)).
  { rewrite (gop_At k _ _ _ _ _ Hk HAm). rewrite Hop. cbn [opt_nat_eqb].
    rewrite Nat.eqb_refl. reflexivity. }
  rewrite lev_bin by exact Hk. unfold bin_level. rewrite Hs. cbn [cbind].
  pose (m := f - List.length ops - 1).
  assert (Ef : f = List.length ops + S m) by (unfold m; lia).
  replace (bin_loop f (gop k) (lev ns (S k) f n) a0 st1)
    with (bin_loop (List.length ops + S m) (gop k) (lev ns (S k) f n) a0 st1)
    by (rewrite <- Ef; reflexivity).
  apply (pre_run_err _ _ _ _ _ Hpre). intros acc. cbn [bin_loop]. rewrite Hgop, Hn. cbn [cbind].
  apply is_err_bind.
  apply (HF f n d st2 l2 we); [lia|exact Hd|exact H2'|exact HA2].
Qed.

(* ------------------------------------------------------------------ *)
(** * 2. From a failing judgement to parse() and Compile                *)
(* ------------------------------------------------------------------ *)

Theorem parse_of_FailsE : forall dn ts L,
  FailsE dn ts -> ts <> [] -> dn < max_depth ->
  lay_ok L = true -> map snd L = ts ++ [TEOF] ->
  rejected (parse (string_of_list (render L)) ns).
Proof.
  intros dn ts L HE Hne Hdn Hl Hm.
  destruct (map_snd_app_inv L _ _ Hm) as [lts [le [E [H1 H2]]]]. subst L.
  destruct le as [|[we te] [|x le]]; try discriminate. cbn [map snd] in H2.
  inversion H2 as [Hte]. subst te.
  destruct lts as [|[w0 t0] lts]; [exfalso; apply Hne; rewrite <- H1; reflexivity|].
  cbn [app] in Hl.
  destruct (init_scanner_St _ _ _ Hl) as [s1 [Hn HS]].
  pose proof (lay_len _ Hl) as Hlen.
  pose proof (lay_ok_cons _ _ _ Hl) as [_ [Ht0 [_ [_ Hlr]]]].
  cbn [app]. apply (parse_fuel_pgo_err _ _ ns s1 Hn).
  apply (HE _ None 0 (mkP s1 0) ((w0, t0) :: lts) we).
  - unfold default_fuel. rewrite length_string_of_list.
    cbn [List.length] in Hlen. rewrite app_length in Hlen. cbn [List.length] in Hlen.
    rewrite <- H1. cbn [map List.length]. rewrite map_length. lia.
  - unfold max_depth in *. lia.
  - exact H1.
  - cbn [app AtL]. unfold At. cbn [p_s p_d]. auto.
Qed.

(* the two printers *)
Theorem reject_text : forall re_ok dn ts we,
  FailsE dn ts -> ts <> [] -> dn < max_depth -> toks_ok ts -> forallb ws_char we = true ->
  rejected (compile re_ok (print_toks ts) ns) /\
  rejected (compile re_ok (print_toks_ws we ts) ns).
Proof.
  intros re_ok dn ts we HE Hne Hdn Hok Hwe. split; apply parse_rejected_compile.
  - apply (parse_of_FailsE dn ts _ HE Hne Hdn).
    + apply fix_lay_ok; [apply ws_lay0|rewrite map_snd_lay0; exact Hok|reflexivity].
    + rewrite map_snd_fix_lay, map_app, map_snd_lay0. reflexivity.
  - apply (parse_of_FailsE dn ts _ HE Hne Hdn).
    + apply fix_lay_ok; [apply ws_lay0|rewrite map_snd_lay0; exact Hok|exact Hwe].
    + rewrite map_snd_fix_lay, map_app, map_snd_lay0. reflexivity.
Qed.

(* ------------------------------------------------------------------ *)
(** * 3. (a) cut after a binary operator                                *)
(* ------------------------------------------------------------------ *)

Theorem Fails_cut_after_operator : forall op l,
  xwf l -> level op <= xlvl l ->
  FailsE (xdepth l) (xtoks l ++ [optok op]).
Proof.
  intros op l Hw Hl.
  destruct (proj1 (px_parses_all ns) l Hw) as [_ [HR _]].
  apply FailsE_of.
  apply (Fails_down (xdepth l) _ (level op)); [|destruct op; cbn; lia| |lia].
  - intros H7. apply hd_not_minus_app. apply xtoks_hd; [exact Hw|lia].
  - apply (Fails_after_op (level op) (xdepth l) (xtoks l) (xast l) (optok op) []);
      [apply level_bin|apply optok_level|apply HR; [apply level_bin|exact Hl]|].
    eapply Fails_depth; [|apply Fails_nil]. lia.
Qed.

End F.

(** C17 (a): the text of  E1 op E2  cut right after the operator *)
Theorem C17_text_cut_after_operator : forall re_ok ns op l we,
  xwf l -> level op <= xlvl l -> xok l -> xdepth l < max_depth ->
  forallb ws_char we = true ->
  rejected (compile re_ok (print_toks (xtoks l ++ [optok op])) ns) /\
  rejected (compile re_ok (print_toks_ws we (xtoks l ++ [optok op])) ns).
Proof.
  intros re_ok ns op l we Hw Hl Hok Hd Hwe.
  apply (reject_text ns re_ok (xdepth l)); try assumption.
  - apply Fails_cut_after_operator; assumption.
  - destruct (xtoks l); discriminate.
  - apply toks_ok_app; [exact Hok|]. destruct op; reflexivity.
Qed.
Print Assumptions C17_text_cut_after_operator.

(* ------------------------------------------------------------------ *)
(** * 4. (c) an extra closer after a complete expression                *)
(* ------------------------------------------------------------------ *)

Section G.
Variable ns : nsmap.

(* a complete expression followed by a token that may follow an expression
   but is not the end of the text *)
Theorem parse_of_trailing : forall dn ts a tc L,
  ParsesE ns dn ts a -> ts <> [] -> dn < max_depth ->
  follow_ok 0 tc = true -> ttyp tc <> IEOF ->
  lay_ok L = true -> map snd L = ts ++ [tc; TEOF] ->
  rejected (parse (string_of_list (render L)) ns).
Proof.
  intros dn ts a tc L HE Hne Hdn Hfo Htc Hl Hm.
  destruct (map_snd_app_inv L _ _ Hm) as [lts [le [E [H1 H2]]]]. subst L.
  destruct le as [|[wc tc'] [|[we te] [|x le]]]; try discriminate. cbn [map snd] in H2.
  inversion H2 as [[Htc' Hte]]. subst tc' te.
  destruct lts as [|[w0 t0] lts]; [exfalso; apply Hne; rewrite <- H1; reflexivity|].
  cbn [app] in Hl.
  destruct (init_scanner_St _ _ _ Hl) as [s1 [Hn HS]].
  pose proof (lay_len _ Hl) as Hlen.
  pose proof (lay_ok_cons _ _ _ Hl) as [_ [Ht0 [_ [_ Hlr]]]].
  cbn [app].
  destruct (HE (default_fuel (string_of_list (render ((w0, t0) :: lts ++ [(wc, tc); (we, TEOF)])))) None 0
               (mkP s1 0) ((w0, t0) :: lts) [(wc, tc); (we, TEOF)]) as [st' [Hp HA']].
  - unfold default_fuel. rewrite length_string_of_list.
    cbn [List.length] in Hlen. rewrite app_length in Hlen. cbn [List.length] in Hlen.
    rewrite <- H1. cbn [map List.length]. rewrite map_length. cbn [app]. lia.
  - unfold max_depth in *. lia.
  - exact H1.
  - cbn [app AtL]. unfold At. cbn [p_s p_d]. auto.
  - exact Hfo.
  - exists "has an invalid token".
    apply (parse_trailing_garbage _ ns s1 a st' Hn Hp).
    rewrite (typ_At _ _ _ _ _ HA'). exact Htc.
Qed.

(* ------------------------------------------------------------------ *)
(** * 5. (b) a parenthesis that is not closed                           *)
(* ------------------------------------------------------------------ *)

Theorem Fails_paren_open : forall dn ts a,
  ParsesE ns dn ts a -> Fails ns 8 (S dn) (TP ILParens :: ts).
Proof.
  intros dn ts a HE f n d st lts we Hf Hd Hm HA.
  cbn [List.length] in Hf.
  destruct lts as [|[w t] l2]; [discriminate|]. cbn [map snd] in Hm.
  inversion Hm as [[Ht Hm']]. subst t. cbn [app] in HA.
  assert (Hne : l2 ++ [(we, TEOF)] <> []) by (destruct l2; discriminate).
  destruct (pnext_At _ _ _ _ _ HA Hne) as [st1 [Hn HA1]].
  destruct (HE f n d st1 l2 [(we, TEOF)]) as [st2 [Hp HA2]];
    [lia|lia|exact Hm'|exact HA1|reflexivity|].
  pose proof (typ_At _ _ _ _ _ HA) as Ty. cbn [ttyp] in Ty.
  cbn [lev]. unfold path_expr_b, is_primary_expr. rewrite Ty. unfold filter_expr_b.
  rewrite (primary_paren_missing_close (pgo ns f EExpr) f n st st1 a st2 Ty Hn Hp).
  - eexists. reflexivity.
  - rewrite (At_eof_typ _ _ _ HA2). discriminate.
Qed.

(* damage inside the parentheses *)
Theorem Fails_paren_inner : forall dn ts,
  FailsE ns dn ts -> Fails ns 8 (S dn) (TP ILParens :: ts).
Proof.
  intros dn ts HE f n d st lts we Hf Hd Hm HA.
  cbn [List.length] in Hf.
  destruct lts as [|[w t] l2]; [discriminate|]. cbn [map snd] in Hm.
  inversion Hm as [[Ht Hm']]. subst t. cbn [app] in HA.
  assert (Hne : l2 ++ [(we, TEOF)] <> []) by (destruct l2; discriminate).
  destruct (pnext_At _ _ _ _ _ HA Hne) as [st1 [Hn HA1]].
  pose proof (typ_At _ _ _ _ _ HA) as Ty. cbn [ttyp] in Ty.
  cbn [lev]. unfold path_expr_b, is_primary_expr. rewrite Ty.
  apply is_err_bind. unfold filter_expr_b. apply is_err_bind.
  unfold primary_b. rewrite Ty, Hn. cbn [cbind].
  apply is_err_bind. apply (HE f n d st1 l2 we); [lia|lia|exact Hm'|exact HA1].
Qed.

(* ------------------------------------------------------------------ *)
(** * 6. Function calls: cut after '(' , after ',' , missing ')'        *)
(* ------------------------------------------------------------------ *)

Definition ArgsFails (dn : nat) (ts : list token) : Prop :=
  forall f k acc d st lts we,
    List.length ts + 5 <= f -> List.length ts + 2 <= k -> d + 1 + dn <= max_depth ->
    map snd lts = ts -> AtL st d (lts ++ [(we, TEOF)]) ->
    ParseReject.is_err (args_loop k (pgo ns f EExpr) acc st).

Lemma ArgsFails_depth : forall dn dn' ts, dn <= dn' -> ArgsFails dn ts -> ArgsFails dn' ts.
Proof. intros dn dn' ts Hd H f k acc d st lts we Hf Hk Hdd. apply H; [exact Hf|exact Hk|lia]. Qed.

(* the first argument is damaged (or missing) *)
Lemma Args_first_fails : forall dn ts, FailsE ns dn ts -> ArgsFails dn ts.
Proof.
  intros dn ts HE f k acc d st lts we Hf Hk Hd Hm HA.
  destruct k as [|k]; [lia|]. cbn [args_loop]. apply is_err_bind.
  apply (HE f None d st lts we); [lia|exact Hd|exact Hm|exact HA].
Qed.

Lemma FailsE_nil : FailsE ns 0 [].
Proof. apply FailsE_of. apply Fails_nil. Qed.

(* the last argument is complete but the list is not closed *)
Lemma Args_not_closed : forall dn ts a, ParsesE ns dn ts a -> ArgsFails dn ts.
Proof.
  intros dn ts a HE f k acc d st lts we Hf Hk Hd Hm HA.
  destruct k as [|k]; [lia|]. cbn [args_loop].
  destruct (HE f None d st lts [(we, TEOF)]) as [st1 [Hp HA1]];
    [lia|exact Hd|exact Hm|exact HA|reflexivity|].
  rewrite Hp. cbn [cbind].
  rewrite (is_typ_At _ _ _ _ _ IRParens HA1). cbn [ttyp itype_eqb].
  unfold skip_item, check_item. rewrite (is_typ_At _ _ _ _ _ IComma HA1). cbn [ttyp itype_eqb cbind].
  eexists. reflexivity.
Qed.

(* a complete argument, a comma, and a failing rest *)
Lemma Args_cons_fails : forall dn ts1 a ts2,
  ParsesE ns dn ts1 a -> ArgsFails dn ts2 -> ArgsFails dn (ts1 ++ TP IComma :: ts2).
Proof.
  intros dn ts1 a ts2 HE HA2 f k acc d st lts we Hf Hk Hd Hm HA.
  rewrite app_length in Hf, Hk. cbn [List.length] in Hf, Hk.
  destruct (map_snd_app_inv lts _ _ Hm) as [l1 [l2 [E [H1 H2]]]]. subst lts.
  destruct l2 as [|[wc tc] l2]; [discriminate|]. cbn [map snd] in H2.
  inversion H2 as [[Htc H2']]. subst tc.
  rewrite <- app_assoc in HA. cbn [app] in HA.
  destruct k as [|k]; [lia|]. cbn [args_loop].
  destruct (HE f None d st l1 ((wc, TP IComma) :: l2 ++ [(we, TEOF)])) as [st1 [Hp HA1]];
    [lia|exact Hd|exact H1|exact HA|reflexivity|].
  rewrite Hp. cbn [cbind].
  rewrite (is_typ_At _ _ _ _ _ IRParens HA1). cbn [ttyp itype_eqb].
  assert (Hne : l2 ++ [(we, TEOF)] <> []) by (destruct l2; discriminate).
  destruct (skip_item_At _ _ _ _ _ HA1 Hne) as [st2 [Hs2 HA2']]. cbn [ttyp] in Hs2.
  rewrite Hs2. cbn [cbind].
  apply (HA2 f k (acc ++ [a]) d st2 l2 we); [lia|lia|exact Hd|exact H2'|exact HA2'].
Qed.

Definition not_rparen_hd (ts : list token) : Prop :=
  match ts with TP IRParens :: _ => False | _ => True end.

(* NAME ( failing-argument-list *)
Theorem Fails_call : forall dn fn ats,
  node_type_name fn = false -> not_rparen_hd ats -> ArgsFails dn ats ->
  Fails ns 8 (S dn) (TName fn :: TP ILParens :: ats).
Proof.
  intros dn fn ats Hnt Hhd HAF f n d st lts we Hf Hd Hm HA.
  cbn [List.length] in Hf.
  destruct lts as [|[w0 t0] [|[w1 t1] l3]]; try discriminate. cbn [map snd] in Hm.
  inversion Hm as [[Ht0 Ht1 Hm']]. subst t0 t1. cbn [app] in HA.
  pose proof (typ_At _ _ _ _ _ HA) as Ty. cbn [ttyp] in Ty.
  assert (Hne3 : l3 ++ [(we, TEOF)] <> []) by (destruct l3; discriminate).
  destruct (skip_item_At _ _ _ _ _ HA ltac:(discriminate)) as [st1 [Hs1 HA1]]. cbn [ttyp] in Hs1.
  destruct (skip_item_At _ _ _ _ _ HA1 Hne3) as [st2 [Hs2 HA2]]. cbn [ttyp] in Hs2.
  cbn [lev]. unfold path_expr_b, is_primary_expr. rewrite Ty.
  rewrite (canfunc_At _ _ _ _ _ HA). cbn [next_lparen].
  rewrite (is_node_type_At _ _ _ _ _ HA), Hnt. cbn [negb andb].
  apply is_err_bind. unfold filter_expr_b. apply is_err_bind.
  unfold primary_b. rewrite Ty. unfold method_b. cbv zeta.
  rewrite Hs1. cbn [cbind]. rewrite Hs2. cbn [cbind].
  assert (Hrp : is_typ st2 IRParens = false).
  { destruct l3 as [|[w3 t3] l3]; cbn [app] in HA2.
    - rewrite (is_typ_At _ _ _ _ _ IRParens HA2). reflexivity.
    - rewrite (is_typ_At _ _ _ _ _ IRParens HA2). subst ats. cbn [map snd not_rparen_hd] in Hhd.
      destruct (itype_eqb (ttyp t3) IRParens) eqn:E; [|reflexivity].
      apply itype_eqb_eq in E. destruct t3 as [| | | |p|]; try discriminate E.
      cbn [ttyp] in E. subst p. contradiction. }
  rewrite Hrp. apply is_err_bind.
  apply (HAF f f [] d st2 l3 we); [lia|lia|lia|exact Hm'|exact HA2].
Qed.

End G.

(* ------------------------------------------------------------------ *)
(** * 7. Location paths: cut after '/', '//' , '[' ; missing ']'        *)
(* ------------------------------------------------------------------ *)

Section H.
Variable ns : nsmap.

Definition StepFails (dn : nat) (ts : list token) : Prop :=
  forall f n d st lts we,
    List.length ts + 4 <= f -> d + dn <= max_depth ->
    map snd lts = ts -> AtL st d (lts ++ [(we, TEOF)]) ->
    ParseReject.is_err (pgo ns f EStep n st).

Definition RelFails (dn : nat) (ts : list token) : Prop :=
  forall f k n d st lts we,
    List.length ts + 4 <= f -> List.length ts + 2 <= k -> d + dn <= max_depth ->
    map snd lts = ts -> AtL st d (lts ++ [(we, TEOF)]) ->
    ParseReject.is_err (relpath_loop k (pgo ns f EStep) n st).

Lemma RelFails_depth : forall dn dn' ts, dn <= dn' -> RelFails dn ts -> RelFails dn' ts.
Proof. intros dn dn' ts Hd H f k n d st lts we Hf Hk Hdd. apply H; [exact Hf|exact Hk|lia]. Qed.

(* nothing where a step must stand *)
Lemma Rel_nil_fails : RelFails 0 [].
Proof.
  intros f k n d st lts we Hf Hk Hd Hm HA. destruct lts; [|discriminate]. cbn [app] in HA.
  destruct k as [|k]; [cbn in Hk; lia|]. cbn [relpath_loop]. apply is_err_bind.
  destruct f as [|g]; [cbn in Hf; lia|]. apply pstep_err.
  rewrite (At_eof_typ _ _ _ HA). reflexivity.
Qed.

Lemma Rel_of_step_fails : forall dn ts, StepFails dn ts -> RelFails dn ts.
Proof.
  intros dn ts H f k n d st lts we Hf Hk Hd Hm HA.
  destruct k as [|k]; [lia|]. cbn [relpath_loop]. apply is_err_bind.
  apply (H f n d st lts we Hf Hd Hm HA).
Qed.

(* a complete step, '/' or '//', and a failing rest (possibly nothing) *)
Theorem Rel_cons_fails : forall dn ts1 g1 dbl ts2,
  StepP ns dn ts1 g1 -> RelFails dn ts2 ->
  RelFails dn (ts1 ++ slash_tok dbl :: ts2).
Proof.
  intros dn ts1 g1 dbl ts2 HS HR f k n d st lts we Hf Hk Hd Hm HA.
  rewrite app_length in Hf, Hk. cbn [List.length] in Hf, Hk.
  destruct (map_snd_app_inv lts _ _ Hm) as [l1 [l2 [E [H1 H2]]]]. subst lts.
  destruct l2 as [|[ws ts] l2]; [discriminate|]. cbn [map snd] in H2.
  inversion H2 as [[Hts H2']]. subst ts.
  rewrite <- app_assoc in HA. cbn [app] in HA.
  destruct (HS f n d st l1 ((ws, slash_tok dbl) :: l2 ++ [(we, TEOF)])) as [st1 [Hp HA1]];
    [lia|exact Hd|exact H1|exact HA|destruct dbl; cbn; discriminate|destruct dbl; cbn; discriminate|].
  assert (Hne : l2 ++ [(we, TEOF)] <> []) by (destruct l2; discriminate).
  destruct (pnext_At _ _ _ _ _ HA1 Hne) as [st2 [Hn HA2]].
  destruct k as [|k]; [lia|].
  cbn [relpath_loop]. rewrite Hp. cbn [cbind]. rewrite (typ_At _ _ _ _ _ HA1).
  destruct dbl; cbn [slash_tok ttyp]; rewrite Hn; cbn [cbind];
    apply (HR f k _ d st2 l2 we); try assumption; lia.
Qed.

(* a step head followed by '[' and nothing *)
Theorem Step_bracket_open : forall hts g,
  HeadP ns hts g -> StepFails 0 (hts ++ [TP ILBracket]).
Proof.
  intros hts g HH f n d st lts we Hf Hd Hm HA.
  rewrite app_length in Hf. cbn [List.length] in Hf.
  destruct (map_snd_app_inv lts _ _ Hm) as [l1 [l2 [E [H1 H2]]]]. subst lts.
  destruct l2 as [|[wb tb] [|x l2]]; try discriminate. cbn [map snd] in H2.
  inversion H2 as [Htb]. subst tb.
  rewrite <- app_assoc in HA. cbn [app] in HA.
  destruct f as [|[|[|f]]]; try lia.
  destruct (HH (S (S f)) (pgo ns (S (S f)) EExpr) (pgo ns (S (S f)) EStep) n d st l1
               [(wb, TP ILBracket); (we, TEOF)]) as [st1 [HA1 Heq]];
    [lia|exact H1|exact HA|cbn; discriminate|].
  destruct (pnext_At _ _ _ _ _ HA1 ltac:(discriminate)) as [st2 [Hn HA2]].
  rewrite pgo_S_step, Heq.
  apply (pred_loop_open_trunc (pgo ns (S (S f)) EExpr) (fun n0 st0 H => pexpr_err ns f n0 st0 H)
           (S f) (g n) st1 st2).
  - apply (typ_At _ _ _ _ _ HA1).
  - exact Hn.
  - rewrite (At_eof_typ _ _ _ HA2). reflexivity.
Qed.

(* a step head, '[' , a complete expression, and no ']' *)
Theorem Step_bracket_not_closed : forall hts g dn ets c,
  HeadP ns hts g -> ParsesE ns dn ets c ->
  StepFails (S dn) (hts ++ TP ILBracket :: ets).
Proof.
  intros hts g dn ets c HH HE f n d st lts we Hf Hd Hm HA.
  rewrite app_length in Hf. cbn [List.length] in Hf.
  destruct (map_snd_app_inv lts _ _ Hm) as [l1 [l2 [E [H1 H2]]]]. subst lts.
  destruct l2 as [|[wb tb] l2]; [discriminate|]. cbn [map snd] in H2.
  inversion H2 as [[Htb H2']]. subst tb.
  rewrite <- app_assoc in HA. cbn [app] in HA.
  destruct f as [|[|f]]; try lia.
  destruct (HH (S f) (pgo ns (S f) EExpr) (pgo ns (S f) EStep) n d st l1
               ((wb, TP ILBracket) :: l2 ++ [(we, TEOF)])) as [st1 [HA1 Heq]];
    [lia|exact H1|exact HA|cbn; discriminate|].
  assert (Hne : l2 ++ [(we, TEOF)] <> []) by (destruct l2; discriminate).
  destruct (pnext_At _ _ _ _ _ HA1 Hne) as [st2 [Hn HA2]].
  destruct (HE (S f) (Some (g n)) d st2 l2 [(we, TEOF)]) as [st3 [Hp HA3]];
    [lia|lia|exact H2'|exact HA2|reflexivity|].
  rewrite pgo_S_step, Heq.
  rewrite (pred_loop_missing_close (pgo ns (S f) EExpr) f (g n) st1 st2 c st3
             (typ_At _ _ _ _ _ HA1) Hn Hp).
  - eexists. reflexivity.
  - rewrite (At_eof_typ _ _ _ HA3). discriminate.
Qed.

(* ---- at the path level ---- *)

Theorem Path_rel_fails : forall dn ts,
  rel_start ts = true -> RelFails dn ts -> Fails ns 8 dn ts.
Proof.
  intros dn ts Hr HR f n d st lts we Hf Hd Hm HA.
  rewrite <- Hm in Hr.
  destruct (rel_start_At _ _ _ _ Hr HA ltac:(cbn; discriminate)) as [Hprim [_ [Hn1 Hn2]]].
  cbn [lev]. unfold path_expr_b. rewrite Hprim. unfold location_path_b.
  assert (E : relpath_loop f (pgo ns f EStep) None st = relpath_loop f (pgo ns f EStep) None st) by reflexivity.
  destruct (typ st); try congruence; apply (HR f f None d st lts we); try assumption; lia.
Qed.

Theorem Path_abs_fails : forall dn ts,
  rel_start ts = true -> RelFails dn ts -> Fails ns 8 dn (TP ISlash :: ts).
Proof.
  intros dn ts Hr HR f n d st lts we Hf Hd Hm HA.
  cbn [List.length] in Hf.
  destruct lts as [|[w0 t0] lts]; [discriminate|]. cbn [map snd] in Hm.
  inversion Hm as [[Ht0 Hm']]. subst t0. cbn [app] in HA.
  assert (Hne : lts ++ [(we, TEOF)] <> []) by (destruct lts; discriminate).
  destruct (pnext_At _ _ _ _ _ HA Hne) as [st1 [Hn HA1]].
  rewrite <- Hm' in Hr.
  destruct (rel_start_At _ _ _ _ Hr HA1 ltac:(cbn; discriminate)) as [_ [Hstep _]].
  pose proof (typ_At _ _ _ _ _ HA) as Ty. cbn [ttyp] in Ty.
  cbn [lev]. unfold path_expr_b, is_primary_expr. rewrite Ty. unfold location_path_b. rewrite Ty.
  rewrite Hn. cbn [cbind]. rewrite Hstep.
  apply (HR f f _ d st1 lts we); try assumption; lia.
Qed.

Theorem Path_abs2_fails : forall dn ts,
  RelFails dn ts -> Fails ns 8 dn (TP ISlashSlash :: ts).
Proof.
  intros dn ts HR f n d st lts we Hf Hd Hm HA.
  cbn [List.length] in Hf.
  destruct lts as [|[w0 t0] lts]; [discriminate|]. cbn [map snd] in Hm.
  inversion Hm as [[Ht0 Hm']]. subst t0. cbn [app] in HA.
  assert (Hne : lts ++ [(we, TEOF)] <> []) by (destruct lts; discriminate).
  destruct (pnext_At _ _ _ _ _ HA Hne) as [st1 [Hn HA1]].
  pose proof (typ_At _ _ _ _ _ HA) as Ty. cbn [ttyp] in Ty.
  cbn [lev]. unfold path_expr_b, is_primary_expr. rewrite Ty. unfold location_path_b. rewrite Ty.
  rewrite Hn. cbn [cbind].
  apply (HR f f _ d st1 lts we); try assumption; lia.
Qed.

(* ---- on the syntax of RoundTripPaths ---- *)

(* any relative path cut after a further '/' or '//' *)
Theorem rel_cut_after_slash : forall r dbl, rwf r ->
  RelFails (rdepth r) (rtoks r ++ [slash_tok dbl]).
Proof.
  induction r as [s|s d r IH]; intros dbl Hw; cbn [rwf rtoks rdepth] in *.
  - apply (Rel_cons_fails (sdepth s) (stoks s) (sast s) dbl []).
    + apply (proj1 (proj2 (proj2 (px_parses_all ns))) s Hw).
    + eapply RelFails_depth; [|apply Rel_nil_fails]. lia.
  - destruct Hw as [Hws Hwr]. rewrite <- app_assoc. cbn [app].
    apply (Rel_cons_fails _ (stoks s) (sast s) d (rtoks r ++ [slash_tok dbl])).
    + intros f n dd st lts L1 Hf Hd. apply (proj1 (proj2 (proj2 (px_parses_all ns))) s Hws); [exact Hf|lia].
    + eapply RelFails_depth; [|apply (IH dbl Hwr)]. lia.
Qed.

End H.

(* ------------------------------------------------------------------ *)
(** * 8. The C17 theorems, on texts                                     *)
(* ------------------------------------------------------------------ *)
From XP.Proofs Require Import RoundTripWs EndToEndPaths EndToEndPred DispatchProofs.
From XP Require Import Dispatch.
From XP.Generated Require Import DispatchTable.
Open Scope string_scope.
Open Scope list_scope.

(* rejected in EVERY admissible white-space layout of the tokens *)
Definition rejected_all (re_ok : string -> bool) (ns : nsmap) (ts : list token) : Prop :=
  forall L, lay_ok L = true -> map snd L = ts ++ [TEOF] ->
  rejected (compile re_ok (string_of_list (render L)) ns).

(* one space between any two tokens *)
Definition print_toks_sp (ts : list token) : string :=
  string_of_list (render (fix_lay (lay_sp ts ++ [([], TEOF)]))).

Theorem rejected_all_prints : forall re_ok ns ts we,
  rejected_all re_ok ns ts -> toks_ok ts -> forallb ws_char we = true ->
  rejected (compile re_ok (print_toks ts) ns) /\
  rejected (compile re_ok (print_toks_ws we ts) ns) /\
  rejected (compile re_ok (print_toks_sp ts) ns).
Proof.
  intros re_ok ns ts we H Hok Hwe. split; [|split]; apply H.
  - apply fix_lay_ok; [apply ws_lay0|rewrite map_snd_lay0; exact Hok|reflexivity].
  - rewrite map_snd_fix_lay, map_app, map_snd_lay0. reflexivity.
  - apply fix_lay_ok; [apply ws_lay0|rewrite map_snd_lay0; exact Hok|exact Hwe].
  - rewrite map_snd_fix_lay, map_app, map_snd_lay0. reflexivity.
  - apply fix_lay_ok; [apply ws_lay_sp|rewrite map_snd_lay_sp; exact Hok|reflexivity].
  - rewrite map_snd_fix_lay, map_app, map_snd_lay_sp. reflexivity.
Qed.

Lemma rejected_all_of_FailsE : forall re_ok ns dn ts,
  FailsE ns dn ts -> ts <> [] -> dn < max_depth -> rejected_all re_ok ns ts.
Proof.
  intros re_ok ns dn ts HE Hne Hdn L Hl Hm. apply parse_rejected_compile.
  apply (parse_of_FailsE ns dn ts L HE Hne Hdn Hl Hm).
Qed.

Lemma FailsE_of_Fails8 : forall ns dn ts,
  hd_not_minus ts = true -> Fails ns 8 dn ts -> FailsE ns dn ts.
Proof.
  intros ns dn ts Hh H. apply FailsE_of.
  apply (Fails_down ns dn ts 8 (fun _ => Hh) (le_n _) H). lia.
Qed.

Lemma reject_print : forall re_ok ns ts,
  rejected_all re_ok ns ts -> toks_ok ts -> rejected (compile re_ok (print_toks ts) ns).
Proof. intros re_ok ns ts H Hok. exact (proj1 (rejected_all_prints re_ok ns ts [] H Hok eq_refl)). Qed.

Section C17.
Variable re_ok : string -> bool.
Variable ns : nsmap.

(** (a)  E1 op   — every layout *)
Theorem C17_text_cut_after_operator_all : forall op l,
  xwf l -> level op <= xlvl l -> xdepth l < max_depth ->
  rejected_all re_ok ns (xtoks l ++ [optok op]).
Proof.
  intros op l Hw Hl Hd.
  apply (rejected_all_of_FailsE re_ok ns (xdepth l)); [|destruct (xtoks l); discriminate|exact Hd].
  apply Fails_cut_after_operator; assumption.
Qed.

(** (b1)  ( E   — the parenthesis is never closed *)
Theorem C17_text_missing_rparen : forall e,
  xwf e -> S (xdepth e) < max_depth ->
  rejected_all re_ok ns (TP ILParens :: xtoks e).
Proof.
  intros e Hw Hd.
  apply (rejected_all_of_FailsE re_ok ns (S (xdepth e))); [|discriminate|exact Hd].
  apply FailsE_of_Fails8; [reflexivity|].
  apply (Fails_paren_open ns (xdepth e) (xtoks e) (xast e)).
  apply PX_full; [exact Hw|apply px_parses_all].
Qed.

(** (c)  E )   and   E ]   — an extra closer *)
Theorem C17_text_extra_closer : forall e (rb : bool),
  xwf e -> xdepth e < max_depth ->
  forall L, lay_ok L = true ->
  map snd L = xtoks e ++ [TP (if rb then IRBracket else IRParens); TEOF] ->
  rejected (compile re_ok (string_of_list (render L)) ns).
Proof.
  intros e rb Hw Hd L Hl Hm. apply parse_rejected_compile.
  apply (parse_of_trailing ns (xdepth e) (xtoks e) (xast e) (TP (if rb then IRBracket else IRParens)) L);
    try assumption.
  - apply PX_full; [exact Hw|apply px_parses_all].
  - apply xtoks_ne.
  - destruct rb; reflexivity.
  - destruct rb; discriminate.
Qed.

(** (d1)  P/  and  P//   — any location path (predicates allowed), relative or absolute *)
Lemma not_lparen_rel_start : forall ts ts2,
  rel_start ts = true -> match ts2 with TP ILParens :: _ => False | _ => True end ->
  rel_start (ts ++ ts2) = true.
Proof.
  intros ts ts2 H H2. destruct ts as [|t [|t2 r]]; [discriminate| |exact H].
  cbn [app]. destruct t as [| |nm| |p|]; try exact H.
  destruct ts2 as [|t2 r2]; [exact H|]. cbn [rel_start].
  destruct t2 as [| | | |p2|]; try reflexivity. destruct p2; try reflexivity. contradiction.
Qed.

Lemma path_tail_fails : forall s r tail dn,
  rwf r -> RelFails ns dn (rtoks r ++ tail) ->
  match tail with TP ILParens :: _ => False | _ => True end ->
  FailsE ns dn ((start_toks s ++ rtoks r) ++ tail).
Proof.
  intros s r tail dn Hw HR Ht.
  assert (Hrs : rel_start (rtoks r ++ tail) = true)
    by (apply not_lparen_rel_start; [apply rel_start_rtoks; exact Hw|exact Ht]).
  apply FailsE_of_Fails8.
  - apply hd_not_minus_app. destruct s; cbn [start_toks app]; try reflexivity.
    rewrite <- (app_nil_r (rtoks r)). apply rtoks_hd.
  - rewrite <- app_assoc. destruct s; cbn [start_toks app].
    + apply Path_rel_fails; assumption.
    + apply Path_abs_fails; assumption.
    + apply Path_abs2_fails; assumption.
Qed.

Theorem C17_text_cut_after_slash : forall s r dbl,
  rwf r -> rdepth r < max_depth ->
  rejected_all re_ok ns (xtoks (XPath s r) ++ [slash_tok dbl]).
Proof.
  intros s r dbl Hw Hd. cbn [xtoks].
  apply (rejected_all_of_FailsE re_ok ns (rdepth r)); [| |exact Hd].
  - apply path_tail_fails; [exact Hw|apply rel_cut_after_slash; exact Hw|destruct dbl; exact I].
  - destruct (start_toks s ++ rtoks r); discriminate.
Qed.

(* ---- predicate-free paths: a '[' that is cut, or never closed ---- *)

Lemma head_pfree : forall s x, step_of s = Some x ->
  exists g, HeadP ns (stoks s) g.
Proof.
  intros s x H. pose proof (step_of_wf s x H) as [Hw _].
  destruct (step_of_pnil s x H) as [[dd ->]|[a [t ->]]].
  - cbn [stoks ptoks]. rewrite app_nil_r. unfold head_toks_abbr.
    destruct dd; eexists; [apply Head_dotdot|apply Head_dot].
  - cbn [stoks ptoks swf] in *. rewrite app_nil_r. eexists. apply Head_axis. tauto.
Qed.

Lemma rel_tail_fails : forall r l tail dn,
  rsteps_of r = Some l ->
  (forall hts g, HeadP ns hts g -> StepFails ns dn (hts ++ tail)) ->
  RelFails ns dn (rtoks r ++ tail).
Proof.
  induction r as [s|s d r IH]; intros l tail dn H Ht; cbn [rsteps_of rtoks] in *.
  - destruct (step_of s) as [x|] eqn:Es; [|discriminate].
    destruct (head_pfree s x Es) as [g Hg]. apply Rel_of_step_fails. apply (Ht _ g Hg).
  - destruct (step_of s) as [x|] eqn:Es; [|discriminate].
    destruct (rsteps_of r) as [l'|] eqn:Er; [|discriminate].
    destruct (step_of_wf s x Es) as [Hws Hds].
    rewrite <- app_assoc. cbn [app].
    apply (Rel_cons_fails ns dn (stoks s) (sast s) d (rtoks r ++ tail)).
    + intros f n dd st lts L1 Hf Hd.
      apply (proj1 (proj2 (proj2 (px_parses_all ns))) s Hws); [exact Hf|lia].
    + apply (IH l' tail dn eq_refl Ht).
Qed.

Lemma path_syntax_inv : forall p, path_syntax p ->
  exists s r l, p = XPath s r /\ rsteps_of r = Some l /\ rwf r.
Proof.
  intros p [res H]. destruct p as [| | | | |s r| | | | |]; try discriminate.
  cbn [steps_of_opt] in H. destruct (rsteps_of r) as [l|] eqn:Er; [|discriminate].
  exists s, r, l. split; [reflexivity|]. split; [exact Er|]. apply (rsteps_of_wf r l Er).
Qed.

(** (d2)  P[   — cut after the bracket *)
Theorem C17_text_cut_after_lbracket : forall p,
  path_syntax p -> rejected_all re_ok ns (xtoks p ++ [TP ILBracket]).
Proof.
  intros p Hp. destruct (path_syntax_inv p Hp) as (s & r & l & -> & Er & Hw). cbn [xtoks].
  apply (rejected_all_of_FailsE re_ok ns 0); [| |unfold max_depth; lia].
  - apply path_tail_fails; [exact Hw| |exact I].
    apply (rel_tail_fails r l _ 0 Er). intros hts g Hg. apply (Step_bracket_open ns hts g Hg).
  - destruct (start_toks s ++ rtoks r); discriminate.
Qed.

(** (b2)  P[E   — the bracket is never closed: the text of P[E] without its last character *)
Theorem C17_text_missing_rbracket : forall p e,
  path_syntax p -> xwf e -> S (xdepth e) < max_depth ->
  rejected_all re_ok ns (xtoks p ++ TP ILBracket :: xtoks e).
Proof.
  intros p e Hp Hwe Hd. destruct (path_syntax_inv p Hp) as (s & r & l & -> & Er & Hw). cbn [xtoks].
  apply (rejected_all_of_FailsE re_ok ns (S (xdepth e))); [| |exact Hd].
  - apply path_tail_fails; [exact Hw| |exact I].
    apply (rel_tail_fails r l _ _ Er). intros hts g Hg.
    apply (Step_bracket_not_closed ns hts g (xdepth e) (xtoks e) (xast e) Hg).
    apply PX_full; [exact Hwe|apply px_parses_all].
  - destruct (start_toks s ++ rtoks r); discriminate.
Qed.

(* these ARE the tokens of P[E] without the closing bracket *)
Lemma with_pred_toks : forall p e, path_syntax p ->
  xtoks (with_pred p e) = (xtoks p ++ TP ILBracket :: xtoks e) ++ [TP IRBracket].
Proof.
  intros p e Hp. destruct (path_syntax_inv p Hp) as (s & r & l & -> & Er & _).
  clear Hp. cbn [with_pred xtoks]. rewrite <- !app_assoc. f_equal. cbn [app].
  revert l Er. induction r as [st|st d r IH]; intros l Er; cbn [rsteps_of r_add_pred rtoks] in *.
  - destruct (step_of st) as [x|] eqn:Es; [|discriminate].
    destruct (step_of_pnil st x Es) as [[dd ->]|[a [t ->]]];
      cbn [s_add_pred stoks ptoks]; rewrite ?app_nil_r, <- ?app_assoc; reflexivity.
  - destruct (step_of st); [|discriminate]. destruct (rsteps_of r) as [l'|] eqn:Er'; [|discriminate].
    rewrite (IH l' eq_refl). rewrite <- app_assoc. reflexivity.
Qed.

(** (d3) (d4)  function calls: cut after '(' , after a ',' , or never closed *)
Lemma stoks_not_rparen : forall s ts, not_rparen_hd (stoks s ++ ts).
Proof.
  intros [dd ps|a t ps] ts; cbn [stoks head_toks_abbr app].
  - destruct dd; exact I.
  - destruct a; destruct t; exact I.
Qed.

Lemma rtoks_not_rparen : forall r ts, not_rparen_hd (rtoks r ++ ts).
Proof.
  intros [s|s d r] ts; cbn [rtoks]; [apply stoks_not_rparen|].
  rewrite <- app_assoc. apply stoks_not_rparen.
Qed.

Lemma xtoks_not_rparen_gen : forall e ts, not_rparen_hd (xtoks e ++ ts).
Proof.
  induction e as [ds|b|e IH|op l IHl r IHr|m e IH|s p|fn a|fn|nm|p IHp ps|p IHp dbl r];
    intros ts; cbn [xtoks app not_rparen_hd]; try exact I.
  - rewrite <- app_assoc. apply IHl.
  - destruct m; cbn [repeat app]; [apply IH|exact I].
  - destruct s; cbn [start_toks app]; try exact I. apply rtoks_not_rparen.
  - rewrite <- app_assoc. apply IHp.
  - rewrite <- app_assoc. apply IHp.
Qed.

Lemma atoks_not_rparen : forall a ts, not_rparen_hd (atoks a ++ ts).
Proof.
  intros [e|e a] ts; cbn [atoks]; [apply xtoks_not_rparen_gen|].
  rewrite <- app_assoc. apply xtoks_not_rparen_gen.
Qed.

(* the argument list followed by a comma and nothing *)
Lemma args_cut_after_comma : forall a, awf a ->
  ArgsFails ns (RoundTripPaths.adepth a) (atoks a ++ [TP IComma]).
Proof.
  induction a as [e|e a IH]; intros Hw; cbn [awf atoks RoundTripPaths.adepth] in *.
  - apply (Args_cons_fails ns _ (xtoks e) (xast e) []).
    + apply PX_full; [exact Hw|apply px_parses_all].
    + eapply ArgsFails_depth; [|apply Args_first_fails; apply FailsE_nil]. lia.
  - destruct Hw as [Hwe Hwa]. rewrite <- app_assoc. cbn [app].
    apply (Args_cons_fails ns _ (xtoks e) (xast e) (atoks a ++ [TP IComma])).
    + eapply ParsesE_depth; [apply Nat.le_max_l|]. apply PX_full; [exact Hwe|apply px_parses_all].
    + eapply ArgsFails_depth; [apply Nat.le_max_r|]. apply IH. exact Hwa.
Qed.

(* the argument list and nothing *)
Lemma args_not_closed : forall a, awf a -> ArgsFails ns (RoundTripPaths.adepth a) (atoks a).
Proof.
  induction a as [e|e a IH]; intros Hw; cbn [awf atoks RoundTripPaths.adepth] in *.
  - apply (Args_not_closed ns _ (xtoks e) (xast e)). apply PX_full; [exact Hw|apply px_parses_all].
  - destruct Hw as [Hwe Hwa].
    apply (Args_cons_fails ns _ (xtoks e) (xast e) (atoks a)).
    + eapply ParsesE_depth; [apply Nat.le_max_l|]. apply PX_full; [exact Hwe|apply px_parses_all].
    + eapply ArgsFails_depth; [apply Nat.le_max_r|]. apply IH. exact Hwa.
Qed.

Theorem C17_text_cut_after_call_lparen : forall fn,
  node_type_name fn = false -> rejected_all re_ok ns [TName fn; TP ILParens].
Proof.
  intros fn Hnt.
  apply (rejected_all_of_FailsE re_ok ns 1); [|discriminate|unfold max_depth; lia].
  apply FailsE_of_Fails8; [reflexivity|].
  apply (Fails_call ns 0 fn [] Hnt I). apply Args_first_fails. apply FailsE_nil.
Qed.

Theorem C17_text_cut_after_comma : forall fn a,
  node_type_name fn = false -> awf a -> S (RoundTripPaths.adepth a) < max_depth ->
  rejected_all re_ok ns (TName fn :: TP ILParens :: atoks a ++ [TP IComma]).
Proof.
  intros fn a Hnt Hw Hd.
  apply (rejected_all_of_FailsE re_ok ns (S (RoundTripPaths.adepth a))); [|discriminate|exact Hd].
  apply FailsE_of_Fails8; [reflexivity|].
  apply (Fails_call ns (RoundTripPaths.adepth a) fn _ Hnt (atoks_not_rparen a _)). apply args_cut_after_comma. exact Hw.
Qed.

Theorem C17_text_call_not_closed : forall fn a,
  node_type_name fn = false -> awf a -> S (RoundTripPaths.adepth a) < max_depth ->
  rejected_all re_ok ns (TName fn :: TP ILParens :: atoks a).
Proof.
  intros fn a Hnt Hw Hd.
  apply (rejected_all_of_FailsE re_ok ns (S (RoundTripPaths.adepth a))); [|discriminate|exact Hd].
  apply FailsE_of_Fails8; [reflexivity|].
  rewrite <- (app_nil_r (atoks a)).
  apply (Fails_call ns (RoundTripPaths.adepth a) fn _ Hnt (atoks_not_rparen a _)).
  rewrite app_nil_r. apply args_not_closed. exact Hw.
Qed.

(** (e)  calls that parse but do not build: unknown name, wrong number of arguments *)
Lemma compile_process_err : forall text a,
  parse text ns = Ok a -> BuildFacts.is_err (process re_ok 0 a fl_none fi_nil) ->
  rejected (compile re_ok text ns).
Proof.
  intros text a Hp [msg He]. unfold compile, compile_fuel, build_fuel.
  destruct (String.eqb text ""); [eexists; reflexivity|].
  unfold parse in Hp. rewrite Hp. cbn [cbind]. rewrite He. eexists. reflexivity.
Qed.

Definition call_px (fn : string) (oa : option xargs) : px :=
  match oa with Some a => XCall fn a | None => XCall0 fn end.
Definition call_args (oa : option xargs) : list anode :=
  match oa with Some a => aast a | None => [] end.

Lemma call_ast : forall fn oa, xast (call_px fn oa) = AFunc "" fn (call_args oa).
Proof. intros fn [a|]; reflexivity. Qed.

Theorem C17_text_unknown_function : forall fn oa w,
  known_function fn = false ->
  xwf (call_px fn oa) -> xok (call_px fn oa) -> xdepth (call_px fn oa) < max_depth -> ws_fun w ->
  rejected (compile re_ok (print_min (call_px fn oa)) ns) /\
  rejected (compile re_ok (print_ws w (call_px fn oa)) ns).
Proof.
  intros fn oa w Hk Hw Hok Hd Hws.
  pose proof (roundtrip_print_min ns _ Hw Hok Hd) as P. rewrite call_ast in P.
  split.
  - apply (compile_process_err _ _ P). apply process_unknown_function_err. exact Hk.
  - apply (compile_process_err _ (AFunc "" fn (call_args oa))).
    + rewrite (RoundTripWs.C10_white_space ns w _ Hws Hw Hok Hd). exact P.
    + apply process_unknown_function_err. exact Hk.
Qed.

Theorem C17_text_bad_arity : forall fn oa w,
  bad_arity fn (List.length (call_args oa)) = true ->
  xwf (call_px fn oa) -> xok (call_px fn oa) -> xdepth (call_px fn oa) < max_depth -> ws_fun w ->
  rejected (compile re_ok (print_min (call_px fn oa)) ns) /\
  rejected (compile re_ok (print_ws w (call_px fn oa)) ns).
Proof.
  intros fn oa w Hk Hw Hok Hd Hws.
  pose proof (roundtrip_print_min ns _ Hw Hok Hd) as P. rewrite call_ast in P.
  split.
  - apply (compile_process_err _ _ P). apply process_bad_arity. exact Hk.
  - apply (compile_process_err _ (AFunc "" fn (call_args oa))).
    + rewrite (RoundTripWs.C10_white_space ns w _ Hws Hw Hok Hd). exact P.
    + apply process_bad_arity. exact Hk.
Qed.

(* in terms of the table regenerated from build.go on every run *)
Corollary C17_text_go_rejected_call : forall r oa,
  In r go_functions -> go_rejects r (List.length (call_args oa)) = true ->
  xwf (call_px (fr_name r) oa) -> xok (call_px (fr_name r) oa) ->
  xdepth (call_px (fr_name r) oa) < max_depth ->
  rejected (compile re_ok (print_min (call_px (fr_name r) oa)) ns).
Proof.
  intros r oa Hr Hg Hw Hok Hd.
  assert (Hb : bad_arity (fr_name r) (List.length (call_args oa)) = true)
    by (rewrite <- (dispatch_arity_tie r _ Hr); exact Hg).
  exact (proj1 (C17_text_bad_arity (fr_name r) oa (fun _ => []) Hb Hw Hok Hd (fun i => eq_refl))).
Qed.

Corollary C17_text_go_unlisted_name : forall fn oa,
  str_in fn (map fr_name go_functions) = false ->
  xwf (call_px fn oa) -> xok (call_px fn oa) -> xdepth (call_px fn oa) < max_depth ->
  rejected (compile re_ok (print_min (call_px fn oa)) ns).
Proof.
  intros fn oa Hn Hw Hok Hd.
  assert (Hk : known_function fn = false)
    by (pose proof (dispatch_names_tie fn) as E; rewrite Hn in E; exact E).
  exact (proj1 (C17_text_unknown_function fn oa (fun _ => []) Hk Hw Hok Hd (fun i => eq_refl))).
Qed.

End C17.

Print Assumptions C17_text_cut_after_operator_all.
Print Assumptions C17_text_missing_rparen.
Print Assumptions C17_text_missing_rbracket.
Print Assumptions C17_text_extra_closer.
Print Assumptions C17_text_cut_after_slash.
Print Assumptions C17_text_cut_after_lbracket.
Print Assumptions C17_text_cut_after_call_lparen.
Print Assumptions C17_text_cut_after_comma.
Print Assumptions C17_text_call_not_closed.
Print Assumptions C17_text_unknown_function.
Print Assumptions C17_text_bad_arity.
Print Assumptions C17_text_go_rejected_call.
Print Assumptions C17_text_go_unlisted_name.

(* ------------------------------------------------------------------ *)
(** * 9. Examples                                                       *)
(* ------------------------------------------------------------------ *)
Module Examples.

Definition nm (s : string) : xstep := SAxis AxChild (NName s) PNil.
Definition pth (l : rpath) : px := XPath PRel l.
Definition one : px := XNum (list_of_string "1").

(*  a/b[c=1]  *)
Definition e_ab : px :=
  pth (RCons (nm "a") false (ROne (SAxis AxChild (NName "b") (PCons (XBin BEq (pth (ROne (nm "c"))) one) PNil)))).
Definition e_a : px := pth (ROne (nm "a")).
Definition e_aub : px := XBin BUnion (pth (ROne (nm "a"))) (pth (ROne (nm "b"))).

(* "a/b[c=1] or" : cut after the operator, in the layout with a space before "or" *)
Definition L_or : layout :=
  lay0 (xtoks e_ab) ++ [([" "%char], TName "or"); ([], TEOF)].
Example cut_after_or :
  string_of_list (render L_or) = "a/b[c=1] or" /\
  rejected (compile Api.lit_ok "a/b[c=1] or" None) /\
  rejected (compile Api.lit_ok (print_toks (xtoks e_ab ++ [optok BOr])) None).
Proof.
  split; [vm_compute; reflexivity|].
  pose proof (C17_text_cut_after_operator_all Api.lit_ok None BOr e_ab) as H.
  assert (Hw : xwf e_ab) by (cbn; repeat split; (lia || reflexivity)).
  assert (Hd : xdepth e_ab < max_depth) by (cbn; unfold max_depth; lia).
  specialize (H Hw ltac:(cbn; lia) Hd). split.
  - replace "a/b[c=1] or" with
      (string_of_list (render L_or)) by (vm_compute; reflexivity).
    apply H; vm_compute; reflexivity.
  - apply (reject_print Api.lit_ok None _ H). vm_compute. reflexivity.
Qed.
Example cut_after_or_value : compile Api.lit_ok "a/b[c=1] or" None = Err "expression must evaluate to a node-set".
Proof. vm_compute. reflexivity. Qed.

(* all 14 operators after  a/b[c=1] *)
Example cut_after_every_operator : forall op,
  rejected (compile Api.lit_ok (print_toks (xtoks one ++ [optok op])) None).
Proof.
  intros op.
  apply (reject_print Api.lit_ok None (xtoks one ++ [optok op])); [|destruct op; reflexivity].
  apply C17_text_cut_after_operator_all; [exact I|destruct op; cbn; lia|cbn; unfold max_depth; lia].
Qed.
Example cut_texts : map (fun op => print_toks (xtoks one ++ [optok op]))
                        [BOr; BAnd; BEq; BNe; BLt; BLe; BGt; BGe; BAdd; BSub; BMul; BDiv; BMod; BUnion]
  = ["1or"; "1and"; "1="; "1!="; "1<"; "1<="; "1>"; "1>="; "1+"; "1-"; "1*"; "1div"; "1mod"; "1|"].
Proof. vm_compute. reflexivity. Qed.

(* "(a|b" *)
Example missing_rparen :
  print_toks (TP ILParens :: xtoks e_aub) = "(a|b" /\ rejected (compile Api.lit_ok "(a|b" None).
Proof.
  split; [vm_compute; reflexivity|].
  replace "(a|b" with
      (print_toks (TP ILParens :: xtoks e_aub)) by (vm_compute; reflexivity).
  apply (reject_print Api.lit_ok None (TP ILParens :: xtoks e_aub)); [|vm_compute; reflexivity].
  apply C17_text_missing_rparen; [cbn; repeat split; lia|cbn; unfold max_depth; lia].
Qed.

(* "a/b[c=1" : the text of a/b[c=1] without its last character *)
Definition e_a_b : px := pth (RCons (nm "a") false (ROne (nm "b"))).
Definition e_c1 : px := XBin BEq (pth (ROne (nm "c"))) one.
Example missing_rbracket :
  print_min (with_pred e_a_b e_c1) = "a/b[c=1]" /\
  print_toks (xtoks e_a_b ++ TP ILBracket :: xtoks e_c1) = "a/b[c=1" /\
  rejected (compile Api.lit_ok "a/b[c=1" None).
Proof.
  split; [vm_compute; reflexivity|]. split; [vm_compute; reflexivity|].
  replace "a/b[c=1" with
      (print_toks (xtoks e_a_b ++ TP ILBracket :: xtoks e_c1)) by (vm_compute; reflexivity).
  apply (reject_print Api.lit_ok None (xtoks e_a_b ++ TP ILBracket :: xtoks e_c1)); [|vm_compute; reflexivity].
  apply C17_text_missing_rbracket;
    [apply path_syntax_b_ok; vm_compute; reflexivity|cbn; repeat split; lia|cbn; unfold max_depth; lia].
Qed.

(* "a|b)"  and  "a|b]" *)
Example extra_closers :
  rejected (compile Api.lit_ok "a|b)" None) /\ rejected (compile Api.lit_ok "a|b]" None).
Proof.
  assert (Hw : xwf e_aub) by (cbn; repeat split; lia).
  assert (Hd : xdepth e_aub < max_depth) by (cbn; unfold max_depth; lia).
  split.
  - replace "a|b)" with
      (string_of_list (render (lay0 (xtoks e_aub ++ [TP IRParens; TEOF])))) by (vm_compute; reflexivity).
    apply (C17_text_extra_closer Api.lit_ok None e_aub false Hw Hd); vm_compute; reflexivity.
  - replace "a|b]" with
      (string_of_list (render (lay0 (xtoks e_aub ++ [TP IRBracket; TEOF])))) by (vm_compute; reflexivity).
    apply (C17_text_extra_closer Api.lit_ok None e_aub true Hw Hd); vm_compute; reflexivity.
Qed.

(* "a/b/" , "/a/b//" , "a/b[" *)
Example cut_in_paths :
  rejected (compile Api.lit_ok "a/b/" None) /\ rejected (compile Api.lit_ok "/a/b//" None) /\
  rejected (compile Api.lit_ok "a/b[" None).
Proof.
  split; [|split].
  - replace "a/b/" with
      (print_toks (xtoks e_a_b ++ [slash_tok false])) by (vm_compute; reflexivity).
    apply (reject_print Api.lit_ok None (xtoks e_a_b ++ [slash_tok false])); [|vm_compute; reflexivity].
    apply C17_text_cut_after_slash; [cbn; auto|cbn; unfold max_depth; lia].
  - replace "/a/b//" with
      (print_toks (xtoks (XPath PAbs (RCons (nm "a") false (ROne (nm "b")))) ++ [slash_tok true])) by (vm_compute; reflexivity).
    apply (reject_print Api.lit_ok None (xtoks (XPath PAbs (RCons (nm "a") false (ROne (nm "b")))) ++ [slash_tok true])); [|vm_compute; reflexivity].
    apply C17_text_cut_after_slash; [cbn; auto|cbn; unfold max_depth; lia].
  - replace "a/b[" with
      (print_toks (xtoks e_a_b ++ [TP ILBracket])) by (vm_compute; reflexivity).
    apply (reject_print Api.lit_ok None (xtoks e_a_b ++ [TP ILBracket])); [|vm_compute; reflexivity].
    apply C17_text_cut_after_lbracket. apply path_syntax_b_ok. vm_compute. reflexivity.
Qed.
(* the bare "/" is a complete expression: the restriction in (d) is needed *)
Example bare_slash_compiles : compile Api.lit_ok "/" None = Ok QAbsolute.
Proof. vm_compute. reflexivity. Qed.

(* "count(" , "concat(a," , "count(a" *)
Example cut_in_calls :
  rejected (compile Api.lit_ok "count(" None) /\ rejected (compile Api.lit_ok "concat(a," None) /\
  rejected (compile Api.lit_ok "count(a" None).
Proof.
  split; [|split].
  - replace "count(" with
      (print_toks [TName "count"; TP ILParens]) by (vm_compute; reflexivity).
    apply (reject_print Api.lit_ok None [TName "count"; TP ILParens]); [|vm_compute; reflexivity].
    apply C17_text_cut_after_call_lparen. reflexivity.
  - replace "concat(a," with
      (print_toks (TName "concat" :: TP ILParens :: atoks (AOne e_a) ++ [TP IComma])) by (vm_compute; reflexivity).
    apply (reject_print Api.lit_ok None (TName "concat" :: TP ILParens :: atoks (AOne e_a) ++ [TP IComma])); [|vm_compute; reflexivity].
    apply C17_text_cut_after_comma; [reflexivity|cbn; auto|cbn; unfold max_depth; lia].
  - replace "count(a" with
      (print_toks (TName "count" :: TP ILParens :: atoks (AOne e_a))) by (vm_compute; reflexivity).
    apply (reject_print Api.lit_ok None (TName "count" :: TP ILParens :: atoks (AOne e_a))); [|vm_compute; reflexivity].
    apply C17_text_call_not_closed; [reflexivity|cbn; auto|cbn; unfold max_depth; lia].
Qed.

(* "foo(a)" : unknown name;  "count()" , "substring(a)" : wrong number of arguments *)
Example builder_rejections :
  rejected (compile Api.lit_ok "foo(a)" None) /\ rejected (compile Api.lit_ok "count()" None) /\
  rejected (compile Api.lit_ok "substring(a)" None).
Proof.
  split; [|split].
  - replace "foo(a)" with
      (print_min (call_px "foo" (Some (AOne e_a)))) by (vm_compute; reflexivity).
    apply (C17_text_go_unlisted_name Api.lit_ok None "foo" (Some (AOne e_a)));
      [vm_compute; reflexivity|cbn; auto|vm_compute; reflexivity|cbn; unfold max_depth; lia].
  - replace "count()" with
      (print_min (call_px "count" None)) by (vm_compute; reflexivity).
    apply (proj1 (C17_text_bad_arity Api.lit_ok None "count" None (fun _ => []) eq_refl eq_refl
                    ltac:(vm_compute; reflexivity) ltac:(cbn; unfold max_depth; lia) (fun i => eq_refl))).
  - replace "substring(a)" with
      (print_min (call_px "substring" (Some (AOne e_a)))) by (vm_compute; reflexivity).
    apply (proj1 (C17_text_bad_arity Api.lit_ok None "substring" (Some (AOne e_a)) (fun _ => []) eq_refl
                    ltac:(cbn; auto) ltac:(vm_compute; reflexivity) ltac:(cbn; unfold max_depth; lia)
                    (fun i => eq_refl))).
Qed.

End Examples.
