#!/usr/bin/env python3
"""usage: bin/seedrecord.py <seedtest log> [--after]
Records the SEED lines of a bin/seedtest log in seeded/<id>/meta.json: the first result of a
check goes to checks_run_first, later ones (or all with --after) to checks_run_after_strengthening."""
import sys, re, json, os
root = os.path.dirname(os.path.dirname(os.path.abspath(__file__)))
after = '--after' in sys.argv
for l in open(sys.argv[1]):
    m = re.match(r'SEED (\S+) check=(\S+) exit=(\d+) violations=(\d+)', l)
    if not m: continue
    sid, chk, rc, v = m.group(1), m.group(2), int(m.group(3)), int(m.group(4))
    res = 'VIOLATION' if (rc == 1 and v > 0) else ('missed' if rc == 0 else f'exit={rc}')
    p = os.path.join(root, 'seeded', sid, 'meta.json')
    meta = json.load(open(p))
    first = meta.setdefault('checks_run_first', {})
    aft = meta.setdefault('checks_run_after_strengthening', {})
    if not after and chk not in first: first[chk] = res
    else: aft[chk] = res
    json.dump(meta, open(p, 'w'), indent=1)
    print(sid, chk, res)
