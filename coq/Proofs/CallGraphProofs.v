(* Proofs/CallGraphProofs.v -- the stack-length bound behind the stack clause of C06.

   Main results
     residual_walk_short : when the elimination check succeeds, a call path without
                           guarded frames and structural entries has at most
                           |nodes| frames (it is a walk in an acyclic graph);
     stack_bounded       : when the check succeeds, a call path that respects the
                           guards and has at most sd structural entries has at most
                           (B + sd + 1) * |nodes| + B + sd frames, B = budget guards.

   Not modelled: the size in bytes of a frame.  The translator that produces the
   graph is name based and trusted.  "respects_guards" is what the depth guards
   enforce dynamically (validated by the deep-nesting tests on the Go side). *)
From Coq Require Import List String Bool Arith Lia.
Import ListNotations.
From XP Require Import CallGraph.

Local Notation len := List.length.

(* ------------------------------------------------------------------ *)
(* membership helpers                                                   *)

Lemma memb_In : forall x l, In x l -> memb x l = true.
Proof.
  intros x l Hin. unfold memb. apply existsb_exists.
  exists x. split; [exact Hin | apply String.eqb_refl].
Qed.

Lemma In_elim_step :
  forall edges W x y,
    In x W -> In y W -> In (x, y, false) edges -> In x (elim_step edges W).
Proof.
  intros edges W x y Hx Hy He. unfold elim_step.
  apply filter_In. split; [exact Hx|].
  unfold has_succ. apply existsb_exists.
  exists (x, y, false). split; [exact He|].
  cbn. rewrite String.eqb_refl, (memb_In y W Hy). reflexivity.
Qed.

Lemma elim_step_nil : forall edges, elim_step edges [] = [].
Proof. reflexivity. Qed.

Lemma elim_nil_later :
  forall edges W0 n d, elim edges n W0 = [] -> elim edges (d + n) W0 = [].
Proof.
  intros edges W0 n d Hn. induction d as [|d IH].
  - exact Hn.
  - cbn [Nat.add elim]. rewrite IH. reflexivity.
Qed.

(* ------------------------------------------------------------------ *)
(* residual walks                                                       *)

(* a frame that cuts the stack: a guarded function, or a structural entry *)
Definition breaker (guards : list (string * nat)) (f : frame) : bool :=
  guarded guards (fst f) || snd f.

Lemma In_free_nodes :
  forall nodes guards x,
    In x nodes -> guarded guards x = false -> In x (free_nodes nodes guards).
Proof.
  intros nodes guards x Hin Hg. unfold free_nodes. apply filter_In.
  split; [exact Hin | rewrite Hg; reflexivity].
Qed.

(* the head of a breaker-free call path with k+1 frames survives k (and fewer)
   rounds of elimination *)
Lemma walk_head_survives :
  forall nodes edges guards w,
    call_path nodes edges w ->
    Forall (fun f => breaker guards f = false) w ->
    forall f q, w = f :: q ->
    forall j, j <= len q -> In (fst f) (elim edges j (free_nodes nodes guards)).
Proof.
  intros nodes edges guards w. induction w as [|a w IH]; intros Hpath Hfree f q Heq j Hj.
  - discriminate Heq.
  - injection Heq as Hf Hq. subst a q.
    cbn [call_path] in Hpath. destruct Hpath as (Hin & Hedge & Hrest).
    inversion Hfree as [|? ? Hbf Hfree']; subst.
    unfold breaker in Hbf. apply orb_false_iff in Hbf. destruct Hbf as [Hgf Hsf].
    induction j as [|j IHj].
    + cbn [elim]. apply In_free_nodes; assumption.
    + destruct w as [|f' w'].
      * cbn in Hj. lia.
      * cbn [elim].
        assert (Hj' : j <= len w') by (cbn in Hj; lia).
        apply In_elim_step with (y := fst f').
        -- apply IHj. cbn. lia.
        -- apply (IH Hrest Hfree' f' w' eq_refl j Hj').
        -- inversion Hfree' as [|? ? Hbf' _]; subst.
           unfold breaker in Hbf'. apply orb_false_iff in Hbf'.
           destruct Hbf' as [_ Hsf']. rewrite Hsf' in Hedge. exact Hedge.
Qed.

Theorem residual_walk_short :
  forall nodes edges guards w,
    unguarded_acyclic nodes edges guards = true ->
    call_path nodes edges w ->
    Forall (fun f => breaker guards f = false) w ->
    len w <= len nodes.
Proof.
  intros nodes edges guards w Hchk Hpath Hfree.
  unfold unguarded_acyclic in Hchk.
  destruct (elim edges (len nodes) (free_nodes nodes guards)) as [|x r] eqn:Helim;
    [|discriminate Hchk].
  destruct w as [|f q]; [cbn; lia|].
  destruct (le_lt_dec (len nodes) (len q)) as [Hge|Hlt].
  - exfalso.
    pose proof (walk_head_survives nodes edges guards (f :: q) Hpath Hfree f q eq_refl
                                   (len nodes) Hge) as Hin.
    rewrite Helim in Hin. exact Hin.
  - cbn. lia.
Qed.

(* ------------------------------------------------------------------ *)
(* cutting a call path at its breakers                                  *)

(* the longest breaker-free prefix *)
Fixpoint free_prefix (guards : list (string * nat)) (p : list frame) : list frame :=
  match p with
  | [] => []
  | f :: q => if breaker guards f then [] else f :: free_prefix guards q
  end.

Lemma free_prefix_free :
  forall guards p, Forall (fun f => breaker guards f = false) (free_prefix guards p).
Proof.
  intros guards p. induction p as [|f q IH]; cbn [free_prefix].
  - constructor.
  - destruct (breaker guards f) eqn:Hb; [constructor|].
    constructor; assumption.
Qed.

Lemma free_prefix_head :
  forall guards q f' r, free_prefix guards q = f' :: r -> exists q', q = f' :: q'.
Proof.
  intros guards q f' r H. destruct q as [|a q']; cbn [free_prefix] in H.
  - discriminate H.
  - destruct (breaker guards a); [discriminate H|].
    injection H as Ha _. subst a. exists q'. reflexivity.
Qed.

Lemma free_prefix_path :
  forall nodes edges guards p,
    call_path nodes edges p -> call_path nodes edges (free_prefix guards p).
Proof.
  intros nodes edges guards p. induction p as [|f q IH]; intros Hpath; cbn [free_prefix].
  - exact I.
  - destruct (breaker guards f); [exact I|].
    cbn [call_path] in Hpath. destruct Hpath as (Hin & Hedge & Hrest).
    cbn [call_path]. split; [exact Hin|]. split; [|exact (IH Hrest)].
    destruct (free_prefix guards q) as [|f' r] eqn:Hfp; [exact I|].
    destruct (free_prefix_head guards q f' r Hfp) as [q' Hq]. subst q. exact Hedge.
Qed.

Definition count_breakers (guards : list (string * nat)) (p : list frame) : nat :=
  len (filter (breaker guards) p).

(* length = first segment + (N+1) per breaker, when every segment has at most N frames *)
Lemma length_by_segments :
  forall nodes edges guards p,
    unguarded_acyclic nodes edges guards = true ->
    call_path nodes edges p ->
    len p <= len (free_prefix guards p) + count_breakers guards p * (len nodes + 1).
Proof.
  intros nodes edges guards p Hchk. induction p as [|f q IH]; intros Hpath.
  - cbn. lia.
  - assert (Hrest : call_path nodes edges q).
    { cbn [call_path] in Hpath. tauto. }
    specialize (IH Hrest).
    assert (Hseg : len (free_prefix guards q) <= len nodes).
    { apply (residual_walk_short nodes edges guards).
      - exact Hchk.
      - apply free_prefix_path. exact Hrest.
      - apply free_prefix_free. }
    unfold count_breakers in *. cbn [free_prefix filter].
    destruct (breaker guards f); cbn [List.length]; lia.
Qed.

(* ------------------------------------------------------------------ *)
(* counting the breakers                                                *)

Lemma filter_orb_length :
  forall (A : Type) (f g : A -> bool) (l : list A),
    len (filter (fun x => f x || g x) l) <= len (filter f l) + len (filter g l).
Proof.
  intros A f g l. induction l as [|a l IH]; cbn [filter].
  - cbn. lia.
  - destruct (f a), (g a); cbn [orb List.length]; lia.
Qed.

Lemma guarded_frames_le_budget :
  forall guards p,
    (forall g l, In (g, l) guards -> count_frames g p <= l + 1) ->
    len (filter (fun f : frame => guarded guards (fst f)) p) <= budget guards.
Proof.
  intros guards p. induction guards as [|[g l] gs IH]; intros Hresp.
  - cbn [guarded existsb budget].
    assert (H : forall q : list frame, filter (fun _ : frame => false) q = []).
    { intros q. induction q as [|a q IHq]; cbn; auto. }
    rewrite H. cbn. lia.
  - cbn [budget].
    assert (Hg : count_frames g p <= l + 1) by (apply Hresp; left; reflexivity).
    assert (Hgs : len (filter (fun f : frame => guarded gs (fst f)) p) <= budget gs).
    { apply IH. intros g' l' Hin. apply Hresp. right. exact Hin. }
    unfold count_frames in Hg.
    pose proof (filter_orb_length frame (fun f => String.eqb g (fst f))
                                  (fun f => guarded gs (fst f)) p) as Hor.
    assert (Heq : filter (fun f : frame => guarded ((g, l) :: gs) (fst f)) p =
                  filter (fun f : frame => String.eqb g (fst f) || guarded gs (fst f)) p).
    { apply filter_ext. intros a. reflexivity. }
    rewrite Heq. eapply Nat.le_trans; [exact Hor|].
    apply Nat.add_le_mono; [exact Hg | exact Hgs].
Qed.

Lemma breakers_le :
  forall guards p sd,
    respects_guards guards p ->
    count_struct p <= sd ->
    count_breakers guards p <= budget guards + sd.
Proof.
  intros guards p sd Hresp Hs. unfold count_breakers, breaker.
  pose proof (filter_orb_length frame (fun f => guarded guards (fst f))
                                (fun f => snd f) p) as Hor.
  pose proof (guarded_frames_le_budget guards p Hresp) as Hg.
  unfold count_struct in Hs.
  eapply Nat.le_trans; [exact Hor|].
  apply Nat.add_le_mono; [exact Hg | exact Hs].
Qed.

(* ------------------------------------------------------------------ *)
(* the bound                                                            *)

Theorem stack_bounded :
  forall nodes edges guards sd p,
    unguarded_acyclic nodes edges guards = true ->
    call_path nodes edges p ->
    respects_guards guards p ->
    count_struct p <= sd ->
    len p <= stack_bound nodes guards sd.
Proof.
  intros nodes edges guards sd p Hchk Hpath Hresp Hs.
  pose proof (length_by_segments nodes edges guards p Hchk Hpath) as Hlen.
  assert (Hseg : len (free_prefix guards p) <= len nodes).
  { apply (residual_walk_short nodes edges guards).
    - exact Hchk.
    - apply free_prefix_path. exact Hpath.
    - apply free_prefix_free. }
  pose proof (breakers_le guards p sd Hresp Hs) as Hk.
  unfold stack_bound.
  assert (Hmul : count_breakers guards p * (len nodes + 1)
                 <= (budget guards + sd) * (len nodes + 1)).
  { apply Nat.mul_le_mono_r. exact Hk. }
  nia.
Qed.
Print Assumptions stack_bounded.

(* ------------------------------------------------------------------ *)
(* a boolean checker for call paths and guard budgets (used by examples) *)

Definition edge_eqb (e1 e2 : edge) : bool :=
  match e1, e2 with
  | (a1, b1, s1), (a2, b2, s2) => String.eqb a1 a2 && String.eqb b1 b2 && Bool.eqb s1 s2
  end.

Lemma edge_eqb_eq : forall e1 e2, edge_eqb e1 e2 = true -> e1 = e2.
Proof.
  intros [[a1 b1] s1] [[a2 b2] s2] H. cbn in H.
  apply andb_true_iff in H. destruct H as [H Hs].
  apply andb_true_iff in H. destruct H as [Ha Hb].
  apply String.eqb_eq in Ha. apply String.eqb_eq in Hb. apply Bool.eqb_prop in Hs.
  subst. reflexivity.
Qed.

Fixpoint call_pathb (nodes : list string) (edges : list edge) (p : list frame) : bool :=
  match p with
  | [] => true
  | f :: q =>
      memb (fst f) nodes &&
      match q with
      | [] => true
      | f' :: _ => existsb (edge_eqb (fst f, fst f', snd f')) edges
      end &&
      call_pathb nodes edges q
  end.

Lemma memb_true_In : forall x l, memb x l = true -> In x l.
Proof.
  intros x l H. unfold memb in H. apply existsb_exists in H.
  destruct H as (y & Hy & Heq). apply String.eqb_eq in Heq. subst y. exact Hy.
Qed.

Lemma call_pathb_sound :
  forall nodes edges p, call_pathb nodes edges p = true -> call_path nodes edges p.
Proof.
  intros nodes edges p. induction p as [|f q IH]; intros H.
  - exact I.
  - cbn [call_pathb] in H.
    apply andb_true_iff in H. destruct H as [H Hrest].
    apply andb_true_iff in H. destruct H as [Hn He].
    cbn [call_path]. split; [apply memb_true_In; exact Hn|].
    split; [|exact (IH Hrest)].
    destruct q as [|f' q']; [exact I|].
    apply existsb_exists in He. destruct He as (e & Hin & Heq).
    apply edge_eqb_eq in Heq. subst e. exact Hin.
Qed.

Definition respects_guardsb (guards : list (string * nat)) (p : list frame) : bool :=
  forallb (fun gl => Nat.leb (count_frames (fst gl) p) (snd gl + 1)) guards.

Lemma respects_guardsb_sound :
  forall guards p, respects_guardsb guards p = true -> respects_guards guards p.
Proof.
  intros guards p H g l Hin. unfold respects_guardsb in H.
  rewrite forallb_forall in H. specialize (H (g, l) Hin). cbn [fst snd] in H.
  apply Nat.leb_le. exact H.
Qed.

(* ------------------------------------------------------------------ *)
(* examples: the hypotheses are satisfiable, the check discriminates    *)

Open Scope string_scope.

(* a miniature of the parser: step -> seq -> step with a guard on seq, a self
   recursion of props through a field (structural) *)
Definition ex_nodes := ["compile"; "step"; "seq"; "props"].
Definition ex_edges : list edge :=
  [ ("compile", "step", false); ("step", "seq", false); ("seq", "step", false);
    ("compile", "props", false); ("props", "props", true) ].
Definition ex_guards := [("seq", 2)].

Example ex_check : unguarded_acyclic ex_nodes ex_edges ex_guards = true.
Proof. vm_compute. reflexivity. Qed.

(* without the guard on seq the cycle step -> seq -> step is detected *)
Example ex_check_unguarded : unguarded_acyclic ex_nodes ex_edges [] = false.
Proof. vm_compute. reflexivity. Qed.

(* a self loop through a non structural edge is detected as well *)
Example ex_check_selfloop :
  unguarded_acyclic ["f"] [("f", "f", false)] [] = false.
Proof. vm_compute. reflexivity. Qed.

Definition ex_path : list frame :=
  [ ("compile", false); ("step", false); ("seq", false); ("step", false);
    ("seq", false); ("step", false); ("seq", false); ("step", false) ].

Example ex_path_ok :
  call_path ex_nodes ex_edges ex_path /\
  respects_guards ex_guards ex_path /\
  count_struct ex_path <= 0 /\
  len ex_path = 8 /\ stack_bound ex_nodes ex_guards 0 = 19.
Proof.
  split; [apply call_pathb_sound; vm_compute; reflexivity|].
  split; [apply respects_guardsb_sound; vm_compute; reflexivity|].
  vm_compute. split; [lia|]. split; reflexivity.
Qed.

Definition ex_path_struct : list frame :=
  [ ("compile", false); ("props", false); ("props", true); ("props", true) ].

Example ex_path_struct_ok :
  call_path ex_nodes ex_edges ex_path_struct /\
  respects_guards ex_guards ex_path_struct /\
  count_struct ex_path_struct <= 2.
Proof.
  split; [apply call_pathb_sound; vm_compute; reflexivity|].
  split; [apply respects_guardsb_sound; vm_compute; reflexivity|].
  vm_compute. lia.
Qed.
