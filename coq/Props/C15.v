(* C15 — a compiled expression never fails with a Go runtime error.
   Property theorems only; proofs in Proofs/NoCrash.v.  In the model (Eval.v) every
   Go type switch, comma-ok assertion and deliberate panic of func.go / operator.go /
   query.go is explicit: [Complaint m] is an error value raised deliberately by the
   package, [Crash k] stands for a Go runtime error (nil dereference, index or slice
   bounds, integer division by zero, failed type assertion).  Termination: [sel] and
   [eval] are total functions defined by structural recursion on the query. *)
From Coq Require Import List String ZArith.
From XP Require Import Base F64 Doc Ast Eval Api Parse.
From XP.Proofs Require Import NoCrash.

(* for ALL query trees (compiled or not), documents, navigator variants and
   context nodes: never a runtime-error outcome *)
Theorem C15_select_never_crashes : forall D has_ns hcode rm rn rr q c k,
  sel D has_ns hcode rm rn rr q c <> Crash k.
Proof. exact sel_never_crashes. Qed.
Print Assumptions C15_select_never_crashes.
Theorem C15_evaluate_never_crashes : forall D has_ns hcode rm rn rr q c k,
  eval D has_ns hcode rm rn rr q c <> Crash k.
Proof. exact eval_never_crashes. Qed.
Print Assumptions C15_evaluate_never_crashes.

(* a value or a deliberate complaint — no third case *)
Theorem C15_compiled_value_or_complaint : forall rm rn rr hcode re_ok text ns q,
  compile re_ok text ns = Ok q -> forall D has_ns c,
  ((exists l, select rm rn rr hcode D has_ns q c = Val l) \/ (exists m, select rm rn rr hcode D has_ns q c = Complaint m)) /\
  ((exists v, evaluate rm rn rr hcode D has_ns q c = Val v) \/ (exists m, evaluate rm rn rr hcode D has_ns q c = Complaint m)).
Proof. exact compiled_never_crashes. Qed.
Print Assumptions C15_compiled_value_or_complaint.

(* every complaint is one of the package's own messages *)
Theorem C15_complaints_documented : forall rm rn rr hcode D has_ns q c m,
  evaluate rm rn rr hcode D has_ns q c = Complaint m -> In m documented_complaints.
Proof. exact evaluate_complaints_documented. Qed.
Print Assumptions C15_complaints_documented.

(* results have a documented type — except through round(), which returns a Go
   int (known finding round-returns-int): the full statement is refuted, the
   restricted one proved *)
Theorem C15_result_types_partial : forall rm rn rr hcode D has_ns q c v,
  result_kind_ok q = true -> evaluate rm rn rr hcode D has_ns q c = Val v -> documented_result v.
Proof. exact evaluate_result_documented. Qed.
Print Assumptions C15_result_types_partial.
Theorem C15_result_types_refuted : exists q D c z, run_evaluate D false q c = Val (VInt z).
Proof. exact result_types_refuted. Qed.
Print Assumptions C15_result_types_refuted.

(* ------------------------------------------------------------------ *)
(* FOR EVERY TEXT that compiles, every document and every start node: Select and Evaluate yield a
   value or one of the documented complaints, never a runtime-error outcome; the same for
   MustCompile of ANY text. *)
From XP Require Import Build.
From XP.Proofs Require Import EndToEndTotal.

Theorem C15_text_never_a_runtime_error : forall re_ok rm rn rr hcode text ns q,
  compile re_ok text ns = Ok q ->
  forall D has_ns c,
    value_or_documented (select rm rn rr hcode D has_ns q c) /\
    value_or_documented (evaluate rm rn rr hcode D has_ns q c) /\
    (forall k, select rm rn rr hcode D has_ns q c <> Crash k) /\
    (forall k, evaluate rm rn rr hcode D has_ns q c <> Crash k).
Proof. exact C15_text_no_runtime_error. Qed.
Print Assumptions C15_text_never_a_runtime_error.

Theorem C15_text_must_compile_never_a_runtime_error : forall re_ok rm rn rr hcode text D has_ns c,
  value_or_documented (select rm rn rr hcode D has_ns (must_compile re_ok text) c) /\
  value_or_documented (evaluate rm rn rr hcode D has_ns (must_compile re_ok text) c).
Proof. exact C15_text_must_compile_no_runtime_error. Qed.
Print Assumptions C15_text_must_compile_never_a_runtime_error.
