(* ParseAssoc.v — GOAL B: every binary level of the parser is left associative.

   [bin_level fuel getop sub] is the generic loop used by the seven binary
   levels of parseExpression (or, and, =, <, +, *, |).  We describe the
   sequence of calls it makes with an inductive "run" relation and show that
   the tree it builds is the LEFT fold of the operands. *)
From XP Require Import Base F64 Doc Ast Scan Parse.
Require Import Lia.
Open Scope nat_scope.
Open Scope list_scope.
Open Scope string_scope.

Section Assoc.
Variable getop : pst -> option string.
Variable sub : pst -> PR anode.

(* [bin_run st ops stf]: starting in state [st] (just after an operand), the
   loop sees operator op_1 (per [getop]), moves on with [pnext], the
   sub-parser returns a_1, ... until a state [stf] where [getop] finds no
   operator.  [ops] = [(op_1,a_1); ...; (op_k,a_k)]. *)
Inductive bin_run : pst -> list (string * anode) -> pst -> Prop :=
| run_stop : forall st, getop st = None -> bin_run st [] st
| run_step : forall st op st1 a st2 ops stf,
    getop st = Some op ->
    pnext st = Ok st1 ->
    sub st1 = Ok (a, st2) ->
    bin_run st2 ops stf ->
    bin_run st ((op, a) :: ops) stf.

Definition left_fold (a0 : anode) (ops : list (string * anode)) : anode :=
  fold_left (fun acc (p : string * anode) => AOp (fst p) acc (snd p)) ops a0.

Lemma bin_loop_left_assoc :
  forall st ops stf, bin_run st ops stf ->
  forall fuel acc, List.length ops < fuel ->
    bin_loop fuel getop sub acc st = Ok (left_fold acc ops, stf).
Proof.
  intros st ops stf Hrun.
  induction Hrun as [st Hnone | st op st1 a st2 ops stf Hop Hnext Hsub Hrun IH];
    intros fuel acc Hfuel.
  - destruct fuel as [|f]; [cbn in Hfuel; lia|].
    cbn [bin_loop]. rewrite Hnone. reflexivity.
  - destruct fuel as [|f]; [cbn in Hfuel; lia|].
    cbn [bin_loop]. rewrite Hop, Hnext. cbn [cbind]. rewrite Hsub. cbn [cbind].
    rewrite IH by (cbn [List.length] in Hfuel; lia).
    reflexivity.
Qed.

(* GOAL B *)
Theorem bin_level_left_assoc :
  forall st0 a0 st1 ops stf fuel,
    sub st0 = Ok (a0, st1) ->
    bin_run st1 ops stf ->
    List.length ops < fuel ->
    bin_level fuel getop sub st0 = Ok (left_fold a0 ops, stf).
Proof.
  intros st0 a0 st1 ops stf fuel Hsub Hrun Hfuel.
  unfold bin_level. rewrite Hsub. cbn [cbind].
  apply bin_loop_left_assoc; assumption.
Qed.

(* Converse: whenever the loop succeeds, it did so along a run, so EVERY
   successful result of a binary level is a left fold. *)
Lemma bin_loop_inv :
  forall fuel acc st r stf,
    bin_loop fuel getop sub acc st = Ok (r, stf) ->
    exists ops, bin_run st ops stf /\ r = left_fold acc ops /\ List.length ops < fuel.
Proof.
  induction fuel as [|f IH]; intros acc st r stf H.
  - cbn in H. discriminate.
  - cbn [bin_loop] in H.
    destruct (getop st) as [op|] eqn:Hop.
    + destruct (pnext st) as [st1|e|] eqn:Hnext; cbn [cbind] in H; try discriminate.
      destruct (sub st1) as [[a st2]|e|] eqn:Hsub; cbn [cbind] in H; try discriminate.
      apply IH in H. destruct H as [ops [Hrun [Hr Hlen]]].
      exists ((op, a) :: ops). split; [|split].
      * eapply run_step; eauto.
      * subst r. reflexivity.
      * cbn [List.length]. lia.
    + inversion H; subst. exists []. split; [|split].
      * apply run_stop; assumption.
      * reflexivity.
      * cbn. lia.
Qed.

Theorem bin_level_inv :
  forall fuel st r stf,
    bin_level fuel getop sub st = Ok (r, stf) ->
    exists a0 st1 ops,
      sub st = Ok (a0, st1) /\ bin_run st1 ops stf /\ r = left_fold a0 ops.
Proof.
  intros fuel st r stf H. unfold bin_level in H.
  destruct (sub st) as [[a0 st1]|e|] eqn:Hsub; cbn [cbind] in H; try discriminate.
  apply bin_loop_inv in H. destruct H as [ops [Hrun [Hr _]]].
  exists a0, st1, ops. auto.
Qed.

(* a run is deterministic: the operator/operand list is a function of the start state *)
Lemma bin_run_det :
  forall st ops stf, bin_run st ops stf ->
  forall ops' stf', bin_run st ops' stf' -> ops = ops' /\ stf = stf'.
Proof.
  intros st ops stf H.
  induction H as [st Hnone | st op st1 a st2 ops stf Hop Hnext Hsub Hrun IH];
    intros ops' stf' H'.
  - inversion H' as [? Hnone' | ? op' st1' a' st2' opsr' ? Hop' Hnext' Hsub' Hrun']; subst;
      [auto | congruence].
  - inversion H' as [? Hnone' | ? op' st1' a' st2' opsr' ? Hop' Hnext' Hsub' Hrun']; subst;
      [congruence|].
    assert (op' = op) by congruence. subst op'.
    assert (st1' = st1) by congruence. subst st1'.
    assert (a' = a /\ st2' = st2) as [-> ->] by (split; congruence).
    destruct (IH _ _ Hrun') as [-> ->]. auto.
Qed.

End Assoc.

Print Assumptions bin_level_left_assoc.
Print Assumptions bin_level_inv.

(* the shape of a left fold, spelled out for three operators *)
Example left_fold_3 : forall a0 a1 a2 a3 o1 o2 o3,
  left_fold a0 [(o1, a1); (o2, a2); (o3, a3)] = AOp o3 (AOp o2 (AOp o1 a0 a1) a2) a3.
Proof. reflexivity. Qed.

(* ---- concrete instance: the hypotheses are satisfiable ---- *)

(* a tiny operand parser: a number token *)
Definition num_sub (st : pst) : PR anode :=
  match typ st with
  | INumber => let v := s_numval (p_s st) in let* st1 := pnext st in Ok (ANum v, st1)
  | _ => Err "number expected"
  end.

Definition start (text : string) : pst :=
  match next_item (init_scanner text) with
  | Ok s => mkP s 0
  | _ => mkP (init_scanner text) 0
  end.

Example run_example :
  exists a0 st1 ops stf,
    num_sub (start "8 - 3 - 2 + 1") = Ok (a0, st1) /\
    bin_run op_add num_sub st1 ops stf /\
    map fst ops = ["-"; "-"; "+"] /\
    typ stf = IEOF /\
    bin_level 4 op_add num_sub (start "8 - 3 - 2 + 1") = Ok (left_fold a0 ops, stf).
Proof.
  do 4 eexists.
  split; [vm_compute; reflexivity|].
  split.
  { eapply run_step; [vm_compute; reflexivity | vm_compute; reflexivity | vm_compute; reflexivity |].
    eapply run_step; [vm_compute; reflexivity | vm_compute; reflexivity | vm_compute; reflexivity |].
    eapply run_step; [vm_compute; reflexivity | vm_compute; reflexivity | vm_compute; reflexivity |].
    apply run_stop. vm_compute. reflexivity. }
  split; [reflexivity|].
  split; [reflexivity|].
  vm_compute. reflexivity.
Qed.

(* the real parser on the same kind of input: left-nested trees at every level *)
Eval vm_compute in parse "8 - 3 - 2" None.
Eval vm_compute in parse "a | b | c" None.
Eval vm_compute in parse "1 or 2 or 3" None.

(* ---- link with the real parser: each of the seven binary levels of
   parseExpression IS an instance of [bin_level] (see the named body of [pgo]
   in ParseTerm.v), so each of them builds left folds. ---- *)
From XP.Proofs Require Import ParseTerm.

Lemma levels_are_bin_level : forall f pexpr pstep n,
  or_expr_b f pexpr pstep n = bin_level f op_or (and_expr_b f pexpr pstep n) /\
  and_expr_b f pexpr pstep n = bin_level f op_and (eq_expr_b f pexpr pstep n) /\
  eq_expr_b f pexpr pstep n = bin_level f op_eq (rel_expr_b f pexpr pstep n) /\
  rel_expr_b f pexpr pstep n = bin_level f op_rel (add_expr_b f pexpr pstep n) /\
  add_expr_b f pexpr pstep n = bin_level f op_add (mul_expr_b f pexpr pstep n) /\
  mul_expr_b f pexpr pstep n = bin_level f op_mul (unary_expr_b f pexpr pstep n) /\
  union_expr_b f pexpr pstep n = bin_level f op_union (path_expr_b f pexpr pstep n).
Proof. intros. repeat split; reflexivity. Qed.

(* the top ("or") level of a successful parseExpression *)
Theorem pgo_expr_left_assoc : forall ns f n st r st',
  pgo ns (S f) EExpr n st = Ok (r, st') ->
  let sub := and_expr_b f (pgo ns f EExpr) (pgo ns f EStep) n in
  exists a0 st1 ops stf,
    sub (mkP (p_s st) (S (p_d st))) = Ok (a0, st1) /\
    bin_run op_or sub st1 ops stf /\
    r = left_fold a0 ops /\
    st' = mkP (p_s stf) (p_d stf - 1).
Proof.
  intros ns f n st r st' H sub. rewrite pgo_S_expr in H. unfold expr_b in H. cbv zeta in H.
  destruct (Nat.ltb max_depth (S (p_d st))); [discriminate|].
  destruct (or_expr_b f (pgo ns f EExpr) (pgo ns f EStep) n (mkP (p_s st) (S (p_d st))))
    as [[o st1]|e|] eqn:E; cbn [cbind] in H; try discriminate.
  inversion H; subst r st'.
  unfold or_expr_b in E. apply bin_level_inv in E.
  destruct E as [a0 [st2 [ops [Hs [Hrun Hr]]]]].
  exists a0, st2, ops, st1. auto.
Qed.

Print Assumptions pgo_expr_left_assoc.
