(* Proofs/EndToEndEvalSelect.v — property C12, second sentence, at the level
   of TEXTS and for ALL twelve axes:

   for the text of ANY predicate-free location path P (the sequence Select
   returns may repeat nodes and need not be in document order, e.g. with two
   descendant steps or an ancestor step) and of a union  P1 | P2 :
     - Compile succeeds (q);
     - Evaluate returns the node-set with exactly the node sequence of Select;
     - the text  count(E)  evaluates to the length of that sequence;
     - the text  reverse(E)  selects the reversed sequence.
   The operand of count() / reverse() is built one level deeper than the
   expression alone; [proc_opt_depth] shows that the builder's result for a
   path tree does not depend on the depth at which it is built, so it is the
   very same query. *)
From XP Require Import Base F64 Doc Ast Scan Parse Build Hash Eval Api.
From XP.Spec Require Import Axes Paths.
From XP.Proofs Require Import ParseTerm ScanTokens RoundTripOps RoundTripPaths
                              DocOrder HashInj AxesSound PathSem BuildPath BuildFacts Absolute CountReverse
                              BuildOps EndToEndPaths EndToEndPred EndToEndPos EndToEndUnion EndToEndAbs
                              EndToEndFlat.
Require Import Lia ZArith.
Open Scope string_scope.
Open Scope nat_scope.
Open Scope list_scope.

(* ------------------------------------------------------------------ *)
(** * 1. The builder on path trees does not depend on the depth         *)
(* ------------------------------------------------------------------ *)

Section Build.
Variable re_ok : string -> bool.

Definition depth_free (abs : bool) (k : nat) (oa : option anode) : Prop :=
  forall d d' fl q pr, proc_opt re_ok d oa fl = Ok (q, pr) ->
    d' + k + (if abs then 1 else 0) <= max_build_depth -> proc_opt re_ok d' oa fl = Ok (q, pr).

Lemma proc_opt_depth_both : forall abs rs oa, rpath_ast abs rs oa ->
  depth_free abs (List.length rs) oa /\ depth_free abs (List.length rs - 1) (ginput_of oa).
Proof.
  intros abs rs oa H. induction H as [Ha|sl Ha|s r inp prop HA [IH1 IH2]].
  - split; intros d d' fl q pr E _; cbn [ginput_of proc_opt] in *; exact E.
  - split; [|intros d d' fl q pr E _; cbn [ginput_of proc_opt] in *; exact E].
    intros d d' fl q pr E Hd. cbn [proc_opt process] in *. subst abs. cbn [List.length] in Hd.
    destruct (Nat.ltb max_build_depth (S d)); [discriminate|].
    replace (Nat.ltb max_build_depth (S d')) with false by (symmetry; apply Nat.ltb_ge; lia). exact E.
  - split; [|cbn [List.length]; replace (S (List.length r) - 1) with (List.length r) by lia; unfold step_ast; cbn [ginput_of]; exact IH1].
    intros d d' fl q pr E Hd. cbn [List.length] in Hd. cbn [proc_opt] in *. unfold step_ast in *.
    rewrite process_axis_eq in E. rewrite process_axis_eq.
    destruct (Nat.ltb max_build_depth (S d)); [discriminate|].
    replace (Nat.ltb max_build_depth (S d')) with false by (symmetry; apply Nat.ltb_ge; destruct abs; lia).
    cbv zeta in *. destruct (fused_cond fl (axis_name (s_axis s)) inp).
    + destruct (proc_opt re_ok (S d) (ginput_of inp) fl_smart) as [[qg prg]| |] eqn:Eg;
        cbn [cbind] in E; try discriminate.
      rewrite (IH2 (S d) (S d') fl_smart qg prg Eg ltac:(destruct abs; lia)). exact E.
    + match type of E with context [proc_opt re_ok (S d) inp ?f] =>
        destruct (proc_opt re_ok (S d) inp f) as [[qi pri]| |] eqn:Ei end;
        cbn [cbind] in E; try discriminate.
      match goal with |- context [proc_opt re_ok (S d') inp ?f] =>
        rewrite (IH1 (S d) (S d') f qi pri Ei ltac:(destruct abs; lia)) end.
      exact E.
Qed.

(* on [process], whatever the incoming firstInput *)
Theorem path_tree_depth_free : forall abs rs a d d' fi fi' q pr fo,
  rpath_ast abs rs (Some a) -> rs <> [] ->
  process re_ok d a fl_none fi = Ok (q, pr, fo) ->
  d' + List.length rs + (if abs then 1 else 0) <= max_build_depth ->
  exists fo', process re_ok d' a fl_none fi' = Ok (q, pr, fo').
Proof.
  intros abs rs a d d' fi fi' q pr fo HA Hne E Hd.
  destruct (rpath_ast_some_inv abs rs a HA Hne) as (s & r & prop & inp & -> & -> & _).
  assert (Ep : proc_opt re_ok d (Some (step_ast s prop inp)) fl_none = Ok (q, pr)).
  { cbn [proc_opt]. rewrite <- (process_step_fi re_ok d s prop inp fl_none fi), E. reflexivity. }
  pose proof (proj1 (proc_opt_depth_both abs _ _ HA) d d' fl_none q pr Ep Hd) as Ep'.
  cbn [proc_opt] in Ep'. rewrite <- (process_step_fi re_ok d' s prop inp fl_none fi') in Ep'.
  destruct (process re_ok d' (step_ast s prop inp) fl_none fi') as [[[q0 pr0] fo0]| |]; cbn [cbind] in Ep'; try discriminate.
  inversion Ep'; subst. eauto.
Qed.

End Build.

(* ------------------------------------------------------------------ *)
(** * 2. The generic statement for a node-set expression                *)
(* ------------------------------------------------------------------ *)

Lemma nodeset_q_query : forall q, nodeset_q q = true -> nodeset_query q = true.
Proof. destruct q; try discriminate; reflexivity. Qed.

Section Generic.
Variable re_ok : string -> bool.
Variable ns : nsmap.

(* E builds to the same node-set query q at depth 0 (alone) and at depth 1 (as an argument) *)
Definition builds_nodeset (e : px) (q : query) : Prop :=
  nodeset_query q = true /\
  (exists pr fo, process re_ok 0 (xast e) fl_none fi_nil = Ok (q, pr, fo)) /\
  (exists pr fo, process re_ok 1 (xast e) fl_none fi_nil = Ok (q, pr, fo)).

Theorem nodeset_text_facts : forall e q,
  builds_nodeset e q -> xwf e -> xdepth e + 1 < max_depth ->
  xok e -> xok (XCall "count" (AOne e)) -> xok (XCall "reverse" (AOne e)) ->
  compile re_ok (print_min e) ns = Ok q /\
  compile re_ok (print_min (XCall "count" (AOne e))) ns = Ok (QFn1 FCount q) /\
  compile re_ok (print_min (XCall "reverse" (AOne e))) ns = Ok (QReverse q) /\
  forall rm rn rr (hc : tree -> node -> N) D has_ns c l,
    select rm rn rr hc D has_ns q c = Val l ->
    (exists l', evaluate rm rn rr hc D has_ns q c = Val (VNodes l') /\ nodes_of l' = l) /\
    evaluate rm rn rr hc D has_ns (QFn1 FCount q) c = Val (VNum (of_Z (Z.of_nat (List.length l)))) /\
    select rm rn rr hc D has_ns (QReverse q) c = Val (rev l).
Proof.
  intros e q (Hns & (pr0 & fo0 & E0) & (pr1 & fo1 & E1)) Hwf Hd Hok Hokc Hokr.
  assert (Hd00 : 0 < max_build_depth) by (unfold max_build_depth; lia).
  assert (Hqn : q <> QNil) by (intros ->; discriminate Hns).
  split; [|split; [|split]].
  - apply (compile_of_parse re_ok _ ns (xast e) q pr0 fo0); [|exact E0|exact Hqn].
    apply roundtrip_print_min; [exact Hwf|exact Hok|lia].
  - apply (compile_of_parse re_ok _ ns (AFunc "" "count" [xast e]) _ pr1 (mkFi (fi_q fo1) false));
      [|apply (process_count_shape re_ok 0 "" (xast e) fl_none fi_nil q pr1 fo1 Hd00 E1)|discriminate].
    apply (roundtrip_print_min ns (XCall "count" (AOne e))); [cbn [xwf awf]; auto|exact Hokc|].
    cbn [xdepth RoundTripPaths.adepth]. lia.
  - apply (compile_of_parse re_ok _ ns (AFunc "" "reverse" [xast e]) _ pr1 (mkFi (fi_q fo1) false));
      [|apply (process_reverse_shape re_ok 0 "" (xast e) fl_none fi_nil q pr1 fo1 Hd00 E1)|discriminate].
    apply (roundtrip_print_min ns (XCall "reverse" (AOne e))); [cbn [xwf awf]; auto|exact Hokr|].
    cbn [xdepth RoundTripPaths.adepth]. lia.
  - intros rm rn rr hc D has_ns c l El. split; [|split].
    + apply (evaluate_same_nodes rm rn rr hc D has_ns q c l Hns El).
    + apply (evaluate_count_select rm rn rr hc D has_ns q c l Hns El).
    + apply (select_reverse rm rn rr hc D has_ns q c l El).
Qed.

End Generic.

(* ------------------------------------------------------------------ *)
(** * 3. Paths over all twelve axes, and unions of two of them          *)
(* ------------------------------------------------------------------ *)

Section E2E.
Variable D : tree.
Variable has_ns : bool.
Variable hc : tree -> node -> N.
Variable rm : string -> string -> option bool.
Variable rn : string -> nat.
Variable rr : string -> string -> string -> string.
Hypothesis Hhash : hash_ok (hc D) (all_nodes D).
Variable re_ok : string -> bool.
Variable ns : nsmap.

Notation SELECT := (select rm rn rr hc D has_ns).
Notation EVALUATE := (evaluate rm rn rr hc D has_ns).

Lemma path_builds_nodeset : forall k p abs steps, 1 <= k ->
  path_syntax p -> steps_of p = (abs, steps) -> List.length steps + k + 1 <= max_build_depth ->
  exists q, builds_nodeset re_ok p q /\
    forall d fi, d <= k -> exists pr fo, process re_ok d (xast p) fl_none fi = Ok (q, pr, fo).
Proof.
  intros k p abs steps Hk Hp Hs Hl.
  pose proof (xast_path_shape p abs steps Hp Hs) as HA.
  pose proof (steps_of_ne p abs steps Hp Hs) as Hne.
  assert (Hr : rev steps <> []) by (intros Er; apply Hne; rewrite <- (rev_involutive steps), Er; reflexivity).
  destruct (path_tree_builds D has_ns (hc D) rm rn rr Hhash re_ok abs (rev steps) (xast p) 0 fi_nil HA Hr)
    as (q & pr & fo & E & [Hq _] & _).
  { rewrite rev_length. destruct abs; lia. }
  assert (Hany : forall d fi, d <= k -> exists pr' fo', process re_ok d (xast p) fl_none fi = Ok (q, pr', fo')).
  { intros d fi Hd.
    destruct (path_tree_depth_free re_ok abs (rev steps) (xast p) 0 d fi_nil fi q pr fo HA Hr E) as [fo' E'].
    - rewrite rev_length. destruct abs; unfold max_build_depth in *; lia.
    - eauto. }
  exists q. split; [|exact Hany].
  split; [apply nodeset_q_query; exact Hq|]. split; [apply (Hany 0 fi_nil); lia|apply (Hany 1 fi_nil); lia].
Qed.

(** any predicate-free path, all axes *)
Theorem C12_path_evaluate_count_reverse : forall p abs steps,
  path_syntax p -> steps_of p = (abs, steps) -> List.length steps + 2 <= max_build_depth ->
  xok p -> xok (XCall "count" (AOne p)) -> xok (XCall "reverse" (AOne p)) ->
  exists q,
    compile re_ok (print_min p) ns = Ok q /\
    compile re_ok (print_min (XCall "count" (AOne p))) ns = Ok (QFn1 FCount q) /\
    compile re_ok (print_min (XCall "reverse" (AOne p))) ns = Ok (QReverse q) /\
    forall c, valid D c = true ->
    exists l,
      SELECT q c = Val l /\
      (forall n, In n l <-> path_den D has_ns steps (if abs then root_node else c) n) /\
      (exists l', EVALUATE q c = Val (VNodes l') /\ nodes_of l' = l) /\
      EVALUATE (QFn1 FCount q) c = Val (VNum (of_Z (Z.of_nat (List.length l)))) /\
      SELECT (QReverse q) c = Val (rev l).
Proof.
  intros p abs steps Hp Hs Hl Hok Hokc Hokr.
  destruct (path_syntax_wf p Hp) as [Hwf Hd].
  destruct (path_builds_nodeset 1 p abs steps (le_n _) Hp Hs ltac:(lia)) as (q & Hb & _).
  destruct (nodeset_text_facts re_ok ns p q Hb Hwf ltac:(rewrite Hd; unfold max_depth; lia) Hok Hokc Hokr)
    as (C & Cc & Cr & Hall).
  exists q. split; [exact C|]. split; [exact Cc|]. split; [exact Cr|].
  intros c Hc.
  destruct (C01_select D has_ns hc rm rn rr re_ok ns p abs steps Hp Hs Hok
              ltac:(unfold max_build_depth in *; lia) Hhash) as (q' & C' & Hsel).
  rewrite C in C'. inversion C'; subst q'.
  destruct (Hsel c Hc) as (l & El & Hin). exists l. split; [exact El|]. split; [exact Hin|].
  apply (Hall rm rn rr hc D has_ns c l El).
Qed.

(** the union of two predicate-free paths *)
Theorem C12_union_evaluate_count_reverse : forall p1 p2 abs1 steps1 abs2 steps2,
  path_syntax p1 -> steps_of p1 = (abs1, steps1) -> path_syntax p2 -> steps_of p2 = (abs2, steps2) ->
  List.length steps1 + 3 <= max_build_depth -> List.length steps2 + 3 <= max_build_depth ->
  xok (union_px p1 p2) -> xok (XCall "count" (AOne (union_px p1 p2))) ->
  xok (XCall "reverse" (AOne (union_px p1 p2))) ->
  exists q,
    compile re_ok (print_min (union_px p1 p2)) ns = Ok q /\
    compile re_ok (print_min (XCall "count" (AOne (union_px p1 p2)))) ns = Ok (QFn1 FCount q) /\
    compile re_ok (print_min (XCall "reverse" (AOne (union_px p1 p2)))) ns = Ok (QReverse q) /\
    forall c, valid D c = true ->
    exists l,
      SELECT q c = Val l /\ NoDup l /\
      (forall n, In n l <-> path_den D has_ns steps1 (if abs1 then root_node else c) n \/
                            path_den D has_ns steps2 (if abs2 then root_node else c) n) /\
      (exists l', EVALUATE q c = Val (VNodes l') /\ nodes_of l' = l) /\
      EVALUATE (QFn1 FCount q) c = Val (VNum (of_Z (Z.of_nat (List.length l)))) /\
      SELECT (QReverse q) c = Val (rev l).
Proof.
  intros p1 p2 abs1 steps1 abs2 steps2 Hp1 Hs1 Hp2 Hs2 Hl1 Hl2 Hok Hokc Hokr.
  destruct (union_wf p1 p2 Hp1 Hp2) as (Hwf & Hd & Hast).
  destruct (path_builds_nodeset 2 p1 abs1 steps1 ltac:(lia) Hp1 Hs1 ltac:(lia)) as (q1 & _ & H1).
  destruct (path_builds_nodeset 2 p2 abs2 steps2 ltac:(lia) Hp2 Hs2 ltac:(lia)) as (q2 & _ & H2).
  assert (Hb : builds_nodeset re_ok (union_px p1 p2) (QUnion q1 q2)).
  { split; [reflexivity|]. rewrite Hast. split.
    - destruct (H1 1 fi_nil ltac:(lia)) as (pr1 & fo1 & E1). destruct (H2 1 fo1 ltac:(lia)) as (pr2 & fo2 & E2).
      eexists. eexists. apply (process_union re_ok 0 _ _ fl_none fi_nil q1 pr1 fo1 q2 pr2 fo2 E1 E2).
    - destruct (H1 2 fi_nil ltac:(lia)) as (pr1 & fo1 & E1). destruct (H2 2 fo1 ltac:(lia)) as (pr2 & fo2 & E2).
      eexists. eexists. apply (process_union re_ok 1 _ _ fl_none fi_nil q1 pr1 fo1 q2 pr2 fo2 E1 E2). }
  destruct (nodeset_text_facts re_ok ns _ _ Hb Hwf ltac:(rewrite Hd; unfold max_depth; lia) Hok Hokc Hokr)
    as (C & Cc & Cr & Hall).
  exists (QUnion q1 q2). split; [exact C|]. split; [exact Cc|]. split; [exact Cr|].
  intros c Hc.
  destruct (C11_union_select D has_ns (hc D) rm rn rr re_ok ns hc p1 p2 abs1 steps1 abs2 steps2 eq_refl
              Hp1 Hs1 Hp2 Hs2 Hok ltac:(unfold max_build_depth in *; lia) ltac:(unfold max_build_depth in *; lia) Hhash)
    as (q' & C' & Hsel).
  rewrite C in C'. inversion C'; subst q'.
  destruct (Hsel c Hc) as (l & El & Hnd & Hin). exists l. split; [exact El|]. split; [exact Hnd|].
  split; [exact Hin|]. apply (Hall rm rn rr hc D has_ns c l El).
Qed.

End E2E.

Print Assumptions path_tree_depth_free.
Print Assumptions C12_path_evaluate_count_reverse.
Print Assumptions C12_union_evaluate_count_reverse.

(* ------------------------------------------------------------------ *)
(** * 4. Example: a path whose sequence repeats nodes                   *)
(* ------------------------------------------------------------------ *)
Module Examples.
Import AxesSound.Examples EndToEndPaths.Examples EndToEndPos.Examples.

(*  <a><a><c><b/><b/></c></a></a>   and   //a//*  : 7 items for 4 nodes *)
Definition p_rep : px :=
  XPath PAbs2 (RCons (st_child "a") true (ROne (SAxis AxChild NStar PNil))).

Example hash_ok_dN : hash_ok (hash_code dN) (all_nodes dN).
Proof.
  apply NoDup_codes_hash_ok; vm_compute;
    repeat (constructor; [cbn [In]; intuition discriminate|]); constructor.
Qed.

Example repeats_are_counted :
  exists q l,
    compile Api.lit_ok "//a//*" None = Ok q /\
    select lit_match lit_numsubexp lit_replace_all hash_code dN true q root_node = Val l /\
    List.length l = 7 /\ ~ NoDup l /\
    (* Evaluate: the same 7 items; count(): 7; reverse(): the 7 items backwards *)
    (exists l', evaluate lit_match lit_numsubexp lit_replace_all hash_code dN true q root_node = Val (VNodes l')
                /\ nodes_of l' = l) /\
    (exists qc, compile Api.lit_ok "count(//a//*)" None = Ok qc /\
                evaluate lit_match lit_numsubexp lit_replace_all hash_code dN true qc root_node = Val (VNum (of_Z 7))) /\
    (exists qr, compile Api.lit_ok "reverse(//a//*)" None = Ok qr /\
                select lit_match lit_numsubexp lit_replace_all hash_code dN true qr root_node = Val (rev l)).
Proof.
  destruct (C12_path_evaluate_count_reverse dN true hash_code lit_match lit_numsubexp lit_replace_all hash_ok_dN
              Api.lit_ok None p_rep true (snd (steps_of p_rep))) as (q & C & Cc & Cr & H).
  - apply path_syntax_b_ok. vm_compute. reflexivity.
  - vm_compute. reflexivity.
  - vm_compute. lia.
  - vm_compute. reflexivity.
  - vm_compute. reflexivity.
  - vm_compute. reflexivity.
  - destruct (H root_node eq_refl) as (l & El & _ & Hev & Hcnt & Hrev).
    replace (print_min p_rep) with "//a//*" in C by (vm_compute; reflexivity).
    replace (print_min (XCall "count" (AOne p_rep))) with "count(//a//*)" in Cc by (vm_compute; reflexivity).
    replace (print_min (XCall "reverse" (AOne p_rep))) with "reverse(//a//*)" in Cr by (vm_compute; reflexivity).
    exists q, l. split; [exact C|]. split; [exact El|].
    assert (Hl : l = [elem_at [0;0]; elem_at [0;0;0]; elem_at [0;0;0;0]; elem_at [0;0;0;1];
                      elem_at [0;0;0]; elem_at [0;0;0;0]; elem_at [0;0;0;1]]).
    { vm_compute in C. inversion C; subst q. vm_compute in El. inversion El. reflexivity. }
    split; [rewrite Hl; reflexivity|]. split.
    + rewrite Hl. intros HN.
      repeat match goal with H : NoDup (_ :: _) |- _ => inversion H; clear H; subst end.
      match goal with H : ~ In (elem_at [0;0;0]) _ |- _ => apply H; cbn; tauto end.
    + split; [exact Hev|]. split.
      * eexists. split; [exact Cc|]. rewrite Hcnt, Hl. reflexivity.
      * eexists. split; [exact Cr|exact Hrev].
Qed.

End Examples.
