package main

import (
	"fmt"
	"os"
	"strconv"
	"time"

	"github.com/antchfx/xpath"
)

func init() {
	extras["deep"] = deepMain
}

// deepMain compiles one deeply nested expression in this (sub-)process; the
// caller observes the exit status: 0 = Compile returned (expr, nil) or (nil, err).
func deepMain(args []string) {
	kind := args[0]
	n, _ := strconv.Atoi(args[1])
	s, ok := nestings(n)[kind]
	if !ok {
		fmt.Println("unknown kind")
		os.Exit(2)
	}
	t0 := time.Now()
	e, err := xpath.Compile(s)
	if (e == nil) == (err == nil) {
		fmt.Printf("DEEP\t%s\t%d\tcontract-violated\n", kind, n)
		os.Exit(1)
	}
	m := xpath.MustCompile(s)
	if m == nil {
		fmt.Printf("DEEP\t%s\t%d\tMustCompile-nil\n", kind, n)
		os.Exit(1)
	}
	v := "ok"
	if err != nil {
		v = "err"
	}
	fmt.Printf("DEEP\t%s\t%d\t%s\t%dms\n", kind, n, v, time.Since(t0).Milliseconds())
}
