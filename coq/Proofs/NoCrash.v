(* NoCrash.v — the list-level evaluator never fails with a Go runtime error.

   Property: "a compiled expression never fails with a Go runtime error; Select
   and Evaluate terminate and either produce a value or abort with an error
   raised deliberately by the package".

   In the model (Eval.v) every Go type switch / deliberate panic of the
   function layer is an explicit [Complaint]; [Crash] stands for a Go runtime
   error (nil dereference, index out of range, failed type assertion, integer
   division by zero).

   TERMINATION.  [sel] and [eval] are Coq functions defined by (mutual)
   structural recursion on the query; Coq accepts only total functions, so
   "Select and Evaluate terminate" is inherent in the model being accepted by
   the guard checker: there is nothing to prove, and no statement of the form
   [exists o, select ... = o] is given (it would be trivially true of any
   term).  What IS proved is the useful trichotomy-without-third-case:
   the outcome is [Val _] or [Complaint _], never [Crash _]. *)
From XP Require Import Base F64 Doc Ast Scan Parse Build Hash Eval Api.
Open Scope nat_scope.
Open Scope list_scope.

(* ------------------------------------------------------------------ *)
(* The messages of the deliberate panics of func.go / operator.go that the
   model can produce. *)
Definition documented_complaints : list string :=
  [ "unexpected type: int";
    "xpath unknown value type";
    "sum() function argument type must be a node-set or number";
    "starts-with() function argument type must be string";
    "ends-with() function argument type must be string";
    "contains() function argument type must be string";
    "matches() function second argument is not a valid regexp pattern";
    "matches() function second argument type must be string";
    "substring() function second argument type must be number";
    "substring() function first argument type must be number";
    "replace() function second argument is not a valid regexp pattern" ]%string.

(* [good o]: o is a value, or a complaint with one of the listed messages;
   in particular not a crash. *)
Definition good {A} (o : outcome A) : Prop :=
  match o with
  | Val _ => True
  | Complaint m => In m documented_complaints
  | Crash _ => False
  end.

Lemma good_not_crash {A} (o : outcome A) : good o -> forall k, o <> Crash k.
Proof. intros Hg k He. rewrite He in Hg. exact Hg. Qed.

Lemma good_cases {A} (o : outcome A) :
  good o -> (exists a, o = Val a) \/ (exists m, o = Complaint m /\ In m documented_complaints).
Proof.
  destruct o as [a|m|k]; intros Hg.
  - left. exists a. reflexivity.
  - right. exists m. split; [reflexivity|exact Hg].
  - destruct Hg.
Qed.

Lemma good_val {A} (a : A) : good (Val a).
Proof. exact I. Qed.

Lemma good_obind {A B} (x : outcome A) (f : A -> outcome B) :
  good x -> (forall a, good (f a)) -> good (obind x f).
Proof.
  intros Hx Hf. destruct x as [a|m|k]; cbn [obind].
  - apply Hf.
  - exact Hx.
  - exact Hx.
Qed.

Lemma good_oflat_map {A B} (f : A -> outcome (list B)) (l : list A) :
  (forall a, good (f a)) -> good (oflat_map f l).
Proof.
  intros Hf. induction l as [|a r IH]; cbn [oflat_map].
  - exact I.
  - apply good_obind; [apply Hf|]. intros x.
    apply good_obind; [exact IH|]. intros y. exact I.
Qed.

(* membership by computation *)
Definition msg_ok (m : string) : bool := existsb (String.eqb m) documented_complaints.
Lemma msg_ok_sound m : msg_ok m = true -> In m documented_complaints.
Proof.
  unfold msg_ok. intros H. apply existsb_exists in H. destruct H as [x [Hin Heq]].
  apply String.eqb_eq in Heq. subst x. exact Hin.
Qed.
Ltac in_msgs :=
  lazymatch goal with
  | |- good (Complaint ?m) => exact (msg_ok_sound m (eq_refl true))
  | |- In ?m documented_complaints => exact (msg_ok_sound m (eq_refl true))
  end.

Lemma good_as_bool v : good (as_bool v).
Proof. destruct v; cbn [as_bool good]; try exact I. in_msgs. Qed.

Section Helpers.
Variable D : tree.

Lemma good_as_string v : good (as_string D v).
Proof. destruct v; cbn [as_string good]; try exact I. in_msgs. Qed.

Lemma good_bool_num v : good (bool_num D v).
Proof.
  destruct v; cbn [bool_num]; try exact I;
    (apply good_obind; [apply good_as_bool|intros ?; exact I]).
Qed.

Lemma good_cmp_boolean_any op m n : good (cmp_boolean_any D op m n).
Proof.
  destruct op; cbn [cmp_boolean_any];
    (apply good_obind; [first [apply good_as_bool|apply good_bool_num]|intros ?];
     apply good_obind; [first [apply good_as_bool|apply good_bool_num]|intros ?]; exact I).
Qed.

Lemma good_compare_values op m n : good (compare_values D op m n).
Proof.
  destruct m, n; cbn [compare_values good]; try exact I; try in_msgs;
    (apply good_obind; [apply good_cmp_boolean_any|intros ?; exact I]).
Qed.
End Helpers.

(* ------------------------------------------------------------------ *)
Section NoCrash.
Variable D : tree.
Variable has_ns : bool.
Variable hcode : node -> N.
Variable re_match : string -> string -> option bool.
Variable re_numsubexp : string -> nat.
Variable re_replace_all : string -> string -> string -> string.

Notation SEL := (sel D has_ns hcode re_match re_numsubexp re_replace_all).
Notation EVAL := (eval D has_ns hcode re_match re_numsubexp re_replace_all).

(* The body of [eval] with the recursive calls abstracted (a verbatim copy of
   the text in Eval.v; [eval_eq] below checks by conversion that it is THE
   body).  Needed because [cbn]/[simpl] do not refold the mutual fixpoint. *)
Local Notation query_test := (Eval.query_test D has_ns).
Local Notation node_prefix := (Doc.node_prefix D).
Local Notation local_name := (Doc.local_name D).
Local Notation node_ns := (Doc.node_ns D).
Local Notation node_value := (Doc.node_value D).
Local Notation values_of := (Eval.values_of D).
Local Notation as_string := (Eval.as_string D).
Local Notation as_number := (Eval.as_number D).
Local Notation str_or_first := (Eval.str_or_first D).
Local Notation first_value := (Eval.first_value D).
Local Notation last_of := (Eval.last_of D).
Local Notation compare_values := (Eval.compare_values D).
Local Notation sel_body := (Eval.sel_body D has_ns hcode).

Definition eval_body (sel : query -> node -> outcome (list item)) (eval : query -> node -> outcome value)
           (q : query) (c : node) : outcome value :=
  match q with
  | QNil => Val (VStr "")
  | QNop => Val VNil
  | QNum v => Val (VNum v)
  | QStr s => Val (VStr s)
  | QGroup i => eval i c
  | QFn0 FTrue => Val (VBool true)
  | QFn0 FFalse => Val (VBool false)
  | QPosition i => Val (VNum (position_of (query_test i) c))
  | QLast i => Val (VNum (last_of (query_test i) c))
  | QLastFunc i => do l <- sel i c; Val (VNum (of_Z (Z.of_nat (List.length l))))
  | QLogical op l r => do m <- eval l c; do n <- eval r c; compare_values op m n
  | QNumeric op l r => do m <- eval l c; do n <- eval r c; Val (VNum (arith_op op (as_number m) (as_number n)))
  | QBoolean isor l r =>
    do m <- eval l c; do a <- as_bool m;
    if isor then (if a then Val (VBool true) else do n <- eval r c; do b <- as_bool n; Val (VBool b))
    else (if a then do n <- eval r c; do b <- as_bool n; Val (VBool b) else Val (VBool false))
  | QConcat args => eval args c
  | QArg a rest =>
    do v <- eval a c;
    do r <- eval rest c;
    Val (VStr ((match v with VStr s => s | VNodes l => opt_default "" (first_value l) | _ => "" end)
               ++ (match r with VStr s => s | _ => "" end)))
  | QFn1 f a =>
    match f with
    | FName | FLocalName | FNamespaceURI =>
      do target <- (match a with
                    | QNil => Val (Some c)
                    | _ => do l <- sel a c; Val (match l with [] => None | i :: _ => Some (it_node i) end)
                    end);
      match target with
      | None => Val (VStr "")
      | Some n =>
        match f with
        | FName => let p := node_prefix n in
                   Val (VStr (if String.eqb p "" then local_name n else (p ++ ":" ++ local_name n)%string))
        | FLocalName => Val (VStr (local_name n))
        | _ => Val (VStr (if has_ns then node_ns n else node_prefix n))
        end
      end
    | _ =>
      do v <- eval a c;
      match f with
      | FCount => Val (VNum (match v with
                             | VNodes l => of_Z (Z.of_nat (List.length (filter (query_test a) (nodes_of l))))
                             | _ => fzero end))
      | FSum =>
        match v with
        | VNodes l =>
          Val (VNum (fold_left (fun acc s => let x := string_to_number s in if is_nan x then acc else fadd acc x)
                               (values_of l) fzero))
        | VNum f => Val (VNum f)
        | VStr s => let x := string_to_number s in
                    if is_nan x then Complaint "sum() function argument type must be a node-set or number"
                    else Val (VNum x)
        | _ => Val (VNum fzero)
        end
      | FCeiling => Val (VNum (fceil (as_number v)))
      | FFloor => Val (VNum (ffloor (as_number v)))
      | FRound => Val (VInt (go_int (fround_away (as_number v))))
      | FBoolean => do b <- as_bool v; Val (VBool b)
      | FNumber => Val (VNum (as_number v))
      | FString => do s <- as_string v; Val (VStr s)
      | FNot => Val (VBool (match v with
                            | VBool b => negb b
                            | VNodes l => match l with [] => true | _ => false end
                            | _ => false end))
      | FNormalizeSpace => Val (VStr (normalize_space (str_or_first v)))
      | FStringLength => Val (VNum (of_Z (Z.of_nat (String.length (str_or_first v)))))
      | FLowerCase => do s <- as_string v; Val (VStr (to_lower s))
      | _ => Val VNil
      end
    end
  | QFn2 f a b =>
    do va <- eval a c;
    match f with
    | FStartsWith | FEndsWith | FContains =>
      let nm := match f with FStartsWith => "starts-with" | FEndsWith => "ends-with" | _ => "contains" end in
      match va with
      | VStr _ | VNodes _ =>
        let m := str_or_first va in
        do vb <- eval b c;
        match vb with
        | VStr n => Val (VBool (match f with
                                | FStartsWith => prefix n m
                                | FEndsWith => has_suffix m n
                                | _ => contains m n end))
        | _ => Complaint (nm ++ "() function argument type must be string")%string
        end
      | _ => Complaint (nm ++ "() function argument type must be string")%string
      end
    | FMatches =>
      let s := str_or_first va in
      do vb <- eval b c;
      match vb with
      | VStr p => match re_match p s with
                  | Some r => Val (VBool r)
                  | None => Complaint "matches() function second argument is not a valid regexp pattern"
                  end
      | _ => Complaint "matches() function second argument type must be string"
      end
    | FSubstringBefore | FSubstringAfter =>
      match va with
      | VNodes [] => Val (VStr "")
      | _ =>
      let s := str_or_first va in
      do vb <- eval b c;
      let w := str_or_first vb in
      match index_of w s with
      | None => Val (VStr "")
      | Some i => Val (VStr (match f with
                             | FSubstringAfter => skipn_s (i + String.length w) s
                             | _ => firstn_s i s end))
      end
      end
    | FStringJoin =>
      do vb <- eval b c;
      let sep := str_or_first vb in
      match va with
      | VStr s => Val (VStr s)
      | VNodes l => Val (VStr (join sep (map node_value (filter (query_test a) (nodes_of l)))))
      | _ => Val (VStr "")
      end
    end
  | QFn3 f a b x =>
    match f with
    | FSubstring =>
      do va <- eval a c;
      match va with
      | VNodes [] => Val (VStr "")
      | _ =>
      let m := str_or_first va in
      do vb <- eval b c;
      match vb with
      | VNum start =>
        match x with
        | QNil => Val (VStr (substring_go m start None))
        | _ =>
          do vx <- eval x c;
          match vx with
          | VNum len => Val (VStr (substring_go m start (Some len)))
          | _ => Complaint "substring() function second argument type must be number"
          end
        end
      | _ => Complaint "substring() function first argument type must be number"
      end
      end
    | FTranslate =>
      do va <- eval a c; do s <- as_string va;
      do vb <- eval b c; do src <- as_string vb;
      do vx <- eval x c; do dst <- as_string vx;
      Val (VStr (translate s src dst))
    | FReplace =>
      do va <- eval a c; do s <- as_string va;
      do vb <- eval b c; do src <- as_string vb;
      do vx <- eval x c; do dst <- as_string vx;
      match re_match src "" with
      | None => Complaint "replace() function second argument is not a valid regexp pattern"
      | Some _ => Val (VStr (re_replace_all src s (rewrite_refs (re_numsubexp src) dst)))
      end
    end
  | _ => do l <- sel_body sel eval q c; Val (VNodes l)
  end.

(* Both unfolding equations hold by conversion (one fixpoint unfolding per
   constructor).  [reflexivity] would check that conversion twice (once in the
   tactic, once at Qed) and each check is slow -- the kernel compares the body of
   the mutual fixpoint once per recursive call occurring in a stuck branch --
   so the proof term [eq_refl] is supplied with [exact_no_check] and checked
   exactly once, by the kernel, at Qed. *)
Lemma sel_eq q c : SEL q c = sel_body SEL EVAL q c.
Proof. destruct q; match goal with |- ?l = ?r => exact_no_check (@eq_refl _ r) end. Qed.

Lemma eval_eq q c : EVAL q c = eval_body SEL EVAL q c.
Proof. destruct q; match goal with |- ?l = ?r => exact_no_check (@eq_refl _ r) end. Qed.
End NoCrash.

(* ------------------------------------------------------------------ *)
Section Main.
Variable D : tree.
Variable has_ns : bool.
Variable hcode : node -> N.
Variable re_match : string -> string -> option bool.
Variable re_numsubexp : string -> nat.
Variable re_replace_all : string -> string -> string -> string.

Notation SEL := (sel D has_ns hcode re_match re_numsubexp re_replace_all).
Notation EVAL := (eval D has_ns hcode re_match re_numsubexp re_replace_all).
Notation EVAL_BODY := (eval_body D has_ns hcode re_match re_numsubexp re_replace_all).

(* the local [fix go] of the QFilter case of [sel_body], generalised over the
   list and the position map *)
Lemma good_filter_go (ev : node -> outcome value) :
  (forall n, good (ev n)) ->
  forall (l : list item) (pm : list (nat * nat)),
  good ((fix go (l : list item) (pm : list (nat * nat)) : outcome (list item) :=
           match l with
           | [] => Val []
           | it :: r =>
             do v <- ev (it_node it);
             if truth_of_filter v (it_pos it) then
               let k := S (pm_get pm (it_lvl it)) in
               do rest <- go r (pm_set pm (it_lvl it) k);
               Val (mkItem (it_node it) k 0 :: rest)
             else go r pm
           end) l pm).
Proof.
  intros Hev l. induction l as [|it r IH]; intros pm.
  - exact I.
  - apply good_obind; [apply Hev|]. intros v.
    destruct (truth_of_filter v (it_pos it)).
    + cbv zeta. apply good_obind; [apply IH|]. intros rest. exact I.
    + apply IH.
Qed.

Definition good_query (q : query) : Prop :=
  (forall c, good (SEL q c)) /\ (forall c, good (EVAL q c)).

Ltac g_step :=
  match goal with
  | |- good (Val _) => exact I
  | |- good (Complaint _) => in_msgs
  | H : forall c, good (SEL ?q c) |- good (SEL ?q _) => apply H
  | H : forall c, good (EVAL ?q c) |- good (EVAL ?q _) => apply H
  | |- good (as_bool _) => apply good_as_bool
  | |- good (as_string _ _) => apply good_as_string
  | |- good (compare_values _ _ _ _) => apply good_compare_values
  | |- good (obind _ _) => apply good_obind; [|intros ?]
  | |- good (oflat_map _ _) => apply good_oflat_map; intros ?
  | |- good (match ?x with _ => _ end) => destruct x
  | |- good (?f _ _) => is_fix f; apply good_filter_go; intros ?
  end.

Ltac split_IH :=
  repeat match goal with H : good_query _ |- _ => destruct H as [? ?] end.

Theorem good_all : forall q, good_query q.
Proof.
  induction q; split_IH; split; intros c0.
  all: try (rewrite sel_eq; cbn [sel_body]; repeat g_step; fail).
  all: try match goal with f : fn1 |- _ => destruct f end.
  all: try match goal with f : fn2 |- _ => destruct f end.
  all: try match goal with f : fn3 |- _ => destruct f end.
  all: rewrite eval_eq.
  all: cbn [eval_body sel_body].
  all: repeat g_step.
Qed.

(* ---- result types of [eval] ---- *)
Definition documented_result (v : value) : Prop :=
  match v with
  | VBool _ | VNum _ | VStr _ | VNodes _ => True
  | VInt _ | VNil => False
  end.

(* the top-level constructor (through groups and concat wrappers) is neither
   round() nor the nop query *)
Fixpoint result_kind_ok (q : query) : bool :=
  match q with
  | QNop => false
  | QFn1 FRound _ => false
  | QGroup i => result_kind_ok i
  | QConcat a => result_kind_ok a
  | _ => true
  end.

(* [res_is P o]: if o is a value, it satisfies P *)
Definition res_is (P : value -> Prop) (o : outcome value) : Prop :=
  match o with Val v => P v | _ => True end.

Lemma res_is_obind {A} P (x : outcome A) (f : A -> outcome value) :
  (forall a, res_is P (f a)) -> res_is P (obind x f).
Proof. intros Hf. destruct x as [a|m|k]; cbn [obind]; [apply Hf|exact I|exact I]. Qed.

Lemma res_is_compare_values op m n : res_is documented_result (compare_values D op m n).
Proof.
  destruct m, n; cbn [compare_values res_is documented_result]; try exact I;
    (apply res_is_obind; intros ?; exact I).
Qed.

Ltac r_step :=
  match goal with
  | |- res_is _ (Val _) => first [exact I | intros [] ]
  | |- res_is _ (Complaint _) => exact I
  | |- res_is _ (compare_values _ _ _ _) => apply res_is_compare_values
  | |- res_is _ (obind _ _) => apply res_is_obind; intros ?
  | |- res_is _ (match ?x with _ => _ end) => destruct x
  end.

Lemma eval_result_kind q :
  result_kind_ok q = true -> forall c, res_is documented_result (EVAL q c).
Proof.
  induction q; intros Hok c0; cbn [result_kind_ok] in Hok; try discriminate Hok.
  all: try match goal with f : fn1 |- _ => destruct f end; try discriminate Hok.
  all: try match goal with f : fn2 |- _ => destruct f end.
  all: try match goal with f : fn3 |- _ => destruct f end.
  all: rewrite eval_eq; cbn [eval_body].
  all: try (match goal with IH : _ -> forall c, res_is _ (EVAL ?q c) |- res_is _ (EVAL ?q _) => exact (IH Hok c0) end).
  all: repeat r_step.
Qed.

(* exactness: in all the excluded cases a value, if any, is NOT of a documented type *)
Lemma eval_result_kind_exact q :
  result_kind_ok q = false -> forall c, res_is (fun v => ~ documented_result v) (EVAL q c).
Proof.
  induction q; intros Hok c0; cbn [result_kind_ok] in Hok; try discriminate Hok.
  all: try match goal with f : fn1 |- _ => destruct f end; try discriminate Hok.
  all: rewrite eval_eq; cbn [eval_body].
  all: try (match goal with IH : _ -> forall c, res_is _ (EVAL ?q c) |- res_is _ (EVAL ?q _) => exact (IH Hok c0) end).
  all: repeat r_step.
Qed.
End Main.

(* ================================================================== *)
(* The theorems, for all instantiations of the parameters *)

Theorem sel_never_crashes :
  forall D has_ns hcode re_match re_numsubexp re_replace_all (q : query) (c : node) (k : string),
    sel D has_ns hcode re_match re_numsubexp re_replace_all q c <> Crash k.
Proof.
  intros D has_ns hcode rm rn rr q c k. apply good_not_crash.
  apply (good_all D has_ns hcode rm rn rr q).
Qed.
Print Assumptions sel_never_crashes.

Theorem eval_never_crashes :
  forall D has_ns hcode re_match re_numsubexp re_replace_all (q : query) (c : node) (k : string),
    eval D has_ns hcode re_match re_numsubexp re_replace_all q c <> Crash k.
Proof.
  intros D has_ns hcode rm rn rr q c k. apply good_not_crash.
  apply (good_all D has_ns hcode rm rn rr q).
Qed.
Print Assumptions eval_never_crashes.

(* ---- the API level (Api.v) ---- *)
Section ApiLevel.
Variable re_match : string -> string -> option bool.
Variable re_numsubexp : string -> nat.
Variable re_replace_all : string -> string -> string -> string.
Variable hcode : tree -> node -> N.
Notation SELECT := (select re_match re_numsubexp re_replace_all hcode).
Notation EVALUATE := (evaluate re_match re_numsubexp re_replace_all hcode).

Lemma good_select D has_ns q c : good (SELECT D has_ns q c).
Proof.
  unfold select. apply good_obind; [|intros l; exact I].
  apply (good_all D has_ns (hcode D) re_match re_numsubexp re_replace_all q).
Qed.

Lemma good_evaluate D has_ns q c : good (EVALUATE D has_ns q c).
Proof.
  unfold evaluate.
  pose proof (proj2 (good_all D has_ns (hcode D) re_match re_numsubexp re_replace_all q) c) as He.
  destruct (eval D has_ns (hcode D) re_match re_numsubexp re_replace_all q c) as [v|m|k]; try exact He.
  destruct v; try exact I.
  apply good_obind; [apply good_select|intros ?; exact I].
Qed.

Theorem select_never_crashes D has_ns q c k : SELECT D has_ns q c <> Crash k.
Proof. apply good_not_crash, good_select. Qed.

Theorem evaluate_never_crashes D has_ns q c k : EVALUATE D has_ns q c <> Crash k.
Proof. apply good_not_crash, good_evaluate. Qed.

(* no third case *)
Theorem select_val_or_complaint D has_ns q c :
  (exists l, SELECT D has_ns q c = Val l) \/ (exists m, SELECT D has_ns q c = Complaint m).
Proof.
  destruct (good_cases _ (good_select D has_ns q c)) as [[l Hl]|[m [Hm _]]].
  - left. exists l. exact Hl.
  - right. exists m. exact Hm.
Qed.

Theorem evaluate_val_or_complaint D has_ns q c :
  (exists v, EVALUATE D has_ns q c = Val v) \/ (exists m, EVALUATE D has_ns q c = Complaint m).
Proof.
  destruct (good_cases _ (good_evaluate D has_ns q c)) as [[l Hl]|[m [Hm _]]].
  - left. exists l. exact Hl.
  - right. exists m. exact Hm.
Qed.

(* the complaints are the listed deliberate panics of func.go / operator.go *)
Theorem select_complaints_documented D has_ns q c m :
  SELECT D has_ns q c = Complaint m -> In m documented_complaints.
Proof. intros H. pose proof (good_select D has_ns q c) as Hg. rewrite H in Hg. exact Hg. Qed.

Theorem evaluate_complaints_documented D has_ns q c m :
  EVALUATE D has_ns q c = Complaint m -> In m documented_complaints.
Proof. intros H. pose proof (good_evaluate D has_ns q c) as Hg. rewrite H in Hg. exact Hg. Qed.

(* the property as worded: for a COMPILED expression (whatever the regexp
   validity check [re_ok] and the namespace map) *)
Corollary compiled_never_crashes re_ok text ns q :
  compile re_ok text ns = Ok q ->
  forall D has_ns c,
    ((exists l, SELECT D has_ns q c = Val l) \/ (exists m, SELECT D has_ns q c = Complaint m)) /\
    ((exists v, EVALUATE D has_ns q c = Val v) \/ (exists m, EVALUATE D has_ns q c = Complaint m)).
Proof.
  intros _ D has_ns c. split; [apply select_val_or_complaint|apply evaluate_val_or_complaint].
Qed.

(* ---- result types ---- *)
Theorem evaluate_result_documented D has_ns q c v :
  result_kind_ok q = true -> EVALUATE D has_ns q c = Val v -> documented_result v.
Proof.
  intros Hok. unfold evaluate.
  pose proof (eval_result_kind D has_ns (hcode D) re_match re_numsubexp re_replace_all q Hok c) as He.
  destruct (eval D has_ns (hcode D) re_match re_numsubexp re_replace_all q c) as [w|m|k].
  - destruct w; cbn [res_is documented_result] in He; try contradiction.
    + intros H. injection H as <-. exact I.
    + intros H. injection H as <-. exact I.
    + intros H. injection H as <-. exact I.
    + destruct (SELECT D has_ns q c) as [l'|m'|k']; cbn [obind]; intros H; try discriminate H.
      injection H as <-. exact I.
  - intros H. discriminate H.
  - intros H. discriminate H.
Qed.

(* and in the excluded cases the result, if any, is a Go int or nil *)
Theorem evaluate_result_undocumented D has_ns q c v :
  result_kind_ok q = false -> EVALUATE D has_ns q c = Val v -> ~ documented_result v.
Proof.
  intros Hok. unfold evaluate.
  pose proof (eval_result_kind_exact D has_ns (hcode D) re_match re_numsubexp re_replace_all q Hok c) as He.
  destruct (eval D has_ns (hcode D) re_match re_numsubexp re_replace_all q c) as [w|m|k].
  - destruct w; cbn [res_is documented_result] in He; try (exfalso; apply He; exact I).
    + intros H. injection H as <-. exact He.
    + intros H. injection H as <-. exact He.
  - intros H. discriminate H.
  - intros H. discriminate H.
Qed.
End ApiLevel.

Print Assumptions select_never_crashes.
Print Assumptions evaluate_never_crashes.
Print Assumptions select_val_or_complaint.
Print Assumptions evaluate_val_or_complaint.
Print Assumptions evaluate_complaints_documented.
Print Assumptions compiled_never_crashes.
Print Assumptions evaluate_result_documented.
Print Assumptions evaluate_result_undocumented.

(* ---- the unrestricted statement about result types is false ---- *)
Definition tiny_doc : tree :=
  T KRoot "" "" "" "" [] [T KElem "" "a" "" "" [mkAttr "" "x" "" "1"] [T KText "" "" "" "2.5" [] []]].

Definition run_evaluate := evaluate lit_match lit_numsubexp lit_replace_all hash_code.
Definition run_select := select lit_match lit_numsubexp lit_replace_all hash_code.

Theorem result_types_refuted :
  exists q D c z, run_evaluate D false q c = Val (VInt z).
Proof.
  exists (QFn1 FRound (QNum (S754_finite false 5629499534213120 (-51)))), tiny_doc, root_node, 3%Z.
  vm_compute. reflexivity.
Qed.
Print Assumptions result_types_refuted.

(* the witness is what "round(2.5)" compiles to *)
Example round_compiles :
  compile lit_ok "round(2.5)" None = Ok (QFn1 FRound (QNum (S754_finite false 5629499534213120 (-51)))).
Proof. vm_compute. reflexivity. Qed.

Example round_of_nodes_is_int :
  exists q, compile lit_ok "round(/a)" None = Ok q /\
            run_evaluate tiny_doc false q root_node = Val (VInt 3).
Proof. eexists. split; [vm_compute; reflexivity|]. vm_compute. reflexivity. Qed.

(* a Go int inside an expression: the deliberate panics of asBool / asString /
   the comparison dispatcher, not a runtime error *)
Example round_in_comparison :
  exists q, compile lit_ok "round(2.5) = 3" None = Ok q /\
            run_evaluate tiny_doc false q root_node = Complaint "xpath unknown value type".
Proof. eexists. split; [vm_compute; reflexivity|]. vm_compute. reflexivity. Qed.

Example round_in_boolean :
  exists q, compile lit_ok "boolean(round(2.5))" None = Ok q /\
            run_evaluate tiny_doc false q root_node = Complaint "unexpected type: int".
Proof. eexists. split; [vm_compute; reflexivity|]. vm_compute. reflexivity. Qed.

(* hypotheses of the positive theorem are satisfiable on non-trivial instances *)
Example result_kind_ok_instance :
  exists q, compile lit_ok "count(//a[@x = 1]) + floor(2.5)" None = Ok q /\
            result_kind_ok q = true /\
            run_evaluate tiny_doc false q root_node = Val (VNum (of_Z 3)).
Proof. eexists. split; [vm_compute; reflexivity|]. split; vm_compute; reflexivity. Qed.

Example select_instance :
  exists q, compile lit_ok "//a/text()" None = Ok q /\
            run_select tiny_doc false q root_node = Val [mkNode [0; 0] None].
Proof. eexists. split; [vm_compute; reflexivity|]. vm_compute. reflexivity. Qed.

Example complaint_instance :
  exists q, compile lit_ok "sum('x')" None = Ok q /\
            run_evaluate tiny_doc false q root_node =
              Complaint "sum() function argument type must be a node-set or number".
Proof. eexists. split; [vm_compute; reflexivity|]. vm_compute. reflexivity. Qed.
