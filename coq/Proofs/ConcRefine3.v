(* Proofs/ConcRefine3.v — C05 at cursor level (modest): two API calls on the SAME compiled expression,
   interleaved at the granularity of the individual Select / Evaluate steps of their clones.

   Memory model.  The shared tree expr.q is a value  shared : state3 q.  A call first clones it
   (Clone3.clone_state3, one atomic read of the shared tree) and then owns the clone
   k : state3 (clone_cfg3 q) -- except for the objects Clone does not copy, the argument queries
   captured by functionQuery closures, which stay in the shared tree and are aliased by every clone.
   A step of a thread therefore
     1. looks at its clone with the aliased objects as they are in shared memory NOW  (inject3),
     2. runs one Select / Evaluate on that,
     3. leaves the aliased objects in shared memory as the step left them              (absorb3).
   Any write by one thread to an aliased object would be seen by the other thread in 1.

   interleaving_independent3: for every schedule, each call observes exactly what it observes when it
   runs alone, and the shared tree ends as it started.  The reason is the frame theorem
   (FrameRefine3.frame3): no step writes an aliased object, so 1. and 3. are the identity. *)
From XP Require Import Base F64 Doc Ast Hash Eval.
From XP.Model1 Require Import Iter Iter2 Iter3 Clone3.
From XP.Proofs Require Import AxesSound IterRefine IterRefine2 Filter IterRefine3 IterRefine4 IterProtocol3
     Absolute CloneRefine3 FrameRefine3.
Open Scope nat_scope.
Open Scope list_scope.

(* the clone as the thread sees it: its own objects, and the aliased ones read from the shared tree *)
Fixpoint inject3 (q : query) : state3 q -> state3 (clone_cfg3 q) -> state3 (clone_cfg3 q) :=
  match q return state3 q -> state3 (clone_cfg3 q) -> state3 (clone_cfg3 q) with
  | QAncestor _ _ i => fun s k => mkAnc (n_it k) (n_table k) (inject3 i (n_in s) (n_in k))
  | QAttribute _ i => fun s k => mkAttrSt (a_it k) (inject3 i (a_in s) (a_in k))
  | QChild _ i => fun s k => mkChild (c_posit k) (c_it k) (inject3 i (c_in s) (c_in k))
  | QCachedChild _ i => fun s k => mkChild (c_posit k) (c_it k) (inject3 i (c_in s) (c_in k))
  | QDescendant _ _ i => fun s k => mkDesc (d_it k) (d_posit k) (d_level k) (inject3 i (d_in s) (d_in k))
  | QFollowing _ _ i => fun s k => mkFol (fo_posit k) (fo_it k) (inject3 i (fo_in s) (fo_in k))
  | QPreceding _ _ i => fun s k => mkPre (pr_posit k) (pr_it k) (inject3 i (pr_in s) (pr_in k))
  | QParent _ i => fun s k => inject3 i s k
  | QSelf _ i => fun s k => inject3 i s k
  | QFilter _ i p => fun s k => mkFilter3 (f3_posit k) (f3_pm k) (inject3 i (f3_in s) (f3_in k))
                                          (inject3 p (f3_pred s) (f3_pred k))
  | QFn1 _ _ => fun s _ => s
  | QFn2 _ _ _ => fun s _ => s
  | QFn3 _ _ _ _ => fun s _ => s
  | QConcat _ => fun s _ => s
  | QArg _ _ => fun s _ => s
  | QReverse i => fun s k => mkRev (rv_it k) (inject3 i (rv_in s) (rv_in k))
  | QGroup i => fun s k => mkGroup (g_posit k) (inject3 i (g_in s) (g_in k))
  | QLogical _ l r => fun s k => mkLogic (lg_done k) (inject3 l (lg_l s) (lg_l k)) (inject3 r (lg_r s) (lg_r k))
  | QNumeric _ l r => fun s k => (inject3 l (fst s) (fst k), inject3 r (snd s) (snd k))
  | QBoolean _ l r => fun s k => mkBoolSt (bo_it k) (inject3 l (bo_l s) (bo_l k)) (inject3 r (bo_r s) (bo_r k))
  | QUnion l r => fun s k => mkUnion (u_it k) (inject3 l (u_l s) (u_l k)) (inject3 r (u_r s) (u_r k))
  | QLastFunc i => fun s k => mkLastF (lf_buffer k) (lf_counted k) (inject3 i (lf_in s) (lf_in k))
  | QDoD _ _ i => fun s k => mkDod (dd_level k) (dd_posit k) (dd_node k) (inject3 i (dd_in s) (dd_in k))
  | QMerge i ch => fun s k => mkMerge (m_it k) (inject3 i (m_in s) (m_in k)) (inject3 ch (m_ch s) (m_ch k))
  | _ => fun _ k => k
  end.

Lemma inject3_id : forall q s k, FI (clone_cfg3 q) (clone_state3 q s) k -> inject3 q s k = k.
Proof.
  induction q; intros st k H;
    cbn [clone_cfg3 clone_state3 FI inject3 n_in a_in c_in d_in fo_in pr_in f3_in f3_pred rv_in g_in u_l u_r
         dd_in m_in m_ch lg_l lg_r bo_l bo_r lf_in fst snd] in *;
    try reflexivity; try (symmetry; exact H); auto;
    try (destruct k; cbn in *; f_equal; auto; fail).
  - destruct H as [H1 H2]. destruct k; cbn in *. f_equal; auto.
  - destruct H as [_ H]. destruct k; cbn in *. f_equal; auto.
  - destruct H as [H1 H2]. destruct k; cbn in *. f_equal; auto.
  - destruct H as [H1 H2]. destruct k; cbn in *. f_equal; auto.
  - destruct H as [H1 H2]. destruct k; cbn in *. f_equal; auto.
  - destruct H as [H1 H2]. destruct k; cbn in *. f_equal; auto.
  - destruct H as [H1 H2]. destruct k; cbn in *. f_equal; auto.
Qed.

Section Conc.
Variable D : tree.
Variable has_ns : bool.
Variable hc : node -> N.
Variable rm : string -> string -> option bool.
Variable rn : string -> nat.
Variable rr : string -> string -> string -> string.
Variable F : nat.
Variable q : query.                       (* the compiled expression both calls use *)
Hypothesis wf : frame_wf q = true.
Notation cq := (clone_cfg3 q).
Notation S3 := (sel3 D has_ns hc rm rn rr).
Notation E3 := (ev3 D has_ns hc rm rn rr).

(* what a call observes at each of its steps *)
Inductive cobs := COSelect (o : option node) | COValue (v : option sval) | COStuck.

(* a call: not yet cloned / running on its clone; the steps it still has to make (FrameRefine3.call3:
   Select or Evaluate, with the context node); what it has observed so far *)
Record thread := mkThread { t_clone : option (state3 cq); t_todo : list call3; t_obs : list cobs }.

(* one atomic step of a thread, given the shared tree; returns the shared tree afterwards *)
Definition tstep (shared : state3 q) (t : thread) : state3 q * thread :=
  match t_clone t with
  | None => (shared, mkThread (Some (clone_state3 q shared)) (t_todo t) (t_obs t))     (* expr.q.Clone() *)
  | Some k =>
    match t_todo t with
    | [] => (shared, t)                                                               (* finished *)
    | CSelect c :: r =>
      match S3 F cq (inject3 q shared k) c with
      | R o k' _ => (absorb3 q k' shared, mkThread (Some k') r (t_obs t ++ [COSelect o]))
      | Stuck => (shared, mkThread (Some k) [] (t_obs t ++ [COStuck]))
      end
    | CEvaluate c :: r =>
      match E3 F cq (inject3 q shared k) c with
      | OK3 v k' _ => (absorb3 q k' shared,
                       mkThread (Some k') r (t_obs t ++ [COValue (match v with CVS x => Some x | _ => None end)]))
      | _ => (shared, mkThread (Some k) [] (t_obs t ++ [COStuck]))
      end
    end
  end.

(* two calls; a schedule says whose turn it is (false: first call, true: second call) *)
Fixpoint run_sched (sched : list bool) (shared : state3 q) (t1 t2 : thread) : state3 q * thread * thread :=
  match sched with
  | [] => (shared, t1, t2)
  | false :: r => let '(sh', t1') := tstep shared t1 in run_sched r sh' t1' t2
  | true :: r => let '(sh', t2') := tstep shared t2 in run_sched r sh' t1 t2'
  end.

(* a call running alone on a tree that stays s0: n steps *)
Fixpoint solo (s0 : state3 q) (n : nat) (t : thread) : thread :=
  match n with 0 => t | S m => solo s0 m (snd (tstep s0 t)) end.

Definition turns (b : bool) (sched : list bool) : nat := List.length (filter (Bool.eqb b) sched).

(* the thread's clone has only ever been run: frame invariant relative to the clone of s0 *)
Definition TInv (s0 : state3 q) (t : thread) : Prop :=
  match t_clone t with None => True | Some k => FI cq (clone_state3 q s0) k end.

Lemma cwf : frame_wf cq = true.
Proof. rewrite clone_cfg3_frame_wf. exact wf. Qed.

(* a step never changes the shared tree, and keeps the invariant *)
Lemma tstep_frame : forall s0 t, TInv s0 t -> fst (tstep s0 t) = s0 /\ TInv s0 (snd (tstep s0 t)).
Proof.
  intros s0 [[k|] todo obs] Hi; unfold tstep, TInv in *; cbn [t_clone t_todo t_obs] in *.
  - rewrite (inject3_id q s0 k Hi). destruct todo as [|[c|c] r]; cbn [fst snd t_clone]; [auto| |].
    + destruct (S3 F cq k c) as [o k' c'|] eqn:Es; cbn [fst snd t_clone]; [|auto].
      pose proof (frame_select3 D has_ns hc rm rn rr F cq cwf _ _ _ _ _ _ Hi Es) as H1.
      split; [apply absorb3_id, H1|exact H1].
    + destruct (E3 F cq k c) as [v k' c'| |] eqn:Ee; cbn [fst snd t_clone]; auto.
      pose proof (frame_evaluate3 D has_ns hc rm rn rr F cq cwf _ _ _ _ _ _ Hi Ee) as H1.
      split; [apply absorb3_id, H1|exact H1].
  - cbn [fst snd t_clone]. split; [reflexivity|apply FI_refl_clone].
Qed.

Lemma solo_S : forall s0 n t, solo s0 (S n) t = solo s0 n (snd (tstep s0 t)).
Proof. reflexivity. Qed.

Lemma solo_snoc : forall s0 n t, solo s0 (S n) t = snd (tstep s0 (solo s0 n t)).
Proof. intros s0. induction n as [|n IH]; intros t; [reflexivity|]. rewrite solo_S, IH. reflexivity. Qed.

Lemma solo_inv : forall s0 n t, TInv s0 t -> TInv s0 (solo s0 n t).
Proof.
  intros s0. induction n as [|n IH]; intros t Hi; [exact Hi|]. cbn [solo]. apply IH, (tstep_frame s0 t Hi).
Qed.

(** ** every interleaving = the two solo runs side by side *)
Theorem interleaving_independent3 : forall (sched : list bool) (s0 : state3 q) (t1 t2 : thread),
  TInv s0 t1 -> TInv s0 t2 ->
  run_sched sched s0 t1 t2 = (s0, solo s0 (turns false sched) t1, solo s0 (turns true sched) t2).
Proof.
  induction sched as [|b r IH]; intros s0 t1 t2 H1 H2; [reflexivity|].
  destruct b; cbn [run_sched].
  - destruct (tstep s0 t2) as [sh' t2'] eqn:Et. destruct (tstep_frame s0 t2 H2) as [Hs Hi]. rewrite Et in Hs, Hi.
    cbn [fst snd] in Hs, Hi. subst sh'. rewrite (IH s0 t1 t2' H1 Hi).
    change (turns false (true :: r)) with (turns false r). change (turns true (true :: r)) with (S (turns true r)).
    rewrite solo_S, Et. reflexivity.
  - destruct (tstep s0 t1) as [sh' t1'] eqn:Et. destruct (tstep_frame s0 t1 H1) as [Hs Hi]. rewrite Et in Hs, Hi.
    cbn [fst snd] in Hs, Hi. subst sh'. rewrite (IH s0 t1' t2 Hi H2).
    change (turns true (false :: r)) with (turns true r). change (turns false (false :: r)) with (S (turns false r)).
    rewrite solo_S, Et. reflexivity.
Qed.

(* two fresh calls (nothing cloned yet) on a tree in ANY state: their observations under any
   schedule are those of their solo runs, and the tree is unchanged *)
Definition new_call (todo : list call3) : thread := mkThread None todo [].

Corollary two_calls_any_schedule3 : forall sched s0 todo1 todo2,
  let '(sh, t1, t2) := run_sched sched s0 (new_call todo1) (new_call todo2) in
  sh = s0 /\
  t_obs t1 = t_obs (solo s0 (turns false sched) (new_call todo1)) /\
  t_obs t2 = t_obs (solo s0 (turns true sched) (new_call todo2)).
Proof.
  intros sched s0 todo1 todo2.
  rewrite (interleaving_independent3 sched s0 (new_call todo1) (new_call todo2) I I). auto.
Qed.

(* two schedules that give each call the same number of turns: same observations *)
Corollary schedules_agree3 : forall sched sched' s0 t1 t2, TInv s0 t1 -> TInv s0 t2 ->
  turns false sched = turns false sched' -> turns true sched = turns true sched' ->
  run_sched sched s0 t1 t2 = run_sched sched' s0 t1 t2.
Proof.
  intros sched sched' s0 t1 t2 H1 H2 Ea Eb.
  rewrite (interleaving_independent3 sched s0 t1 t2 H1 H2), (interleaving_independent3 sched' s0 t1 t2 H1 H2), Ea, Eb.
  reflexivity.
Qed.

End Conc.

Print Assumptions interleaving_independent3.
Print Assumptions two_calls_any_schedule3.
Print Assumptions schedules_agree3.

(* ================================================================== *)
(** * Examples *)
From XP Require Import Api.
Module ConcExamples.
Import AxesSound.Examples IterRefine3.M3Examples.
Open Scope string_scope.
Open Scope list_scope.

(* the observations of the two calls under a schedule, starting from a tree that has been used *)
Definition obs2 (q : query) (used : nat) (sched : list bool) (todo1 todo2 : list call3) : list cobs * list cobs :=
  let s0 := Nat.iter used (fun s => match sel3 exD false hc lit_match lit_numsubexp lit_replace_all 60 q s root_node with
                                    | R _ s' _ => s' | Stuck => s end) (init3 q) in
  let r := run_sched exD false hc lit_match lit_numsubexp lit_replace_all 60 q sched s0
                     (new_call q todo1) (new_call q todo2) in
  (t_obs q (snd (fst r)), t_obs q (snd r)).

Definition qc := comp "//*[count(*) > 1 or contains(name(), 'b')]".
Definition todoA := [CSelect root_node; CSelect root_node; CSelect root_node].
Definition todoB := [CEvaluate n_a; CSelect n_a; CSelect n_a].

Example ex_interleavings :
  obs2 qc 1 [false; false; false; false; true; true; true; true] todoA todoB =
    ([COSelect (Some n_a); COSelect (Some n_b); COSelect None],
     [COValue None; COSelect (Some n_a); COSelect (Some n_b)]) /\
  obs2 qc 1 [true; false; true; false; false; true; true; false] todoA todoB =
  obs2 qc 1 [false; false; false; false; true; true; true; true] todoA todoB /\
  obs2 qc 3 [true; true; false; true; false; false; true; false] todoA todoB =
  obs2 qc 1 [false; false; false; false; true; true; true; true] todoA todoB.
Proof. vm_compute. repeat split; reflexivity. Qed.

Definition qd := comp "concat(name(), '-', string(count(//*[@x])), b)".
Example ex_interleavings_fn :
  obs2 qd 0 [true; false; false; true; true; false] [CEvaluate n_a; CEvaluate n_c] [CEvaluate n_c; CEvaluate n_a] =
    ([COValue (Some (SStr "a-1t")); COValue (Some (SStr "c-1"))],
     [COValue (Some (SStr "c-1")); COValue (Some (SStr "a-1t"))]).
Proof. vm_compute. reflexivity. Qed.
End ConcExamples.
