module explore
go 1.14
require github.com/antchfx/xpath v0.0.0
replace github.com/antchfx/xpath => /tmp/explore/repo
