(* Proofs/RewriteFixed.v — the REPAIRED rewriting of the replacement string of
   fn:replace (func.go rewriteGroupRefs; model: Eval.best_ref / rewrite_go /
   rewrite_refs_at), against Go's template expansion [go_expand], the literal
   F&O 7.6.3 rule [fo_expand] and the simplified reading [xpath_expand]
   (Spec/Template.v).  The old loop is treated in Proofs/Rewrite.v.

   Result (summary at the end of the file):
   - every reference is now braced, so nothing that follows a reference can
     be swallowed into a Go name: no condition on what follows "$digits";
   - the repaired function agrees with F&O 7.6.3 on every replacement string
     in which each '$' is followed by a digit, EXCEPT references of the form
     "$0..0d" with d a digit greater than the number of groups (e.g. "$05"
     with 2 groups: F&O reads N = 5, empty; the engine emits "${0}5");
   - it does NOT agree with [xpath_expand] on all such strings ("$35" with 2
     groups) — there [xpath_expand] itself departs from F&O rule 4 and the
     engine follows F&O;
   - calling the same function with the bound max(nsub, 9) instead of nsub
     agrees with F&O on ALL replacement strings in which each '$' is
     followed by a digit ([rewrite_max9_fo]).

   Compile:  coqc -Q . XP Proofs/RewriteFixed.v   (needs Proofs/Rewrite). *)
From XP Require Import Base Eval.
From XP.Spec Require Import Template StrSpec.
From XP.Proofs Require Import HashInj StrFuncs Rewrite.
Open Scope string_scope.
Open Scope nat_scope.

(* ================================================================== *)
(** * 0. Definitions used in the statements *)

(* value of the first l digits *)
Definition pv (ds : string) (l : nat) : nat := dec_val (firstn_s l ds).

(* no prefix of TWO OR MORE digits has a value in (m, 9].  (Such a prefix
   necessarily starts with '0':  "0..0d" with d > m.) *)
Fixpoint fixed_ok_upto (m : nat) (ds : string) (len : nat) : bool :=
  match len with
  | 0 => true
  | S l =>
    andb (orb (Nat.leb len 1)
              (negb (andb (Nat.ltb m (pv ds len)) (Nat.leb (pv ds len) 9))))
         (fixed_ok_upto m ds l)
  end.

Definition ref_fixed_ok (m : nat) (rest : string) : bool :=
  let ds := take_while is_digit_ascii rest in fixed_ok_upto m ds (String.length ds).

Fixpoint refs_fixed_ok (m : nat) (r : string) : bool :=
  match r with
  | EmptyString => true
  | String c r' => andb (if is_dollar c then ref_fixed_ok m r' else true) (refs_fixed_ok m r')
  end.

(* a simple sufficient condition: "$0" is never followed by a digit *)
Definition ref_no_zero_digit (rest : string) : bool :=
  negb (andb (head_is (fun c => Ascii.eqb c "0") rest) (head_is is_digit_ascii (skipn_s 1 rest))).

Fixpoint refs_no_zero_digit (r : string) : bool :=
  match r with
  | EmptyString => true
  | String c r' => andb (if is_dollar c then ref_no_zero_digit r' else true) (refs_no_zero_digit r')
  end.

(* exact condition for  fo_expand = xpath_expand : a reference none of whose
   prefixes is a group number 1..nsub has a value <= 9 (then rule 3 or rule 1
   applies to all its digits, rule 4 never) *)
Definition ref_fo_agree (nsub : nat) (rest : string) : bool :=
  let ds := take_while is_digit_ascii rest in
  match xp_pick nsub ds (String.length ds) with
  | Some _ => true
  | None => Nat.leb (dec_val ds) 9
  end.

Fixpoint refs_fo_agree (nsub : nat) (r : string) : bool :=
  match r with
  | EmptyString => true
  | String c r' => andb (if is_dollar c then ref_fo_agree nsub r' else true) (refs_fo_agree nsub r')
  end.

(* ================================================================== *)
(** * 1. rewrite_go: equations, fuel, '$'-free strings *)

Lemma byte36 : forall c, Nat.eqb (byte_of c) 36 = is_dollar c.
Proof.
  intros c. unfold is_dollar, byte_of. destruct (Ascii.eqb c "$") eqn:E.
  - apply Ascii.eqb_eq in E. subst c. reflexivity.
  - apply Nat.eqb_neq. intros H. apply Ascii.eqb_neq in E. apply E.
    rewrite <- (ascii_nat_embedding c), H. reflexivity.
Qed.

(* (digits consumed, number braced) at a '$' followed by the digit d *)
Definition pick_ref (m : nat) (r : string) (d : ascii) : nat * nat :=
  match best_ref m r 0 0 None with
  | Some p => p
  | None => (1, byte_of d - 48)
  end.

Lemma rewrite_go_cons2 : forall f m c d r',
  rewrite_go (S f) m (String c (String d r')) =
  if andb (Nat.eqb (byte_of c) 36) (is_digit_ascii d)
  then "${" ++ itoa (snd (pick_ref m (String d r') d)) ++ "}" ++
       rewrite_go f m (skipn_s (fst (pick_ref m (String d r') d)) (String d r'))
  else String c (rewrite_go f m (String d r')).
Proof.
  intros f m c d r'. cbn [rewrite_go]. unfold pick_ref.
  destruct (andb (Nat.eqb (byte_of c) 36) (is_digit_ascii d)); [|reflexivity].
  destruct (best_ref m (String d r') 0 0 None) as [[n ref]|]; reflexivity.
Qed.

Lemma rewrite_go_fuel : forall m f1 f2 s,
  String.length s < f1 -> String.length s < f2 ->
  rewrite_go f1 m s = rewrite_go f2 m s.
Proof.
  intros m. induction f1 as [|f1 IH]; intros f2 s H1 H2; [lia|].
  destruct f2 as [|f2]; [lia|].
  destruct s as [|c [|d r']]; [reflexivity | reflexivity |].
  rewrite !rewrite_go_cons2. cbn [String.length] in H1, H2.
  destruct (andb (Nat.eqb (byte_of c) 36) (is_digit_ascii d)).
  - rewrite (IH f2); [reflexivity | |];
      rewrite length_skipn_s; cbn [String.length]; lia.
  - rewrite (IH f2); [reflexivity | |]; cbn [String.length]; lia.
Qed.

(* fuel suffices *)
Theorem rewrite_go_fuel_enough : forall m f s, String.length s < f ->
  rewrite_go f m s = rewrite_go (S (String.length s)) m s.
Proof. intros m f s H. apply rewrite_go_fuel; lia. Qed.

Corollary rewrite_go_refs : forall m f s, String.length s < f ->
  rewrite_go f m s = rewrite_refs_at m s.
Proof. intros m f s H. unfold rewrite_refs_at. now apply rewrite_go_fuel_enough. Qed.

Lemma rewrite_refs_nil : forall m, rewrite_refs_at m "" = "".
Proof. reflexivity. Qed.

(* a byte that does not start a reference is copied *)
Lemma rewrite_refs_copy : forall m c r,
  andb (is_dollar c) (head_is is_digit_ascii r) = false ->
  rewrite_refs_at m (String c r) = String c (rewrite_refs_at m r).
Proof.
  intros m c r H. destruct r as [|d r']; [reflexivity|].
  unfold rewrite_refs_at at 1. cbn [String.length]. rewrite rewrite_go_cons2.
  rewrite byte36. cbn [head_is] in H. rewrite H. reflexivity.
Qed.

(* a reference is braced *)
Lemma rewrite_refs_ref : forall m d r', is_digit_ascii d = true ->
  rewrite_refs_at m (String "$" (String d r')) =
  "${" ++ itoa (snd (pick_ref m (String d r') d)) ++ "}" ++
  rewrite_refs_at m (skipn_s (fst (pick_ref m (String d r') d)) (String d r')).
Proof.
  intros m d r' Hd. unfold rewrite_refs_at at 1. cbn [String.length]. rewrite rewrite_go_cons2.
  rewrite byte36. change (is_dollar "$") with true. rewrite Hd. cbn [andb].
  do 3 f_equal. apply rewrite_go_refs. rewrite length_skipn_s. cbn [String.length]. lia.
Qed.

(* a template without '$' is unchanged *)
Theorem rewrite_refs_no_dollar : forall m s,
  str_all (fun c => negb (is_dollar c)) s = true -> rewrite_refs_at m s = s.
Proof.
  intros m. induction s as [|c r IH]; intros H; [reflexivity|].
  cbn [str_all] in H. apply andb_true_iff in H as [Hc Hr]. apply negb_true_iff in Hc.
  rewrite rewrite_refs_copy by now rewrite Hc. now rewrite IH.
Qed.

(* more generally: if no '$' is followed by a digit *)
Theorem rewrite_refs_no_ref : forall m s,
  (forall k, andb (head_is is_dollar (skipn_s k s))
                  (head_is is_digit_ascii (skipn_s (S k) s)) = false) ->
  rewrite_refs_at m s = s.
Proof.
  intros m. induction s as [|c r IH]; intros H; [reflexivity|].
  rewrite rewrite_refs_copy by exact (H 0). f_equal. apply IH.
  intros k. exact (H (S k)).
Qed.

(* ================================================================== *)
(** * 2. best_ref: the longest prefix of the digits with value <= m *)

(* best_ref without its accumulators [taken] / [best]: how many further
   digits are taken, and the value reached *)
Fixpoint run (m : nat) (l : string) (val : nat) : nat * nat :=
  match l with
  | String c r =>
    if is_digit_ascii c then
      if Nat.leb (val * 10 + (byte_of c - 48)) m
      then (S (fst (run m r (val * 10 + (byte_of c - 48)))),
            snd (run m r (val * 10 + (byte_of c - 48))))
      else (0, val)
    else (0, val)
  | EmptyString => (0, val)
  end.

Lemma run_zero : forall m l val, fst (run m l val) = 0 -> snd (run m l val) = val.
Proof.
  intros m [|c r] val H; [reflexivity|]. cbn [run] in *.
  destruct (is_digit_ascii c); [|reflexivity].
  destruct (Nat.leb _ m); [cbn [fst] in H; discriminate | reflexivity].
Qed.

Lemma best_ref_run : forall m l val taken best,
  best_ref m l val taken best =
  match fst (run m l val) with
  | 0 => best
  | S k => Some (taken + S k, snd (run m l val))
  end.
Proof.
  intros m. induction l as [|c r IH]; intros val taken best; [reflexivity|].
  cbn [best_ref run]. destruct (is_digit_ascii c); [|reflexivity].
  destruct (Nat.leb (val * 10 + (byte_of c - 48)) m); [|reflexivity].
  cbn [fst snd]. rewrite IH.
  destruct (fst (run m r (val * 10 + (byte_of c - 48)))) as [|k] eqn:E.
  - rewrite run_zero by assumption. f_equal. f_equal. lia.
  - f_equal. f_equal. lia.
Qed.

Lemma run_spec : forall m ds R val,
  str_all is_digit_ascii ds = true -> head_is is_digit_ascii R = false ->
  fst (run m (ds ++ R) val) <= String.length ds /\
  snd (run m (ds ++ R) val) = dec_acc val (firstn_s (fst (run m (ds ++ R) val)) ds) /\
  (1 <= fst (run m (ds ++ R) val) -> snd (run m (ds ++ R) val) <= m) /\
  (fst (run m (ds ++ R) val) < String.length ds ->
   m < dec_acc val (firstn_s (S (fst (run m (ds ++ R) val))) ds)).
Proof.
  intros m. induction ds as [|c ds IH]; intros R val Hd HR.
  - cbn [String.append String.length].
    assert (E : run m R val = (0, val)).
    { destruct R as [|x R]; [reflexivity|]. cbn [head_is] in HR. cbn [run]. now rewrite HR. }
    rewrite E. cbn [fst snd firstn_s dec_acc]. repeat split; lia.
  - cbn [str_all] in Hd. apply andb_true_iff in Hd as [Hc Hd].
    cbn [String.append run]. rewrite Hc.
    assert (EV : val * 10 + (byte_of c - 48) = 10 * val + digit_val c)
      by (unfold digit_val; lia).
    rewrite EV.
    destruct (Nat.leb (10 * val + digit_val c) m) eqn:L.
    + apply Nat.leb_le in L.
      destruct (IH R (10 * val + digit_val c) Hd HR) as (A & B & C & D).
      cbn [fst snd String.length firstn_s dec_acc].
      split; [lia|]. split; [exact B|]. split.
      * intros _. destruct (fst (run m (ds ++ R) (10 * val + digit_val c))) as [|k] eqn:E.
        -- rewrite run_zero by assumption. exact L.
        -- apply C. lia.
      * intros H. apply D. lia.
    + apply Nat.leb_gt in L. cbn [fst snd String.length firstn_s dec_acc].
      repeat split; lia.
Qed.

(* what the engine braces at "$" ++ ds ++ R *)
Lemma pick_ref_spec : forall m d ds' R,
  str_all is_digit_ascii (String d ds') = true -> head_is is_digit_ascii R = false ->
  let ds := String d ds' in
  let p := pick_ref m (ds ++ R) d in
  (1 <= fst p <= String.length ds /\ snd p = pv ds (fst p) /\ pv ds (fst p) <= m /\
   (fst p < String.length ds -> m < pv ds (S (fst p))))
  \/ (p = (1, digit_val d) /\ pv ds 1 = digit_val d /\ m < digit_val d).
Proof.
  intros m d ds' R Hd HR ds p. subst p. unfold pick_ref. rewrite best_ref_run.
  destruct (run_spec m ds R 0 Hd HR) as (A & B & C & D).
  destruct (fst (run m (ds ++ R) 0)) as [|k] eqn:E.
  - right. split; [reflexivity|].
    assert (P1 : pv ds 1 = digit_val d).
    { unfold pv. subst ds. cbn [firstn_s]. apply dec_val_one. }
    split; [exact P1|]. rewrite <- P1. apply D. subst ds. cbn [String.length]. lia.
  - left. cbn [fst snd Nat.add]. split; [lia|]. split; [exact B|].
    split; [unfold pv, dec_val; rewrite <- B; apply C; lia | exact D].
Qed.

(* ================================================================== *)
(** * 3. Values of the prefixes of a digit string *)

Lemma firstn_ge_s : forall l s, String.length s <= l -> firstn_s l s = s.
Proof.
  induction l as [|l IH]; intros [|c s] H; cbn [String.length] in H; try reflexivity; try lia.
  cbn [firstn_s]. rewrite IH by lia. reflexivity.
Qed.

Lemma firstn_S_snoc : forall l s c t, skipn_s l s = String c t ->
  firstn_s (S l) s = firstn_s l s ++ String c "".
Proof.
  induction l as [|l IH]; intros [|x s] c t H; cbn [skipn_s] in H; try discriminate.
  - injection H as -> ->. reflexivity.
  - cbn [firstn_s String.append]. f_equal. now apply (IH s c t).
Qed.

Lemma pv_S : forall ds l, l < String.length ds ->
  exists c, pv ds (S l) = 10 * pv ds l + digit_val c.
Proof.
  intros ds l H. destruct (skipn_s l ds) as [|c t] eqn:E.
  - apply (f_equal String.length) in E. rewrite length_skipn_s in E.
    cbn [String.length] in E. lia.
  - exists c. unfold pv. rewrite (firstn_S_snoc l ds c t E). apply dec_val_snoc.
Qed.

Lemma pv_S_le : forall ds l, pv ds l <= pv ds (S l).
Proof.
  intros ds l. destruct (Nat.lt_ge_cases l (String.length ds)) as [H|H].
  - destruct (pv_S ds l H) as [c ->]. lia.
  - unfold pv. rewrite !firstn_ge_s by lia. lia.
Qed.

Lemma pv_mono : forall ds l l', l <= l' -> pv ds l <= pv ds l'.
Proof.
  intros ds l l' H. induction H as [|l' H IH]; [lia|].
  pose proof (pv_S_le ds l'). lia.
Qed.

Lemma pv_S_10 : forall ds l, l < String.length ds -> 10 * pv ds l <= pv ds (S l).
Proof. intros ds l H. destruct (pv_S ds l H) as [c ->]. lia. Qed.

Lemma pv_all : forall ds, pv ds (String.length ds) = dec_val ds.
Proof. intros ds. unfold pv. now rewrite firstn_all_s. Qed.

(* ================================================================== *)
(** * 4. fo_pick *)

Lemma fo_pick_S' : forall nsub ds l,
  fo_pick nsub ds (S l) =
  if Nat.leb (pv ds (S l)) nsub then (S l, Some (pv ds (S l)))
  else if Nat.leb (pv ds (S l)) 9 then (S l, None)
  else fo_pick nsub ds l.
Proof. reflexivity. Qed.

(* rule 4: prefixes whose value exceeds both nsub and 9 are stripped *)
Lemma fo_pick_skip : forall nsub ds l len, l <= len ->
  (forall l', l < l' <= len -> nsub < pv ds l' /\ 9 < pv ds l') ->
  fo_pick nsub ds len = fo_pick nsub ds l.
Proof.
  intros nsub ds l. induction len as [|len IH]; intros Hl M.
  - now replace l with 0 by lia.
  - destruct (Nat.eq_dec l (S len)) as [->|N]; [reflexivity|].
    rewrite fo_pick_S'. destruct (M (S len) ltac:(lia)) as [M1 M2].
    apply Nat.leb_gt in M1, M2. rewrite M1, M2. apply IH; [lia|].
    intros l' Hl'. apply M. lia.
Qed.

Lemma fo_step_other : forall nsub g c rest, is_dollar c = false ->
  fo_step nsub g c rest = (String c "", 0).
Proof. intros nsub g c rest D. unfold fo_step. now rewrite D. Qed.

Lemma fo_expand_other : forall nsub g c t, is_dollar c = false ->
  fo_expand nsub g (String c t) = String c (fo_expand nsub g t).
Proof.
  intros nsub g c t D. unfold fo_expand. rewrite scan_cons, fo_step_other by assumption.
  reflexivity.
Qed.

Lemma fo_expand_ref : forall nsub g ds R,
  str_all is_digit_ascii ds = true -> ds <> "" -> head_is is_digit_ascii R = false ->
  fo_expand nsub g (String "$" (ds ++ R)) =
  match snd (fo_pick nsub ds (String.length ds)) with
  | Some n => g n
  | None => ""
  end ++ fo_expand nsub g (skipn_s (fst (fo_pick nsub ds (String.length ds))) (ds ++ R)).
Proof.
  intros nsub g ds R Hd Hne HR. unfold fo_expand. rewrite scan_cons.
  unfold fo_step. change (negb (is_dollar "$")) with false. cbv iota zeta.
  rewrite take_while_app by assumption.
  destruct ds as [|d ds']; [congruence|].
  destruct (fo_pick nsub (String d ds') (String.length (String d ds'))) as [l [n|]];
    reflexivity.
Qed.

(* the side condition, unfolded *)
Lemma fixed_ok_upto_spec : forall m ds len, fixed_ok_upto m ds len = true ->
  forall l', 2 <= l' <= len -> m < pv ds l' -> 9 < pv ds l'.
Proof.
  intros m ds. induction len as [|len IH]; intros H l' Hl Hm; [lia|].
  cbn [fixed_ok_upto] in H. apply andb_true_iff in H as [H1 H2].
  destruct (Nat.eq_dec l' (S len)) as [->|N]; [|apply IH; [assumption | lia | assumption]].
  apply orb_true_iff in H1 as [H1|H1].
  - apply Nat.leb_le in H1. lia.
  - apply negb_true_iff, andb_false_iff in H1 as [H1|H1].
    + apply Nat.ltb_ge in H1. lia.
    + now apply Nat.leb_gt in H1.
Qed.

Lemma fixed_ok_upto_intro : forall m ds len,
  (forall l', 2 <= l' <= len -> m < pv ds l' -> 9 < pv ds l') ->
  fixed_ok_upto m ds len = true.
Proof.
  intros m ds. induction len as [|len IH]; intros H; [reflexivity|].
  cbn [fixed_ok_upto]. rewrite IH by (intros l' Hl; apply H; lia). rewrite andb_true_r.
  destruct (Nat.leb (S len) 1) eqn:E1; [reflexivity|]. apply Nat.leb_gt in E1. cbn [orb].
  apply negb_true_iff, andb_false_iff.
  destruct (Nat.ltb m (pv ds (S len))) eqn:E2; [right | now left].
  apply Nat.ltb_lt in E2. apply Nat.leb_gt. apply H; [lia | assumption].
Qed.

(* ================================================================== *)
(** * 5. The repaired rewriting against F&O 7.6.3 *)

Lemma refs_fixed_ok_tail : forall m c r, refs_fixed_ok m (String c r) = true ->
  refs_fixed_ok m r = true.
Proof. intros m c r H. cbn [refs_fixed_ok] in H. now apply andb_true_iff in H as [_ H]. Qed.

Lemma refs_fixed_ok_skipn : forall m k r, refs_fixed_ok m r = true ->
  refs_fixed_ok m (skipn_s k r) = true.
Proof.
  intros m. induction k as [|k IH]; intros r H; [exact H|].
  destruct r as [|c r]; [reflexivity|]. cbn [skipn_s]. apply IH. now apply refs_fixed_ok_tail in H.
Qed.

(* General form: the scanner is run with bound m, Go has nsub groups. *)
Lemma expand_fixed : forall m nsub g,
  String.length (itoa nsub) <= 9 -> nsub <= m -> m <= Nat.max nsub 9 ->
  forall n r, String.length r <= n ->
  dollar_digit r = true -> refs_fixed_ok m r = true ->
  go_expand nsub g (rewrite_refs_at m r) = fo_expand nsub g r.
Proof.
  intros m nsub g H9 Hm1 Hm2. induction n as [|n IH]; intros r Hn Hdd Hok.
  - destruct r; [reflexivity | cbn [String.length] in Hn; lia].
  - destruct r as [|c r']; [reflexivity|]. cbn [String.length] in Hn.
    destruct (is_dollar c) eqn:D.
    + apply is_dollar_true in D. subst c.
      cbn [dollar_digit] in Hdd. change (is_dollar "$") with true in Hdd. cbv iota in Hdd.
      apply andb_true_iff in Hdd as [Hhd Hdd].
      cbn [refs_fixed_ok] in Hok. change (is_dollar "$") with true in Hok. cbv iota in Hok.
      apply andb_true_iff in Hok as [Hro Hok].
      unfold ref_fixed_ok in Hro. cbv zeta in Hro.
      destruct (take_while_split is_digit_ascii r') as [S1 S2].
      pose proof (take_while_all is_digit_ascii r') as Hd.
      assert (Hne : take_while is_digit_ascii r' <> "").
      { destruct r' as [|x r'']; [discriminate Hhd|]. cbn [head_is] in Hhd.
        cbn [take_while]. rewrite Hhd. discriminate. }
      remember (take_while is_digit_ascii r') as ds eqn:Eds.
      remember (skipn_s (String.length ds) r') as R eqn:ER.
      clear Eds ER. subst r'.
      destruct ds as [|d ds']; [congruence|].
      pose proof (fixed_ok_upto_spec _ _ _ Hro) as FO.
      pose proof (pick_ref_spec m d ds' R Hd S2) as PS. cbv zeta in PS.
      assert (Hdig : is_digit_ascii d = true).
      { cbn [str_all] in Hd. now apply andb_true_iff in Hd as [Hd _]. }
      rewrite fo_expand_ref by assumption.
      change (String d ds' ++ R) with (String d (ds' ++ R)) in *.
      rewrite rewrite_refs_ref by assumption.
      rewrite go_expand_braced
        by (apply digits_are_names, itoa_all_digits || apply itoa_nonempty).
      remember (pick_ref m (String d (ds' ++ R)) d) as p eqn:Ep. destruct p as [k v].
      cbn [fst snd] in *.
      set (ds := String d ds') in *.
      assert (Hlen : String.length (String d (ds' ++ R)) <= n).
      { lia. }
      assert (IHs : forall j,
        go_expand nsub g (rewrite_refs_at m (skipn_s j (String d (ds' ++ R)))) =
        fo_expand nsub g (skipn_s j (String d (ds' ++ R)))).
      { intros j. apply IH.
        - rewrite length_skipn_s. lia.
        - now apply dollar_digit_skipn.
        - now apply refs_fixed_ok_skipn. }
      destruct PS as [(A & B & C & D') | (E & P1 & Hbig)].
      * (* the longest prefix with value <= m has length k *)
        subst v.
        assert (SK : fo_pick nsub ds (String.length ds) = fo_pick nsub ds k).
        { apply fo_pick_skip; [lia|]. intros l' Hl'.
          assert (M : m < pv ds l').
          { pose proof (pv_mono ds (S k) l' ltac:(lia)). specialize (D' ltac:(lia)). lia. }
          split; [lia|]. apply FO; [lia | exact M]. }
        rewrite SK. destruct k as [|k0]; [lia|]. rewrite fo_pick_S'.
        destruct (Nat.leb (pv ds (S k0)) nsub) eqn:L.
        -- apply Nat.leb_le in L. cbn [fst snd].
           rewrite go_ref_value_itoa by assumption. f_equal. apply IHs.
        -- apply Nat.leb_gt in L.
           assert (L9 : Nat.leb (pv ds (S k0)) 9 = true) by (apply Nat.leb_le; lia).
           rewrite L9. cbn [fst snd].
           rewrite go_ref_value_big by (rewrite dec_val_itoa; exact L).
           f_equal. apply IHs.
      * (* even the first digit exceeds m: it alone is braced, an empty reference *)
        injection E as -> ->.
        pose proof (digit_val_lt d Hdig) as Hlt.
        assert (SK : fo_pick nsub ds (String.length ds) = fo_pick nsub ds 1).
        { apply fo_pick_skip; [subst ds; cbn [String.length]; lia|]. intros l' Hl'.
          assert (M : m < pv ds l').
          { pose proof (pv_mono ds 1 l' ltac:(lia)). lia. }
          split; [lia|]. apply FO; [lia | exact M]. }
        rewrite SK, fo_pick_S', P1.
        assert (L1 : Nat.leb (digit_val d) nsub = false) by (apply Nat.leb_gt; lia).
        assert (L9 : Nat.leb (digit_val d) 9 = true) by (apply Nat.leb_le; lia).
        rewrite L1, L9. cbn [fst snd].
        change (byte_of d - 48) with (digit_val d).
        rewrite go_ref_value_big by (rewrite dec_val_itoa; lia).
        f_equal. apply IHs.
    + assert (Hc : andb (is_dollar c) (head_is is_digit_ascii r') = false) by now rewrite D.
      rewrite rewrite_refs_copy, go_expand_other, fo_expand_other by assumption.
      f_equal. apply IH; [lia | now apply dollar_digit_tail in Hdd
                          | now apply refs_fixed_ok_tail in Hok].
Qed.

(* THE REPAIRED ENGINE AGAINST F&O 7.6.3: every '$' followed by a digit, and
   no reference "$0..0d" with d greater than the number of groups. *)
Theorem rewrite_fixed_fo : forall nsub group r,
  String.length (itoa nsub) <= 9 ->
  dollar_digit r = true -> refs_fixed_ok nsub r = true ->
  go_expand nsub group (rewrite_refs_at nsub r) = fo_expand nsub group r.
Proof.
  intros nsub g r H9 Hdd Hok.
  apply (expand_fixed nsub nsub g H9 (le_n _) (Nat.le_max_l _ _) (String.length r));
    [lia | assumption | assumption].
Qed.

Print Assumptions rewrite_fixed_fo.

(* ------------------------------------------------------------------ *)
(** ** Sufficient conditions for the side condition *)

Lemma refs_fixed_ok_big : forall m r, 9 <= m -> refs_fixed_ok m r = true.
Proof.
  intros m r H. induction r as [|c r IH]; [reflexivity|].
  cbn [refs_fixed_ok]. rewrite IH, andb_true_r.
  destruct (is_dollar c); [|reflexivity].
  unfold ref_fixed_ok. cbv zeta. apply fixed_ok_upto_intro. intros l' _ Hl. lia.
Qed.

Lemma take_while_head_false : forall p s, head_is p s = false -> take_while p s = "".
Proof. intros p [|c s] H; [reflexivity|]. cbn [head_is] in H. cbn [take_while]. now rewrite H. Qed.

Lemma ref_no_zero_digit_ok : forall m rest, ref_no_zero_digit rest = true ->
  ref_fixed_ok m rest = true.
Proof.
  intros m rest H. unfold ref_fixed_ok. cbv zeta. apply fixed_ok_upto_intro.
  intros l' Hl _. unfold ref_no_zero_digit in H. apply negb_true_iff in H.
  destruct rest as [|a rest1]; [cbn [take_while String.length] in Hl; lia|].
  cbn [take_while] in *. destruct (is_digit_ascii a) eqn:Da;
    [|cbn [String.length] in Hl; lia].
  cbn [head_is skipn_s] in H.
  destruct (Ascii.eqb a "0") eqn:Z.
  - cbn [andb] in H. rewrite (take_while_head_false _ _ H) in Hl.
    cbn [String.length] in Hl. lia.
  - set (ds := String a (take_while is_digit_ascii rest1)) in *.
    assert (Hd : str_all is_digit_ascii ds = true).
    { subst ds. cbn [str_all]. now rewrite Da, take_while_all. }
    assert (Hz : head_is is0 ds = false) by exact Z.
    destruct (firstn_canonical ds l' Hd Hz ltac:(lia)) as [C1 C2].
    assert (Hd' : str_all is_digit_ascii (firstn_s l' ds) = true).
    { rewrite <- (firstn_skipn_s l' ds), str_all_app in Hd.
      now apply andb_true_iff in Hd as [Hd _]. }
    assert (Hz' : head_is is0 (firstn_s l' ds) = false).
    { destruct l' as [|l'']; [lia|]. exact Z. }
    pose proof (canonical_ge10 _ Hd' Hz' ltac:(lia)) as H10. unfold pv. lia.
Qed.

Lemma refs_no_zero_digit_ok : forall m r, refs_no_zero_digit r = true ->
  refs_fixed_ok m r = true.
Proof.
  intros m. induction r as [|c r IH]; intros H; [reflexivity|].
  cbn [refs_no_zero_digit refs_fixed_ok] in *. apply andb_true_iff in H as [H1 H2].
  rewrite IH by assumption. rewrite andb_true_r.
  destruct (is_dollar c); [now apply ref_no_zero_digit_ok | reflexivity].
Qed.

(* "$0" never followed by a digit: correct for every number of groups *)
Corollary rewrite_fixed_fo_plain : forall nsub group r,
  String.length (itoa nsub) <= 9 ->
  dollar_digit r = true -> refs_no_zero_digit r = true ->
  go_expand nsub group (rewrite_refs_at nsub r) = fo_expand nsub group r.
Proof.
  intros nsub g r H9 Hdd Hz. apply rewrite_fixed_fo; try assumption.
  now apply refs_no_zero_digit_ok.
Qed.

(* nine or more groups: no side condition *)
Corollary rewrite_fixed_fo_9 : forall nsub group r,
  String.length (itoa nsub) <= 9 -> 9 <= nsub -> dollar_digit r = true ->
  go_expand nsub group (rewrite_refs_at nsub r) = fo_expand nsub group r.
Proof.
  intros nsub g r H9 Hn Hdd. apply rewrite_fixed_fo; try assumption.
  now apply refs_fixed_ok_big.
Qed.

(* PROPOSED CORRECTION: run the same scanner with the bound max(nsub, 9)
   (i.e. rewriteGroupRefs(dst, max(e.NumSubexp(), 9))): F&O 7.6.3 for ALL
   replacement strings in which each '$' is followed by a digit.  (The
   scanner then takes the longest prefix N <= max(S, 9), exactly the N at
   which rule 4 stops; Go expands "${N}" to "" when N > S, which is rule 3.) *)
Theorem rewrite_max9_fo : forall nsub group r,
  String.length (itoa nsub) <= 9 -> dollar_digit r = true ->
  go_expand nsub group (rewrite_refs_at (Nat.max nsub 9) r) = fo_expand nsub group r.
Proof.
  intros nsub g r H9 Hdd.
  apply (expand_fixed (Nat.max nsub 9) nsub g H9 (Nat.le_max_l _ _) (le_n _) (String.length r));
    [lia | assumption |].
  apply refs_fixed_ok_big. apply Nat.le_max_r.
Qed.

Print Assumptions rewrite_fixed_fo_plain.
Print Assumptions rewrite_max9_fo.

(* ================================================================== *)
(** * 6. F&O 7.6.3 against the simplified reading [xpath_expand] *)

Definition fo_agree_class (nsub : nat) (r : string) : Prop :=
  dollar_digit r = true /\ refs_fo_agree nsub r = true.

Lemma fo_step_xpath_step_gen : forall nsub g c t, fo_agree_class nsub (String c t) ->
  fo_step nsub g c t = xpath_step nsub g c t.
Proof.
  intros nsub g c t (Hdd & Hfa). unfold fo_step, xpath_step.
  destruct (is_dollar c) eqn:D; [|reflexivity]. cbn [negb]. cbv iota zeta.
  cbn [refs_fo_agree] in Hfa. rewrite D in Hfa. apply andb_true_iff in Hfa as [Hfa _].
  unfold ref_fo_agree in Hfa. cbv zeta in Hfa.
  remember (take_while is_digit_ascii t) as ds0 eqn:Eds.
  destruct ds0 as [|d ds']; [reflexivity|]. clear Eds.
  set (ds := String d ds') in *.
  destruct (xp_pick nsub ds (String.length ds)) as [l|] eqn:Pk.
  - destruct (xp_pick_Some _ _ _ _ Pk) as (Hl & V & M).
    unfold valid in V. fold (pv ds l) in V. apply andb_true_iff in V as [V1 V2].
    apply Nat.leb_le in V1, V2.
    assert (SK : fo_pick nsub ds (String.length ds) = fo_pick nsub ds l).
    { apply fo_pick_skip; [lia|]. intros l' Hl'.
      pose proof (pv_S_10 ds l ltac:(lia)) as T.
      pose proof (pv_mono ds (S l) l' ltac:(lia)) as Mo.
      specialize (M l' Hl'). unfold valid in M. fold (pv ds l') in M.
      apply andb_false_iff in M as [M|M]; apply Nat.leb_gt in M; lia. }
    rewrite SK. destruct l as [|l0]; [lia|]. rewrite fo_pick_S'.
    apply Nat.leb_le in V2. rewrite V2. reflexivity.
  - apply Nat.leb_le in Hfa.
    assert (Hlen : 1 <= String.length ds) by (subst ds; cbn [String.length]; lia).
    pose proof (xp_pick_None _ _ _ Pk (String.length ds) ltac:(lia)) as V.
    unfold valid in V. fold (pv ds (String.length ds)) in V. rewrite pv_all in V.
    destruct (String.length ds) as [|len0] eqn:EL; [lia|].
    rewrite fo_pick_S'. rewrite <- EL, pv_all.
    destruct (Nat.eqb (dec_val ds) 0) eqn:E0.
    + apply Nat.eqb_eq in E0. rewrite E0. reflexivity.
    + apply Nat.eqb_neq in E0.
      apply andb_false_iff in V as [V|V]; apply Nat.leb_gt in V; [lia|].
      assert (L1 : Nat.leb (dec_val ds) nsub = false) by (apply Nat.leb_gt; lia).
      assert (L9 : Nat.leb (dec_val ds) 9 = true) by (apply Nat.leb_le; lia).
      rewrite L1, L9. reflexivity.
Qed.

Theorem fo_expand_xpath_expand_gen : forall nsub group r,
  dollar_digit r = true -> refs_fo_agree nsub r = true ->
  fo_expand nsub group r = xpath_expand nsub group r.
Proof.
  intros nsub g r Hdd Hfa. unfold fo_expand, xpath_expand.
  apply (scan_agree (fo_agree_class nsub)).
  - intros c t (A & B). cbn [dollar_digit refs_fo_agree] in A, B.
    apply andb_true_iff in A as [_ A]. apply andb_true_iff in B as [_ B]. now split.
  - intros c t H. now apply fo_step_xpath_step_gen.
  - now split.
Qed.

(* The requested statement, with the side conditions that make it true. *)
Theorem rewrite_fixed_correct : forall nsub group r,
  String.length (itoa nsub) <= 9 -> dollar_digit r = true ->
  refs_fixed_ok nsub r = true -> refs_fo_agree nsub r = true ->
  go_expand nsub group (rewrite_refs_at nsub r) = xpath_expand nsub group r.
Proof.
  intros nsub g r H9 Hdd Hok Hfa.
  rewrite <- fo_expand_xpath_expand_gen by assumption. now apply rewrite_fixed_fo.
Qed.

Print Assumptions fo_expand_xpath_expand_gen.
Print Assumptions rewrite_fixed_correct.

(* ------------------------------------------------------------------ *)
(** ** One condition for the engine against [xpath_expand] *)

(* some prefix of the digits is a group number 1..nsub, or the digits are
   all zeros, or there is a single digit *)
Definition ref_xp_ok (nsub : nat) (rest : string) : bool :=
  let ds := take_while is_digit_ascii rest in
  match xp_pick nsub ds (String.length ds) with
  | Some _ => true
  | None => orb (Nat.eqb (dec_val ds) 0) (Nat.eqb (String.length ds) 1)
  end.

Fixpoint refs_xp_ok (nsub : nat) (r : string) : bool :=
  match r with
  | EmptyString => true
  | String c r' => andb (if is_dollar c then ref_xp_ok nsub r' else true) (refs_xp_ok nsub r')
  end.

Lemma ref_xp_ok_fo_agree : forall nsub rest, ref_xp_ok nsub rest = true ->
  ref_fo_agree nsub rest = true.
Proof.
  intros nsub rest H. unfold ref_xp_ok in H. unfold ref_fo_agree. cbv zeta in *.
  pose proof (take_while_all is_digit_ascii rest) as Hd.
  destruct (xp_pick _ _ _); [reflexivity|].
  apply Nat.leb_le. apply orb_true_iff in H as [H|H]; apply Nat.eqb_eq in H; [lia|].
  destruct (take_while is_digit_ascii rest) as [|d [|d2 ds2]];
    cbn [String.length] in H; try lia.
  cbn [str_all] in Hd. rewrite andb_true_r in Hd. rewrite dec_val_one.
  pose proof (digit_val_lt d Hd). lia.
Qed.

Lemma ref_xp_ok_fixed_ok : forall nsub rest, ref_xp_ok nsub rest = true ->
  ref_fixed_ok nsub rest = true.
Proof.
  intros nsub rest H. unfold ref_xp_ok in H. unfold ref_fixed_ok. cbv zeta in *.
  set (ds := take_while is_digit_ascii rest) in *.
  apply fixed_ok_upto_intro. intros l' Hl' Hbig.
  destruct (xp_pick nsub ds (String.length ds)) as [l|] eqn:Pk.
  - destruct (xp_pick_Some _ _ _ _ Pk) as (Hl & V & _).
    unfold valid in V. fold (pv ds l) in V. apply andb_true_iff in V as [V1 V2].
    apply Nat.leb_le in V1, V2.
    destruct (Nat.le_gt_cases l' l) as [Hle|Hgt].
    + pose proof (pv_mono ds l' l Hle). lia.
    + pose proof (pv_S_10 ds l ltac:(lia)). pose proof (pv_mono ds (S l) l' ltac:(lia)). lia.
  - apply orb_true_iff in H as [H|H]; apply Nat.eqb_eq in H; [|lia].
    pose proof (pv_mono ds l' (String.length ds) ltac:(lia)) as Mo.
    rewrite pv_all in Mo. lia.
Qed.

Lemma refs_xp_ok_both : forall nsub r, refs_xp_ok nsub r = true ->
  refs_fixed_ok nsub r = true /\ refs_fo_agree nsub r = true.
Proof.
  intros nsub. induction r as [|c r IH]; intros H; [split; reflexivity|].
  cbn [refs_xp_ok refs_fixed_ok refs_fo_agree] in *. apply andb_true_iff in H as [H1 H2].
  destruct (IH H2) as [A B]. rewrite A, B, !andb_true_r.
  destruct (is_dollar c); [|split; reflexivity].
  split; [now apply ref_xp_ok_fixed_ok | now apply ref_xp_ok_fo_agree].
Qed.

Corollary rewrite_fixed_correct_xp : forall nsub group r,
  String.length (itoa nsub) <= 9 -> dollar_digit r = true -> refs_xp_ok nsub r = true ->
  go_expand nsub group (rewrite_refs_at nsub r) = xpath_expand nsub group r.
Proof.
  intros nsub g r H9 Hdd H. destruct (refs_xp_ok_both nsub r H) as [A B].
  now apply rewrite_fixed_correct.
Qed.

Print Assumptions rewrite_fixed_correct_xp.

(* ================================================================== *)
(** * 7. Computed examples, remaining differences *)

(* the templates on which the OLD loop failed (Proofs/Rewrite.v, R1-R3), and
   those of the task; two groups *)
Example fixed_ex_2 :
  map (fun r => go_expand 2 gshow (rewrite_refs_at 2 r))
      ["$0x"; "$5x"; "$1y"; "$01"; "$00"; "$35"; "$12"; "x$12y$1z$3-$0;$2$1"; "$99"; "$0012"]
  = ["<0>x"; "x"; "<1>y"; "<1>"; "<0>"; "5"; "<1>2"; "x<1>2y<1>z-<0>;<2><1>"; "9"; "<1>2"] /\
  map (fo_expand 2 gshow)
      ["$0x"; "$5x"; "$1y"; "$01"; "$00"; "$35"; "$12"; "x$12y$1z$3-$0;$2$1"; "$99"; "$0012"]
  = ["<0>x"; "x"; "<1>y"; "<1>"; "<0>"; "5"; "<1>2"; "x<1>2y<1>z-<0>;<2><1>"; "9"; "<1>2"] /\
  map (rewrite_refs_at 2) ["$0x"; "$5x"; "$01"; "$00"; "$35"; "$12"]
  = ["${0}x"; "${5}x"; "${1}"; "${0}"; "${3}5"; "${1}2"] /\
  forallb (fun r => andb (dollar_digit r) (refs_fixed_ok 2 r))
      ["$0x"; "$5x"; "$1y"; "$01"; "$00"; "$35"; "$12"; "x$12y$1z$3-$0;$2$1"; "$99"; "$0012"]
  = true.
Proof. vm_compute. repeat split. Qed.

(* no group *)
Example fixed_ex_0 :
  map (fun r => go_expand 0 gshow (rewrite_refs_at 0 r))
      ["$1y"; "a$1b_$2"; "[$1]$0"; "$0x"; "$00"; "$12"; "$10"]
  = ["y"; "ab_"; "[]<0>"; "<0>x"; "<0>"; "2"; "0"] /\
  map (fo_expand 0 gshow) ["$1y"; "a$1b_$2"; "[$1]$0"; "$0x"; "$00"; "$12"; "$10"]
  = ["y"; "ab_"; "[]<0>"; "<0>x"; "<0>"; "2"; "0"] /\
  forallb (fun r => andb (dollar_digit r) (refs_fixed_ok 0 r))
      ["$1y"; "a$1b_$2"; "[$1]$0"; "$0x"; "$00"; "$12"; "$10"] = true.
Proof. vm_compute. repeat split. Qed.

(* twelve groups, and five groups for "$12" *)
Example fixed_ex_12 :
  map (fun r => go_expand 12 gshow (rewrite_refs_at 12 r))
      ["$12"; "$123"; "$13"; "$1"; "$10x"; "$9_"; "$0"; "$05"; "$007"; "$012"; "$35"]
  = ["<12>"; "<12>3"; "<1>3"; "<1>"; "<10>x"; "<9>_"; "<0>"; "<5>"; "<7>"; "<12>"; "<3>5"] /\
  map (fo_expand 12 gshow)
      ["$12"; "$123"; "$13"; "$1"; "$10x"; "$9_"; "$0"; "$05"; "$007"; "$012"; "$35"]
  = ["<12>"; "<12>3"; "<1>3"; "<1>"; "<10>x"; "<9>_"; "<0>"; "<5>"; "<7>"; "<12>"; "<3>5"] /\
  rewrite_refs_at 12 "$12|$123" = "${12}|${12}3" /\
  rewrite_refs_at 5 "$12" = "${1}2" /\
  go_expand 5 gshow (rewrite_refs_at 5 "$12") = "<1>2" /\ fo_expand 5 gshow "$12" = "<1>2".
Proof. vm_compute. repeat split. Qed.

(* ---- REMAINING DIFFERENCE with F&O 7.6.3: "$0..0d", d > nsub ----
   F&O: N = 5 (all the digits), S = 2 < N <= 9: rule 3, the zero-length
   string.  The engine takes "0" (a group number) and leaves "5" literal. *)
Example fixed_differs_fo_leading_zero :
  dollar_digit "$05" = true /\ refs_fixed_ok 2 "$05" = false /\
  rewrite_refs_at 2 "$05" = "${0}5" /\
  go_expand 2 gshow (rewrite_refs_at 2 "$05") = "<0>5" /\ fo_expand 2 gshow "$05" = "" /\
  go_expand 2 gshow (rewrite_refs_at 2 "$007") = "<0>7" /\ fo_expand 2 gshow "$007" = "" /\
  go_expand 0 gshow (rewrite_refs_at 0 "$01") = "<0>1" /\ fo_expand 0 gshow "$01" = "" /\
  go_expand 2 gshow (rewrite_refs_at 2 "$050") = "<0>50" /\ fo_expand 2 gshow "$050" = "0".
Proof. vm_compute. repeat split. Qed.

Theorem rewrite_fixed_fo_unrestricted_refuted :
  ~ (forall nsub group r, String.length (itoa nsub) <= 9 -> dollar_digit r = true ->
       go_expand nsub group (rewrite_refs_at nsub r) = fo_expand nsub group r).
Proof.
  intros H. specialize (H 2 gshow "$05"). vm_compute in H.
  specialize (H ltac:(lia) eq_refl). discriminate H.
Qed.

(* ... which the bound max(nsub, 9) removes *)
Example max9_ex :
  map (fun r => go_expand 2 gshow (rewrite_refs_at (Nat.max 2 9) r))
      ["$05"; "$007"; "$050"; "$35"; "$12"; "$0x"; "$01"; "$99"]
  = map (fo_expand 2 gshow) ["$05"; "$007"; "$050"; "$35"; "$12"; "$0x"; "$01"; "$99"] /\
  map (rewrite_refs_at (Nat.max 2 9)) ["$05"; "$007"; "$050"; "$35"; "$12"; "$01"]
  = ["${5}"; "${7}"; "${5}0"; "${3}5"; "${1}2"; "${1}"] /\
  go_expand 0 gshow (rewrite_refs_at (Nat.max 0 9) "$01$10") = "0" /\
  fo_expand 0 gshow "$01$10" = "0".
Proof. vm_compute. repeat split. Qed.

(* ---- The requested statement against [xpath_expand] is FALSE ----
   "$35", 2 groups: the engine now follows F&O rule 4 ("$3" empty, then the
   literal "5"); [xpath_expand] (all the digits form an out-of-range number)
   yields "".  The difference lies in the simplified specification. *)
Example fixed_differs_xpath_rule4 :
  dollar_digit "$35" = true /\ refs_fixed_ok 2 "$35" = true /\ refs_fo_agree 2 "$35" = false /\
  go_expand 2 gshow (rewrite_refs_at 2 "$35") = "5" /\ fo_expand 2 gshow "$35" = "5" /\
  xpath_expand 2 gshow "$35" = "" /\
  go_expand 0 gshow (rewrite_refs_at 0 "$12") = "2" /\ xpath_expand 0 gshow "$12" = "".
Proof. vm_compute. repeat split. Qed.

Theorem rewrite_fixed_correct_unrestricted_refuted :
  ~ (forall nsub group r, String.length (itoa nsub) <= 9 -> dollar_digit r = true ->
       go_expand nsub group (rewrite_refs_at nsub r) = xpath_expand nsub group r).
Proof.
  intros H. specialize (H 2 gshow "$35"). vm_compute in H.
  specialize (H ltac:(lia) eq_refl). discriminate H.
Qed.

(* the hypotheses of rewrite_fixed_correct_xp / rewrite_fixed_fo_plain hold on a
   non-trivial template, whatever follows the references *)
Example fixed_hyps_ex :
  let r := "($2,$1)$1x$2_ $10 [$0]$0y" in
  dollar_digit r = true /\ refs_no_zero_digit r = true /\
  refs_xp_ok 2 r = true /\ refs_xp_ok 12 r = true /\
  go_expand 2 gshow (rewrite_refs_at 2 r) = "(<2>,<1>)<1>x<2>_ <1>0 [<0>]<0>y" /\
  go_expand 12 gshow (rewrite_refs_at 12 r) = "(<2>,<1>)<1>x<2>_ <10> [<0>]<0>y".
Proof. vm_compute. repeat split. Qed.

(* outside the fragment: already braced input and "$$" are not preserved *)
Example fixed_not_idempotent :
  rewrite_refs_at 2 "$1" = "${1}" /\ rewrite_refs_at 2 "${1}" = "${1}" /\
  rewrite_refs_at 2 "$$1" = "$${1}" /\
  go_expand 2 gshow (rewrite_refs_at 2 "$$1") = "${1}" /\
  rewrite_refs_at 2 "a-b" = "a-b" /\ rewrite_refs_at 2 "100$" = "100$".
Proof. vm_compute. repeat split. Qed.

(* ==================================================================
   SUMMARY

   rewrite_go_fuel_enough   f > |s| -> rewrite_go f m s = rewrite_go (S |s|) m s
   rewrite_refs_no_dollar   a string without '$' is unchanged
   rewrite_refs_no_ref      ... more generally, if no '$' is followed by a digit
   rewrite_refs_copy / rewrite_refs_ref     the two equations of the scanner
   pick_ref_spec            what is braced: the longest prefix of the digits
                            with value <= m, or the first digit alone

   rewrite_fixed_fo         dollar_digit r, refs_fixed_ok nsub r  (no prefix of
                            two or more digits has a value in (nsub, 9], i.e.
                            no "$0..0d" with d > nsub), |itoa nsub| <= 9:
                              go_expand nsub g (rewrite_refs_at nsub r) = fo_expand nsub g r
     rewrite_fixed_fo_plain   ... when "$0" is never followed by a digit
     rewrite_fixed_fo_9       ... when nsub >= 9: no side condition
     rewrite_fixed_fo_unrestricted_refuted   "$05" with 2 groups
   rewrite_max9_fo          with the bound max(nsub, 9): ALL dollar_digit r

   fo_expand_xpath_expand_gen   fo_expand = xpath_expand when every reference
                            has a prefix naming a group or a value <= 9
   rewrite_fixed_correct    engine = xpath_expand under refs_fixed_ok and
                            refs_fo_agree;  _xp: under the single condition
                            refs_xp_ok
     rewrite_fixed_correct_unrestricted_refuted   "$35" with 2 groups (there
                            the engine agrees with F&O, xpath_expand does not)
   ================================================================== *)
